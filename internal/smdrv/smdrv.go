// Package smdrv drives the library's secure messaging (terminal side, real code) against the
// independent chip-side implementation refcrypto.SM. Shared by C03 and C10.
package smdrv

import (
	"fmt"

	"github.com/gmrtd/gmrtd/cryptoutils"
	"github.com/gmrtd/gmrtd/iso7816"

	"verif/internal/ref7816"
	"verif/internal/refcrypto"
)

var Algs = []refcrypto.Alg{refcrypto.TDES, refcrypto.AES128, refcrypto.AES192, refcrypto.AES256}

// Keys derives a deterministic key pair for an algorithm from a label.
func Keys(alg refcrypto.Alg, label string) (enc, mac []byte) {
	seed := []byte("verif-sm-keys/" + label)
	return refcrypto.KDF(seed, 1, alg), refcrypto.KDF(seed, 2, alg)
}

// SSCStart returns the initial counter for a class: 0 zero, 1 BAC-style/mid, 2 about to wrap (2^n-2), 3 = 2^n-3.
func SSCStart(alg refcrypto.Alg, class int) []byte {
	b := make([]byte, alg.Block())
	switch class {
	case 1:
		for i := range b {
			b[i] = byte(0x88 + 7*i)
		}
	case 2:
		for i := range b {
			b[i] = 0xFF
		}
		b[len(b)-1] = 0xFE
	case 3:
		for i := range b {
			b[i] = 0xFF
		}
		b[len(b)-1] = 0xFD
	}
	return b
}

func LibAlg(a refcrypto.Alg) cryptoutils.BlockCipherAlg {
	if a == refcrypto.TDES {
		return cryptoutils.TDES
	}
	return cryptoutils.AES
}

// NewLibSM builds the library's SecureMessaging with the given keys and counter.
func NewLibSM(alg refcrypto.Alg, enc, mac, ssc []byte) (*iso7816.SecureMessaging, error) {
	sm, err := iso7816.NewSecureMessaging(LibAlg(alg), append([]byte{}, enc...), append([]byte{}, mac...))
	if err != nil {
		return nil, err
	}
	if err := sm.SetSSC(ssc); err != nil {
		return nil, err
	}
	return sm, nil
}

// Wire is a Transceiver whose answer to each exchange is produced by a callback.
type Wire struct {
	F    func(n int, cmd []byte) []byte
	N    int
	Cmds [][]byte
}

func (w *Wire) Transceive(cla, ins, p1, p2 int, data []byte, le int, encoded []byte) []byte {
	w.Cmds = append(w.Cmds, append([]byte{}, encoded...))
	r := w.F(w.N, encoded)
	w.N++
	return r
}

// ChipUnwrap parses a wire command with the independent ISO 7816-4 parser and authenticates/decrypts it
// with the chip-side SM.
func ChipUnwrap(sm *refcrypto.SM, wire []byte) (*refcrypto.PlainCmd, error) {
	pc, err := ref7816.ParseCommand(wire)
	if err != nil {
		return nil, fmt.Errorf("not an ISO 7816-4 command: %w", err)
	}
	var hd [4]byte
	copy(hd[:], wire[:4])
	return sm.Unwrap(hd, pc.Data, pc.Le, pc.Extended)
}
