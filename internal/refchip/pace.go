package refchip

import (
	"bytes"
	"crypto/sha1"
	"math/big"

	"verif/internal/ref7816"
	"verif/internal/refcrypto"
	"verif/internal/refpki"
)

// ---- object identifiers (BSI TR-03110 / ICAO 9303-11 §9.2) as DER content octets ----

// id-PACE = 0.4.0.127.0.7.2.2.4 ; mapping: 1 DH-GM 2 ECDH-GM 3 DH-IM 4 ECDH-IM 6 ECDH-CAM ; cipher: 1 3DES 2 AES128 3 AES192 4 AES256
var oidPACEPrefix = []byte{0x04, 0x00, 0x7F, 0x00, 0x07, 0x02, 0x02, 0x04}

// id-CA = 0.4.0.127.0.7.2.2.3 ; 1 DH 2 ECDH ; cipher as above
var oidCAPrefix = []byte{0x04, 0x00, 0x7F, 0x00, 0x07, 0x02, 0x02, 0x03}

func PACEOid(mapping, cipher int) []byte {
	return append(append([]byte{}, oidPACEPrefix...), byte(mapping), byte(cipher))
}
func CAOid(kind, cipher int) []byte {
	return append(append([]byte{}, oidCAPrefix...), byte(kind), byte(cipher))
}

// OIDString renders DER content octets of an OID in dotted form.
func OIDString(b []byte) string {
	if len(b) == 0 {
		return ""
	}
	out := []int{int(b[0]) / 40, int(b[0]) % 40}
	v := 0
	for _, o := range b[1:] {
		v = v<<7 | int(o&0x7f)
		if o&0x80 == 0 {
			out = append(out, v)
			v = 0
		}
	}
	s := ""
	for i, x := range out {
		if i > 0 {
			s += "."
		}
		s += itoa(x)
	}
	return s
}

func itoa(v int) string {
	if v == 0 {
		return "0"
	}
	var b []byte
	for v > 0 {
		b = append([]byte{byte('0' + v%10)}, b...)
		v /= 10
	}
	return string(b)
}

func algOfCipher(c int) (refcrypto.Alg, bool) {
	switch c {
	case 1:
		return refcrypto.TDES, true
	case 2:
		return refcrypto.AES128, true
	case 3:
		return refcrypto.AES192, true
	case 4:
		return refcrypto.AES256, true
	}
	return 0, false
}

// StdCurve maps a standardized domain parameter id (9303-11 §9.5.1) to the curve name.
func StdCurve(id int) string {
	return map[int]string{8: "P-192", 9: "brainpoolP192r1", 10: "P-224", 11: "brainpoolP224r1", 12: "P-256", 13: "brainpoolP256r1",
		14: "brainpoolP320r1", 15: "P-384", 16: "brainpoolP384r1", 17: "brainpoolP512r1", 18: "P-521"}[id]
}

// PACEProto is one PACE protocol the chip supports.
type PACEProto struct {
	Mapping int // 2 = ECDH-GM, 6 = ECDH-CAM
	Cipher  int // 1..4
	ParamID int // 8..18
}

// PACEConf is the PACE personalisation.
type PACEConf struct {
	Protos []PACEProto
	// PasswordKeys: reference 1 = MRZ, 2 = CAN -> the shared secret input K (SHA-1 of MRZ information, or the CAN bytes)
	Passwords map[int][]byte
	// CAMKey is the static key used by the chip-authentication mapping (its public part is in CardSecurity).
	CAMKey *refpki.ECPrivateKey
	// NoPwdNonce (hostile): a device that does NOT know the password. It cannot produce an encrypted nonce whose
	// decryption it knows, so it sends these bytes as the encrypted nonce and carries on HONESTLY under the
	// assumption that the terminal will use the nonce value zero. (For a non-empty value the terminal's
	// decryption is unpredictable to it; the empty string decrypts to the empty nonce whatever the key.)
	NoPwdNonce *[]byte
}

// PasswordFromMRZInfo returns K = SHA-1(MRZ information) (9303-11 §9.7.3).
func PasswordFromMRZInfo(info string) []byte { h := sha1.Sum([]byte(info)); return h[:] }

type paceState struct {
	proto        PACEProto
	alg          refcrypto.Alg
	oid          []byte
	curve        *refpki.Curve
	kPi          []byte
	step         int
	s            []byte
	skMap        *big.Int
	gx, gy       *big.Int // mapped generator
	skEph        *big.Int
	pkICx, pkICy *big.Int
	pkIFD        []byte
	k            []byte // shared secret (fixed width x-coordinate)
	ksEnc, ksMac []byte
}

// tlv helpers (1-byte tags, definite lengths)
func tlv1(tag byte, v []byte) []byte {
	out := []byte{tag}
	switch {
	case len(v) < 0x80:
		out = append(out, byte(len(v)))
	case len(v) < 0x100:
		out = append(out, 0x81, byte(len(v)))
	default:
		out = append(out, 0x82, byte(len(v)>>8), byte(len(v)))
	}
	return append(out, v...)
}

type tlvItem struct {
	tag byte
	val []byte
}

func parseTLV1(b []byte) ([]tlvItem, bool) {
	var out []tlvItem
	for len(b) > 0 {
		if len(b) < 2 || b[0]&0x1f == 0x1f {
			return nil, false
		}
		l, hl := int(b[1]), 2
		switch {
		case b[1] < 0x80:
		case b[1] == 0x81 && len(b) >= 3:
			l, hl = int(b[2]), 3
		case b[1] == 0x82 && len(b) >= 4:
			l, hl = int(b[2])<<8|int(b[3]), 4
		default:
			return nil, false
		}
		if len(b) < hl+l {
			return nil, false
		}
		out = append(out, tlvItem{b[0], b[hl : hl+l]})
		b = b[hl+l:]
	}
	return out, true
}

func find(items []tlvItem, tag byte) []byte {
	for _, i := range items {
		if i.tag == tag {
			return i.val
		}
	}
	return nil
}

// dynAuth extracts the single data object of a 7C template.
func dynAuth(data []byte) ([]tlvItem, bool) {
	top, ok := parseTLV1(data)
	if !ok || len(top) != 1 || top[0].tag != 0x7C {
		return nil, false
	}
	return parseTLV1(top[0].val)
}

func (c *Chip) randScalar(curve *refpki.Curve) *big.Int {
	l := (curve.N.BitLen() + 7) / 8
	for {
		b := c.Rand.Bytes(l)
		k := new(big.Int).SetBytes(b)
		// chosen scalars from the explorer are used as they are when in range; otherwise reduce
		if k.Sign() > 0 && k.Cmp(curve.N) < 0 {
			return k
		}
		k.Mod(k, new(big.Int).Sub(curve.N, big.NewInt(1)))
		k.Add(k, big.NewInt(1))
		return k
	}
}

func (c *Chip) doMSE(cmd *ref7816.Cmd) ([]byte, uint16) {
	items, ok := parseTLV1(cmd.Data)
	if !ok {
		return nil, 0x6A80
	}
	switch {
	case cmd.P1 == 0xC1 && cmd.P2 == 0xA4:
		return c.mseSetATPace(items)
	case cmd.P1 == 0x41 && cmd.P2 == 0xA4:
		return c.mseSetATCA(items)
	case cmd.P1 == 0x41 && cmd.P2 == 0xA6:
		return c.mseSetKAT(items)
	}
	return nil, 0x6A86
}

func (c *Chip) mseSetATPace(items []tlvItem) ([]byte, uint16) {
	c.pace = nil
	if c.PACE == nil {
		return nil, 0x6A80
	}
	oid := find(items, 0x80)
	ref := find(items, 0x83)
	pid := find(items, 0x84)
	if len(oid) != len(oidPACEPrefix)+2 || !bytes.Equal(oid[:len(oidPACEPrefix)], oidPACEPrefix) || len(ref) != 1 {
		return nil, 0x6A80
	}
	mapping, cipher := int(oid[len(oid)-2]), int(oid[len(oid)-1])
	var sel *PACEProto
	for i := range c.PACE.Protos {
		p := &c.PACE.Protos[i]
		if p.Mapping == mapping && p.Cipher == cipher {
			if pid == nil || (len(pid) == 1 && int(pid[0]) == p.ParamID) {
				sel = p
				break
			}
		}
	}
	if sel == nil {
		return nil, 0x6A80
	}
	pw := c.PACE.Passwords[int(ref[0])]
	if pw == nil {
		return nil, 0x6A88
	}
	alg, ok := algOfCipher(sel.Cipher)
	if !ok || StdCurve(sel.ParamID) == "" {
		return nil, 0x6A80
	}
	c.pace = &paceState{proto: *sel, alg: alg, oid: append([]byte{}, oid...), curve: refpki.CurveByName(StdCurve(sel.ParamID)), kPi: refcrypto.KDF(pw, 3, alg)}
	return nil, 0x9000
}

// FE2OS: fixed-width field element (BSI TR-03111 §3.1.3); the ECKA shared secret is the x-coordinate in this form.
func fe2os(curve *refpki.Curve, x *big.Int) []byte { return x.FillBytes(make([]byte, curve.ByteLen())) }

func (c *Chip) doGeneralAuth(cmd *ref7816.Cmd, protected bool) ([]byte, uint16) {
	if c.ca != nil && c.ca.awaitGA {
		return c.generalAuthCA(cmd)
	}
	p := c.pace
	if p == nil {
		return nil, 0x6985
	}
	fail := func(sw uint16) ([]byte, uint16) { c.pace = nil; return nil, sw }
	items, ok := dynAuth(cmd.Data)
	if !ok {
		return fail(0x6A80)
	}
	curve := p.curve
	switch p.step {
	case 0: // encrypted nonce
		if len(items) != 0 {
			return fail(0x6A80)
		}
		n := 16
		if p.alg == refcrypto.AES192 || p.alg == refcrypto.AES256 {
			n = 32
		}
		p.s = c.Rand.Bytes(n)
		z := refcrypto.CBCEncrypt(p.alg, p.kPi, make([]byte, p.alg.Block()), p.s)
		if c.PACE.NoPwdNonce != nil {
			p.s, z = nil, append([]byte{}, *c.PACE.NoPwdNonce...)
		}
		p.step = 1
		return tlv1(0x7C, tlv1(0x80, z)), 0x9000
	case 1: // map nonce
		pk := find(items, 0x81)
		x, y, ok := curve.DecodePoint(pk)
		if !ok || len(items) != 1 {
			return fail(0x6A80)
		}
		p.skMap = c.randScalar(curve)
		mx, my := curve.ScalarMult(curve.Gx, curve.Gy, p.skMap)
		hx, hy := curve.ScalarMult(x, y, p.skMap)
		if hx == nil {
			return fail(0x6A80)
		}
		s := new(big.Int).SetBytes(p.s)
		s.Mod(s, curve.N)
		sgx, sgy := curve.ScalarMult(curve.Gx, curve.Gy, s)
		p.gx, p.gy = curve.Add(sgx, sgy, hx, hy)
		if p.gx == nil {
			return fail(0x6A80)
		}
		p.step = 2
		return tlv1(0x7C, tlv1(0x82, curve.EncodePoint(mx, my))), 0x9000
	case 2: // key agreement
		pk := find(items, 0x83)
		x, y, ok := curve.DecodePoint(pk)
		if !ok || len(items) != 1 {
			return fail(0x6A80)
		}
		p.skEph = c.randScalar(curve)
		p.pkICx, p.pkICy = curve.ScalarMult(p.gx, p.gy, p.skEph)
		kx, _ := curve.ScalarMult(x, y, p.skEph)
		if kx == nil || p.pkICx == nil {
			return fail(0x6A80)
		}
		if x.Cmp(p.pkICx) == 0 && y.Cmp(p.pkICy) == 0 {
			return fail(0x6A80) // 9303-11 §4.4.1 d)
		}
		p.pkIFD = append([]byte{}, pk...)
		p.k = fe2os(curve, kx)
		c.Truth.PACELastK = p.k
		p.ksEnc, p.ksMac = refcrypto.KDF(p.k, 1, p.alg), refcrypto.KDF(p.k, 2, p.alg)
		p.step = 3
		return tlv1(0x7C, tlv1(0x84, curve.EncodePoint(p.pkICx, p.pkICy))), 0x9000
	case 3: // mutual authentication
		t := find(items, 0x85)
		if len(items) != 1 {
			return fail(0x6A80)
		}
		want := c.paceToken(p, curve.EncodePoint(p.pkICx, p.pkICy))
		if !bytes.Equal(t, want) {
			return fail(0x6300)
		}
		resp := tlv1(0x86, c.paceToken(p, p.pkIFD))
		cam := false
		if p.proto.Mapping == 6 {
			if c.PACE.CAMKey == nil {
				return fail(0x6A88)
			}
			// CA_IC = SK_IC^-1 * SK_Map,IC mod n  (9303-11 §4.4.3.5.1)
			inv := new(big.Int).ModInverse(c.PACE.CAMKey.D, curve.N)
			ca := new(big.Int).Mul(inv, p.skMap)
			ca.Mod(ca, curve.N)
			caBytes := ca.FillBytes(make([]byte, (curve.N.BitLen()+7)/8))
			iv := refcrypto.ECBEncryptBlock(p.alg, p.ksEnc, bytes.Repeat([]byte{0xFF}, p.alg.Block()))
			ecad := refcrypto.CBCEncrypt(p.alg, p.ksEnc, iv, refcrypto.Pad(caBytes, p.alg.Block()))
			resp = append(resp, tlv1(0x8A, ecad)...)
			cam = true
		}
		c.SM = refcrypto.NewSM(p.alg, p.ksEnc, p.ksMac, make([]byte, p.alg.Block()))
		c.smByPACE = true
		c.Truth.PACECompleted = true
		c.Truth.PACEOid = OIDString(p.oid)
		c.Truth.PACEParamID = p.proto.ParamID
		c.Truth.PACECAM = cam
		c.pace = nil
		return tlv1(0x7C, resp), 0x9000
	}
	return fail(0x6985)
}

// paceToken = MAC(KS_MAC, 7F49 { 06 oid, 86 public key }) (9303-11 §4.4.3.4)
func (c *Chip) paceToken(p *paceState, pub []byte) []byte {
	obj := append(tlv1(0x06, p.oid), tlv1(0x86, pub)...)
	data := append([]byte{0x7F, 0x49}, tlv1(0x00, obj)[1:]...)
	if p.alg == refcrypto.TDES {
		return refcrypto.RetailMAC(p.ksMac, refcrypto.Pad(data, 8))
	}
	return refcrypto.CMAC(p.ksMac, data)[:8]
}
