package refchip

import (
	"crypto/sha256"
	"encoding/binary"
)

// DetRand is a deterministic byte source (SHA-256 in counter mode over a label) with an optional queue of
// explicit values that are served first (used to drive chosen nonces / scalars).
type DetRand struct {
	label string
	ctr   uint64
	buf   []byte
	Queue [][]byte
	Reads int
}

func NewDetRand(label string) *DetRand { return &DetRand{label: label} }

func (r *DetRand) Read(p []byte) (int, error) {
	r.Reads++
	if len(r.Queue) > 0 && len(r.Queue[0]) == len(p) {
		copy(p, r.Queue[0])
		r.Queue = r.Queue[1:]
		return len(p), nil
	}
	for len(r.buf) < len(p) {
		var c [8]byte
		binary.BigEndian.PutUint64(c[:], r.ctr)
		r.ctr++
		h := sha256.Sum256(append([]byte(r.label), c[:]...))
		r.buf = append(r.buf, h[:]...)
	}
	copy(p, r.buf[:len(p)])
	r.buf = r.buf[len(p):]
	return len(p), nil
}

func (r *DetRand) Bytes(n int) []byte {
	b := make([]byte, n)
	r.Read(b)
	return b
}
