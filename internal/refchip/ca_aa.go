package refchip

import (
	"bytes"
	"crypto/rsa"
	"math/big"

	"verif/internal/ref7816"
	"verif/internal/refcrypto"
	"verif/internal/refpki"
)

// CAKey is one chip-authentication key pair with the protocol the chip runs for it.
type CAKey struct {
	KeyID  *int // nil = no key identifier
	Key    *refpki.ECPrivateKey
	Cipher int // 1..4 (cipher of the ChipAuthenticationInfo; 1 = 3DES also for MSE:Set KAT)
	// NoPrivateKey: the chip does not hold the private key (clone); it answers but derives keys from garbage.
	NoPrivateKey bool
	// AlsoCiphers: further suites advertised for the same key (several ChipAuthenticationInfo entries, one key)
	AlsoCiphers []int
}

func (k *CAKey) offers(cipher int) bool {
	if cipher == k.Cipher {
		return true
	}
	for _, c := range k.AlsoCiphers {
		if c == cipher {
			return true
		}
	}
	return false
}

type caState struct {
	key                 *CAKey
	cipher              int // suite named by MSE:Set AT (one of the key's advertised suites)
	awaitGA             bool
	pendingConfirm      bool
	switchAfterResponse *refcrypto.SM
}

func (c *Chip) findCAKey(keyID []byte) *CAKey {
	if len(c.CA) == 0 {
		return nil
	}
	if keyID == nil {
		if len(c.CA) == 1 {
			return c.CA[0]
		}
		// several keys and no identifier: the reference is ambiguous
		return nil
	}
	if len(keyID) == 0 {
		// a key reference data object without content names no key (the reference is the INTEGER's content
		// octets, of which there is at least one: key identifier 0 is '00')
		return nil
	}
	id := int(new(big.Int).SetBytes(keyID).Int64())
	for _, k := range c.CA {
		if k.KeyID != nil && *k.KeyID == id {
			return k
		}
	}
	return nil
}

func (c *Chip) mseSetATCA(items []tlvItem) ([]byte, uint16) {
	c.ca = nil
	oid := find(items, 0x80)
	if len(oid) != len(oidCAPrefix)+2 || !bytes.Equal(oid[:len(oidCAPrefix)], oidCAPrefix) || oid[len(oid)-2] != 2 {
		return nil, 0x6A80
	}
	k := c.findCAKey(find(items, 0x84))
	if k == nil {
		return nil, 0x6A88
	}
	if !k.offers(int(oid[len(oid)-1])) {
		return nil, 0x6A80
	}
	if c.SM == nil && !c.NoAccessRules {
		return nil, 0x6982
	}
	c.ca = &caState{key: k, cipher: int(oid[len(oid)-1]), awaitGA: true}
	return nil, 0x9000
}

func (c *Chip) caAgree(k *CAKey, cipher int, pk []byte) bool {
	curve := k.Key.Curve
	x, y, ok := curve.DecodePoint(pk)
	if !ok {
		return false
	}
	d := k.Key.D
	if k.NoPrivateKey {
		d = new(big.Int).SetBytes(c.Rand.Bytes(8)) // a clone has to guess
		d.Add(d, big.NewInt(2))
	}
	kx, _ := curve.ScalarMult(x, y, d)
	if kx == nil {
		return false
	}
	alg, _ := algOfCipher(cipher)
	secret := fe2os(curve, kx)
	c.Truth.CALastK = secret
	sm := refcrypto.NewSM(alg, refcrypto.KDF(secret, 1, alg), refcrypto.KDF(secret, 2, alg), make([]byte, alg.Block()))
	if c.ca == nil {
		c.ca = &caState{key: k, cipher: cipher}
	}
	c.ca.awaitGA = false
	c.ca.switchAfterResponse = sm
	c.Truth.CALastSM = sm.Clone()
	return true
}

func (c *Chip) generalAuthCA(cmd *ref7816.Cmd) ([]byte, uint16) {
	st := c.ca
	items, ok := dynAuth(cmd.Data)
	pk := find(items, 0x80)
	if !ok || len(items) != 1 || pk == nil {
		c.ca = nil
		return nil, 0x6A80
	}
	if !c.caAgree(st.key, st.cipher, pk) {
		c.ca = nil
		return nil, 0x6A80
	}
	return []byte{0x7C, 0x00}, 0x9000
}

// MSE:Set KAT (3DES style chip authentication): 91 = ephemeral public key, 84 = key id
func (c *Chip) mseSetKAT(items []tlvItem) ([]byte, uint16) {
	c.ca = nil
	pk := find(items, 0x91)
	if pk == nil {
		return nil, 0x6A80
	}
	k := c.findCAKey(find(items, 0x84))
	if k == nil {
		return nil, 0x6A88
	}
	if !k.offers(1) {
		return nil, 0x6A80 // MSE:Set KAT is defined for 3DES only
	}
	if c.SM == nil && !c.NoAccessRules {
		return nil, 0x6982
	}
	if !c.caAgree(k, 1, pk) {
		c.ca = nil
		return nil, 0x6A80
	}
	return nil, 0x9000
}

// AAKey is the active-authentication key.
type AAKey struct {
	RSA     *rsa.PrivateKey
	EC      *refpki.ECPrivateKey
	Trailer string // RSA: "BC" (SHA-1), "38CC" (SHA-224), "34CC" (SHA-256), "36CC" (SHA-384), "35CC" (SHA-512)
	ECDER   bool   // EC: DER instead of plain r||s
	ECHash  refpki.Hash
	M1      func(n int) []byte // RSA: chip-chosen message part M1 of n bytes (nil = from chip randomness)
}

func trailerHash(t string) (refpki.Hash, []byte) {
	switch t {
	case "BC":
		return refpki.SHA1, []byte{0xBC}
	case "38CC":
		return refpki.SHA224, []byte{0x38, 0xCC}
	case "34CC":
		return refpki.SHA256, []byte{0x34, 0xCC}
	case "36CC":
		return refpki.SHA384, []byte{0x36, 0xCC}
	case "35CC":
		return refpki.SHA512, []byte{0x35, 0xCC}
	}
	panic("refchip: unknown AA trailer " + t)
}

// AASignRSA produces the ISO/IEC 9796-2 digital signature scheme 1 signature used by active authentication
// (9303-11 §6.1): F = 6A || M1 || H(M1 || RND.IFD) || trailer, |F| = modulus length in octets, S = F^d mod n.
func AASignRSA(key *rsa.PrivateKey, trailer string, m1 []byte, rnd []byte) []byte {
	h, tr := trailerHash(trailer)
	d := h.Sum(append(append([]byte{}, m1...), rnd...))
	f := append([]byte{0x6A}, m1...)
	f = append(f, d...)
	f = append(f, tr...)
	s := new(big.Int).Exp(new(big.Int).SetBytes(f), key.D, key.N)
	return s.FillBytes(make([]byte, (key.N.BitLen()+7)/8))
}

// AAM1Len is the length of M1 for a modulus of k octets: k - 1 - hashLen - trailerLen. For moduli whose bit
// length is not a multiple of 8 the message representative uses one octet less so that F < n.
func AAM1Len(key *rsa.PrivateKey, trailer string) int {
	h, tr := trailerHash(trailer)
	k := (key.N.BitLen() + 7) / 8
	if key.N.BitLen()%8 != 0 {
		k--
	}
	return k - 1 - h.Size() - len(tr)
}

func (c *Chip) doInternalAuth(cmd *ref7816.Cmd) ([]byte, uint16) {
	if c.AA == nil {
		return nil, 0x6D00
	}
	if c.SM == nil && !c.NoAccessRules {
		return nil, 0x6982
	}
	if len(cmd.Data) != 8 {
		return nil, 0x6700
	}
	c.Truth.AAChallenges = append(c.Truth.AAChallenges, append([]byte{}, cmd.Data...))
	c.Truth.AASigned++
	if c.AA.RSA != nil {
		n := AAM1Len(c.AA.RSA, c.AA.Trailer)
		var m1 []byte
		if c.AA.M1 != nil {
			m1 = c.AA.M1(n)
		} else {
			m1 = c.Rand.Bytes(n)
		}
		return AASignRSA(c.AA.RSA, c.AA.Trailer, m1, cmd.Data), 0x9000
	}
	k := c.AA.EC
	r, s := k.SignDigest(c.AA.ECHash.Sum(cmd.Data))
	if c.AA.ECDER {
		return refpki.ECDSASigDER(r, s), 0x9000
	}
	l := (k.Curve.N.BitLen() + 7) / 8
	return append(r.FillBytes(make([]byte, l)), s.FillBytes(make([]byte, l))...), 0x9000
}
