package refchip

import (
	"verif/internal/ref7816"
	"verif/internal/refcrypto"
)

type PACEConf struct{}
type CAKey struct{}
type AAKey struct{}
type paceState struct{}
type caState struct {
	pendingConfirm      bool
	switchAfterResponse *refcrypto.SM
}

func (c *Chip) doMSE(cmd *ref7816.Cmd) ([]byte, uint16)                        { return nil, 0x6D00 }
func (c *Chip) doGeneralAuth(cmd *ref7816.Cmd, protected bool) ([]byte, uint16) { return nil, 0x6D00 }
func (c *Chip) doInternalAuth(cmd *ref7816.Cmd) ([]byte, uint16)               { return nil, 0x6D00 }
