// Package refchip is an independent ICAO 9303-10/-11 chip (no gmrtd imports): ISO 7816-4 command
// parsing, MF / LDS1 DF file system with access conditions, SELECT, READ BINARY (even and odd INS,
// offset and short-EF-identifier addressing), GET CHALLENGE / EXTERNAL AUTHENTICATE (BAC), PACE
// (ECDH generic mapping and chip-authentication mapping), Chip Authentication v1, Active Authentication
// and chip-side secure messaging. It implements the shape of iso7816.Transceiver structurally.
//
// The chip keeps its own truth (Truth): which protocols IT completed, the transcript it saw, its
// counter. Oracles compare the library's claims with that, never with the library's own bookkeeping.
package refchip

import (
	"bytes"
	"fmt"

	"verif/internal/ref7816"
	"verif/internal/refcrypto"
)

var AIDLDS1 = []byte{0xA0, 0x00, 0x00, 0x02, 0x47, 0x10, 0x01}

type Access int

const (
	AccFree   Access = iota // readable without secure messaging
	AccSM                   // needs a secure-messaging session (BAC or PACE)
	AccPACESM               // needs a PACE session (CardSecurity)
)

type EF struct {
	FID    uint16
	SFI    byte
	Data   []byte // physical contents (TLV, possibly followed by padding)
	Access Access
}

// Exchange is one entry of the chip's transcript.
type Exchange struct {
	Wire      []byte // command as received
	Protected bool   // arrived inside secure messaging and authenticated
	Plain     *ref7816.Cmd
	RespData  []byte // plaintext response data
	SW        uint16
	WireResp  []byte
	Note      string
}

// Truth is what the chip itself knows happened.
type Truth struct {
	BACCompleted       bool
	PACECompleted      bool
	PACEOid            string
	PACEParamID        int
	PACECAM            bool // CAM data was sent with a completed PACE
	CACompleted        bool // key agreement done and a command under the new keys authenticated
	CAKeysInstalled    bool
	PACELastK          []byte        // last PACE key-agreement secret the chip derived (fixed-width x-coordinate), for classification only
	CALastK            []byte        // last chip-authentication secret
	CALastSM           *refcrypto.SM // copy of the session the chip derived in its last chip authentication (initial state)
	AASigned           int           // number of INTERNAL AUTHENTICATE signatures produced
	AAChallenges       [][]byte
	SMAborted          int
	UnprotectedWhileSM int
	ReadBinaries       int
	Selects            int
}

// ReadReq describes a READ BINARY the chip is about to answer.
type ReadReq struct {
	FID    uint16
	Offset int
	Ne     int // requested
	Avail  int // bytes available from offset
	Index  int // running number of READ BINARY commands
}

type Chip struct {
	MF  map[uint16]*EF
	LDS map[uint16]*EF

	// personality
	ExtendedLen bool // accepts extended-length APDUs
	LeCap       int  // READ BINARY with Ne above this is rejected with 6700 (0 = no cap)
	// MFFilesFromApplication: SELECT by file identifier falls back to the master file's EFs when the current
	// application has no such file (many chips resolve EF.DIR / EF.CardAccess this way; the library reads EF.DIR
	// after selecting the LDS application)
	MFFilesFromApplication bool
	Lenient2E              bool // accept the 6-byte "CLA INS P1 P2 LeHi LeLo" form for READ BINARY (non-ISO, emitted by gmrtd for Le>256 without data)
	NoAccessRules          bool // file-only personality: every file readable in the clear
	StrictNe               bool // authentication answers longer than the command's Ne are refused (6Cxx), never sent in full
	ImplicitMFOnly         bool // SELECT MF only in the form without data
	// ReadChoice decides how many bytes (1..min(Ne,Avail)) a READ BINARY returns; nil = all. Returning 0 means "reject with 6700".
	ReadChoice func(r ReadReq) int
	// Fault hook: called with the exchange index and the genuine wire response; may return a replacement.
	Fault func(n int, genuine []byte) []byte
	// Hostile hooks (nil = conforming behaviour)
	Hostile *Hostile

	Rand *DetRand // chip-side randomness (nonces, ephemeral keys)

	// protocol personalisation
	BAC  *BACKeys
	PACE *PACEConf
	CA   []*CAKey
	AA   *AAKey

	// state
	curDF    int // 0 = MF, 1 = LDS1
	curEF    *EF
	SM       *refcrypto.SM
	smByPACE bool
	bacRndIC []byte
	pace     *paceState
	ca       *caState
	Truth    Truth
	Log      []*Exchange
}

func NewChip() *Chip {
	return &Chip{MF: map[uint16]*EF{}, LDS: map[uint16]*EF{}, ExtendedLen: true, Rand: NewDetRand("chip")}
}

func (c *Chip) AddMF(fid uint16, sfi byte, data []byte, acc Access) {
	c.MF[fid] = &EF{FID: fid, SFI: sfi, Data: data, Access: acc}
}
func (c *Chip) AddLDS(fid uint16, sfi byte, data []byte, acc Access) {
	c.LDS[fid] = &EF{FID: fid, SFI: sfi, Data: data, Access: acc}
}

// LDSFID returns the file identifier and short identifier for a data group number (1..16), 0x1D = SOD, 0x1E = COM.
func LDSFID(dg int) (uint16, byte) {
	switch dg {
	case 0x1D:
		return 0x011D, 0x1D
	case 0x1E:
		return 0x011E, 0x1E
	}
	return 0x0100 + uint16(dg), byte(dg)
}

func (c *Chip) files() map[uint16]*EF {
	if c.curDF == 1 {
		return c.LDS
	}
	return c.MF
}

func (c *Chip) accessOK(f *EF) bool {
	if c.NoAccessRules {
		return true
	}
	switch f.Access {
	case AccFree:
		return true
	case AccSM:
		return c.SM != nil
	default:
		return c.SM != nil && c.smByPACE
	}
}

func sw(v uint16) []byte { return []byte{byte(v >> 8), byte(v)} }

// Transceive has the shape of iso7816.Transceiver.Transceive; only the encoded bytes are used.
func (c *Chip) Transceive(cla, ins, p1, p2 int, data []byte, le int, encoded []byte) []byte {
	n := len(c.Log)
	ex := &Exchange{Wire: append([]byte{}, encoded...)}
	c.Log = append(c.Log, ex)
	resp := c.process(ex)
	ex.WireResp = resp
	if c.Fault != nil {
		if r := c.Fault(n, append([]byte{}, resp...)); r != nil {
			return r
		}
	}
	return append([]byte{}, resp...)
}

func (c *Chip) abortSM(note string) {
	if c.SM != nil {
		c.SM = nil
		c.smByPACE = false
		c.Truth.SMAborted++
	}
	c.ca = nil
}

func (c *Chip) process(ex *Exchange) []byte {
	wire := ex.Wire
	cmd, err := ref7816.ParseCommand(wire)
	if c.Lenient2E && len(wire) == 6 && wire[1] == 0xB0 && (err != nil || cmd.Case == "3S") {
		ne := int(wire[4])<<8 | int(wire[5])
		if ne == 0 {
			ne = 65536
		}
		cmd, err = &ref7816.Cmd{CLA: wire[0], INS: wire[1], P1: wire[2], P2: wire[3], Le: ne, Extended: true, Case: "2E-lenient"}, nil
	}
	if err != nil {
		ex.Note = "unparseable: " + err.Error()
		if c.SM != nil {
			c.abortSM("unparseable command")
		}
		ex.SW = 0x6700
		return sw(0x6700)
	}
	if cmd.Extended && !c.ExtendedLen {
		ex.Note = "extended length not supported"
		if c.SM != nil {
			c.abortSM("extended length")
		}
		ex.SW = 0x6700
		return sw(0x6700)
	}
	if c.SM != nil {
		if cmd.CLA&0x0C != 0x0C {
			// 9303-11 §9.8: an unprotected APDU while SM is active aborts the session
			c.Truth.UnprotectedWhileSM++
			c.abortSM("plain APDU during SM")
			// process as a plain command below
		} else {
			var hd [4]byte
			copy(hd[:], wire[:4])
			pc, uerr := c.SM.Unwrap(hd, cmd.Data, cmd.Le, cmd.Extended)
			if uerr != nil {
				ex.Note = "SM error: " + uerr.Error()
				c.abortSM("SM error")
				ex.SW = 0x6988
				return sw(0x6988)
			}
			ex.Protected = true
			plain := &ref7816.Cmd{CLA: 0x00, INS: pc.INS, P1: pc.P1, P2: pc.P2, Data: pc.Data, Le: pc.Ne, Extended: cmd.Extended}
			ex.Plain = plain
			if c.ca != nil && c.ca.pendingConfirm {
				// first command authenticated under the CA keys
				c.ca.pendingConfirm = false
				c.Truth.CACompleted = true
			}
			smBefore := c.SM
			d, s := c.exec(plain, true)
			ex.RespData, ex.SW = d, s
			// the response is protected with the session that authenticated the command; a key switch (CA)
			// takes effect for the NEXT command
			out := smBefore.Wrap(d, s, pc.INS&1 == 1)
			if c.ca != nil && c.ca.switchAfterResponse != nil {
				c.SM = c.ca.switchAfterResponse
				c.ca.switchAfterResponse = nil
				c.ca.pendingConfirm = true
				c.Truth.CAKeysInstalled = true
			}
			return out
		}
	}
	if cmd.CLA&0x0C == 0x0C {
		// protected command but no session
		ex.Note = "SM command without session"
		ex.SW = 0x6988
		return sw(0x6988)
	}
	ex.Plain = cmd
	d, s := c.exec(cmd, false)
	ex.RespData, ex.SW = d, s
	return append(append([]byte{}, d...), sw(s)...)
}

func (c *Chip) exec(cmd *ref7816.Cmd, protected bool) ([]byte, uint16) {
	if c.Hostile != nil && c.Hostile.Exec != nil {
		if d, s, ok := c.Hostile.Exec(c, cmd, protected); ok {
			return d, s
		}
	}
	switch cmd.INS {
	case 0xA4:
		return c.doSelect(cmd)
	case 0xB0:
		return c.doReadBinary(cmd)
	case 0xB1:
		return c.doReadBinaryOdd(cmd)
	case 0x84:
		return c.doGetChallenge(cmd)
	case 0x82:
		return c.doExternalAuth(cmd)
	case 0x22:
		return c.doMSE(cmd)
	case 0x86:
		return c.withinNe(cmd, func() ([]byte, uint16) { return c.doGeneralAuth(cmd, protected) })
	case 0x88:
		return c.withinNe(cmd, func() ([]byte, uint16) { return c.doInternalAuth(cmd) })
	}
	return nil, 0x6D00
}

// withinNe: Ne is the MAXIMUM number of response data bytes (ISO/IEC 7816-4 5.1). A chip with StrictNe set never
// returns more than the command asked for: an authentication answer that does not fit is refused with 6Cxx
// ("wrong Le; xx bytes available") instead of being sent in full.
func (c *Chip) withinNe(cmd *ref7816.Cmd, f func() ([]byte, uint16)) ([]byte, uint16) {
	d, s := f()
	if c.StrictNe && s == 0x9000 && cmd.Le > 0 && len(d) > cmd.Le {
		return nil, 0x6C00 | uint16(len(d)&0xFF)
	}
	return d, s
}

func (c *Chip) doSelect(cmd *ref7816.Cmd) ([]byte, uint16) {
	c.Truth.Selects++
	switch cmd.P1 {
	case 0x00:
		if len(cmd.Data) == 0 || (!c.ImplicitMFOnly && bytes.Equal(cmd.Data, []byte{0x3F, 0x00})) {
			c.curDF, c.curEF = 0, nil
			return nil, 0x9000
		}
		return nil, 0x6A82
	case 0x04:
		if bytes.Equal(cmd.Data, AIDLDS1) {
			c.curDF, c.curEF = 1, nil
			return nil, 0x9000
		}
		return nil, 0x6A82
	case 0x02:
		if len(cmd.Data) != 2 {
			return nil, 0x6700
		}
		fid := uint16(cmd.Data[0])<<8 | uint16(cmd.Data[1])
		f := c.files()[fid]
		if f == nil && c.MFFilesFromApplication {
			f = c.MF[fid]
		}
		if f == nil {
			return nil, 0x6A82
		}
		if !c.accessOK(f) {
			return nil, 0x6982
		}
		c.curEF = f
		return nil, 0x9000
	}
	return nil, 0x6A86
}

func (c *Chip) readFrom(f *EF, offset, ne int) ([]byte, uint16) {
	if !c.accessOK(f) {
		return nil, 0x6982
	}
	if ne == 0 {
		return nil, 0x6700
	}
	if c.LeCap > 0 && ne > c.LeCap {
		return nil, 0x6700
	}
	if offset >= len(f.Data) {
		return nil, 0x6B00
	}
	avail := len(f.Data) - offset
	n := min(ne, avail)
	if c.ReadChoice != nil {
		k := c.ReadChoice(ReadReq{FID: f.FID, Offset: offset, Ne: ne, Avail: avail, Index: c.Truth.ReadBinaries})
		if k == 0 {
			return nil, 0x6700
		}
		if k < 0 || k > n {
			panic(fmt.Sprintf("refchip: ReadChoice returned %d outside 1..%d", k, n))
		}
		n = k
	}
	return append([]byte{}, f.Data[offset:offset+n]...), 0x9000
}

func (c *Chip) doReadBinary(cmd *ref7816.Cmd) ([]byte, uint16) {
	c.Truth.ReadBinaries++
	if len(cmd.Data) != 0 {
		return nil, 0x6700
	}
	if cmd.P1&0x80 != 0 {
		// ISO 7816-4 §11.3.3 / 9303-10: b8=1 => b7,b6 = 00, b5..b1 = short EF identifier, P2 = offset
		if cmd.P1&0x60 != 0 {
			return nil, 0x6A86
		}
		sfi := cmd.P1 & 0x1F
		var f *EF
		if sfi == 0 {
			f = c.curEF // SFI 0 references the current EF
		} else {
			for _, e := range c.files() {
				if e.SFI == sfi {
					f = e
				}
			}
		}
		if f == nil {
			return nil, 0x6A82
		}
		if !c.accessOK(f) {
			return nil, 0x6982
		}
		c.curEF = f
		return c.readFrom(f, int(cmd.P2), cmd.Le)
	}
	if c.curEF == nil {
		return nil, 0x6986
	}
	return c.readFrom(c.curEF, int(cmd.P1)<<8|int(cmd.P2), cmd.Le)
}

// odd-INS READ BINARY: data = 54 L offset, response = 53 L data
func (c *Chip) doReadBinaryOdd(cmd *ref7816.Cmd) ([]byte, uint16) {
	c.Truth.ReadBinaries++
	if c.curEF == nil {
		return nil, 0x6986
	}
	d := cmd.Data
	if len(d) < 2 || d[0] != 0x54 || int(d[1]) != len(d)-2 || len(d) > 6 {
		return nil, 0x6A80
	}
	off := 0
	for _, b := range d[2:] {
		off = off<<8 | int(b)
	}
	ne := cmd.Le
	// Ne covers the whole DO'53'; leave room for the header
	data, s := c.readFrom(c.curEF, off, max(1, ne-4))
	if s != 0x9000 {
		return nil, s
	}
	out := []byte{0x53}
	switch {
	case len(data) < 0x80:
		out = append(out, byte(len(data)))
	case len(data) < 0x100:
		out = append(out, 0x81, byte(len(data)))
	default:
		out = append(out, 0x82, byte(len(data)>>8), byte(len(data)))
	}
	return append(out, data...), 0x9000
}
