package refchip

import (
	"bytes"
	"crypto/sha1"

	"verif/internal/ref7816"
	"verif/internal/refcrypto"
)

// BACKeys are the basic access keys the chip was personalised with.
type BACKeys struct {
	KEnc, KMac []byte
}

// BACKeysFromMRZInfo derives the basic access keys from the MRZ information string
// (document number || check digit || date of birth || check digit || date of expiry || check digit),
// ICAO 9303-11 §4.3.2 / 9.7.1.
func BACKeysFromMRZInfo(mrzInfo string) *BACKeys {
	h := sha1.Sum([]byte(mrzInfo))
	return &BACKeys{KEnc: refcrypto.KDF(h[:16], 1, refcrypto.TDES), KMac: refcrypto.KDF(h[:16], 2, refcrypto.TDES)}
}

func (c *Chip) doGetChallenge(cmd *ref7816.Cmd) ([]byte, uint16) {
	if c.BAC == nil {
		return nil, 0x6D00
	}
	if cmd.Le != 8 || len(cmd.Data) != 0 {
		return nil, 0x6700
	}
	c.bacRndIC = c.Rand.Bytes(8)
	return append([]byte{}, c.bacRndIC...), 0x9000
}

func (c *Chip) doExternalAuth(cmd *ref7816.Cmd) ([]byte, uint16) {
	if c.BAC == nil {
		return nil, 0x6D00
	}
	rndIC := c.bacRndIC
	c.bacRndIC = nil // a challenge is single use
	if rndIC == nil {
		return nil, 0x6985
	}
	if len(cmd.Data) != 40 {
		return nil, 0x6700
	}
	e, m := cmd.Data[:32], cmd.Data[32:]
	if !bytes.Equal(refcrypto.MAC8(refcrypto.TDES, c.BAC.KMac, e), m) {
		return nil, 0x6300
	}
	s := refcrypto.CBCDecrypt(refcrypto.TDES, c.BAC.KEnc, make([]byte, 8), e)
	rndIFD, gotIC, kIFD := s[:8], s[8:16], s[16:32]
	if !bytes.Equal(gotIC, rndIC) {
		return nil, 0x6300
	}
	kIC := c.Rand.Bytes(16)
	r := append(append(append([]byte{}, rndIC...), rndIFD...), kIC...)
	if c.Hostile != nil && c.Hostile.BACResponsePlain != nil {
		r = c.Hostile.BACResponsePlain(r)
	}
	eIC := refcrypto.CBCEncrypt(refcrypto.TDES, c.BAC.KEnc, make([]byte, 8), r)
	mIC := refcrypto.MAC8(refcrypto.TDES, c.BAC.KMac, eIC)
	seed := make([]byte, 16)
	for i := range seed {
		seed[i] = kIFD[i] ^ kIC[i]
	}
	ssc := append(append([]byte{}, rndIC[4:8]...), rndIFD[4:8]...)
	c.SM = refcrypto.NewSM(refcrypto.TDES, refcrypto.KDF(seed, 1, refcrypto.TDES), refcrypto.KDF(seed, 2, refcrypto.TDES), ssc)
	c.smByPACE = false
	c.Truth.BACCompleted = true
	out := append(eIC, mIC...)
	if cmd.Le != 40 && cmd.Le != 256 && cmd.Le != 0 {
		// Le other than 40/256: still answer (ISO allows Ne larger than the data)
		if cmd.Le < 40 {
			return nil, 0x6700
		}
	}
	return out, 0x9000
}

// Hostile collects deviations from conforming behaviour; every field nil = conforming chip.
type Hostile struct {
	// Exec may take over any command: return ok=true to answer (data, sw) instead of the conforming handler.
	Exec func(c *Chip, cmd *ref7816.Cmd, protected bool) (data []byte, sw uint16, ok bool)
	// BACResponsePlain edits the 32-byte plaintext RND.IC||RND.IFD||K.IC before encryption/MAC.
	BACResponsePlain func(plain []byte) []byte
}
