package reflds

import (
	"crypto/elliptic"
	"crypto/sha1"
	"crypto/sha256"
	"crypto/sha512"
	"fmt"
)

func ecPointP256() []byte { return ecPoint(elliptic.P256()) }

const (
	oidSignedData        = "1.2.840.113549.1.7.2"
	OIDLdsSecurityObject = "2.23.136.1.1.1"
	OIDSecurityObject    = "0.4.0.127.0.7.3.2.1" // id-SecurityObject (CardSecurity eContentType)
	oidContentType       = "1.2.840.113549.1.9.3"
	oidMessageDigest     = "1.2.840.113549.1.9.4"
	oidEcdsaWithSHA256   = "1.2.840.10045.4.3.2"
	oidCountryName       = "2.5.4.6"
	oidCommonName        = "2.5.4.3"
	oidOrgName           = "2.5.4.10"

	OIDSHA1   = "1.3.14.3.2.26"
	OIDSHA224 = "2.16.840.1.101.3.4.2.4"
	OIDSHA256 = "2.16.840.1.101.3.4.2.1"
	OIDSHA384 = "2.16.840.1.101.3.4.2.2"
	OIDSHA512 = "2.16.840.1.101.3.4.2.3"
)

// HashAlgs lists the digest algorithms of 9303-12 with their output length.
var HashAlgs = []struct {
	OID string
	Len int
}{{OIDSHA1, 20}, {OIDSHA224, 28}, {OIDSHA256, 32}, {OIDSHA384, 48}, {OIDSHA512, 64}}

func digest(oid string, data []byte) []byte {
	switch oid {
	case OIDSHA1:
		h := sha1.Sum(data)
		return h[:]
	case OIDSHA224:
		h := sha256.Sum224(data)
		return h[:]
	case OIDSHA256:
		h := sha256.Sum256(data)
		return h[:]
	case OIDSHA384:
		h := sha512.Sum384(data)
		return h[:]
	case OIDSHA512:
		h := sha512.Sum512(data)
		return h[:]
	}
	panic("reflds: unknown hash " + oid)
}

func hashLen(oid string) int {
	for _, h := range HashAlgs {
		if h.OID == oid {
			return h.Len
		}
	}
	panic("reflds: unknown hash " + oid)
}

func algID(oid string, withNull bool) []byte {
	if withNull {
		return derSeq(derOID(oid), derNull())
	}
	return derSeq(derOID(oid))
}

func rdnName(country, org, cn string) []byte {
	return derSeq(
		derSet(derSeq(derOID(oidCountryName), derPrintable(country))),
		derSet(derSeq(derOID(oidOrgName), derPrintable(org))),
		derSet(derSeq(derOID(oidCommonName), derPrintable(cn))))
}

var (
	certIssuer = rdnName("UT", "Reflds", "Reflds CSCA")
	certSerial = int64(0x1A2B3C)
)

// dummyEcdsaSig is a syntactically valid ECDSA-Sig-Value that verifies nothing.
func dummyEcdsaSig(seed byte) []byte {
	r := make([]byte, 32)
	s := make([]byte, 32)
	for i := range r {
		r[i] = seed + byte(3*i) | 1
		s[i] = seed ^ byte(7*i+1) | 1
	}
	r[0] &= 0x7F
	s[0] &= 0x7F
	return derSeq(derUint(r), derUint(s))
}

// Certificate returns the home-made document-signer certificate: X.509 v3 syntax, P-256 key = the curve
// generator, issuer C=UT/O=Reflds/CN=Reflds CSCA, dummy signature.
func Certificate() []byte {
	spki := SPKI(DG15Spec{Kind: "ec-named", Curve: "P-256"})
	tbs := derSeq(
		ctxCons(0, derInt(2)),
		derInt(certSerial),
		algID(oidEcdsaWithSHA256, false),
		certIssuer,
		derSeq(derUTCTime("240101000000Z"), derUTCTime("340101000000Z")),
		rdnName("UT", "Reflds", "Reflds DS 1"),
		spki)
	return derSeq(tbs, algID(oidEcdsaWithSHA256, false), derBitString(dummyEcdsaSig(0x21)))
}

// signedData builds ContentInfo{signedData, SignedData v3{digestAlg, eContentType/eContent, certificate,
// one SignerInfo v1 (issuerAndSerialNumber, signed attributes contentType + messageDigest, ecdsa-with-SHA256)}}.
func signedData(eContentType string, eContent []byte, digestOID string, digestNull bool) (ci, sig []byte) {
	attrs := cat(
		derSeq(derOID(oidContentType), derSet(derOID(eContentType))),
		derSeq(derOID(oidMessageDigest), derSet(derOctets(digest(digestOID, eContent)))))
	sig = dummyEcdsaSig(0x42)
	signer := derSeq(
		derInt(1),
		derSeq(certIssuer, derInt(certSerial)),
		algID(digestOID, digestNull),
		ctxCons(0, attrs),
		algID(oidEcdsaWithSHA256, false),
		derOctets(sig))
	sd := derSeq(
		derInt(3),
		derSet(algID(digestOID, digestNull)),
		derSeq(derOID(eContentType), ctxCons(0, derOctets(eContent))),
		ctxCons(0, Certificate()),
		derSet(signer))
	return derSeq(derOID(oidSignedData), ctxCons(0, sd)), sig
}

// ---- EF.SOD ----

type DGHash struct {
	N    int
	Hash []byte
}

type SODSpec struct {
	Version        int // 0 or 1
	HashOID        string
	HashParamsNull bool // AlgorithmIdentifier.parameters NULL present (both forms are in use)
	DGs            []int
	LdsVersion     string // v1 only
	UnicodeVersion string // v1 only
}

// SODView is what a caller must see: the LDS security object and the CMS envelope values.
type SODView struct {
	Version        int
	HashOID        string
	Hashes         []DGHash
	LdsVersion     string // "" for v0
	UnicodeVersion string
	EContentType   string
	EContent       []byte
	Certificate    []byte
	Signature      []byte
	DigestOID      string
}

// FakeHash is the (made-up) hash value listed for data group n.
func FakeHash(n, length int) []byte {
	h := make([]byte, length)
	for i := range h {
		h[i] = byte(0x10*n + i*13 + 1)
	}
	return h
}

// LDSSecurityObject encodes the eContent of EF.SOD.
func LDSSecurityObject(s SODSpec) ([]byte, []DGHash) {
	var list [][]byte
	var hashes []DGHash
	for _, n := range s.DGs {
		h := FakeHash(n, hashLen(s.HashOID))
		hashes = append(hashes, DGHash{N: n, Hash: h})
		list = append(list, derSeq(derInt(int64(n)), derOctets(h)))
	}
	parts := [][]byte{derInt(int64(s.Version)), algID(s.HashOID, s.HashParamsNull), derSeq(list...)}
	if s.Version == 1 {
		parts = append(parts, derSeq(derPrintable(s.LdsVersion), derPrintable(s.UnicodeVersion)))
	}
	return derSeq(parts...), hashes
}

// BuildSOD builds EF.SOD = 77{ContentInfo signedData{eContentType id-icao-mrtd-security-ldsSecurityObject}}.
func BuildSOD(s SODSpec) File {
	eContent, hashes := LDSSecurityObject(s)
	ci, sig := signedData(OIDLdsSecurityObject, eContent, s.HashOID, s.HashParamsNull)
	v := &SODView{Version: s.Version, HashOID: s.HashOID, Hashes: hashes, EContentType: OIDLdsSecurityObject, EContent: eContent,
		Certificate: Certificate(), Signature: sig, DigestOID: s.HashOID}
	if s.Version == 1 {
		v.LdsVersion, v.UnicodeVersion = s.LdsVersion, s.UnicodeVersion
	}
	label := fmt.Sprintf("v%d hash=%s null=%v dgs=%v lds=%s/%s", s.Version, s.HashOID, s.HashParamsNull, s.DGs, s.LdsVersion, s.UnicodeVersion)
	return File{Kind: KSOD, Label: label, Bytes: tlv(0x77, ci), View: v}
}

func enumSOD(thorough bool, emit func(File)) {
	// hash list: every subset of {DG3,DG7,DG11,DG12,DG13,DG14,DG15,DG16} added to the mandatory DG1+DG2 (2^8),
	// plus all sixteen; x v0/v1 x 5 digest algorithms x parameters NULL/absent (quick: the 2^8 subsets with one
	// algorithm per subset in rotation, the full algorithm/version/NULL product on three lists)
	opt := []int{3, 7, 11, 12, 13, 14, 15, 16}
	var lists [][]int
	for m := 0; m < 1<<len(opt); m++ {
		l := []int{1, 2}
		for i, n := range opt {
			if m&(1<<i) != 0 {
				l = append(l, n)
			}
		}
		// keep ascending order
		for i := 1; i < len(l); i++ {
			for j := i; j > 0 && l[j] < l[j-1]; j-- {
				l[j], l[j-1] = l[j-1], l[j]
			}
		}
		lists = append(lists, l)
	}
	all := []int{1, 2, 3, 4, 5, 6, 7, 8, 9, 10, 11, 12, 13, 14, 15, 16}
	lists = append(lists, all)
	for li, l := range lists {
		for hi, h := range HashAlgs {
			for _, ver := range []int{0, 1} {
				for _, null := range []bool{false, true} {
					if !thorough {
						full := li == 0 || li == len(lists)-1 || li == len(lists)-2
						if !full && !(hi == li%len(HashAlgs) && ver == (li/5)%2 && null == ((li/10)%2 == 0)) {
							continue
						}
					}
					s := SODSpec{Version: ver, HashOID: h.OID, HashParamsNull: null, DGs: l}
					if ver == 1 {
						s.LdsVersion, s.UnicodeVersion = "0108", "040000"
						if li%2 == 1 {
							s.LdsVersion, s.UnicodeVersion = "0107", "060000"
						}
					}
					emit(BuildSOD(s))
				}
			}
		}
	}
}

// ---- EF.CardSecurity ----

type CardSecuritySpec struct {
	Infos      []SecInfo
	DigestOID  string
	DigestNull bool
}

type CardSecurityView struct {
	SecInfos     *SecInfosView
	EContentType string
	Certificate  []byte
	Signature    []byte
	DigestOID    string
}

// BuildCardSecurity builds EF.CardSecurity = bare ContentInfo signedData{eContentType id-SecurityObject,
// eContent = SET OF SecurityInfo}.
func BuildCardSecurity(s CardSecuritySpec) File {
	set, sv := EncSecInfos(s.Infos)
	ci, sig := signedData(OIDSecurityObject, set, s.DigestOID, s.DigestNull)
	v := &CardSecurityView{SecInfos: sv, EContentType: OIDSecurityObject, Certificate: Certificate(), Signature: sig, DigestOID: s.DigestOID}
	return File{Kind: KCardSecurity, Label: fmt.Sprintf("%s digest=%s null=%v", secLabel(s.Infos), s.DigestOID, s.DigestNull), Bytes: ci, View: v}
}

func enumCardSecurity(thorough bool, emit func(File)) {
	a := SecInfoAlphabet()
	// the elements 9303-11 §9.2.9 puts into CardSecurity: PACEInfo(s), ChipAuthenticationInfo, ChipAuthenticationPublicKeyInfo,
	// optionally PACEDomainParameterInfo / unknown: all non-empty subsets of a 7-element alphabet
	sub := []SecInfo{a[0], a[2], a[3], a[4], a[6], a[7], a[11]}
	cnt := 0
	for m := 1; m < 1<<len(sub); m++ {
		var infos []SecInfo
		for i := range sub {
			if m&(1<<i) != 0 {
				infos = append(infos, sub[i])
			}
		}
		for hi, h := range HashAlgs {
			for _, null := range []bool{false, true} {
				if !thorough && !(hi == cnt%len(HashAlgs) && null == (cnt%2 == 0)) && m != 1<<len(sub)-1 {
					continue
				}
				emit(BuildCardSecurity(CardSecuritySpec{Infos: infos, DigestOID: h.OID, DigestNull: null}))
			}
		}
		cnt++
	}
}
