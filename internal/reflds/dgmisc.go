package reflds

import (
	"crypto/elliptic"
	"fmt"
)

// ---- DG7 ----

type DG7Spec struct{ Images [][]byte }
type DG7View struct{ Images [][]byte }

// BuildDG7 builds DG7 = 67{02 n, n x 5F43 image}.
func BuildDG7(s DG7Spec) File {
	parts := [][]byte{tlv(0x02, []byte{byte(len(s.Images))})}
	label := fmt.Sprintf("%d image(s) sizes=", len(s.Images))
	for _, im := range s.Images {
		parts = append(parts, tlv(0x5F43, im))
		label += fmt.Sprintf("%d/%02x ", len(im), im[:4])
	}
	return File{Kind: KDG7, Label: label, Bytes: tlv(0x67, parts...), View: &DG7View{Images: s.Images}}
}

func enumDG7(thorough bool, emit func(File)) {
	magics := []int{MagicJPEG, MagicJP2, MagicJ2K}
	// 1..3 images, all tuples over the three magics
	for n := 1; n <= 3; n++ {
		total := 1
		for i := 0; i < n; i++ {
			total *= 3
		}
		for t := 0; t < total; t++ {
			var imgs [][]byte
			x := t
			for i := 0; i < n; i++ {
				imgs = append(imgs, Image(magics[x%3], 10*n+i, 30+7*i))
				x /= 3
			}
			emit(BuildDG7(DG7Spec{Images: imgs}))
		}
	}
	// sizes at length-form boundaries, 1..3 images
	sizes := []int{24, 127, 128, 255, 256, 1000}
	if thorough {
		sizes = append(sizes, 65535, 65536)
	}
	for _, sz := range sizes {
		for n := 1; n <= 3; n++ {
			var imgs [][]byte
			for i := 0; i < n; i++ {
				imgs = append(imgs, Image(magics[i%3], 50+i, sz+i))
			}
			emit(BuildDG7(DG7Spec{Images: imgs}))
		}
	}
	// up to the maximum of 9 images
	for n := 4; n <= 9; n++ {
		var imgs [][]byte
		for i := 0; i < n; i++ {
			imgs = append(imgs, Image(magics[(i+n)%3], 70+i, 26+i))
		}
		emit(BuildDG7(DG7Spec{Images: imgs}))
	}
}

// ---- DG13 ----

type DG13View struct{ Content []byte }

// BuildDG13 builds DG13 = 6D{opaque content}.
func BuildDG13(content []byte) File {
	return File{Kind: KDG13, Label: fmt.Sprintf("%d opaque bytes starting %02x", len(content), content[:min(4, len(content))]),
		Bytes: tlv(0x6D, content), View: &DG13View{Content: content}}
}

func enumDG13(thorough bool, emit func(File)) {
	sizes := []int{1, 2, 10, 127, 128, 255, 256, 1000}
	if thorough {
		sizes = append(sizes, 65535, 65536)
	}
	for _, sz := range sizes {
		for pat := 0; pat < 4; pat++ {
			b := make([]byte, sz)
			for i := range b {
				switch pat {
				case 0: // not TLV at all
					b[i] = byte(0x01 + 0x22*i)
				case 1: // looks like a truncated TLV
					b[i] = 0xFF
				case 2: // well-formed inner TLV where it fits
					b[i] = 0x00
				default:
					b[i] = byte(i)
				}
			}
			if pat == 2 && sz >= 2 && sz-2 < 0x80 {
				b[0], b[1] = 0x04, byte(sz-2)
			}
			emit(BuildDG13(b))
		}
	}
}

// ---- DG15 ----

type DG15Spec struct {
	Kind  string // "rsa" | "ec-named" | "ec-explicit"
	Bits  int    // RSA modulus bits
	Curve string // "P-256" | "P-384" | "brainpoolP256r1" (named only)
}
type DG15View struct{ SPKI []byte }

const (
	oidRSAEncryption = "1.2.840.113549.1.1.1"
	oidECPublicKey   = "1.2.840.10045.2.1"
	oidPrime256v1    = "1.2.840.10045.3.1.7"
	oidSecp384r1     = "1.3.132.0.34"
	oidBrainpool256  = "1.3.36.3.3.2.8.1.1.7"
	oidPrimeField    = "1.2.840.10045.1.1"
)

func fakeModulus(bits int) []byte {
	m := make([]byte, bits/8)
	for i := range m {
		m[i] = byte(0xB5 + 29*i)
	}
	m[0] |= 0x80
	m[len(m)-1] |= 1
	return m
}

// SPKI returns a SubjectPublicKeyInfo for the spec. EC points are the generator of the curve (a valid point).
func SPKI(s DG15Spec) []byte {
	switch s.Kind {
	case "rsa":
		key := derSeq(derUint(fakeModulus(s.Bits)), derInt(65537))
		return derSeq(derSeq(derOID(oidRSAEncryption), derNull()), derBitString(key))
	case "ec-named":
		var c elliptic.Curve
		var o string
		switch s.Curve {
		case "P-384":
			c, o = elliptic.P384(), oidSecp384r1
		case "brainpoolP256r1":
			// brainpoolP256r1 generator (RFC 5639 §3.4)
			pt := cat([]byte{4}, unhex("8BD2AEB9CB7E57CB2C4B482FFC81B7AFB9DE27E1E3BD23C23A4453BD9ACE3262"), unhex("547EF835C3DAC4FD97F8461A14611DC9C27745132DED8E545C1D54C72F046997"))
			return derSeq(derSeq(derOID(oidECPublicKey), derOID(oidBrainpool256)), derBitString(pt))
		default:
			c, o = elliptic.P256(), oidPrime256v1
		}
		return derSeq(derSeq(derOID(oidECPublicKey), derOID(o)), derBitString(ecPoint(c)))
	case "ec-explicit":
		c := elliptic.P256()
		p := c.Params()
		n := (p.BitSize + 7) / 8
		a := make([]byte, n) // a = p - 3
		copy(a, p.P.Bytes())
		a[n-1] -= 3
		params := derSeq(derInt(1), derSeq(derOID(oidPrimeField), derUint(p.P.Bytes())),
			derSeq(derOctets(a), derOctets(p.B.FillBytes(make([]byte, n)))), derOctets(ecPoint(c)), derUint(p.N.Bytes()), derInt(1))
		return derSeq(derSeq(derOID(oidECPublicKey), params), derBitString(ecPoint(c)))
	}
	panic("reflds: unknown DG15 kind " + s.Kind)
}

func ecPoint(c elliptic.Curve) []byte {
	p := c.Params()
	n := (p.BitSize + 7) / 8
	return cat([]byte{4}, p.Gx.FillBytes(make([]byte, n)), p.Gy.FillBytes(make([]byte, n)))
}

func unhex(s string) []byte {
	out := make([]byte, len(s)/2)
	for i := range out {
		out[i] = hexv(s[2*i])<<4 | hexv(s[2*i+1])
	}
	return out
}

func hexv(c byte) byte {
	switch {
	case c >= '0' && c <= '9':
		return c - '0'
	case c >= 'a' && c <= 'f':
		return c - 'a' + 10
	case c >= 'A' && c <= 'F':
		return c - 'A' + 10
	}
	panic("reflds: bad hex")
}

// BuildDG15 builds DG15 = 6F{SubjectPublicKeyInfo}.
func BuildDG15(s DG15Spec) File {
	spki := SPKI(s)
	return File{Kind: KDG15, Label: fmt.Sprintf("%s bits=%d curve=%s", s.Kind, s.Bits, s.Curve), Bytes: tlv(0x6F, spki), View: &DG15View{SPKI: spki}}
}

func enumDG15(thorough bool, emit func(File)) {
	for _, bits := range []int{1024, 1280, 2048, 3072, 4096} {
		emit(BuildDG15(DG15Spec{Kind: "rsa", Bits: bits}))
	}
	for _, c := range []string{"P-256", "P-384", "brainpoolP256r1"} {
		emit(BuildDG15(DG15Spec{Kind: "ec-named", Curve: c}))
	}
	emit(BuildDG15(DG15Spec{Kind: "ec-explicit"}))
}

// ---- DG16 ----

type Person struct {
	Date    string // YYYYMMDD
	BCDDate bool   // encode the date as 4 BCD bytes instead of 8 ASCII digits
	Name    NameSpec
	Tel     string
	Address []string // lines, joined by '<' on the wire
}
type PersonView struct {
	Date      string
	Name      Name
	Telephone string
	Address   []string
}
type DG16Spec struct{ Persons []Person }
type DG16View struct{ Persons []PersonView }

// BuildDG16 builds DG16 = 70{02 n, A1{5F50 date, 5F51 name, 5F52 telephone, 5F53 address} .. An{..}}.
func BuildDG16(s DG16Spec) File {
	parts := [][]byte{tlv(0x02, []byte{byte(len(s.Persons))})}
	v := &DG16View{}
	label := fmt.Sprintf("%d person(s):", len(s.Persons))
	for i, p := range s.Persons {
		date := []byte(p.Date)
		if p.BCDDate {
			date = bcd(p.Date)
		}
		parts = append(parts, tlv(uint32(0xA1+i), tlv(0x5F50, date), tlv(0x5F51, []byte(p.Name.Wire())), tlv(0x5F52, []byte(p.Tel)), tlv(0x5F53, []byte(join(p.Address, "<")))))
		v.Persons = append(v.Persons, PersonView{Date: p.Date, Name: p.Name.View(), Telephone: p.Tel, Address: p.Address})
		label += fmt.Sprintf(" [%s bcd=%v lines=%d]", p.Name.Wire(), p.BCDDate, len(p.Address))
	}
	return File{Kind: KDG16, Label: label, Bytes: tlv(0x70, parts...), View: v}
}

func personAlphabet() []Person {
	return []Person{
		{Date: "20020101", Name: NameSpec{Primary: []string{"SMITH"}, Secondary: []string{"CHARLES", "R"}}, Tel: "19525551212", Address: []string{"123 MAPLE RD", "ANYTOWN", "MN", "55100"}},
		{Date: "20191231", BCDDate: true, Name: NameSpec{Primary: []string{"BROWN"}}, Tel: "+4420123456", Address: []string{"LONDON"}},
		{Date: "20240229", Name: NameSpec{Primary: []string{"DE", "LA", "CRUZ"}, Secondary: []string{"MARIA"}}, Tel: "0031201234567", Address: []string{"KERKSTRAAT 1", "AMSTERDAM"}},
		{Date: "19991130", BCDDate: true, Name: NameSpec{Primary: []string{"TANAKA"}, Secondary: []string{"YUKI"}}, Tel: "81312345678", Address: []string{"1-1 CHIYODA", "TOKYO", "JPN"}},
	}
}

func enumDG16(thorough bool, emit func(File)) {
	a := personAlphabet()
	for n := 1; n <= 3; n++ {
		total := 1
		for i := 0; i < n; i++ {
			total *= len(a)
		}
		for t := 0; t < total; t++ {
			var ps []Person
			x := t
			for i := 0; i < n; i++ {
				ps = append(ps, a[x%len(a)])
				x /= len(a)
			}
			emit(BuildDG16(DG16Spec{Persons: ps}))
		}
	}
	// up to the maximum of 15 templates
	for _, n := range []int{4, 9, 15} {
		var ps []Person
		for i := 0; i < n; i++ {
			p := a[i%len(a)]
			p.Tel = fmt.Sprintf("%s%02d", p.Tel, i)
			ps = append(ps, p)
		}
		emit(BuildDG16(DG16Spec{Persons: ps}))
	}
}

// ---- EF.COM ----

type COMSpec struct {
	LdsVersion     string // 4 digits
	UnicodeVersion string // 6 digits
	Tags           []uint32
}
type COMView struct {
	LdsVersion     string
	UnicodeVersion string
	Tags           []uint32
}

// DGTags are the outer tags of DG1..DG16.
var DGTags = []uint32{0x61, 0x75, 0x63, 0x76, 0x65, 0x66, 0x67, 0x68, 0x69, 0x6A, 0x6B, 0x6C, 0x6D, 0x6E, 0x6F, 0x70}

// BuildCOM builds EF.COM = 60{5F01 lds, 5F36 unicode, 5C tag list}.
func BuildCOM(s COMSpec) File {
	var tl []byte
	for _, t := range s.Tags {
		tl = append(tl, tagBytes(t)...)
	}
	return File{Kind: KCOM, Label: fmt.Sprintf("lds=%s unicode=%s tags=%x", s.LdsVersion, s.UnicodeVersion, s.Tags),
		Bytes: tlv(0x60, tlv(0x5F01, []byte(s.LdsVersion)), tlv(0x5F36, []byte(s.UnicodeVersion)), tlv(0x5C, tl)),
		View:  &COMView{LdsVersion: s.LdsVersion, UnicodeVersion: s.UnicodeVersion, Tags: s.Tags}}
}

func enumCOM(thorough bool, emit func(File)) {
	vers := [][2]string{{"0107", "040000"}, {"0108", "040000"}, {"0106", "030200"}}
	if thorough {
		// every non-empty subset of the 16 data-group tags
		for m := 1; m < 1<<16; m++ {
			var tags []uint32
			for i, t := range DGTags {
				if m&(1<<i) != 0 {
					tags = append(tags, t)
				}
			}
			v := vers[m%len(vers)]
			emit(BuildCOM(COMSpec{LdsVersion: v[0], UnicodeVersion: v[1], Tags: tags}))
		}
		return
	}
	// quick: every subset of the nine data groups the library reads that contains DG1; every single tag; all 16
	sup := []uint32{0x61, 0x75, 0x67, 0x6B, 0x6C, 0x6D, 0x6E, 0x6F, 0x70}
	for m := 0; m < 1<<8; m++ {
		tags := []uint32{0x61}
		for i, t := range sup[1:] {
			if m&(1<<i) != 0 {
				tags = append(tags, t)
			}
		}
		v := vers[m%len(vers)]
		emit(BuildCOM(COMSpec{LdsVersion: v[0], UnicodeVersion: v[1], Tags: tags}))
	}
	for _, t := range DGTags {
		emit(BuildCOM(COMSpec{LdsVersion: "0107", UnicodeVersion: "040000", Tags: []uint32{t}}))
	}
	emit(BuildCOM(COMSpec{LdsVersion: "0108", UnicodeVersion: "040000", Tags: DGTags}))
}

// ---- EF.DIR ----

type DIRView struct{ AIDs [][]byte }

// BuildDIR builds EF.DIR = n x 61{4F aid}.
func BuildDIR(aids [][]byte) File {
	var out []byte
	for _, a := range aids {
		out = append(out, tlv(0x61, tlv(0x4F, a))...)
	}
	return File{Kind: KDIR, Label: fmt.Sprintf("%d application(s)", len(aids)), Bytes: out, View: &DIRView{AIDs: aids}}
}

func enumDIR(thorough bool, emit func(File)) {
	aids := [][]byte{unhex("A0000002471001"), unhex("A0000002472001"), unhex("A0000002472002"), unhex("A0000002472003")}
	for n := 1; n <= len(aids); n++ {
		emit(BuildDIR(aids[:n]))
	}
}
