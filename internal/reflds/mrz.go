package reflds

import (
	"fmt"
	"strings"
)

// MRZSpec is the abstract value of a machine readable zone (ICAO 9303-4/-5/-6).
// All text is upper-case A-Z / 0-9; no field contains a filler or a blank.
type MRZSpec struct {
	Layout      int    // 1 = TD1 (3x30), 2 = TD2 (2x36), 3 = TD3 (2x44)
	DocCode     string // 1..2 characters
	State       string // issuing State, 1..3 characters ("D" for Germany)
	Name        NameSpec
	DocNumber   string // 1..9 characters; TD1/TD2 also 10..  (long form: overflow into the optional data field)
	Nationality string
	DOB         string // YYMMDD
	Sex         string // "M" or "F"
	Expiry      string // YYMMDD
	Optional    string // TD3: <=14 (personal number), TD2: <=7, TD1: <=15
	Optional2   string // TD1 only: <=11
	// TD3 only: when Optional is empty the personal-number check digit may be '<' or '0' (9303-4 §4.2.2.2 note j).
	ZeroCDForEmptyOptional bool
}

// DG1View is what a caller must see for a DG1 built from an MRZSpec.
type DG1View struct {
	RawMrz         string
	DocumentCode   string
	IssuingState   string
	Name           Name
	DocumentNumber string
	Nationality    string
	DateOfBirth    string
	Sex            string
	DateOfExpiry   string
	OptionalData   string
	OptionalData2  string
}

// CheckDigit computes the ICAO 9303-3 §4.9 check digit (weights 7,3,1; 0-9 = value, A-Z = 10..35, '<' = 0).
func CheckDigit(s string) byte {
	w := [3]int{7, 3, 1}
	sum := 0
	for i := 0; i < len(s); i++ {
		c := s[i]
		v := 0
		switch {
		case c >= '0' && c <= '9':
			v = int(c - '0')
		case c >= 'A' && c <= 'Z':
			v = int(c-'A') + 10
		case c == '<':
			v = 0
		default:
			panic(fmt.Sprintf("reflds: character %q has no check-digit value", c))
		}
		sum += v * w[i%3]
	}
	return byte('0' + sum%10)
}

func padFill(s string, n int) (string, error) {
	if len(s) > n {
		return "", fmt.Errorf("value %q longer than field (%d)", s, n)
	}
	return s + strings.Repeat("<", n-len(s)), nil
}

func mustPad(s string, n int) string {
	p, err := padFill(s, n)
	if err != nil {
		panic("reflds: " + err.Error())
	}
	return p
}

// BuildMRZ renders the MRZ (lines concatenated, no separators) with all check digits.
func BuildMRZ(s MRZSpec) (out string, err error) {
	name := s.Name.Wire()
	cd := func(x string) string { return string(CheckDigit(x)) }
	f := func(v string, n int) string { return mustPad(v, n) }
	defer func() {
		if r := recover(); r != nil {
			out, err = "", fmt.Errorf("%v", r)
		}
	}()
	if len(s.DOB) != 6 || len(s.Expiry) != 6 {
		return "", fmt.Errorf("dates must be YYMMDD")
	}
	switch s.Layout {
	case 3:
		opt := f(s.Optional, 14)
		optCD := cd(opt)
		if s.Optional == "" && !s.ZeroCDForEmptyOptional {
			optCD = "<"
		}
		if len(s.DocNumber) > 9 {
			return "", fmt.Errorf("TD3 document number longer than 9")
		}
		dn := f(s.DocNumber, 9)
		l1 := f(s.DocCode, 2) + f(s.State, 3) + f(name, 39)
		l2 := dn + cd(dn) + f(s.Nationality, 3) + s.DOB + cd(s.DOB) + f(s.Sex, 1) + s.Expiry + cd(s.Expiry) + opt + optCD
		comp := l2[0:10] + l2[13:20] + l2[21:43]
		out = l1 + l2 + cd(comp)
	case 2:
		dnField, optField := longDocNumber(s.DocNumber, s.Optional, 7)
		l1 := f(s.DocCode, 2) + f(s.State, 3) + f(name, 31)
		l2 := dnField + f(s.Nationality, 3) + s.DOB + cd(s.DOB) + f(s.Sex, 1) + s.Expiry + cd(s.Expiry) + optField
		comp := l2[0:10] + l2[13:20] + l2[21:35]
		out = l1 + l2 + cd(comp)
	case 1:
		dnField, optField := longDocNumber(s.DocNumber, s.Optional, 15)
		l1 := f(s.DocCode, 2) + f(s.State, 3) + dnField + optField
		l2 := s.DOB + cd(s.DOB) + f(s.Sex, 1) + s.Expiry + cd(s.Expiry) + f(s.Nationality, 3) + f(s.Optional2, 11)
		comp := l1[5:30] + l2[0:7] + l2[8:15] + l2[18:29]
		out = l1 + l2 + cd(comp) + f(name, 30)
	default:
		return "", fmt.Errorf("unknown layout %d", s.Layout)
	}
	want := map[int]int{1: 90, 2: 72, 3: 88}[s.Layout]
	if len(out) != want {
		return "", fmt.Errorf("MRZ length %d, want %d", len(out), want)
	}
	return out, nil
}

// longDocNumber renders the 9+1 character document-number field and the optional-data field of width optW.
// A number of up to 9 characters is padded and followed by its check digit. A longer number (9303-5 §4.2.2
// note j / 9303-6): first 9 characters, '<' in the check-digit position, then the remaining characters, the
// check digit over the whole number and a filler at the start of the optional data field.
func longDocNumber(num, optional string, optW int) (dnField, optField string) {
	if len(num) <= 9 {
		dn := mustPad(num, 9)
		return dn + string(CheckDigit(dn)), mustPad(optional, optW)
	}
	rest := num[9:] + string(CheckDigit(num)) + "<" + optional
	return num[:9] + "<", mustPad(rest, optW)
}

// BuildDG1 builds DG1 = 61{5F1F mrz}.
func BuildDG1(s MRZSpec) File {
	mrz, err := BuildMRZ(s)
	if err != nil {
		panic("reflds: BuildDG1: " + err.Error())
	}
	v := &DG1View{RawMrz: mrz, DocumentCode: s.DocCode, IssuingState: s.State, Name: s.Name.View(),
		DocumentNumber: s.DocNumber, Nationality: s.Nationality, DateOfBirth: s.DOB, Sex: s.Sex,
		DateOfExpiry: s.Expiry, OptionalData: s.Optional, OptionalData2: s.Optional2}
	label := fmt.Sprintf("TD%d code=%s state=%s name=%s num=%s dob=%s sex=%s exp=%s opt=%q opt2=%q zeroCD=%v",
		s.Layout, s.DocCode, s.State, s.Name.Wire(), s.DocNumber, s.DOB, s.Sex, s.Expiry, s.Optional, s.Optional2, s.ZeroCDForEmptyOptional)
	return File{Kind: KDG1, Label: label, Bytes: tlv(0x61, tlv(0x5F1F, []byte(mrz))), View: v}
}

func nameWidth(layout int) int { return map[int]int{1: 30, 2: 31, 3: 39}[layout] }

// enumDG1 enumerates the DG1 space.
func enumDG1(thorough bool, emit func(File)) {
	for _, layout := range []int{3, 2, 1} {
		codes := map[int][]string{3: {"P", "PM"}, 2: {"I", "IP"}, 1: {"I", "ID", "AC"}}[layout]
		states := [][2]string{{"UTO", "UTO"}, {"NLD", "NLD"}, {"D", "D"}, {"UTO", "NLD"}}
		w := nameWidth(layout)
		// a name that fills the field exactly: PRIMARY<<SECONDARY with total length w
		fill := w - len("ERIKSSON<<")
		names := []NameSpec{
			{Primary: []string{"ERIKSSON"}, Secondary: []string{"ANNA", "MARIA"}},
			{Primary: []string{"ERIKSSON"}},
			{Primary: []string{"VAN", "DER", "BERG"}, Secondary: []string{"JAN"}},
			{Primary: []string{"O"}, Secondary: []string{"A", "B", "C"}},
			{Primary: []string{"ERIKSSON"}, Secondary: []string{strings.Repeat("X", fill)}},
		}
		nums := []string{"L898902C3", "AB12345", "7"}
		if layout != 3 {
			nums = append(nums, "D23145890734", "L898902C3X")
		}
		dates := [][3]string{{"740812", "F", "120415"}, {"000229", "M", "300101"}}
		opts := func(long bool, numLen int) []string {
			switch layout {
			case 3:
				return []string{"", "ZE184226B", "ABCDEFGHIJ1234"}
			case 2:
				if long {
					room := 7 - (numLen - 9) - 2
					return []string{"", strings.Repeat("7", room)}
				}
				return []string{"", "AB1", "1234567"}
			default:
				if long {
					room := 15 - (numLen - 9) - 2
					return []string{"", "XY9", strings.Repeat("Q", room)}
				}
				return []string{"", "ABC123", "ABCDEFGHIJKLMNO"}
			}
		}
		opt2s := []string{""}
		if layout == 1 {
			opt2s = []string{"", "Z1", "12345678901"}
		}
		for _, code := range codes {
			for _, st := range states {
				for _, nm := range names {
					for _, num := range nums {
						for _, d := range dates {
							for _, o := range opts(len(num) > 9, len(num)) {
								for _, o2 := range opt2s {
									zs := []bool{false}
									if layout == 3 && o == "" {
										zs = []bool{false, true}
									}
									for _, z := range zs {
										emit(BuildDG1(MRZSpec{Layout: layout, DocCode: code, State: st[0], Nationality: st[1], Name: nm,
											DocNumber: num, DOB: d[0], Sex: d[1], Expiry: d[2], Optional: o, Optional2: o2, ZeroCDForEmptyOptional: z}))
									}
								}
							}
						}
					}
				}
			}
		}
	}
}
