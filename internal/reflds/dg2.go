package reflds

import (
	"encoding/binary"
	"fmt"
)

// FeaturePoint is an ISO/IEC 19794-5:2005 §5.6 feature point. On the wire it is 8 octets:
// type(1) | point code(1) = major<<4|minor | X(2) | Y(2) | reserved(2) = 0.
type FeaturePoint struct {
	Type  uint8
	Major uint8 // 0..15
	Minor uint8 // 0..15
	X, Y  uint16
}

// Face19794 is one facial record of an ISO/IEC 19794-5 facial record data block.
type Face19794 struct {
	Gender, EyeColor, HairColor uint8
	FeatureMask                 [3]byte
	Expression                  [2]byte
	Pose, PoseUncertainty       [3]byte
	Points                      []FeaturePoint
	ImgType, ImgDataType        uint8
	Width, Height               uint16
	ColorSpace, SourceType      uint8
	DeviceType, Quality         uint16
	Image                       []byte
}

// BHT is the biometric header template A1 (9303-10 Table 40..42). A nil field is absent from the file.
type BHT struct {
	HeaderVersion, BiometricType, SubType, CreationDate, Validity, PID, FormatOwner, FormatType []byte
}

// Rich39794 are optional elements of an ISO/IEC 39794-5 representation added by the "rich" generator.
type Rich39794 struct {
	CaptureYear, CaptureMonth, CaptureDay, CaptureHour, CaptureMinute, CaptureSecond, CaptureMillisecond int
	SessionID, DerivedFrom                                                                               int
	ModelOrg, ModelID                                                                                    int      // captureDeviceBlock.modelIdBlock
	CertIDs                                                                                              [][2]int // captureDeviceBlock.certificationIdBlocks (SEQUENCE OF)
	CameraToSubjectDistance, SensorDiagonal, LensFocalLength                                             int
	Width, Height                                                                                        int
	FaceImageKind                                                                                        int  // code
	ColourSpace                                                                                          int  // code
	Quality                                                                                              bool // add an (opaque) qualityBlocks element
	Landmarks                                                                                            bool // add an (opaque) landmarkBlocks element
}

// Rec39794 is an ISO/IEC 39794-5 face image data block as profiled by the ICAO application profile:
// exactly one representation.
type Rec39794 struct {
	Generation, Year int
	RepresentationID int
	Image            []byte
	ImageDataFormat  int // code: 0 unknown,1 other,2 jpeg,3 jpeg2000 lossy,...
	Rich             *Rich39794
}

// Rec39794View adds to the abstract value the encodings of the elements the caller sees as opaque blocks.
type Rec39794View struct {
	Rec39794
	RawImageDataFormat []byte // full TLV of imageDataFormat [0]
	RawFaceImageKind   []byte
	RawColourSpace     []byte
	RawQuality         []byte
	RawLandmarks       []byte
}

// Template is one biometric information template 7F60: header + exactly one of the two encodings.
type Template struct {
	BHT      BHT
	Faces    []Face19794 // ISO/IEC 19794-5 (tag 5F2E) when Rec == nil
	Rec      *Rec39794   // ISO/IEC 39794-5 (tag 7F2E)
	ShortLen int         // 19794-5 only: record-length field is this much SMALLER than the block (0 = exact)
}

type DG2Spec struct{ Templates []Template }

// TemplateView is the expected view of one template.
type TemplateView struct {
	BHT    BHT
	Faces  []Face19794
	Rec    *Rec39794View
	RecLen uint32 // 19794-5 record length field
	Images [][]byte
}

// DG2View: every template, and every image of every template in file order.
type DG2View struct {
	Templates []TemplateView
	Images    [][]byte
}

func be16(v uint16) []byte { b := make([]byte, 2); binary.BigEndian.PutUint16(b, v); return b }
func be32(v uint32) []byte { b := make([]byte, 4); binary.BigEndian.PutUint32(b, v); return b }

// enc19794 encodes the facial record data block: general header + facial records.
func enc19794(faces []Face19794, shortLen int) (block []byte, recLen uint32) {
	var body []byte
	for _, f := range faces {
		var pts []byte
		for _, p := range f.Points {
			pts = append(pts, p.Type, p.Major<<4|p.Minor&0x0F)
			pts = append(pts, be16(p.X)...)
			pts = append(pts, be16(p.Y)...)
			pts = append(pts, 0, 0)
		}
		blockLen := 20 + len(pts) + 12 + len(f.Image)
		body = append(body, be32(uint32(blockLen))...)
		body = append(body, be16(uint16(len(f.Points)))...)
		body = append(body, f.Gender, f.EyeColor, f.HairColor)
		body = append(body, f.FeatureMask[:]...)
		body = append(body, f.Expression[:]...)
		body = append(body, f.Pose[:]...)
		body = append(body, f.PoseUncertainty[:]...)
		body = append(body, pts...)
		body = append(body, f.ImgType, f.ImgDataType)
		body = append(body, be16(f.Width)...)
		body = append(body, be16(f.Height)...)
		body = append(body, f.ColorSpace, f.SourceType)
		body = append(body, be16(f.DeviceType)...)
		body = append(body, be16(f.Quality)...)
		body = append(body, f.Image...)
	}
	total := 14 + len(body)
	recLen = uint32(total - shortLen)
	block = cat([]byte{'F', 'A', 'C', 0, '0', '1', '0', 0}, be32(recLen), be16(uint16(len(faces))), body)
	return block, recLen
}

// codeBlock is the encoding of an extensible enumeration "XxxCode ::= CHOICE { code [0] ENUMERATED, ext [1] .. }"
// carried in an element [n]: [n]{ [0] code }.
func codeBlock(n int, code int) []byte { return ctxCons(n, ctxInt(0, int64(code))) }

// enc39794 encodes the BDB content of tag 7F2E: [1]{ [APPLICATION 5]{ versionBlock, representationBlocks } }.
func enc39794(r *Rec39794) (bdb []byte, v *Rec39794View) {
	v = &Rec39794View{Rec39794: *r}
	v.RawImageDataFormat = codeBlock(0, r.ImageDataFormat)
	info := [][]byte{v.RawImageDataFormat}
	var repTail [][]byte
	if x := r.Rich; x != nil {
		v.RawFaceImageKind = codeBlock(1, x.FaceImageKind)
		info = append(info, v.RawFaceImageKind,
			ctxInt(4, int64(x.CameraToSubjectDistance)), ctxInt(5, int64(x.SensorDiagonal)), ctxInt(6, int64(x.LensFocalLength)),
			ctxCons(7, ctxInt(0, int64(x.Width)), ctxInt(1, int64(x.Height))))
		v.RawColourSpace = codeBlock(9, x.ColourSpace)
		info = append(info, v.RawColourSpace)
		repTail = append(repTail, ctxCons(2, ctxInt(0, int64(x.CaptureYear)), ctxInt(1, int64(x.CaptureMonth)), ctxInt(2, int64(x.CaptureDay)),
			ctxInt(3, int64(x.CaptureHour)), ctxInt(4, int64(x.CaptureMinute)), ctxInt(5, int64(x.CaptureSecond)), ctxInt(6, int64(x.CaptureMillisecond))))
		if x.Quality {
			// QualityBlocks ::= SEQUENCE OF QualityBlock{ algorithmIdBlock [0]{org,id}, scoreOrError [1]{ score [0] }}
			v.RawQuality = ctxCons(3, derSeq(ctxCons(0, ctxInt(0, 1), ctxInt(1, 1)), ctxCons(1, ctxInt(0, 99))))
			repTail = append(repTail, v.RawQuality)
		}
		repTail = append(repTail, ctxInt(5, int64(x.SessionID)), ctxInt(6, int64(x.DerivedFrom)))
		var certs [][]byte
		for _, c := range x.CertIDs {
			certs = append(certs, derSeq(ctxInt(0, int64(c[0])), ctxInt(1, int64(c[1]))))
		}
		dev := [][]byte{ctxCons(0, ctxInt(0, int64(x.ModelOrg)), ctxInt(1, int64(x.ModelID)))}
		if len(certs) > 0 {
			dev = append(dev, ctxCons(1, certs...))
		}
		repTail = append(repTail, ctxCons(7, dev...))
		if x.Landmarks {
			v.RawLandmarks = ctxCons(9, derSeq(ctxCons(0, ctxCons(0, ctxCons(0, ctxCons(1, ctxInt(0, 10))))), ctxCons(1, ctxCons(0, ctxCons(0, ctxInt(0, 90), ctxInt(1, 22))))))
			repTail = append(repTail, v.RawLandmarks)
		}
	}
	// imageRepresentation [1] CHOICE{ base [0] CHOICE{ imageRepresentation2DBlock [0] SEQUENCE{ data [0], info [1] }}}
	img2d := ctxCons(0, ctxPrim(0, r.Image), ctxCons(1, info...))
	rep := derSeq(cat(ctxInt(0, int64(r.RepresentationID)), ctxCons(1, ctxCons(0, img2d)), cat(repTail...)))
	block := tlv(0x65, ctxCons(0, ctxInt(0, int64(r.Generation)), ctxInt(1, int64(r.Year))), ctxCons(1, rep))
	return ctxCons(1, block), v
}

func encBHT(h BHT) []byte {
	var parts [][]byte
	add := func(tag uint32, v []byte) {
		if v != nil {
			parts = append(parts, tlv(tag, v))
		}
	}
	add(0x80, h.HeaderVersion)
	add(0x81, h.BiometricType)
	add(0x82, h.SubType)
	add(0x83, h.CreationDate)
	add(0x85, h.Validity)
	add(0x86, h.PID)
	add(0x87, h.FormatOwner)
	add(0x88, h.FormatType)
	return tlv(0xA1, parts...)
}

// BuildDG2 builds DG2 = 75{7F61{02 n, n x 7F60{A1 header, 5F2E | 7F2E}}}.
func BuildDG2(s DG2Spec) File {
	v := &DG2View{}
	var bits [][]byte
	label := fmt.Sprintf("%d template(s):", len(s.Templates))
	for _, t := range s.Templates {
		tv := TemplateView{BHT: t.BHT}
		var bdb []byte
		if t.Rec != nil {
			var content []byte
			content, tv.Rec = enc39794(t.Rec)
			bdb = tlv(0x7F2E, content)
			tv.Images = [][]byte{t.Rec.Image}
			kind := "mand"
			if t.Rec.Rich != nil {
				kind = fmt.Sprintf("rich(certIds=%d)", len(t.Rec.Rich.CertIDs))
			}
			label += " [39794-5 " + kind + "]"
		} else {
			block, rl := enc19794(t.Faces, t.ShortLen)
			bdb = tlv(0x5F2E, block)
			tv.Faces = t.Faces
			tv.RecLen = rl
			label += fmt.Sprintf(" [19794-5 faces=%d points=", len(t.Faces))
			for i, f := range t.Faces {
				tv.Images = append(tv.Images, f.Image)
				if i > 0 {
					label += ","
				}
				label += fmt.Sprint(len(f.Points))
			}
			if t.ShortLen != 0 {
				label += fmt.Sprintf(" reclen-%d", t.ShortLen)
			}
			label += "]"
		}
		label += " bht=" + bhtMask(t.BHT)
		v.Templates = append(v.Templates, tv)
		v.Images = append(v.Images, tv.Images...)
		bits = append(bits, tlv(0x7F60, encBHT(t.BHT), bdb))
	}
	group := tlv(0x7F61, cat(tlv(0x02, []byte{byte(len(s.Templates))}), cat(bits...)))
	return File{Kind: KDG2, Label: label, Bytes: tlv(0x75, group), View: v}
}

func bhtMask(h BHT) string {
	s := ""
	for _, f := range [][]byte{h.HeaderVersion, h.BiometricType, h.SubType, h.CreationDate, h.Validity, h.PID, h.FormatOwner, h.FormatType} {
		if f != nil {
			s += "1"
		} else {
			s += "0"
		}
	}
	return s
}

func stdBHT(is39794 bool) BHT {
	ft := []byte{0x00, 0x08}
	if is39794 {
		ft = []byte{0x00, 0x1B} // hypothetical CBEFF format type; the library does not interpret it
	}
	return BHT{HeaderVersion: []byte{1, 1}, BiometricType: []byte{2}, SubType: []byte{0}, FormatOwner: []byte{1, 1}, FormatType: ft}
}

// mkFace returns facial record number id (all header fields non-zero and different from each other).
func mkFace(id, npoints, magic, size int) Face19794 {
	f := Face19794{Gender: uint8(1 + id%2), EyeColor: uint8(2 + id), HairColor: uint8(3 + id),
		FeatureMask: [3]byte{0x00, 0x00, byte(0x10 + id)}, Expression: [2]byte{0x00, byte(1 + id)},
		Pose: [3]byte{byte(1 + id), byte(2 + id), byte(3 + id)}, PoseUncertainty: [3]byte{byte(4 + id), byte(5 + id), byte(6 + id)},
		ImgType: 1, ImgDataType: uint8(magic & 1), Width: uint16(400 + id), Height: uint16(500 + id), ColorSpace: 1, SourceType: 2,
		DeviceType: uint16(0x0102 + id), Quality: uint16(0x0304 + id), Image: Image(magic, 100+id, size)}
	for p := 0; p < npoints; p++ {
		f.Points = append(f.Points, FeaturePoint{Type: 1, Major: uint8(3 + p + id%4), Minor: uint8(2 + p), X: uint16(0x0120 + 16*id + p), Y: uint16(0x0250 + 16*id + p)})
	}
	return f
}

func mkRec(id int, rich bool, nCert int) *Rec39794 {
	r := &Rec39794{Generation: 3, Year: 2019, RepresentationID: id % 3, Image: Image(MagicJP2, 200+id, 96+id), ImageDataFormat: 3}
	if rich {
		x := &Rich39794{CaptureYear: 2024, CaptureMonth: 1 + id%12, CaptureDay: 20, CaptureHour: 13, CaptureMinute: 23, CaptureSecond: 9, CaptureMillisecond: 908,
			SessionID: 9 + id, DerivedFrom: 1 + id, ModelOrg: 257, ModelID: 4 + id, CameraToSubjectDistance: 3000, SensorDiagonal: 43, LensFocalLength: 55,
			Width: 572 + id, Height: 731 + id, FaceImageKind: 1, ColourSpace: 2, Quality: true, Landmarks: true}
		for c := 0; c < nCert; c++ {
			x.CertIDs = append(x.CertIDs, [2]int{2 + c, 7 + c + id})
		}
		r.Rich = x
	}
	return r
}

// templateAlphabet returns the template alphabet used by the enumeration. Image ids are offset by base so
// that templates of one file never share an image.
func templateAlphabet(base int) []Template {
	var out []Template
	id := base
	next := func() int { id++; return id }
	// 19794-5: 1 face x 0..2 points, 2 faces x (0..2 x 0..2) points
	for p := 0; p <= 2; p++ {
		out = append(out, Template{BHT: stdBHT(false), Faces: []Face19794{mkFace(next(), p, MagicJPEG, 40)}})
	}
	for p1 := 0; p1 <= 2; p1++ {
		for p2 := 0; p2 <= 2; p2++ {
			out = append(out, Template{BHT: stdBHT(false), Faces: []Face19794{mkFace(next(), p1, MagicJP2, 48), mkFace(next(), p2, MagicJPEG, 33)}})
		}
	}
	out = append(out, Template{BHT: stdBHT(true), Rec: mkRec(next(), false, 0)})
	out = append(out, Template{BHT: stdBHT(true), Rec: mkRec(next(), true, 1)})
	out = append(out, Template{BHT: stdBHT(true), Rec: mkRec(next(), true, 2)})
	return out
}

func enumDG2(thorough bool, emit func(File)) {
	a1, a2, a3 := templateAlphabet(0), templateAlphabet(40), templateAlphabet(80)
	// (a) 1..3 templates, all tuples over the alphabet (quick: all singles and pairs; triples over a 5-letter sub-alphabet)
	for _, t := range a1 {
		emit(BuildDG2(DG2Spec{Templates: []Template{t}}))
	}
	for _, t := range a1 {
		for _, u := range a2 {
			emit(BuildDG2(DG2Spec{Templates: []Template{t, u}}))
		}
	}
	sub := func(a []Template) []Template {
		if thorough {
			return a
		}
		return []Template{a[0], a[2], a[7], a[12], a[13]}
	}
	for _, t := range sub(a1) {
		for _, u := range sub(a2) {
			for _, w := range sub(a3) {
				emit(BuildDG2(DG2Spec{Templates: []Template{t, u, w}}))
			}
		}
	}
	// (a') 4..9 templates (the counter object is one octet and LDS allows up to 9 instances): every count, three
	// rotations through the alphabet, image ids disjoint per position
	for n := 4; n <= 9; n++ {
		for rot := 0; rot < 3; rot++ {
			var ts []Template
			for i := 0; i < n; i++ {
				al := templateAlphabet(40 * (i + 3))
				ts = append(ts, al[(rot*5+i*4)%len(al)])
			}
			emit(BuildDG2(DG2Spec{Templates: ts}))
		}
	}
	// (b) header template: all 2^6 subsets of the optional elements (format owner/type always present), both encodings
	for _, is39 := range []bool{false, true} {
		for m := 0; m < 64; m++ {
			h := BHT{FormatOwner: []byte{1, 1}, FormatType: []byte{0, 8}}
			if m&1 != 0 {
				h.HeaderVersion = []byte{1, 1}
			}
			if m&2 != 0 {
				h.BiometricType = []byte{2}
			}
			if m&4 != 0 {
				h.SubType = []byte{0}
			}
			if m&8 != 0 {
				h.CreationDate = []byte{0x20, 0x24, 0x01, 0x31, 0x23, 0x59, 0x58}
			}
			if m&16 != 0 {
				h.Validity = []byte{0x20, 0x24, 0x01, 0x31, 0x20, 0x34, 0x01, 0x30}
			}
			if m&32 != 0 {
				h.PID = []byte{0xAB, 0xCD}
			}
			t := Template{BHT: h, Faces: []Face19794{mkFace(7, 1, MagicJPEG, 40)}}
			if is39 {
				t = Template{BHT: h, Rec: mkRec(7, false, 0)}
			}
			emit(BuildDG2(DG2Spec{Templates: []Template{t}}))
		}
	}
	// (c) image sizes at the length-form boundaries, three magics; record-length field 0..8 short (tolerated band
	// is the library's choice, ISO fixes only 0: generated as exact only)
	for _, magic := range []int{MagicJPEG, MagicJP2, MagicJ2K} {
		for _, size := range []int{24, 90, 200, 300, 70000} {
			if size == 70000 && !thorough {
				continue
			}
			emit(BuildDG2(DG2Spec{Templates: []Template{{BHT: stdBHT(false), Faces: []Face19794{mkFace(3, 2, magic, size)}}}}))
			r := mkRec(3, true, 1)
			r.Image = Image(magic, 5, size)
			emit(BuildDG2(DG2Spec{Templates: []Template{{BHT: stdBHT(true), Rec: r}}}))
		}
	}
}
