package reflds

import (
	"crypto/x509"
	"encoding/asn1"
	"fmt"
)

// Enumerate calls emit for every file of the kind's enumeration space, always in the same order. For the
// kinds with a BER outer tag every 53rd file is emitted again with each non-minimal (long-form) encoding of
// the outer length (81 nn / 82 nnnn / 83 nnnnnn), which BER-TLV permits and issued documents use.
func Enumerate(k Kind, thorough bool, emit func(File)) {
	if k != KCardAccess && k != KCardSecurity && k != KDIR {
		inner := emit
		i := 0
		emit = func(f File) {
			inner(f)
			if i%53 == 0 {
				for form := 1; form <= 3; form++ {
					if g, ok := Relength(f, form); ok {
						inner(g)
					}
				}
			}
			i++
		}
	}
	enumerate(k, thorough, emit)
}

// Relength re-encodes the outermost (single-byte) tag of f with the long length form of `form` length octets
// (1..3). ok is false when that form is the minimal one for the content or cannot hold it. The view is unchanged.
func Relength(f File, form int) (File, bool) {
	b := f.Bytes
	if len(b) < 2 || b[0]&0x1F == 0x1F {
		return f, false
	}
	hdr, n := 2, int(b[1])
	cur := 0
	if b[1]&0x80 != 0 {
		cur = int(b[1] & 0x7F)
		hdr, n = 2+cur, 0
		for _, x := range b[2 : 2+cur] {
			n = n<<8 | int(x)
		}
	}
	if form == cur || n >= 1<<(8*form) || hdr+n != len(b) {
		return f, false
	}
	out := []byte{b[0], byte(0x80 | form)}
	for i := form - 1; i >= 0; i-- {
		out = append(out, byte(n>>(8*i)))
	}
	out = append(out, b[hdr:]...)
	g := f
	g.Bytes = out
	g.Label = fmt.Sprintf("%s outer-length-form=8%d", f.Label, form)
	return g, true
}

func enumerate(k Kind, thorough bool, emit func(File)) {
	switch k {
	case KDG1:
		enumDG1(thorough, emit)
	case KDG2:
		enumDG2(thorough, emit)
	case KDG7:
		enumDG7(thorough, emit)
	case KDG11:
		enumDG11(thorough, emit)
	case KDG12:
		enumDG12(thorough, emit)
	case KDG13:
		enumDG13(thorough, emit)
	case KDG14:
		enumDG14(thorough, emit)
	case KDG15:
		enumDG15(thorough, emit)
	case KDG16:
		enumDG16(thorough, emit)
	case KCOM:
		enumCOM(thorough, emit)
	case KSOD:
		enumSOD(thorough, emit)
	case KCardAccess:
		enumCardAccess(thorough, emit)
	case KCardSecurity:
		enumCardSecurity(thorough, emit)
	case KDIR:
		enumDIR(thorough, emit)
	default:
		panic("reflds: unknown kind " + string(k))
	}
}

// Bound describes the space Enumerate(k, thorough, ..) covers.
func Bound(k Kind, thorough bool) string {
	q := func(quick, thoro string) string {
		if thorough {
			return thoro
		}
		return quick
	}
	switch k {
	case KDG1:
		return "TD3/TD2/TD1 x document codes x {UTO,NLD,D,UTO/NLD} x 5 names (primary only; 1+2, 3+1, 1+3 components; exact field fill) x document numbers {9, 7, 1 chars; TD1/TD2 also 12 and 10 chars (long form)} x 2 birth/sex/expiry triples x optional data {empty, partial, full} (TD1: x optional data 2 {empty, partial, full}; TD3 empty optional: check digit '<' and '0')"
	case KDG2:
		return "template alphabet of 15 (ISO 19794-5: 1 face x 0..2 feature points, 2 faces x (0..2)x(0..2) points; ISO 39794-5: mandatory-only, rich with 1 certification id, rich with 2): all 1- and 2-template files, " + q("3-template files over a 5-letter sub-alphabet", "all 3-template files") + "; header template: all 2^6 subsets of the optional elements x both encodings; image sizes {24,90,200,300" + q("", ",70000") + "} x 3 magics x both encodings"
	case KDG7:
		return "1..3 images x all tuples over {JPEG, JP2, J2K codestream}; sizes {24,127,128,255,256,1000" + q("", ",65535,65536") + "} x 1..3 images; 4..9 images"
	case KDG11:
		return q("all 2^13 subsets of the optional elements with 2 other names (A0 form) and an ASCII date; for the other 11 configurations of (1..3 other names) x (A0 | bare 5F0F) x (ASCII | BCD date) every subset of size <=2 or >=12",
			"all 2^13 subsets of the optional elements x (1..3 other names) x (A0 | bare 5F0F) x (ASCII | BCD date), identical files emitted once") + "; one UTF-8 instance"
	case KDG12:
		return "all 2^9 subsets of the optional elements x (1..3 other persons) x (ASCII | BCD date of issue) x (ASCII | BCD personalisation date-time), identical files emitted once"
	case KDG13:
		return "opaque contents of sizes {1,2,10,127,128,255,256,1000" + q("", ",65535,65536") + "} x 4 patterns (non-TLV, FF.., inner TLV, counter)"
	case KDG14, KCardAccess:
		return "all 4095 non-empty subsets of a 12-element SecurityInfo alphabet (3 PACEInfo with/without parameterId, PACEDomainParameterInfo, 2 ChipAuthenticationInfo with/without keyId, 2 ChipAuthenticationPublicKeyInfo ECDH with keyId / DH without, ActiveAuthenticationInfo, TerminalAuthenticationInfo, EFDIRInfo, unknown protocol) in alphabet order, the full set reversed, one shuffled 5-element set"
	case KDG15:
		return "RSA 1024/1280/2048/3072/4096-bit; EC named P-256, P-384, brainpoolP256r1; EC explicit parameters (P-256)"
	case KDG16:
		return "1..3 persons x all tuples over a 4-person alphabet (ASCII/BCD dates, names with/without secondary identifier, 1..4 address lines); 4, 9, 15 persons"
	case KCOM:
		return q("every subset of the 9 data groups the library reads that contains DG1 (2^8); each of the 16 tags alone; all 16", "every non-empty subset of the 16 data-group tags (65535)") + "; LDS/Unicode versions 0107/040000, 0108/040000, 0106/030200 in rotation"
	case KSOD:
		return "hash lists {DG1,DG2} + every subset of {3,7,11,12,13,14,15,16} (2^8) and all 16; " + q("one (digest, version, NULL) combination per list in rotation and the full product on three lists", "x v0/v1 x SHA-1/224/256/384/512 x parameters absent/NULL")
	case KCardSecurity:
		return "all 127 non-empty subsets of a 7-element SecurityInfo alphabet; " + q("one (digest, NULL) combination per subset in rotation, full product on the full set", "x 5 digests x parameters absent/NULL")
	case KDIR:
		return "1..4 application templates"
	}
	return ""
}

// Seeds returns a deterministic list of genuine files: for each file type one rich instance and a few
// structurally different ones. Together the entries named "doc/..." form one coherent document (the
// EF.SOD hash list names exactly the data groups present; the hash VALUES are made up).
func Seeds() []Seed {
	var out []Seed
	add := func(name string, f File) {
		out = append(out, Seed{Name: name, Kind: f.Kind, DG: f.Kind.DG(), Bytes: f.Bytes})
	}
	a := SecInfoAlphabet()
	nm := NameSpec{Primary: []string{"ERIKSSON"}, Secondary: []string{"ANNA", "MARIA"}}
	add("doc/COM", BuildCOM(COMSpec{LdsVersion: "0108", UnicodeVersion: "040000", Tags: []uint32{0x61, 0x75, 0x67, 0x6B, 0x6C, 0x6D, 0x6E, 0x6F, 0x70}}))
	add("doc/SOD", BuildSOD(SODSpec{Version: 1, HashOID: OIDSHA256, HashParamsNull: true, DGs: []int{1, 2, 7, 11, 12, 13, 14, 15, 16}, LdsVersion: "0108", UnicodeVersion: "040000"}))
	add("doc/DG1", BuildDG1(MRZSpec{Layout: 3, DocCode: "P", State: "UTO", Nationality: "UTO", Name: nm, DocNumber: "L898902C3", DOB: "740812", Sex: "F", Expiry: "120415", Optional: "ZE184226B"}))
	t := templateAlphabet(0)
	add("doc/DG2", BuildDG2(DG2Spec{Templates: []Template{t[11], t[13]}}))
	add("doc/DG7", BuildDG7(DG7Spec{Images: [][]byte{Image(MagicJPEG, 1, 300), Image(MagicJP2, 2, 200)}}))
	add("doc/DG11", BuildDG11(StdDG11(D11All, 2, false, false)))
	add("doc/DG12", BuildDG12(StdDG12(D12All, 2, false, false)))
	add("doc/DG13", BuildDG13([]byte{0x01, 0x23, 0x45, 0x67, 0x89, 0x01, 0x23, 0x45, 0x67, 0x89}))
	add("doc/DG14", BuildDG14([]SecInfo{a[0], a[4], a[6], a[8], a[9]}))
	add("doc/DG15", BuildDG15(DG15Spec{Kind: "ec-named", Curve: "P-256"}))
	p := personAlphabet()
	add("doc/DG16", BuildDG16(DG16Spec{Persons: []Person{p[0], p[1]}}))
	add("doc/CardAccess", BuildCardAccess([]SecInfo{a[0], a[2], a[3]}))
	add("doc/CardSecurity", BuildCardSecurity(CardSecuritySpec{Infos: []SecInfo{a[0], a[2], a[4], a[6]}, DigestOID: OIDSHA256, DigestNull: true}))
	add("doc/DIR", BuildDIR([][]byte{unhex("A0000002471001"), unhex("A0000002472001")}))
	// variants
	add("var/DG1-TD1-long-number", BuildDG1(MRZSpec{Layout: 1, DocCode: "I", State: "UTO", Nationality: "UTO", Name: nm, DocNumber: "D23145890734", DOB: "740812", Sex: "F", Expiry: "120415", Optional: "XY9", Optional2: "Z1"}))
	add("var/DG1-TD2", BuildDG1(MRZSpec{Layout: 2, DocCode: "I", State: "D", Nationality: "D", Name: NameSpec{Primary: []string{"VAN", "DER", "BERG"}, Secondary: []string{"JAN"}}, DocNumber: "AB12345", DOB: "000229", Sex: "M", Expiry: "300101", Optional: "AB1"}))
	add("var/DG2-19794-one-face", BuildDG2(DG2Spec{Templates: []Template{t[2]}}))
	add("var/DG2-39794-mandatory", BuildDG2(DG2Spec{Templates: []Template{t[12]}}))
	add("var/DG2-three-templates", BuildDG2(DG2Spec{Templates: []Template{t[0], templateAlphabet(40)[14], templateAlphabet(80)[5]}}))
	add("var/DG7-three", BuildDG7(DG7Spec{Images: [][]byte{Image(MagicJ2K, 3, 40), Image(MagicJPEG, 4, 130), Image(MagicJP2, 5, 260)}}))
	add("var/DG11-bare-bcd", BuildDG11(StdDG11(D11All, 3, true, true)))
	add("var/DG11-name-only", BuildDG11(StdDG11(D11Name, 0, false, false)))
	add("var/DG12-bcd", BuildDG12(StdDG12(D12All, 3, true, true)))
	add("var/DG14-all", BuildDG14(a))
	add("var/DG15-rsa2048", BuildDG15(DG15Spec{Kind: "rsa", Bits: 2048}))
	add("var/DG15-ec-explicit", BuildDG15(DG15Spec{Kind: "ec-explicit"}))
	add("var/DG16-three", BuildDG16(DG16Spec{Persons: []Person{p[2], p[3], p[0]}}))
	add("var/COM-all16", BuildCOM(COMSpec{LdsVersion: "0107", UnicodeVersion: "040000", Tags: DGTags}))
	add("var/SOD-v0-sha1", BuildSOD(SODSpec{Version: 0, HashOID: OIDSHA1, DGs: []int{1, 2}}))
	add("var/SOD-v1-sha512", BuildSOD(SODSpec{Version: 1, HashOID: OIDSHA512, DGs: []int{1, 2, 3, 14, 15}, LdsVersion: "0107", UnicodeVersion: "060000"}))
	add("var/CardAccess-all", BuildCardAccess(a))
	return out
}

// SelfTest checks the generators against values fixed elsewhere: the ICAO 9303 specimen MRZ lines, the
// stdlib X.509 parser on the home-made certificate, and DER well-formedness of the CMS objects.
func SelfTest() error {
	// ICAO 9303-4 Appendix B specimen (TD3), 9303-5 (TD1, long document number), 9303-6 (TD2)
	td3, err := BuildMRZ(MRZSpec{Layout: 3, DocCode: "P", State: "UTO", Nationality: "UTO", Name: NameSpec{Primary: []string{"ERIKSSON"}, Secondary: []string{"ANNA", "MARIA"}},
		DocNumber: "L898902C3", DOB: "740812", Sex: "F", Expiry: "120415", Optional: "ZE184226B"})
	if err != nil || td3 != "P<UTOERIKSSON<<ANNA<MARIA<<<<<<<<<<<<<<<<<<<"+"L898902C36UTO7408122F1204159ZE184226B<<<<<10" {
		return fmt.Errorf("TD3 specimen mismatch: %q %v", td3, err)
	}
	td2, err := BuildMRZ(MRZSpec{Layout: 2, DocCode: "I", State: "UTO", Nationality: "UTO", Name: NameSpec{Primary: []string{"ERIKSSON"}, Secondary: []string{"ANNA", "MARIA"}},
		DocNumber: "D23145890", DOB: "740812", Sex: "F", Expiry: "120415"})
	if err != nil || td2 != "I<UTOERIKSSON<<ANNA<MARIA<<<<<<<<<<<"+"D231458907UTO7408122F1204159<<<<<<<6" {
		return fmt.Errorf("TD2 specimen mismatch: %q %v", td2, err)
	}
	td1, err := BuildMRZ(MRZSpec{Layout: 1, DocCode: "I", State: "UTO", Nationality: "UTO", Name: NameSpec{Primary: []string{"ERIKSSON"}, Secondary: []string{"ANNA", "MARIA"}},
		DocNumber: "D23145890", DOB: "740812", Sex: "F", Expiry: "120415"})
	if err != nil || td1 != "I<UTOD231458907<<<<<<<<<<<<<<<"+"7408122F1204159UTO<<<<<<<<<<<6"+"ERIKSSON<<ANNA<MARIA<<<<<<<<<<" {
		return fmt.Errorf("TD1 specimen mismatch: %q %v", td1, err)
	}
	if CheckDigit("D23145890734") != '9' {
		return fmt.Errorf("long document number check digit: got %c want 9", CheckDigit("D23145890734"))
	}
	cert, err := x509.ParseCertificate(Certificate())
	if err != nil {
		return fmt.Errorf("home-made certificate does not parse: %v", err)
	}
	if cert.Subject.CommonName != "Reflds DS 1" || len(cert.Issuer.Country) != 1 || cert.Issuer.Country[0] != "UT" {
		return fmt.Errorf("home-made certificate names wrong: %v / %v", cert.Subject, cert.Issuer)
	}
	for _, s := range Seeds() {
		if s.Kind != KSOD && s.Kind != KCardSecurity && s.Kind != KDG14 && s.Kind != KCardAccess && s.Kind != KDG15 {
			continue
		}
		b := s.Bytes
		if s.Kind == KSOD || s.Kind == KDG14 || s.Kind == KDG15 {
			var outer asn1.RawValue
			rest, err := asn1.Unmarshal(b, &outer)
			if err != nil || len(rest) != 0 {
				return fmt.Errorf("%s: outer element malformed: %v", s.Name, err)
			}
			b = outer.Bytes
		}
		if err := derWalk(b, 0); err != nil {
			return fmt.Errorf("%s: %v", s.Name, err)
		}
	}
	return nil
}

// derWalk checks that b is a sequence of well-formed DER elements (recursing into constructed ones).
func derWalk(b []byte, depth int) error {
	for len(b) > 0 {
		var rv asn1.RawValue
		rest, err := asn1.Unmarshal(b, &rv)
		if err != nil {
			return fmt.Errorf("depth %d: %v", depth, err)
		}
		if rv.IsCompound {
			if err := derWalk(rv.Bytes, depth+1); err != nil {
				return err
			}
		}
		b = rest
	}
	return nil
}
