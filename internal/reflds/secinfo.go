package reflds

import "fmt"

// SecInfo is one abstract SecurityInfo (9303-11 §9.2). Kind selects the ASN.1 type.
type SecInfo struct {
	Kind      string // "pace" "pace-domain" "aa" "ca" "ca-pk" "ta" "efdir" "unknown"
	OID       string // protocol
	Version   int    // pace, aa, ca, ta
	HasID     bool   // pace/pace-domain: parameterId present; ca/ca-pk: keyId present
	ID        int
	SigAlgOID string // aa
	AlgOID    string // pace-domain / ca-pk: AlgorithmIdentifier.algorithm
	AlgParams []byte // pace-domain / ca-pk: AlgorithmIdentifier.parameters (full TLV, nil = absent)
	PubKey    []byte // ca-pk: content of the BIT STRING (without the unused-bits octet)
	EFDir     []byte // efdir
	Extra     []byte // unknown: DER of the required data
}

// SecInfoView is SecInfo plus its DER encoding.
type SecInfoView struct {
	SecInfo
	Raw []byte
}

// SecInfosView is what a caller must see for a SET OF SecurityInfo: every element, by kind.
type SecInfosView struct {
	Raw   []byte // the SET OF itself
	Infos []SecInfoView
}

// ByKind returns the elements of one kind in file order.
func (v *SecInfosView) ByKind(kind string) []SecInfoView {
	var out []SecInfoView
	for _, i := range v.Infos {
		if i.Kind == kind {
			out = append(out, i)
		}
	}
	return out
}

func encSecInfo(s SecInfo) []byte {
	optID := func() []byte {
		if s.HasID {
			return derInt(int64(s.ID))
		}
		return nil
	}
	algID := func() []byte { return derSeq(derOID(s.AlgOID), s.AlgParams) }
	switch s.Kind {
	case "pace", "ca":
		return derSeq(derOID(s.OID), derInt(int64(s.Version)), optID())
	case "pace-domain":
		return derSeq(derOID(s.OID), algID(), optID())
	case "aa":
		return derSeq(derOID(s.OID), derInt(int64(s.Version)), derOID(s.SigAlgOID))
	case "ca-pk":
		return derSeq(derOID(s.OID), derSeq(algID(), derBitString(s.PubKey)), optID())
	case "ta":
		return derSeq(derOID(s.OID), derInt(int64(s.Version)))
	case "efdir":
		return derSeq(derOID(s.OID), derOctets(s.EFDir))
	case "unknown":
		return derSeq(derOID(s.OID), s.Extra)
	}
	panic("reflds: unknown SecurityInfo kind " + s.Kind)
}

// EncSecInfos encodes SET OF SecurityInfo in the given order (BER allows any order) and returns the view.
func EncSecInfos(infos []SecInfo) ([]byte, *SecInfosView) {
	v := &SecInfosView{}
	var parts [][]byte
	for _, s := range infos {
		raw := encSecInfo(s)
		parts = append(parts, raw)
		v.Infos = append(v.Infos, SecInfoView{SecInfo: s, Raw: raw})
	}
	v.Raw = derSet(parts...)
	return v.Raw, v
}

func secLabel(infos []SecInfo) string {
	s := ""
	for i, x := range infos {
		if i > 0 {
			s += ","
		}
		s += x.Kind
		if x.HasID {
			s += fmt.Sprintf("#%d", x.ID)
		}
	}
	return "{" + s + "}"
}

// BuildDG14 builds DG14 = 6E{SET OF SecurityInfo}.
func BuildDG14(infos []SecInfo) File {
	set, v := EncSecInfos(infos)
	return File{Kind: KDG14, Label: secLabel(infos), Bytes: tlv(0x6E, set), View: v}
}

// BuildCardAccess builds EF.CardAccess = bare SET OF SecurityInfo.
func BuildCardAccess(infos []SecInfo) File {
	set, v := EncSecInfos(infos)
	return File{Kind: KCardAccess, Label: secLabel(infos), Bytes: set, View: v}
}

const (
	oidPaceEcdhGmAes128  = "0.4.0.127.0.7.2.2.4.2.2"
	oidPaceDhGm3Des      = "0.4.0.127.0.7.2.2.4.1.1"
	oidPaceEcdhCamAes256 = "0.4.0.127.0.7.2.2.4.6.4"
	oidPaceEcdhGm        = "0.4.0.127.0.7.2.2.4.2"
	oidStdDomainParams   = "0.4.0.127.0.7.1.2"
	oidCaEcdhAes128      = "0.4.0.127.0.7.2.2.3.2.2"
	oidCaDh3Des          = "0.4.0.127.0.7.2.2.3.1.1"
	oidPkEcdh            = "0.4.0.127.0.7.2.2.1.2"
	oidPkDh              = "0.4.0.127.0.7.2.2.1.1"
	oidTa                = "0.4.0.127.0.7.2.2.2"
	oidAaProtocol        = "2.23.136.1.1.5"
	oidEcdsaPlainSha256  = "0.4.0.127.0.7.1.1.4.1.3"
	oidEfDir             = "1.3.27.1.1.13"
	oidDhPublicNumber    = "1.2.840.10046.2.1"
)

// SecInfoAlphabet is the fixed alphabet of SecurityInfo elements the enumerations draw subsets from.
func SecInfoAlphabet() []SecInfo {
	dhParams := derSeq(derUint(fakeModulus(1024)), derInt(2), derUint(fakeModulus(160)))
	dhKey := derUint(fakeModulus(1016))
	return []SecInfo{
		{Kind: "pace", OID: oidPaceEcdhGmAes128, Version: 2, HasID: true, ID: 13},
		{Kind: "pace", OID: oidPaceDhGm3Des, Version: 2},
		{Kind: "pace", OID: oidPaceEcdhCamAes256, Version: 2, HasID: true, ID: 16},
		{Kind: "pace-domain", OID: oidPaceEcdhGm, AlgOID: oidStdDomainParams, AlgParams: derInt(13), HasID: true, ID: 1},
		{Kind: "ca", OID: oidCaEcdhAes128, Version: 1, HasID: true, ID: 5},
		{Kind: "ca", OID: oidCaDh3Des, Version: 1},
		{Kind: "ca-pk", OID: oidPkEcdh, AlgOID: oidECPublicKey, AlgParams: derOID(oidPrime256v1), PubKey: ecPointP256(), HasID: true, ID: 5},
		{Kind: "ca-pk", OID: oidPkDh, AlgOID: oidDhPublicNumber, AlgParams: dhParams, PubKey: dhKey},
		{Kind: "aa", OID: oidAaProtocol, Version: 1, SigAlgOID: oidEcdsaPlainSha256},
		{Kind: "ta", OID: oidTa, Version: 1},
		{Kind: "efdir", OID: oidEfDir, EFDir: cat(tlv(0x61, tlv(0x4F, unhex("A0000002471001"))))},
		{Kind: "unknown", OID: "1.2.3.4.5", Extra: derInt(1)},
	}
}

func enumSecInfoSubsets(thorough bool, emit func([]SecInfo)) {
	a := SecInfoAlphabet()
	for m := 1; m < 1<<len(a); m++ {
		var infos []SecInfo
		for i := range a {
			if m&(1<<i) != 0 {
				infos = append(infos, a[i])
			}
		}
		emit(infos)
	}
	// the full set in reverse order, and with a repeated kind at the ends (SET OF is unordered)
	var rev []SecInfo
	for i := len(a) - 1; i >= 0; i-- {
		rev = append(rev, a[i])
	}
	emit(rev)
	emit([]SecInfo{a[4], a[0], a[9], a[2], a[5]})
}

func enumDG14(thorough bool, emit func(File)) {
	enumSecInfoSubsets(thorough, func(infos []SecInfo) { emit(BuildDG14(infos)) })
}

func enumCardAccess(thorough bool, emit func(File)) {
	enumSecInfoSubsets(thorough, func(infos []SecInfo) { emit(BuildCardAccess(infos)) })
}
