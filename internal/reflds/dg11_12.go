package reflds

import "fmt"

// ---- DG11 ----

// DG11Tags are the 13 optional data objects of DG11 in table order (9303-10 Table 71). Bit i of
// DG11Spec.Present selects DG11Tags[i].
var DG11Tags = []uint32{0x5F0E, 0x5F0F, 0x5F10, 0x5F2B, 0x5F11, 0x5F42, 0x5F12, 0x5F13, 0x5F14, 0x5F15, 0x5F16, 0x5F17, 0x5F18}

const (
	D11Name = 1 << iota
	D11OtherNames
	D11PersonalNumber
	D11FullDOB
	D11PlaceOfBirth
	D11Address
	D11Telephone
	D11Profession
	D11Title
	D11PersonalSummary
	D11ProofOfCitizenship
	D11OtherTravelDocs
	D11Custody
	D11All = 1<<13 - 1
)

// DG11Spec is the abstract value; only fields selected by Present are written.
type DG11Spec struct {
	Present        uint16
	Name           NameSpec
	OtherNames     []NameSpec // 1..n when D11OtherNames is set
	OtherNamesBare bool       // false: A0{02 n, n x 5F0F} (9303-10); true: n x 5F0F directly inside 6B (seen in the field; the library documents support)
	// OtherNamesListedAs: how the tag list (5C) names the other-names element in the A0 form. 0: 5F0F (the tag of
	// the repeated element), 1: A0 (the tag of the template), 2: both - each is a data object that is really in the file
	OtherNamesListedAs int
	PersonalNumber     string
	FullDOB            string // YYYYMMDD
	BCDDate            bool   // 4 BCD bytes instead of 8 ASCII digits
	PlaceOfBirth       []string
	Address            []string
	Telephone          string
	Profession         string
	Title              string
	PersonalSummary    string
	ProofOfCitizenship []byte
	OtherTravelDocs    []string
	Custody            string
}

// DG11View: absent elements have the zero value.
type DG11View struct {
	NameOfHolder         *Name
	OtherNames           []Name
	PersonalNumber       string
	FullDateOfBirth      string
	PlaceOfBirth         []string
	Address              []string
	Telephone            string
	Profession           string
	Title                string
	PersonalSummary      string
	ProofOfCitizenship   []byte
	OtherTravelDocuments []string
	CustodyInformation   string
}

// BuildDG11 builds DG11 = 6B{5C tag list, data objects in tag-list order}. The tag list names 5F0F for
// the other-names element in both encodings.
func BuildDG11(s DG11Spec) File {
	v := &DG11View{}
	var tagList []byte
	var objs [][]byte
	for i, tag := range DG11Tags {
		if s.Present&(1<<i) == 0 {
			continue
		}
		if 1<<i == D11OtherNames && !s.OtherNamesBare && s.OtherNamesListedAs == 1 {
			tagList = append(tagList, 0xA0)
		} else if 1<<i == D11OtherNames && !s.OtherNamesBare && s.OtherNamesListedAs == 2 {
			tagList = append(append(tagList, 0xA0), tagBytes(tag)...)
		} else {
			tagList = append(tagList, tagBytes(tag)...)
		}
		switch 1 << i {
		case D11Name:
			objs = append(objs, tlv(tag, []byte(s.Name.Wire())))
			n := s.Name.View()
			v.NameOfHolder = &n
		case D11OtherNames:
			var names [][]byte
			for _, on := range s.OtherNames {
				names = append(names, tlv(0x5F0F, []byte(on.Wire())))
				v.OtherNames = append(v.OtherNames, on.View())
			}
			if s.OtherNamesBare {
				objs = append(objs, names...)
			} else {
				objs = append(objs, tlv(0xA0, cat(tlv(0x02, []byte{byte(len(names))}), cat(names...))))
			}
		case D11PersonalNumber:
			objs = append(objs, tlv(tag, []byte(s.PersonalNumber)))
			v.PersonalNumber = s.PersonalNumber
		case D11FullDOB:
			if s.BCDDate {
				objs = append(objs, tlv(tag, bcd(s.FullDOB)))
			} else {
				objs = append(objs, tlv(tag, []byte(s.FullDOB)))
			}
			v.FullDateOfBirth = s.FullDOB
		case D11PlaceOfBirth:
			objs = append(objs, tlv(tag, []byte(join(s.PlaceOfBirth, "<"))))
			v.PlaceOfBirth = s.PlaceOfBirth
		case D11Address:
			objs = append(objs, tlv(tag, []byte(join(s.Address, "<"))))
			v.Address = s.Address
		case D11Telephone:
			objs = append(objs, tlv(tag, []byte(s.Telephone)))
			v.Telephone = s.Telephone
		case D11Profession:
			objs = append(objs, tlv(tag, []byte(s.Profession)))
			v.Profession = s.Profession
		case D11Title:
			objs = append(objs, tlv(tag, []byte(s.Title)))
			v.Title = s.Title
		case D11PersonalSummary:
			objs = append(objs, tlv(tag, []byte(s.PersonalSummary)))
			v.PersonalSummary = s.PersonalSummary
		case D11ProofOfCitizenship:
			objs = append(objs, tlv(tag, s.ProofOfCitizenship))
			v.ProofOfCitizenship = s.ProofOfCitizenship
		case D11OtherTravelDocs:
			objs = append(objs, tlv(tag, []byte(join(s.OtherTravelDocs, "<"))))
			v.OtherTravelDocuments = s.OtherTravelDocs
		case D11Custody:
			objs = append(objs, tlv(tag, []byte(s.Custody)))
			v.CustodyInformation = s.Custody
		}
	}
	label := fmt.Sprintf("present=%013b otherNames=%d bare=%v bcd=%v listedAs=%d", s.Present, len(s.OtherNames), s.OtherNamesBare, s.BCDDate, s.OtherNamesListedAs)
	return File{Kind: KDG11, Label: label, Bytes: tlv(0x6B, cat(tlv(0x5C, tagList), cat(objs...))), View: v}
}

var otherNamePool = []NameSpec{
	{Primary: []string{"SMITH"}, Secondary: []string{"JOHN"}},
	{Primary: []string{"JOHN"}, Secondary: []string{"SMITH", "JUNIOR"}},
	{Primary: []string{"JONES"}},
}

// StdDG11 returns the fixed field values used by the enumeration, with the given presence mask.
func StdDG11(present uint16, nOther int, bare, bcdDate bool) DG11Spec {
	return DG11Spec{Present: present,
		Name:       NameSpec{Primary: []string{"SMITH", "BAKER"}, Secondary: []string{"JOHN", "J"}},
		OtherNames: otherNamePool[:nOther], OtherNamesBare: bare,
		PersonalNumber: "123456789012", FullDOB: "19740812", BCDDate: bcdDate,
		PlaceOfBirth: []string{"ANYTOWN", "MN"},
		Address:      []string{"123 MAPLE RD", "ANYTOWN", "MN"},
		Telephone:    "16125551212", Profession: "TRAVEL AGENT", Title: "DR", PersonalSummary: "VIP TRAVELLER",
		ProofOfCitizenship: Image(MagicJPEG, 11, 60), OtherTravelDocs: []string{"P1234567", "I7654321X"}, Custody: "NONE RECORDED"}
}

func popcount(x uint16) int {
	n := 0
	for ; x != 0; x &= x - 1 {
		n++
	}
	return n
}

func enumDG11(thorough bool, emit func(File)) {
	type cfg struct {
		n         int
		bare, bcd bool
	}
	var cfgs []cfg
	for n := 1; n <= 3; n++ {
		for _, bare := range []bool{false, true} {
			for _, b := range []bool{false, true} {
				cfgs = append(cfgs, cfg{n, bare, b})
			}
		}
	}
	for _, cf := range cfgs {
		for m := 0; m <= D11All; m++ {
			mask := uint16(m)
			if !thorough && !(cf.n == 2 && !cf.bare && !cf.bcd) {
				// quick: all 2^13 subsets for one configuration (2 other names, A0 form, ASCII date); for the others
				// every subset of size <=2 or >=12 (each pair of elements together and each element alone/absent)
				if pc := popcount(mask); pc > 2 && pc < 12 {
					continue
				}
			}
			// configurations differing only in an absent element are the same file: emit once
			if mask&D11OtherNames == 0 && (cf.n != 2 || cf.bare) {
				continue
			}
			if mask&D11FullDOB == 0 && cf.bcd {
				continue
			}
			emit(BuildDG11(StdDG11(mask, cf.n, cf.bare, cf.bcd)))
		}
	}
	// the tag list names the other-names element by the template tag A0, or by both A0 and 5F0F
	for _, la := range []int{1, 2} {
		for n := 1; n <= 3; n++ {
			for _, mask := range []uint16{D11OtherNames, D11Name | D11OtherNames | D11PersonalNumber, D11All} {
				sp := StdDG11(mask, n, false, false)
				sp.OtherNamesListedAs = la
				emit(BuildDG11(sp))
			}
		}
	}
	// a UTF-8 name and place (9303-10: DG11 text is UTF-8)
	s := StdDG11(D11Name|D11PlaceOfBirth|D11OtherNames, 1, false, false)
	s.Name = NameSpec{Primary: []string{"MÜLLER"}, Secondary: []string{"JÖRG"}}
	s.PlaceOfBirth = []string{"KÖLN"}
	s.OtherNames = []NameSpec{{Primary: []string{"赵"}, Secondary: []string{"斌"}}}
	emit(BuildDG11(s))
}

// ---- DG12 ----

// DG12Tags are the 9 optional data objects of DG12 in table order (9303-10 Table 72).
var DG12Tags = []uint32{0x5F19, 0x5F26, 0x5F1A, 0x5F1B, 0x5F1C, 0x5F1D, 0x5F1E, 0x5F55, 0x5F56}

const (
	D12IssuingAuthority = 1 << iota
	D12DateOfIssue
	D12OtherPersons
	D12Endorsements
	D12TaxExit
	D12ImageFront
	D12ImageRear
	D12PersoDateTime
	D12PersoSerial
	D12All = 1<<9 - 1
)

type DG12Spec struct {
	Present          uint16
	IssuingAuthority string
	DateOfIssue      string // YYYYMMDD
	BCDDate          bool
	OtherPersons     []NameSpec // A0{02 n, n x 5F1A}
	Endorsements     string
	TaxExit          string
	ImageFront       []byte
	ImageRear        []byte
	PersoDateTime    string // YYYYMMDDhhmmss
	BCDDateTime      bool   // 7 BCD bytes instead of 14 ASCII digits
	PersoSerial      string
}

type DG12View struct {
	IssuingAuthority            string
	DateOfIssue                 string
	OtherPersons                []Name
	EndorsementsAndObservations string
	TaxExitRequirements         string
	ImageFront                  []byte
	ImageRear                   []byte
	PersoDateTime               string
	PersoSystemSerialNumber     string
}

// BuildDG12 builds DG12 = 6C{5C tag list, data objects}; other persons are A0{02 n, n x 5F1A}, named 5F1A
// in the tag list.
func BuildDG12(s DG12Spec) File {
	v := &DG12View{}
	var tagList []byte
	var objs [][]byte
	for i, tag := range DG12Tags {
		if s.Present&(1<<i) == 0 {
			continue
		}
		tagList = append(tagList, tagBytes(tag)...)
		switch 1 << i {
		case D12IssuingAuthority:
			objs = append(objs, tlv(tag, []byte(s.IssuingAuthority)))
			v.IssuingAuthority = s.IssuingAuthority
		case D12DateOfIssue:
			if s.BCDDate {
				objs = append(objs, tlv(tag, bcd(s.DateOfIssue)))
			} else {
				objs = append(objs, tlv(tag, []byte(s.DateOfIssue)))
			}
			v.DateOfIssue = s.DateOfIssue
		case D12OtherPersons:
			var names [][]byte
			for _, on := range s.OtherPersons {
				names = append(names, tlv(0x5F1A, []byte(on.Wire())))
				v.OtherPersons = append(v.OtherPersons, on.View())
			}
			objs = append(objs, tlv(0xA0, cat(tlv(0x02, []byte{byte(len(names))}), cat(names...))))
		case D12Endorsements:
			objs = append(objs, tlv(tag, []byte(s.Endorsements)))
			v.EndorsementsAndObservations = s.Endorsements
		case D12TaxExit:
			objs = append(objs, tlv(tag, []byte(s.TaxExit)))
			v.TaxExitRequirements = s.TaxExit
		case D12ImageFront:
			objs = append(objs, tlv(tag, s.ImageFront))
			v.ImageFront = s.ImageFront
		case D12ImageRear:
			objs = append(objs, tlv(tag, s.ImageRear))
			v.ImageRear = s.ImageRear
		case D12PersoDateTime:
			if s.BCDDateTime {
				objs = append(objs, tlv(tag, bcd(s.PersoDateTime)))
			} else {
				objs = append(objs, tlv(tag, []byte(s.PersoDateTime)))
			}
			v.PersoDateTime = s.PersoDateTime
		case D12PersoSerial:
			objs = append(objs, tlv(tag, []byte(s.PersoSerial)))
			v.PersoSystemSerialNumber = s.PersoSerial
		}
	}
	label := fmt.Sprintf("present=%09b otherPersons=%d bcdDate=%v bcdDateTime=%v", s.Present, len(s.OtherPersons), s.BCDDate, s.BCDDateTime)
	return File{Kind: KDG12, Label: label, Bytes: tlv(0x6C, cat(tlv(0x5C, tagList), cat(objs...))), View: v}
}

// StdDG12 returns the fixed field values used by the enumeration.
func StdDG12(present uint16, nOther int, bcdDate, bcdDT bool) DG12Spec {
	return DG12Spec{Present: present, IssuingAuthority: "UNITED STATES OF UTOPIA", DateOfIssue: "20160229", BCDDate: bcdDate,
		OtherPersons: otherNamePool[:nOther], Endorsements: "NO ENDORSEMENTS", TaxExit: "EXIT TAX PAID",
		ImageFront: Image(MagicJPEG, 21, 70), ImageRear: Image(MagicJP2, 22, 130),
		PersoDateTime: "20161115013612", BCDDateTime: bcdDT, PersoSerial: "N-4962"}
}

func enumDG12(thorough bool, emit func(File)) {
	for n := 1; n <= 3; n++ {
		for _, bd := range []bool{false, true} {
			for _, bt := range []bool{false, true} {
				for m := 0; m <= D12All; m++ {
					mask := uint16(m)
					if mask&D12OtherPersons == 0 && n != 2 {
						continue
					}
					if mask&D12DateOfIssue == 0 && bd {
						continue
					}
					if mask&D12PersoDateTime == 0 && bt {
						continue
					}
					emit(BuildDG12(StdDG12(mask, n, bd, bt)))
				}
			}
		}
	}
}
