// Package reflds GENERATES ICAO 9303-10/-11 LDS files (EF.COM, EF.SOD, DG1, DG2, DG7, DG11..DG16,
// EF.CardAccess, EF.CardSecurity) from abstract values. It is an independent oracle: it imports no
// gmrtd package (stdlib only) and contains NO parser. Every generator returns the raw file bytes together
// with the view a caller must see, computed from the abstract value (never by decoding the bytes), so a
// parser bug cannot be shared between the library and the reference.
//
// API
//
//	type Kind string                        // "DG1" "DG2" "DG7" "DG11".."DG16" "COM" "SOD" "CardAccess" "CardSecurity" ("DIR")
//	var  Kinds []Kind                        // the 13 file types of the C19 quantifier in a fixed order (+ KDIR apart)
//	func (k Kind) DG() int                   // data-group number, 0 for non-DG files
//	type File struct{ Kind; Label; Bytes; View }   // View is *DG1View, *DG2View, ... (see views.go)
//
//	Build<Kind>(spec) File                   // one file from one abstract value:
//	    BuildDG1(MRZSpec) BuildDG2(DG2Spec) BuildDG7(DG7Spec) BuildDG11(DG11Spec) BuildDG12(DG12Spec)
//	    BuildDG13(content) BuildDG14([]SecInfo) BuildDG15(DG15Spec) BuildDG16(DG16Spec) BuildCOM(COMSpec)
//	    BuildSOD(SODSpec) BuildCardAccess([]SecInfo) BuildCardSecurity(CardSecuritySpec) BuildDIR([][]byte)
//	func BuildMRZ(MRZSpec) (string, error)   // TD1/TD2/TD3 MRZ with ICAO 9303-3 §4.9 (7-3-1) check digits
//	func CheckDigit(string) byte
//
//	func Enumerate(k Kind, thorough bool, emit func(File))
//	    deterministic, complete enumeration of the kind's optional-field / repetition space (bounds are
//	    described by Bound(k, thorough)); every call produces the same sequence.
//	func Bound(k Kind, thorough bool) string
//
//	func Seeds() []Seed                      // deterministic list of genuine seed files, >= 1 rich instance
//	type Seed struct{ Name; Kind; DG; Bytes } // per file type, for reuse by other checks (C12 sweep, C15)
//
//	func SelfTest() error                    // generator self-test (ICAO specimen MRZ lines, X.509 parse of
//	                                         // the home-made certificate, DER well-formedness)
//
// Only forms whose rendering ICAO 9303 fixes are generated: names use "<<" between primary and secondary
// identifier and "<" between components and are never truncated; "<"-separated lists have no empty
// elements; dates are 8 ASCII digits or 4 BCD bytes (date-times 14 / 7); free text contains no filler
// and no leading/trailing blank; images are opaque byte strings with a JPEG / JPEG-2000 magic.
// EF.SOD and EF.CardSecurity carry a syntactically valid CMS SignedData with a home-made certificate and
// a dummy (NOT verifiable) signature; the messageDigest attribute is the real digest of the eContent.
package reflds

import "fmt"

// Kind names one of the 14 LDS file types.
type Kind string

const (
	KDG1          Kind = "DG1"
	KDG2          Kind = "DG2"
	KDG7          Kind = "DG7"
	KDG11         Kind = "DG11"
	KDG12         Kind = "DG12"
	KDG13         Kind = "DG13"
	KDG14         Kind = "DG14"
	KDG15         Kind = "DG15"
	KDG16         Kind = "DG16"
	KCOM          Kind = "COM"
	KSOD          Kind = "SOD"
	KCardAccess   Kind = "CardAccess"
	KCardSecurity Kind = "CardSecurity"
)

// Kinds lists the 13 file types of the C19 quantifier in a fixed order. EF.DIR (KDIR) is generated too (it
// is the 14th file the library has a constructor for) but is not a member of Kinds: it has no outer tag.
var Kinds = []Kind{KCOM, KSOD, KDG1, KDG2, KDG7, KDG11, KDG12, KDG13, KDG14, KDG15, KDG16, KCardAccess, KCardSecurity}

// KDIR is EF.DIR: a bare sequence of application templates 61{4F aid}. View type *DIRView.
const KDIR Kind = "DIR"

// DG returns the data-group number of the kind, 0 for EF.COM/EF.SOD/CardAccess/CardSecurity.
func (k Kind) DG() int {
	switch k {
	case KDG1:
		return 1
	case KDG2:
		return 2
	case KDG7:
		return 7
	case KDG11:
		return 11
	case KDG12:
		return 12
	case KDG13:
		return 13
	case KDG14:
		return 14
	case KDG15:
		return 15
	case KDG16:
		return 16
	}
	return 0
}

// File is one generated LDS file: the raw bytes and the view a caller must see.
type File struct {
	Kind  Kind
	Label string // compact description of the abstract value (stable, no raw data)
	Bytes []byte
	View  any // *DG1View *DG2View *DG7View *DG11View *DG12View *DG13View *SecInfosView(DG14, CardAccess) *DG15View *DG16View *COMView *SODView *CardSecurityView
}

// Seed is a genuine file offered to other checks as a starting point.
type Seed struct {
	Name  string
	Kind  Kind
	DG    int
	Bytes []byte
}

// Name is a holder / person name as a caller must see it: components joined by single blanks.
type Name struct {
	Primary   string
	Secondary string
}

func (n Name) String() string { return fmt.Sprintf("%q/%q", n.Primary, n.Secondary) }

// NameSpec is a name in its abstract form: lists of components (upper-case, no filler, no blank).
type NameSpec struct {
	Primary   []string
	Secondary []string
}

// Wire renders the name as ICAO 9303 prescribes: components separated by '<', identifiers by '<<'.
func (n NameSpec) Wire() string {
	s := join(n.Primary, "<")
	if len(n.Secondary) > 0 {
		s += "<<" + join(n.Secondary, "<")
	}
	return s
}

// View is the rendering a caller must see.
func (n NameSpec) View() Name {
	return Name{Primary: join(n.Primary, " "), Secondary: join(n.Secondary, " ")}
}

func join(a []string, sep string) string {
	s := ""
	for i, x := range a {
		if i > 0 {
			s += sep
		}
		s += x
	}
	return s
}
