package reflds

import (
	"strconv"
	"strings"
)

// ---- BER-TLV / DER writers (definite, minimal lengths) ----

func encLen(n int) []byte {
	switch {
	case n < 0x80:
		return []byte{byte(n)}
	case n < 0x100:
		return []byte{0x81, byte(n)}
	case n < 0x10000:
		return []byte{0x82, byte(n >> 8), byte(n)}
	default:
		return []byte{0x83, byte(n >> 16), byte(n >> 8), byte(n)}
	}
}

func tagBytes(tag uint32) []byte {
	switch {
	case tag > 0xFFFFFF:
		return []byte{byte(tag >> 24), byte(tag >> 16), byte(tag >> 8), byte(tag)}
	case tag > 0xFFFF:
		return []byte{byte(tag >> 16), byte(tag >> 8), byte(tag)}
	case tag > 0xFF:
		return []byte{byte(tag >> 8), byte(tag)}
	}
	return []byte{byte(tag)}
}

func cat(parts ...[]byte) []byte {
	n := 0
	for _, p := range parts {
		n += len(p)
	}
	out := make([]byte, 0, n)
	for _, p := range parts {
		out = append(out, p...)
	}
	return out
}

// tlv encodes tag (given as the integer formed by its octets, e.g. 0x5F1F, 0x7F61) || length || content.
func tlv(tag uint32, content ...[]byte) []byte {
	body := cat(content...)
	return cat(tagBytes(tag), encLen(len(body)), body)
}

func derSeq(c ...[]byte) []byte    { return tlv(0x30, c...) }
func derSet(c ...[]byte) []byte    { return tlv(0x31, c...) }
func derOctets(b []byte) []byte    { return tlv(0x04, b) }
func derNull() []byte              { return []byte{0x05, 0x00} }
func derPrintable(s string) []byte { return tlv(0x13, []byte(s)) }
func derUTF8(s string) []byte      { return tlv(0x0C, []byte(s)) }
func derUTCTime(s string) []byte   { return tlv(0x17, []byte(s)) }
func derBitString(b []byte) []byte { return tlv(0x03, []byte{0}, b) }

// intContent is the two's complement minimal content of a non-negative integer.
func intContent(v int64) []byte {
	if v < 0 {
		panic("reflds: negative integers are not generated")
	}
	var b []byte
	for {
		b = append([]byte{byte(v)}, b...)
		v >>= 8
		if v == 0 {
			break
		}
	}
	if b[0]&0x80 != 0 {
		b = append([]byte{0}, b...)
	}
	return b
}

func derInt(v int64) []byte { return tlv(0x02, intContent(v)) }

// derUint encodes an unsigned big-endian magnitude as INTEGER.
func derUint(mag []byte) []byte {
	for len(mag) > 1 && mag[0] == 0 {
		mag = mag[1:]
	}
	if len(mag) == 0 {
		mag = []byte{0}
	}
	if mag[0]&0x80 != 0 {
		return tlv(0x02, []byte{0}, mag)
	}
	return tlv(0x02, mag)
}

// ctxPrim is a context-specific primitive element [n] IMPLICIT.
func ctxPrim(n int, content []byte) []byte { return tlv(uint32(0x80+n), content) }

// ctxCons is a context-specific constructed element [n].
func ctxCons(n int, content ...[]byte) []byte { return tlv(uint32(0xA0+n), content...) }

func ctxInt(n int, v int64) []byte { return ctxPrim(n, intContent(v)) }

func oidContent(dotted string) []byte {
	parts := strings.Split(dotted, ".")
	arcs := make([]uint64, len(parts))
	for i, p := range parts {
		v, err := strconv.ParseUint(p, 10, 63)
		if err != nil {
			panic("reflds: bad OID " + dotted)
		}
		arcs[i] = v
	}
	if len(arcs) < 2 {
		panic("reflds: short OID " + dotted)
	}
	b128 := func(v uint64) []byte {
		out := []byte{byte(v & 0x7F)}
		v >>= 7
		for v > 0 {
			out = append([]byte{byte(v&0x7F) | 0x80}, out...)
			v >>= 7
		}
		return out
	}
	out := b128(arcs[0]*40 + arcs[1])
	for _, a := range arcs[2:] {
		out = append(out, b128(a)...)
	}
	return out
}

func derOID(dotted string) []byte { return tlv(0x06, oidContent(dotted)) }

// ---- opaque images ----

// Image magics (ICAO 9303-10: JPEG per ISO/IEC 10918 JFIF, JPEG 2000 per ISO/IEC 15444).
const (
	MagicJPEG = iota // FF D8 FF E0 .. JFIF
	MagicJP2         // 00 00 00 0C 6A 50 20 20 0D 0A 87 0A
	MagicJ2K         // FF 4F FF 51 (raw codestream)
)

// Image returns an opaque image of exactly size bytes (size >= 24) that starts with the magic and whose body
// is a function of id, so that different ids give different images.
func Image(magic, id, size int) []byte {
	var head []byte
	switch magic {
	case MagicJPEG:
		head = []byte{0xFF, 0xD8, 0xFF, 0xE0, 0x00, 0x10, 'J', 'F', 'I', 'F', 0x00, 0x01, 0x01}
	case MagicJP2:
		head = []byte{0x00, 0x00, 0x00, 0x0C, 0x6A, 0x50, 0x20, 0x20, 0x0D, 0x0A, 0x87, 0x0A}
	default:
		head = []byte{0xFF, 0x4F, 0xFF, 0x51, 0x00, 0x29}
	}
	if size < 24 {
		size = 24
	}
	out := make([]byte, size)
	copy(out, head)
	for i := len(head); i < size; i++ {
		out[i] = byte(id*37 + i*11 + 5)
	}
	out[len(head)] = byte(id)
	out[len(head)+1] = byte(id >> 8)
	if magic == MagicJPEG {
		out[size-2], out[size-1] = 0xFF, 0xD9
	}
	return out
}

// bcd packs an even-length digit string into BCD.
func bcd(digits string) []byte {
	if len(digits)%2 != 0 {
		panic("reflds: odd BCD")
	}
	out := make([]byte, len(digits)/2)
	for i := range out {
		out[i] = (digits[2*i]-'0')<<4 | (digits[2*i+1] - '0')
	}
	return out
}
