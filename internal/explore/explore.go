// Package explore is the stateless, deviation-bounded explorer (CHESS-style iterative bounding applied
// to environment answers). The system under test calls Env.Choose at every point where the environment
// answers; choice 0 is the default answer. Explore enumerates EVERY execution whose number of non-default
// choices is <= D (D < 0: every execution), each run to completion by re-executing from scratch with a
// choice prefix. A choice outside the recorded menu while replaying a prefix is a hard error
// (nondeterminism that the harness does not own).
package explore

import "fmt"

type Point struct {
	Label string
	N     int // menu size
	Pick  int
}

type Env struct {
	prefix []int
	Points []Point
	// MaxPoints guards against executions that never go quiescent (horizon).
	MaxPoints int
	Overrun   bool
}

// Choose returns the environment's answer at this point: the prefix value while replaying, else 0.
func (e *Env) Choose(label string, n int) int {
	if n <= 0 {
		panic("explore: empty menu at " + label)
	}
	i := len(e.Points)
	if e.MaxPoints > 0 && i >= e.MaxPoints {
		e.Overrun = true
		e.Points = append(e.Points, Point{label, n, 0})
		return 0
	}
	pick := 0
	if i < len(e.prefix) {
		pick = e.prefix[i]
		if pick >= n {
			panic(fmt.Sprintf("explore: replay divergence at point %d (%s): recorded choice %d, menu now %d", i, label, pick, n))
		}
	}
	e.Points = append(e.Points, Point{label, n, pick})
	return pick
}

func (e *Env) Choices() []int {
	out := make([]int, len(e.Points))
	for i, p := range e.Points {
		out[i] = p.Pick
	}
	return out
}

// Deviations counts the non-default choices taken.
func (e *Env) Deviations() int {
	d := 0
	for _, p := range e.Points {
		if p.Pick != 0 {
			d++
		}
	}
	return d
}

// TrimmedChoices returns the choice list without trailing defaults (the replayable schedule).
func (e *Env) TrimmedChoices() []int {
	c := e.Choices()
	for len(c) > 0 && c[len(c)-1] == 0 {
		c = c[:len(c)-1]
	}
	return c
}

type Stats struct {
	Executions int64
	Points     int64
	MaxDepth   int
	Stopped    bool
}

// Run executes body once with the given choice prefix.
func Run(prefix []int, maxPoints int, body func(e *Env)) *Env {
	e := &Env{prefix: prefix, MaxPoints: maxPoints}
	body(e)
	return e
}

// Explore enumerates all executions with at most D deviations. body must be deterministic given the
// choices. visit is called after every execution; returning false stops the exploration (deadline).
// mine, if non-nil, is consulted for every first-level subtree (alternatives branching off the
// all-default execution) so that subtrees can be sharded over worker processes.
func Explore(D int, maxPoints int, body func(e *Env), visit func(e *Env) bool, mine func() bool) Stats {
	var st Stats
	var rec func(prefix []int, top bool)
	rec = func(prefix []int, top bool) {
		if st.Stopped {
			return
		}
		e := Run(prefix, maxPoints, body)
		st.Executions++
		st.Points += int64(len(e.Points))
		if len(e.Points) > st.MaxDepth {
			st.MaxDepth = len(e.Points)
		}
		if !visit(e) {
			st.Stopped = true
			return
		}
		dev := 0
		for i := 0; i < len(prefix); i++ {
			if e.Points[i].Pick != 0 {
				dev++
			}
		}
		if D >= 0 && dev+1 > D {
			return
		}
		ch := e.Choices()
		for i := len(prefix); i < len(e.Points); i++ {
			for alt := 1; alt < e.Points[i].N; alt++ {
				if top && mine != nil && !mine() {
					continue
				}
				np := append(append([]int{}, ch[:i]...), alt)
				rec(np, false)
				if st.Stopped {
					return
				}
			}
		}
	}
	if mine == nil || true {
		rec(nil, true)
	}
	return st
}

// Root reports whether this execution is the all-default one (run by every worker when sharding).
func (e *Env) Root() bool { return len(e.prefix) == 0 }
