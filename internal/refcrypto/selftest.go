package refcrypto

import (
	"bytes"
	"crypto/sha1"
	"encoding/hex"
	"fmt"
)

func hx(s string) []byte {
	b, err := hex.DecodeString(s)
	if err != nil {
		panic(err)
	}
	return b
}

// SelfTest checks the reference functions against the worked examples of ICAO 9303-11 Appendix D
// (BAC key derivation, authentication cryptograms, session keys, secure messaging) and NIST SP 800-38B
// / RFC 4493 AES-CMAC vectors. A failure is a harness error, never a property violation.
func SelfTest() error {
	// D.2: key seed and basic access keys
	h := sha1.Sum([]byte("L898902C<369080619406236"))
	kseed := h[:16]
	if !bytes.Equal(kseed, hx("239AB9CB282DAF66231DC5A4DF6BFBAE")) {
		return fmt.Errorf("Kseed")
	}
	kenc := KDF(kseed, 1, TDES)
	kmac := KDF(kseed, 2, TDES)
	if !bytes.Equal(kenc, hx("AB94FDECF2674FDFB9B391F85D7F76F2")) || !bytes.Equal(kmac, hx("7962D9ECE03D1ACD4C76089DCE131543")) {
		return fmt.Errorf("D.2 Kenc/Kmac: %x %x", kenc, kmac)
	}
	// D.3: authentication
	s := hx("781723860C06C2264608F91988702212" + "0B795240CB7049B01C19B33E32804F0B")
	eifd := CBCEncrypt(TDES, kenc, make([]byte, 8), s)
	if !bytes.Equal(eifd, hx("72C29C2371CC9BDB65B779B8E8D37B29ECC154AA56A8799FAE2F498F76ED92F2")) {
		return fmt.Errorf("D.3 E_IFD: %x", eifd)
	}
	if m := MAC8(TDES, kmac, eifd); !bytes.Equal(m, hx("5F1448EEA8AD90A7")) {
		return fmt.Errorf("D.3 M_IFD: %x", m)
	}
	kseed2 := hx("0036D272F5C350ACAC50C3F572D23600")
	ksenc := KDF(kseed2, 1, TDES)
	ksmac := KDF(kseed2, 2, TDES)
	if !bytes.Equal(ksenc, hx("979EC13B1CBFE9DCD01AB0FED307EAE5")) || !bytes.Equal(ksmac, hx("F1CB1F1FB5ADF208806B89DC579DC1F8")) {
		return fmt.Errorf("D.3 KSenc/KSmac: %x %x", ksenc, ksmac)
	}
	// D.4: secure messaging, SELECT EF.COM
	sm := NewSM(TDES, ksenc, ksmac, hx("887022120C06C226"))
	papdu := hx("0CA4020C158709016375432908C044F68E08BF8B92D635FF24F800")
	var hd [4]byte
	copy(hd[:], papdu[:4])
	pc, err := sm.Unwrap(hd, papdu[5:5+0x15], 256, false)
	if err != nil {
		return fmt.Errorf("D.4 unwrap: %v", err)
	}
	if pc.INS != 0xA4 || !bytes.Equal(pc.Data, hx("011E")) || pc.HasLe {
		return fmt.Errorf("D.4 unwrap result %+v", pc)
	}
	if r := sm.Wrap(nil, 0x9000, false); !bytes.Equal(r, hx("990290008E08FA855A5D4C50A8ED9000")) {
		return fmt.Errorf("D.4 wrap: %x", r)
	}
	// D.4: READ BINARY of first four bytes
	papdu = hx("0CB000000D9701048E08ED6705417E96BA5500")
	copy(hd[:], papdu[:4])
	pc, err = sm.Unwrap(hd, papdu[5:5+0x0D], 256, false)
	if err != nil || pc.Ne != 4 || pc.Data != nil {
		return fmt.Errorf("D.4 read binary unwrap: %v %+v", err, pc)
	}
	if r := sm.Wrap(hx("60145F01"), 0x9000, false); !bytes.Equal(r, hx("8709019FF0EC34F9922651990290008E08AD55CC17140B2DED9000")) {
		return fmt.Errorf("D.4 wrap2: %x", r)
	}
	// RFC 4493 AES-CMAC
	k := hx("2b7e151628aed2a6abf7158809cf4f3c")
	if !bytes.Equal(CMAC(k, nil), hx("bb1d6929e95937287fa37d129b756746")) {
		return fmt.Errorf("CMAC empty")
	}
	if !bytes.Equal(CMAC(k, hx("6bc1bee22e409f96e93d7e117393172a")), hx("070a16b46b4d4144f79bdd9dd04a287c")) {
		return fmt.Errorf("CMAC 16")
	}
	if !bytes.Equal(CMAC(k, hx("6bc1bee22e409f96e93d7e117393172aae2d8a571e03ac9c9eb76fac45af8e5130c81c46a35ce411")), hx("dfa66747de9ae63030ca32611497c827")) {
		return fmt.Errorf("CMAC 40")
	}
	return nil
}
