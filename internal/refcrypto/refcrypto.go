// Package refcrypto holds the reference implementations of the ICAO 9303-11 symmetric building blocks:
// KDF, DES parity adjustment, ISO 9797-1 padding method 2, retail MAC (MAC algorithm 3 with DES),
// AES-CMAC (NIST SP 800-38B), CBC with two-key 3DES / AES, and chip-side secure messaging.
// It imports nothing from gmrtd; primitives are from the Go standard library.
package refcrypto

import (
	"bytes"
	"crypto/aes"
	"crypto/cipher"
	"crypto/des"
	"crypto/sha1"
	"crypto/sha256"
	"errors"
	"fmt"
	"math/big"
)

type Alg int

const (
	TDES Alg = iota
	AES128
	AES192
	AES256
)

func (a Alg) String() string {
	return [...]string{"3DES", "AES-128", "AES-192", "AES-256"}[a]
}
func (a Alg) Block() int {
	if a == TDES {
		return 8
	}
	return 16
}
func (a Alg) KeyLen() int { return [...]int{16, 16, 24, 32}[a] }

// AdjustParity sets odd parity on every byte.
func AdjustParity(k []byte) []byte {
	out := make([]byte, len(k))
	for i, b := range k {
		b &= 0xFE
		ones := 0
		for x := b; x != 0; x >>= 1 {
			ones += int(x & 1)
		}
		if ones%2 == 0 {
			b |= 1
		}
		out[i] = b
	}
	return out
}

// KDF per ICAO 9303-11 §9.7.1: c=1 enc, 2 mac, 3 PACE password key.
func KDF(k []byte, c uint32, alg Alg) []byte {
	in := append(append([]byte{}, k...), byte(c>>24), byte(c>>16), byte(c>>8), byte(c))
	switch alg {
	case TDES:
		h := sha1.Sum(in)
		return AdjustParity(h[:16])
	case AES128:
		h := sha1.Sum(in)
		return append([]byte{}, h[:16]...)
	case AES192:
		h := sha256.Sum256(in)
		return append([]byte{}, h[:24]...)
	default:
		h := sha256.Sum256(in)
		return append([]byte{}, h[:32]...)
	}
}

func Pad(data []byte, block int) []byte {
	out := append(append([]byte{}, data...), 0x80)
	for len(out)%block != 0 {
		out = append(out, 0)
	}
	return out
}

func Unpad(data []byte) ([]byte, error) {
	i := len(data) - 1
	for i >= 0 && data[i] == 0 {
		i--
	}
	if i < 0 || data[i] != 0x80 {
		return nil, errors.New("bad padding")
	}
	return data[:i], nil
}

func blockCipher(alg Alg, key []byte) cipher.Block {
	if alg == TDES {
		if len(key) != 16 {
			panic("refcrypto: 3DES key must be 16 bytes")
		}
		k := append(append([]byte{}, key...), key[:8]...)
		c, err := des.NewTripleDESCipher(k)
		if err != nil {
			panic(err)
		}
		return c
	}
	c, err := aes.NewCipher(key)
	if err != nil {
		panic(err)
	}
	return c
}

func cbc(alg Alg, key, iv, data []byte, enc bool) []byte {
	c := blockCipher(alg, key)
	bs := c.BlockSize()
	if len(data)%bs != 0 {
		panic("refcrypto: data not block aligned")
	}
	out := make([]byte, len(data))
	prev := append([]byte{}, iv...)
	for off := 0; off < len(data); off += bs {
		if enc {
			x := make([]byte, bs)
			for i := 0; i < bs; i++ {
				x[i] = data[off+i] ^ prev[i]
			}
			c.Encrypt(out[off:off+bs], x)
			prev = out[off : off+bs]
		} else {
			x := make([]byte, bs)
			c.Decrypt(x, data[off:off+bs])
			for i := 0; i < bs; i++ {
				out[off+i] = x[i] ^ prev[i]
			}
			prev = data[off : off+bs]
		}
	}
	return out
}

func CBCEncrypt(alg Alg, key, iv, data []byte) []byte { return cbc(alg, key, iv, data, true) }
func CBCDecrypt(alg Alg, key, iv, data []byte) []byte { return cbc(alg, key, iv, data, false) }

// ECBEncryptBlock encrypts one block.
func ECBEncryptBlock(alg Alg, key, blk []byte) []byte {
	out := make([]byte, len(blk))
	blockCipher(alg, key).Encrypt(out, blk)
	return out
}

// RetailMAC: ISO/IEC 9797-1 MAC algorithm 3 with DES, data already padded.
func RetailMAC(key16, padded []byte) []byte {
	if len(padded)%8 != 0 || len(padded) == 0 {
		panic("refcrypto: retail mac input not padded")
	}
	k1, _ := des.NewCipher(key16[:8])
	k2, _ := des.NewCipher(key16[8:16])
	h := make([]byte, 8)
	for off := 0; off < len(padded); off += 8 {
		for i := 0; i < 8; i++ {
			h[i] ^= padded[off+i]
		}
		k1.Encrypt(h, h)
	}
	k2.Decrypt(h, h)
	k1.Encrypt(h, h)
	return h
}

// CMAC per NIST SP 800-38B over AES, full 16-byte tag.
func CMAC(key, msg []byte) []byte {
	c, err := aes.NewCipher(key)
	if err != nil {
		panic(err)
	}
	dbl := func(in []byte) []byte {
		out := make([]byte, 16)
		carry := byte(0)
		for i := 15; i >= 0; i-- {
			out[i] = in[i]<<1 | carry
			carry = in[i] >> 7
		}
		if carry != 0 {
			out[15] ^= 0x87
		}
		return out
	}
	l := make([]byte, 16)
	c.Encrypt(l, l)
	k1 := dbl(l)
	k2 := dbl(k1)
	n := (len(msg) + 15) / 16
	complete := n > 0 && len(msg)%16 == 0
	if n == 0 {
		n = 1
	}
	last := make([]byte, 16)
	if complete {
		copy(last, msg[(n-1)*16:])
		for i := range last {
			last[i] ^= k1[i]
		}
	} else {
		rem := msg[(n-1)*16:]
		copy(last, rem)
		last[len(rem)] = 0x80
		for i := range last {
			last[i] ^= k2[i]
		}
	}
	x := make([]byte, 16)
	for b := 0; b < n-1; b++ {
		for i := 0; i < 16; i++ {
			x[i] ^= msg[b*16+i]
		}
		c.Encrypt(x, x)
	}
	for i := 0; i < 16; i++ {
		x[i] ^= last[i]
	}
	c.Encrypt(x, x)
	return x
}

// MAC8 computes the 8-byte session MAC over unpadded data (padding applied as 9303-11 prescribes:
// method 2 padding for both 3DES retail MAC and AES-CMAC input).
func MAC8(alg Alg, key, data []byte) []byte {
	p := Pad(data, alg.Block())
	if alg == TDES {
		return RetailMAC(key, p)
	}
	return CMAC(key, p)[:8]
}

// ---------------------------------------------------------------------------------------------
// Chip-side secure messaging.

type SM struct {
	Alg   Alg
	KsEnc []byte
	KsMac []byte
	SSC   *big.Int // counter, width Alg.Block()
}

func NewSM(alg Alg, ksEnc, ksMac, ssc []byte) *SM {
	return &SM{Alg: alg, KsEnc: append([]byte{}, ksEnc...), KsMac: append([]byte{}, ksMac...), SSC: new(big.Int).SetBytes(ssc)}
}

func (s *SM) Clone() *SM {
	return &SM{Alg: s.Alg, KsEnc: append([]byte{}, s.KsEnc...), KsMac: append([]byte{}, s.KsMac...), SSC: new(big.Int).Set(s.SSC)}
}

func (s *SM) sscBytes() []byte {
	return s.SSC.FillBytes(make([]byte, s.Alg.Block()))
}

func (s *SM) SSCBytes() []byte { return s.sscBytes() }

func (s *SM) inc() {
	s.SSC.Add(s.SSC, big.NewInt(1))
	mod := new(big.Int).Lsh(big.NewInt(1), uint(8*s.Alg.Block()))
	s.SSC.Mod(s.SSC, mod)
}

func (s *SM) iv() []byte {
	if s.Alg == TDES {
		return make([]byte, 8)
	}
	return ECBEncryptBlock(s.Alg, s.KsEnc, s.sscBytes())
}

// PlainCmd is the command recovered from a protected APDU.
type PlainCmd struct {
	CLA, INS, P1, P2 byte
	Data             []byte
	HasLe            bool
	LeField          []byte // raw value of DO'97'
	Ne               int    // decoded expected length (0 = none)
	OuterExtended    bool
}

type do struct {
	tag byte
	val []byte
	raw []byte
}

func parseDOs(b []byte) ([]do, error) {
	var out []do
	for len(b) > 0 {
		if len(b) < 2 {
			return nil, errors.New("truncated DO")
		}
		tag := b[0]
		if tag&0x1f == 0x1f {
			return nil, errors.New("multi-byte tag in SM data")
		}
		var l, hl int
		switch {
		case b[1] < 0x80:
			l, hl = int(b[1]), 2
		case b[1] == 0x81 && len(b) >= 3:
			l, hl = int(b[2]), 3
		case b[1] == 0x82 && len(b) >= 4:
			l, hl = int(b[2])<<8|int(b[3]), 4
		case b[1] == 0x83 && len(b) >= 5:
			l, hl = int(b[2])<<16|int(b[3])<<8|int(b[4]), 5
		default:
			return nil, fmt.Errorf("bad DO length form %02x", b[1])
		}
		if len(b) < hl+l {
			return nil, errors.New("DO value truncated")
		}
		out = append(out, do{tag: tag, val: b[hl : hl+l], raw: b[:hl+l]})
		b = b[hl+l:]
	}
	return out, nil
}

// Unwrap strictly parses and authenticates a protected command APDU (9303-11 §9.8) and advances the
// counter. header = the 4 header bytes, body = command data field (the SM data objects), as parsed by an
// ISO 7816-4 parser from the wire; outerLe = Ne of the outer command (0 if absent).
// Strictness: CLA must be 0C; DOs in order [85|87] [97] 8E, nothing else; 87 for even INS, 85 for odd;
// padding-content indicator 01; MAC over SSC || padded header || DOs; valid padding after decryption.
func (s *SM) Unwrap(header [4]byte, body []byte, outerNe int, outerExtended bool) (*PlainCmd, error) {
	if header[0] != 0x0C {
		return nil, fmt.Errorf("CLA %02x is not 0C", header[0])
	}
	dos, err := parseDOs(body)
	if err != nil {
		return nil, err
	}
	idx := 0
	var doData, doLe, doMac *do
	if idx < len(dos) && (dos[idx].tag == 0x87 || dos[idx].tag == 0x85) {
		doData = &dos[idx]
		idx++
	}
	if idx < len(dos) && dos[idx].tag == 0x97 {
		doLe = &dos[idx]
		idx++
	}
	if idx < len(dos) && dos[idx].tag == 0x8E {
		doMac = &dos[idx]
		idx++
	}
	if doMac == nil || idx != len(dos) {
		return nil, errors.New("data objects are not [85|87] [97] 8E")
	}
	if len(doMac.val) != 8 {
		return nil, errors.New("MAC is not 8 bytes")
	}
	if outerNe == 0 {
		return nil, errors.New("protected command has no outer Le")
	}
	s.inc()
	macIn := append([]byte{}, s.sscBytes()...)
	macIn = append(macIn, Pad(header[:], s.Alg.Block())...)
	if doData != nil {
		macIn = append(macIn, doData.raw...)
	}
	if doLe != nil {
		macIn = append(macIn, doLe.raw...)
	}
	if !bytes.Equal(MAC8(s.Alg, s.KsMac, macIn), doMac.val) {
		return nil, errors.New("command MAC does not verify under the chip's counter")
	}
	pc := &PlainCmd{CLA: 0x00, INS: header[1], P1: header[2], P2: header[3], OuterExtended: outerExtended}
	if doData != nil {
		wantTag := byte(0x87)
		if header[1]&1 == 1 {
			wantTag = 0x85
		}
		if doData.tag != wantTag {
			return nil, fmt.Errorf("data object tag %02x does not match INS parity", doData.tag)
		}
		if len(doData.val) < 1 || doData.val[0] != 0x01 {
			return nil, errors.New("padding-content indicator is not 01")
		}
		ct := doData.val[1:]
		if len(ct) == 0 || len(ct)%s.Alg.Block() != 0 {
			return nil, errors.New("cryptogram is not a positive multiple of the block size")
		}
		pt, err := Unpad(CBCDecrypt(s.Alg, s.KsEnc, s.iv(), ct))
		if err != nil {
			return nil, errors.New("cryptogram padding invalid")
		}
		if len(pt) == 0 {
			return nil, errors.New("data object encrypts an empty data field")
		}
		pc.Data = pt
	}
	if doLe != nil {
		pc.HasLe = true
		pc.LeField = doLe.val
		switch len(doLe.val) {
		case 1:
			pc.Ne = int(doLe.val[0])
			if pc.Ne == 0 {
				pc.Ne = 256
			}
		case 2:
			pc.Ne = int(doLe.val[0])<<8 | int(doLe.val[1])
			if pc.Ne == 0 {
				pc.Ne = 65536
			}
		default:
			return nil, errors.New("DO97 is not 1 or 2 bytes")
		}
	}
	return pc, nil
}

func encLen(n int) []byte {
	switch {
	case n < 0x80:
		return []byte{byte(n)}
	case n < 0x100:
		return []byte{0x81, byte(n)}
	case n < 0x10000:
		return []byte{0x82, byte(n >> 8), byte(n)}
	default:
		return []byte{0x83, byte(n >> 16), byte(n >> 8), byte(n)}
	}
}

// Wrap builds the protected response for (data, sw) and advances the counter. oddINS selects DO'85'.
func (s *SM) Wrap(data []byte, sw uint16, oddINS bool) []byte {
	s.inc()
	var dos []byte
	if len(data) > 0 {
		ct := CBCEncrypt(s.Alg, s.KsEnc, s.iv(), Pad(data, s.Alg.Block()))
		tag := byte(0x87)
		if oddINS {
			tag = 0x85
		}
		v := append([]byte{0x01}, ct...)
		dos = append(dos, tag)
		dos = append(dos, encLen(len(v))...)
		dos = append(dos, v...)
	}
	dos = append(dos, 0x99, 0x02, byte(sw>>8), byte(sw))
	mac := MAC8(s.Alg, s.KsMac, append(append([]byte{}, s.sscBytes()...), dos...))
	out := append(dos, 0x8E, 0x08)
	out = append(out, mac...)
	return append(out, byte(sw>>8), byte(sw))
}
