// Package perso personalises the independent reference chip (refchip) with a coherent, genuinely issued
// document: data groups (reflds generators), DG14/DG15/CardAccess/CardSecurity built from the chip's key
// material, EF.SOD and EF.CardSecurity issued by a reference CSCA/DS (refpki). It imports no gmrtd package.
package perso

import (
	"crypto/rsa"
	"fmt"
	"sort"

	"verif/internal/refchip"
	"verif/internal/reflds"
	"verif/internal/refmrz"
	"verif/internal/refpki"
)

type CASpec struct {
	Curve    string
	Explicit bool // SubjectPublicKeyInfo with explicit domain parameters
	Cipher   int  // 1 3DES, 2 AES-128, 3 AES-192, 4 AES-256
	KeyID    *int // key identifier in ChipAuthenticationPublicKeyInfo (and Info)
	NoInfo   bool // no ChipAuthenticationInfo for this key (terminal infers 3DES / MSE:Set KAT)
	NoInfoID bool // ChipAuthenticationInfo without keyId although the key has one
	Clone    bool // chip does not hold the private key
	// AlsoCiphers: further ChipAuthenticationInfo entries for the SAME key, listed after the first in this order
	AlsoCiphers []int
}

type AASpec struct {
	RSABits  int // 0 = EC
	RSAIndex int
	RSAKey   *rsa.PrivateKey // explicit key (odd sizes)
	Trailer  string          // RSA trailer: BC 38CC 34CC 36CC 35CC
	Curve    string          // EC
	Explicit bool
	DER      bool // EC signature in DER
	// SubstituteKey: DG15 carries the genuine (issuer-signed) key but the chip signs with another key (clone without the key).
	Clone bool
}

type Config struct {
	Layout      refmrz.Layout
	DocNumber   string
	CAN         string
	BAC         bool
	PACE        []refchip.PACEProto
	PACEByCAN   bool // chip also accepts the CAN
	CA          []CASpec
	AA          *AASpec
	DGs         []int          // data groups present besides those implied (1 always; 14 if CA/CAM; 15 if AA)
	DGOverride  map[int][]byte // explicit contents
	Profile     *refpki.Profile
	SODOpts     refpki.SODOpts
	Untrusted   bool // trust store does not contain the issuer
	NoCardAccess bool
	CardAccessExtra []reflds.SecInfo // additional entries in CardAccess only
	OmitFromChip []int               // data groups listed in SOD but not stored on the chip
	DIR         bool
	CAMClone    bool // PACE-CAM: the chip computes the chip-authentication data with a key other than the one certified in CardSecurity
}

type Perso struct {
	Chip       *refchip.Chip
	Files      map[int][]byte // LDS files by DG number (0x1D SOD, 0x1E COM)
	CardAccess []byte
	CardSecurity []byte
	Store      [][]byte // DER CSCA certificates for the trust store
	Zone       string
	MRZInfo    string
	CAN        string
	Issuer     *refpki.Issuer
	DGList     []int // data groups listed in the SOD
	AAPub      *refpki.Key
}

func caOID(cipher int) string { return fmt.Sprintf("0.4.0.127.0.7.2.2.3.2.%d", cipher) }

func paceOID(mapping, cipher int) string { return fmt.Sprintf("0.4.0.127.0.7.2.2.4.%d.%d", mapping, cipher) }

func seed(name string) []byte {
	for _, s := range reflds.Seeds() {
		if s.Name == name {
			return s.Bytes
		}
	}
	panic("perso: no seed " + name)
}

func ecSPKIParts(c *refpki.Curve, explicit bool) (algOID string, params []byte) {
	if explicit {
		return "1.2.840.10045.2.1", refpki.DER(c.ExplicitParams())
	}
	return "1.2.840.10045.2.1", refpki.DER(refpki.OID(c.OID))
}

// Build personalises a chip.
func Build(cfg Config) *Perso {
	p := &Perso{Files: map[int][]byte{}, CAN: cfg.CAN}
	if p.CAN == "" {
		p.CAN = "502917"
	}
	prof := refpki.DefaultProfile()
	if cfg.Profile != nil {
		prof = *cfg.Profile
	}
	is := refpki.NewIssuer(prof)
	p.Issuer = is
	layout := cfg.Layout
	if layout == 0 {
		layout = refmrz.TD3
	}
	dn := cfg.DocNumber
	if dn == "" {
		dn = "XR7654321"
	}
	code := "P"
	if layout != refmrz.TD3 {
		code = "I"
	}
	zone, exp, err := refmrz.Build(refmrz.Doc{Layout: layout, DocCode: code, Issuer: prof.State, Primary: "DE<BRUIJN", Secondary: "WILLEKE<LISELOTTE",
		DocNumber: dn, Nationality: prof.State, DOB: "650310", Sex: "F", DOE: "240309"})
	if err != nil {
		panic(err)
	}
	p.Zone, p.MRZInfo = zone, exp.MRZInfo

	chip := refchip.NewChip()
	p.Chip = chip
	if cfg.BAC {
		chip.BAC = refchip.BACKeysFromMRZInfo(p.MRZInfo)
	}
	// ---- security infos
	var dg14Infos, caInfos, accessInfos []reflds.SecInfo
	for _, pr := range cfg.PACE {
		accessInfos = append(accessInfos, reflds.SecInfo{Kind: "pace", OID: paceOID(pr.Mapping, pr.Cipher), Version: 2, HasID: true, ID: pr.ParamID})
	}
	if len(cfg.PACE) > 0 {
		chip.PACE = &refchip.PACEConf{Protos: cfg.PACE, Passwords: map[int][]byte{1: refchip.PasswordFromMRZInfo(p.MRZInfo)}}
		if cfg.PACEByCAN {
			chip.PACE.Passwords[2] = []byte(p.CAN)
		}
	}
	var cardSecInfos []reflds.SecInfo
	for _, pr := range cfg.PACE {
		if pr.Mapping == 6 && chip.PACE.CAMKey == nil {
			curve := refpki.CurveByName(refchip.StdCurve(pr.ParamID))
			chip.PACE.CAMKey = refpki.DeriveECKey(curve, "cam-static")
			cardSecInfos = append(append([]reflds.SecInfo{}, accessInfos...), reflds.SecInfo{Kind: "ca-pk", OID: "0.4.0.127.0.7.2.2.1.2", AlgOID: "0.4.0.127.0.7.1.2",
				AlgParams: refpki.DER(refpki.Int64(int64(pr.ParamID))), PubKey: chip.PACE.CAMKey.Point()})
		}
	}
	for i, ca := range cfg.CA {
		curve := refpki.CurveByName(ca.Curve)
		key := refpki.DeriveECKey(curve, fmt.Sprintf("ca-%d", i))
		chip.CA = append(chip.CA, &refchip.CAKey{KeyID: ca.KeyID, Key: key, Cipher: ca.Cipher, NoPrivateKey: ca.Clone, AlsoCiphers: ca.AlsoCiphers})
		algOID, params := ecSPKIParts(curve, ca.Explicit)
		pk := reflds.SecInfo{Kind: "ca-pk", OID: "0.4.0.127.0.7.2.2.1.2", AlgOID: algOID, AlgParams: params, PubKey: key.Point()}
		if ca.KeyID != nil {
			pk.HasID, pk.ID = true, *ca.KeyID
		}
		caInfos = append(caInfos, pk)
		if !ca.NoInfo {
			info := reflds.SecInfo{Kind: "ca", OID: caOID(ca.Cipher), Version: 1}
			if ca.KeyID != nil && !ca.NoInfoID {
				info.HasID, info.ID = true, *ca.KeyID
			}
			caInfos = append(caInfos, info)
			for _, also := range ca.AlsoCiphers {
				more := info
				more.OID = caOID(also)
				caInfos = append(caInfos, more)
			}
		}
	}
	dgSet := map[int]bool{1: true}
	for _, d := range cfg.DGs {
		dgSet[d] = true
	}
	if len(cfg.CA) > 0 || (chip.PACE != nil && chip.PACE.CAMKey != nil) {
		dgSet[14] = true
	}
	// ---- AA
	if cfg.AA != nil {
		dgSet[15] = true
		a := cfg.AA
		aa := &refchip.AAKey{Trailer: a.Trailer, ECDER: a.DER}
		var spki []byte
		if a.Curve == "" {
			key := a.RSAKey
			if key == nil {
				bits := a.RSABits
				if bits == 0 {
					bits = 2048
				}
				key = refpki.LoadKey(refpki.RSA(bits, false, refpki.RSAKeysPerSize[bits]-1)).RSA
			}
			aa.RSA = key
			if aa.Trailer == "" {
				aa.Trailer = "BC"
			}
			spki = refpki.DER(refpki.Seq(refpki.Seq(refpki.OID([]int{1, 2, 840, 113549, 1, 1, 1}), refpki.Null()),
				refpki.BitString(refpki.DER(refpki.Seq(refpki.Int(key.N), refpki.Int64(int64(key.E)))))))
			if a.Clone {
				aa.RSA = refpki.LoadKey(refpki.RSA(key.N.BitLen(), false, refpki.RSAKeysPerSize[key.N.BitLen()]-2)).RSA
			}
		} else {
			curve := refpki.CurveByName(a.Curve)
			key := refpki.DeriveECKey(curve, "aa")
			aa.EC = key
			aa.ECHash = ECAAHash(curve)
			algOID, params := ecSPKIParts(curve, a.Explicit)
			_ = algOID
			spki = refpki.DER(refpki.Seq(refpki.Seq(refpki.OID([]int{1, 2, 840, 10045, 2, 1}), rawNode(params)), refpki.BitString(key.Point())))
			// ActiveAuthenticationInfo (mandatory in DG14 for ECDSA AA): ecdsa-plain with the hash in use
			dg14Infos = append(dg14Infos, reflds.SecInfo{Kind: "aa", OID: "2.23.136.1.1.5", Version: 1, SigAlgOID: ecdsaPlainOID(aa.ECHash)})
			dgSet[14] = true
			if a.Clone {
				aa.EC = refpki.DeriveECKey(curve, "aa-clone")
			}
		}
		chip.AA = aa
		p.Files[15] = append([]byte{0x6F}, append(derLen(len(spki)), spki...)...)
	}
	// ---- files
	p.Files[1] = refpki.BuildDG1(zone)
	defaults := map[int]string{2: "doc/DG2", 7: "doc/DG7", 11: "doc/DG11", 12: "doc/DG12", 13: "doc/DG13", 16: "doc/DG16"}
	for d := range dgSet {
		if name, ok := defaults[d]; ok {
			p.Files[d] = seed(name)
		}
	}
	if dgSet[14] {
		infos := append(append(append([]reflds.SecInfo{}, accessInfos...), caInfos...), dg14Infos...)
		if chip.PACE != nil && chip.PACE.CAMKey != nil {
			// 9303-11: the CAM public key is published in CardSecurity; DG14 repeats the security infos of CardAccess
		}
		p.Files[14] = reflds.BuildDG14(infos).Bytes
	}
	for d, b := range cfg.DGOverride {
		p.Files[d] = b
		dgSet[d] = true
	}
	var list []int
	for d := range dgSet {
		list = append(list, d)
	}
	sort.Ints(list)
	p.DGList = list
	dgFiles := map[int][]byte{}
	for _, d := range list {
		dgFiles[d] = p.Files[d]
	}
	sod, _ := is.IssueSOD(dgFiles, cfg.SODOpts)
	p.Files[0x1D] = sod
	p.Files[0x1E] = refpki.BuildCOM(list)
	if !cfg.NoCardAccess && len(accessInfos)+len(cfg.CardAccessExtra) > 0 {
		p.CardAccess = reflds.BuildCardAccess(append(append([]reflds.SecInfo{}, accessInfos...), cfg.CardAccessExtra...)).Bytes
	}
	if cardSecInfos != nil {
		set, _ := reflds.EncSecInfos(cardSecInfos)
		cs, _ := is.IssueCardSecurity(set)
		p.CardSecurity = cs
	}
	if cfg.CAMClone && chip.PACE != nil && chip.PACE.CAMKey != nil {
		chip.PACE.CAMKey = refpki.DeriveECKey(chip.PACE.CAMKey.Curve, "cam-clone")
	}
	// ---- load the chip
	omit := map[int]bool{}
	for _, d := range cfg.OmitFromChip {
		omit[d] = true
	}
	acc := refchip.AccSM
	if !cfg.BAC && len(cfg.PACE) == 0 {
		acc = refchip.AccFree
	}
	for d, b := range p.Files {
		if omit[d] {
			continue
		}
		fid, sfi := refchip.LDSFID(d)
		chip.AddLDS(fid, sfi, b, acc)
	}
	if p.CardAccess != nil {
		chip.AddMF(0x011C, 0x1C, p.CardAccess, refchip.AccFree)
	}
	if p.CardSecurity != nil {
		chip.AddMF(0x011D, 0x1D, p.CardSecurity, refchip.AccPACESM)
	}
	if cfg.DIR {
		chip.AddMF(0x2F00, 0x1E, seed("doc/DIR"), refchip.AccFree)
	}
	if !cfg.Untrusted {
		p.Store = is.TrustStoreDER()
	} else {
		other := prof
		other.Country, other.State = "SE", "SWE"
		p.Store = refpki.NewIssuer(other).TrustStoreDER()
	}
	return p
}

// ECAAHash is the hash 9303-11 §6.1.2.3 prescribes for ECDSA active authentication: the largest of
// SHA-224/256/384/512 whose output is not longer than the key.
func ECAAHash(c *refpki.Curve) refpki.Hash {
	n := c.N.BitLen()
	switch {
	case n >= 512:
		return refpki.SHA512
	case n >= 384:
		return refpki.SHA384
	case n >= 256:
		return refpki.SHA256
	default:
		return refpki.SHA224
	}
}

func ecdsaPlainOID(h refpki.Hash) string {
	// bsi-de ecdsa-plain-signatures 0.4.0.127.0.7.1.1.4.1.{1 SHA1,2 SHA224,3 SHA256,4 SHA384,5 SHA512}
	return fmt.Sprintf("0.4.0.127.0.7.1.1.4.1.%d", map[refpki.Hash]int{refpki.SHA1: 1, refpki.SHA224: 2, refpki.SHA256: 3, refpki.SHA384: 4, refpki.SHA512: 5}[h])
}

func derLen(n int) []byte {
	switch {
	case n < 0x80:
		return []byte{byte(n)}
	case n < 0x100:
		return []byte{0x81, byte(n)}
	default:
		return []byte{0x82, byte(n >> 8), byte(n)}
	}
}

// rawNode wraps an already encoded TLV as a node.
func rawNode(der []byte) *refpki.Node {
	n, err := refpki.ParseTree(der)
	if err != nil {
		panic(err)
	}
	return n
}
