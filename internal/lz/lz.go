// Package lz finds, by deterministic search with the independent EC arithmetic of refpki, session randomness for which
// an ECDH shared x-coordinate has a leading zero octet (the 1/256 slice - every second session on P-521 - in which a
// minimal-length encoding of the secret differs from the fixed-width one).
package lz

import (
	"math/big"

	"verif/internal/refpki"
)

func pattern(curve *refpki.Curve, salt byte) *big.Int {
	b := make([]byte, (curve.N.BitLen()+7)/8)
	for i := range b {
		b[i] = byte(0x3B + 0x29*i + 0x11*int(salt))
	}
	v := new(big.Int).SetBytes(b)
	v.Mod(v, new(big.Int).Sub(curve.N, big.NewInt(3)))
	return v.Add(v, big.NewInt(2))
}

// TermBytes turns a scalar into the bytes crypto/elliptic.GenerateKey must read from rand.Reader to produce it.
func TermBytes(curve *refpki.Curve, k *big.Int) []byte {
	b := k.FillBytes(make([]byte, (curve.N.BitLen()+7)/8))
	b[1] ^= 0x42
	return b
}

func fixed(curve *refpki.Curve, k *big.Int) []byte {
	return k.FillBytes(make([]byte, (curve.N.BitLen()+7)/8))
}

// PACE returns the chip-side queue (nonce, chip mapping scalar, chip key-agreement scalar) and the terminal-side queue
// (mapping scalar, key-agreement scalar; already in GenerateKey form) of a PACE-GM/CAM run whose agreed secret
// x(t*c*(s+a*b)*G) starts with a zero octet. ok=false if none is found below the search bound.
func PACE(curve *refpki.Curve, nonceLen int) (chipQ, termQ [][]byte, ok bool) {
	nonce := make([]byte, nonceLen)
	for i := range nonce {
		nonce[i] = byte(0xA7 + 0x35*i)
	}
	a, c, b := pattern(curve, 2), pattern(curve, 3), pattern(curve, 0)
	n := curve.N
	s := new(big.Int).SetBytes(nonce)
	s.Mod(s, n)
	g := new(big.Int).Mul(a, b)
	g.Add(g, s).Mod(g, n)
	cg := new(big.Int).Mul(c, g)
	cg.Mod(cg, n)
	for t := int64(7); t < 6000; t++ {
		k := new(big.Int).Mul(cg, big.NewInt(t))
		k.Mod(k, n)
		x, _ := curve.ScalarMult(curve.Gx, curve.Gy, k)
		if x != nil && x.FillBytes(make([]byte, curve.ByteLen()))[0] == 0 {
			return [][]byte{nonce, fixed(curve, a), fixed(curve, c)}, [][]byte{TermBytes(curve, b), TermBytes(curve, big.NewInt(t))}, true
		}
	}
	return nil, nil, false
}

// CA returns the terminal ephemeral scalar (GenerateKey form) for which x(t * chipPublicKey) starts with a zero octet.
func CA(key *refpki.ECPrivateKey) ([]byte, bool) {
	curve := key.Curve
	for t := int64(3); t < 6000; t++ {
		x, _ := curve.ScalarMult(key.X, key.Y, big.NewInt(t))
		if x != nil && x.FillBytes(make([]byte, curve.ByteLen()))[0] == 0 {
			return TermBytes(curve, big.NewInt(t)), true
		}
	}
	return nil, false
}
