// Package refmrz is an independent reference for the machine readable zone of ICAO Doc 9303:
// check digits (part 3 §4.9), the TD1 / TD2 / TD3 field positions (parts 5, 6, 4), the long
// document number rule of TD1 / TD2, the composite check digit ranges, and the "MRZ information"
// string from which the BAC / PACE key seed is derived (part 11 §4.3.2 / §9.7.3 and Appendix D).
//
// It is deliberately boring: positions are written down as they are printed in Doc 9303 (line
// number, first and last character position, 1-based inclusive) and converted in one place.
// It must not import any gmrtd package.
package refmrz

import (
	"crypto/sha1"
	"fmt"
	"strings"
)

type Layout int

const (
	TD1 Layout = 1 // 3 lines x 30
	TD2 Layout = 2 // 2 lines x 36
	TD3 Layout = 3 // 2 lines x 44
)

func (l Layout) String() string {
	switch l {
	case TD1:
		return "td1"
	case TD2:
		return "td2"
	case TD3:
		return "td3"
	}
	return "td?"
}

// Alphabet is the MRZ character set of Doc 9303-3 §4.3.
const Alphabet = "0123456789ABCDEFGHIJKLMNOPQRSTUVWXYZ<"

const Filler = '<'

func InAlphabet(s string) bool {
	for i := 0; i < len(s); i++ {
		if _, ok := charValue(s[i]); !ok {
			return false
		}
	}
	return true
}

// charValue: 0-9 -> 0-9, A-Z -> 10-35, '<' -> 0 (Doc 9303-3 §4.9 step 1/figure).
func charValue(c byte) (int, bool) {
	switch {
	case c >= '0' && c <= '9':
		return int(c - '0'), true
	case c >= 'A' && c <= 'Z':
		return int(c-'A') + 10, true
	case c == '<':
		return 0, true
	}
	return 0, false
}

// CheckDigit computes the modulus 10 check digit with the repeating weighting 7,3,1.
// ok is false when s holds a character outside the MRZ alphabet.
func CheckDigit(s string) (cd byte, ok bool) {
	w := [3]int{7, 3, 1}
	sum := 0
	for i := 0; i < len(s); i++ {
		v, good := charValue(s[i])
		if !good {
			return 0, false
		}
		sum += v * w[i%3]
	}
	return byte('0' + sum%10), true
}

// span is a range of character positions as printed in Doc 9303: line (1-based), first and last
// position (1-based, inclusive).
type span struct{ line, from, to int }

type layoutDef struct {
	lines, lineLen              int
	docCode, issuer, name       span
	docNum, docCD, nat          span
	dob, dobCD, sex, doe, doeCD span
	opt                         span // TD1: optional data of line 1; TD2: optional; TD3: personal number / optional
	opt2                        span // TD1 only (line 2)
	optCD                       span // TD3 only
	comp                        span
	composite                   []span
	longDocNumber               bool // TD1 / TD2: document numbers > 9 characters continue in opt
}

var defs = map[Layout]*layoutDef{
	// Doc 9303-5 §4.2.2 (TD1): upper line 1-2 code, 3-5 state, 6-14 number, 15 cd, 16-30 optional;
	// middle line 1-6 birth, 7 cd, 8 sex, 9-14 expiry, 15 cd, 16-18 nationality, 19-29 optional, 30 composite;
	// lower line 1-30 name. Composite: upper 6-30, middle 1-7, 9-15, 19-29.
	TD1: {lines: 3, lineLen: 30,
		docCode: span{1, 1, 2}, issuer: span{1, 3, 5}, docNum: span{1, 6, 14}, docCD: span{1, 15, 15}, opt: span{1, 16, 30},
		dob: span{2, 1, 6}, dobCD: span{2, 7, 7}, sex: span{2, 8, 8}, doe: span{2, 9, 14}, doeCD: span{2, 15, 15},
		nat: span{2, 16, 18}, opt2: span{2, 19, 29}, comp: span{2, 30, 30},
		name:          span{3, 1, 30},
		composite:     []span{{1, 6, 30}, {2, 1, 7}, {2, 9, 15}, {2, 19, 29}},
		longDocNumber: true},
	// Doc 9303-6 §4.2.2 (TD2): upper line 1-2 code, 3-5 state, 6-36 name; lower line 1-9 number, 10 cd,
	// 11-13 nationality, 14-19 birth, 20 cd, 21 sex, 22-27 expiry, 28 cd, 29-35 optional, 36 composite.
	// Composite: lower 1-10, 14-20, 22-35.
	TD2: {lines: 2, lineLen: 36,
		docCode: span{1, 1, 2}, issuer: span{1, 3, 5}, name: span{1, 6, 36},
		docNum: span{2, 1, 9}, docCD: span{2, 10, 10}, nat: span{2, 11, 13},
		dob: span{2, 14, 19}, dobCD: span{2, 20, 20}, sex: span{2, 21, 21}, doe: span{2, 22, 27}, doeCD: span{2, 28, 28},
		opt: span{2, 29, 35}, comp: span{2, 36, 36},
		composite:     []span{{2, 1, 10}, {2, 14, 20}, {2, 22, 35}},
		longDocNumber: true},
	// Doc 9303-4 §4.2.2 (TD3): upper line 1-2 code, 3-5 state, 6-44 name; lower line 1-9 number, 10 cd,
	// 11-13 nationality, 14-19 birth, 20 cd, 21 sex, 22-27 expiry, 28 cd, 29-42 personal number, 43 cd, 44 composite.
	// Composite: lower 1-10, 14-20, 22-43.
	TD3: {lines: 2, lineLen: 44,
		docCode: span{1, 1, 2}, issuer: span{1, 3, 5}, name: span{1, 6, 44},
		docNum: span{2, 1, 9}, docCD: span{2, 10, 10}, nat: span{2, 11, 13},
		dob: span{2, 14, 19}, dobCD: span{2, 20, 20}, sex: span{2, 21, 21}, doe: span{2, 22, 27}, doeCD: span{2, 28, 28},
		opt: span{2, 29, 42}, optCD: span{2, 43, 43}, comp: span{2, 44, 44},
		composite: []span{{2, 1, 10}, {2, 14, 20}, {2, 22, 43}}},
}

func (d *layoutDef) total() int { return d.lines * d.lineLen }

// idx converts a printed span to a half-open index range over the concatenated lines.
func (d *layoutDef) idx(s span) (int, int) {
	base := (s.line - 1) * d.lineLen
	return base + s.from - 1, base + s.to
}

func (d *layoutDef) cut(raw string, s span) string {
	if s.line == 0 {
		return ""
	}
	a, b := d.idx(s)
	return raw[a:b]
}

// LayoutOf returns the layout for a total length (90, 72, 88).
func LayoutOf(n int) (Layout, bool) {
	for _, l := range []Layout{TD1, TD2, TD3} {
		if defs[l].total() == n {
			return l, true
		}
	}
	return 0, false
}

// Len is the total number of characters of a layout.
func Len(l Layout) int { return defs[l].total() }

// NameLen is the length of the name field.
func NameLen(l Layout) int { a, b := defs[l].idx(defs[l].name); return b - a }

// OptLen is the length of the (first) optional data field.
func OptLen(l Layout) int { a, b := defs[l].idx(defs[l].opt); return b - a }

// Opt2Len is the length of the second optional data field (TD1 only, else 0).
func Opt2Len(l Layout) int {
	if defs[l].opt2.line == 0 {
		return 0
	}
	a, b := defs[l].idx(defs[l].opt2)
	return b - a
}

// MaxDocNumber is the longest document number the layout can carry (TD3: 9; TD1/TD2: 9 + optional
// field minus check digit and the filler that follows it).
func MaxDocNumber(l Layout) int {
	if !defs[l].longDocNumber {
		return 9
	}
	return 9 + OptLen(l) - 2
}

// CheckedRegion returns the index range [from,to) that holds every check-digit protected character
// and every check digit (TD1: line 1 from the document number to the end of line 2; TD2/TD3: line 2).
func CheckedRegion(l Layout) (int, int) {
	d := defs[l]
	a, _ := d.idx(d.docNum)
	_, b := d.idx(d.comp)
	if l == TD1 {
		return a, b
	}
	return d.lineLen, b
}

// Parsed is the ICAO reading of a string of a supported length: raw character ranges (fillers kept).
type Parsed struct {
	Layout Layout
	Raw    string

	DocCode, Issuer, Name, Nationality, Sex string
	DOB, DOE                                string
	DOBCD, DOECD, CompCD                    byte
	DOBCDPos, DOECDPos, CompCDPos           int

	// DocNum is the complete document number as it takes part in check digit and key seed: the 9
	// characters of the number field and, in the long form, the continuation taken from the optional field.
	DocNum    string
	DocCD     byte // the character that acts as check digit of DocNum; '<' when there is none
	DocCDPos  int  // index of DocCD in Raw
	Principal string
	// Long: the check digit position of the number field holds '<' and a continuation was found.
	Long bool
	// LongDegenerate: long form with zero continuation characters (optional field = cd, filler, ...).
	LongDegenerate bool
	// LongUnterminated: check digit position holds '<' and the optional field holds no filler at all, so
	// the mandatory filler after the check digit is missing. The reading (last character = check digit)
	// is a guess; oracles must not rely on it.
	LongUnterminated bool

	OptWhole string // the complete optional field (TD1 line 1 / TD2 / TD3)
	Opt      string // optional data proper (after continuation, check digit and filler in the long form)
	Opt2     string // TD1 line 2 optional data
	OptCD    byte   // TD3 only
	OptCDPos int    // TD3 only, else -1

	CompData string
}

// Parse slices s according to its length. ok is false for unsupported lengths.
func Parse(s string) (*Parsed, bool) {
	l, ok := LayoutOf(len(s))
	if !ok {
		return nil, false
	}
	d := defs[l]
	p := &Parsed{Layout: l, Raw: s, OptCDPos: -1}
	p.DocCode = d.cut(s, d.docCode)
	p.Issuer = d.cut(s, d.issuer)
	p.Name = d.cut(s, d.name)
	p.Nationality = d.cut(s, d.nat)
	p.Sex = d.cut(s, d.sex)
	p.DOB = d.cut(s, d.dob)
	p.DOE = d.cut(s, d.doe)
	p.DOBCDPos, _ = d.idx(d.dobCD)
	p.DOECDPos, _ = d.idx(d.doeCD)
	p.CompCDPos, _ = d.idx(d.comp)
	p.DOBCD, p.DOECD, p.CompCD = s[p.DOBCDPos], s[p.DOECDPos], s[p.CompCDPos]
	p.Principal = d.cut(s, d.docNum)
	p.DocNum = p.Principal
	p.DocCDPos, _ = d.idx(d.docCD)
	p.DocCD = s[p.DocCDPos]
	p.OptWhole = d.cut(s, d.opt)
	p.Opt = p.OptWhole
	p.Opt2 = d.cut(s, d.opt2)
	if d.optCD.line != 0 {
		p.OptCDPos, _ = d.idx(d.optCD)
		p.OptCD = s[p.OptCDPos]
	}
	for _, sp := range d.composite {
		p.CompData += d.cut(s, sp)
	}
	// Long document number (Doc 9303-5 / -6, note to the document number field): the number field
	// holds the 9 principal characters, its check digit position holds '<', the optional data field
	// starts with the remaining characters, then the check digit, then a filler.
	if d.longDocNumber && p.DocCD == Filler {
		optStart, _ := d.idx(d.opt)
		k := strings.IndexByte(p.OptWhole, Filler)
		switch {
		case k >= 1:
			p.Long = true
			p.LongDegenerate = k == 1
			p.DocNum = p.Principal + p.OptWhole[:k-1]
			p.DocCD = p.OptWhole[k-1]
			p.DocCDPos = optStart + k - 1
			p.Opt = p.OptWhole[k+1:]
		case k == 0:
			// optional field starts with a filler: there is no continuation and no check digit
		default:
			n := len(p.OptWhole)
			p.Long = true
			p.LongUnterminated = true
			p.DocNum = p.Principal + p.OptWhole[:n-1]
			p.DocCD = p.OptWhole[n-1]
			p.DocCDPos = optStart + n - 1
			p.Opt = ""
		}
	}
	return p, true
}

func isEmpty(field string) bool { return strings.Trim(field, "<") == "" }

// Disagreement names one check that fails.
type Disagreement struct {
	Field string // docnum | docnum-long | dob | doe | optional | composite
	Data  string
	Have  byte
	Want  byte
}

func (d Disagreement) String() string {
	return fmt.Sprintf("%s: data %q carries check digit %q, Doc 9303 computes %q", d.Field, d.Data, string(d.Have), string(d.Want))
}

func disagree(field, data string, have byte, out *[]Disagreement) {
	if isEmpty(data) {
		return // empty field: nothing demanded (check digit may be '<' or '0')
	}
	want, ok := CheckDigit(data)
	if !ok {
		return // character outside the alphabet: Doc 9303 defines no check digit; nothing demanded
	}
	if have != want {
		*out = append(*out, Disagreement{field, data, have, want})
	}
}

// Disagreements lists every NON-EMPTY checked field, and the composite, whose check digit is not the
// one Doc 9303 computes. Empty fields, fields with characters outside the alphabet, a composite over
// nothing but fillers, and the unterminated long form are not judged (lenient).
func (p *Parsed) Disagreements() []Disagreement {
	var out []Disagreement
	if !p.LongUnterminated {
		f := "docnum"
		if p.Long {
			f = "docnum-long"
		}
		disagree(f, p.DocNum, p.DocCD, &out)
	}
	disagree("dob", p.DOB, p.DOBCD, &out)
	disagree("doe", p.DOE, p.DOECD, &out)
	if p.OptCDPos >= 0 {
		disagree("optional", p.OptWhole, p.OptCD, &out)
	}
	disagree("composite", p.CompData, p.CompCD, &out)
	return out
}

// KeyFieldDisagreements is Disagreements restricted to the three key fields.
func (p *Parsed) KeyFieldDisagreements() []Disagreement {
	var out []Disagreement
	for _, d := range p.Disagreements() {
		if d.Field != "optional" && d.Field != "composite" {
			out = append(out, d)
		}
	}
	return out
}

// KeyFieldsNonEmpty reports whether document number, date of birth and date of expiry all hold data.
func (p *Parsed) KeyFieldsNonEmpty() bool {
	return !isEmpty(p.DocNum) && !isEmpty(p.DOB) && !isEmpty(p.DOE)
}

// MRZInfo is the "MRZ information" of Doc 9303-11: document number, its check digit, date of birth,
// its check digit, date of expiry, its check digit, as printed (fillers kept). For the long form the
// complete document number and the check digit that follows it are used (Doc 9303-11 Appendix D.2).
func (p *Parsed) MRZInfo() string {
	return p.DocNum + string(p.DocCD) + p.DOB + string(p.DOBCD) + p.DOE + string(p.DOECD)
}

// KeySeedHash is SHA-1 of the MRZ information (K_seed is its first 16 bytes, PACE uses all 20).
func KeySeedHash(info string) [20]byte { return sha1.Sum([]byte(info)) }

// Expect holds decoded field values: the character ranges with trailing fillers removed. Interior
// fillers are kept as '<'. The name is split at the first "<<" into primary and secondary identifier.
type Expect struct {
	DocCode, Issuer, Primary, Secondary, DocNumber, Nationality string
	DOB, Sex, DOE, Optional, Optional2                          string
	// OptionalWhole: the whole optional field with trailing fillers removed (differs from Optional in the long form)
	OptionalWhole string
	Long          bool
	MRZInfo       string
}

func trimF(s string) string { return strings.TrimRight(s, "<") }

// Fields returns the decoded values of p.
func (p *Parsed) Fields() Expect {
	e := Expect{DocCode: trimF(p.DocCode), Issuer: trimF(p.Issuer), DocNumber: trimF(p.DocNum),
		Nationality: trimF(p.Nationality), DOB: trimF(p.DOB), Sex: trimF(p.Sex), DOE: trimF(p.DOE),
		Optional: trimF(p.Opt), Optional2: trimF(p.Opt2), OptionalWhole: trimF(p.OptWhole), Long: p.Long, MRZInfo: p.MRZInfo()}
	n := trimF(p.Name)
	if i := strings.Index(n, "<<"); i >= 0 {
		e.Primary, e.Secondary = n[:i], n[i+2:]
	} else {
		e.Primary = n
	}
	return e
}

// ---- conservative well-formedness -------------------------------------------------------------

func isDigit(c byte) bool  { return c >= '0' && c <= '9' }
func isLetter(c byte) bool { return c >= 'A' && c <= 'Z' }
func isAlnum(c byte) bool  { return isDigit(c) || isLetter(c) }

// words: one or more runs of characters accepted by ok, separated by single fillers, then only fillers.
// allowEmpty permits a field of fillers only.
func words(field string, ok func(byte) bool, allowEmpty bool) bool {
	t := trimF(field)
	if t == "" {
		return allowEmpty
	}
	prevFiller := true // a leading filler is not allowed
	for i := 0; i < len(t); i++ {
		c := t[i]
		if c == Filler {
			if prevFiller {
				return false
			}
			prevFiller = true
			continue
		}
		if !ok(c) {
			return false
		}
		prevFiller = false
	}
	return true
}

func solid(field string, ok func(byte) bool, min int) bool {
	t := trimF(field)
	if len(t) < min {
		return false
	}
	for i := 0; i < len(t); i++ {
		if !ok(t[i]) {
			return false
		}
	}
	return true
}

func validDate(d string, allowPartial bool) bool {
	// YYMMDD; for the date of birth unknown day, or unknown month and day, or an entirely unknown date
	// are shown as fillers (Doc 9303-3 §4.7 / part 4 note k). Only trailing unknown parts are accepted here.
	known := 6
	if allowPartial {
		switch {
		case d == "<<<<<<":
			return true
		case d[2:] == "<<<<":
			known = 2
		case d[4:] == "<<":
			known = 4
		}
	}
	for i := 0; i < known; i++ {
		if !isDigit(d[i]) {
			return false
		}
	}
	if known >= 4 {
		m := int(d[2]-'0')*10 + int(d[3]-'0')
		if m < 1 || m > 12 {
			return false
		}
		if known == 6 {
			yy := int(d[0]-'0')*10 + int(d[1]-'0')
			day := int(d[4]-'0')*10 + int(d[5]-'0')
			dim := []int{31, 28, 31, 30, 31, 30, 31, 31, 30, 31, 30, 31}[m-1]
			if m == 2 && yy%4 == 0 && yy != 0 {
				dim = 29
			}
			if day < 1 || day > dim {
				return false
			}
		}
	}
	return true
}

// WellFormed is a CONSERVATIVE test: true only for strings that are certainly well-formed zones under
// Doc 9303 with correct check digits (so a decoder must accept them). Many acceptable zones are not
// recognised (e.g. leading fillers, numbers in names, unknown year of birth); for those it returns false
// and a reason.
func (p *Parsed) WellFormed() (bool, string) {
	if !InAlphabet(p.Raw) {
		return false, "character outside the MRZ alphabet"
	}
	if !isLetter(p.DocCode[0]) || !(isLetter(p.DocCode[1]) || p.DocCode[1] == Filler) {
		return false, "document code"
	}
	if !solid(p.Issuer, isLetter, 1) || !solid(p.Nationality, isLetter, 1) {
		return false, "state code"
	}
	// name: primary identifier, optionally "<<" and secondary identifier, components separated by single fillers
	n := trimF(p.Name)
	parts := strings.Split(n, "<<")
	if len(parts) < 1 || len(parts) > 2 {
		return false, "name: more than one '<<' separator"
	}
	for _, part := range parts {
		if part == "" || !words(part, isLetter, false) || strings.HasSuffix(part, "<") {
			return false, "name component"
		}
	}
	// document number
	switch {
	case p.LongUnterminated:
		return false, "long document number without filler after its check digit"
	case p.Long:
		if p.LongDegenerate {
			return false, "long document number without continuation"
		}
		if !solid(p.Principal, isAlnum, 9) || !solid(p.DocNum, isAlnum, 10) {
			return false, "long document number characters"
		}
	default:
		if p.DocCD == Filler {
			return false, "document number without check digit"
		}
		if !words(p.Principal, isAlnum, false) {
			return false, "document number characters"
		}
	}
	if !isDigit(p.DocCD) || !isDigit(p.DOBCD) || !isDigit(p.DOECD) || !isDigit(p.CompCD) {
		return false, "check digit position holds no digit"
	}
	if !validDate(p.DOB, true) || !validDate(p.DOE, false) {
		return false, "date"
	}
	if !(p.Sex == "M" || p.Sex == "F" || p.Sex == "<") {
		return false, "sex"
	}
	if !words(p.Opt, isAlnum, true) || (p.Layout == TD1 && !words(p.Opt2, isAlnum, true)) {
		return false, "optional data"
	}
	if p.OptCDPos >= 0 {
		if isEmpty(p.OptWhole) {
			if p.OptCD != Filler && p.OptCD != '0' {
				return false, "check digit of empty optional data"
			}
		} else if !isDigit(p.OptCD) {
			return false, "check digit position holds no digit"
		}
	}
	if ds := p.Disagreements(); len(ds) > 0 {
		return false, "check digit: " + ds[0].String()
	}
	// Disagreements skips empty fields; the digits of empty mandatory fields must still be right here
	for _, fc := range []struct {
		data string
		cd   byte
	}{{p.DOB, p.DOBCD}, {p.CompData, p.CompCD}} {
		if w, _ := CheckDigit(fc.data); w != fc.cd {
			return false, "check digit of an empty field"
		}
	}
	return true, ""
}

// ---- repair helpers used to build targeted mutants -------------------------------------------

func setAt(s string, i int, c byte) string {
	b := []byte(s)
	b[i] = c
	return string(b)
}

// RepairComposite returns s with the composite check digit recomputed (s unchanged if not computable).
func RepairComposite(s string) string {
	p, ok := Parse(s)
	if !ok {
		return s
	}
	cd, ok := CheckDigit(p.CompData)
	if !ok {
		return s
	}
	return setAt(s, p.CompCDPos, cd)
}

// RepairField returns s with the check digit of the named field (docnum, dob, doe, optional) recomputed.
func RepairField(s, field string) string {
	p, ok := Parse(s)
	if !ok {
		return s
	}
	var data string
	pos := -1
	switch field {
	case "docnum":
		if p.LongUnterminated || (defs[p.Layout].longDocNumber && !p.Long && p.DocCD == Filler) {
			return s
		}
		data, pos = p.DocNum, p.DocCDPos
	case "dob":
		data, pos = p.DOB, p.DOBCDPos
	case "doe":
		data, pos = p.DOE, p.DOECDPos
	case "optional":
		data, pos = p.OptWhole, p.OptCDPos
	}
	if pos < 0 {
		return s
	}
	cd, ok := CheckDigit(data)
	if !ok {
		return s
	}
	return setAt(s, pos, cd)
}

// FieldAt names the checked field whose DATA covers index i of p.Raw ("" if none).
func (p *Parsed) FieldAt(i int) string {
	d := defs[p.Layout]
	in := func(s span) bool {
		if s.line == 0 {
			return false
		}
		a, b := d.idx(s)
		return i >= a && i < b
	}
	switch {
	case in(d.docNum):
		return "docnum"
	case in(d.dob):
		return "dob"
	case in(d.doe):
		return "doe"
	case in(d.opt):
		if p.OptCDPos >= 0 {
			return "optional"
		}
		if p.Long && i < p.DocCDPos {
			return "docnum"
		}
	}
	return ""
}
