package refmrz

import (
	"encoding/hex"
	"fmt"
	"strings"
)

// SelfTest checks the reference against the specimen zones and worked examples printed in
// Doc 9303 (part 3 §4.9 check digit examples, parts 4/5/6 specimens, part 11 Appendix D.2).
// A failure is a harness error, never a property violation.
func SelfTest() error {
	// Doc 9303-3 §4.9 examples
	for _, v := range [][2]string{{"520727", "3"}, {"AB2134<<<", "5"}, {"HA672242<658022549601086<<<<<<<<<<<<<<0", "8"},
		{"D231458907<<<<<<<<<<<<<<<34071279507122<<<<<<<<<<<", "2"}, {"<<<<<<", "0"}} {
		if cd, ok := CheckDigit(v[0]); !ok || string(cd) != v[1] {
			return fmt.Errorf("check digit of %s = %c, Doc 9303 prints %s", v[0], cd, v[1])
		}
	}
	if _, ok := CheckDigit("AB 12"); ok {
		return fmt.Errorf("space accepted in check digit computation")
	}
	type vec struct {
		zone, info                                            string
		docnum, opt, opt2, prim, sec, dob, doe, sex, nat, iss string
		long                                                  bool
	}
	vecs := []vec{
		{zone: "P<UTOERIKSSON<<ANNA<MARIA<<<<<<<<<<<<<<<<<<<" + "L898902C36UTO7408122F1204159ZE184226B<<<<<10",
			info: "L898902C3674081221204159", docnum: "L898902C3", opt: "ZE184226B", prim: "ERIKSSON", sec: "ANNA<MARIA",
			dob: "740812", doe: "120415", sex: "F", nat: "UTO", iss: "UTO"},
		{zone: "I<UTOD231458907<<<<<<<<<<<<<<<" + "7408122F1204159UTO<<<<<<<<<<<6" + "ERIKSSON<<ANNA<MARIA<<<<<<<<<<",
			info: "D23145890774081221204159", docnum: "D23145890", prim: "ERIKSSON", sec: "ANNA<MARIA",
			dob: "740812", doe: "120415", sex: "F", nat: "UTO", iss: "UTO"},
		{zone: "I<UTOERIKSSON<<ANNA<MARIA<<<<<<<<<<<" + "D231458907UTO7408122F1204159<<<<<<<6",
			info: "D23145890774081221204159", docnum: "D23145890", prim: "ERIKSSON", sec: "ANNA<MARIA",
			dob: "740812", doe: "120415", sex: "F", nat: "UTO", iss: "UTO"},
		// Doc 9303-11 Appendix D.2: document numbers longer than 9 characters
		{zone: "I<UTOD23145890<7349<<<<<<<<<<<" + "3407127M9507122UTO<<<<<<<<<<<2" + "STEVENSON<<PETER<JOHN<<<<<<<<<",
			info: "D23145890734934071279507122", docnum: "D23145890734", prim: "STEVENSON", sec: "PETER<JOHN",
			dob: "340712", doe: "950712", sex: "M", nat: "UTO", iss: "UTO", long: true},
		{zone: "I<UTOSTEVENSON<<PETER<JOHN<<<<<<<<<<" + "D23145890<UTO3407127M95071227349<<<8",
			info: "D23145890734934071279507122", docnum: "D23145890734", prim: "STEVENSON", sec: "PETER<JOHN",
			dob: "340712", doe: "950712", sex: "M", nat: "UTO", iss: "UTO", long: true},
		// D.2: document number shorter than 9 characters (MRZ information and K_seed as printed; the
		// composite digit 2 of this TD1 rendering was computed by hand: weighted sum 502)
		{zone: "I<UTOL898902C<3<<<<<<<<<<<<<<<" + "6908061F9406236UTO<<<<<<<<<<<2" + "ERIKSSON<<ANNA<MARIA<<<<<<<<<<",
			info: "L898902C<369080619406236", docnum: "L898902C", prim: "ERIKSSON", sec: "ANNA<MARIA",
			dob: "690806", doe: "940623", sex: "F", nat: "UTO", iss: "UTO"},
	}
	for _, v := range vecs {
		p, ok := Parse(v.zone)
		if !ok {
			return fmt.Errorf("specimen not parsed: %s", v.zone)
		}
		if ds := p.Disagreements(); len(ds) > 0 {
			return fmt.Errorf("specimen %s: %v", v.zone, ds[0])
		}
		if wf, why := p.WellFormed(); !wf {
			return fmt.Errorf("specimen %s judged not well-formed: %s", v.zone, why)
		}
		f := p.Fields()
		got := []string{f.MRZInfo, f.DocNumber, f.Optional, f.Optional2, f.Primary, f.Secondary, f.DOB, f.DOE, f.Sex, f.Nationality, f.Issuer, fmt.Sprint(f.Long)}
		want := []string{v.info, v.docnum, v.opt, v.opt2, v.prim, v.sec, v.dob, v.doe, v.sex, v.nat, v.iss, fmt.Sprint(v.long)}
		if strings.Join(got, "|") != strings.Join(want, "|") {
			return fmt.Errorf("specimen %s: fields %v, want %v", v.zone, got, want)
		}
		// the generator must reproduce the specimen from its values
		z, e, err := Build(Doc{Layout: p.Layout, DocCode: f.DocCode, Issuer: f.Issuer, Primary: f.Primary, Secondary: f.Secondary,
			DocNumber: f.DocNumber, Nationality: f.Nationality, DOB: p.DOB, Sex: f.Sex, DOE: f.DOE, Optional: f.Optional, Optional2: f.Optional2})
		if err != nil || z != v.zone || e.MRZInfo != v.info {
			return fmt.Errorf("generator: %q (%v) instead of specimen %q; info %q", z, err, v.zone, e.MRZInfo)
		}
		// every single substitution of a checked character must show up as a disagreement unless its value is unchanged mod 10
		a, b := CheckedRegion(p.Layout)
		for i := a; i < b; i++ {
			if p.Layout == TD1 && (i == 37 || (i >= 45 && i < 48)) {
				continue // sex, nationality: not covered by any check digit
			}
			if p.Layout != TD1 && (i-defs[p.Layout].lineLen == 20 || (i-defs[p.Layout].lineLen >= 10 && i-defs[p.Layout].lineLen < 13)) {
				continue
			}
			for k := 0; k < len(Alphabet); k++ {
				c := Alphabet[k]
				ov, _ := charValue(v.zone[i])
				nv, _ := charValue(c)
				if (ov-nv)%10 == 0 {
					continue
				}
				q, _ := Parse(setAt(v.zone, i, c))
				if len(q.Disagreements()) == 0 && !q.LongUnterminated {
					return fmt.Errorf("reference blind to substitution %c at %d of %s", c, i, v.zone)
				}
			}
		}
	}
	h := KeySeedHash("L898902C<369080619406236")
	if strings.ToUpper(hex.EncodeToString(h[:16])) != "239AB9CB282DAF66231DC5A4DF6BFBAE" {
		return fmt.Errorf("K_seed of Doc 9303-11 D.2")
	}
	// long-form edge cases
	p, _ := Parse("I<UTOD23145890<<<<<<<<<<<<<<<<" + "3407127M9507122UTO<<<<<<<<<<<2" + "STEVENSON<<PETER<JOHN<<<<<<<<<")
	if p.Long || p.DocCD != '<' || len(p.Disagreements()) == 0 {
		return fmt.Errorf("number field with '<' as check digit and no continuation must disagree")
	}
	p, _ = Parse("I<UTOD23145890<ABCDEFGHIJKLMNO" + "3407127M9507122UTO<<<<<<<<<<<2" + "STEVENSON<<PETER<JOHN<<<<<<<<<")
	if !p.LongUnterminated {
		return fmt.Errorf("unterminated long form not recognised")
	}
	return nil
}
