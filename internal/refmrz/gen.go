package refmrz

import (
	"fmt"
	"strings"
)

// Doc is an abstract travel document: field VALUES (no padding). Build lays them out.
type Doc struct {
	Layout      Layout
	DocCode     string // 1 or 2 characters
	Issuer      string // 1..3 letters
	Primary     string // letters, components separated by single '<'
	Secondary   string // may be empty
	DocNumber   string // 1..9 characters, or 10..MaxDocNumber(layout) for TD1/TD2 (long form)
	Nationality string
	DOB         string // "YYMMDD", "YYMM<<", "YY<<<<" or "<<<<<<"
	Sex         string // "M", "F" or "" (unspecified, printed as filler)
	DOE         string // "YYMMDD"
	Optional    string // TD1 line 1 optional data (after a long number, if any), TD2 optional, TD3 personal number
	Optional2   string // TD1 line 2 optional data
	EmptyOptCD  byte   // TD3, Optional == "": the check digit position may show '<' or '0' (Doc 9303-4 §4.2.2 note j)
}

func pad(v string, n int) (string, error) {
	if len(v) > n {
		return "", fmt.Errorf("value %q longer than field (%d)", v, n)
	}
	return v + strings.Repeat("<", n-len(v)), nil
}

func mustCD(s string) byte {
	cd, ok := CheckDigit(s)
	if !ok {
		panic("refmrz: character outside alphabet in " + s)
	}
	return cd
}

// Build returns the zone for d (lines concatenated), the decoded values a reader must obtain, and an
// error when d cannot be represented unambiguously.
func Build(d Doc) (string, Expect, error) {
	def := defs[d.Layout]
	if def == nil {
		return "", Expect{}, fmt.Errorf("layout")
	}
	var e Expect
	fail := func(err error) (string, Expect, error) { return "", Expect{}, err }
	buf := []byte(strings.Repeat("?", def.total()))
	put := func(s span, v string) error {
		a, b := def.idx(s)
		f, err := pad(v, b-a)
		if err != nil {
			return err
		}
		copy(buf[a:b], f)
		return nil
	}
	if len(d.DocCode) < 1 || len(d.Issuer) < 1 || len(d.Nationality) < 1 || len(d.DocNumber) < 1 || len(d.Primary) < 1 {
		return fail(fmt.Errorf("mandatory value missing"))
	}
	if len(d.DOB) != 6 || len(d.DOE) != 6 || len(d.Sex) > 1 {
		return fail(fmt.Errorf("date/sex length"))
	}
	for _, v := range []string{d.DocCode, d.Issuer, d.Primary, d.Secondary, d.DocNumber, d.Nationality, d.DOE, d.Sex, d.Optional, d.Optional2} {
		if strings.HasSuffix(v, "<") || strings.HasPrefix(v, "<") || strings.Contains(v, "<<") || !InAlphabet(v) {
			return fail(fmt.Errorf("value %q: leading/trailing/double filler or bad character", v))
		}
	}
	if !validDate(d.DOB, true) || !validDate(d.DOE, false) {
		return fail(fmt.Errorf("date"))
	}
	name := d.Primary
	if d.Secondary != "" {
		name += "<<" + d.Secondary
	}
	for _, err := range []error{put(def.docCode, d.DocCode), put(def.issuer, d.Issuer), put(def.name, name),
		put(def.nat, d.Nationality), put(def.dob, d.DOB), put(def.sex, d.Sex), put(def.doe, d.DOE)} {
		if err != nil {
			return fail(err)
		}
	}
	put(def.dobCD, string(mustCD(d.DOB)))
	put(def.doeCD, string(mustCD(d.DOE)))

	// document number and optional data
	long := len(d.DocNumber) > 9
	switch {
	case !long:
		f, _ := pad(d.DocNumber, 9)
		put(def.docNum, f)
		put(def.docCD, string(mustCD(f)))
		if err := put(def.opt, d.Optional); err != nil {
			return fail(err)
		}
		e.MRZInfo = f + string(mustCD(f))
	case !def.longDocNumber:
		return fail(fmt.Errorf("document number of %d characters does not fit %v", len(d.DocNumber), d.Layout))
	default:
		if strings.Contains(d.DocNumber, "<") {
			return fail(fmt.Errorf("filler inside a long document number is ambiguous"))
		}
		put(def.docNum, d.DocNumber[:9])
		put(def.docCD, "<")
		cd := mustCD(d.DocNumber)
		if err := put(def.opt, d.DocNumber[9:]+string(cd)+"<"+d.Optional); err != nil {
			return fail(err)
		}
		e.MRZInfo = d.DocNumber + string(cd)
	}
	if def.opt2.line != 0 {
		if err := put(def.opt2, d.Optional2); err != nil {
			return fail(err)
		}
	} else if d.Optional2 != "" {
		return fail(fmt.Errorf("no second optional field"))
	}
	if def.optCD.line != 0 {
		f, _ := pad(d.Optional, OptLen(d.Layout))
		cd := mustCD(f)
		if d.Optional == "" {
			switch d.EmptyOptCD {
			case '<', '0':
				cd = d.EmptyOptCD
			case 0:
			default:
				return fail(fmt.Errorf("EmptyOptCD"))
			}
		}
		put(def.optCD, string(cd))
	}
	// composite
	comp := ""
	for _, sp := range def.composite {
		a, b := def.idx(sp)
		comp += string(buf[a:b])
	}
	put(def.comp, string(mustCD(comp)))
	zone := string(buf)
	if strings.Contains(zone, "?") {
		return fail(fmt.Errorf("internal: position not filled in %s", zone))
	}

	e.DocCode, e.Issuer, e.Primary, e.Secondary = d.DocCode, d.Issuer, d.Primary, d.Secondary
	e.DocNumber, e.Nationality, e.Sex, e.DOE = d.DocNumber, d.Nationality, d.Sex, d.DOE
	e.DOB = trimF(d.DOB)
	e.Optional, e.Optional2 = d.Optional, d.Optional2
	e.Long = long
	e.OptionalWhole = trimF(def.cut(zone, def.opt))
	e.MRZInfo += d.DOB + string(mustCD(d.DOB)) + d.DOE + string(mustCD(d.DOE))
	return zone, e, nil
}
