package e2e

import (
	"bytes"
	"fmt"
	"testing"

	"verif/internal/perso"
	"verif/internal/refchip"
	"verif/internal/refpki"
)

func TestSmoke(t *testing.T) {
	if err := refpki.EnsureKeys(); err != nil {
		t.Fatal(err)
	}
	one := 1
	cfgs := map[string]perso.Config{
		"bac-only":      {BAC: true, DGs: []int{2, 11}},
		"bac-aa-rsa":    {BAC: true, DGs: []int{2}, AA: &perso.AASpec{RSABits: 2048, Trailer: "34CC"}},
		"bac-aa-ec":     {BAC: true, DGs: []int{2}, AA: &perso.AASpec{Curve: "brainpoolP256r1"}},
		"bac-ca":        {BAC: true, DGs: []int{2}, CA: []perso.CASpec{{Curve: "brainpoolP256r1", Cipher: 2, KeyID: &one}}},
		"bac-ca-noinfo": {BAC: true, DGs: []int{2}, CA: []perso.CASpec{{Curve: "P-256", Cipher: 1, NoInfo: true}}},
		"pace-gm":       {BAC: true, PACE: []refchip.PACEProto{{Mapping: 2, Cipher: 2, ParamID: 13}}, DGs: []int{2, 7, 12}},
		"pace-cam":      {PACE: []refchip.PACEProto{{Mapping: 6, Cipher: 2, ParamID: 13}}, DGs: []int{2}},
		"pace-ca-aa":    {PACE: []refchip.PACEProto{{Mapping: 2, Cipher: 4, ParamID: 12}}, DGs: []int{2, 16}, CA: []perso.CASpec{{Curve: "P-384", Cipher: 4}}, AA: &perso.AASpec{Curve: "P-256", DER: true}},
	}
	for name, cfg := range cfgs {
		p := perso.Build(cfg)
		r := Read(p, ReadOpts{})
		if r.Panic != nil || r.Err != nil || r.Doc == nil {
			t.Errorf("%s: panic=%v err=%v (exchanges %d)", name, r.Panic, r.Err, len(p.Chip.Log))
			continue
		}
		s := r.Doc.Session
		ok := true
		for _, d := range p.DGList {
			if !bytes.Equal(FileBytes(&r.Doc.Document, d), p.Files[d]) {
				t.Errorf("%s: DG%d differs", name, d)
				ok = false
			}
		}
		sum := r.Doc.Summary()
		fmt.Printf("%-14s ok=%v exch=%d bac=%v pace=%v cam=%v aa=%v(%v) ca=%v(%v) pa=%v(%v) verifyErr=%v trusted=%v chipAuth=%v truth=%+v\n", name, ok, len(p.Chip.Log),
			s.BacResult != nil && s.BacResult.Success, s.PaceResult != nil && s.PaceResult.Success, s.PaceCamResult != nil && s.PaceCamResult.Success,
			s.ActiveAuthResult != nil && s.ActiveAuthResult.Success, s.ActiveAuthErr, s.ChipAuthResult != nil && s.ChipAuthResult.Success, s.ChipAuthErr,
			s.PassiveAuthResult != nil && s.PassiveAuthResult.Success, s.PassiveAuthErr, s.DocumentVerifyErr, sum.DataTrusted, sum.ChipAuthenticity,
			struct{ B, P, C, CA bool; AA int }{p.Chip.Truth.BACCompleted, p.Chip.Truth.PACECompleted, p.Chip.Truth.PACECAM, p.Chip.Truth.CACompleted, p.Chip.Truth.AASigned})
	}
}
