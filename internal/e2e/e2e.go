// Package e2e drives the library's Reader / Verifier against a personalised reference chip.
package e2e

import (
	"crypto/rand"
	"fmt"
	"runtime/debug"

	"github.com/gmrtd/gmrtd/cms"
	"github.com/gmrtd/gmrtd/document"
	"github.com/gmrtd/gmrtd/iso7816"
	"github.com/gmrtd/gmrtd/password"
	"github.com/gmrtd/gmrtd/reader"
	"github.com/gmrtd/gmrtd/verifier"

	"verif/internal/perso"
	"verif/internal/refchip"
)

type ReadOpts struct {
	MaxLe       int // 0 = library default
	SkipPace    bool
	SkipImages  bool
	AAChallenge []byte
	UseCAN      bool
	WrongMRZ    bool
	TermRand    *refchip.DetRand // nil = fresh deterministic stream
}

type ReadResult struct {
	Nfc   *iso7816.NfcSession // the session, usable for further exchanges after the read
	Doc   *document.DocumentEx
	Err   error
	Panic any
	Stack string
}

// Pool builds a trust store from DER certificates.
func Pool(ders [][]byte) (*cms.GenericCertPool, error) {
	pool := &cms.GenericCertPool{}
	for _, d := range ders {
		if err := pool.Add(d); err != nil {
			return nil, err
		}
	}
	return pool, nil
}

// Read runs Reader.ReadDocument against the chip of p.
func Read(p *perso.Perso, o ReadOpts) (res ReadResult) {
	pool, err := Pool(p.Store)
	if err != nil {
		return ReadResult{Err: fmt.Errorf("harness: trust store: %w", err)}
	}
	tr := o.TermRand
	if tr == nil {
		tr = refchip.NewDetRand("terminal")
	}
	old := rand.Reader
	rand.Reader = tr
	defer func() { rand.Reader = old }()
	nfc := iso7816.NewNfcSession(p.Chip)
	defer func() {
		if r := recover(); r != nil {
			res.Panic, res.Stack, res.Nfc = r, string(debug.Stack()), nfc
		}
	}()
	if o.MaxLe > 0 {
		nfc.SetMaxLe(o.MaxLe)
	}
	rd := reader.NewReader(nil, nfc, pool)
	if o.SkipPace {
		rd.SkipPace()
	}
	if o.SkipImages {
		rd.SkipImages()
	}
	if o.AAChallenge != nil {
		if _, err := rd.WithAAChallenge(o.AAChallenge); err != nil {
			return ReadResult{Err: err}
		}
	}
	var pass *password.Password
	switch {
	case o.UseCAN:
		pass = password.NewPasswordCan(p.CAN)
	case o.WrongMRZ:
		pass, err = password.NewPasswordMrzi("ZZ9999999", "010101", "300101")
	default:
		pass, err = password.NewPasswordMrz(p.Zone)
	}
	if err != nil {
		return ReadResult{Err: fmt.Errorf("password: %w", err)}
	}
	res.Nfc = nfc
	doc, _, rerr := rd.ReadDocument(pass, nil, nil)
	res.Doc, res.Err = doc, rerr
	return res
}

// Verify runs the offline verifier on a serialised document.
func Verify(store [][]byte, blob []byte, aaChallenge []byte) (res ReadResult) {
	pool, err := Pool(store)
	if err != nil {
		return ReadResult{Err: fmt.Errorf("harness: trust store: %w", err)}
	}
	defer func() {
		if r := recover(); r != nil {
			res.Panic, res.Stack = r, string(debug.Stack())
		}
	}()
	v := verifier.NewVerifier(pool)
	if aaChallenge != nil {
		if _, err := v.WithAAChallenge(aaChallenge); err != nil {
			return ReadResult{Err: err}
		}
	}
	doc, verr := v.Verify(blob)
	return ReadResult{Doc: doc, Err: verr}
}

// FileBytes returns the raw bytes of a file of the returned document by DG number (0x1D SOD, 0x1E COM, 0x1C CardAccess, 0x11D CardSecurity).
func FileBytes(d *document.Document, dg int) []byte {
	raw := func(f document.RawDataProvider, isNil bool) []byte {
		if isNil {
			return nil
		}
		return f.GetRawData()
	}
	l := &d.Mf.Lds1
	switch dg {
	case 1:
		return raw(l.Dg1, l.Dg1 == nil)
	case 2:
		return raw(l.Dg2, l.Dg2 == nil)
	case 7:
		return raw(l.Dg7, l.Dg7 == nil)
	case 11:
		return raw(l.Dg11, l.Dg11 == nil)
	case 12:
		return raw(l.Dg12, l.Dg12 == nil)
	case 13:
		return raw(l.Dg13, l.Dg13 == nil)
	case 14:
		return raw(l.Dg14, l.Dg14 == nil)
	case 15:
		return raw(l.Dg15, l.Dg15 == nil)
	case 16:
		return raw(l.Dg16, l.Dg16 == nil)
	case 0x1D:
		return raw(l.Sod, l.Sod == nil)
	case 0x1E:
		return raw(l.Com, l.Com == nil)
	case 0x1C:
		return raw(d.Mf.CardAccess, d.Mf.CardAccess == nil)
	case 0x11D:
		return raw(d.Mf.CardSecurity, d.Mf.CardSecurity == nil)
	}
	return nil
}
