package vsched

import (
	"fmt"
	"sort"
	"testing"
)

func exploreAll(t *testing.T, bound int, gran Granularity, mk func() (bodies []func(), obs func() string)) (map[string]int, ExploreStats, []*Exec) {
	outcomes := map[string]int{}
	var bad []*Exec
	var obs func() string
	st := Explore(bound, func(prefix []int, expect []uint32) *Exec {
		var bodies []func()
		bodies, obs = mk()
		return Run(Options{Prefix: prefix, Expect: expect, Gran: gran, StartPoint: gran == GranSync}, bodies...)
	}, func(prefix []int, ex *Exec, shared bool) bool {
		if ex.Diverged != "" {
			t.Fatalf("diverged: %s", ex.Diverged)
		}
		o := obs()
		if ex.Deadlock {
			o = "DEADLOCK"
			bad = append(bad, ex)
		}
		outcomes[o]++
		return true
	}, nil)
	return outcomes, st, bad
}

func TestLostUpdate(t *testing.T) {
	mk := func() ([]func(), func() string) {
		v := 0
		inc := func() { x := v; Yield("between"); v = x + 1 }
		return []func(){inc, inc}, func() string { return fmt.Sprint(v) }
	}
	o0, _, _ := exploreAll(t, 0, GranSync, mk)
	if len(o0) != 1 || o0["2"] == 0 {
		t.Fatalf("bound 0: %v", o0)
	}
	o1, st, _ := exploreAll(t, 1, GranSync, mk)
	if o1["1"] == 0 || o1["2"] == 0 {
		t.Fatalf("bound 1 must expose the lost update: %v", o1)
	}
	t.Logf("lost update: %v %+v", o1, st)
}

func TestMutexProtects(t *testing.T) {
	mk := func() ([]func(), func() string) {
		v := 0
		var mu Mutex
		inc := func() { mu.Lock(); x := v; Yield("between"); v = x + 1; mu.Unlock() }
		return []func(){inc, inc, inc}, func() string { return fmt.Sprint(v) }
	}
	o, st, _ := exploreAll(t, -1, GranSync, mk)
	if len(o) != 1 || o["3"] == 0 {
		t.Fatalf("mutex: %v", o)
	}
	if st.Executions < 6 {
		t.Fatalf("expected at least the 6 lock orders, got %d", st.Executions)
	}
	t.Logf("mutex: %v %+v", o, st)
}

func TestDeadlock(t *testing.T) {
	mk := func() ([]func(), func() string) {
		var a, b Mutex
		done := 0
		t0 := func() { a.Lock(); b.Lock(); done++; b.Unlock(); a.Unlock() }
		t1 := func() { b.Lock(); a.Lock(); done++; a.Unlock(); b.Unlock() }
		return []func(){t0, t1}, func() string { return fmt.Sprint(done) }
	}
	o0, _, _ := exploreAll(t, 0, GranSync, mk)
	if o0["DEADLOCK"] != 0 {
		t.Fatalf("no deadlock without preemption expected: %v", o0)
	}
	o1, _, bad := exploreAll(t, 1, GranSync, mk)
	if o1["DEADLOCK"] == 0 {
		t.Fatalf("deadlock not found: %v", o1)
	}
	if len(bad[0].Blocked) != 2 {
		t.Fatalf("blocked: %v", bad[0].Blocked)
	}
	t.Logf("deadlock: %v %v", o1, bad[0].Blocked)
}

func TestOnce(t *testing.T) {
	mk := func() ([]func(), func() string) {
		var o Once
		n := 0
		var seen [3]int
		body := func(i int) func() {
			return func() { o.Do(func() { Yield("in-once"); n++; Yield("in-once-2") }); seen[i] = n }
		}
		return []func(){body(0), body(1), body(2)}, func() string { return fmt.Sprint(n, seen) }
	}
	o, st, _ := exploreAll(t, 2, GranSync, mk)
	if len(o) != 1 || o["1 [1 1 1]"] == 0 {
		t.Fatalf("once: %v", o)
	}
	t.Logf("once: %+v", st)
	// broken once: check-then-act
	mk2 := func() ([]func(), func() string) {
		done := false
		n := 0
		body := func() {
			if !done {
				Yield("loading")
				n++
				done = true
			}
		}
		return []func(){body, body, body}, func() string { return fmt.Sprint(n) }
	}
	o2, _, _ := exploreAll(t, 1, GranSync, mk2)
	if o2["2"] == 0 {
		t.Fatalf("broken once not exposed: %v", o2)
	}
}

func TestForcedSwitchesAreFree(t *testing.T) {
	mk := func() ([]func(), func() string) {
		var order []int
		body := func(i int) func() { return func() { Yield("start"); order = append(order, i) } }
		return []func(){body(0), body(1), body(2)}, func() string { return fmt.Sprint(order) }
	}
	o, st, _ := exploreAll(t, 0, GranSync, mk)
	if len(o) != 6 || st.Executions != 6 {
		keys := []string{}
		for k := range o {
			keys = append(keys, k)
		}
		sort.Strings(keys)
		t.Fatalf("bound 0 must give all 6 run-to-completion orders exactly once: %v %+v", keys, st)
	}
}

func TestStmtGranularity(t *testing.T) {
	mk := func() ([]func(), func() string) {
		v := 0
		inc := func() { Stmt("a:1"); x := v; Stmt("a:2"); v = x + 1 }
		return []func(){inc, inc}, func() string { return fmt.Sprint(v) }
	}
	o, _, _ := exploreAll(t, 1, GranSync, mk)
	if len(o) != 1 {
		t.Fatalf("sync granularity must not see statement markers: %v", o)
	}
	o, _, _ = exploreAll(t, 1, GranStmt, mk)
	if o["1"] == 0 {
		t.Fatalf("stmt granularity must expose the lost update: %v", o)
	}
}

func TestReplayDeterminismAndDivergence(t *testing.T) {
	flip := 0
	mk := func() []func() {
		var mu Mutex
		v := 0
		inc := func() { Yield("a"); mu.Lock(); v++; mu.Unlock(); Yield("b") }
		return []func(){inc, inc}
	}
	a := Run(Options{Prefix: []int{0, 1, 0, 1}}, mk()...)
	b := Run(Options{Prefix: []int{0, 1, 0, 1}, Expect: a.Sigs()}, mk()...)
	if a.TraceHash != b.TraceHash || b.Diverged != "" || fmt.Sprint(a.Choices()) != fmt.Sprint(b.Choices()) {
		t.Fatalf("replay differs: %v %v %q", a.Choices(), b.Choices(), b.Diverged)
	}
	// a body that behaves differently the second time must be flagged
	mk2 := func() []func() {
		flip++
		extra := flip%2 == 0
		return []func(){func() {
			Yield("a")
			if extra {
				Yield("x")
			}
			Yield("b")
		}, func() { Yield("c"); Yield("d") }}
	}
	c := Run(Options{Prefix: []int{0, 1, 1}}, mk2()...)
	d := Run(Options{Prefix: c.Choices(), Expect: c.Sigs()}, mk2()...)
	if d.Diverged == "" {
		t.Fatalf("divergence not detected")
	}
}

func TestPanicAndUnlockOfUnlocked(t *testing.T) {
	var mu Mutex
	ex := Run(Options{}, func() { mu.Unlock() }, func() { Yield("x") })
	if len(ex.Panics) != 1 || ex.Panics[0].Thread != 0 {
		t.Fatalf("panics: %+v", ex.Panics)
	}
}

func TestPassthrough(t *testing.T) {
	SetPassthrough(true)
	defer SetPassthrough(false)
	var mu Mutex
	var o Once
	n := 0
	mu.Lock()
	o.Do(func() { n++ })
	o.Do(func() { n++ })
	Yield("x")
	Stmt("y")
	mu.Unlock()
	if n != 1 || Current() != -1 {
		t.Fatal("passthrough")
	}
}
