// Package vsched is a cooperative scheduler for logical threads plus a shim of package sync whose
// operations are scheduling points (CHESS-style systematic schedule exploration on the real code).
//
// The same source files are used in two ways:
//   - as verif/internal/vsched in the normal build (self tests, toy programs);
//   - mounted by cmd/vinstrument through `go build -overlay` as the virtual package
//     github.com/gmrtd/gmrtd/verifsched, which the instrumented copies of the library files import in
//     place of "sync" (and call Stmt in before every statement). The package therefore imports the
//     standard library only.
//
// Execution model. Run starts one goroutine per logical thread; exactly one of them holds the baton at
// any time, all others are parked on a channel, so the program under test executes sequentially and every
// execution is a deterministic function of the choices made at the scheduling points. A scheduling point
// is: every operation of the shim (Mutex.Lock/Unlock/TryLock, RWMutex.*, Once.Do, WaitGroup.Wait), every
// Yield (explicit, used by the harness: Transceive, status callback, loader stubs) and - at statement
// granularity - every Stmt marker inserted by the instrumenter. Blocking is visible: a thread whose
// pending operation is Lock on a held mutex (Do on a Once that is being run, Wait on a non-zero
// WaitGroup) is not enabled. "No enabled thread while some thread is unfinished" is a deadlock.
//
// Canonical menu at a point: the running thread first if it is still enabled, then the other enabled
// threads by ascending id. Choice 0 is therefore "keep running" and never costs anything; any other
// choice while the running thread is enabled is one PREEMPTION. If the running thread is blocked or has
// finished the menu is the enabled threads by ascending id and every choice is free (a forced switch).
// Points with a single enabled thread are not choice points (nothing is recorded for them).
//
// Before the first choice every thread is advanced to its first scheduling point (in id order, no
// choice involved), so that its pending operation - and hence whether it is enabled - is known. The code
// between thread start and the first scheduling point must not touch shared state (in the C20 harness
// it is the call instruction of the API method).
package vsched

import (
	"fmt"
	"runtime"
	"runtime/debug"
)

// Granularity selects which markers are scheduling points.
type Granularity int

const (
	GranSync Granularity = iota // shim operations and explicit Yield only
	GranStmt                    // additionally every Stmt marker (every statement of the instrumented files)
)

func (g Granularity) String() string {
	if g == GranStmt {
		return "stmt"
	}
	return "sync"
}

type opKind uint8

const (
	opStart opKind = iota
	opYield
	opStmt
	opLock
	opTryLock
	opUnlocked
	opRLock
	opWLock
	opOnce
	opOnceDone
	opWait
)

var opNames = [...]string{"start", "yield", "stmt", "lock", "trylock", "unlocked", "rlock", "wlock", "once", "once-done", "wait"}

type pending struct {
	kind opKind
	mu   *Mutex
	rw   *RWMutex
	once *Once
	wg   *WaitGroup
	site string
}

type thread struct {
	id       int
	wake     chan struct{}
	pend     pending
	started  bool
	finished bool
	hist     uint64 // rolling hash of this thread's own operations
	steps    int
	panicVal any
	panicStk string
}

// Point is one recorded choice point (>= 2 enabled threads).
type Point struct {
	N          int    // menu size
	Pick       int    // index into the canonical menu
	CurEnabled bool   // the running thread was enabled (=> a non-zero pick is a preemption)
	Cur        int    // running thread id (-1: none / finished)
	Thread     int    // id of the thread chosen
	Sig        uint32 // signature of (running thread, enabled set, pending operations) for divergence checks
	Site       string // pending operation of the running thread
}

// Exec is the result of one execution.
type Exec struct {
	Points      []Point
	Preemptions int
	Steps       int64 // scheduling points executed (including those with a single enabled thread)
	Stmts       int64 // Stmt markers passed (any granularity)
	TraceHash   uint64
	StateKeys   []uint64 // control-state key (vector of per-thread histories) at every choice point
	Contended   int      // choice / hand-over points at which some unfinished thread was blocked (lock held, once running)
	Deadlock    bool
	Blocked     []string // on deadlock: "T1: lock reader.go:101 ..." per blocked thread
	Overrun     bool     // step horizon exceeded (livelock guard)
	Diverged    string   // non-empty: replay did not reproduce the recorded schedule (hard error)
	Panics      []ThreadPanic
	PerThread   []int // steps per thread
}

type ThreadPanic struct {
	Thread int
	Value  string
	Stack  string
}

// Choices returns the picks of all choice points.
func (e *Exec) Choices() []int {
	out := make([]int, len(e.Points))
	for i, p := range e.Points {
		out[i] = p.Pick
	}
	return out
}

// Sigs returns the signatures of all choice points (passed back as `expect` when replaying a prefix).
func (e *Exec) Sigs() []uint32 {
	out := make([]uint32, len(e.Points))
	for i, p := range e.Points {
		out[i] = p.Sig
	}
	return out
}

// Trimmed returns the choice list without trailing defaults: the replayable schedule.
func (e *Exec) Trimmed() []int {
	c := e.Choices()
	for len(c) > 0 && c[len(c)-1] == 0 {
		c = c[:len(c)-1]
	}
	return c
}

// Describe renders the schedule as the sequence of context switches (for violation reports).
func (e *Exec) Describe(max int) string {
	s := ""
	n := 0
	for i, p := range e.Points {
		if p.Pick == 0 {
			continue
		}
		kind := "switch"
		if p.CurEnabled {
			kind = "PREEMPT"
		}
		if n < max {
			s += fmt.Sprintf("[point %d: %s T%d at %s -> T%d] ", i, kind, p.Cur, p.Site, p.Thread)
		}
		n++
	}
	if n > max {
		s += fmt.Sprintf("(+%d more) ", n-max)
	}
	if s == "" {
		s = "(canonical schedule: threads run to completion in id order)"
	}
	return s
}

type sched struct {
	threads    []*thread
	cur        *thread
	prefix     []int
	expect     []uint32
	ex         *Exec
	gran       Granularity
	maxSteps   int64
	starting   bool
	startCh    chan struct{}
	doneCh     chan struct{}
	ackCh      chan struct{}
	aborted    bool
	abortFrom  *thread
	keepKeys   bool
	startPoint bool
	skipYield  []string
}

// g is the active execution (nil: none). Only the goroutine holding the baton touches it.
var g *sched

// passthrough: the shim delegates to the real package sync and Yield/Stmt do nothing at all (no atomics,
// no synchronisation: anything of that kind would create happens-before edges and hide races from the
// race detector). Set by SetPassthrough before the goroutines of the free-running pass are started.
var passthrough bool

// SetPassthrough switches the shim to pass-through mode (the free-running -race pass).
func SetPassthrough(on bool) { passthrough = on }

// Passthrough reports the mode.
func Passthrough() bool { return passthrough }

// Active reports whether a scheduled execution is in progress.
func Active() bool { return g != nil }

// Current returns the id of the running logical thread, or -1 outside a scheduled execution.
func Current() int {
	if passthrough || g == nil || g.cur == nil {
		return -1
	}
	return g.cur.id
}

// Options of one execution.
type Options struct {
	Prefix   []int    // choices to replay (then defaults)
	Expect   []uint32 // optional signatures of the replayed points (divergence check)
	Gran     Granularity
	MaxSteps int64 // livelock guard (0 = 2e6)
	// StartPoint gives every thread an implicit scheduling point before its body, so that a body whose
	// first statements touch shared state without any scheduling point of the chosen granularity is still
	// interleaved (used at sync granularity; at statement granularity the first Stmt marker plays this role
	// and a thread whose first operation is Lock on a held mutex is correctly seen as not enabled).
	StartPoint bool
	StateKeys  bool // collect control-state keys
	// SkipYield: explicit Yield sites starting with one of these prefixes are not scheduling points in this
	// execution (used to leave out the "call <Pool>.<Method>" points where the pool traffic is not shared).
	SkipYield []string
}

func mix(h, v uint64) uint64 {
	h ^= v + 0x9e3779b97f4a7c15 + (h << 6) + (h >> 2)
	h *= 0xff51afd7ed558ccd
	h ^= h >> 33
	return h
}

func strHash(s string) uint64 {
	h := uint64(14695981039346656037)
	for i := 0; i < len(s); i++ {
		h ^= uint64(s[i])
		h *= 1099511628211
	}
	return h
}

// Run executes the bodies as logical threads T0..Tn-1 under the given schedule and returns when all of
// them have finished (or the execution was aborted: deadlock, horizon, divergence).
func Run(o Options, bodies ...func()) *Exec {
	if g != nil {
		panic("vsched: nested Run")
	}
	if passthrough {
		panic("vsched: Run in pass-through mode")
	}
	s := &sched{prefix: o.Prefix, expect: o.Expect, gran: o.Gran, maxSteps: o.MaxSteps, ex: &Exec{},
		startCh: make(chan struct{}), doneCh: make(chan struct{}, 1), ackCh: make(chan struct{}), keepKeys: o.StateKeys, startPoint: o.StartPoint, skipYield: o.SkipYield}
	if s.maxSteps == 0 {
		s.maxSteps = 2_000_000
	}
	for i, b := range bodies {
		t := &thread{id: i, wake: make(chan struct{}, 1), pend: pending{kind: opStart}}
		s.threads = append(s.threads, t)
		go s.threadMain(t, b)
	}
	g = s
	// advance every thread to its first scheduling point
	s.starting = true
	for _, t := range s.threads {
		s.cur = t
		t.started = true
		t.wake <- struct{}{}
		<-s.startCh
	}
	s.starting = false
	s.cur = nil
	// first choice: no running thread, free
	if next := s.choose(nil); next != nil {
		s.cur = next
		next.wake <- struct{}{}
		<-s.doneCh
	} else if !s.allFinished() {
		s.aborted = true // deadlock before anything ran
	}
	if s.aborted {
		// unwind the parked threads one at a time (their deferred functions run sequentially)
		if s.abortFrom != nil {
			<-s.ackCh
		}
		for _, t := range s.threads {
			if !t.finished && t != s.abortFrom {
				t.wake <- struct{}{}
				<-s.ackCh
			}
		}
	}
	g = nil
	for _, t := range s.threads {
		s.ex.PerThread = append(s.ex.PerThread, t.steps)
		if t.panicVal != nil {
			s.ex.Panics = append(s.ex.Panics, ThreadPanic{t.id, fmt.Sprint(t.panicVal), t.panicStk})
		}
	}
	return s.ex
}

func (s *sched) allFinished() bool {
	for _, t := range s.threads {
		if !t.finished {
			return false
		}
	}
	return true
}

func (s *sched) threadMain(t *thread, body func()) {
	<-t.wake
	defer func() {
		if s.aborted && !t.finished {
			// unwinding (runtime.Goexit): report to Run and disappear
			t.finished = true
			s.ackCh <- struct{}{}
			return
		}
		if r := recover(); r != nil {
			t.panicVal = r
			t.panicStk = string(debug.Stack())
		}
		s.finish(t)
	}()
	if s.aborted {
		return
	}
	if s.startPoint {
		s.point(pending{kind: opStart, site: "thread-start"})
	}
	body()
}

// finish: the running thread has ended; hand the baton on.
func (s *sched) finish(t *thread) {
	t.finished = true
	if s.starting {
		s.startCh <- struct{}{}
		return
	}
	if s.allFinished() {
		s.doneCh <- struct{}{}
		return
	}
	next := s.choose(t)
	if next == nil {
		// deadlock among the remaining threads (or abort requested by choose)
		s.aborted = true
		s.doneCh <- struct{}{}
		return
	}
	s.cur = next
	next.wake <- struct{}{}
}

func (p *pending) enabled() bool {
	switch p.kind {
	case opLock:
		return !p.mu.held
	case opRLock:
		return !p.rw.writer
	case opWLock:
		return !p.rw.writer && p.rw.readers == 0
	case opOnce:
		return !p.once.running
	case opWait:
		return p.wg.n <= 0
	}
	return true
}

func (p *pending) String() string {
	return opNames[p.kind] + " " + p.site
}

// choose returns the thread that runs next (nil: deadlock or abort). t is the running thread (nil at
// the very first choice; finished threads are never enabled).
func (s *sched) choose(t *thread) *thread {
	var menu [8]*thread
	m := menu[:0]
	curEnabled := t != nil && !t.finished && t.pend.enabled()
	if curEnabled {
		m = append(m, t)
	}
	var sig uint64 = 7
	blocked := false
	for _, u := range s.threads {
		if u.finished {
			continue
		}
		en := u.pend.enabled()
		if !en {
			blocked = true
		}
		sig = mix(sig, uint64(u.id)<<8|uint64(u.pend.kind)<<1|b2u(en))
		sig = mix(sig, strHash(u.pend.site))
		if u != t && en {
			m = append(m, u)
		}
	}
	if blocked {
		s.ex.Contended++
	}
	if len(m) == 0 {
		if !s.allFinished() {
			s.ex.Deadlock = true
			for _, u := range s.threads {
				if !u.finished {
					s.ex.Blocked = append(s.ex.Blocked, fmt.Sprintf("T%d blocked at %s", u.id, u.pend.String()))
				}
			}
		}
		return nil
	}
	if len(m) == 1 {
		return m[0]
	}
	cur := -1
	site := ""
	if t != nil {
		cur = t.id
		site = t.pend.String()
		sig = mix(sig, uint64(cur)+1000)
	}
	i := len(s.ex.Points)
	pick := 0
	if i < len(s.prefix) {
		pick = s.prefix[i]
		if pick >= len(m) || pick < 0 {
			s.ex.Diverged = fmt.Sprintf("replay divergence at choice point %d (%s): recorded choice %d, menu now has %d entries", i, site, pick, len(m))
			return nil
		}
		if i < len(s.expect) && s.expect[i] != uint32(sig) {
			s.ex.Diverged = fmt.Sprintf("replay divergence at choice point %d (%s): the enabled set / pending operations differ from the recorded execution", i, site)
			return nil
		}
	}
	if curEnabled && pick != 0 {
		s.ex.Preemptions++
	}
	s.ex.Points = append(s.ex.Points, Point{N: len(m), Pick: pick, CurEnabled: curEnabled, Cur: cur, Thread: m[pick].id, Sig: uint32(sig), Site: site})
	if s.keepKeys {
		var k uint64 = 3
		for _, u := range s.threads {
			k = mix(k, u.hist)
		}
		s.ex.StateKeys = append(s.ex.StateKeys, k)
	}
	return m[pick]
}

func b2u(b bool) uint64 {
	if b {
		return 1
	}
	return 0
}

// point is a scheduling point of the running thread: record the pending operation, let the scheduler
// decide who runs, and return when this thread has been chosen (its operation is then enabled).
func (s *sched) point(p pending) {
	t := s.cur
	t.pend = p
	t.steps++
	t.hist = mix(t.hist, uint64(p.kind)^strHash(p.site))
	s.ex.Steps++
	s.ex.TraceHash = mix(s.ex.TraceHash, uint64(t.id)<<56^t.hist)
	if s.starting {
		s.startCh <- struct{}{}
		s.park(t)
		return
	}
	if s.ex.Steps > s.maxSteps {
		s.ex.Overrun = true
		s.abort(t)
	}
	next := s.choose(t)
	if next == nil {
		s.abort(t)
	}
	if next != t {
		s.cur = next
		next.wake <- struct{}{}
		s.park(t)
	}
}

func (s *sched) park(t *thread) {
	<-t.wake
	if s.aborted {
		runtime.Goexit()
	}
}

// abort ends the execution from the running thread: Run unwinds everybody.
func (s *sched) abort(t *thread) {
	s.aborted = true
	s.abortFrom = t
	s.doneCh <- struct{}{}
	runtime.Goexit()
}

// live returns the active execution if the caller should take part in scheduling.
func live() *sched {
	if passthrough {
		return nil
	}
	s := g
	if s == nil || s.aborted || s.cur == nil {
		return nil
	}
	return s
}

// Yield is an explicit scheduling point (all granularities).
func Yield(site string) {
	if s := live(); s != nil {
		for _, p := range s.skipYield {
			if len(site) >= len(p) && site[:len(p)] == p {
				return
			}
		}
		s.point(pending{kind: opYield, site: site})
	}
}

// Stmt is the marker the instrumenter inserts before every statement: a scheduling point at statement
// granularity, a counter otherwise.
func Stmt(site string) {
	if passthrough {
		return
	}
	s := g
	if s == nil || s.aborted || s.cur == nil {
		return
	}
	s.ex.Stmts++
	if s.gran == GranStmt {
		s.point(pending{kind: opStmt, site: site})
	}
}
