package vsched

// Preemption-bounded schedule exploration (replay-prefix DFS, stateless).
//
// An execution is identified by its choice list (one pick per choice point, trailing defaults dropped).
// Explore enumerates EVERY execution whose number of preemptions is <= Bound, each exactly once: the
// children of an execution with prefix p are p' = picks[0..i) + alt for every choice point i >= len(p)
// and every alt != 0 of that point; the cost of a child is cost(p) + (1 if the running thread was enabled
// at point i, else 0). This differs from the generic deviation-bounded explorer (internal/explore), which
// would charge every non-default choice: at a forced switch (running thread blocked or finished) every
// alternative is free here, as the definition of a preemption demands.
//
// The body must be deterministic given the choices; every replayed point is checked against the recorded
// signature (running thread, enabled set, pending operations) and a mismatch is reported through
// Exec.Diverged (hard error for the caller).

type ExploreStats struct {
	Executions   int64
	ByPreemption []int64 // executions by exact number of preemptions
	Steps        int64
	MaxPoints    int
	Stopped      bool
}

// Explore runs `run` for every schedule with at most bound preemptions (bound < 0: all schedules).
// visit is called after every execution; returning false stops the exploration.
//
// Sharding over worker processes: mine, if non-nil, is consulted once for every subtree that hangs off a
// preemption-free execution through its FIRST preemption. The preemption-free executions themselves (the
// canonical one and those reached from it through free choices only: a handful, one per order in which
// the threads can be run to completion or to a block) are executed by every worker and flagged
// shared=true to visit. Subtrees under a free choice are not sharding units because each of them is as
// large as the whole tree.
func Explore(bound int, run func(prefix []int, expect []uint32) *Exec, visit func(prefix []int, ex *Exec, shared bool) bool, mine func() bool) ExploreStats {
	var st ExploreStats
	var rec func(prefix []int, expect []uint32, cost int)
	rec = func(prefix []int, expect []uint32, cost int) {
		if st.Stopped {
			return
		}
		ex := run(prefix, expect)
		st.Executions++
		st.Steps += ex.Steps
		for len(st.ByPreemption) <= ex.Preemptions {
			st.ByPreemption = append(st.ByPreemption, 0)
		}
		st.ByPreemption[ex.Preemptions]++
		if len(ex.Points) > st.MaxPoints {
			st.MaxPoints = len(ex.Points)
		}
		if !visit(prefix, ex, cost == 0 && mine != nil) {
			st.Stopped = true
			return
		}
		if ex.Diverged != "" || len(ex.Points) < len(prefix) {
			return
		}
		picks := ex.Choices()
		sigs := ex.Sigs()
		for i := len(prefix); i < len(ex.Points); i++ {
			c := cost
			if ex.Points[i].CurEnabled {
				c++
			}
			if bound >= 0 && c > bound {
				continue
			}
			for alt := 1; alt < ex.Points[i].N; alt++ {
				if cost == 0 && c > 0 && mine != nil && !mine() {
					continue
				}
				np := make([]int, i+1)
				copy(np, picks[:i])
				np[i] = alt
				rec(np, sigs[:i+1], c)
				if st.Stopped {
					return
				}
			}
		}
	}
	rec(nil, nil, 0)
	return st
}
