package vsched

import (
	"runtime"
	"strconv"
	"sync"
)

// The shim of package sync. In a scheduled execution every operation is a scheduling point and blocking
// is decided by the scheduler (a held flag), never by the Go runtime. In pass-through mode (free-running
// -race pass) every operation delegates to the real primitive and adds nothing. Outside any execution
// (harness set-up code on the main goroutine) the types behave like their sequential specification.

// callerSite is "file.go:line" of the library statement that called the shim operation.
func callerSite() string {
	_, file, line, ok := runtime.Caller(2)
	if !ok {
		return "?"
	}
	for i := len(file) - 1; i >= 0; i-- {
		if file[i] == '/' {
			file = file[i+1:]
			break
		}
	}
	return file + ":" + strconv.Itoa(line)
}

// Mutex replaces sync.Mutex.
type Mutex struct {
	real  sync.Mutex
	held  bool
	owner int
}

func (m *Mutex) Lock() {
	if passthrough {
		m.real.Lock()
		return
	}
	s := live()
	if s == nil {
		if g == nil {
			m.held = true
		}
		return
	}
	s.point(pending{kind: opLock, mu: m, site: callerSite()})
	m.held = true
	m.owner = s.cur.id
}

func (m *Mutex) TryLock() bool {
	if passthrough {
		return m.real.TryLock()
	}
	s := live()
	if s == nil {
		if m.held {
			return false
		}
		m.held = true
		return true
	}
	s.point(pending{kind: opTryLock, mu: m, site: callerSite()})
	if m.held {
		return false
	}
	m.held = true
	m.owner = s.cur.id
	return true
}

func (m *Mutex) Unlock() {
	if passthrough {
		m.real.Unlock()
		return
	}
	s := live()
	if s == nil {
		if g == nil {
			m.held = false
		}
		return
	}
	if !m.held {
		panic("sync: unlock of unlocked mutex")
	}
	m.held = false
	// the scheduling point comes after the release: this is where waiting threads become enabled
	s.point(pending{kind: opUnlocked, site: callerSite()})
}

// RWMutex replaces sync.RWMutex.
type RWMutex struct {
	real    sync.RWMutex
	writer  bool
	readers int
}

func (m *RWMutex) Lock() {
	if passthrough {
		m.real.Lock()
		return
	}
	s := live()
	if s == nil {
		if g == nil {
			m.writer = true
		}
		return
	}
	s.point(pending{kind: opWLock, rw: m, site: callerSite()})
	m.writer = true
}

func (m *RWMutex) Unlock() {
	if passthrough {
		m.real.Unlock()
		return
	}
	s := live()
	if s == nil {
		if g == nil {
			m.writer = false
		}
		return
	}
	if !m.writer {
		panic("sync: Unlock of unlocked RWMutex")
	}
	m.writer = false
	s.point(pending{kind: opUnlocked, site: callerSite()})
}

func (m *RWMutex) RLock() {
	if passthrough {
		m.real.RLock()
		return
	}
	s := live()
	if s == nil {
		if g == nil {
			m.readers++
		}
		return
	}
	s.point(pending{kind: opRLock, rw: m, site: callerSite()})
	m.readers++
}

func (m *RWMutex) RUnlock() {
	if passthrough {
		m.real.RUnlock()
		return
	}
	s := live()
	if s == nil {
		if g == nil {
			m.readers--
		}
		return
	}
	if m.readers <= 0 {
		panic("sync: RUnlock of unlocked RWMutex")
	}
	m.readers--
	s.point(pending{kind: opUnlocked, site: callerSite()})
}

// Once replaces sync.Once.
type Once struct {
	real    sync.Once
	done    bool
	running bool
}

func (o *Once) Do(f func()) {
	if passthrough {
		o.real.Do(f)
		return
	}
	s := live()
	if s == nil {
		if g != nil { // unwinding an aborted execution
			return
		}
		if !o.done {
			defer func() { o.done = true }()
			f()
		}
		return
	}
	site := callerSite()
	s.point(pending{kind: opOnce, once: o, site: site})
	if o.done {
		return
	}
	o.running = true
	defer func() {
		o.running = false
		o.done = true
		if s2 := live(); s2 != nil {
			s2.point(pending{kind: opOnceDone, site: site})
		}
	}()
	f()
}

// WaitGroup replaces sync.WaitGroup (Add/Done/Wait; the library under test starts no goroutines).
type WaitGroup struct {
	real sync.WaitGroup
	n    int
}

func (w *WaitGroup) Add(d int) {
	if passthrough {
		w.real.Add(d)
		return
	}
	w.n += d
	if w.n < 0 {
		panic("sync: negative WaitGroup counter")
	}
}

func (w *WaitGroup) Done() { w.Add(-1) }

func (w *WaitGroup) Wait() {
	if passthrough {
		w.real.Wait()
		return
	}
	if s := live(); s != nil {
		s.point(pending{kind: opWait, wg: w, site: callerSite()})
	}
}

// Types without blocking behaviour that matters here are passed through unchanged so that a library file
// that starts using them still compiles against the shim (they are NOT scheduling points).
type (
	Locker = sync.Locker
	Pool   = sync.Pool
	Map    = sync.Map
)

func OnceFunc(f func()) func() {
	var o Once
	return func() { o.Do(f) }
}
