package refpki

import (
	"crypto"
	"crypto/rsa"
	"crypto/sha1"
	"crypto/sha256"
	"crypto/sha512"
	"crypto/x509"
	"encoding/asn1"
	"encoding/pem"
	"fmt"
	"hash"
	"math/big"
	"os"
	"path/filepath"
	"sync"
	"time"
)

// CacheDir is where generated RSA keys are kept (created on demand).
var CacheDir = "/verif/cache/refpki"

// Hash names one of the digests of ICAO 9303-12.
type Hash string

const (
	SHA1   Hash = "sha1"
	SHA224 Hash = "sha224"
	SHA256 Hash = "sha256"
	SHA384 Hash = "sha384"
	SHA512 Hash = "sha512"
)

var Hashes = []Hash{SHA1, SHA224, SHA256, SHA384, SHA512}

func (h Hash) New() hash.Hash {
	switch h {
	case SHA1:
		return sha1.New()
	case SHA224:
		return sha256.New224()
	case SHA256:
		return sha256.New()
	case SHA384:
		return sha512.New384()
	case SHA512:
		return sha512.New()
	}
	panic("refpki: unknown hash " + string(h))
}

func (h Hash) Sum(data []byte) []byte { x := h.New(); x.Write(data); return x.Sum(nil) }
func (h Hash) Size() int              { return h.New().Size() }

func (h Hash) Crypto() crypto.Hash {
	return map[Hash]crypto.Hash{SHA1: crypto.SHA1, SHA224: crypto.SHA224, SHA256: crypto.SHA256, SHA384: crypto.SHA384, SHA512: crypto.SHA512}[h]
}

// OID of the digest algorithm.
func (h Hash) OID() asn1.ObjectIdentifier {
	switch h {
	case SHA1:
		return asn1.ObjectIdentifier{1, 3, 14, 3, 2, 26}
	case SHA224:
		return asn1.ObjectIdentifier{2, 16, 840, 1, 101, 3, 4, 2, 4}
	case SHA256:
		return asn1.ObjectIdentifier{2, 16, 840, 1, 101, 3, 4, 2, 1}
	case SHA384:
		return asn1.ObjectIdentifier{2, 16, 840, 1, 101, 3, 4, 2, 2}
	case SHA512:
		return asn1.ObjectIdentifier{2, 16, 840, 1, 101, 3, 4, 2, 3}
	}
	panic("refpki: unknown hash " + string(h))
}

// AlgID is the digest AlgorithmIdentifier; withNull adds the NULL parameters (both forms occur in the field).
func (h Hash) AlgID(withNull bool) *Node {
	if withNull {
		return Seq(OID(h.OID()), Null())
	}
	return Seq(OID(h.OID()))
}

// KeySpec names a key pair. Keys with the same spec are the same key (deterministic).
type KeySpec struct {
	Alg      string // "rsa" or "ec"
	Bits     int    // RSA modulus size: 1024, 2048, 3072, 4096
	Curve    string // EC: one of CurveNames
	Explicit bool   // EC: SubjectPublicKeyInfo carries explicit domain parameters instead of the curve OID
	PSS      bool   // RSA: this key signs with RSASSA-PSS (otherwise PKCS#1 v1.5)
	Index    int    // distinguishes several keys of the same kind (RSA: 0..RSAKeysPerSize-1; EC: any)
}

func RSA(bits int, pss bool, index int) KeySpec {
	return KeySpec{Alg: "rsa", Bits: bits, PSS: pss, Index: index}
}
func EC(curve string, explicit bool, index int) KeySpec {
	return KeySpec{Alg: "ec", Curve: curve, Explicit: explicit, Index: index}
}

func (k KeySpec) String() string {
	if k.Alg == "rsa" {
		s := fmt.Sprintf("rsa%d", k.Bits)
		if k.PSS {
			s += "-pss"
		} else {
			s += "-pkcs1"
		}
		return fmt.Sprintf("%s#%d", s, k.Index)
	}
	s := "ec-" + k.Curve
	if k.Explicit {
		s += "-explicit"
	}
	return fmt.Sprintf("%s#%d", s, k.Index)
}

// Key is a private key of either kind.
type Key struct {
	Spec KeySpec
	RSA  *rsa.PrivateKey
	EC   *ECPrivateKey
}

// RSAKeysPerSize is how many distinct RSA keys are cached per modulus size.
var RSAKeysPerSize = map[int]int{1024: 6, 2048: 6, 3072: 2, 4096: 2}

var (
	keyMu    sync.Mutex
	keyCache = map[string]*Key{}
)

func rsaPath(bits, index int) string {
	return filepath.Join(CacheDir, fmt.Sprintf("rsa%d_%d.pem", bits, index))
}

// EnsureKeys makes sure every cached RSA key exists (generating the missing ones deterministically).
// It is safe to call from many processes at once: a key is written to a temporary file and renamed, a
// best-effort lock file avoids duplicate work, and because generation is deterministic a lost race
// produces the identical file.
func EnsureKeys() error {
	if err := os.MkdirAll(CacheDir, 0o755); err != nil {
		return err
	}
	for _, bits := range []int{1024, 2048, 3072, 4096} {
		for i := 0; i < RSAKeysPerSize[bits]; i++ {
			if _, err := ensureRSA(bits, i); err != nil {
				return err
			}
		}
	}
	return nil
}

func readRSA(path string) (*rsa.PrivateKey, error) {
	b, err := os.ReadFile(path)
	if err != nil {
		return nil, err
	}
	blk, _ := pem.Decode(b)
	if blk == nil {
		return nil, fmt.Errorf("refpki: %s is not PEM", path)
	}
	k, err := x509.ParsePKCS1PrivateKey(blk.Bytes)
	if err != nil {
		return nil, err
	}
	return k, nil
}

func ensureRSA(bits, index int) (*rsa.PrivateKey, error) {
	path := rsaPath(bits, index)
	if k, err := readRSA(path); err == nil {
		return k, nil
	}
	if err := os.MkdirAll(CacheDir, 0o755); err != nil {
		return nil, err
	}
	lock := path + ".lock"
	if f, err := os.OpenFile(lock, os.O_CREATE|os.O_EXCL|os.O_WRONLY, 0o644); err == nil {
		f.Close()
		defer os.Remove(lock)
	} else {
		// somebody else is generating: wait for the file, give up waiting when the lock is stale
		for i := 0; i < 3000; i++ {
			if k, err := readRSA(path); err == nil {
				return k, nil
			}
			if st, err := os.Stat(lock); err != nil || time.Since(st.ModTime()) > 5*time.Minute {
				break
			}
			time.Sleep(100 * time.Millisecond)
		}
		if k, err := readRSA(path); err == nil {
			return k, nil
		}
	}
	k := GenerateRSA(bits, fmt.Sprintf("refpki-rsa|%d|%d", bits, index))
	der := x509.MarshalPKCS1PrivateKey(k)
	tmp, err := os.CreateTemp(CacheDir, fmt.Sprintf(".rsa%d_%d-*", bits, index))
	if err != nil {
		return nil, err
	}
	if err := pem.Encode(tmp, &pem.Block{Type: "RSA PRIVATE KEY", Bytes: der}); err != nil {
		tmp.Close()
		os.Remove(tmp.Name())
		return nil, err
	}
	tmp.Close()
	if err := os.Rename(tmp.Name(), path); err != nil {
		os.Remove(tmp.Name())
		return nil, err
	}
	return k, nil
}

// GenerateRSA builds an RSA key with a seeded math/big prime search (no randomness): candidates come from a
// SHA-512 counter stream of the label, top two bits and the low bit forced, then stepped by 2 until
// ProbablyPrime(32) and gcd(p-1, 65537) = 1.
func GenerateRSA(bits int, label string) *rsa.PrivateKey {
	e := big.NewInt(65537)
	one := big.NewInt(1)
	prime := func(tag string, pb int) *big.Int {
		for ctr := 0; ; ctr++ {
			c := streamInt(fmt.Sprintf("%s|%s|%d", label, tag, ctr), nil, pb)
			c.Rsh(c, uint(c.BitLen()-pb))
			c.SetBit(c, pb-1, 1)
			c.SetBit(c, pb-2, 1)
			c.SetBit(c, 0, 1)
			for step := 0; step < 1<<16; step++ {
				if c.BitLen() != pb {
					break
				}
				if c.ProbablyPrime(32) {
					pm := new(big.Int).Sub(c, one)
					if new(big.Int).GCD(nil, nil, pm, e).Cmp(one) == 0 {
						return c
					}
				}
				c.Add(c, big.NewInt(2))
			}
		}
	}
	for try := 0; ; try++ {
		p := prime(fmt.Sprintf("p%d", try), bits/2)
		q := prime(fmt.Sprintf("q%d", try), bits-bits/2)
		if p.Cmp(q) == 0 {
			continue
		}
		n := new(big.Int).Mul(p, q)
		if n.BitLen() != bits {
			continue
		}
		phi := new(big.Int).Mul(new(big.Int).Sub(p, one), new(big.Int).Sub(q, one))
		d := new(big.Int).ModInverse(e, phi)
		if d == nil {
			continue
		}
		k := &rsa.PrivateKey{PublicKey: rsa.PublicKey{N: n, E: 65537}, D: d, Primes: []*big.Int{p, q}}
		k.Precompute()
		if err := k.Validate(); err != nil {
			continue
		}
		return k
	}
}

// LoadKey returns the key for a spec (RSA: from the cache, generated if absent; EC: derived). Cached in memory.
func LoadKey(spec KeySpec) *Key {
	id := spec.String()
	keyMu.Lock()
	defer keyMu.Unlock()
	if k := keyCache[id]; k != nil {
		return k
	}
	k := &Key{Spec: spec}
	switch spec.Alg {
	case "rsa":
		if n, ok := RSAKeysPerSize[spec.Bits]; !ok || spec.Index < 0 || spec.Index >= n {
			panic(fmt.Sprintf("refpki: no cached RSA key %d/%d", spec.Bits, spec.Index))
		}
		r, err := ensureRSA(spec.Bits, spec.Index)
		if err != nil {
			panic(err)
		}
		r.Precompute()
		k.RSA = r
	case "ec":
		k.EC = DeriveECKey(CurveByName(spec.Curve), fmt.Sprintf("%d", spec.Index))
	default:
		panic("refpki: bad key spec")
	}
	keyCache[id] = k
	return k
}

// With returns the same private key presented under another spec flavour (e.g. the explicit-parameter
// encoding of the same EC key, or the PSS use of the same RSA key).
func (k *Key) With(explicit, pss bool) *Key {
	s := k.Spec
	s.Explicit, s.PSS = explicit, pss
	return &Key{Spec: s, RSA: k.RSA, EC: k.EC}
}

var (
	oidRSAEncryption = asn1.ObjectIdentifier{1, 2, 840, 113549, 1, 1, 1}
	oidECPublicKey   = asn1.ObjectIdentifier{1, 2, 840, 10045, 2, 1}
	oidRSAPSS        = asn1.ObjectIdentifier{1, 2, 840, 113549, 1, 1, 10}
	oidMGF1          = asn1.ObjectIdentifier{1, 2, 840, 113549, 1, 1, 8}
)

// PublicBits is the content of the subjectPublicKey BIT STRING (RSAPublicKey DER or the uncompressed point).
func (k *Key) PublicBits() []byte {
	if k.RSA != nil {
		return DER(Seq(Int(k.RSA.N), Int64(int64(k.RSA.E))))
	}
	return k.EC.Point()
}

// SPKINode builds SubjectPublicKeyInfo.
func (k *Key) SPKINode() *Node {
	if k.RSA != nil {
		return Seq(Seq(OID(oidRSAEncryption), Null()), BitString(k.PublicBits()))
	}
	var params *Node
	if k.Spec.Explicit {
		params = k.EC.Curve.ExplicitParams()
	} else {
		params = OID(k.EC.Curve.OID)
	}
	return Seq(Seq(OID(oidECPublicKey), params), BitString(k.PublicBits()))
}

// SPKI is the DER SubjectPublicKeyInfo.
func (k *Key) SPKI() []byte { return DER(k.SPKINode()) }

// KeyID is the SHA-1 of the subjectPublicKey bits (RFC 5280 §4.2.1.2 method 1).
func (k *Key) KeyID() []byte { return SHA1.Sum(k.PublicBits()) }

// SignOpts tunes the signature encoding.
type SignOpts struct {
	Hash             Hash
	PSSSaltLen       int  // 0 = length of the hash
	PSSOmitDefaults  bool // encode RSASSA-PSS-params as DER demands: fields equal to their DEFAULT (sha1, mgf1SHA1, 20) omitted
	RSAEncryptionOID bool // PKCS#1 v1.5: use rsaEncryption as signatureAlgorithm (common in SignerInfo) instead of shaXWithRSAEncryption
}

var sigMemo sync.Map // key: spec|hash|salt|digest -> []byte

type detReader struct {
	label string
	data  []byte
	ctr   int
	buf   []byte
}

func (d *detReader) Read(p []byte) (int, error) {
	for len(d.buf) < len(p) {
		h := sha512.New()
		fmt.Fprintf(h, "%s|%d|", d.label, d.ctr)
		h.Write(d.data)
		d.buf = h.Sum(d.buf)
		d.ctr++
	}
	n := copy(p, d.buf)
	d.buf = d.buf[n:]
	return n, nil
}

// Sign signs msg (hashing it with o.Hash) and returns the signature octets and the signature AlgorithmIdentifier.
// RSA PKCS#1 v1.5 and the ECDSA of this package are deterministic; the PSS salt comes from a hash stream.
func (k *Key) Sign(msg []byte, o SignOpts) (sig []byte, alg *Node) {
	digest := o.Hash.Sum(msg)
	memoKey := fmt.Sprintf("%s|%s|%d|%x", k.Spec.String(), o.Hash, o.PSSSaltLen, digest)
	if k.Spec.Alg == "ec" {
		memoKey = fmt.Sprintf("ec-%s#%d|%s|%x", k.Spec.Curve, k.Spec.Index, o.Hash, digest)
	}
	if v, ok := sigMemo.Load(memoKey); ok {
		sig = v.([]byte)
	}
	switch {
	case k.EC != nil:
		if sig == nil {
			r, s := k.EC.SignDigest(digest)
			sig = ECDSASigDER(r, s)
		}
		alg = Seq(OID(ecdsaWithOID(o.Hash)))
	case k.Spec.PSS:
		salt := o.PSSSaltLen
		if salt == 0 {
			salt = o.Hash.Size()
		}
		if sig == nil {
			sig = pssSign(k.RSA, o.Hash, digest, salt)
		}
		alg = PSSAlgID(o.Hash, salt, o.PSSOmitDefaults)
	default:
		if sig == nil {
			var err error
			sig, err = rsa.SignPKCS1v15(nil, k.RSA, o.Hash.Crypto(), digest)
			if err != nil {
				panic(err)
			}
		}
		if o.RSAEncryptionOID {
			alg = Seq(OID(oidRSAEncryption), Null())
		} else {
			alg = Seq(OID(rsaWithOID(o.Hash)), Null())
		}
	}
	sigMemo.Store(memoKey, sig)
	return append([]byte{}, sig...), alg
}

// pssSign is EMSA-PSS (RFC 8017 §9.1.1) with MGF1 over the same hash, followed by the RSA private operation.
// Written out here because rsa.SignPSS insists on a random source; the salt is a hash stream of key and digest.
func pssSign(k *rsa.PrivateKey, h Hash, mHash []byte, sLen int) []byte {
	salt := make([]byte, sLen)
	(&detReader{label: "refpki-pss-salt", data: append(k.D.Bytes(), mHash...)}).Read(salt)
	emBits := k.N.BitLen() - 1
	emLen := (emBits + 7) / 8
	hLen := h.Size()
	if emLen < hLen+sLen+2 {
		panic("refpki: RSA key too small for PSS with this hash")
	}
	hh := h.New()
	hh.Write(make([]byte, 8))
	hh.Write(mHash)
	hh.Write(salt)
	H := hh.Sum(nil)
	db := make([]byte, emLen-hLen-1)
	db[len(db)-sLen-1] = 0x01
	copy(db[len(db)-sLen:], salt)
	mask := mgf1(h, H, len(db))
	for i := range db {
		db[i] ^= mask[i]
	}
	db[0] &= 0xFF >> uint(8*emLen-emBits)
	em := append(append(db, H...), 0xBC)
	m := new(big.Int).SetBytes(em)
	// private operation (CRT)
	p, q := k.Primes[0], k.Primes[1]
	one := big.NewInt(1)
	dp := new(big.Int).Mod(k.D, new(big.Int).Sub(p, one))
	dq := new(big.Int).Mod(k.D, new(big.Int).Sub(q, one))
	m1 := new(big.Int).Exp(m, dp, p)
	m2 := new(big.Int).Exp(m, dq, q)
	hq := new(big.Int).Sub(m1, m2)
	hq.Mul(hq, new(big.Int).ModInverse(q, p))
	hq.Mod(hq, p)
	s := hq.Mul(hq, q)
	s.Add(s, m2)
	if new(big.Int).Exp(s, big.NewInt(int64(k.E)), k.N).Cmp(m) != 0 {
		panic("refpki: RSA private operation self-check failed")
	}
	return s.FillBytes(make([]byte, (k.N.BitLen()+7)/8))
}

func mgf1(h Hash, seed []byte, n int) []byte {
	var out []byte
	for ctr := uint32(0); len(out) < n; ctr++ {
		x := h.New()
		x.Write(seed)
		x.Write([]byte{byte(ctr >> 24), byte(ctr >> 16), byte(ctr >> 8), byte(ctr)})
		out = x.Sum(out)
	}
	return out[:n]
}

// PSSAlgID builds the id-RSASSA-PSS AlgorithmIdentifier with RSASSA-PSS-params.
func PSSAlgID(h Hash, saltLen int, omitDefaults bool) *Node {
	var fields []*Node
	if !(omitDefaults && h == SHA1) {
		fields = append(fields, Explicit(0, h.AlgID(true)))
		fields = append(fields, Explicit(1, Seq(OID(oidMGF1), h.AlgID(true))))
	}
	if !(omitDefaults && saltLen == 20) {
		fields = append(fields, Explicit(2, Int64(int64(saltLen))))
	}
	return Seq(OID(oidRSAPSS), Seq(fields...))
}

func ecdsaWithOID(h Hash) asn1.ObjectIdentifier {
	switch h {
	case SHA1:
		return asn1.ObjectIdentifier{1, 2, 840, 10045, 4, 1}
	case SHA224:
		return asn1.ObjectIdentifier{1, 2, 840, 10045, 4, 3, 1}
	case SHA256:
		return asn1.ObjectIdentifier{1, 2, 840, 10045, 4, 3, 2}
	case SHA384:
		return asn1.ObjectIdentifier{1, 2, 840, 10045, 4, 3, 3}
	case SHA512:
		return asn1.ObjectIdentifier{1, 2, 840, 10045, 4, 3, 4}
	}
	panic("hash")
}

func rsaWithOID(h Hash) asn1.ObjectIdentifier {
	switch h {
	case SHA1:
		return asn1.ObjectIdentifier{1, 2, 840, 113549, 1, 1, 5}
	case SHA224:
		return asn1.ObjectIdentifier{1, 2, 840, 113549, 1, 1, 14}
	case SHA256:
		return asn1.ObjectIdentifier{1, 2, 840, 113549, 1, 1, 11}
	case SHA384:
		return asn1.ObjectIdentifier{1, 2, 840, 113549, 1, 1, 12}
	case SHA512:
		return asn1.ObjectIdentifier{1, 2, 840, 113549, 1, 1, 13}
	}
	panic("hash")
}
