package refpki

import (
	"fmt"
	"math/big"
	"sync"
	"time"
)

// Fixed calendar of the reference PKI (no wall clock anywhere).
var (
	CSCANotBefore = time.Date(2015, 1, 1, 0, 0, 0, 0, time.UTC)
	CSCANotAfter  = time.Date(2035, 1, 1, 0, 0, 0, 0, time.UTC)
	DSNotBefore   = time.Date(2020, 1, 1, 0, 0, 0, 0, time.UTC)
	DSNotAfter    = time.Date(2025, 1, 1, 0, 0, 0, 0, time.UTC)
	SigningTime   = time.Date(2022, 6, 15, 12, 0, 0, 0, time.UTC) // default signing time, inside both windows
)

// Profile selects the algorithms of an issuing state.
type Profile struct {
	Country         string  // alpha-2 used in certificate names, e.g. "NL"
	State           string  // three-letter issuing state of the MRZ, e.g. "NLD"
	CSCA            KeySpec // country signing CA key (PSS flag: the CSCA signs DS certificates with RSASSA-PSS)
	DS              KeySpec // document signer key (PSS flag: the DS signs security objects with RSASSA-PSS)
	Hash            Hash    // digest for the certificate signature, the LDS hash list, the SignerInfo
	PSSOmitDefaults bool    // RSASSA-PSS-params in strict DER (defaults omitted) instead of the fully explicit form
	PSSSaltLen      int     // 0 = hash length
	CSCATwoOUs      bool    // the CSCA's name carries TWO organizationalUnitName attributes (a repeated attribute type)
	CSCANonASCII    bool    // the CSCA's organizationName contains characters outside ASCII (Latin-1 range), as UTF8String
}

func (p Profile) String() string {
	return fmt.Sprintf("%s/csca=%s/ds=%s/%s", p.Country, p.CSCA, p.DS, p.Hash)
}

// DefaultProfile is RSA-2048 PKCS#1 v1.5 / SHA-256 for the Netherlands.
func DefaultProfile() Profile {
	return Profile{Country: "NL", State: "NLD", CSCA: RSA(2048, false, 0), DS: RSA(2048, false, 1), Hash: SHA256}
}

// Issuer is a CSCA with one document signer.
type Issuer struct {
	Profile  Profile
	CSCAKey  *Key
	DSKey    *Key
	CSCAName Name
	DSName   Name
	CSCACert *Cert
	DSCert   *Cert
}

var (
	issuerMu    sync.Mutex
	issuerCache = map[string]*Issuer{}
)

// NewIssuer creates (and memoises per profile) the CSCA certificate (self-signed, CA, pathLen 0, keyCertSign+cRLSign)
// and a DS certificate (digitalSignature, AKI = CSCA SKI) for the profile. Keys come from LoadKey.
func NewIssuer(p Profile) *Issuer {
	id := fmt.Sprintf("%s|%v|%d|%v", p.String(), p.PSSOmitDefaults, p.PSSSaltLen, p.CSCATwoOUs) + fmt.Sprint(p.CSCANonASCII)
	issuerMu.Lock()
	defer issuerMu.Unlock()
	if is := issuerCache[id]; is != nil {
		return is
	}
	is := &Issuer{Profile: p, CSCAKey: LoadKey(p.CSCA), DSKey: LoadKey(p.DS)}
	is.CSCAName = NewName(p.Country, "Reference State", "Passport Authority", "CSCA "+p.Country)
	if p.CSCANonASCII {
		is.CSCAName[1].Value = "R\u00e9f\u00e9rence St\u00e4te"
	}
	if p.CSCATwoOUs {
		is.CSCAName = Name{is.CSCAName[0], is.CSCAName[1], is.CSCAName[2], Attr{OIDOrgUnit, "Identity Documents Division", 0x0C}, is.CSCAName[3]}
	}
	is.DSName = NewName(p.Country, "Reference State", "Document Signer", "DS 01")
	is.CSCACert = IssueCert(CertSpec{
		Serial: big.NewInt(1), Issuer: is.CSCAName, Subject: is.CSCAName,
		NotBefore: CSCANotBefore, NotAfter: CSCANotAfter, Key: is.CSCAKey,
		AKI: is.CSCAKey.KeyID(), BasicConstraints: BCCA, PathLen: 0, KeyUsage: KUKeyCertSign | KUCRLSign,
	}, is.CSCAKey, is.CertSignOpts())
	is.DSCert = is.IssueDS(CertSpec{Serial: big.NewInt(0x1001), Subject: is.DSName, Key: is.DSKey})
	issuerCache[id] = is
	return is
}

// CertSignOpts are the options the CSCA signs certificates with.
func (is *Issuer) CertSignOpts() SignOpts {
	return SignOpts{Hash: is.Profile.Hash, PSSOmitDefaults: is.Profile.PSSOmitDefaults, PSSSaltLen: is.Profile.PSSSaltLen}
}

// SODSignOpts are the options the DS signs security objects with.
func (is *Issuer) SODSignOpts() SignOpts {
	return SignOpts{Hash: is.Profile.Hash, PSSOmitDefaults: is.Profile.PSSOmitDefaults, PSSSaltLen: is.Profile.PSSSaltLen, RSAEncryptionOID: false}
}

// IssueDS issues a certificate under this CSCA. Unset fields default to: issuer = CSCA name, validity = DS window,
// AKI = CSCA SKI, keyUsage = digitalSignature, no basicConstraints.
func (is *Issuer) IssueDS(spec CertSpec) *Cert {
	if spec.Issuer == nil {
		spec.Issuer = is.CSCAName
	}
	if spec.NotBefore.IsZero() {
		spec.NotBefore, spec.NotAfter = DSNotBefore, DSNotAfter
	}
	if spec.AKI == nil {
		spec.AKI = is.CSCACert.SKI
	}
	if spec.KeyUsage == 0 {
		spec.KeyUsage = KUDigitalSignature
	}
	return IssueCert(spec, is.CSCAKey, is.CertSignOpts())
}

// TrustStoreDER returns the DER CSCA certificate(s) that make up the trust store for this issuer.
func (is *Issuer) TrustStoreDER() [][]byte { return [][]byte{is.CSCACert.DER} }

// SODOpts tunes a genuine EF.SOD.
type SODOpts struct {
	LDSVersion             int  // 0 or 1
	SIDForm                int  // SIDIssuerSerial or SIDSubjectKeyID
	SIDIssuer              Name // override of the issuer name written in the SID (nil: the certificate's issuer)
	NoSigningTime          bool
	SigningTime            time.Time // zero: the package SigningTime
	SigningTimeGeneralized bool
	Encoding               Encoding
	ExtraCerts             []*Cert // additional embedded certificates (after the DS certificate)
	ExtraCertsFirst        bool    // put the additional certificates BEFORE the DS certificate (certificates is a SET)
	HashOrder              []int   // order of the data group hashes in the LDS security object (nil: ascending)
	DigestNull             bool    // NULL parameters in digest AlgorithmIdentifiers
	RSAEncryptionOID       bool    // SignerInfo.signatureAlgorithm = rsaEncryption (PKCS#1 v1.5 DS keys only)
	DSCert                 *Cert   // another certificate for the same DS key (default: the issuer's DSCert)
}

// NewSOD returns the genuine, signed SignedData of an EF.SOD over the data group files (map number -> file bytes).
// Callers that want to tamper modify the returned parts and call Encode.
func (is *Issuer) NewSOD(dgs map[int][]byte, o SODOpts) *SignedData {
	cert := o.DSCert
	if cert == nil {
		cert = is.DSCert
	}
	sd := &SignedData{
		EContentType:           OIDLDSSecurityObject,
		EContent:               LDSSecurityObjectOrdered(o.LDSVersion, is.Profile.Hash, HashDGs(is.Profile.Hash, dgs), o.HashOrder),
		DigestAlg:              is.Profile.Hash,
		DigestNull:             o.DigestNull,
		Certs:                  append([]*Cert{cert}, o.ExtraCerts...),
		SIDForm:                o.SIDForm,
		SIDIssuer:              o.SIDIssuer,
		SigningTimeGeneralized: o.SigningTimeGeneralized,
	}
	if !o.NoSigningTime {
		t := o.SigningTime
		if t.IsZero() {
			t = SigningTime
		}
		sd.SigningTime = &t
	}
	so := is.SODSignOpts()
	so.RSAEncryptionOID = o.RSAEncryptionOID
	sd.Sign(is.DSKey, so)
	if o.ExtraCertsFirst && len(o.ExtraCerts) > 0 {
		// the signer identifier defaults are taken from Certs[0]: pin them to the DS certificate, then reorder
		if sd.SIDIssuer == nil {
			sd.SIDIssuer = cert.Spec.Issuer
		}
		sd.SIDSerial = Int(cert.Spec.Serial)
		sd.SIDKeyID = cert.SKI
		sd.Certs = append(append([]*Cert{}, o.ExtraCerts...), cert)
	}
	return sd
}

// IssueSOD builds EF.SOD (tag 77) for the data group files and returns it with its byte-range map.
func (is *Issuer) IssueSOD(dgs map[int][]byte, o SODOpts) ([]byte, RangeMap) {
	return is.NewSOD(dgs, o).Encode(o.Encoding, 0x77)
}

// NewCardSecurity returns the genuine SignedData of EF.CardSecurity over the SecurityInfos (DER SET OF).
func (is *Issuer) NewCardSecurity(securityInfos []byte) *SignedData {
	t := SigningTime
	sd := &SignedData{EContentType: OIDCardSecurityObj, EContent: securityInfos, DigestAlg: is.Profile.Hash,
		Certs: []*Cert{is.DSCert}, SigningTime: &t}
	sd.Sign(is.DSKey, is.SODSignOpts())
	return sd
}

// IssueCardSecurity builds EF.CardSecurity (a bare ContentInfo, DER).
func (is *Issuer) IssueCardSecurity(securityInfos []byte) ([]byte, RangeMap) {
	return is.NewCardSecurity(securityInfos).Encode(EncDER, 0)
}

// MasterListSigner issues (memoised) the master list signer certificate of this CSCA for the given key.
func (is *Issuer) MasterListSigner(k *Key) *Cert {
	return is.IssueDS(CertSpec{Serial: big.NewInt(0x2001), Subject: NewName(is.Profile.Country, "Reference State", "Master List Signer", "MLS 01"), Key: k,
		Extra: []Ext{EKUMasterListSigner()}})
}

// NewMasterList returns the SignedData of a CSCA master list containing certs, signed by signerKey whose
// certificate signerCert is embedded.
func (is *Issuer) NewMasterList(certs []*Cert, signerKey *Key, signerCert *Cert) *SignedData {
	t := SigningTime
	sd := &SignedData{EContentType: OIDCscaMasterList, EContent: MasterListContent(certs), DigestAlg: is.Profile.Hash,
		Certs: []*Cert{signerCert}, SigningTime: &t}
	o := is.SODSignOpts()
	o.PSSOmitDefaults = false
	sd.Sign(signerKey, o)
	return sd
}

// IssueMasterList builds a CSCA master list (bare ContentInfo, DER) signed by a master list signer of this CSCA
// that uses the DS key spec with index+100 (EC) or the DS key itself (RSA, to save cached keys).
func (is *Issuer) IssueMasterList(certs []*Cert) ([]byte, RangeMap) {
	k := is.DSKey
	return is.NewMasterList(certs, k, is.MasterListSigner(k)).Encode(EncDER, 0)
}

// EKUMasterListSigner is the critical extendedKeyUsage { id-icao-mrtd-security-masterListSigner } extension that
// Doc 9303-12 prescribes for master list signer certificates.
func EKUMasterListSigner() Ext {
	return Ext{OID: []int{2, 5, 29, 37}, Critical: true, Value: DER(Seq(OID([]int{2, 23, 136, 1, 1, 3})))}
}
