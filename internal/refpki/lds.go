package refpki

import (
	"encoding/asn1"
	"strings"
)

// Countries maps the ICAO three-letter issuing state of the MRZ to the ISO 3166 alpha-2 code used in
// certificate names (only the handful used by the checks).
var Countries = map[string]string{"NLD": "NL", "FRA": "FR", "SWE": "SE", "ESP": "ES", "ITA": "IT"}

// CheckDigit is the ICAO 9303-3 check digit (weights 7,3,1; 0-9, A-Z = 10..35, '<' = 0).
func CheckDigit(s string) byte {
	w := []int{7, 3, 1}
	sum := 0
	for i := 0; i < len(s); i++ {
		c := s[i]
		v := 0
		switch {
		case c >= '0' && c <= '9':
			v = int(c - '0')
		case c >= 'A' && c <= 'Z':
			v = int(c-'A') + 10
		case c == '<':
			v = 0
		default:
			panic("refpki: bad MRZ character")
		}
		sum += v * w[i%3]
	}
	return byte('0' + sum%10)
}

func pad(s string, n int) string {
	s = strings.ReplaceAll(s, " ", "<")
	if len(s) > n {
		return s[:n]
	}
	return s + strings.Repeat("<", n-len(s))
}

// MRZTD3 builds the 88-character TD3 machine readable zone with valid check digits.
// state and nationality are three-letter codes; dob/doe are YYMMDD; name is "SURNAME<<GIVEN<NAMES".
func MRZTD3(state, name, docNumber, nationality, dob, sex, doe, optional string) string {
	l1 := "P<" + pad(state, 3) + pad(name, 39)
	dn := pad(docNumber, 9)
	opt := pad(optional, 14)
	b := pad(dob, 6)
	e := pad(doe, 6)
	optCD := string(CheckDigit(opt))
	if strings.Trim(opt, "<") == "" {
		optCD = "<"
	}
	l2 := dn + string(CheckDigit(dn)) + pad(nationality, 3) + b + string(CheckDigit(b)) + pad(sex, 1) + e + string(CheckDigit(e)) + opt + optCD
	comp := l2[0:10] + l2[13:20] + l2[21:43]
	l2 += string(CheckDigit(comp))
	return l1 + l2
}

func tlvBytes(tag []byte, val []byte) []byte {
	out := append([]byte{}, tag...)
	out = append(out, lenOctets(len(val))...)
	return append(out, val...)
}

// BuildDG1TD3 builds EF.DG1 (61 { 5F1F mrz }) for a TD3 document of the given issuing state (three-letter code).
func BuildDG1TD3(state, docNumber, dob, doe string) []byte {
	return BuildDG1(MRZTD3(state, "SPECIMEN<<ANNA<MARIA", docNumber, state, dob, "F", doe, ""))
}

// BuildDG1 wraps any MRZ string.
func BuildDG1(mrz string) []byte {
	return tlvBytes([]byte{0x61}, tlvBytes([]byte{0x5F, 0x1F}, []byte(mrz)))
}

// BuildDG13 builds an opaque EF.DG13 (6D { content }).
func BuildDG13(content []byte) []byte { return tlvBytes([]byte{0x6D}, content) }

// BuildDG15 builds EF.DG15 (6F { SubjectPublicKeyInfo }) for an active-authentication key.
func BuildDG15(k *Key) []byte { return tlvBytes([]byte{0x6F}, k.SPKI()) }

// BuildDG11 builds a minimal EF.DG11 with the full name only (6B { 5C taglist, 5F0E name }).
func BuildDG11(fullName string) []byte {
	body := append(tlvBytes([]byte{0x5C}, []byte{0x5F, 0x0E}), tlvBytes([]byte{0x5F, 0x0E}, []byte(fullName))...)
	return tlvBytes([]byte{0x6B}, body)
}

// BuildCOM builds EF.COM (60 { 5F01 LDS version, 5F36 unicode version, 5C tag list }) for the given data groups.
func BuildCOM(dgs []int) []byte {
	tags := map[int]byte{1: 0x61, 2: 0x75, 3: 0x63, 4: 0x76, 5: 0x65, 6: 0x66, 7: 0x67, 8: 0x68, 9: 0x69, 10: 0x6A, 11: 0x6B, 12: 0x6C, 13: 0x6D, 14: 0x6E, 15: 0x6F, 16: 0x70}
	var tl []byte
	for _, d := range dgs {
		tl = append(tl, tags[d])
	}
	body := tlvBytes([]byte{0x5F, 0x01}, []byte("0107"))
	body = append(body, tlvBytes([]byte{0x5F, 0x36}, []byte("040000"))...)
	body = append(body, tlvBytes([]byte{0x5C}, tl)...)
	return tlvBytes([]byte{0x60}, body)
}

var (
	oidCAECDH3DES       = asn1.ObjectIdentifier{0, 4, 0, 127, 0, 7, 2, 2, 3, 2, 1}
	oidPKECDH           = asn1.ObjectIdentifier{0, 4, 0, 127, 0, 7, 2, 2, 1, 2}
	oidPACEECDHGMAES128 = asn1.ObjectIdentifier{0, 4, 0, 127, 0, 7, 2, 2, 4, 2, 2}
	oidAAProtocol       = asn1.ObjectIdentifier{2, 23, 136, 1, 1, 5}
)

// SecurityInfos builds SET OF SecurityInfo with: PACEInfo (ECDH-GM-AES-CBC-CMAC-128, version 2, parameter 13),
// optionally ChipAuthenticationInfo + ChipAuthenticationPublicKeyInfo for caKey (an EC key), and optionally
// ActiveAuthenticationInfo (ecdsa-plain-SHA256) when aa is true.
func SecurityInfos(caKey *Key, aa bool) []byte {
	infos := []*Node{Seq(OID(oidPACEECDHGMAES128), Int64(2), Int64(13))}
	if caKey != nil {
		infos = append(infos, Seq(OID(oidCAECDH3DES), Int64(1)))
		infos = append(infos, Seq(OID(oidPKECDH), caKey.SPKINode()))
	}
	if aa {
		infos = append(infos, Seq(OID(oidAAProtocol), Int64(1), OID(asn1.ObjectIdentifier{0, 4, 0, 127, 0, 7, 1, 1, 4, 1, 3})))
	}
	// SET OF: sort by encoding
	for i := 0; i < len(infos); i++ {
		for j := i + 1; j < len(infos); j++ {
			if string(DER(infos[j])) < string(DER(infos[i])) {
				infos[i], infos[j] = infos[j], infos[i]
			}
		}
	}
	return DER(Set(infos...))
}

// BuildDG14 builds EF.DG14 (6E { SecurityInfos }).
func BuildDG14(caKey *Key, aa bool) []byte { return tlvBytes([]byte{0x6E}, SecurityInfos(caKey, aa)) }
