package refpki

import (
	"encoding/asn1"
	"math/big"
	"time"
)

// Attr is one AttributeTypeAndValue of a distinguished name; each Attr goes into its own RDN.
type Attr struct {
	OID   asn1.ObjectIdentifier
	Value string
	Tag   byte // string type: 0x13 PrintableString (default when 0), 0x0C UTF8String, ...
}

// Name is an RDNSequence in encoding order (most significant first, as in certificates).
type Name []Attr

var (
	OIDCountry      = asn1.ObjectIdentifier{2, 5, 4, 6}
	OIDOrganization = asn1.ObjectIdentifier{2, 5, 4, 10}
	OIDOrgUnit      = asn1.ObjectIdentifier{2, 5, 4, 11}
	OIDCommonName   = asn1.ObjectIdentifier{2, 5, 4, 3}
	OIDSerialNumber = asn1.ObjectIdentifier{2, 5, 4, 5}
)

// NewName builds C=<country>, O=<org>, OU=<ou>, CN=<cn> (empty parts omitted). Country is PrintableString,
// the others UTF8String (as most CSCAs do).
func NewName(country, org, ou, cn string) Name {
	n := Name{{OID: OIDCountry, Value: country, Tag: 0x13}}
	if org != "" {
		n = append(n, Attr{OIDOrganization, org, 0x0C})
	}
	if ou != "" {
		n = append(n, Attr{OIDOrgUnit, ou, 0x0C})
	}
	if cn != "" {
		n = append(n, Attr{OIDCommonName, cn, 0x0C})
	}
	return n
}

func (n Name) Node() *Node {
	var rdns []*Node
	for _, a := range n {
		tag := a.Tag
		if tag == 0 {
			tag = 0x13
		}
		rdns = append(rdns, Set(Seq(OID(a.OID), Prim(tag, encodeDirectoryString(tag, a.Value)))))
	}
	return Seq(rdns...)
}

// Country returns the value of the countryName attribute ("" if none).
func (n Name) Country() string {
	for _, a := range n {
		if a.OID.Equal(OIDCountry) {
			return a.Value
		}
	}
	return ""
}

// Reversed returns the same attributes in the opposite order (a different encoding of "the same" issuer as
// seen in the field between SignerIdentifier and certificate).
func (n Name) Reversed() Name {
	out := make(Name, len(n))
	for i, a := range n {
		out[len(n)-1-i] = a
	}
	return out
}

// WithStringTag re-tags every attribute except countryName (which must stay PrintableString).
func (n Name) WithStringTag(tag byte) Name {
	out := append(Name{}, n...)
	for i := range out {
		if !out[i].OID.Equal(OIDCountry) {
			out[i].Tag = tag
		}
	}
	return out
}

// Key usage bits (RFC 5280 §4.2.1.3), to be OR-ed into CertSpec.KeyUsage.
const (
	KUDigitalSignature = 1 << 0
	KUNonRepudiation   = 1 << 1
	KUKeyEncipherment  = 1 << 2
	KUKeyCertSign      = 1 << 5
	KUCRLSign          = 1 << 6
	KUAbsent           = -1 // no keyUsage extension
)

// Basic constraints choices for CertSpec.BasicConstraints.
const (
	BCAbsent = iota
	BCCA     // cA TRUE (critical)
	BCNotCA  // extension present, cA FALSE (empty SEQUENCE)
)

// Ext is an additional extension.
type Ext struct {
	OID      asn1.ObjectIdentifier
	Critical bool
	Value    []byte // DER of the extension value (goes inside the OCTET STRING)
}

// CertSpec describes a certificate to be issued. Zero values give: v3, UTCTime validity, SKI = SHA-1 of the key.
type CertSpec struct {
	Serial           *big.Int
	Issuer, Subject  Name
	NotBefore        time.Time
	NotAfter         time.Time
	GeneralizedTime  bool   // encode validity as GeneralizedTime
	Key              *Key   // subject key (its Spec.Explicit selects named/explicit EC parameters)
	SKI              []byte // nil: SHA-1(subjectPublicKey)
	OmitSKI          bool
	AKI              []byte // nil: no authorityKeyIdentifier extension
	BasicConstraints int
	PathLen          int // used when BasicConstraints == BCCA and PathLen >= 0; set -1 for none
	KeyUsage         int // bit mask, or KUAbsent
	Extra            []Ext
}

// Cert is an issued certificate.
type Cert struct {
	DER      []byte
	Spec     CertSpec
	TBS      Range // TBSCertificate TLV inside DER
	SigValue Range // signature octets inside DER (BIT STRING content without the unused-bits octet)
	SKI      []byte
	tbsDER   []byte
	sigAlg   []byte
	sig      []byte
}

func keyUsageBits(mask int) []byte {
	if mask == 0 {
		return []byte{0}
	}
	nbytes := 1
	if mask >= 1<<8 {
		nbytes = 2
	}
	b := make([]byte, nbytes)
	for i := 0; i < 9; i++ {
		if mask&(1<<i) != 0 {
			b[i/8] |= 0x80 >> uint(i%8)
		}
	}
	for len(b) > 1 && b[len(b)-1] == 0 {
		b = b[:len(b)-1]
	}
	unused := 0
	for last := b[len(b)-1]; last&1 == 0; last >>= 1 {
		unused++
	}
	return append([]byte{byte(unused)}, b...)
}

var (
	oidExtSKI = asn1.ObjectIdentifier{2, 5, 29, 14}
	oidExtKU  = asn1.ObjectIdentifier{2, 5, 29, 15}
	oidExtBC  = asn1.ObjectIdentifier{2, 5, 29, 19}
	oidExtAKI = asn1.ObjectIdentifier{2, 5, 29, 35}
)

func extNode(oid asn1.ObjectIdentifier, critical bool, value []byte) *Node {
	if critical {
		return Seq(OID(oid), Bool(true), Octets(value))
	}
	return Seq(OID(oid), Octets(value))
}

// IssueCert builds the TBSCertificate from the spec by hand, signs it with signer and returns the certificate.
func IssueCert(spec CertSpec, signer *Key, o SignOpts) *Cert {
	if spec.Serial == nil {
		spec.Serial = big.NewInt(1)
	}
	ski := spec.SKI
	if ski == nil {
		ski = spec.Key.KeyID()
	}
	var exts []*Node
	if spec.AKI != nil {
		exts = append(exts, extNode(oidExtAKI, false, DER(Seq(Prim(0x80, spec.AKI)))))
	}
	if !spec.OmitSKI {
		exts = append(exts, extNode(oidExtSKI, false, DER(Octets(ski))))
	}
	if spec.KeyUsage != KUAbsent {
		exts = append(exts, extNode(oidExtKU, true, DER(Prim(0x03, keyUsageBits(spec.KeyUsage)))))
	}
	switch spec.BasicConstraints {
	case BCCA:
		if spec.PathLen >= 0 {
			exts = append(exts, extNode(oidExtBC, true, DER(Seq(Bool(true), Int64(int64(spec.PathLen))))))
		} else {
			exts = append(exts, extNode(oidExtBC, true, DER(Seq(Bool(true)))))
		}
	case BCNotCA:
		exts = append(exts, extNode(oidExtBC, true, DER(Seq())))
	}
	for _, e := range spec.Extra {
		exts = append(exts, extNode(e.OID, e.Critical, e.Value))
	}
	// the signature algorithm identifier is needed inside the TBS before signing
	_, alg := (&Key{Spec: signer.Spec}).algOnly(o)
	tbsKids := []*Node{
		Explicit(0, Int64(2)),
		Int(spec.Serial),
		alg,
		spec.Issuer.Node(),
		Seq(Time(spec.NotBefore, spec.GeneralizedTime), Time(spec.NotAfter, spec.GeneralizedTime)),
		spec.Subject.Node(),
		spec.Key.SPKINode(),
	}
	if len(exts) > 0 {
		tbsKids = append(tbsKids, Explicit(3, Seq(exts...)))
	}
	tbsDER := DER(Seq(tbsKids...))
	sig, alg2 := signer.Sign(tbsDER, o)
	c := &Cert{Spec: spec, SKI: ski, tbsDER: tbsDER, sigAlg: DER(alg2), sig: sig}
	if spec.OmitSKI {
		c.SKI = nil
	}
	der, rm := Encode(c.Node("c"), EncDER)
	c.DER = der
	c.TBS = rm["c.tbs"]
	c.SigValue = rm["c.sigValue"]
	return c
}

// algOnly returns the AlgorithmIdentifier Sign would produce, without signing.
func (k *Key) algOnly(o SignOpts) ([]byte, *Node) {
	switch {
	case k.Spec.Alg == "ec":
		return nil, Seq(OID(ecdsaWithOID(o.Hash)))
	case k.Spec.PSS:
		salt := o.PSSSaltLen
		if salt == 0 {
			salt = o.Hash.Size()
		}
		return nil, PSSAlgID(o.Hash, salt, o.PSSOmitDefaults)
	case o.RSAEncryptionOID:
		return nil, Seq(OID(oidRSAEncryption), Null())
	}
	return nil, Seq(OID(rsaWithOID(o.Hash)), Null())
}

// Node returns a fresh labelled tree of the certificate: <prefix> (whole), <prefix>.tbs, <prefix>.sigAlg,
// <prefix>.sigValue (signature octets without the unused-bits octet).
func (c *Cert) Node(prefix string) *Node {
	tbs, err := ParseTree(c.tbsDER)
	if err != nil {
		panic(err)
	}
	alg, err := ParseTree(c.sigAlg)
	if err != nil {
		panic(err)
	}
	bs := BitString(c.sig)
	bs.Sub = map[string]Range{prefix + ".sigValue": {1, len(c.sig)}}
	n := Seq(tbs.L(prefix+".tbs"), alg.L(prefix+".sigAlg"), bs).L(prefix)
	n.cert = true
	return n
}

// WithSignature returns a copy of the certificate whose signature octets are replaced (for tamper tests).
func (c *Cert) WithSignature(sig []byte) *Cert {
	d := *c
	d.sig = append([]byte{}, sig...)
	der, rm := Encode(d.Node("c"), EncDER)
	d.DER, d.TBS, d.SigValue = der, rm["c.tbs"], rm["c.sigValue"]
	return &d
}

// encodeDirectoryString writes the (Go, i.e. UTF-8) value in the character encoding of the ASN.1 string type:
// TeletexString (20) as ISO 8859-1, BMPString (30) as UTF-16BE, UniversalString (28) as UCS-4, the others as is.
func encodeDirectoryString(tag byte, v string) []byte {
	switch tag {
	case 0x14:
		var out []byte
		for _, r := range v {
			if r > 0xFF {
				r = '?'
			}
			out = append(out, byte(r))
		}
		return out
	case 0x1E:
		var out []byte
		for _, r := range v {
			out = append(out, byte(r>>8), byte(r))
		}
		return out
	case 0x1C:
		var out []byte
		for _, r := range v {
			out = append(out, byte(r>>24), byte(r>>16), byte(r>>8), byte(r))
		}
		return out
	}
	return []byte(v)
}
