// Package refpki is the independent issuer used by the passive-authentication checks: it generates
// CSCA / document-signer keys and certificates, EF.SOD, EF.CardSecurity and CSCA master lists, and a
// few LDS data groups, for every algorithm profile of ICAO 9303 part 12.
//
// It imports NO gmrtd package. Everything is built from parts with a tiny DER writer (der.go) so that
// brainpool / explicit-parameter EC keys, arbitrary extension sets and indefinite-length re-encodings
// are possible, and every builder returns a RangeMap: the byte offsets of the parts inside the produced
// file, so that mutation sweeps know by construction which bytes are covered by a signature or digest.
//
// Determinism: no time, no randomness. RSA keys are produced by a seeded math/big prime search and
// cached under /verif/cache/refpki (EnsureKeys); EC keys are derived from a label; ECDSA nonces are
// derived from key and message; PSS salts come from a hash-counter stream.
package refpki

import (
	"encoding/asn1"
	"fmt"
	"math/big"
	"sort"
	"time"
)

// Range is a byte range [Off, Off+Len) inside a produced file.
type Range struct{ Off, Len int }

func (r Range) End() int { return r.Off + r.Len }

// RangeMap maps part names to byte ranges of the produced file. Names used by the CMS builders:
//
//	file                 the whole file
//	contentInfo          ContentInfo TLV (inside the 77 wrapper for EF.SOD)
//	digestAlgorithms     SignedData.digestAlgorithms TLV            (unsigned)
//	eContentType         encapContentInfo.eContentType TLV          (bound through the contentType attribute only)
//	eContent             VALUE octets of the eContent OCTET STRING   (authenticated: messageDigest)
//	certificates         [0] certificates TLV
//	cert<i>              i-th embedded certificate TLV (cert0 = signer certificate)
//	cert<i>.tbs          its TBSCertificate TLV                      (authenticated: issuer signature)
//	cert<i>.sigAlg       its outer signatureAlgorithm TLV            (unsigned copy)
//	cert<i>.sigValue     the signature octets inside the BIT STRING, without the unused-bits octet (authenticated)
//	signerInfo           SignerInfo TLV
//	sid                  SignerIdentifier TLV                        (unsigned)
//	si.digestAlgorithm   SignerInfo.digestAlgorithm TLV              (unsigned)
//	signedAttrs          [0] signedAttrs TLV; signedAttrs.v = its content octets
//	attr.contentType, attr.messageDigest, attr.signingTime   each Attribute TLV (authenticated: signature)
//	si.signatureAlgorithm SignerInfo.signatureAlgorithm TLV          (unsigned)
//	signature            VALUE octets of SignerInfo.signature        (authenticated)
type RangeMap map[string]Range

// Names returns the names in offset order.
func (m RangeMap) Names() []string {
	var ns []string
	for k := range m {
		ns = append(ns, k)
	}
	sort.Slice(ns, func(i, j int) bool {
		a, b := m[ns[i]], m[ns[j]]
		if a.Off != b.Off {
			return a.Off < b.Off
		}
		if a.Len != b.Len {
			return a.Len > b.Len
		}
		return ns[i] < ns[j]
	})
	return ns
}

// AuthenticatedNames lists the ranges of a CMS file whose every byte is covered by a digest or a signature
// (the regions a mutation sweep may demand rejection for).
func (m RangeMap) AuthenticatedNames() []string {
	var out []string
	for _, n := range m.Names() {
		switch n {
		case "eContent", "attr.contentType", "attr.messageDigest", "attr.signingTime", "signature", "cert0.tbs", "cert0.sigValue":
			out = append(out, n)
		}
	}
	return out
}

// Encoding selects definite or indefinite length forms.
type Encoding int

const (
	EncDER        Encoding = iota // definite, minimal (DER)
	EncIndefOuter                 // indefinite length on ContentInfo, [0], SignedData, encapContentInfo and its [0] only (what streaming encoders emit)
	EncIndefAll                   // indefinite length on every constructed value of the SignedData except inside embedded certificates
	EncIndefDeep                  // indefinite length on every constructed value including inside the certificates
)

func (e Encoding) String() string {
	return [...]string{"der", "indef-outer", "indef-all", "indef-deep"}[e]
}

// Node is one TLV under construction. All identifiers used here fit one octet.
type Node struct {
	Tag   byte
	Prim  []byte           // content octets (primitive)
	Kids  []*Node          // children (constructed: Tag&0x20 != 0)
	Label string           // if set: Label -> whole TLV, Label+".v" -> content octets
	Sub   map[string]Range // extra ranges relative to the START OF THE CONTENT octets (primitive nodes only)
	outer bool             // member of the "outer" structure (EncIndefOuter)
	cert  bool             // root of an embedded certificate (EncIndefAll stops here)
	def   bool             // always definite length (the EF.SOD application wrapper)
}

func (n *Node) cons() bool { return n.Tag&0x20 != 0 }

// L sets the label and returns the node.
func (n *Node) L(label string) *Node { n.Label = label; return n }

func Prim(tag byte, content []byte) *Node { return &Node{Tag: tag, Prim: content} }
func Cons(tag byte, kids ...*Node) *Node {
	var ks []*Node
	for _, k := range kids {
		if k != nil {
			ks = append(ks, k)
		}
	}
	return &Node{Tag: tag, Kids: ks}
}
func Seq(kids ...*Node) *Node { return Cons(0x30, kids...) }
func Set(kids ...*Node) *Node { return Cons(0x31, kids...) }

// Explicit wraps in a constructed context tag [n].
func Explicit(n int, kid *Node) *Node { return Cons(0xA0|byte(n), kid) }

func OID(o asn1.ObjectIdentifier) *Node {
	b, err := asn1.Marshal(o)
	if err != nil {
		panic(err)
	}
	return Prim(0x06, b[2:]) // all OIDs here are < 128 octets
}
func Null() *Node           { return Prim(0x05, nil) }
func Octets(b []byte) *Node { return Prim(0x04, b) }
func Bool(v bool) *Node {
	if v {
		return Prim(0x01, []byte{0xFF})
	}
	return Prim(0x01, []byte{0x00})
}

// BitString with zero unused bits.
func BitString(b []byte) *Node { return Prim(0x03, append([]byte{0}, b...)) }

// Int encodes a non-negative or negative big integer (two's complement, minimal).
func Int(v *big.Int) *Node { return Prim(0x02, intBytes(v)) }
func Int64(v int64) *Node  { return Int(big.NewInt(v)) }

func intBytes(v *big.Int) []byte {
	if v.Sign() == 0 {
		return []byte{0}
	}
	if v.Sign() > 0 {
		b := v.Bytes()
		if b[0]&0x80 != 0 {
			b = append([]byte{0}, b...)
		}
		return b
	}
	// negative: two's complement of minimal length
	n := (v.BitLen() + 8) / 8
	m := new(big.Int).Lsh(big.NewInt(1), uint(8*n))
	m.Add(m, v)
	b := m.Bytes()
	for len(b) < n {
		b = append([]byte{0}, b...)
	}
	if len(b) > 1 && b[0] == 0xFF && b[1]&0x80 != 0 {
		b = b[1:]
	}
	return b
}

// Str encodes a character string of the given universal tag (0x13 PrintableString, 0x0C UTF8String, ...).
func Str(tag byte, s string) *Node { return Prim(tag, []byte(s)) }

// Time encodes UTCTime (generalized=false, years 1950..2049) or GeneralizedTime.
func Time(t time.Time, generalized bool) *Node {
	t = t.UTC()
	if generalized {
		return Prim(0x18, []byte(t.Format("20060102150405Z")))
	}
	if t.Year() < 1950 || t.Year() > 2049 {
		panic("UTCTime out of range")
	}
	return Prim(0x17, []byte(t.Format("060102150405Z")))
}

func lenOctets(n int) []byte {
	switch {
	case n < 0x80:
		return []byte{byte(n)}
	case n < 0x100:
		return []byte{0x81, byte(n)}
	case n < 0x10000:
		return []byte{0x82, byte(n >> 8), byte(n)}
	default:
		return []byte{0x83, byte(n >> 16), byte(n >> 8), byte(n)}
	}
}

type encState struct {
	enc  Encoding
	out  []byte
	rm   RangeMap
	size map[*Node]int // content size
}

func (st *encState) indef(n *Node, inCert bool) bool {
	if !n.cons() || n.def {
		return false
	}
	switch st.enc {
	case EncIndefOuter:
		return n.outer
	case EncIndefAll:
		return !inCert
	case EncIndefDeep:
		return true
	}
	return false
}

// contentSize computes the content size of n (memoised) under the encoding.
func (st *encState) contentSize(n *Node, inCert bool) int {
	if !n.cons() {
		return len(n.Prim)
	}
	if v, ok := st.size[n]; ok {
		return v
	}
	inCert = inCert || n.cert
	s := 0
	for _, k := range n.Kids {
		s += st.tlvSize(k, inCert)
	}
	st.size[n] = s
	return s
}

func (st *encState) tlvSize(n *Node, inCert bool) int {
	inC := inCert || n.cert
	cs := st.contentSize(n, inCert)
	if st.indef(n, inC) {
		return 2 + cs + 2
	}
	return 1 + len(lenOctets(cs)) + cs
}

func (st *encState) write(n *Node, inCert bool) {
	inC := inCert || n.cert
	start := len(st.out)
	cs := st.contentSize(n, inCert)
	ind := st.indef(n, inC)
	st.out = append(st.out, n.Tag)
	if ind {
		st.out = append(st.out, 0x80)
	} else {
		st.out = append(st.out, lenOctets(cs)...)
	}
	vstart := len(st.out)
	if n.cons() {
		for _, k := range n.Kids {
			st.write(k, inC)
		}
	} else {
		st.out = append(st.out, n.Prim...)
	}
	vend := len(st.out)
	if ind {
		st.out = append(st.out, 0, 0)
	}
	if n.Label != "" {
		st.rm[n.Label] = Range{start, len(st.out) - start}
		st.rm[n.Label+".v"] = Range{vstart, vend - vstart}
	}
	for name, r := range n.Sub {
		st.rm[name] = Range{vstart + r.Off, r.Len}
	}
}

// Encode serialises the tree and returns the bytes and the ranges of all labelled nodes.
func Encode(n *Node, enc Encoding) ([]byte, RangeMap) {
	st := &encState{enc: enc, rm: RangeMap{}, size: map[*Node]int{}}
	st.write(n, false)
	return st.out, st.rm
}

// DER serialises with definite lengths and drops the ranges.
func DER(n *Node) []byte {
	b, _ := Encode(n, EncDER)
	return b
}

// ParseTree parses a DER encoding (single-octet identifiers, definite lengths) into a Node tree.
// It is used to re-label / re-encode certificates that were built earlier.
func ParseTree(der []byte) (*Node, error) {
	n, rest, err := parseNode(der)
	if err != nil {
		return nil, err
	}
	if len(rest) != 0 {
		return nil, fmt.Errorf("refpki: trailing bytes after element")
	}
	return n, nil
}

func parseNode(b []byte) (*Node, []byte, error) {
	if len(b) < 2 {
		return nil, nil, fmt.Errorf("refpki: truncated element")
	}
	tag := b[0]
	if tag&0x1F == 0x1F {
		return nil, nil, fmt.Errorf("refpki: multi-octet identifier")
	}
	l := int(b[1])
	off := 2
	if l >= 0x80 {
		k := l & 0x7F
		if k == 0 || k > 3 || len(b) < 2+k {
			return nil, nil, fmt.Errorf("refpki: bad length")
		}
		l = 0
		for i := 0; i < k; i++ {
			l = l<<8 | int(b[2+i])
		}
		off = 2 + k
	}
	if len(b) < off+l {
		return nil, nil, fmt.Errorf("refpki: length beyond input")
	}
	val := b[off : off+l]
	n := &Node{Tag: tag}
	if tag&0x20 != 0 {
		for len(val) > 0 {
			k, r, err := parseNode(val)
			if err != nil {
				return nil, nil, err
			}
			n.Kids = append(n.Kids, k)
			val = r
		}
	} else {
		n.Prim = append([]byte{}, val...)
	}
	return n, b[off+l:], nil
}
