package refpki

import (
	"crypto/elliptic"
	"crypto/sha512"
	"encoding/asn1"
	"fmt"
	"math/big"
	"sync"

	"github.com/osanderson/brainpool"
)

// Curve is a short-Weierstrass prime curve y^2 = x^3 + A x + B with its own (math/big, Jacobian) arithmetic.
// Only CONSTANTS are taken from crypto/elliptic and the brainpool package; no group operation of theirs is used.
type Curve struct {
	Name               string
	OID                asn1.ObjectIdentifier
	P, A, B, Gx, Gy, N *big.Int
	H                  int64
}

// CurveNames lists the 11 curves of ICAO 9303-12 in the order used by the checks.
var CurveNames = []string{"P-192", "P-224", "P-256", "P-384", "P-521",
	"brainpoolP192r1", "brainpoolP224r1", "brainpoolP256r1", "brainpoolP320r1", "brainpoolP384r1", "brainpoolP512r1"}

var (
	curveOnce sync.Once
	curves    map[string]*Curve
)

func hexInt(s string) *big.Int {
	v, ok := new(big.Int).SetString(s, 16)
	if !ok {
		panic("bad hex " + s)
	}
	return v
}

func nistCurve(name string, oid asn1.ObjectIdentifier, c elliptic.Curve) *Curve {
	p := c.Params()
	return &Curve{Name: name, OID: oid, P: p.P, A: new(big.Int).Sub(p.P, big.NewInt(3)), B: p.B, Gx: p.Gx, Gy: p.Gy, N: p.N, H: 1}
}

// bpCurve derives A and B of a brainpool r1 curve from the constants of the package: the r1 curve is
// isomorphic to the t1 curve (A' = -3, B') through x' = x z^2, y' = y z^3, so with Z = z:
// z^2 = Gx'/Gx, z^3 = Gy'/Gy, A = -3 z^-4, B = B' z^-6.
func bpCurve(name string, oid asn1.ObjectIdentifier, r, t elliptic.Curve) *Curve {
	rp, tp := r.Params(), t.Params()
	P := rp.P
	inv := func(v *big.Int) *big.Int { return new(big.Int).ModInverse(v, P) }
	mul := func(a, b *big.Int) *big.Int { return new(big.Int).Mod(new(big.Int).Mul(a, b), P) }
	z2 := mul(tp.Gx, inv(rp.Gx))
	z3 := mul(tp.Gy, inv(rp.Gy))
	z := mul(z3, inv(z2))
	if mul(z, z).Cmp(z2) != 0 {
		panic("refpki: brainpool isomorphism constants inconsistent for " + name)
	}
	zi := inv(z)
	zi2 := mul(zi, zi)
	zi4 := mul(zi2, zi2)
	zi6 := mul(zi4, zi2)
	A := mul(new(big.Int).Sub(P, big.NewInt(3)), zi4)
	B := mul(tp.B, zi6)
	return &Curve{Name: name, OID: oid, P: P, A: A, B: B, Gx: rp.Gx, Gy: rp.Gy, N: rp.N, H: 1}
}

func initCurves() {
	curves = map[string]*Curve{}
	add := func(c *Curve) { curves[c.Name] = c }
	add(&Curve{Name: "P-192", OID: asn1.ObjectIdentifier{1, 2, 840, 10045, 3, 1, 1},
		P:  hexInt("FFFFFFFFFFFFFFFFFFFFFFFFFFFFFFFEFFFFFFFFFFFFFFFF"),
		A:  hexInt("FFFFFFFFFFFFFFFFFFFFFFFFFFFFFFFEFFFFFFFFFFFFFFFC"),
		B:  hexInt("64210519E59C80E70FA7E9AB72243049FEB8DEECC146B9B1"),
		Gx: hexInt("188DA80EB03090F67CBF20EB43A18800F4FF0AFD82FF1012"),
		Gy: hexInt("07192B95FFC8DA78631011ED6B24CDD573F977A11E794811"),
		N:  hexInt("FFFFFFFFFFFFFFFFFFFFFFFF99DEF836146BC9B1B4D22831"), H: 1})
	add(nistCurve("P-224", asn1.ObjectIdentifier{1, 3, 132, 0, 33}, elliptic.P224()))
	add(nistCurve("P-256", asn1.ObjectIdentifier{1, 2, 840, 10045, 3, 1, 7}, elliptic.P256()))
	add(nistCurve("P-384", asn1.ObjectIdentifier{1, 3, 132, 0, 34}, elliptic.P384()))
	add(nistCurve("P-521", asn1.ObjectIdentifier{1, 3, 132, 0, 35}, elliptic.P521()))
	bp := asn1.ObjectIdentifier{1, 3, 36, 3, 3, 2, 8, 1, 1}
	o := func(n int) asn1.ObjectIdentifier { return append(append(asn1.ObjectIdentifier{}, bp...), n) }
	add(bpCurve("brainpoolP192r1", o(3), brainpool.P192r1(), brainpool.P192t1()))
	add(bpCurve("brainpoolP224r1", o(5), brainpool.P224r1(), brainpool.P224t1()))
	add(bpCurve("brainpoolP256r1", o(7), brainpool.P256r1(), brainpool.P256t1()))
	add(bpCurve("brainpoolP320r1", o(9), brainpool.P320r1(), brainpool.P320t1()))
	add(bpCurve("brainpoolP384r1", o(11), brainpool.P384r1(), brainpool.P384t1()))
	add(bpCurve("brainpoolP512r1", o(13), brainpool.P512r1(), brainpool.P512t1()))
	for _, c := range curves {
		if !c.OnCurve(c.Gx, c.Gy) {
			panic("refpki: generator not on curve " + c.Name)
		}
		if x, _ := c.ScalarMult(c.Gx, c.Gy, c.N); x != nil {
			panic("refpki: n*G is not the point at infinity on " + c.Name)
		}
	}
}

// CurveByName returns one of CurveNames (panics on an unknown name).
func CurveByName(name string) *Curve {
	curveOnce.Do(initCurves)
	c := curves[name]
	if c == nil {
		panic("refpki: unknown curve " + name)
	}
	return c
}

// ByteLen is the octet length of a field element.
func (c *Curve) ByteLen() int { return (c.P.BitLen() + 7) / 8 }

func (c *Curve) OnCurve(x, y *big.Int) bool {
	if x.Sign() < 0 || y.Sign() < 0 || x.Cmp(c.P) >= 0 || y.Cmp(c.P) >= 0 {
		return false
	}
	l := new(big.Int).Mul(y, y)
	r := new(big.Int).Mul(x, x)
	r.Add(r, c.A)
	r.Mul(r, x)
	r.Add(r, c.B)
	return l.Sub(l, r).Mod(l, c.P).Sign() == 0
}

type jac struct{ x, y, z *big.Int } // z == 0: infinity

func (c *Curve) mod(v *big.Int) *big.Int { return v.Mod(v, c.P) }

func (c *Curve) dbl(p jac) jac {
	if p.z.Sign() == 0 || p.y.Sign() == 0 {
		return jac{big.NewInt(1), big.NewInt(1), big.NewInt(0)}
	}
	xx := c.mod(new(big.Int).Mul(p.x, p.x))
	yy := c.mod(new(big.Int).Mul(p.y, p.y))
	yyyy := c.mod(new(big.Int).Mul(yy, yy))
	zz := c.mod(new(big.Int).Mul(p.z, p.z))
	s := new(big.Int).Add(p.x, yy)
	s.Mul(s, s).Sub(s, xx).Sub(s, yyyy).Lsh(s, 1)
	c.mod(s)
	m := new(big.Int).Mul(zz, zz)
	m.Mul(m, c.A).Add(m, new(big.Int).Mul(big.NewInt(3), xx))
	c.mod(m)
	t := new(big.Int).Mul(m, m)
	t.Sub(t, new(big.Int).Lsh(s, 1))
	c.mod(t)
	y3 := new(big.Int).Sub(s, t)
	y3.Mul(y3, m).Sub(y3, new(big.Int).Lsh(yyyy, 3))
	c.mod(y3)
	z3 := new(big.Int).Add(p.y, p.z)
	z3.Mul(z3, z3).Sub(z3, yy).Sub(z3, zz)
	c.mod(z3)
	return jac{t, y3, z3}
}

func (c *Curve) add(p, q jac) jac {
	if p.z.Sign() == 0 {
		return q
	}
	if q.z.Sign() == 0 {
		return p
	}
	z1z1 := c.mod(new(big.Int).Mul(p.z, p.z))
	z2z2 := c.mod(new(big.Int).Mul(q.z, q.z))
	u1 := c.mod(new(big.Int).Mul(p.x, z2z2))
	u2 := c.mod(new(big.Int).Mul(q.x, z1z1))
	s1 := c.mod(new(big.Int).Mul(c.mod(new(big.Int).Mul(p.y, q.z)), z2z2))
	s2 := c.mod(new(big.Int).Mul(c.mod(new(big.Int).Mul(q.y, p.z)), z1z1))
	h := c.mod(new(big.Int).Sub(u2, u1))
	r := c.mod(new(big.Int).Sub(s2, s1))
	if h.Sign() == 0 {
		if r.Sign() == 0 {
			return c.dbl(p)
		}
		return jac{big.NewInt(1), big.NewInt(1), big.NewInt(0)}
	}
	hh := c.mod(new(big.Int).Mul(h, h))
	hhh := c.mod(new(big.Int).Mul(hh, h))
	v := c.mod(new(big.Int).Mul(u1, hh))
	x3 := new(big.Int).Mul(r, r)
	x3.Sub(x3, hhh).Sub(x3, new(big.Int).Lsh(v, 1))
	c.mod(x3)
	y3 := new(big.Int).Sub(v, x3)
	y3.Mul(y3, r).Sub(y3, new(big.Int).Mul(s1, hhh))
	c.mod(y3)
	z3 := new(big.Int).Mul(p.z, q.z)
	z3.Mul(z3, h)
	c.mod(z3)
	return jac{x3, y3, z3}
}

// ScalarMult returns k*(x,y); (nil,nil) is the point at infinity.
func (c *Curve) ScalarMult(x, y, k *big.Int) (*big.Int, *big.Int) {
	base := jac{new(big.Int).Set(x), new(big.Int).Set(y), big.NewInt(1)}
	acc := jac{big.NewInt(1), big.NewInt(1), big.NewInt(0)}
	for i := k.BitLen() - 1; i >= 0; i-- {
		acc = c.dbl(acc)
		if k.Bit(i) == 1 {
			acc = c.add(acc, base)
		}
	}
	if acc.z.Sign() == 0 {
		return nil, nil
	}
	zi := new(big.Int).ModInverse(acc.z, c.P)
	zi2 := c.mod(new(big.Int).Mul(zi, zi))
	ax := c.mod(new(big.Int).Mul(acc.x, zi2))
	ay := c.mod(new(big.Int).Mul(c.mod(new(big.Int).Mul(acc.y, zi2)), zi))
	return ax, ay
}

// ECPrivateKey is a private scalar with its public point.
type ECPrivateKey struct {
	Curve *Curve
	D     *big.Int
	X, Y  *big.Int
}

// DeriveECKey derives the key pair for a label: d = 1 + (SHA-512 stream of label mod (n-1)).
func DeriveECKey(c *Curve, label string) *ECPrivateKey {
	d := streamInt("refpki-ec-key|"+c.Name+"|"+label, nil, c.N.BitLen()+64)
	d.Mod(d, new(big.Int).Sub(c.N, big.NewInt(1)))
	d.Add(d, big.NewInt(1))
	x, y := c.ScalarMult(c.Gx, c.Gy, d)
	return &ECPrivateKey{Curve: c, D: d, X: x, Y: y}
}

// streamInt expands label|data to at least bits bits with SHA-512 in counter mode.
func streamInt(label string, data []byte, bits int) *big.Int {
	var out []byte
	for ctr := 0; len(out)*8 < bits; ctr++ {
		h := sha512.New()
		fmt.Fprintf(h, "%s|%d|", label, ctr)
		h.Write(data)
		out = h.Sum(out)
	}
	return new(big.Int).SetBytes(out)
}

// Point returns the X9.62 uncompressed encoding 04 || X || Y.
func (k *ECPrivateKey) Point() []byte {
	l := k.Curve.ByteLen()
	out := make([]byte, 1+2*l)
	out[0] = 4
	k.X.FillBytes(out[1 : 1+l])
	k.Y.FillBytes(out[1+l:])
	return out
}

// hashToInt is the bits2int of SEC 1 §4.1.3: leftmost min(hashlen, ceil(log2 n)) bits of the digest.
func hashToInt(digest []byte, n *big.Int) *big.Int {
	nb := n.BitLen()
	e := new(big.Int).SetBytes(digest)
	if l := len(digest) * 8; l > nb {
		e.Rsh(e, uint(l-nb))
	}
	return e
}

// SignDigest produces a deterministic ECDSA signature (r, s) over the digest: the nonce k is derived from
// the private scalar and the digest (hash-counter stream reduced mod n-1, plus 1; retried on r = 0 or s = 0).
func (k *ECPrivateKey) SignDigest(digest []byte) (r, s *big.Int) {
	c := k.Curve
	e := hashToInt(digest, c.N)
	for try := 0; ; try++ {
		nonce := streamInt(fmt.Sprintf("refpki-ecdsa-k|%s|%d", c.Name, try), append(k.D.Bytes(), digest...), c.N.BitLen()+64)
		nonce.Mod(nonce, new(big.Int).Sub(c.N, big.NewInt(1)))
		nonce.Add(nonce, big.NewInt(1))
		x, _ := c.ScalarMult(c.Gx, c.Gy, nonce)
		r = new(big.Int).Mod(x, c.N)
		if r.Sign() == 0 {
			continue
		}
		s = new(big.Int).Mul(r, k.D)
		s.Add(s, e)
		s.Mul(s, new(big.Int).ModInverse(nonce, c.N))
		s.Mod(s, c.N)
		if s.Sign() == 0 {
			continue
		}
		return r, s
	}
}

// VerifyDigest is the textbook ECDSA verification with the package's own arithmetic (used by the self-test
// and available as an independent verifier).
func (c *Curve) VerifyDigest(x, y *big.Int, digest []byte, r, s *big.Int) bool {
	if r.Sign() <= 0 || s.Sign() <= 0 || r.Cmp(c.N) >= 0 || s.Cmp(c.N) >= 0 || !c.OnCurve(x, y) {
		return false
	}
	e := hashToInt(digest, c.N)
	w := new(big.Int).ModInverse(s, c.N)
	u1 := new(big.Int).Mul(e, w)
	u1.Mod(u1, c.N)
	u2 := new(big.Int).Mul(r, w)
	u2.Mod(u2, c.N)
	x1, y1 := c.ScalarMult(c.Gx, c.Gy, u1)
	x2, y2 := c.ScalarMult(x, y, u2)
	var sum jac
	inf := jac{big.NewInt(1), big.NewInt(1), big.NewInt(0)}
	p, q := inf, inf
	if x1 != nil {
		p = jac{x1, y1, big.NewInt(1)}
	}
	if x2 != nil {
		q = jac{x2, y2, big.NewInt(1)}
	}
	sum = c.add(p, q)
	if sum.z.Sign() == 0 {
		return false
	}
	zi := new(big.Int).ModInverse(sum.z, c.P)
	zi.Mul(zi, zi)
	vx := new(big.Int).Mul(sum.x, zi)
	vx.Mod(vx, c.P)
	vx.Mod(vx, c.N)
	return vx.Cmp(r) == 0
}

// ECDSASigDER encodes Ecdsa-Sig-Value ::= SEQUENCE { r INTEGER, s INTEGER }.
func ECDSASigDER(r, s *big.Int) []byte { return DER(Seq(Int(r), Int(s))) }

// ExplicitParams encodes ECParameters (X9.62 specifiedCurve form, version 1, prime field, with cofactor).
func (c *Curve) ExplicitParams() *Node {
	l := c.ByteLen()
	fe := func(v *big.Int) []byte { return v.FillBytes(make([]byte, l)) }
	base := append([]byte{4}, append(fe(c.Gx), fe(c.Gy)...)...)
	return Seq(
		Int64(1),
		Seq(OID(asn1.ObjectIdentifier{1, 2, 840, 10045, 1, 1}), Int(c.P)),
		Seq(Octets(fe(c.A)), Octets(fe(c.B))),
		Octets(base),
		Int(c.N),
		Int64(c.H),
	)
}

// ParseECDSASigDER parses SEQUENCE { INTEGER r, INTEGER s }.
func ParseECDSASigDER(b []byte) (r, s *big.Int, ok bool) {
	n, err := ParseTree(b)
	if err != nil || n == nil || n.Tag != 0x30 || len(n.Kids) != 2 || n.Kids[0].Tag != 0x02 || n.Kids[1].Tag != 0x02 {
		return nil, nil, false
	}
	return new(big.Int).SetBytes(n.Kids[0].Prim), new(big.Int).SetBytes(n.Kids[1].Prim), true
}
