package refpki

import (
	"bytes"
	"crypto/ecdsa"
	"crypto/elliptic"
	"crypto/rsa"
	"crypto/x509"
	"fmt"
	"math/big"
	"sync"

	"github.com/osanderson/brainpool"
)

var (
	selfOnce sync.Once
	selfErr  error
)

// SelfTest cross-checks the generator against the standard library (memoised; ~1 s):
// own ECDSA signatures verify under crypto/ecdsa (NIST curves natively, P-192 and brainpool through the generic
// curve interface) and under the package's own verifier; RSA PKCS#1 v1.5 / PSS signatures verify under crypto/rsa;
// issued certificates parse with crypto/x509 and chain where x509 supports the algorithm; produced files
// re-parse to the same tree; the ICAO 9303 specimen MRZ is reproduced; one published brainpool constant matches.
func SelfTest() error {
	selfOnce.Do(func() { selfErr = selfTest() })
	return selfErr
}

func stdCurve(name string) elliptic.Curve {
	switch name {
	case "P-192":
		c := CurveByName(name)
		return &elliptic.CurveParams{Name: "P-192", BitSize: 192, P: c.P, N: c.N, B: c.B, Gx: c.Gx, Gy: c.Gy}
	case "P-224":
		return elliptic.P224()
	case "P-256":
		return elliptic.P256()
	case "P-384":
		return elliptic.P384()
	case "P-521":
		return elliptic.P521()
	case "brainpoolP192r1":
		return brainpool.P192r1()
	case "brainpoolP224r1":
		return brainpool.P224r1()
	case "brainpoolP256r1":
		return brainpool.P256r1()
	case "brainpoolP320r1":
		return brainpool.P320r1()
	case "brainpoolP384r1":
		return brainpool.P384r1()
	case "brainpoolP512r1":
		return brainpool.P512r1()
	}
	return nil
}

func selfTest() error {
	// constants
	if got := fmt.Sprintf("%X", CurveByName("brainpoolP256r1").A); got != "7D5A0975FC2C3057EEF67530417AFFE7FB8055C126DC5C6CE94A4B44F330B5D9" {
		return fmt.Errorf("brainpoolP256r1 A derived as %s", got)
	}
	if got := fmt.Sprintf("%X", CurveByName("brainpoolP256r1").B); got != "26DC5C6CE94A4B44F330B5D9BBD77CBF958416295CF7E1CE6BCCDC18FF8C07B6" {
		return fmt.Errorf("brainpoolP256r1 B derived as %s", got)
	}
	// MRZ: ICAO 9303-4 specimen
	want := "P<UTOERIKSSON<<ANNA<MARIA<<<<<<<<<<<<<<<<<<<L898902C36UTO7408122F1204159ZE184226B<<<<<10"
	if got := MRZTD3("UTO", "ERIKSSON<<ANNA<MARIA", "L898902C3", "UTO", "740812", "F", "120415", "ZE184226B"); got != want {
		return fmt.Errorf("MRZ specimen: got %s", got)
	}
	msg := []byte("refpki self-test message")
	// ECDSA on every curve x hash
	for _, cn := range CurveNames {
		c := CurveByName(cn)
		k := DeriveECKey(c, "selftest")
		if !c.OnCurve(k.X, k.Y) {
			return fmt.Errorf("%s: derived public point not on curve", cn)
		}
		sc := stdCurve(cn)
		sx, sy := sc.ScalarBaseMult(k.D.Bytes())
		if sx.Cmp(k.X) != 0 || sy.Cmp(k.Y) != 0 {
			return fmt.Errorf("%s: public point differs from the stdlib/brainpool scalar multiplication", cn)
		}
		for _, h := range []Hash{SHA1, SHA256, SHA512} { // shorter than, equal to and longer than most orders
			d := h.Sum(msg)
			r, s := k.SignDigest(d)
			r2, s2 := k.SignDigest(d)
			if r.Cmp(r2) != 0 || s.Cmp(s2) != 0 {
				return fmt.Errorf("%s/%s: ECDSA not deterministic", cn, h)
			}
			if !c.VerifyDigest(k.X, k.Y, d, r, s) {
				return fmt.Errorf("%s/%s: own verifier rejects own signature", cn, h)
			}
			pub := &ecdsa.PublicKey{Curve: sc, X: k.X, Y: k.Y}
			if !ecdsa.VerifyASN1(pub, d, ECDSASigDER(r, s)) {
				return fmt.Errorf("%s/%s: crypto/ecdsa rejects own signature", cn, h)
			}
			bad := new(big.Int).Add(r, big.NewInt(1))
			if c.VerifyDigest(k.X, k.Y, d, bad, s) {
				return fmt.Errorf("%s/%s: own verifier accepts a wrong signature", cn, h)
			}
		}
	}
	// RSA
	for _, spec := range []KeySpec{RSA(1024, false, 0), RSA(2048, false, 0), RSA(2048, true, 1), RSA(3072, true, 0), RSA(4096, false, 0)} {
		k := LoadKey(spec)
		if k.RSA.N.BitLen() != spec.Bits {
			return fmt.Errorf("%s: modulus has %d bits", spec, k.RSA.N.BitLen())
		}
		for _, h := range Hashes {
			if spec.Bits == 1024 && spec.PSS && h == SHA512 {
				continue
			}
			sig, _ := k.Sign(msg, SignOpts{Hash: h})
			d := h.Sum(msg)
			if spec.PSS {
				if err := rsa.VerifyPSS(&k.RSA.PublicKey, h.Crypto(), d, sig, &rsa.PSSOptions{SaltLength: h.Size()}); err != nil {
					return fmt.Errorf("%s/%s: crypto/rsa rejects own PSS signature: %v", spec, h, err)
				}
			} else if err := rsa.VerifyPKCS1v15(&k.RSA.PublicKey, h.Crypto(), d, sig); err != nil {
				return fmt.Errorf("%s/%s: crypto/rsa rejects own PKCS#1 v1.5 signature: %v", spec, h, err)
			}
		}
	}
	// certificates through crypto/x509 where it supports the algorithms
	dg := map[int][]byte{1: BuildDG1TD3("NLD", "XR1234567", "800101", "300101")}
	for _, p := range []Profile{
		DefaultProfile(),
		{Country: "NL", State: "NLD", CSCA: RSA(3072, true, 0), DS: RSA(2048, true, 1), Hash: SHA256},
		{Country: "NL", State: "NLD", CSCA: EC("P-256", false, 0), DS: EC("P-384", false, 1), Hash: SHA384},
		{Country: "NL", State: "NLD", CSCA: EC("P-521", false, 0), DS: RSA(2048, false, 1), Hash: SHA512},
	} {
		is := NewIssuer(p)
		ca, err := x509.ParseCertificate(is.CSCACert.DER)
		if err != nil {
			return fmt.Errorf("%s: x509 cannot parse CSCA: %v", p, err)
		}
		ds, err := x509.ParseCertificate(is.DSCert.DER)
		if err != nil {
			return fmt.Errorf("%s: x509 cannot parse DS: %v", p, err)
		}
		if !ca.IsCA || ca.KeyUsage&x509.KeyUsageCertSign == 0 || ds.KeyUsage&x509.KeyUsageDigitalSignature == 0 {
			return fmt.Errorf("%s: x509 sees wrong usages", p)
		}
		if !bytes.Equal(ds.AuthorityKeyId, ca.SubjectKeyId) || !bytes.Equal(ca.SubjectKeyId, is.CSCACert.SKI) {
			return fmt.Errorf("%s: x509 sees wrong key identifiers", p)
		}
		if err := ds.CheckSignatureFrom(ca); err != nil {
			return fmt.Errorf("%s: x509 rejects DS signature: %v", p, err)
		}
		if err := ca.CheckSignatureFrom(ca); err != nil {
			return fmt.Errorf("%s: x509 rejects CSCA self-signature: %v", p, err)
		}
		if !bytes.Equal(is.DSCert.DER[is.DSCert.TBS.Off:is.DSCert.TBS.End()], ds.RawTBSCertificate) {
			return fmt.Errorf("%s: TBS range does not match x509 RawTBSCertificate", p)
		}
		if !bytes.Equal(is.DSCert.DER[is.DSCert.SigValue.Off:is.DSCert.SigValue.End()], ds.Signature) {
			return fmt.Errorf("%s: signature range does not match x509 Signature", p)
		}
		for _, enc := range []Encoding{EncDER, EncIndefOuter, EncIndefAll, EncIndefDeep} {
			sod, rm := is.IssueSOD(dg, SODOpts{Encoding: enc, LDSVersion: 1})
			if enc == EncDER {
				t, err := ParseTree(sod)
				if err != nil || !bytes.Equal(DER(t), sod) {
					return fmt.Errorf("%s: SOD does not re-parse to itself: %v", p, err)
				}
				tb := rm["cert0.tbs"]
				if !bytes.Equal(sod[tb.Off:tb.End()], ds.RawTBSCertificate) {
					return fmt.Errorf("%s: cert0.tbs range wrong", p)
				}
				sv := rm["cert0.sigValue"]
				if !bytes.Equal(sod[sv.Off:sv.End()], ds.Signature) {
					return fmt.Errorf("%s: cert0.sigValue range wrong", p)
				}
			}
			for _, name := range []string{"eContent", "attr.contentType", "attr.messageDigest", "attr.signingTime", "signature", "cert0.tbs", "cert0.sigValue", "sid", "file"} {
				r, ok := rm[name]
				if !ok || r.Len <= 0 || r.End() > len(sod) {
					return fmt.Errorf("%s/%s: range %s missing or out of bounds", p, enc, name)
				}
			}
		}
	}
	return nil
}
