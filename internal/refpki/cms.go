package refpki

import (
	"encoding/asn1"
	"fmt"
	"sort"
	"time"
)

var (
	OIDSignedData        = asn1.ObjectIdentifier{1, 2, 840, 113549, 1, 7, 2}
	OIDContentType       = asn1.ObjectIdentifier{1, 2, 840, 113549, 1, 9, 3}
	OIDMessageDigest     = asn1.ObjectIdentifier{1, 2, 840, 113549, 1, 9, 4}
	OIDSigningTime       = asn1.ObjectIdentifier{1, 2, 840, 113549, 1, 9, 5}
	OIDLDSSecurityObject = asn1.ObjectIdentifier{2, 23, 136, 1, 1, 1}
	OIDCscaMasterList    = asn1.ObjectIdentifier{2, 23, 136, 1, 1, 2}
	OIDCardSecurityObj   = asn1.ObjectIdentifier{0, 4, 0, 127, 0, 7, 3, 2, 1}
)

// SID forms.
const (
	SIDIssuerSerial = iota
	SIDSubjectKeyID
)

// SignedData is a CMS SignedData with exactly one SignerInfo, described by its parts. Every field can be set
// independently, so that an inconsistent (attacked) object can be built as easily as a genuine one.
type SignedData struct {
	EContentType           asn1.ObjectIdentifier
	EContent               []byte
	DigestAlg              Hash    // SignerInfo.digestAlgorithm and digestAlgorithms
	DigestNull             bool    // add NULL parameters to the digest AlgorithmIdentifiers
	Certs                  []*Cert // embedded certificates; Certs[0] is labelled cert0 (by convention the signer)
	SIDForm                int
	SIDIssuer              Name                  // issuerAndSerialNumber: issuer (default Certs[0].Spec.Issuer)
	SIDSerial              *Node                 // default: Certs[0] serial
	SIDKeyID               []byte                // subjectKeyIdentifier form (default Certs[0].SKI)
	AttrContentType        asn1.ObjectIdentifier // contentType attribute value (default EContentType)
	MessageDigest          []byte                // messageDigest attribute value (default DigestAlg(EContent))
	SigningTime            *time.Time            // nil: no signingTime attribute
	SigningTimeGeneralized bool
	SigAlg                 *Node  // SignerInfo.signatureAlgorithm (set by Sign)
	Signature              []byte // SignerInfo.signature (set by Sign)
}

func (sd *SignedData) attrs() []*Node {
	ct := sd.AttrContentType
	if ct == nil {
		ct = sd.EContentType
	}
	md := sd.MessageDigest
	if md == nil {
		md = sd.DigestAlg.Sum(sd.EContent)
	}
	as := []*Node{
		Seq(OID(OIDContentType), Set(OID(ct))).L("attr.contentType"),
	}
	if sd.SigningTime != nil {
		as = append(as, Seq(OID(OIDSigningTime), Set(Time(*sd.SigningTime, sd.SigningTimeGeneralized))).L("attr.signingTime"))
	}
	as = append(as, Seq(OID(OIDMessageDigest), Set(Octets(md))).L("attr.messageDigest"))
	// DER SET OF ordering: ascending by encoding
	sort.SliceStable(as, func(i, j int) bool { return string(DER(as[i])) < string(DER(as[j])) })
	return as
}

// SignedAttrsDER is the octet string that is signed: the attributes under an explicit SET OF tag (RFC 5652 §5.4).
func (sd *SignedData) SignedAttrsDER() []byte { return DER(Set(sd.attrs()...)) }

// Sign computes SigAlg and Signature over the current signed attributes with the given key.
func (sd *SignedData) Sign(k *Key, o SignOpts) {
	if o.Hash == "" {
		o.Hash = sd.DigestAlg
	}
	sd.Signature, sd.SigAlg = k.Sign(sd.SignedAttrsDER(), o)
}

func (sd *SignedData) sid() *Node {
	if sd.SIDForm == SIDSubjectKeyID {
		id := sd.SIDKeyID
		if id == nil {
			id = sd.Certs[0].SKI
		}
		return Prim(0x80, id).L("sid")
	}
	iss := sd.SIDIssuer
	if iss == nil {
		iss = sd.Certs[0].Spec.Issuer
	}
	ser := sd.SIDSerial
	if ser == nil {
		ser = Int(sd.Certs[0].Spec.Serial)
	}
	return Seq(iss.Node(), ser).L("sid")
}

// Tree builds the ContentInfo tree.
func (sd *SignedData) Tree() *Node {
	if sd.SigAlg == nil {
		panic("refpki: SignedData not signed")
	}
	var certs []*Node
	for i, c := range sd.Certs {
		certs = append(certs, c.Node(fmt.Sprintf("cert%d", i)))
	}
	siVersion := int64(1)
	if sd.SIDForm == SIDSubjectKeyID {
		siVersion = 3
	}
	eOct := Octets(sd.EContent).L("eContentOctets")
	eOct.Sub = map[string]Range{"eContent": {0, len(sd.EContent)}}
	eWrap := Explicit(0, eOct)
	encap := Seq(OID(sd.EContentType).L("eContentType"), eWrap)
	si := Seq(
		Int64(siVersion),
		sd.sid(),
		sd.DigestAlg.AlgID(sd.DigestNull).L("si.digestAlgorithm"),
		Cons(0xA0, sd.attrs()...).L("signedAttrs"),
		cloneTree(sd.SigAlg).L("si.signatureAlgorithm"),
	).L("signerInfo")
	sigOct := Octets(sd.Signature).L("signatureOctets")
	sigOct.Sub = map[string]Range{"signature": {0, len(sd.Signature)}}
	si.Kids = append(si.Kids, sigOct)
	kids := []*Node{
		Int64(3),
		Set(sd.DigestAlg.AlgID(sd.DigestNull)).L("digestAlgorithms"),
		encap,
	}
	if len(certs) > 0 {
		kids = append(kids, Cons(0xA0, certs...).L("certificates"))
	}
	kids = append(kids, Set(si))
	sdn := Seq(kids...)
	wrap0 := Explicit(0, sdn)
	ci := Seq(OID(OIDSignedData), wrap0).L("contentInfo")
	for _, n := range []*Node{ci, wrap0, sdn, encap, eWrap} {
		n.outer = true
	}
	return ci
}

func cloneTree(n *Node) *Node {
	c := &Node{Tag: n.Tag, Prim: n.Prim}
	for _, k := range n.Kids {
		c.Kids = append(c.Kids, cloneTree(k))
	}
	return c
}

// Encode serialises the ContentInfo; wrapTag != 0 wraps it in that application tag with a DEFINITE length
// (EF.SOD: 0x77). The range "file" covers everything.
func (sd *SignedData) Encode(enc Encoding, wrapTag byte) ([]byte, RangeMap) {
	root := sd.Tree()
	if wrapTag != 0 {
		root = &Node{Tag: wrapTag, Kids: []*Node{root}, def: true}
	}
	b, rm := Encode(root, enc)
	rm["file"] = Range{0, len(b)}
	delete(rm, "eContentOctets")
	delete(rm, "eContentOctets.v")
	delete(rm, "signatureOctets")
	delete(rm, "signatureOctets.v")
	return b, rm
}

// LDSSecurityObject builds the eContent of EF.SOD. version 0: no LDSVersionInfo; version 1: with
// LDSVersionInfo{"0108","040000"}. hashes maps data group number to hash value; entries are written in
// ascending number order.
func LDSSecurityObject(version int, h Hash, hashes map[int][]byte) []byte {
	return LDSSecurityObjectOrdered(version, h, hashes, nil)
}

// LDSSecurityObjectOrdered is LDSSecurityObject with the hash entries written in the given order of data group
// numbers (dataGroupHashValues is a SEQUENCE OF; Doc 9303-10 does not prescribe an order). Numbers in hashes but
// not in order follow in ascending order; order == nil is ascending.
func LDSSecurityObjectOrdered(version int, h Hash, hashes map[int][]byte, order []int) []byte {
	var nums []int
	seen := map[int]bool{}
	for _, n := range order {
		if _, ok := hashes[n]; ok && !seen[n] {
			seen[n] = true
			nums = append(nums, n)
		}
	}
	var rest []int
	for n := range hashes {
		if !seen[n] {
			rest = append(rest, n)
		}
	}
	sort.Ints(rest)
	nums = append(nums, rest...)
	var dgs []*Node
	for _, n := range nums {
		dgs = append(dgs, Seq(Int64(int64(n)), Octets(hashes[n])))
	}
	kids := []*Node{Int64(int64(version)), h.AlgID(true), Seq(dgs...)}
	if version == 1 {
		kids = append(kids, Seq(Str(0x13, "0108"), Str(0x13, "040000")))
	}
	return DER(Seq(kids...))
}

// HashDGs hashes each data group file.
func HashDGs(h Hash, dgs map[int][]byte) map[int][]byte {
	out := map[int][]byte{}
	for n, b := range dgs {
		out[n] = h.Sum(b)
	}
	return out
}

// MasterListContent builds CscaMasterList ::= SEQUENCE { version INTEGER (0), certList SET OF Certificate }.
func MasterListContent(certs []*Cert) []byte {
	var cs []*Node
	for _, c := range certs {
		n, err := ParseTree(c.DER)
		if err != nil {
			panic(err)
		}
		cs = append(cs, n)
	}
	sort.SliceStable(cs, func(i, j int) bool { return string(DER(cs[i])) < string(DER(cs[j])) })
	return DER(Seq(Int64(0), Set(cs...)))
}

// EncodeMultiSigner serialises ONE SignedData that carries the SignerInfos (and embedded certificates) of all
// the given single-signer objects, in the given order. All of them must be over the same eContent; the first
// one supplies everything else. wrapTag as in Encode.
func EncodeMultiSigner(sds []*SignedData, wrapTag byte) []byte {
	root := sds[0].Tree()
	find := func(n *Node, label string) *Node {
		var rec func(n *Node) *Node
		rec = func(n *Node) *Node {
			if n.Label == label {
				return n
			}
			for _, k := range n.Kids {
				if r := rec(k); r != nil {
					return r
				}
			}
			return nil
		}
		return rec(n)
	}
	// SignedData ::= SEQUENCE { version, digestAlgorithms, encapContentInfo, certificates [0], signerInfos SET }
	sdn := root.Kids[1].Kids[0]
	certs := find(root, "certificates")
	sis := sdn.Kids[len(sdn.Kids)-1]
	for _, o := range sds[1:] {
		t := o.Tree()
		oc := find(t, "certificates")
		if certs != nil && oc != nil {
			certs.Kids = append(certs.Kids, oc.Kids...)
		}
		sis.Kids = append(sis.Kids, find(t, "signerInfo"))
	}
	clear := func(n *Node) {}
	_ = clear
	var strip func(n *Node)
	strip = func(n *Node) {
		n.Label = ""
		n.Sub = nil
		for _, k := range n.Kids {
			strip(k)
		}
	}
	strip(root)
	if wrapTag != 0 {
		root = &Node{Tag: wrapTag, Kids: []*Node{root}, def: true}
	}
	return DER(root)
}
