package refpki

import (
	"testing"
	"time"
)

func TestSelf(t *testing.T) {
	t0 := time.Now()
	if err := EnsureKeys(); err != nil {
		t.Fatal(err)
	}
	t.Logf("EnsureKeys %v", time.Since(t0))
	t0 = time.Now()
	if err := SelfTest(); err != nil {
		t.Fatal(err)
	}
	t.Logf("SelfTest %v", time.Since(t0))
}
