package refpki

import "math/big"

// Add returns (x1,y1)+(x2,y2) in affine coordinates; nil inputs/outputs denote the point at infinity.
func (c *Curve) Add(x1, y1, x2, y2 *big.Int) (*big.Int, *big.Int) {
	inf := jac{big.NewInt(1), big.NewInt(1), big.NewInt(0)}
	p, q := inf, inf
	if x1 != nil {
		p = jac{new(big.Int).Set(x1), new(big.Int).Set(y1), big.NewInt(1)}
	}
	if x2 != nil {
		q = jac{new(big.Int).Set(x2), new(big.Int).Set(y2), big.NewInt(1)}
	}
	s := c.add(p, q)
	if s.z.Sign() == 0 {
		return nil, nil
	}
	zi := new(big.Int).ModInverse(s.z, c.P)
	zi2 := c.mod(new(big.Int).Mul(zi, zi))
	ax := c.mod(new(big.Int).Mul(s.x, zi2))
	ay := c.mod(new(big.Int).Mul(c.mod(new(big.Int).Mul(s.y, zi2)), zi))
	return ax, ay
}

// EncodePoint returns 04 || X || Y with fixed-width coordinates.
func (c *Curve) EncodePoint(x, y *big.Int) []byte {
	l := c.ByteLen()
	out := make([]byte, 1+2*l)
	out[0] = 4
	x.FillBytes(out[1 : 1+l])
	y.FillBytes(out[1+l:])
	return out
}

// DecodePoint parses an uncompressed point and checks that it is on the curve.
func (c *Curve) DecodePoint(b []byte) (x, y *big.Int, ok bool) {
	l := c.ByteLen()
	if len(b) != 1+2*l || b[0] != 4 {
		return nil, nil, false
	}
	x = new(big.Int).SetBytes(b[1 : 1+l])
	y = new(big.Int).SetBytes(b[1+l:])
	if !c.OnCurve(x, y) {
		return nil, nil, false
	}
	return x, y, true
}
