// Package vc is the check runtime shared by all property checks: case sharding over worker
// processes, evidence accounting, violation classification against known_findings.json,
// replay artefacts, deadlines.
package vc

import (
	"crypto/sha256"
	"encoding/hex"
	"encoding/json"
	"fmt"
	"hash/fnv"
	"io"
	"log/slog"
	"os"
	"os/exec"
	"path/filepath"
	"runtime"
	"runtime/debug"
	"sort"
	"strconv"
	"strings"
	"sync"
	"sync/atomic"
	"time"
)

// Root is the framework directory (VERIF_ROOT, default /verif): evidence, known findings and replay files live under it.
var Root = func() string {
	if r := os.Getenv("VERIF_ROOT"); r != "" {
		return r
	}
	return "/verif"
}()

// Check is one property check.
type Check struct {
	ID        string
	Level     string // exploration | fault_enumeration | model_checking
	Rule      string // how cases are enumerated / what is non-trivial
	Assume    []string
	Run       func(c *Ctx)
	Replay    func(c *Ctx, raw json.RawMessage) string // re-executes one recorded case, returns the observation
	QuickSec  int                                      // soft deadline per tier (seconds)
	ThoroSec  int
	Serial    bool // run in a single worker process (check does its own parallelism or needs global order)
	MaxProcs  int  // cap on workers (0 = NumCPU)
	NeedsInst bool // needs the instrumented overlay build (C20); handled by run.sh
}

var registry = map[string]*Check{}

func Register(ch *Check) { registry[ch.ID] = ch }

func Lookup(id string) *Check { return registry[id] }

func IDs() []string {
	var ids []string
	for k := range registry {
		ids = append(ids, k)
	}
	sort.Strings(ids)
	return ids
}

// Finding is one entry of known_findings.json.
type Finding struct {
	Property  string `json:"property"`
	Key       string `json:"key"`
	Status    string `json:"status"` // known | fixed
	Commit    string `json:"commit,omitempty"`
	WhatFails string `json:"what_fails"`
	Example   string `json:"example,omitempty"`
}

type violation struct {
	Key     string          `json:"key"`
	What    string          `json:"what"`
	Count   int64           `json:"count"`
	Replay  json.RawMessage `json:"replay"`
	Section string          `json:"section"`
}

// Ctx is handed to a check's Run. It is used by one worker process; counters are goroutine safe.
type Ctx struct {
	ID      string
	Tier    string
	Seed    int64
	Shard   int
	NShards int
	Check   *Check

	start    time.Time
	deadline time.Time

	caseNo  atomic.Int64
	evals   atomic.Int64
	states  atomic.Int64
	trans   atomic.Int64
	traces  atomic.Int64
	expired atomic.Bool

	mu         sync.Mutex
	distinct   map[uint64]struct{}
	distinctOv bool
	samples    []any
	sections   map[string]*Section
	secOrder   []string
	viol       map[string]*violation
	notes      []string
	caps       []string
	harnessErr []string
	extra      map[string]any
}

// Section is per-sub-check accounting, written into coverage.sections.
type Section struct {
	Name        string `json:"name"`
	Evaluations int64  `json:"evaluations"`
	Outcomes    map[string]int64 `json:"outcomes,omitempty"`
	Bound       string `json:"bound,omitempty"`
	Exhaustive  bool   `json:"exhaustive"`
	WallS       float64 `json:"worker_wall_s_max,omitempty"` // max over workers of (last - first) evaluation time in this section
	first, last time.Time
}

func (c *Ctx) Quick() bool    { return c.Tier != "thorough" }
func (c *Ctx) Thorough() bool { return c.Tier == "thorough" }

// Mine assigns the next case number and reports whether this worker owns it. Every worker
// must enumerate cases in the same deterministic order.
func (c *Ctx) Mine() bool {
	n := c.caseNo.Add(1) - 1
	return int(n%int64(c.NShards)) == c.Shard
}

// Expired reports whether the tier's soft deadline has passed (the check should stop enumerating,
// mark the section non-exhaustive and return; this is never a violation).
func (c *Ctx) Expired() bool {
	if c.expired.Load() {
		return true
	}
	if time.Now().After(c.deadline) {
		c.expired.Store(true)
		return true
	}
	return false
}

func (c *Ctx) Eval(n int64)        { c.evals.Add(n) }
func (c *Ctx) AddStates(n int64)   { c.states.Add(n) }
func (c *Ctx) AddTrans(n int64)    { c.trans.Add(n) }
func (c *Ctx) AddTraces(n int64)   { c.traces.Add(n) }
func (c *Ctx) Elapsed() float64    { return time.Since(c.start).Seconds() }
func (c *Ctx) Note(s string)       { c.mu.Lock(); c.notes = append(c.notes, s); c.mu.Unlock() }
func (c *Ctx) Cap(s string)        { c.mu.Lock(); c.caps = append(c.caps, s); c.mu.Unlock() }
func (c *Ctx) Extra(k string, v any) { c.mu.Lock(); c.extra[k] = v; c.mu.Unlock() }

// HarnessError records a failure of the machinery itself (reference self-test, nondeterminism).
// It makes the run exit 2 and never prints a VIOLATION line.
func (c *Ctx) HarnessError(format string, a ...any) {
	c.mu.Lock()
	c.harnessErr = append(c.harnessErr, fmt.Sprintf(format, a...))
	c.mu.Unlock()
}

// Distinct records a non-trivial distinct case key (hashed).
func (c *Ctx) Distinct(key string) {
	h := fnv.New64a()
	io.WriteString(h, key)
	v := h.Sum64()
	c.mu.Lock()
	if len(c.distinct) < 4_000_000 {
		c.distinct[v] = struct{}{}
	} else {
		c.distinctOv = true
	}
	c.mu.Unlock()
}

func (c *Ctx) DistinctBytes(b []byte) {
	h := fnv.New64a()
	h.Write(b)
	v := h.Sum64()
	c.mu.Lock()
	if len(c.distinct) < 4_000_000 {
		c.distinct[v] = struct{}{}
	} else {
		c.distinctOv = true
	}
	c.mu.Unlock()
}

// Sample keeps up to 6 samples per worker (first ones), merged to at most 12.
func (c *Ctx) Sample(v any) {
	c.mu.Lock()
	if len(c.samples) < 6 {
		c.samples = append(c.samples, v)
	}
	c.mu.Unlock()
}

func (c *Ctx) Sec(name string) *Section {
	c.mu.Lock()
	defer c.mu.Unlock()
	s := c.sections[name]
	if s == nil {
		s = &Section{Name: name, Outcomes: map[string]int64{}, Exhaustive: true}
		c.sections[name] = s
		c.secOrder = append(c.secOrder, name)
	}
	return s
}

// Outcome counts one evaluation in a section under an outcome class.
func (c *Ctx) Outcome(sec, outcome string) {
	s := c.Sec(sec)
	c.mu.Lock()
	s.Evaluations++
	s.Outcomes[outcome]++
	if s.Evaluations&1023 == 1 {
		now := time.Now()
		if s.first.IsZero() {
			s.first = now
		}
		s.last = now
		s.WallS = s.last.Sub(s.first).Seconds()
	}
	c.mu.Unlock()
	c.evals.Add(1)
}

func (c *Ctx) SecBound(sec, bound string) {
	s := c.Sec(sec)
	c.mu.Lock()
	s.Bound = bound
	c.mu.Unlock()
}

func (c *Ctx) SecNotExhaustive(sec, why string) {
	s := c.Sec(sec)
	c.mu.Lock()
	s.Exhaustive = false
	c.caps = append(c.caps, sec+": "+why)
	c.mu.Unlock()
}

// Violation records a property violation. key is the narrow classification used for
// known_findings.json matching; replay is a JSON-serialisable description of the exact case.
// recheck, if non-nil, re-executes the case and returns true if it still violates; it is run 4 more
// times and any disagreement is a harness error (nondeterminism), not a violation.
func (c *Ctx) Violation(sec, key, what string, replay any, recheck func() bool) {
	c.mu.Lock()
	v := c.viol[key]
	if v != nil {
		v.Count++
		c.mu.Unlock()
		return
	}
	c.mu.Unlock()
	if recheck != nil {
		for i := 0; i < 4; i++ {
			if !recheck() {
				c.HarnessError("nondeterministic violation (not reproduced on re-run %d): %s: %s", i+1, key, what)
				return
			}
		}
	}
	rb, err := json.Marshal(map[string]any{"property": c.ID, "section": sec, "key": key, "what": what, "case": replay})
	if err != nil {
		rb, _ = json.Marshal(map[string]any{"property": c.ID, "section": sec, "key": key, "what": what, "case": fmt.Sprint(replay)})
	}
	c.mu.Lock()
	if c.viol[key] == nil {
		c.viol[key] = &violation{Key: key, What: what, Count: 1, Replay: rb, Section: sec}
	} else {
		c.viol[key].Count++
	}
	c.mu.Unlock()
}

// ---------------------------------------------------------------------------------------------

type partial struct {
	Evals      int64               `json:"evals"`
	States     int64               `json:"states"`
	Trans      int64               `json:"trans"`
	Traces     int64               `json:"traces"`
	Distinct   []uint64            `json:"distinct"`
	DistinctOv bool                `json:"distinct_ov"`
	Samples    []any               `json:"samples"`
	Sections   []*Section          `json:"sections"`
	Viol       []*violation        `json:"viol"`
	Notes      []string            `json:"notes"`
	Caps       []string            `json:"caps"`
	HarnessErr []string            `json:"harness_err"`
	Extra      map[string]any      `json:"extra"`
	Expired    bool                `json:"expired"`
}

func newCtx(ch *Check, tier string, seed int64, shard, nshards int) *Ctx {
	c := &Ctx{ID: ch.ID, Tier: tier, Seed: seed, Shard: shard, NShards: nshards, Check: ch,
		start: time.Now(), distinct: map[uint64]struct{}{}, sections: map[string]*Section{},
		viol: map[string]*violation{}, extra: map[string]any{}}
	sec := ch.QuickSec
	if tier == "thorough" {
		sec = ch.ThoroSec
	}
	if sec == 0 {
		sec = 120
	}
	if s := os.Getenv("VERIF_DEADLINE_S"); s != "" {
		if n, err := strconv.Atoi(s); err == nil {
			sec = n
		}
	}
	c.deadline = c.start.Add(time.Duration(sec) * time.Second)
	return c
}

func (c *Ctx) partial() *partial {
	p := &partial{Evals: c.evals.Load(), States: c.states.Load(), Trans: c.trans.Load(), Traces: c.traces.Load(),
		DistinctOv: c.distinctOv, Samples: c.samples, Notes: c.notes, Caps: c.caps, HarnessErr: c.harnessErr,
		Extra: c.extra, Expired: c.expired.Load()}
	for k := range c.distinct {
		p.Distinct = append(p.Distinct, k)
	}
	for _, n := range c.secOrder {
		p.Sections = append(p.Sections, c.sections[n])
	}
	for _, v := range c.viol {
		p.Viol = append(p.Viol, v)
	}
	return p
}

// WorkerMain runs the check body in this process for one shard and writes the partial result.
func WorkerMain(id, tier string, seed int64, shard, nshards int, out string) int {
	ch := Lookup(id)
	if ch == nil {
		fmt.Fprintf(os.Stderr, "unknown check %s\n", id)
		return 2
	}
	slog.SetDefault(slog.New(slog.NewTextHandler(io.Discard, &slog.HandlerOptions{Level: slog.LevelError + 8})))
	c := newCtx(ch, tier, seed, shard, nshards)
	func() {
		defer func() {
			if r := recover(); r != nil {
				c.HarnessError("check body panicked: %v\n%s", r, debug.Stack())
			}
		}()
		ch.Run(c)
	}()
	b, err := json.Marshal(c.partial())
	if err != nil {
		fmt.Fprintf(os.Stderr, "marshal partial: %v\n", err)
		return 2
	}
	if err := os.WriteFile(out, b, 0o644); err != nil {
		fmt.Fprintf(os.Stderr, "write partial: %v\n", err)
		return 2
	}
	return 0
}

func loadFindings() []Finding {
	var fs []Finding
	b, err := os.ReadFile(filepath.Join(Root, "known_findings.json"))
	if err != nil {
		return nil
	}
	var doc struct {
		Findings []Finding `json:"findings"`
	}
	if json.Unmarshal(b, &doc) == nil {
		fs = doc.Findings
	}
	return fs
}

// ParentMain spawns the worker processes, merges their partial results, writes the evidence file,
// prints KNOWN-FINDING / VIOLATION lines and returns the exit code.
func ParentMain(id, tier string, seed int64) int {
	ch := Lookup(id)
	if ch == nil {
		fmt.Fprintf(os.Stderr, "unknown check %s\n", id)
		return 2
	}
	start := time.Now()
	n := runtime.NumCPU()
	if n > 16 {
		n = 16
	}
	if ch.MaxProcs > 0 && n > ch.MaxProcs {
		n = ch.MaxProcs
	}
	if ch.Serial {
		n = 1
	}
	if s := os.Getenv("VERIF_PROCS"); s != "" {
		if k, err := strconv.Atoi(s); err == nil && k > 0 {
			n = k
		}
	}
	tmp := filepath.Join(Root, "out", "partial", fmt.Sprintf("%s-%d", id, os.Getpid()))
	os.RemoveAll(tmp)
	os.MkdirAll(tmp, 0o755)
	defer os.RemoveAll(tmp)
	self, _ := os.Executable()
	type res struct {
		code int
		err  error
		out  string
	}
	results := make([]res, n)
	var wg sync.WaitGroup
	for i := 0; i < n; i++ {
		wg.Add(1)
		go func(i int) {
			defer wg.Done()
			out := filepath.Join(tmp, fmt.Sprintf("p%d.json", i))
			cmd := exec.Command(self, "worker", id, tier, strconv.FormatInt(seed, 10), strconv.Itoa(i), strconv.Itoa(n), out)
			cmd.Stderr = os.Stderr
			cmd.Stdout = os.Stderr
			cmd.Env = append(os.Environ(), "GOMAXPROCS="+strconv.Itoa(max(1, runtime.NumCPU()/n)))
			err := cmd.Run()
			results[i] = res{code: cmd.ProcessState.ExitCode(), err: err, out: out}
		}(i)
	}
	wg.Wait()

	merged := &partial{Extra: map[string]any{}}
	distinct := map[uint64]struct{}{}
	secs := map[string]*Section{}
	var secOrder []string
	viol := map[string]*violation{}
	harness := false
	for i, r := range results {
		if r.err != nil || r.code != 0 {
			fmt.Fprintf(os.Stderr, "HARNESS-ERROR worker %d/%d exit=%d err=%v\n", i, n, r.code, r.err)
			harness = true
			continue
		}
		b, err := os.ReadFile(r.out)
		if err != nil {
			harness = true
			continue
		}
		var p partial
		if err := json.Unmarshal(b, &p); err != nil {
			fmt.Fprintf(os.Stderr, "HARNESS-ERROR bad partial: %v\n", err)
			harness = true
			continue
		}
		merged.Evals += p.Evals
		merged.States += p.States
		merged.Trans += p.Trans
		merged.Traces += p.Traces
		merged.DistinctOv = merged.DistinctOv || p.DistinctOv
		merged.Expired = merged.Expired || p.Expired
		for _, d := range p.Distinct {
			distinct[d] = struct{}{}
		}
		for _, s := range p.Samples {
			if len(merged.Samples) < 12 {
				merged.Samples = append(merged.Samples, s)
			}
		}
		for _, s := range p.Sections {
			m := secs[s.Name]
			if m == nil {
				m = &Section{Name: s.Name, Outcomes: map[string]int64{}, Exhaustive: true, Bound: s.Bound}
				secs[s.Name] = m
				secOrder = append(secOrder, s.Name)
			}
			m.Evaluations += s.Evaluations
			for k, v := range s.Outcomes {
				m.Outcomes[k] += v
			}
			m.Exhaustive = m.Exhaustive && s.Exhaustive
			if s.WallS > m.WallS {
				m.WallS = s.WallS
			}
			if m.Bound == "" {
				m.Bound = s.Bound
			}
		}
		for _, v := range p.Viol {
			if m := viol[v.Key]; m != nil {
				m.Count += v.Count
			} else {
				viol[v.Key] = v
			}
		}
		if i == 0 {
			merged.Notes = p.Notes
			for k, v := range p.Extra {
				merged.Extra[k] = v
			}
		}
		for _, cp := range p.Caps {
			dup := false
			for _, x := range merged.Caps {
				if x == cp {
					dup = true
				}
			}
			if !dup {
				merged.Caps = append(merged.Caps, cp)
			}
		}
		merged.HarnessErr = append(merged.HarnessErr, p.HarnessErr...)
	}
	seenHE := map[string]int{}
	for _, h := range merged.HarnessErr {
		harness = true
		if len(h) > 700 {
			h = h[:700] + "…"
		}
		seenHE[h]++
		if seenHE[h] == 1 && len(seenHE) <= 3 {
			fmt.Fprintf(os.Stderr, "HARNESS-ERROR %s\n", h)
		}
	}

	// classify violations
	findings := loadFindings()
	known := map[string]Finding{}
	for _, f := range findings {
		if f.Property == id && f.Status == "known" {
			known[f.Key] = f
		}
	}
	var keys []string
	for k := range viol {
		keys = append(keys, k)
	}
	sort.Strings(keys)
	nviol := 0
	nknown := 0
	vdir := filepath.Join(Root, "out", "violations", id)
	os.RemoveAll(vdir)
	var violSummaries []map[string]any
	for _, k := range keys {
		v := viol[k]
		if f, ok := known[k]; ok {
			fmt.Printf("KNOWN-FINDING: property=%s %s [key=%s, %d case(s) this run]\n", id, f.WhatFails, k, v.Count)
			nknown++
			violSummaries = append(violSummaries, map[string]any{"key": k, "known_finding": true, "cases": v.Count})
			continue
		}
		os.MkdirAll(vdir, 0o755)
		h := sha256.Sum256([]byte(k))
		path := filepath.Join(vdir, hex.EncodeToString(h[:6])+".json")
		os.WriteFile(path, v.Replay, 0o644)
		fmt.Printf("VIOLATION property=%s replay=%s\n", id, path)
		fmt.Printf("  key=%s cases=%d\n  %s\n", k, v.Count, v.What)
		nviol++
		violSummaries = append(violSummaries, map[string]any{"key": k, "known_finding": false, "cases": v.Count, "what": v.What, "replay": path})
	}

	exhaustive := !merged.Expired
	var secList []*Section
	for _, nme := range secOrder {
		s := secs[nme]
		if !s.Exhaustive {
			exhaustive = false
		}
		secList = append(secList, s)
	}
	if len(merged.Caps) > 0 {
		exhaustive = false
	}
	cov := map[string]any{
		"evaluations":         merged.Evals,
		"distinct_nontrivial": len(distinct),
		"rule":                ch.Rule,
		"samples":             merged.Samples,
		"exhaustive":          exhaustive,
		"sections":            secList,
		"workers":             n,
	}
	if merged.DistinctOv {
		cov["distinct_nontrivial_note"] = "per-worker distinct set capped at 4e6 entries; the count is a lower bound"
	}
	if ch.Level == "model_checking" {
		cov["states"] = merged.States
		cov["transitions"] = merged.Trans
		cov["traces_validated_against_impl"] = merged.Traces
	}
	if len(merged.Caps) > 0 {
		cov["caps_hit"] = merged.Caps
	}
	if merged.Expired {
		cov["deadline_hit"] = true
	}
	if len(merged.Notes) > 0 {
		cov["notes"] = merged.Notes
	}
	for k, v := range merged.Extra {
		cov[k] = v
	}
	if len(violSummaries) > 0 {
		cov["violation_classes"] = violSummaries
	}
	ev := map[string]any{
		"property_id": id,
		"tier":        tier,
		"seed":        seed,
		"level":       ch.Level,
		"coverage":    cov,
		"assumptions": ch.Assume,
		"wall_s":      time.Since(start).Seconds(),
		"violations":  nviol,
		"known_findings_reported": nknown,
	}
	if len(merged.Samples) == 0 {
		cov["samples"] = []any{"(no samples recorded)"}
	}
	b, _ := json.MarshalIndent(ev, "", " ")
	evDir := filepath.Join(Root, "evidence")
	if d := os.Getenv("VERIF_EVIDENCE_DIR"); d != "" {
		evDir = d // mutant runs must not overwrite genuine evidence
	}
	os.MkdirAll(evDir, 0o755)
	if !harness || nviol > 0 {
		os.WriteFile(filepath.Join(evDir, id+".json"), b, 0o644)
	}
	var secStr []string
	for _, s := range secList {
		secStr = append(secStr, fmt.Sprintf("%s=%d", s.Name, s.Evaluations))
	}
	fmt.Printf("%s tier=%s evaluations=%d distinct=%d states=%d transitions=%d exhaustive=%v violations=%d known=%d wall=%.1fs [%s]\n",
		id, tier, merged.Evals, len(distinct), merged.States, merged.Trans, exhaustive, nviol, nknown, time.Since(start).Seconds(), strings.Join(secStr, " "))
	// a violation that was exhibited (replay file written, re-checked) is reported as such even when some other part
	// of the run ended in a harness error - typically a self-check of the harness that fails BECAUSE the library is
	// broken (e.g. "the genuine export must import" when the importer rejects genuine exports). Without a violation a
	// harness error is a broken run (exit 2), never a verdict.
	if nviol > 0 {
		return 1
	}
	if harness {
		return 2
	}
	return 0
}

// ReplayMain re-executes one recorded case without the explorer.
func ReplayMain(path string) int {
	b, err := os.ReadFile(path)
	if err != nil {
		fmt.Fprintln(os.Stderr, err)
		return 2
	}
	var doc struct {
		Property string          `json:"property"`
		Section  string          `json:"section"`
		Key      string          `json:"key"`
		What     string          `json:"what"`
		Case     json.RawMessage `json:"case"`
	}
	if err := json.Unmarshal(b, &doc); err != nil {
		fmt.Fprintln(os.Stderr, err)
		return 2
	}
	ch := Lookup(doc.Property)
	if ch == nil || ch.Replay == nil {
		fmt.Printf("no replay function for %s; recorded case:\n%s\n", doc.Property, string(b))
		return 0
	}
	slog.SetDefault(slog.New(slog.NewTextHandler(io.Discard, nil)))
	c := newCtx(ch, "quick", 0, 0, 1)
	fmt.Printf("replaying %s section=%s key=%s\nrecorded: %s\n", doc.Property, doc.Section, doc.Key, doc.What)
	obs := ch.Replay(c, b)
	fmt.Printf("observed: %s\n", obs)
	if len(c.viol) > 0 {
		for k, v := range c.viol {
			fmt.Printf("VIOLATION property=%s replay=%s\n  key=%s %s\n", doc.Property, path, k, v.What)
		}
		return 1
	}
	return 0
}

func Hex(b []byte) string { return hex.EncodeToString(b) }

func Unhex(s string) []byte {
	s = strings.ReplaceAll(s, " ", "")
	b, err := hex.DecodeString(s)
	if err != nil {
		panic(err)
	}
	return b
}

// Guard runs f and converts a panic into (recovered value, stack).
func Guard(f func()) (pv any, stack string) {
	defer func() {
		if r := recover(); r != nil {
			pv = r
			stack = string(debug.Stack())
		}
	}()
	f()
	return nil, ""
}
