// Package refber is an independent, deliberately boring BER-TLV reference (ISO 7816 style raw tag
// identifiers of 1..4 bytes, all BER length forms). It imports nothing from gmrtd.
//
// Rules implemented (X.690 §8.1): identifier octets = first octet, and if its low five bits are all
// ones, subsequent octets up to and including the first with bit 8 clear; the constructed bit is bit 6
// of the first identifier octet. Length: short form, long form with 1..4 length octets (non-minimal
// allowed, as BER allows), or 0x80 = indefinite, permitted for constructed encodings only, whose
// contents are terminated by - and must be terminated by - the end-of-contents octets 00 00. End-of-contents
// octets have no meaning anywhere else and are not an element of a definite-length value.
// Deliberate leniency (so the reference never demands more than BER users agree on): a tag octet 00
// with a non-zero length is kept as a primitive element with tag 0; non-minimal tag-number encodings
// are kept as raw identifiers.
package refber

import (
	"errors"
	"fmt"
)

type Node struct {
	Tag         uint32 // raw identifier octets, big endian
	TagLen      int
	Constructed bool
	Value       []byte  // primitive
	Children    []*Node // constructed
}

var ErrTooDeep = errors.New("refber: nesting too deep for the reference (harness limit)")

// ErrUnspecified: a tag octet 00 with a zero length written in long form (00 81 00 ...). It is neither
// the end-of-contents octets (exactly 00 00) nor an element anyone agrees on; the reference gives no verdict.
var ErrUnspecified = errors.New("refber: tag 00 with non-minimal zero length - no agreed reading")

func parseTag(b []byte) (tag uint32, n int, err error) {
	if len(b) == 0 {
		return 0, 0, fmt.Errorf("no tag")
	}
	tag = uint32(b[0])
	n = 1
	if b[0]&0x1f == 0x1f {
		for {
			if n >= 4 {
				return 0, 0, fmt.Errorf("tag longer than 4 octets")
			}
			if n >= len(b) {
				return 0, 0, fmt.Errorf("tag truncated")
			}
			o := b[n]
			tag = tag<<8 | uint32(o)
			n++
			if o&0x80 == 0 {
				break
			}
		}
	}
	return tag, n, nil
}

// parseLen returns length (-1 indefinite) and number of octets used.
func parseLen(b []byte) (l int64, n int, err error) {
	if len(b) == 0 {
		return 0, 0, fmt.Errorf("no length")
	}
	switch {
	case b[0] < 0x80:
		return int64(b[0]), 1, nil
	case b[0] == 0x80:
		return -1, 1, nil
	case b[0] <= 0x84:
		k := int(b[0] - 0x80)
		if len(b) < 1+k {
			return 0, 0, fmt.Errorf("length truncated")
		}
		for i := 0; i < k; i++ {
			l = l<<8 | int64(b[1+i])
		}
		return l, 1 + k, nil
	default:
		return 0, 0, fmt.Errorf("length form %02x not supported by the reference", b[0])
	}
}

// parseSeq parses elements from b. If indefinite, stops after consuming the EOC and requires one.
// Returns nodes and bytes consumed.
func parseSeq(b []byte, indefinite bool, depth int) ([]*Node, int, error) {
	if depth > 20000 {
		return nil, 0, ErrTooDeep
	}
	var out []*Node
	pos := 0
	for {
		if pos == len(b) {
			if indefinite {
				return nil, 0, fmt.Errorf("indefinite-length value not terminated by end-of-contents")
			}
			return out, pos, nil
		}
		if len(b)-pos >= 2 && b[pos] == 0 && b[pos+1] == 0 {
			if indefinite {
				return out, pos + 2, nil
			}
			return nil, 0, fmt.Errorf("end-of-contents octets inside a definite-length value / at top level")
		}
		tag, tn, err := parseTag(b[pos:])
		if err != nil {
			return nil, 0, err
		}
		l, ln, err := parseLen(b[pos+tn:])
		if err != nil {
			return nil, 0, err
		}
		if tag == 0 && l == 0 {
			return nil, 0, ErrUnspecified
		}
		cons := (b[pos] & 0x20) != 0
		hdr := pos + tn + ln
		n := &Node{Tag: tag, TagLen: tn, Constructed: cons}
		if l == -1 {
			if !cons {
				return nil, 0, fmt.Errorf("indefinite length on primitive")
			}
			ch, used, err := parseSeq(b[hdr:], true, depth+1)
			if err != nil {
				return nil, 0, err
			}
			n.Children = ch
			pos = hdr + used
		} else {
			if int64(len(b)-hdr) < l {
				return nil, 0, fmt.Errorf("value truncated")
			}
			val := b[hdr : hdr+int(l)]
			if cons {
				ch, used, err := parseSeq(val, false, depth+1)
				if err != nil {
					return nil, 0, err
				}
				if used != len(val) {
					return nil, 0, fmt.Errorf("constructed contents not fully consumed")
				}
				n.Children = ch
			} else {
				n.Value = val
			}
			pos = hdr + int(l)
		}
		out = append(out, n)
	}
}

// Decode parses a complete byte string as a sequence of BER-TLV elements.
func Decode(b []byte) ([]*Node, error) {
	nodes, used, err := parseSeq(b, false, 0)
	if err != nil {
		return nil, err
	}
	if used != len(b) {
		return nil, fmt.Errorf("trailing bytes")
	}
	return nodes, nil
}

func encTag(t uint32) []byte {
	if t == 0 {
		return []byte{0}
	}
	var o []byte
	for s := 24; s >= 0; s -= 8 {
		if v := byte(t >> uint(s)); v != 0 || len(o) > 0 {
			o = append(o, v)
		}
	}
	return o
}

func encLen(n int) []byte {
	switch {
	case n < 0x80:
		return []byte{byte(n)}
	case n < 0x100:
		return []byte{0x81, byte(n)}
	case n < 0x10000:
		return []byte{0x82, byte(n >> 8), byte(n)}
	case n < 0x1000000:
		return []byte{0x83, byte(n >> 16), byte(n >> 8), byte(n)}
	default:
		return []byte{0x84, byte(n >> 24), byte(n >> 16), byte(n >> 8), byte(n)}
	}
}

// Canonical returns the definite, minimal-length encoding of the tree.
func Canonical(nodes []*Node) []byte {
	var out []byte
	for _, n := range nodes {
		var body []byte
		if n.Constructed {
			body = Canonical(n.Children)
		} else {
			body = n.Value
		}
		out = append(out, encTag(n.Tag)...)
		out = append(out, encLen(len(body))...)
		out = append(out, body...)
	}
	return out
}

func Count(nodes []*Node) int {
	c := 0
	for _, n := range nodes {
		c += 1 + Count(n.Children)
	}
	return c
}
