// Package ref7816 is an independent ISO/IEC 7816-4 command/response APDU parser (no gmrtd imports).
package ref7816

import "fmt"

type Cmd struct {
	CLA, INS, P1, P2 byte
	Data             []byte
	Le               int  // 0 = no Le field; else 1..65536
	Extended         bool // extended length fields were used
	Case             string
}

// ParseCommand parses a command APDU per ISO/IEC 7816-4:2013 §5.2 (the four cases, short/extended).
func ParseCommand(b []byte) (*Cmd, error) {
	if len(b) < 4 {
		return nil, fmt.Errorf("command shorter than header")
	}
	c := &Cmd{CLA: b[0], INS: b[1], P1: b[2], P2: b[3]}
	body := b[4:]
	switch {
	case len(body) == 0:
		c.Case = "1"
		return c, nil
	case len(body) == 1:
		c.Case = "2S"
		c.Le = int(body[0])
		if c.Le == 0 {
			c.Le = 256
		}
		return c, nil
	case body[0] != 0:
		lc := int(body[0])
		switch len(body) {
		case 1 + lc:
			c.Case = "3S"
		case 2 + lc:
			c.Case = "4S"
			c.Le = int(body[len(body)-1])
			if c.Le == 0 {
				c.Le = 256
			}
		default:
			return nil, fmt.Errorf("short Lc=%d inconsistent with body length %d", lc, len(body))
		}
		c.Data = body[1 : 1+lc]
		return c, nil
	default: // body[0]==0, len>=2
		c.Extended = true
		if len(body) < 3 {
			return nil, fmt.Errorf("extended length field truncated (body %d bytes)", len(body))
		}
		if len(body) == 3 {
			c.Case = "2E"
			c.Le = int(body[1])<<8 | int(body[2])
			if c.Le == 0 {
				c.Le = 65536
			}
			return c, nil
		}
		lc := int(body[1])<<8 | int(body[2])
		if lc == 0 {
			return nil, fmt.Errorf("extended Lc is zero with body length %d", len(body))
		}
		switch len(body) {
		case 3 + lc:
			c.Case = "3E"
		case 5 + lc:
			c.Case = "4E"
			c.Le = int(body[len(body)-2])<<8 | int(body[len(body)-1])
			if c.Le == 0 {
				c.Le = 65536
			}
		default:
			return nil, fmt.Errorf("extended Lc=%d inconsistent with body length %d", lc, len(body))
		}
		c.Data = body[3 : 3+lc]
		return c, nil
	}
}

// SplitResponse splits a response APDU into data and status word.
func SplitResponse(b []byte) (data []byte, sw uint16, err error) {
	if len(b) < 2 {
		return nil, 0, fmt.Errorf("response shorter than SW")
	}
	return b[:len(b)-2], uint16(b[len(b)-2])<<8 | uint16(b[len(b)-1]), nil
}
