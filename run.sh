#!/bin/bash
# usage: run.sh <Cxx> [quick|thorough]   |   run.sh replay <file>
# Rebuilds vcheck against the CURRENT working tree of /repo (module replace => /repo) and runs the check.
set -u
cd "$(dirname "$(readlink -f "$0")")"
export VERIF_ROOT=$PWD
export GOFLAGS=-mod=mod GOPROXY=off
export GOCACHE=${GOCACHE:-/verif/cache/gocache}   # shared build cache (also for snapshots)
mkdir -p $VERIF_ROOT/bin $VERIF_ROOT/out /verif/cache
BIN=$VERIF_ROOT/bin/vcheck-$$; trap 'rm -f $BIN $VERIF_ROOT/out/build.$$.log' EXIT
ID=${1:?id}; TIER=${2:-${VERIF_TIER:-quick}}
# C20 needs the instrumented overlay build: it has its own runner (same exit contract)
if [ "$ID" = C20 ]; then exec $VERIF_ROOT/run_c20.sh "$TIER"; fi
if [ "$ID" = replay ] && grep -q '"property": *"C20"\|"property":"C20"' "$TIER" 2>/dev/null; then exec $VERIF_ROOT/run_c20.sh replay "$TIER"; fi
python3 $VERIF_ROOT/tools/genall.py
if ! go build -o $BIN ./cmd/vcheck 2>$VERIF_ROOT/out/build.$$.log; then
  # a tree that does not compile is not a property violation; report as harness error
  cat $VERIF_ROOT/out/build.$$.log >&2; rm -f $VERIF_ROOT/out/build.$$.log
  echo "HARNESS-ERROR build failed" >&2
  exit 2
fi
# workers inherit the address-space cap: a runaway allocation kills one worker (reported), not the sandbox
ulimit -v ${VERIF_ULIMIT_KB:-12000000} 2>/dev/null || true
if [ "$ID" = replay ]; then $BIN replay "$TIER"; exit $?; fi
$BIN run "$ID" "$TIER"; exit $?
