//go:build verifinst

package main

import (
	"encoding/json"
	"fmt"
	"os"
	"strings"

	vs "github.com/gmrtd/gmrtd/verifsched"

	"verif/checks/c20"
	"verif/internal/vc"
)

func init() {
	vc.Register(&vc.Check{ID: "C20", Level: "model_checking", Run: run, Replay: replay, QuickSec: 80, ThoroSec: 1000, NeedsInst: true,
		Rule: "systematic schedule exploration of the REAL library code (instrumented from the working tree at every run: package sync replaced by a scheduler-aware shim, a scheduling marker before every statement of reader, verifier, mobile and the cms certificate pools). Scenarios S1 shared reader.Reader (ReadDocument || SkipImages || WithAAChallenge), S2 shared verifier.Verifier (Verify || WithAAChallenge(c') || Verify), S3 shared mobile.Reader (ReadDocument || SetApduMaxLe;SkipImages || ReadDocument on one chip), S4 two readers + one verifier sharing a GenericCertPool inside a CombinedCertPool, S5/S5f three mobile.PreloadCscaCertPool + mobile.Verifier.Verify on the lazily loaded built-in store (S5f: a loader fails); fresh objects, a deterministic BAC + active-authentication chip (about 35 exchanges per read) and per-thread deterministic randomness in every execution. Per scenario EVERY schedule with at most P preemptions is executed (replay-prefix DFS; forced switches are free), at two granularities: 'sync' = scheduling points at every Lock/Unlock/Once.Do, every Transceive, every status callback, every trust store loader, every call of a certificate pool method (S1, S2, S4; in S3/S5 the pool traffic is not shared and these points are left to statement granularity) and thread start; 'stmt' = additionally before every statement of the instrumented files. Bounds per scenario are listed in coverage.scenarios. L0 (no concurrency, the anchor for 'the result a lone call would have returned'): 225 (thorough 465) configurations of the mobile bindings - SetApduMaxLe x SkipPace x SkipImages x WithAAChallenge x password kind x 4 chip arrangements; 9 verifier cases - against the engine objects they wrap: identical result, exchange count, byte-exact command stream at the chip and challenges signed. Reference semantics of setters is call-by-value: in explored and free-running executions the caller recycles its argument buffer right after the setter returned. Oracle: the joint outcome (every call's result: error, files with content hashes, verdicts, AA nonce, exchanges; plus what the chip / status listener / loader counters saw) equals the outcome of SOME sequential order of the same calls (brute force over all interleavings of whole calls); S5: loaders ran exactly once and all callers saw one pool / one error; no deadlock; no panic. evaluations = schedules executed to completion and judged; states = distinct control states (vector of per-thread operation histories) at choice points, per worker; transitions = scheduling points executed; traces_validated_against_impl = executions of the real code; distinct_nontrivial = distinct (scenario, granularity, preemptions, outcome). The free-running -race pass (same bodies, real goroutines, shim in pass-through; in S4 the three parties meet right before passive authentication; plus S6 = 6 verifiers released from a barrier on one shared CombinedCertPool / GenericCertPool and S7 = 4 mobile.Verifiers on the loaded built-in store, because the detector only sees conflicting accesses that are not separated by the library's own fmt/sync.Pool happens-before edges, i.e. practically simultaneous ones) is run by run_c20.sh alongside this part and folded in by worker 0.",
		Assume: []string{
			"scheduling points are statement boundaries of the instrumented files and the shim operations: interleavings inside one statement (expression evaluation order) and inside uninstrumented packages (iso7816, document, passiveauth, cms parsing) are not explored; those packages are only reached through per-call objects in these scenarios",
			"the cooperative executions hide data races from the race detector by construction; unsynchronised accesses are the job of the statement-granularity exploration (they show as non-sequential outcomes) and of the separate free-running -race pass",
			"crypto/rand.Reader is replaced by a deterministic stream per logical thread; the reference chip (refchip, BAC + secure messaging + ECDSA active authentication) and the reference PKI (refpki) are independent of the library",
			"the built-in master lists are replaced by counting stubs serving two reference CSCA certificates (the real lists take seconds to verify and are not the subject of this property)",
		}})
}

type replayCase struct {
	Scenario string `json:"scenario"`
	Gran     string `json:"granularity"`
	Prefix   []int  `json:"schedule"`
}

func granOf(s string) vs.Granularity {
	if s == "stmt" {
		return vs.GranStmt
	}
	return vs.GranSync
}

// reference builds the sequential reference of a scenario (every interleaving of whole calls), each order
// executed twice to make sure the harness itself is deterministic.
func reference(e *env, sc *scenario) (*c20.Reference, []string, []string, error) {
	shape := sc.make(e)
	names := callNames(shape)
	ref := c20.NewReference()
	var legend []string
	e.refMode = true
	defer func() { e.refMode = false }()
	for _, order := range merges(shape.threads) {
		o1, inst := e.runSequential(sc, order)
		if inst.check != nil {
			if k, w := inst.check(o1); k != "" {
				return nil, nil, nil, fmt.Errorf("scenario %s: the sequential order %v already fails the scenario oracle: %s: %s", sc.id, orderStr(shape, order), k, w)
			}
		}
		o2, _ := e.runSequential(sc, order)
		if o1.Key() != o2.Key() {
			return nil, nil, nil, fmt.Errorf("scenario %s: sequential order %v is not deterministic:\n%s\n%s", sc.id, orderStr(shape, order), o1.Key(), o2.Key())
		}
		if _, seen := ref.ByKey[o1.Key()]; !seen {
			legend = append(legend, fmt.Sprintf("order %s => %s", orderStr(shape, order), o1.Key()))
		}
		ref.Add(nil, o1)
		if ref.LabelOf == nil {
			ref.LabelOf = map[string]string{}
		}
		if _, ok := ref.LabelOf[o1.Key()]; !ok {
			ref.LabelOf[o1.Key()] = orderStr(shape, order)
		}
	}
	return ref, names, legend, nil
}

func orderStr(inst *instance, order []step) string {
	var s []string
	for _, st := range order {
		s = append(s, inst.threads[st.t][st.c].name)
	}
	return "[" + strings.Join(s, ", ") + "]"
}

// judge applies the whole oracle to one execution. key == "" means the property held.
func judge(sc *scenario, ref *c20.Reference, names []string, ex *vs.Exec, o c20.Outcome, inst *instance) (key, what string) {
	if ex.Deadlock {
		return sc.id + "/deadlock", "no thread is enabled while some are unfinished: " + strings.Join(ex.Blocked, "; ")
	}
	for i, c := range o.Calls {
		if strings.Contains(c, "PANIC ") {
			return sc.id + "/panic/" + names[i], "a call panicked: " + c
		}
	}
	if inst.check != nil {
		if k, w := inst.check(o); k != "" {
			return sc.id + "/" + k, w
		}
	}
	if ok, k, w := ref.Judge(o, names); !ok {
		return sc.id + "/" + k, w
	}
	return "", ""
}

// progress of one scenario across the passes
type scProgress struct {
	sc       *scenario
	ref      *c20.Reference
	names    []string
	violated bool
	done     map[vs.Granularity]int // highest completed preemption bound
	states   map[vs.Granularity]map[uint64]struct{}
	cut      map[vs.Granularity]bool
}

func run(c *vc.Ctx) {
	e, err := newEnv(true)
	if err != nil {
		c.HarnessError("set-up: %v", err)
		return
	}
	only := os.Getenv("C20_ONLY") // debugging aid: comma separated scenario ids
	if only == "" || strings.Contains(","+only+",", ",L0,") {
		layerSection(c, e)
	}
	var scInfo []map[string]any
	var progs []*scProgress
	for _, sc := range scenarios() {
		if only != "" && !strings.Contains(","+only+",", ","+sc.id+",") {
			continue
		}
		if sc.raceOnly {
			scInfo = append(scInfo, map[string]any{"id": sc.id, "title": sc.title, "free_running_only": true})
			continue
		}
		ref, names, legend, err := reference(e, sc)
		if err != nil {
			c.HarnessError("%v", err)
			continue
		}
		ti := 0
		if c.Thorough() {
			ti = 1
		}
		scInfo = append(scInfo, map[string]any{"id": sc.id, "title": sc.title, "threads": names, "sequential_orders_distinct_outcomes": len(ref.ByKey),
			"sequential_outcomes": legend, "preemption_bound_sync": sc.syncBound[ti], "preemption_bound_stmt": sc.stmtBound[ti]})
		progs = append(progs, &scProgress{sc: sc, ref: ref, names: names, done: map[vs.Granularity]int{vs.GranSync: -1, vs.GranStmt: -1},
			states: map[vs.Granularity]map[uint64]struct{}{vs.GranSync: {}, vs.GranStmt: {}}, cut: map[vs.Granularity]bool{}})
	}
	c.Extra("scenarios", scInfo)
	// Order of work: preemption bound outermost (bound 0 of every scenario and granularity, then bound 1, ...),
	// first up to the quick bounds, then (thorough) the additional layers. A deadline - or a loaded machine -
	// can therefore only cut the deepest layers, and everything that needs a single preemption is found early.
	passes := 1
	if c.Thorough() {
		passes = 2
	}
	grans := []vs.Granularity{vs.GranSync, vs.GranStmt}
	expired := false
	for pass := 0; pass < passes && !expired; pass++ {
		for B := 0; B <= 8 && !expired; B++ {
			for _, p := range progs {
				for _, gran := range grans {
					b := p.sc.syncBound
					if gran == vs.GranStmt {
						b = p.sc.stmtBound
					}
					lo, hi := 0, b[0]
					if pass == 1 {
						lo, hi = b[0]+1, b[1]
					}
					if B < lo || B > hi || p.violated || expired || p.cut[gran] || p.done[gran] != B-1 {
						continue
					}
					if !exploreLayer(c, e, p, gran, B, hi) {
						if c.Expired() {
							expired = true
						}
						continue
					}
					p.done[gran] = B
				}
			}
		}
	}
	for _, p := range progs {
		for _, gran := range grans {
			sec := fmt.Sprintf("%s %s-granularity schedules", p.sc.id, gran)
			c.AddStates(int64(len(p.states[gran])))
			b := p.sc.syncBound
			if gran == vs.GranStmt {
				b = p.sc.stmtBound
			}
			want := b[0]
			if c.Thorough() {
				want = b[1]
			}
			switch {
			case p.violated:
				c.SecBound(sec, "stopped at the first violation of this scenario")
				c.SecNotExhaustive(sec, "stopped at the first violation of this scenario")
			case p.done[gran] < want:
				c.SecBound(sec, fmt.Sprintf("all schedules with <= %d preemptions (requested bound %d: deadline)", p.done[gran], want))
				c.SecNotExhaustive(sec, fmt.Sprintf("deadline: preemption bounds 0..%d complete, requested %d", p.done[gran], want))
			default:
				c.SecBound(sec, fmt.Sprintf("all schedules with <= %d preemptions", p.done[gran]))
			}
		}
	}
	if c.Shard == 0 {
		recordRacePass(c)
	}
}

// exploreLayer executes every schedule of the scenario with at most B preemptions at the given granularity and
// judges those with exactly B (the others were judged in earlier layers). It returns false if the layer
// was not completed (violation, deadline, harness error).
func exploreLayer(c *vc.Ctx, e *env, p *scProgress, gran vs.Granularity, B, maxB int) bool {
	sc, ref, names := p.sc, p.ref, p.names
	sec := fmt.Sprintf("%s %s-granularity schedules", sc.id, gran)
	secOut := fmt.Sprintf("%s observed outcomes", sc.id)
	secCont := fmt.Sprintf("%s contention", sc.id)
	states := p.states[gran]
	var lastO c20.Outcome
	var lastInst *instance
	k := 0
	mine := func() bool { k++; return (k-1)%c.NShards == c.Shard }
	nexec := 0
	st := vs.Explore(B, func(prefix []int, expect []uint32) *vs.Exec {
		var ex *vs.Exec
		ex, lastO, lastInst = e.runScheduled(sc, gran, prefix, expect, true)
		return ex
	}, func(prefix []int, ex *vs.Exec, shared bool) bool {
		if ex.Diverged != "" {
			c.HarnessError("%s %s schedule %v: %s", sc.id, gran, prefix, ex.Diverged)
			p.cut[gran] = true
			return false
		}
		if ex.Overrun {
			c.HarnessError("%s %s schedule %v: step horizon exceeded (livelock?)", sc.id, gran, prefix)
			p.cut[gran] = true
			return false
		}
		c.AddTraces(1)
		c.AddTrans(ex.Steps)
		// executions with fewer preemptions were judged in the previous layer; the preemption-free
		// executions are run by every worker and judged by worker 0
		if ex.Preemptions != B || (shared && c.Shard != 0) {
			return !c.Expired()
		}
		nexec++
		if len(states) < 2_000_000 {
			for _, sk := range ex.StateKeys {
				states[sk] = struct{}{}
			}
		}
		// periodic determinism self-check: the same schedule again must give the same trace and outcome
		if nexec%64 == 1 {
			ex2, o2, _ := e.runScheduled(sc, gran, ex.Choices(), ex.Sigs(), false)
			if ex2.TraceHash != ex.TraceHash || o2.Key() != lastO.Key() || ex2.Diverged != "" {
				c.HarnessError("%s %s schedule %v is not reproducible: %s", sc.id, gran, ex.Trimmed(), ex2.Diverged)
				p.cut[gran] = true
				return false
			}
		}
		c.Outcome(sec, fmt.Sprintf("preemptions=%d", ex.Preemptions))
		key, what := judge(sc, ref, names, ex, lastO, lastInst)
		label := "VIOLATION " + key
		if key == "" {
			label = "as sequential order " + ref.LabelOf[lastO.Key()]
		}
		c.Outcome(secOut, label)
		if ex.Contended > 0 {
			c.Outcome(secCont, "some thread had to wait for a lock / a running Once held by another thread")
		} else {
			c.Outcome(secCont, "no thread ever waited")
		}
		c.Eval(-2) // one evaluation per judged schedule (it is tallied in three sections)
		c.Distinct(fmt.Sprintf("%s|%s|%d|%s", sc.id, gran, ex.Preemptions, lastO.Key()))
		if key != "" {
			p.violated = true
			rc := replayCase{sc.id, gran.String(), ex.Trimmed()}
			what = fmt.Sprintf("%s Scenario %s (%s), %s granularity, %d preemption(s), schedule %v: %s Outcome: {%s}",
				what, sc.id, sc.title, gran, ex.Preemptions, ex.Trimmed(), ex.Describe(6), lastO.Key())
			c.Violation(sec, key, what, rc, func() bool {
				ex3, o3, i3 := e.runScheduled(sc, gran, rc.Prefix, nil, false)
				k3, _ := judge(sc, ref, names, ex3, o3, i3)
				return k3 == key
			})
			c.Sample(map[string]any{"scenario": sc.id, "granularity": gran.String(), "schedule": ex.Trimmed(), "switches": ex.Describe(6), "verdict": key})
			return false
		}
		if nexec == 1 && B == maxB {
			c.Sample(map[string]any{"scenario": sc.id, "granularity": gran.String(), "schedule": ex.Trimmed(), "switches": ex.Describe(4),
				"choice_points": len(ex.Points), "scheduling_points": ex.Steps, "statement_markers_passed": ex.Stmts, "outcome": label})
		}
		return !c.Expired()
	}, mine)
	return !st.Stopped
}

func replay(c *vc.Ctx, raw json.RawMessage) string {
	var doc struct {
		Section string     `json:"section"`
		Case    replayCase `json:"case"`
	}
	if err := json.Unmarshal(raw, &doc); err != nil {
		return err.Error()
	}
	if strings.HasPrefix(doc.Section, "free-running") {
		return "this class comes from the free-running -race pass (dynamic detection); it has no schedule to replay. Re-run /verif/run_c20.sh quick. Recorded report:\n" + string(raw)
	}
	e, err := newEnv(true)
	if err != nil {
		return "set-up: " + err.Error()
	}
	if strings.HasPrefix(doc.Section, "L0 ") {
		var ld struct {
			Case layerCase `json:"case"`
		}
		if err := json.Unmarshal(raw, &ld); err != nil {
			return err.Error()
		}
		key, what, obs, herr := runLayer(e, ld.Case)
		if key != "" {
			c.Violation(doc.Section, key, what, ld.Case, nil)
		}
		return fmt.Sprintf("layer case %+v\n  observation: %s\n  verdict: %s %s %v", ld.Case, obs, key, what, herr)
	}
	for _, sc := range scenarios() {
		if sc.id != doc.Case.Scenario {
			continue
		}
		ref, names, legend, err := reference(e, sc)
		if err != nil {
			return err.Error()
		}
		ex, o, inst := e.runScheduled(sc, granOf(doc.Case.Gran), doc.Case.Prefix, nil, false)
		key, what := judge(sc, ref, names, ex, o, inst)
		if key != "" {
			c.Violation(doc.Section, key, what, doc.Case, nil)
		}
		return fmt.Sprintf("scenario %s (%s), %s granularity, schedule %v\n  context switches: %s\n  preemptions=%d choice points=%d scheduling points=%d\n  outcome: {%s}\n  sequential outcomes:\n    %s\n  verdict: %s %s",
			sc.id, sc.title, doc.Case.Gran, doc.Case.Prefix, ex.Describe(20), ex.Preemptions, len(ex.Points), ex.Steps, o.Key(), strings.Join(legend, "\n    "), key, what)
	}
	return "unknown scenario " + doc.Case.Scenario
}
