//go:build verifinst

package main

import (
	"bytes"
	"crypto/sha256"
	"encoding/json"
	"fmt"
	"strings"

	"github.com/gmrtd/gmrtd/document"
	"github.com/gmrtd/gmrtd/iso7816"
	"github.com/gmrtd/gmrtd/mobile"
	"github.com/gmrtd/gmrtd/password"
	"github.com/gmrtd/gmrtd/reader"
	"github.com/gmrtd/gmrtd/verifier"

	"verif/checks/c20"
	"verif/internal/perso"
	"verif/internal/refchip"
	"verif/internal/refpki"
	"verif/internal/vc"
)

// Layer equivalence ("the result a lone call would have returned" needs an anchor that is not the object under
// test): the sequential-equivalence oracle compares concurrent outcomes with sequential outcomes of the SAME
// object, so a binding that forwards a configuration wrongly (or not at all) is consistent with itself. This
// section runs, without any concurrency, every configuration of the mobile bindings against the engine objects
// they wrap and requires identical observations: the result, the byte-exact command stream the chip received and
// the challenges it signed.

type layerCase struct {
	Chip       string `json:"chip"`     // bac | pace+bac | cam | pace-can
	Password   string `json:"password"` // mrz | mrzi | can
	MaxLe      int    `json:"max_le"`
	SkipPace   bool   `json:"skip_pace"`
	SkipImages bool   `json:"skip_images"`
	Challenge  bool   `json:"aa_challenge"`
	Kind       string `json:"kind"` // read | verify
	// verify cases
	Blob  string `json:"blob,omitempty"`               // genuine | nonce-changed | garbage
	VChal string `json:"verifier_challenge,omitempty"` // none | match | other
}

func layerConfig(e *env, chip string) perso.Config {
	prof := refpki.Profile{Country: "NL", State: c20.State, CSCA: refpki.EC("P-256", false, 0), DS: refpki.EC("P-256", false, 1), Hash: refpki.SHA256}
	one := 1
	cfg := perso.Config{Profile: &prof, DGs: []int{2, 7, 11}, AA: &perso.AASpec{Curve: "P-256"}}
	switch chip {
	case "bac":
		cfg.BAC = true
	case "pace+bac":
		cfg.BAC = true
		cfg.PACE = []refchip.PACEProto{{Mapping: 2, Cipher: 2, ParamID: 13}}
		cfg.CA = []perso.CASpec{{Curve: "P-256", Cipher: 2, KeyID: &one}}
	case "cam":
		cfg.PACE = []refchip.PACEProto{{Mapping: 6, Cipher: 2, ParamID: 13}}
	case "pace-can":
		cfg.BAC = true
		cfg.PACE = []refchip.PACEProto{{Mapping: 2, Cipher: 2, ParamID: 12}}
		cfg.PACEByCAN = true
	}
	return cfg
}

func chipDigest(p *perso.Perso) string {
	h := sha256.New()
	for _, ex := range p.Chip.Log {
		h.Write(ex.Wire)
		h.Write([]byte{0xFF})
	}
	t := p.Chip.Truth
	return fmt.Sprintf("chip[exchanges=%d commands=%x bac=%v pace=%v aa-challenges=%x]", len(p.Chip.Log), h.Sum(nil)[:8], t.BACCompleted, t.PACECompleted, t.AAChallenges)
}

// obsAll extends c20.ObserveDocEx (tailored to the BAC world) by the remaining files and verdicts.
func obsAll(d *document.DocumentEx, err error) string {
	s := c20.ObserveDocEx(d, err)
	if d == nil {
		return s
	}
	l := d.Document.Mf.Lds1
	h := func(b []byte) string { x := sha256.Sum256(b); return fmt.Sprintf("%x", x[:6]) }
	if d.Document.Mf.CardSecurity != nil {
		s += " CardSecurity=" + h(d.Document.Mf.CardSecurity.GetRawData())
	}
	if l.Dg14 != nil {
		s += " DG14=" + h(l.Dg14.RawData)
	}
	ss := d.Session
	s += fmt.Sprintf(" ca-ok=%v cam-ok=%v pace-ok=%v", ss.ChipAuthResult != nil && ss.ChipAuthResult.Success, ss.PaceCamResult != nil && ss.PaceCamResult.Success, ss.PaceResult != nil && ss.PaceResult.Success)
	if sum := d.Summary(); sum != nil {
		s += fmt.Sprintf(" auth=%v", sum.ChipAuthenticity)
	}
	if js, jerr := json.Marshal(d.Session); jerr == nil {
		s += " session=" + h(js)
	}
	return s
}

func runLayerRead(e *env, lc layerCase) (engine, mob string, herr error) {
	cfg := layerConfig(e, lc.Chip)
	chal := []byte{0xC1, 0xC2, 0xC3, 0xC4, 0xC5, 0xC6, 0xC7, 0xC8}
	// ---- engine
	{
		p := perso.Build(cfg)
		e.resetExecution()
		e.seqThread = 0
		nfc := iso7816.NewNfcSession(p.Chip)
		if lc.MaxLe > 0 {
			nfc.SetMaxLe(lc.MaxLe)
		}
		r := reader.NewReader(nil, nfc, e.pool())
		if lc.SkipPace {
			r.SkipPace()
		}
		if lc.SkipImages {
			r.SkipImages()
		}
		if lc.Challenge {
			if _, err := r.WithAAChallenge(chal); err != nil {
				return "", "", err
			}
		}
		var pw *password.Password
		var err error
		switch lc.Password {
		case "mrz":
			pw, err = password.NewPasswordMrz(p.Zone)
		case "mrzi":
			pw, err = password.NewPasswordMrzi(p.MRZInfo[0:9], p.MRZInfo[10:16], p.MRZInfo[17:23])
		default:
			pw = password.NewPasswordCan(p.CAN)
		}
		if err != nil {
			return "", "", fmt.Errorf("engine password: %w", err)
		}
		engine = guard("engine", func() string {
			d, log, rerr := r.ReadDocument(pw, nil, nil)
			return obsAll(d, rerr) + " " + c20.ObserveApduLog(log)
		})() + " " + chipDigest(p)
	}
	// ---- mobile bindings
	{
		p := perso.Build(cfg)
		e.resetExecution()
		e.seqThread = 0
		r := mobile.NewReader(nil, p.Chip)
		if lc.MaxLe > 0 {
			if err := r.SetApduMaxLe(lc.MaxLe); err != nil {
				return "", "", err
			}
		}
		if lc.SkipPace {
			r.SkipPace()
		}
		if lc.SkipImages {
			r.SkipImages()
		}
		if lc.Challenge {
			buf := bytes.Clone(chal)
			if _, err := r.WithAAChallenge(buf); err != nil {
				return "", "", err
			}
			for i := range buf {
				buf[i] = 0
			}
		}
		var pw *mobile.MrtdPassword
		var err error
		switch lc.Password {
		case "mrz":
			pw, err = mobile.NewPasswordMrz(p.Zone)
		case "mrzi":
			pw, err = mobile.NewPasswordMrzi(p.MRZInfo[0:9], p.MRZInfo[10:16], p.MRZInfo[17:23])
		default:
			pw, err = mobile.NewPasswordCan(p.CAN)
		}
		if err != nil {
			return "", "", fmt.Errorf("mobile password: %w", err)
		}
		mob = guard("mobile", func() string {
			doc, rerr := r.ReadDocument(pw, nil, nil)
			var d *document.DocumentEx
			n := "apdus=nil"
			if doc != nil {
				d = mobile.VerifDocumentEx(doc)
				if js, jerr := doc.ApduLogJson(); jerr == nil {
					var entries []json.RawMessage
					var wrap map[string]json.RawMessage
					if json.Unmarshal(js, &entries) == nil {
						n = fmt.Sprintf("apdus=%d", len(entries))
					} else if json.Unmarshal(js, &wrap) == nil {
						for _, v := range wrap {
							if json.Unmarshal(v, &entries) == nil {
								n = fmt.Sprintf("apdus=%d", len(entries))
							}
						}
					}
				}
			}
			return obsAll(d, rerr) + " " + n
		})() + " " + chipDigest(p)
	}
	e.seqThread = -1
	return engine, mob, nil
}

func runLayerVerify(e *env, lc layerCase) (engine, mob string, herr error) {
	var blob []byte
	switch lc.Blob {
	case "genuine":
		blob = e.evid
	case "nonce-changed":
		d, bundle, err := document.UnmarshalVerifiableDoc(e.evid)
		if err != nil || bundle.ActiveAuth == nil {
			return "", "", fmt.Errorf("set-up evidence: %v", err)
		}
		ex := &document.DocumentEx{Document: *d}
		n := bytes.Clone(bundle.ActiveAuth.Nonce)
		n[7] ^= 1
		ex.Session.ActiveAuthResult = &document.ActiveAuthResult{Success: true, Evidence: &document.ActiveAuthEvidence{Algorithm: bundle.ActiveAuth.Algorithm, Nonce: n, Signature: bundle.ActiveAuth.Signature}}
		if blob, err = ex.ToCbor(); err != nil {
			return "", "", err
		}
	default:
		blob = []byte{0xA1, 0x00}
	}
	var ch []byte
	switch lc.VChal {
	case "match":
		ch = e.evNonce
	case "other":
		ch = e.chalV
	}
	e.resetExecution()
	e.seqThread = 0
	engine = guard("engine", func() string {
		v := verifier.NewVerifier(e.pool())
		if ch != nil {
			if _, err := v.WithAAChallenge(ch); err != nil {
				return "setter: " + err.Error()
			}
		}
		d, err := v.Verify(blob)
		return obsAll(d, err)
	})()
	e.resetExecution()
	e.seqThread = 0
	mob = guard("mobile", func() string {
		v := mobile.NewVerifier()
		if ch != nil {
			buf := bytes.Clone(ch)
			if _, err := v.WithAAChallenge(buf); err != nil {
				return "setter: " + err.Error()
			}
			for i := range buf {
				buf[i] = 0
			}
		}
		doc, err := v.Verify(blob)
		var d *document.DocumentEx
		if doc != nil {
			d = mobile.VerifDocumentEx(doc)
		}
		// the binding wraps the engine's error once; the cause must be the engine's
		return strings.Replace(obsAll(d, err), "err=[Verify] verifier error: ", "err=", 1)
	})()
	e.seqThread = -1
	return engine, mob, nil
}

// swapTx lets one mobile.Reader be presented with a fresh chip per call.
type swapTx struct{ cur mobile.Transceiver }

func (s *swapTx) Transceive(cla, ins, p1, p2 int, data []byte, le int, enc []byte) []byte {
	return s.cur.Transceive(cla, ins, p1, p2, data, le, enc)
}

func mobileObs(doc *mobile.Document, rerr error) string {
	var d *document.DocumentEx
	n := "apdus=nil"
	if doc != nil {
		d = mobile.VerifDocumentEx(doc)
		if js, jerr := doc.ApduLogJson(); jerr == nil {
			// (the log carries timings: only the number of entries is compared)
			var entries []json.RawMessage
			var wrap map[string]json.RawMessage
			if json.Unmarshal(js, &entries) == nil {
				n = fmt.Sprintf("apdus=%d", len(entries))
			} else if json.Unmarshal(js, &wrap) == nil {
				for _, v := range wrap {
					if json.Unmarshal(v, &entries) == nil {
						n = fmt.Sprintf("apdus=%d", len(entries))
					}
				}
			}
		}
	}
	return obsAll(d, rerr) + " " + n
}

// runLayerReuse: ONE mobile.Reader serves two (three) reads, each of a freshly presented chip. Every call must
// return what a lone call on a fresh Reader returns for that chip, and a Document already handed out must not
// change when the Reader is used again.
func runLayerReuse(e *env, lc layerCase) (lone, reused string, herr error) {
	cfg := layerConfig(e, lc.Chip)
	read := func(r *mobile.Reader, sw *swapTx, p *perso.Perso) (*mobile.Document, string, error) {
		sw.cur = p.Chip
		pw, err := mobile.NewPasswordMrz(p.Zone)
		if err != nil {
			return nil, "", err
		}
		e.resetExecution()
		e.seqThread = 0
		var doc *mobile.Document
		o := guard("mobile", func() string {
			var rerr error
			doc, rerr = r.ReadDocument(pw, nil, nil)
			return mobileObs(doc, rerr)
		})() + " " + chipDigest(p)
		return doc, o, nil
	}
	mk := func() (*mobile.Reader, *swapTx) {
		sw := &swapTx{}
		r := mobile.NewReader(nil, sw)
		if lc.MaxLe > 0 {
			r.SetApduMaxLe(lc.MaxLe)
		}
		if lc.SkipImages {
			r.SkipImages()
		}
		return r, sw
	}
	r0, sw0 := mk()
	_, lone, herr = read(r0, sw0, perso.Build(cfg))
	if herr != nil {
		return "", "", herr
	}
	r, sw := mk()
	doc1, o1, _ := read(r, sw, perso.Build(cfg))
	_, o2, _ := read(r, sw, perso.Build(cfg))
	_, o3, _ := read(r, sw, perso.Build(cfg))
	after := mobileObs(doc1, nil)
	e.seqThread = -1
	reused = lone
	switch {
	case o1 != lone:
		reused = "call 1: " + o1
	case o2 != lone:
		reused = "call 2: " + o2
	case o3 != lone:
		reused = "call 3: " + o3
	case !strings.HasPrefix(o1, after):
		reused = "the Document returned by call 1 changed after later calls: " + after
	}
	return lone, reused, nil
}

// runLayerReuseEngine: the same for the engine object itself - ONE reader.Reader (one NfcSession) serves two reads,
// each of a freshly presented chip ("calls made one after another: each call returns the result a lone call would
// have returned").
func runLayerReuseEngine(e *env, lc layerCase) (lone, reused string, herr error) {
	cfg := layerConfig(e, lc.Chip)
	read := func(r *reader.Reader, sw *swapTx, p *perso.Perso) (string, error) {
		sw.cur = p.Chip
		pw, err := password.NewPasswordMrz(p.Zone)
		if err != nil {
			return "", err
		}
		e.resetExecution()
		e.seqThread = 0
		return guard("engine", func() string {
			d, log, rerr := r.ReadDocument(pw, nil, nil)
			return obsAll(d, rerr) + " " + c20.ObserveApduLog(log)
		})() + " " + chipDigest(p), nil
	}
	mk := func() (*reader.Reader, *swapTx) {
		sw := &swapTx{}
		nfc := iso7816.NewNfcSession(sw)
		if lc.MaxLe > 0 {
			nfc.SetMaxLe(lc.MaxLe)
		}
		r := reader.NewReader(nil, nfc, e.pool())
		if lc.SkipImages {
			r.SkipImages()
		}
		return r, sw
	}
	r0, sw0 := mk()
	lone, herr = read(r0, sw0, perso.Build(cfg))
	if herr != nil {
		return "", "", herr
	}
	r, sw := mk()
	o1, _ := read(r, sw, perso.Build(cfg))
	o2, _ := read(r, sw, perso.Build(cfg))
	e.seqThread = -1
	reused = lone
	switch {
	case o1 != lone:
		reused = "call 1: " + o1
	case o2 != lone:
		reused = "call 2: " + o2
	}
	return lone, reused, nil
}

func layerCases(thorough bool) []layerCase {
	var out []layerCase
	les := []int{0, 64, 231}
	if thorough {
		les = []int{0, 1, 64, 231, 256, 1000, 65536}
	}
	for _, chip := range []string{"bac", "pace+bac", "cam", "pace-can"} {
		for _, pw := range []string{"mrz", "mrzi", "can"} {
			if pw == "can" && chip != "pace-can" {
				continue
			}
			for _, le := range les {
				for m := 0; m < 8; m++ {
					out = append(out, layerCase{Kind: "read", Chip: chip, Password: pw, MaxLe: le, SkipPace: m&1 != 0, SkipImages: m&2 != 0, Challenge: m&4 != 0})
				}
			}
		}
	}
	for _, b := range []string{"genuine", "nonce-changed", "garbage"} {
		for _, vc := range []string{"none", "match", "other"} {
			out = append(out, layerCase{Kind: "verify", Blob: b, VChal: vc})
		}
	}
	for _, chip := range []string{"bac", "pace+bac", "cam"} {
		for _, le := range []int{0, 64} {
			for _, si := range []bool{false, true} {
				out = append(out, layerCase{Kind: "reuse", Chip: chip, Password: "mrz", MaxLe: le, SkipImages: si})
				if le == 0 && !si {
					out = append(out, layerCase{Kind: "reuse-engine", Chip: chip, Password: "mrz"})
				}
			}
		}
	}
	return out
}

func runLayer(e *env, lc layerCase) (key, what, obs string, herr error) {
	var a, b string
	if lc.Kind == "verify" {
		a, b, herr = runLayerVerify(e, lc)
	} else if lc.Kind == "reuse" {
		a, b, herr = runLayerReuse(e, lc)
	} else if lc.Kind == "reuse-engine" {
		a, b, herr = runLayerReuseEngine(e, lc)
	} else {
		a, b, herr = runLayerRead(e, lc)
	}
	if herr != nil {
		return "", "", "", herr
	}
	if a != b {
		k := "L0/mobile-binding-differs-from-engine/" + lc.Kind
		if lc.Kind == "reuse" {
			k = "L0/reused-mobile-reader-differs-from-lone-call"
		}
		if lc.Kind == "reuse-engine" {
			k = "L0/second-read-on-one-engine-reader-differs-from-lone-call"
		}
		return k, fmt.Sprintf("configuration %+v: the mobile binding and the engine object it wraps behave differently\n   engine: %s\n   mobile: %s", lc, a, b), b, nil
	}
	return "", "", a, nil
}

func layerSection(c *vc.Ctx, e *env) {
	sec := "L0 lone calls: mobile bindings vs engine objects"
	cases := layerCases(c.Thorough())
	c.SecBound(sec, fmt.Sprintf("%d configurations, no concurrency: chips {BAC, PACE-GM+BAC+CA, PACE-CAM, PACE by CAN} x password {MRZ, three fields, CAN} x SetApduMaxLe x SkipPace x SkipImages x WithAAChallenge (caller buffer recycled afterwards), mobile.Reader vs reader.Reader; blobs {genuine, nonce changed, garbage} x verifier challenge {none, matching, other}, mobile.Verifier vs verifier.Verifier; 12 reuse cases: three reads of freshly presented chips through ONE mobile.Reader, each equal to a lone call, earlier Documents unchanged. Observations compared: error, files, verdicts, session JSON, exchange count, hash of the exact command stream the chip received, challenges signed", len(cases)))
	for _, lc := range cases {
		if !c.Mine() {
			continue
		}
		if c.Expired() {
			c.SecNotExhaustive(sec, "deadline")
			break
		}
		key, what, obs, herr := runLayer(e, lc)
		if herr != nil {
			c.HarnessError("layer case %+v: %v", lc, herr)
			continue
		}
		c.Eval(1)
		c.AddTraces(2)
		c.Outcome(sec, map[bool]string{true: "identical", false: "DIFFERENT"}[key == ""])
		c.Distinct("L0/" + obs)
		if key != "" {
			l := lc
			c.Violation(sec, key, what, l, func() bool { k, _, _, _ := runLayer(e, l); return k != "" })
		}
	}
	e.resetExecution()
}
