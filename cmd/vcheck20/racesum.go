//go:build verifinst

package main

import (
	"fmt"
	"os"
	"path/filepath"
	"regexp"
	"sort"
	"strings"
	"time"

	"verif/internal/vc"
)

// The free-running -race pass is executed by run_c20.sh BEFORE the exploration (binary built with -race,
// GORACE=log_path=<dir>/race.log). Worker 0 of the exploration reads what it left behind, so that its
// result goes through the same runtime as everything else: evidence (coverage.race_pass), violation
// classes with narrow keys (the two racing functions), known_findings.json.

type raceReport struct {
	Key     string `json:"key"`
	Log     string `json:"race_log"`
	Excerpt string `json:"excerpt"`
	Count   int    `json:"reports"`
}

var frameFn = regexp.MustCompile(`^  (\S+)\(`)

// parseRaceLogs splits the detector's log files into reports and keys each by the innermost frames of
// the two conflicting accesses.
func parseRaceLogs(dir string) ([]*raceReport, error) {
	files, _ := filepath.Glob(filepath.Join(dir, "race.log*"))
	sort.Strings(files)
	byKey := map[string]*raceReport{}
	var order []string
	for _, f := range files {
		b, err := os.ReadFile(f)
		if err != nil {
			return nil, err
		}
		for _, blk := range strings.Split(string(b), "==================") {
			if !strings.Contains(blk, "WARNING: DATA RACE") {
				continue
			}
			lines := strings.Split(blk, "\n")
			var tops []string
			for i, l := range lines {
				if (strings.HasPrefix(l, "Write at") || strings.HasPrefix(l, "Read at") || strings.HasPrefix(l, "Previous write at") || strings.HasPrefix(l, "Previous read at") ||
					strings.HasPrefix(l, "Atomic") || strings.HasPrefix(l, "Previous atomic")) && i+1 < len(lines) {
					// innermost frame that belongs to the library (fall back to the innermost frame)
					top := ""
					for j := i + 1; j < len(lines) && strings.TrimSpace(lines[j]) != ""; j++ {
						if m := frameFn.FindStringSubmatch(lines[j]); m != nil {
							fn := m[1]
							if top == "" {
								top = fn
							}
							if strings.Contains(fn, "github.com/gmrtd/gmrtd/") && !strings.Contains(fn, "verifsched") {
								top = fn
								break
							}
						}
					}
					kind := strings.ToLower(strings.Fields(strings.TrimPrefix(l, "Previous "))[0])
					tops = append(tops, kind+":"+strings.TrimPrefix(top, "github.com/gmrtd/gmrtd/"))
				}
			}
			sort.Strings(tops)
			key := "race/" + strings.Join(tops, "|")
			r := byKey[key]
			if r == nil {
				ex := strings.TrimSpace(blk)
				if len(ex) > 2500 {
					ex = ex[:2500] + "\n..."
				}
				r = &raceReport{Key: key, Log: f, Excerpt: ex}
				byKey[key] = r
				order = append(order, key)
			}
			r.Count++
		}
	}
	var out []*raceReport
	for _, k := range order {
		out = append(out, byKey[k])
	}
	return out, nil
}

// recordRacePass is called by worker 0.
func recordRacePass(c *vc.Ctx) {
	dir := os.Getenv("C20_RACE_DIR")
	if dir == "" {
		c.Extra("race_pass", "not run (vcheck20 was started without run_c20.sh)")
		c.Cap("free-running -race pass not run")
		return
	}
	// the pass runs in the background while the schedules are explored: wait for it (bounded)
	var status []byte
	for i := 0; i < 1800; i++ {
		var err error
		if status, err = os.ReadFile(filepath.Join(dir, "status")); err == nil && len(status) > 0 {
			break
		}
		time.Sleep(500 * time.Millisecond)
	}
	st := strings.TrimSpace(string(status))
	sec := "free-running -race pass"
	if strings.HasPrefix(st, "crashed ") {
		// A process of the pass died. The Go runtime kills the process on unsynchronised map access
		// ("fatal error: concurrent map writes" etc., not recoverable): that is the library failing under
		// concurrent use, i.e. a violation, not a harness error. Anything else is a harness error.
		found := false
		files, _ := filepath.Glob(filepath.Join(dir, "stderr.*"))
		for _, f := range files {
			b, _ := os.ReadFile(f)
			txt := string(b)
			i := strings.Index(txt, "fatal error: concurrent map")
			if i < 0 {
				continue
			}
			found = true
			ex := txt[i:]
			if len(ex) > 2000 {
				ex = ex[:2000]
			}
			fn := "?"
			for _, l := range strings.Split(ex, "\n") {
				if strings.HasPrefix(l, "github.com/gmrtd/gmrtd/") && !strings.Contains(l, "verifsched") {
					if k := strings.LastIndex(l, "("); k > 0 {
						fn = strings.TrimPrefix(l[:k], "github.com/gmrtd/gmrtd/")
					}
					break
				}
			}
			c.Outcome(sec, "process killed by the runtime: concurrent map access")
			c.Violation(sec, "free-running/fatal-concurrent-map-access/"+fn, "the Go runtime killed the free-running process: unsynchronised concurrent map access inside the library while independent calls ran in parallel ("+filepath.Base(f)+"):\n"+ex, map[string]any{"stderr": f, "excerpt": ex}, nil)
		}
		if !found {
			c.HarnessError("free-running -race pass crashed: %q (see %s/stderr.*)", st, dir)
			return
		}
	} else if !strings.HasPrefix(st, "done ") {
		c.HarnessError("free-running -race pass did not complete: %q", st)
		return
	}
	reps, err := parseRaceLogs(dir)
	if err != nil {
		c.HarnessError("reading race logs: %v", err)
		return
	}
	c.SecBound(sec, st+" (dynamic detection, not enumeration)")
	info := map[string]any{"status": st, "race_reports": len(reps), "log_dir": dir}
	c.Extra("race_pass", info)
	if len(reps) == 0 {
		c.Outcome(sec, "no race report")
	}
	for _, r := range reps {
		c.Outcome(sec, "race report")
		c.Violation(sec, r.Key, fmt.Sprintf("the race detector reported a data race while the scenario bodies ran on real goroutines (%d report(s) of this class; full log %s):\n%s", r.Count, r.Log, r.Excerpt), r, nil)
	}
	// oracle failures of the free-running bodies (panic, trust store loaded twice)
	out, _ := os.ReadFile(filepath.Join(dir, "stdout"))
	seen := map[string]bool{}
	for _, l := range strings.Split(string(out), "\n") {
		if !strings.HasPrefix(l, "RACE-PASS-FAILURE ") {
			continue
		}
		f := strings.Fields(l)
		key := "free-running/" + strings.TrimPrefix(f[1], "scenario=")
		if i := strings.Index(l, " iteration="); i >= 0 {
			rest := strings.SplitN(l[i+1:], " ", 2)
			if len(rest) == 2 {
				key += "/" + strings.SplitN(rest[1], ":", 2)[0]
			}
		}
		if len(key) > 120 {
			key = key[:120]
		}
		if !seen[key] {
			seen[key] = true
			c.Outcome(sec, "oracle failure")
			c.Violation(sec, key, "free-running execution violated the scenario oracle: "+l, map[string]any{"line": l}, nil)
		}
	}
}
