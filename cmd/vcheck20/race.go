//go:build verifinst

package main

import (
	"fmt"
	"io"
	"log/slog"
	"os"
	"runtime"
	"strings"
	"sync"
	"time"

	vs "github.com/gmrtd/gmrtd/verifsched"
)

// raceMain is the free-running pass: the SAME scenario bodies, executed by real goroutines with the shim in
// pass-through mode (real sync primitives, markers do nothing), many iterations, in a binary built with
// -race. Race reports go to the file named by GORACE=log_path=...; run_c20.sh turns any report into a
// VIOLATION. This pass is dynamic detection, not enumeration: it exists because the cooperative executions
// of the exploration hide data races from the detector by construction.
func raceMain(iters int) int {
	slog.SetDefault(slog.New(slog.NewTextHandler(io.Discard, &slog.HandlerOptions{Level: slog.LevelError + 8})))
	e, err := newEnv(false)
	if err != nil {
		fmt.Fprintf(os.Stderr, "HARNESS-ERROR race pass set-up: %v\n", err)
		return 2
	}
	e.w.NoMemo = true
	vs.SetPassthrough(true)
	only := os.Getenv("C20_ONLY")
	bad := 0
	t0 := time.Now()
	for _, sc := range scenarios() {
		if only != "" && !strings.Contains(","+only+",", ","+sc.id+",") {
			continue
		}
		for it := 0; it < iters; it++ {
			e.resetExecution()
			inst := sc.make(e)
			res := make([][]string, len(inst.threads))
			start := make(chan struct{})
			var wg sync.WaitGroup
			for i := range inst.threads {
				i := i
				wg.Add(1)
				go func() {
					defer wg.Done()
					<-start
					// stagger the threads a little differently in every iteration
					if !sc.raceOnly {
						for k := 0; k < (it*7+i*13)%5; k++ {
							runtime.Gosched()
						}
					}
					for _, c := range inst.threads[i] {
						res[i] = append(res[i], c.name+": "+guard(c.name, c.fn)())
					}
				}()
			}
			close(start)
			wg.Wait()
			o := outcomeOf(inst, res)
			for _, c := range o.Calls {
				if strings.Contains(c, "PANIC ") {
					fmt.Printf("RACE-PASS-FAILURE scenario=%s iteration=%d a call panicked: %s\n", sc.id, it, c)
					bad++
				}
			}
			if inst.check != nil {
				if k, w := inst.check(o); k != "" {
					fmt.Printf("RACE-PASS-FAILURE scenario=%s iteration=%d %s: %s\n", sc.id, it, k, w)
					bad++
				}
			}
		}
	}
	fmt.Fprintf(os.Stderr, "race pass: %d iterations per scenario, %.1fs, oracle failures=%d\n", iters, time.Since(t0).Seconds(), bad)
	if bad > 0 {
		return 1
	}
	return 0
}
