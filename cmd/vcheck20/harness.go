//go:build verifinst

package main

import (
	"bytes"
	"crypto/rand"
	"crypto/sha256"
	"fmt"
	"io"
	"strings"
	"sync"
	"time"

	"github.com/gmrtd/gmrtd/cms"
	"github.com/gmrtd/gmrtd/document"
	"github.com/gmrtd/gmrtd/iso7816"
	"github.com/gmrtd/gmrtd/mobile"
	"github.com/gmrtd/gmrtd/reader"
	"github.com/gmrtd/gmrtd/verifier"
	vs "github.com/gmrtd/gmrtd/verifsched"

	"verif/checks/c20"
	"verif/internal/refchip"
	"verif/internal/vc"
)

// ---------------------------------------------------------------------------------------------------
// environment shared by all executions

type env struct {
	w       *c20.World
	evid    []byte // serialised verifiable document (with AA evidence) for the verifiers
	evNonce []byte
	chalA   []byte // caller-supplied AA challenge (reader side)
	chalV   []byte // verifier-side challenge that does NOT match the evidence nonce
	// per-execution state
	streams   [6]*refchip.DetRand
	seqThread int // logical thread id used while running a sequential reference order
	exch      [6]int
	// refMode is set while the sequential reference is computed. The reference semantics of a setter is
	// call-by-value: the configuration is what the argument held WHEN the setter was called. In explored and
	// free-running executions the caller recycles its argument buffer right after the setter returned
	// (recycle); in reference mode it does not, so an object that retains the caller's slice instead of
	// copying it produces outcomes outside the reference (and a data race in the -race pass).
	refMode bool
}

// recycle overwrites the caller's own argument buffer after a setter returned (not in reference mode).
func (e *env) recycle(buf, with []byte) {
	if !e.refMode {
		copy(buf, with)
	}
}

// threadRand replaces crypto/rand.Reader: one deterministic stream per logical thread, recreated for
// every execution, so that an execution is a function of the schedule only.
type threadRand struct{ e *env }

func (r threadRand) Read(p []byte) (int, error) {
	return r.e.streams[r.e.tid()].Read(p)
}

// tid is the logical thread on whose behalf the code runs: the scheduler's running thread, or the thread a
// sequential reference run is currently playing, or slot 5 for set-up code.
func (e *env) tid() int {
	if t := vs.Current(); t >= 0 {
		return t
	}
	if e.seqThread >= 0 {
		return e.seqThread
	}
	return 5
}

func (e *env) resetExecution() {
	for i := range e.streams {
		e.streams[i] = refchip.NewDetRand(fmt.Sprintf("c20-T%d", i))
	}
	e.exch = [6]int{}
	e.seqThread = -1
	mobile.VerifResetCsca()
	cms.VerifResetLoaderCalls()
	cms.VerifSetStubFail(false)
}

var realRand io.Reader

func newEnv(deterministicRand bool) (*env, error) {
	w, err := c20.NewWorld()
	if err != nil {
		return nil, err
	}
	e := &env{w: w, chalA: []byte{0xA1, 0xA2, 0xA3, 0xA4, 0xA5, 0xA6, 0xA7, 0xA8}, chalV: []byte{0xB1, 0xB2, 0xB3, 0xB4, 0xB5, 0xB6, 0xB7, 0xB8}}
	realRand = rand.Reader
	if deterministicRand {
		rand.Reader = threadRand{e}
	}
	e.resetExecution()
	// stub trust store: German list = the issuer's CSCA, Dutch list = an unrelated CSCA, Indonesian = empty
	if err := cms.VerifSetStubCerts(0, w.TrustDER); err != nil {
		return nil, err
	}
	if err := cms.VerifSetStubCerts(1, w.OtherDER); err != nil {
		return nil, err
	}
	// evidence for the verifiers: one ordinary read
	chip := w.NewChip()
	r := reader.NewReader(nil, iso7816.NewNfcSession(chip), e.pool())
	d, _, err := r.ReadDocument(w.Password(), nil, nil)
	if err != nil {
		return nil, fmt.Errorf("set-up read failed: %w", err)
	}
	if d.Session.ActiveAuthResult == nil || !d.Session.ActiveAuthResult.Success || d.Session.PassiveAuthResult == nil || !d.Session.PassiveAuthResult.Success {
		return nil, fmt.Errorf("set-up read is not clean: %s", c20.ObserveDocEx(d, nil))
	}
	e.evNonce = d.Session.ActiveAuthResult.Evidence.Nonce
	if e.evid, err = d.ToCbor(); err != nil {
		return nil, err
	}
	w.Prewarm(e.chalA, make([]byte, 8))
	e.resetExecution()
	return e, nil
}

// pool is a fresh trust store holding the issuer's CSCA.
func (e *env) pool() *cms.GenericCertPool {
	p := &cms.GenericCertPool{}
	for _, d := range e.w.TrustDER {
		if err := p.Add(d); err != nil {
			panic(err)
		}
	}
	return p
}

// yieldTx wraps the chip: every exchange is a scheduling point, and exchanges are counted per logical thread.
type yieldTx struct {
	e    *env
	chip *c20.Chip
	name string
}

func (t *yieldTx) Transceive(cla, ins, p1, p2 int, data []byte, le int, enc []byte) []byte {
	vs.Yield(t.name)
	if !vs.Passthrough() {
		t.e.exch[t.e.tid()]++
	}
	return t.chip.Transceive(cla, ins, p1, p2, data, le, enc)
}

// yieldStatus is a status listener: every callback is a scheduling point; it counts what it is told.
type yieldStatus struct {
	n, dgs int
	onPA   func() // free-running pass: rendezvous right before passive authentication
}

func (s *yieldStatus) Status(st reader.Status) {
	if s.onPA != nil && st.Phase == reader.STATUS_PHASE_PASSIVE_AUTHENTICATION {
		s.onPA()
	}
	vs.Yield("status-callback")
	s.n++
	if st.DataGroup != 0 {
		s.dgs++
	}
}

type mobileStatus struct{ n, dgs int }

func (s *mobileStatus) Status(phase, dg int) {
	vs.Yield("status-callback")
	s.n++
	if dg != 0 {
		s.dgs++
	}
}

// rendezvous lets the parties of a free-running scenario enter their trust store lookups at the same moment
// (real synchronisation BEFORE the point of interest; everything after it is concurrent). Never used under the
// cooperative scheduler. A party that does not show up is not waited for longer than the timeout.
type rendezvous struct {
	mu      sync.Mutex
	n, cnt  int
	release chan struct{}
}

func newRendezvous(n int) *rendezvous { return &rendezvous{n: n, release: make(chan struct{})} }

func (r *rendezvous) wait() {
	r.mu.Lock()
	r.cnt++
	if r.cnt == r.n {
		close(r.release)
	}
	r.mu.Unlock()
	select {
	case <-r.release:
	case <-time.After(300 * time.Millisecond):
	}
}

// ---------------------------------------------------------------------------------------------------
// scenarios

// A call is one API call; it returns its canonical observation.
type call struct {
	name string
	fn   func() string
}

// An instance is one set of fresh objects: per logical thread the sequence of calls it makes, and the
// observation of the shared state afterwards.
type instance struct {
	threads [][]call
	final   func() string
	// check is an additional scenario oracle on the outcome (S5: loaded exactly once, same pool for all).
	check func(o c20.Outcome) (key, what string)
}

type scenario struct {
	id    string
	title string
	make  func(e *env) *instance
	// stmtBound / syncBound: preemption bounds per tier {quick, thorough}
	syncBound [2]int
	stmtBound [2]int
	// privatePool: the certificate pool traffic of this scenario is confined to one thread at a time (behind
	// the object's lock, or after the once-only initialisation); the "call <Pool>.<Method>" points are then
	// left out at sync granularity (they remain covered at statement granularity).
	privatePool bool
	// raceOnly: only run by the free-running -race pass (nothing for the outcome oracle to see: the calls are
	// independent and read-only by contract). These scenarios release several identical calls from a barrier so
	// that their trust store lookups are truly simultaneous: the race detector is happens-before based, and the
	// library's own fmt / sync.Pool traffic creates happens-before edges between goroutines, so conflicting
	// accesses that are milliseconds apart (a verifier finishing before a reader reaches passive authentication)
	// are invisible to it.
	raceOnly bool
}

func guard(name string, f func() string) func() string {
	return func() (out string) {
		pv, stack := vc.Guard(func() { out = f() })
		if pv != nil {
			// keep the first library frame for the report
			fr := ""
			for _, l := range strings.Split(stack, "\n") {
				if strings.Contains(l, "/repo/") {
					fr = strings.TrimSpace(l)
					break
				}
			}
			return fmt.Sprintf("PANIC %v at %s", pv, fr)
		}
		return out
	}
}

func scenarios() []*scenario {
	return []*scenario{
		{id: "S1", title: "shared reader.Reader: ReadDocument || SkipImages || WithAAChallenge", syncBound: [2]int{2, 3}, stmtBound: [2]int{2, 3},
			make: func(e *env) *instance {
				chip := e.w.NewChip()
				st := &yieldStatus{}
				r := reader.NewReader(st, iso7816.NewNfcSession(&yieldTx{e, chip, "transceive"}), e.pool())
				pw := e.w.Password()
				return &instance{threads: [][]call{
					{{"ReadDocument", func() string {
						d, log, err := r.ReadDocument(pw, nil, nil)
						return c20.ObserveDocEx(d, err) + " " + c20.ObserveApduLog(log)
					}}},
					{{"SkipImages", func() string { r.SkipImages(); return "done" }}},
					{{"WithAAChallenge", func() string {
						buf := bytes.Clone(e.chalA)
						rr, err := r.WithAAChallenge(buf)
						e.recycle(buf, make([]byte, 8)) // the caller reuses its buffer
						return fmt.Sprintf("self=%v err=%v", rr == r, err)
					}}},
				}, final: func() string { return fmt.Sprintf("%s status=%d/%d", chip.Observe(), st.n, st.dgs) }}
			}},
		{id: "S2", title: "shared verifier.Verifier: Verify || WithAAChallenge(c') || Verify", syncBound: [2]int{2, 3}, stmtBound: [2]int{2, 3},
			make: func(e *env) *instance {
				v := verifier.NewVerifier(e.pool())
				ver := func() string { d, err := v.Verify(e.evid); return c20.ObserveDocEx(d, err) }
				return &instance{threads: [][]call{
					{{"Verify#1", ver}},
					{{"WithAAChallenge", func() string {
						buf := bytes.Clone(e.chalV)
						vv, err := v.WithAAChallenge(buf)
						e.recycle(buf, e.evNonce) // the caller reuses its buffer (now holding the value that WOULD match)
						return fmt.Sprintf("self=%v err=%v", vv == v, err)
					}}},
					{{"Verify#2", ver}},
				}, final: func() string { return "" }}
			}},
		{id: "S3", title: "shared mobile.Reader: ReadDocument || SetApduMaxLe;SkipImages || ReadDocument", syncBound: [2]int{2, 2}, stmtBound: [2]int{2, 2}, privatePool: true,
			make: func(e *env) *instance {
				chip := e.w.NewChip()
				st := &mobileStatus{}
				r := mobile.NewReader(st, &yieldTx{e, chip, "transceive"})
				pw, err := mobile.NewPasswordMrzi(c20.DocNumber, c20.DOB, c20.DOE)
				if err != nil {
					panic(err)
				}
				rd := func(slot int) func() string {
					return func() string {
						before := e.exch[e.tid()]
						doc, err := r.ReadDocument(pw, nil, nil)
						return c20.ObserveDocEx(mobile.VerifDocumentEx(doc), err) + fmt.Sprintf(" exchanges=%d", e.exch[e.tid()]-before)
					}
				}
				return &instance{threads: [][]call{
					{{"ReadDocument#1", rd(0)}},
					{{"SetApduMaxLe", func() string { return fmt.Sprint(r.SetApduMaxLe(180)) }}, {"SkipImages", func() string { r.SkipImages(); return "done" }}},
					{{"ReadDocument#2", rd(2)}},
				}, final: func() string {
					return fmt.Sprintf("%s status=%d/%d loaders=%v", chip.Observe(), st.n, st.dgs, cms.VerifLoaderCalls())
				}}
			}},
		{id: "S4", title: "two reader.Readers and a verifier.Verifier sharing one GenericCertPool inside a CombinedCertPool", syncBound: [2]int{2, 2}, stmtBound: [2]int{1, 1},
			make: func(e *env) *instance {
				shared := e.pool()
				other := &cms.GenericCertPool{}
				for _, d := range e.w.OtherDER {
					other.Add(d)
				}
				comb := &cms.CombinedCertPool{}
				comb.AddCertPool(other)
				comb.AddCertPool(shared)
				chipA, chipB := e.w.NewChip(), e.w.NewChip()
				stA, stB := &yieldStatus{}, &yieldStatus{}
				meet := func() {}
				if vs.Passthrough() {
					// free-running: all three enter passive authentication (the shared pool lookups) together
					rv := newRendezvous(3)
					meet = rv.wait
					stA.onPA, stB.onPA = rv.wait, rv.wait
				}
				ra := reader.NewReader(stA, iso7816.NewNfcSession(&yieldTx{e, chipA, "transceive-A"}), comb)
				var statusB reader.ReaderStatus // reader B has no listener under the scheduler (keeps the schedule space as before)
				if vs.Passthrough() {
					statusB = stB
				}
				rb := reader.NewReader(statusB, iso7816.NewNfcSession(&yieldTx{e, chipB, "transceive-B"}), shared)
				rb.SkipImages()
				v := verifier.NewVerifier(comb)
				pw := e.w.Password()
				read := func(r *reader.Reader) func() string {
					return func() string {
						d, log, err := r.ReadDocument(pw, nil, nil)
						return c20.ObserveDocEx(d, err) + " " + c20.ObserveApduLog(log)
					}
				}
				before := poolContent(comb)
				return &instance{threads: [][]call{
					{{"A.ReadDocument", read(ra)}},
					{{"B.ReadDocument", read(rb)}},
					{{"V.Verify", func() string { meet(); d, err := v.Verify(e.evid); return c20.ObserveDocEx(d, err) }}},
				}, final: func() string {
					return fmt.Sprintf("A:%s B:%s pool=%d store-unchanged-by-lookups=%v", chipA.Observe(), chipB.Observe(), shared.Count(), poolContent(comb) == before)
				}}
			}},
		s5("S5", "mobile.PreloadCscaCertPool x3 || mobile.Verifier.Verify (lazily loaded built-in trust store)", false),
		s5("S5f", "as S5, the Dutch list loader fails: every caller must see the same initialisation error", true),
		{id: "S6", title: "free-running only: 6 verifier.Verifiers released from a barrier, 3 on one shared CombinedCertPool and 3 directly on the GenericCertPool inside it", raceOnly: true,
			make: func(e *env) *instance {
				shared := e.pool()
				other := &cms.GenericCertPool{}
				for _, d := range e.w.OtherDER {
					other.Add(d)
				}
				comb := &cms.CombinedCertPool{}
				comb.AddCertPool(other)
				comb.AddCertPool(shared)
				before := poolContent(comb)
				inst := &instance{final: func() string { return fmt.Sprintf("store-unchanged-by-lookups=%v", poolContent(comb) == before) }}
				for i := 0; i < 6; i++ {
					var p cms.CertPool = comb
					if i >= 3 {
						p = shared
					}
					v := verifier.NewVerifier(p)
					inst.threads = append(inst.threads, []call{{fmt.Sprintf("V%d.Verify", i), func() string { d, err := v.Verify(e.evid); return c20.ObserveDocEx(d, err) }}})
				}
				inst.check = sameResults
				return inst
			}},
		s8("S8", "one GenericCertPool, direct lookups: BySKI(a) || BySKI(b) || ByIssuerCountry, each caller HOLDS its result across a scheduling point while the others look up", false),
		s8("S9", "as S8 on one CombinedCertPool with two sub-pools", true),
		{id: "S7", title: "free-running only: 4 mobile.Verifiers released from a barrier on the (already loaded) built-in trust store", raceOnly: true,
			make: func(e *env) *instance {
				if err := mobile.PreloadCscaCertPool(); err != nil {
					panic(err)
				}
				inst := &instance{final: func() string { return fmt.Sprintf("loaders=%v", cms.VerifLoaderCalls()) }}
				for i := 0; i < 4; i++ {
					v := mobile.NewVerifier()
					inst.threads = append(inst.threads, []call{{fmt.Sprintf("M%d.Verify", i), func() string {
						doc, err := v.Verify(e.evid)
						return c20.ObserveDocEx(mobile.VerifDocumentEx(doc), err)
					}}})
				}
				inst.check = sameResults
				return inst
			}},
	}
}

// sameResults: identical independent calls must all return the same (clean) result.
func sameResults(o c20.Outcome) (string, string) {
	first := ""
	for i, c := range o.Calls {
		r := c[strings.Index(c, ": ")+2:]
		if i == 0 {
			first = r
		}
		if r != first || !strings.Contains(r, "err=nil") || !strings.Contains(r, "pa=true") {
			return "independent-calls/different-results", fmt.Sprintf("identical independent calls returned different or failing results: {%s} vs {%s}", first, r)
		}
	}
	if strings.Contains(o.Final, "store-unchanged-by-lookups=false") {
		return "shared-store/content-changed-by-lookups", "the certificates served by the shared trust store (All()) differ after the lookups"
	}
	return "", ""
}

// poolContent is a digest of what the store serves through its public API.
func poolContent(p cms.CertPool) string {
	h := sha256.New()
	for _, c := range p.All() {
		h.Write(c.Raw)
		h.Write([]byte{0})
	}
	return fmt.Sprintf("%x", h.Sum(nil)[:8])
}

func s8(id, title string, combined bool) *scenario {
	return &scenario{id: id, title: title, syncBound: [2]int{3, 4}, stmtBound: [2]int{2, 2},
		make: func(e *env) *instance {
			mk := func() *cms.GenericCertPool {
				p := e.pool()
				for _, d := range e.w.OtherDER {
					p.Add(d)
				}
				return p
			}
			var shared, lone cms.CertPool = mk(), mk()
			if combined {
				// the same certificates behind a CombinedCertPool: the CSCA store and the other states' store as two sub-pools
				mkc := func() cms.CertPool {
					other := &cms.GenericCertPool{}
					for _, d := range e.w.OtherDER {
						other.Add(d)
					}
					c := &cms.CombinedCertPool{}
					c.AddCertPool(other)
					c.AddCertPool(e.pool())
					return c
				}
				shared, lone = mkc(), mkc()
			}
			// two different subject key identifiers held by the store
			var skis [][]byte
			for _, c := range lone.All() {
				k, err := c.TbsCertificate.Extensions.SubjectKeyIdentifier()
				if err != nil || k == nil || len(*k) == 0 {
					continue
				}
				dup := false
				for _, o := range skis {
					dup = dup || bytes.Equal(o, *k)
				}
				if !dup {
					skis = append(skis, bytes.Clone(*k))
				}
			}
			if len(skis) < 2 {
				panic("S8 needs a trust store with two different subject key identifiers")
			}
			obs := func(cs []cms.Certificate) string {
				h := sha256.New()
				for _, c := range cs {
					h.Write(c.Raw)
					h.Write([]byte{0})
				}
				return fmt.Sprintf("n=%d %x", len(cs), h.Sum(nil)[:6])
			}
			country := ""
			for _, cc := range []string{"NL", "DE", "FR", "UT", "XX"} {
				if len(lone.ByIssuerCountry(cc)) > 0 {
					country = cc
					break
				}
			}
			want := []string{obs(lone.BySKI(skis[0])), obs(lone.BySKI(skis[1])), obs(lone.ByIssuerCountry(country))}
			var hold func(string)
			if vs.Passthrough() {
				rv := newRendezvous(3)
				hold = func(string) { rv.wait() }
			} else {
				hold = func(n string) { vs.Yield(n) }
			}
			before := poolContent(shared)
			inst := &instance{threads: [][]call{
				{{"BySKI(a)", func() string { r := shared.BySKI(skis[0]); hold("holding BySKI(a)"); return obs(r) }}},
				{{"BySKI(b)", func() string { r := shared.BySKI(skis[1]); hold("holding BySKI(b)"); return obs(r) }}},
				{{"ByIssuerCountry", func() string { r := shared.ByIssuerCountry(country); hold("holding ByIssuerCountry"); return obs(r) }}},
			}, final: func() string { return fmt.Sprintf("store-unchanged-by-lookups=%v", poolContent(shared) == before) }}
			inst.check = func(o c20.Outcome) (string, string) {
				for i, c := range o.Calls {
					if r := c[strings.Index(c, ": ")+2:]; r != want[i] {
						return "held-lookup-result/changed-by-another-lookup", fmt.Sprintf("%s returned {%s} but a lone lookup on an equal store returns {%s}: a result handed to one caller was changed by another caller's lookup", c[:strings.Index(c, ": ")], r, want[i])
					}
				}
				if strings.Contains(o.Final, "store-unchanged-by-lookups=false") {
					return "shared-store/content-changed-by-lookups", "the certificates served by the shared trust store (All()) differ after the lookups"
				}
				return "", ""
			}
			return inst
		}}
}

func s5(id, title string, fail bool) *scenario {
	return &scenario{id: id, title: title, syncBound: [2]int{2, 3}, stmtBound: [2]int{1, 1}, privatePool: true,
		make: func(e *env) *instance {
			cms.VerifSetStubFail(fail)
			v := mobile.NewVerifier()
			var pools []cms.CertPool // identity table of the pools seen
			ident := func(p cms.CertPool) string {
				if p == nil {
					return "pool=nil"
				}
				if vs.Passthrough() {
					return "pool" // the identity table is harness state shared by the callers: not touched when free-running
				}
				for i, q := range pools {
					if q == p {
						return fmt.Sprintf("pool#%d", i)
					}
				}
				pools = append(pools, p)
				return fmt.Sprintf("pool#%d", len(pools)-1)
			}
			pre := func() string {
				err := mobile.PreloadCscaCertPool()
				p, e2 := mobile.VerifCscaState()
				n := -1
				if e2 == nil && p != nil { // after a failed initialisation the variable holds a typed nil pointer
					n = len(p.All())
				}
				return fmt.Sprintf("err=%v state=(%s certs=%d, err=%v)", err, ident(p), n, e2)
			}
			return &instance{threads: [][]call{
				{{"Preload#1", pre}}, {{"Preload#2", pre}}, {{"Preload#3", pre}},
				{{"Verifier.Verify", func() string {
					doc, err := v.Verify(e.evid)
					return c20.ObserveDocEx(mobile.VerifDocumentEx(doc), err)
				}}},
			}, final: func() string {
				p, err := mobile.VerifCscaState()
				return fmt.Sprintf("loaders=%v final=(%s, err=%v) pools-seen=%d", cms.VerifLoaderCalls(), ident(p), err, len(pools))
			}, check: func(o c20.Outcome) (string, string) {
				lc := cms.VerifLoaderCalls()
				want := [3]int{1, 1, 1}
				if fail {
					want = [3]int{1, 1, 0}
				}
				if lc != want {
					return "trust-store/loaders-not-run-exactly-once", fmt.Sprintf("the built-in trust store loaders ran %v times (German, Dutch, Indonesian list), expected %v", lc, want)
				}
				if len(pools) > 1 {
					return "trust-store/callers-saw-different-pools", fmt.Sprintf("callers observed %d different trust store objects", len(pools))
				}
				return "", ""
			}}
		}}
}

// ---------------------------------------------------------------------------------------------------
// running an instance

// order of a sequential run: (thread, call index) pairs
type step struct{ t, c int }

// merges enumerates all interleavings of the threads' call sequences that keep each thread's own order.
func merges(inst [][]call) [][]step {
	var out [][]step
	pos := make([]int, len(inst))
	total := 0
	for _, t := range inst {
		total += len(t)
	}
	var rec func(cur []step)
	rec = func(cur []step) {
		if len(cur) == total {
			out = append(out, append([]step{}, cur...))
			return
		}
		for t := range inst {
			if pos[t] < len(inst[t]) {
				pos[t]++
				rec(append(cur, step{t, pos[t] - 1}))
				pos[t]--
			}
		}
	}
	rec(nil)
	return out
}

func callNames(inst *instance) []string {
	var out []string
	for _, t := range inst.threads {
		var n []string
		for _, c := range t {
			n = append(n, c.name)
		}
		out = append(out, strings.Join(n, ";"))
	}
	return out
}

// runSequential executes the calls one after another in the given order (no scheduler).
func (e *env) runSequential(sc *scenario, order []step) (c20.Outcome, *instance) {
	e.resetExecution()
	inst := sc.make(e)
	res := make([][]string, len(inst.threads))
	for _, s := range order {
		e.seqThread = s.t
		c := inst.threads[s.t][s.c]
		res[s.t] = append(res[s.t], c.name+": "+guard(c.name, c.fn)())
	}
	e.seqThread = -1
	return outcomeOf(inst, res), inst
}

func outcomeOf(inst *instance, res [][]string) c20.Outcome {
	o := c20.Outcome{}
	for _, r := range res {
		o.Calls = append(o.Calls, strings.Join(r, " ; "))
	}
	o.Final = inst.final()
	return o
}

// runScheduled executes the threads under the scheduler with the given schedule prefix.
func (e *env) runScheduled(sc *scenario, gran vs.Granularity, prefix []int, expect []uint32, keys bool) (*vs.Exec, c20.Outcome, *instance) {
	e.resetExecution()
	inst := sc.make(e)
	res := make([][]string, len(inst.threads))
	bodies := make([]func(), len(inst.threads))
	for i := range inst.threads {
		i := i
		bodies[i] = func() {
			for _, c := range inst.threads[i] {
				r := guard(c.name, c.fn)()
				res[i] = append(res[i], c.name+": "+r)
			}
		}
	}
	var skip []string
	if sc.privatePool && gran == vs.GranSync {
		skip = []string{"call "}
	}
	ex := vs.Run(vs.Options{Prefix: prefix, Expect: expect, Gran: gran, StartPoint: gran == vs.GranSync, StateKeys: keys, MaxSteps: 400000, SkipYield: skip}, bodies...)
	// a thread that did not complete (deadlock) has fewer results; pad for a stable shape
	for i := range res {
		for len(res[i]) < len(inst.threads[i]) {
			res[i] = append(res[i], inst.threads[i][len(res[i])].name+": (did not return)")
		}
	}
	return ex, outcomeOf(inst, res), inst
}

var _ = document.DocumentEx{}
