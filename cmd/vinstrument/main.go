// vinstrument derives, from the CURRENT working tree of /repo, the instrumented copies that the C20
// schedule exploration runs, and writes a `go build -overlay` description for them. /repo is never
// written; all output goes to the directory given with -out (run_c20.sh creates it with mktemp -d under
// /tmp and removes it on exit).
//
// What it does (standard library only: go/parser, go/ast, go/token):
//
//  1. For every non-test file of the packages reader, verifier, mobile and for cms/{generic,combined,
//     signed_data}_cert_pool.go, cms/csca.go (plus any other cms file that imports "sync"):
//     - the import "sync" is rewritten to the shim `sync "github.com/gmrtd/gmrtd/verifsched"`, so
//     sync.Mutex / sync.Once / ... in the file are the scheduler-aware types;
//     - `verifsched.Stmt("<pkg>/<file>:<line>")` is inserted before every statement of every function
//     body (including nested blocks, case/comm clause bodies and function literals inside functions).
//     Not instrumented: clause headers, if/for/switch init and post statements, function literals in
//     package-level initialisers. A labelled statement gets its marker before the label. No marker is put
//     before a statement that consists only of an operation on a shim object (`x.mu.Lock()`,
//     `defer x.mu.Unlock()`, `once.Do(...)`): the operation is a scheduling point itself, and without
//     the marker a thread about to lock a held mutex is seen as blocked instead of runnable.
//     Every exported method of the certificate pools (cms/*_cert_pool.go) additionally starts with
//     `verifsched.Yield("call <Type>.<Method>")`: a pool call is a scheduling point at all granularities.
//     The insertion is TEXTUAL at the statement's byte offset, on the same line: comments, //go:embed
//     directives, formatting and all line numbers of the original file are preserved.
//  2. The shim + scheduler sources (/verif/internal/vsched, non-test files) are mounted as the virtual
//     package github.com/gmrtd/gmrtd/verifsched (/repo/verifsched/*.go).
//  3. Virtual file /repo/mobile/verif_state.go: reset / inspection of cscaOnce, cscaCertPool, cscaInitErr
//     and access to the DocumentEx behind a mobile.Document.
//  4. Virtual file /repo/cms/verif_stub.go: points germanMasterListFn / dutchMasterListFn /
//     indonesian2010SeriesCertsFn at counting stubs that serve a tiny fixed pool.
//
// -src-overlay rel/path.go=/abs/patched.go (repeatable; also env VERIF_SRC_OVERLAY, ';'-separated)
// reads that file's source from the patched copy instead of /repo (detection demos on a modified copy).
// In that case <out>/patch_overlay.json additionally maps the UNinstrumented patched files, for running the
// repository's own tests against the same change.
package main

import (
	"encoding/json"
	"flag"
	"fmt"
	"go/ast"
	"go/parser"
	"go/token"
	"os"
	"path/filepath"
	"sort"
	"strconv"
	"strings"
)

const shimPath = "github.com/gmrtd/gmrtd/verifsched"

type multi []string

func (m *multi) String() string     { return strings.Join(*m, ";") }
func (m *multi) Set(s string) error { *m = append(*m, s); return nil }

func fatal(format string, a ...any) {
	fmt.Fprintf(os.Stderr, "vinstrument: "+format+"\n", a...)
	os.Exit(2)
}

func main() {
	var srcOv multi
	repo := flag.String("repo", "/repo", "repository root")
	vs := flag.String("vsched", "/verif/internal/vsched", "scheduler + shim sources")
	out := flag.String("out", "", "output directory (must exist, outside /repo and /verif)")
	flag.Var(&srcOv, "src-overlay", "rel/path.go=/abs/patched.go: take this file's source from the patched copy")
	flag.Parse()
	if *out == "" {
		fatal("-out is required")
	}
	abs, _ := filepath.Abs(*out)
	if strings.HasPrefix(abs+"/", *repo+"/") || strings.HasPrefix(abs+"/", "/verif/") {
		fatal("-out must be outside %s and /verif", *repo)
	}
	if e := os.Getenv("VERIF_SRC_OVERLAY"); e != "" {
		for _, p := range strings.Split(e, ";") {
			if p != "" {
				srcOv = append(srcOv, p)
			}
		}
	}
	patched := map[string]string{}
	for _, p := range srcOv {
		k, v, ok := strings.Cut(p, "=")
		if !ok {
			fatal("bad -src-overlay %q", p)
		}
		patched[filepath.Clean(k)] = v
	}

	var files []string // repo-relative
	addDir := func(dir string, filter func(name string, src []byte) bool) {
		ents, err := os.ReadDir(filepath.Join(*repo, dir))
		if err != nil {
			fatal("%v", err)
		}
		for _, e := range ents {
			n := e.Name()
			if e.IsDir() || !strings.HasSuffix(n, ".go") || strings.HasSuffix(n, "_test.go") {
				continue
			}
			rel := filepath.Join(dir, n)
			src := readSrc(*repo, rel, patched)
			if filter == nil || filter(n, src) {
				files = append(files, rel)
			}
		}
	}
	addDir("reader", nil)
	addDir("verifier", nil)
	addDir("mobile", nil)
	cmsSet := map[string]bool{"generic_cert_pool.go": true, "combined_cert_pool.go": true, "signed_data_cert_pool.go": true, "csca.go": true}
	addDir("cms", func(n string, src []byte) bool {
		return cmsSet[n] || strings.Contains(string(src), "\"sync\"")
	})

	replace := map[string]string{}
	patchReplace := map[string]string{}
	report := map[string]any{}
	totalMarkers := 0
	for _, rel := range files {
		src := readSrc(*repo, rel, patched)
		res, n, nsync, err := instrument(rel, src)
		if err != nil {
			fatal("%s: %v", rel, err)
		}
		dst := filepath.Join(abs, "src", rel)
		os.MkdirAll(filepath.Dir(dst), 0o755)
		if err := os.WriteFile(dst, res, 0o644); err != nil {
			fatal("%v", err)
		}
		replace[filepath.Join(*repo, rel)] = dst
		report[rel] = map[string]int{"stmt_markers": n, "sync_statements_without_marker": nsync}
		totalMarkers += n
	}
	for rel, p := range patched {
		found := false
		for _, f := range files {
			if f == rel {
				found = true
			}
		}
		if !found {
			// a patched file outside the instrumented set is overlaid as is
			replace[filepath.Join(*repo, rel)] = p
		}
		patchReplace[filepath.Join(*repo, rel)] = p
	}
	// the virtual package
	ents, err := os.ReadDir(*vs)
	if err != nil {
		fatal("%v", err)
	}
	for _, e := range ents {
		n := e.Name()
		if strings.HasSuffix(n, ".go") && !strings.HasSuffix(n, "_test.go") {
			replace[filepath.Join(*repo, "verifsched", n)] = filepath.Join(*vs, n)
		}
	}
	// virtual files
	write := func(rel, content string) {
		dst := filepath.Join(abs, "src", rel)
		os.MkdirAll(filepath.Dir(dst), 0o755)
		if err := os.WriteFile(dst, []byte(content), 0o644); err != nil {
			fatal("%v", err)
		}
		replace[filepath.Join(*repo, rel)] = dst
	}
	write("mobile/verif_state.go", mobileState)
	write("cms/verif_stub.go", cmsStub)

	writeJSON(filepath.Join(abs, "overlay.json"), map[string]any{"Replace": replace})
	if len(patchReplace) > 0 {
		writeJSON(filepath.Join(abs, "patch_overlay.json"), map[string]any{"Replace": patchReplace})
	}
	keys := make([]string, 0, len(report))
	for k := range report {
		keys = append(keys, k)
	}
	sort.Strings(keys)
	writeJSON(filepath.Join(abs, "report.json"), map[string]any{"files": report, "stmt_markers_total": totalMarkers, "patched": patched})
	fmt.Fprintf(os.Stderr, "vinstrument: %d files, %d statement markers, overlay %s\n", len(files), totalMarkers, filepath.Join(abs, "overlay.json"))
	fmt.Println(filepath.Join(abs, "overlay.json"))
}

func writeJSON(path string, v any) {
	b, _ := json.MarshalIndent(v, "", " ")
	if err := os.WriteFile(path, b, 0o644); err != nil {
		fatal("%v", err)
	}
}

func readSrc(repo, rel string, patched map[string]string) []byte {
	p := filepath.Join(repo, rel)
	if q, ok := patched[rel]; ok {
		p = q
	}
	b, err := os.ReadFile(p)
	if err != nil {
		fatal("%v", err)
	}
	return b
}

func poolFile(rel string) bool {
	return strings.HasPrefix(rel, "cms/") && strings.HasSuffix(rel, "_cert_pool.go")
}

func recvName(e ast.Expr) string {
	if st, ok := e.(*ast.StarExpr); ok {
		e = st.X
	}
	if id, ok := e.(*ast.Ident); ok {
		return id.Name
	}
	return "?"
}

type insertion struct {
	off  int
	text string
}

// instrument returns the rewritten source, the number of markers and the number of bare sync statements.
func instrument(rel string, src []byte) ([]byte, int, int, error) {
	fset := token.NewFileSet()
	f, err := parser.ParseFile(fset, rel, src, parser.ParseComments)
	if err != nil {
		return nil, 0, 0, err
	}
	tf := fset.File(f.Pos())
	off := func(p token.Pos) int { return tf.Offset(p) }

	// names of struct fields and package-level variables declared with a type of package sync
	syncNames := map[string]bool{}
	syncAlias := ""
	var syncSpec *ast.ImportSpec
	for _, im := range f.Imports {
		if p, _ := strconv.Unquote(im.Path.Value); p == "sync" {
			syncSpec = im
			syncAlias = "sync"
			if im.Name != nil {
				syncAlias = im.Name.Name
			}
		}
	}
	isSyncType := func(e ast.Expr) bool {
		if st, ok := e.(*ast.StarExpr); ok {
			e = st.X
		}
		se, ok := e.(*ast.SelectorExpr)
		if !ok {
			return false
		}
		id, ok := se.X.(*ast.Ident)
		return ok && syncAlias != "" && id.Name == syncAlias
	}
	ast.Inspect(f, func(n ast.Node) bool {
		switch x := n.(type) {
		case *ast.Field:
			if isSyncType(x.Type) {
				for _, nm := range x.Names {
					syncNames[nm.Name] = true
				}
			}
		case *ast.ValueSpec:
			if x.Type != nil && isSyncType(x.Type) {
				for _, nm := range x.Names {
					syncNames[nm.Name] = true
				}
			}
		}
		return true
	})
	syncMethods := map[string]bool{"Lock": true, "Unlock": true, "RLock": true, "RUnlock": true, "Do": true, "Wait": true}
	isSyncCall := func(e ast.Expr) bool {
		c, ok := e.(*ast.CallExpr)
		if !ok {
			return false
		}
		se, ok := c.Fun.(*ast.SelectorExpr)
		if !ok || !syncMethods[se.Sel.Name] {
			return false
		}
		switch r := se.X.(type) {
		case *ast.Ident:
			return syncNames[r.Name]
		case *ast.SelectorExpr:
			return syncNames[r.Sel.Name]
		}
		return false
	}
	isBareSync := func(s ast.Stmt) bool {
		switch x := s.(type) {
		case *ast.ExprStmt:
			return isSyncCall(x.X)
		case *ast.DeferStmt:
			return isSyncCall(x.Call)
		}
		return false
	}

	var ins []insertion
	markers, bare := 0, 0
	mark := func(list []ast.Stmt) {
		for _, s := range list {
			if _, empty := s.(*ast.EmptyStmt); empty {
				continue
			}
			if isBareSync(s) {
				bare++
				continue
			}
			line := fset.Position(s.Pos()).Line
			ins = append(ins, insertion{off(s.Pos()), fmt.Sprintf("verifsched.Stmt(%q); ", rel+":"+strconv.Itoa(line))})
			markers++
		}
	}
	entries := 0
	for _, d := range f.Decls {
		fd, ok := d.(*ast.FuncDecl)
		if !ok || fd.Body == nil {
			continue
		}
		// every call of a method of a certificate pool is a scheduling point at ALL granularities
		if poolFile(rel) && fd.Recv != nil && len(fd.Recv.List) == 1 && ast.IsExported(fd.Name.Name) {
			ins = append(ins, insertion{off(fd.Body.Lbrace) + 1, fmt.Sprintf(" verifsched.Yield(%q);", "call "+recvName(fd.Recv.List[0].Type)+"."+fd.Name.Name)})
			entries++
		}
		clauseBlocks := map[*ast.BlockStmt]bool{} // bodies of switch / select: their lists hold clauses, not statements
		ast.Inspect(fd.Body, func(n ast.Node) bool {
			switch x := n.(type) {
			case *ast.SwitchStmt:
				clauseBlocks[x.Body] = true
			case *ast.TypeSwitchStmt:
				clauseBlocks[x.Body] = true
			case *ast.SelectStmt:
				clauseBlocks[x.Body] = true
			case *ast.BlockStmt:
				if !clauseBlocks[x] {
					mark(x.List)
				}
			case *ast.CaseClause:
				mark(x.Body)
			case *ast.CommClause:
				mark(x.Body)
			}
			return true
		})
	}
	if syncSpec != nil {
		// rewrite the import path (keep an explicit name, otherwise name it sync)
		text := strconv.Quote(shimPath)
		if syncSpec.Name == nil {
			text = "sync " + text
		}
		ins = append(ins, insertion{off(syncSpec.Path.Pos()), text})
	}
	if markers+entries > 0 {
		ins = append(ins, insertion{off(f.Name.End()), "; import verifsched " + strconv.Quote(shimPath)})
	}
	sort.SliceStable(ins, func(i, j int) bool { return ins[i].off > ins[j].off })
	res := append([]byte{}, src...)
	for _, in := range ins {
		tail := append([]byte{}, res[in.off:]...)
		if syncSpec != nil && in.off == off(syncSpec.Path.Pos()) {
			tail = tail[len(syncSpec.Path.Value):] // drop the old path literal
		}
		res = append(append(res[:in.off:in.off], in.text...), tail...)
	}
	// the result must parse
	if _, err := parser.ParseFile(token.NewFileSet(), rel, res, 0); err != nil {
		return nil, 0, 0, fmt.Errorf("instrumented source does not parse: %v", err)
	}
	return res, markers, bare, nil
}

const mobileState = `package mobile

import (
	sync "` + shimPath + `"

	"github.com/gmrtd/gmrtd/cms"
	"github.com/gmrtd/gmrtd/document"
)

// VerifResetCsca puts the lazily loaded built-in trust store back into its initial state (C20 harness,
// between executions).
func VerifResetCsca() {
	cscaOnce = sync.Once{}
	cscaCertPool = nil
	cscaInitErr = nil
}

// VerifCscaState returns the current trust store variables.
func VerifCscaState() (cms.CertPool, error) { return cscaCertPool, cscaInitErr }

// VerifDocumentEx exposes the result behind a Document.
func VerifDocumentEx(doc *Document) *document.DocumentEx {
	if doc == nil {
		return nil
	}
	return doc.documentEx
}
`

const cmsStub = `package cms

import (
	"fmt"

	verifsched "` + shimPath + `"
)

// Counting loader stubs for the built-in trust store (C20 harness). The counters are plain ints on
// purpose: the loaders are only ever entered concurrently if the once-only initialisation is broken, and
// then the race detector should see it.
var (
	verifLoaderCalls [3]int
	verifStubCerts   [3][]Certificate
	verifStubFail    bool
)

// VerifSetStubCerts sets the DER certificates served by the German / Dutch / Indonesian stub.
func VerifSetStubCerts(i int, der [][]byte) error {
	var p GenericCertPool
	for _, d := range der {
		if err := p.Add(d); err != nil {
			return err
		}
	}
	verifStubCerts[i] = p.certificates
	return nil
}

// VerifSetStubFail makes the Dutch stub fail (the pool initialisation then yields an error).
func VerifSetStubFail(on bool) { verifStubFail = on }

func VerifLoaderCalls() [3]int  { return verifLoaderCalls }
func VerifResetLoaderCalls()    { verifLoaderCalls = [3]int{} }

func init() {
	germanMasterListFn = func() (*SignedDataCertPool, error) {
		verifsched.Yield("cms/stub:german:enter")
		verifLoaderCalls[0]++
		p := &SignedDataCertPool{}
		p.AddCerts(verifStubCerts[0])
		verifsched.Yield("cms/stub:german:exit")
		return p, nil
	}
	dutchMasterListFn = func() (*SignedDataCertPool, error) {
		verifsched.Yield("cms/stub:dutch:enter")
		verifLoaderCalls[1]++
		if verifStubFail {
			return nil, fmt.Errorf("stub: dutch master list unavailable")
		}
		p := &SignedDataCertPool{}
		p.AddCerts(verifStubCerts[1])
		verifsched.Yield("cms/stub:dutch:exit")
		return p, nil
	}
	indonesian2010SeriesCertsFn = func() (*GenericCertPool, error) {
		verifsched.Yield("cms/stub:indonesian:enter")
		verifLoaderCalls[2]++
		p := &GenericCertPool{}
		p.AddCerts(verifStubCerts[2])
		verifsched.Yield("cms/stub:indonesian:exit")
		return p, nil
	}
}
`
