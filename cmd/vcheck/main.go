// vcheck runs one property check: `vcheck run C17 quick`, `vcheck replay <file>`, `vcheck list`.
package main

import (
	"fmt"
	"os"
	"strconv"

	_ "verif/checks/all"
	"verif/internal/refcrypto"
	"verif/internal/reflds"
	"verif/internal/refpki"
	"verif/internal/vc"
)

func main() {
	if len(os.Args) < 2 {
		fmt.Fprintln(os.Stderr, "usage: vcheck run <id> <quick|thorough> | replay <file> | list")
		os.Exit(2)
	}
	switch os.Args[1] {
	case "setup":
		// generate the RSA key cache and run the reference self-tests (harness errors, never violations)
		if err := refpki.EnsureKeys(); err != nil {
			fmt.Fprintln(os.Stderr, "refpki.EnsureKeys:", err)
			os.Exit(2)
		}
		for name, f := range map[string]func() error{"refcrypto": refcrypto.SelfTest, "refpki": refpki.SelfTest, "reflds": reflds.SelfTest} {
			if err := f(); err != nil {
				fmt.Fprintln(os.Stderr, "self-test", name, "failed:", err)
				os.Exit(2)
			}
		}
		fmt.Println("setup ok")
	case "list":
		for _, id := range vc.IDs() {
			fmt.Println(id)
		}
	case "run":
		tier := "quick"
		if len(os.Args) > 3 {
			tier = os.Args[3]
		}
		if t := os.Getenv("VERIF_TIER"); t != "" && len(os.Args) <= 3 {
			tier = t
		}
		seed := int64(0)
		if s := os.Getenv("VERIF_SEED"); s != "" {
			seed, _ = strconv.ParseInt(s, 10, 64)
		}
		os.Exit(vc.ParentMain(os.Args[2], tier, seed))
	case "worker":
		seed, _ := strconv.ParseInt(os.Args[4], 10, 64)
		sh, _ := strconv.Atoi(os.Args[5])
		n, _ := strconv.Atoi(os.Args[6])
		os.Exit(vc.WorkerMain(os.Args[2], os.Args[3], seed, sh, n, os.Args[7]))
	case "replay":
		os.Exit(vc.ReplayMain(os.Args[2]))
	default:
		fmt.Fprintln(os.Stderr, "unknown command")
		os.Exit(2)
	}
}
