package main

import (
	"os"
	"path/filepath"
	"testing"

	"verif/internal/vc"
)

// TestReplay replays recorded violation files WITHOUT the explorer or the worker pool: one plain `go test`
// per artefact. Files come from VERIF_REPLAY (a file, or a directory searched recursively); without it the
// test is skipped.
//
//	cd /verif && python3 tools/genall.py && VERIF_REPLAY=out/violations/C05 go test ./cmd/vcheck -run TestReplay -v
//
// A replay that reproduces the violation FAILS the test (the artefact is a counterexample).
func TestReplay(t *testing.T) {
	root := os.Getenv("VERIF_REPLAY")
	if root == "" {
		t.Skip("VERIF_REPLAY not set")
	}
	var files []string
	filepath.Walk(root, func(p string, info os.FileInfo, err error) error {
		if err == nil && !info.IsDir() && filepath.Ext(p) == ".json" {
			files = append(files, p)
		}
		return nil
	})
	if len(files) == 0 {
		t.Fatalf("no replay files under %s", root)
	}
	for _, f := range files {
		f := f
		t.Run(filepath.Base(f), func(t *testing.T) {
			switch vc.ReplayMain(f) {
			case 0:
			case 1:
				t.Errorf("violation reproduced by %s", f)
			default:
				t.Errorf("replay of %s failed (harness)", f)
			}
		})
	}
}
