#!/bin/bash
# usage: tools/runall.sh [quick|thorough] [ids...]  - runs every claimed check sequentially, prints one summary line each
TIER=${1:-quick}; shift || true
cd "$(dirname "$(readlink -f "$0")")/.."
IDS="$@"
[ -n "$IDS" ] || IDS=$(python3 -c "import json;print(' '.join(c['property_id'] for c in json.load(open('MANIFEST.json'))['checks']))")
for id in $IDS; do
  cmd=$(python3 -c "import json,sys;print([c for c in json.load(open('MANIFEST.json'))['checks'] if c['property_id']=='$id'][0]['${TIER}_cmd'])")
  out=$($cmd 2>&1); rc=$?
  echo "$out" | grep -c "^VIOLATION" | xargs -I{} echo "== $id rc=$rc violations={} $(echo "$out" | grep -c '^KNOWN-FINDING') known | $(echo "$out" | tail -1 | cut -c1-160)"
done
