#!/bin/bash
# usage: tools/seedverify.sh <seed dir containing patch.diff + demo_test.go>
# Confirms in a scratch worktree: (1) repo tests pass with the patch, (2) demo fails with the patch, (3) demo passes without.
set -u
D=$(readlink -f "$1")
export GOFLAGS=-mod=mod GOPROXY=off
T=$(mktemp -d /tmp/vsv.XXXXXX)
cleanup() { git -C /repo worktree remove --force $T/wt >/dev/null 2>&1; rm -rf $T; }
trap cleanup EXIT
git -C /repo worktree add -q --detach $T/wt HEAD || exit 3
cd $T/wt
PKG=$(head -3 $D/demo_test.go | grep -o 'copy to: *[^ ]*' | sed 's/copy to: *//' | head -1)
[ -n "$PKG" ] || { echo "no 'copy to:' line"; exit 3; }
cp $D/demo_test.go $PKG/zz_seed_demo_test.go
NAME=$(grep -o '^func Test[A-Za-z0-9_]*' $PKG/zz_seed_demo_test.go | head -1 | sed 's/func //')
echo "demo package=$PKG test=$NAME"
go test -count=1 -run "^$NAME\$" ./$PKG > $T/clean.log 2>&1; R3=$?
git apply $D/patch.diff || { echo "patch does not apply"; exit 3; }
go test -count=1 -run "^$NAME\$" ./$PKG > $T/mut.log 2>&1; R2=$?
rm $PKG/zz_seed_demo_test.go
go test -count=1 $(go list ./... | grep -v cmd/gmrtd-reader) > $T/suite.log 2>&1; R1=$?
echo "suite-with-patch exit=$R1 (want 0); demo-with-patch exit=$R2 (want !=0); demo-clean exit=$R3 (want 0)"
[ $R1 -eq 0 ] || grep -v "^ok\|no test files" $T/suite.log | head -10
[ $R3 -eq 0 ] || tail -5 $T/clean.log
[ $R1 -eq 0 ] && [ $R2 -ne 0 ] && [ $R3 -eq 0 ] && echo "SEED CONFIRMED" || echo "SEED NOT CONFIRMED"
