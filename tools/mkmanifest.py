#!/usr/bin/env python3
"""Regenerates /verif/MANIFEST.json from the table below (claimed checks) — every property of
properties.jsonl that is not in CLAIMED is listed under not_applicable with its reason."""
import json, os
ROOT = os.path.dirname(os.path.dirname(os.path.abspath(__file__)))
props = [json.loads(l) for l in open(os.path.join(ROOT, "properties.jsonl"))]

BASE = "the Go toolchain and standard library (crypto/*, math/big, encoding/asn1), the independent reference components under /verif/internal (anchored to ICAO worked examples by self-tests), and that the enumerated alphabets hit every code-visible distinction; cryptographic hardness is assumed, not searched"

CLAIMED = {
 "C17": dict(level="exploration", ref="§4 C17",
   technique="bounded-exhaustive enumeration of the full length dimension (every data length 0..65535, every Le 0..65536) against an independent ISO 7816-4 parser",
   text="Every data length 0..65535 and every expected length 0..65536 is enumerated (against a boundary set of the other dimension and of headers) on the real encoder; each encoding is parsed by an independent ISO 7816-4 parser and compared. Responses: all byte strings up to length 2/3 plus structured ones to 64 KiB. Exhaustive in the dimension the property quantifies over, which unit tests sample at 8 points.",
   note="trusts ref7816 (90-line independent parser) as the statement of ISO/IEC 7816-4 §5.2; data content is a fixed pattern (the encoder never inspects it)"),
 "C16": dict(level="exploration", ref="§4 C16",
   technique="bounded-exhaustive input enumeration (all byte strings <=3, all <=3/4-node encodings of a BER grammar, every 1-byte substitution/deletion/insertion of every <=2-node encoding) against an independent BER reference decoder and canonical encoder",
   text="Every input of the stated finite spaces is decoded by the real tlv.Decode and by the independent reference refber; accepted inputs are compared tree-to-tree, re-encoded (must equal the definite minimal encoding computed independently), re-decoded, checked for idempotence and for NodeByTagOccur on every level; depth/count limits are located empirically and must be monotone. Exhaustive over small encodings, where every structural rule of BER already shows.",
   note="trusts refber (X.690 §8.1 TLV structure; lenient on tag 00 with non-zero length and on non-minimal tag numbers; gives no verdict on tag 00 with long-form zero length); values are from a 3-element alphabet (the decoder never inspects primitive contents)"),
 "C03": dict(level="model_checking", ref="§4 C03",
   technique="stateless deviation-bounded exploration (D=1 over the complete attacker menu at every exchange, D=2 over all ordered pairs on small shapes) of the real NfcSession/SecureMessaging against an independent chip-side SM",
   text="For each of 4 algorithms x 3 initial counters (incl. wrap) x 3-exchange histories over 8 command and 12 response shapes, the attacker's complete menu (every bit flip, truncation, byte deletion, DO deletion/duplication/permutation, outer SW replacement, replay of earlier genuine responses, parallel-session response, unprotected responses) is enumerated as one deviation at every position, and all ordered pairs of deviations at exchanges 0 and 1; executions run to completion on the real code. Oracle: error, or exactly what the chip protected for that exchange; outer/protected status mismatch must be an error.",
   note="MAC forgery is not searched; key/counter values from small alphabets (zero, mid, about to wrap); re-ordered or duplicated data objects that still deliver the identical authenticated content are tolerated (the statement's core is 'never different plaintext or status')"),
 "C10": dict(level="model_checking", ref="§4 C10",
   technique="exhaustive product over the command alphabet plus explicit-state exploration of all exchange histories to depth 3/4 on the real SM code against an independent strict chip-side parser; invariant: counters equal in every state",
   text="Full product of CLA x INS parity x 18 data lengths x 7 Le values x 4 algorithms x 3 initial counters through the real NfcSession.DoAPDU; every wire command must be authenticated and decrypted to the intended command by the independent strict chip-side SM. Then every sequence of length <=3 (thorough 4) over 6 command shapes x 5 chip answer kinds incl. protected error statuses, from counters incl. one that wraps inside the history; invariant terminal SSC == chip SSC and next exchange authenticates on both sides.",
   note="keys from a KDF of a label; histories bounded at depth 3/4 (the behaviour depends on the counter only through MAC/IV inputs, which are shift-equivariant except at the wrap, and the wrap is covered)"),
 "C13": dict(level="model_checking", ref="§4 C13",
   technique="stateless exploration of chip answers (all compositions for tiny files; deviation-bounded D<=2 over {all,1,req-1,half,reject}); exhaustive sweep of every maxLe 1..65536 on the real ReadFile against the independent chip",
   text="Real NfcSession.ReadFile against the independent chip with a second file reachable by SFI: every chunking of every file of total size 2..10, every maxLe 1..65536 for a size set at all boundaries (plain and under SM), Le caps around the fallback ladder, D<=2 chip-answer deviations, EF padding 0/1/2/300. Oracle: exactly the stored top-level object or an error; not-found only on 6A82/6283; bounded READ BINARY count.",
   note="chip READ BINARY semantics per ISO 7816-4 (P1.b8 = SFI addressing, SFI 0 = current EF); for plain reads with Le>256 the chip tolerates gmrtd's 6-byte case-2E form (known finding C17) so that the read logic behind it is still explored; strict parsing is explored on a boundary set"),
 "C18": dict(level="exploration", ref="§4 C18",
   technique="bounded-exhaustive enumeration: ~1000 generated valid MRZs x every single-character substitution (36 symbols), adjacent transposition, deletion, insertion, plus repaired-check-digit variants, against an independent ICAO 9303 check-digit/layout reference",
   text="For every generated valid zone of the three layouts (all field-length shapes incl. extended document numbers) the library must accept and decode every field as the reference slices it; for every single-character mutant an accepted zone must have all non-empty checked fields and the composite consistent under the reference; key-seed strings from the full MRZ, from the three fields and from decode/re-encode must coincide.",
   note="reference refmrz anchored to the ICAO 9303 specimen zones; lenient where ICAO leaves room (empty fields not judged, both spellings of an empty TD3 optional check digit)"),
 "C19": dict(level="exploration", ref="§4 C19",
   technique="bounded-exhaustive generation of LDS files from abstract values (optional-field subsets, repetition 0..3) with the expected view computed from the abstract value, compared field by field with the real constructors; full wrong-DG pairing matrix",
   text="Every generated well-formed file of the 13 LDS file types (all 2^13 DG11 subsets in thorough, COM tag subsets, DG2 with 1..3 templates in both biometric encodings, ...) is parsed by the real constructor and its view compared with the expectation computed from the abstract value (no second parser); parse twice = equal views; buffer aliasing; every file x every other constructor/DG number rejected; identity-summary precedence on an 8064-document product.",
   note="generators only emit forms whose rendering ICAO 9303-10 fixes; Age/PossibleAges (clock) excluded; ISO/IEC 19794-5 feature-point layout from recollection of the standard (see known finding)"),
 "C01": dict(level="model_checking", ref="§4 C01",
   technique="explicit-state BFS over a symbolic Dolev-Yao-style attacker (provenance tuples, ground truth = function of the tuple), every state concretised to real bytes and run through the real PassiveAuth; plus region-aware exhaustive byte sweep over every authenticated byte",
   text="BFS to depth 3 (thorough 4) over attacker actions on {DGs, hash list, messageDigest, signed attributes, signature, DS certificate, trust store, DG1 state}; every reached state is built with refpki and validated on the real passiveauth.PassiveAuth / CardSecurity / master-list paths; soundness oracle Success => tuple valid. Byte sweep: every byte of every authenticated region (eContent, signed attributes, signature, DS TBS and signature, every DG) x 8 bit flips (thorough: 255 substitutions) must not be accepted; ECDSA (r,s) range classes.",
   note="the attacker never holds genuine private keys; cryptographic forgery is not searched; unauthenticated bytes (outer wrappers, SID, unsigned algorithm identifiers) are excluded from the soundness oracle"),
 "C04": dict(level="model_checking", ref="§4 C04",
   technique="stateless exploration of the real pace.DoPACE against the independent chip: all 77 configurations, explorer-owned randomness (scalar alphabet in full product, searched leading-zero slices), one-deviation enumeration of every altered chip message, exhaustive ordered-subset enumeration for protocol selection",
   text="Every PACE configuration (11 parameter ids x 7 suites) x passwords x scalar/nonce alphabet incl. the slices where the shared or a transmitted coordinate has a leading zero octet; success = both sides hold the same keys and counter (decided by a protected read). Fail-closed: wrong password, every bit of the encrypted nonce, 6 replacements of each public key, every bit of token and of the encrypted chip-authentication data. Selection: all ordered subsets (<=3) of a 7-entry PACEInfo alphabet.",
   note="refchip PACE per ICAO 9303-11 §4.4 with TR-03111 FE2OS; own EC arithmetic self-checked; scalars outside the alphabet are not covered"),
 "C05": dict(level="model_checking", ref="§4 C05",
   technique="stateless exploration of the real bac.DoBAC against the independent chip: MRZ shape enumeration x full product of the random alphabet; one-deviation enumeration of hostile EXTERNAL AUTHENTICATE answers (all single-bit flips + structural kinds)",
   text="MRZ shapes of all three layouts (document numbers 1..max incl. extended, fillers) x {00,FF,pattern}^4 randoms x two password routes against a chip keyed from the printed MRZ by the reference KDF; success = mutual authentication + protected read + equal SSC. Hostile: every bit of the 40-byte cryptogram and SW, MAC under other keys, other run, RND.IFD / RND.IC not echoed (every bit), wrong lengths => no success and no session.",
   note="reference KDF/3DES/retail MAC anchored to ICAO 9303-11 App. D.2/D.3"),
 "C06": dict(level="model_checking", ref="§4 C06",
   technique="stateless exploration of full reads (real Reader -> chipauth / PACE-CAM) against the independent chip over the complete configuration lattice, terminal scalar alphabet incl. leading-zero slice, and an enumerated menu of impostor strategies",
   text="11 curves x named/explicit x 4 ciphers x 4 key-id arrangements x {BAC,PACE}: success, key switch on the chip, two further protected reads under the new keys with equal restarted counters. Impostors without the private key answering the probe in 7 ways, and a CAM impostor with a non-certified key, are never reported successful.",
   note="refchip CA per TR-03110 (key switch after the response, SSC restart); discrete log not searched"),
 "C07": dict(level="exploration", ref="§4 C07",
   technique="bounded-exhaustive enumeration of genuine responses from an independent signer and of every single-bit mutation of signature and challenge; end-to-end enumeration of the challenge plumbing against the chip and the offline verifier",
   text="RSA ISO 9796-2 DS1 (7 modulus sizes incl. odd bit lengths x 5 trailers x 5 M1 shapes x 3 challenges) and ECDSA (11 curves x plain/DER x named/explicit) genuine => accepted; every signature bit, every challenge bit, other key => rejected. Caller challenge reaches the chip and the evidence; the verifier hard-fails for every one-bit neighbour of the recorded nonce and only for those.",
   note="independent signers self-tested against crypto/rsa and crypto/ecdsa; only byte-aligned representatives demanded for odd moduli"),
 "C09": dict(level="exploration", ref="§4 C09",
   technique="configuration-matrix enumeration: every point of the issuing-profile matrix issued by the independent PKI and verified by the real PassiveAuth",
   text="CSCA key (13) x DS key (26 incl. explicit parameters) x digest (5) triples in full, one-factor variation of SID form, LDS version, encoding (DER / three indefinite forms), signing time forms and the invariances (RDN order, string types, extra certificates, same-SKI anchors, CardSecurity) in quick; thorough = full product x variants (68k documents). Oracle: Success.",
   note="refpki output self-tested against crypto/x509, crypto/rsa, crypto/ecdsa; random key material replaced by deterministic keys"),
 "C15": dict(level="exploration", ref="§4 C15",
   technique="bounded-exhaustive enumeration: every subset of the 14 file types x every evidence subset round-tripped; every byte position x 255 values, every truncation and 256 extensions of representative blobs; forged magics/versions",
   text="All 16 384 file subsets x 8 evidence subsets export/import with byte-identical files, equal parsed views and evidence values (expected values are what the harness put in); 35 blobs (quick) swept completely: each single-byte change is rejected or imports identical content; foreign magic and newer versions rejected at every nesting level.",
   note="file contents from the reflds generators; views compared by reflect.DeepEqual against a stable double parse"),
 "C02": dict(level="model_checking", ref="§4 C02",
   technique="explicit enumeration of the complete finite product of per-step outcomes (324 real Session values) and of the completeness product on the real Summary/VerifiedChipAuthStatus/Document.Verify, plus enumerated hostile chip personalities end to end (live and offline)",
   text="All 324 combinations of {PA, CardSecurity PA, AA, PACE-CAM, CA, completeness} outcomes are built as real structs and evaluated; the statement's implications are written independently. Document.Verify is evaluated on the full {DG14/DG15 stored x listed x CardAccess relation} product built from genuinely issued files. Hostile personalities (clone without key, substituted key pair, withheld DG, CardAccess not in DG14) x access control x mechanism are read by the real Reader and re-verified offline.",
   note="a clone copying genuine data may be 'trusted' (data is genuine) - only the chip-authentic verdict is demanded to be none"),
 "C08": dict(level="exploration", ref="§4 C08",
   technique="configuration-lattice enumeration: every two-factor slice of a 13-dimensional lattice plus complete sub-lattices, each configuration read end to end by the real Reader from the independent genuinely issued chip",
   text="~9000 (quick) distinct chip/terminal configurations: all value pairs of every two dimensions (access control, password, curve, suite, DG subset, CA, AA, file size, maxLe, Le cap, extended length, issuer trust, SkipImages) and complete {DG subset x CA x AA x SkipImages}, {size x maxLe x cap x extended} slices; oracle from the chip's truth: files byte-identical, listed DGs present, access control and strongest chip-authentication mechanism reported successful, PA <=> issuer trusted.",
   note="success demanded only inside the region the transport supports (stated in the evidence assumptions); higher-order interactions beyond pairs only inside the complete slices"),
 "C11": dict(level="fault_enumeration", ref="§4 C11",
   technique="exhaustive fault enumeration: every exchange index x every fault kind (D=1), all ordered fault pairs (D=2) on the smallest configuration, each run to completion on the real Reader against the independent chip",
   text="For each configuration every exchange k of the fault-free read x 14 fault kinds is executed; oracle from the chip's own truth: no escaping panic, no livelock (horizon), every returned file identical to the chip's, no protocol reported successful that the chip did not complete, DataTrusted only with genuine files from a trusted issuer.",
   note="faults act on response bytes on the wire; plaintext CardAccess corruption is undetectable by any implementation and exempted for unprotected exchanges"),
 "C14": dict(level="exploration", ref="§4 C14",
   technique="enumeration of genuine sessions over the mechanism matrix and, per session, of every evidence field x the value-changing mutation set (every bit, zeroed, shortened, extended, other session, +-1, other OIDs), re-serialised by the library's writer and verified offline",
   text="51 (quick) / 150+ genuine live sessions (CA, PACE-CAM, AA-RSA, AA-ECDSA over curves and suites) are exported and verified offline: all verdicts equal the live ones. Every evidence field mutation must make the corresponding verdict unsuccessful (documented joint ChipKaPub+EcadIC replacement asserted to pass); every bit of every data-group file flipped must fail PA or parsing.",
   note="EF.SOD byte sweeps are C01 (unauthenticated wrapper bytes may legitimately change); an appended byte after a complete DER ECDSA signature is representation-only"),
 "C20": dict(level="model_checking", ref="§4 C20", engine="vcheck20 (vsched + vinstrument)",
   technique="preemption-bounded exhaustive schedule exploration (CHESS-style, P<=2 quick / 3 thorough) of the real reader/verifier/mobile/cert-pool code under a cooperative scheduler with a sync shim and statement-level yield points injected by a build overlay; sequential-equivalence oracle by brute force over all call orders; plus a separate free-running -race pass",
   text="Six scenarios (shared reader.Reader, shared verifier.Verifier, shared mobile.Reader, readers+verifier on one certificate pool, PreloadCscaCertPool x3 + Verify, same with a failing loader) with 2-3 logical threads on fresh objects per execution; every schedule with at most 2 preemptions (3 in thorough) at sync granularity and at statement granularity is executed on instrumented copies of the CURRENT sources; each call's result must equal its result in some sequential order of whole calls, the built-in trust store loaders must run exactly once, no deadlock. The same bodies run free on real goroutines under the race detector (200 iterations per scenario).",
   note="scheduling points are statement boundaries and sync operations of the instrumented packages (reader, verifier, mobile, cms cert pools); the race pass is dynamic detection, not enumeration; a sync type the shim lacks makes the build fail as a harness error"),
 "C12": dict(level="exploration", ref="§4 C12",
   technique="bounded-exhaustive input enumeration at ~50 entry points: all byte strings <=3 (and <=5 over a structural alphabet), every position x every byte value / truncation / extension of every genuine seed incl. onward pipelines, an adversarial grammar (nesting, sibling counts, lying lengths, indefinite markers, end-of-contents, malformed OIDs in every slot, evidence bundles with absent/oversize fields, documents lacking referenced files, signature range classes); oracles: no panic, allocation bound, CPU horizon",
   text="Every listed public entry point (TLV/APDU decoding, every LDS constructor, CMS parsing and verification, MRZ, SM decode, evidence verification, CBOR import, both offline verifiers, summaries) is driven with 3.8e8 inputs in the quick tier; a panic, an allocation above 256 KiB + 4000 x input (+64 MiB for public-key operations) or a call above the 20 s horizon is a violation keyed by entry point and root-cause frame. Length claims are sent smallest first so an over-allocation regression is reported, not an OOM.",
   note="the asymptotic 'small polynomial' clause is not decided (an enumeration can exhibit a blow-up, not prove a bound); inputs above 64 KiB, htmlreport and cmd/ are out of scope; workers run under ulimit -v"),
}
PENDING_REASON = "check still being built (DESIGN.md §4); no claim is made until its machinery exists and is green on the unchanged tree"

checks = []
for p in props:
    c = CLAIMED.get(p["id"])
    if not c: continue
    checks.append({
        "property_id": p["id"],
        "quick_cmd": f"./run.sh {p['id']} quick",
        "thorough_cmd": f"./run.sh {p['id']} thorough",
        "evidence_file": f"/verif/evidence/{p['id']}.json",
        "replay_cmd_template": "./run.sh replay {path}",
        "engine": c.get("engine", "vcheck"),
        "level_claimed": {"category": c["level"], "text": c["text"], "design_ref": c["ref"]},
        "level_note": c["note"] + "; " + BASE,
        "technique": c["technique"],
    })
na = [{"property_id": p["id"], "reason": CLAIMED.get(p["id"], {}).get("na", PENDING_REASON)} for p in props if p["id"] not in CLAIMED]
m = {
 "version": 1,
 "setup_cmd": "./setup.sh",
 "hooks": {
   "guard": "verif",
   "enable": "none needed: checks reach the library through its public API, crypto/rand.Reader and (C20) a go build -overlay generated from /repo's working tree by /verif/cmd/vinstrument; the build tag 'verif' is reserved and guards nothing",
   "baseline_off_cmd": "cd /repo && GOFLAGS=-mod=mod GOPROXY=off go test -vet=off -count=1 -timeout 25m $(go list ./... | grep -v cmd/gmrtd-reader)",
   "source_commits": [],
   "add_only": True,
 },
 "engines": [
   {"name": "vcheck", "path": "/verif/cmd/vcheck", "serves_properties": sorted(CLAIMED), "kind_free_text": "hand-written bounded-exhaustive explorer over the real gmrtd code: case sharding over 16 worker processes, deviation-bounded environment-answer exploration, explicit-state BFS with canonical keys, independent reference models (internal/ref*), evidence + known-findings classification"},
 ],
 "checks": checks,
 "not_applicable": na,
 "notes": "All checks compile /repo's current working tree through the module replace in /verif/go.mod. Exit 0 = held (KNOWN-FINDING lines for entries of known_findings.json), 1 = VIOLATION, 2 = harness error (never a violation claim).",
}
json.dump(m, open(os.path.join(ROOT, "MANIFEST.json"), "w"), indent=1)
print("claimed:", sorted(CLAIMED), "not_applicable:", len(na))
