#!/usr/bin/env python3
"""Regenerates /verif/MANIFEST.json from the table below (claimed checks) — every property of
properties.jsonl that is not in CLAIMED is listed under not_applicable with its reason."""
import json, os
ROOT = os.path.dirname(os.path.dirname(os.path.abspath(__file__)))
props = [json.loads(l) for l in open(os.path.join(ROOT, "properties.jsonl"))]

BASE = "the Go toolchain and standard library (crypto/*, math/big, encoding/asn1), the independent reference components under /verif/internal (anchored to ICAO worked examples by self-tests), and that the enumerated alphabets hit every code-visible distinction; cryptographic hardness is assumed, not searched"

CLAIMED = {
 "C17": dict(level="exploration", ref="§4 C17",
   technique="bounded-exhaustive enumeration of the full length dimension (every data length 0..65535, every Le 0..65536) against an independent ISO 7816-4 parser",
   text="Every data length 0..65535 and every expected length 0..65536 is enumerated (against a boundary set of the other dimension and of headers) on the real encoder; each encoding is parsed by an independent ISO 7816-4 parser and compared. Responses: all byte strings up to length 2/3 plus structured ones to 64 KiB. Exhaustive in the dimension the property quantifies over, which unit tests sample at 8 points.",
   note="trusts ref7816 (90-line independent parser) as the statement of ISO/IEC 7816-4 §5.2; data content is a fixed pattern (the encoder never inspects it)"),
}
PENDING_REASON = "check not built yet in this session (planned in DESIGN.md §4); no claim is made until its machinery exists and is green on the unchanged tree"

checks = []
for p in props:
    c = CLAIMED.get(p["id"])
    if not c: continue
    checks.append({
        "property_id": p["id"],
        "quick_cmd": f"./run.sh {p['id']} quick",
        "thorough_cmd": f"./run.sh {p['id']} thorough",
        "evidence_file": f"/verif/evidence/{p['id']}.json",
        "replay_cmd_template": "./run.sh replay {path}",
        "engine": c.get("engine", "vcheck"),
        "level_claimed": {"category": c["level"], "text": c["text"], "design_ref": c["ref"]},
        "level_note": c["note"] + "; " + BASE,
        "technique": c["technique"],
    })
na = [{"property_id": p["id"], "reason": CLAIMED.get(p["id"], {}).get("na", PENDING_REASON)} for p in props if p["id"] not in CLAIMED]
m = {
 "version": 1,
 "setup_cmd": "./setup.sh",
 "hooks": {
   "guard": "verif",
   "enable": "none needed: checks reach the library through its public API, crypto/rand.Reader and (C20) a go build -overlay generated from /repo's working tree by /verif/cmd/vinstrument; the build tag 'verif' is reserved and guards nothing",
   "baseline_off_cmd": "cd /repo && GOFLAGS=-mod=mod GOPROXY=off go test -vet=off -count=1 -timeout 25m $(go list ./... | grep -v cmd/gmrtd-reader)",
   "source_commits": [],
   "add_only": True,
 },
 "engines": [
   {"name": "vcheck", "path": "/verif/cmd/vcheck", "serves_properties": sorted(CLAIMED), "kind_free_text": "hand-written bounded-exhaustive explorer over the real gmrtd code: case sharding over 16 worker processes, deviation-bounded environment-answer exploration, explicit-state BFS with canonical keys, independent reference models (internal/ref*), evidence + known-findings classification"},
 ],
 "checks": checks,
 "not_applicable": na,
 "notes": "All checks compile /repo's current working tree through the module replace in /verif/go.mod. Exit 0 = held (KNOWN-FINDING lines for entries of known_findings.json), 1 = VIOLATION, 2 = harness error (never a violation claim).",
}
json.dump(m, open(os.path.join(ROOT, "MANIFEST.json"), "w"), indent=1)
print("claimed:", sorted(CLAIMED), "not_applicable:", len(na))
