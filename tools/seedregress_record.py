#!/usr/bin/env python3
"""usage: seedregress_record.py <head> <log>...   Writes the result of tools/seedregress.sh into each seed's meta.json
(regression_on_head). A MISSED seed keeps an existing 'neutralised' record (re-confirmed by hand with seedverify);
any other MISSED / HARNESS-PROBLEM / NOAPPLY is printed and NOT recorded."""
import sys,json,re
head=sys.argv[1]
bad=[]
n=0
for lf in sys.argv[2:]:
    for line in open(lf):
        m=re.match(r'(C\d\d-\d+) (CAUGHT by (C\d\d)|MISSED|NOAPPLY.*|HARNESS-PROBLEM.*)',line.strip())
        if not m: continue
        sid=m.group(1); p=f'/verif/seeded/{sid}/meta.json'; meta=json.load(open(p)); old=meta.get('regression_on_head',{})
        if m.group(3):
            new={"head":head,"status":"caught","by":m.group(3)}
            if 'rebased' in old: new['rebased']=old['rebased']
            meta['regression_on_head']=new; n+=1
        elif m.group(2)=='MISSED' and old.get('status')=='neutralised':
            old['head']=head; meta['regression_on_head']=old; n+=1
        else:
            bad.append(line.strip()); continue
        json.dump(meta,open(p,'w'),indent=1)
print("recorded",n,"unrecorded:",bad)
