#!/usr/bin/env python3
"""Prints the markdown table of /verif/seeded/*/meta.json (used for DESIGN.md §9.4)."""
import json,glob,os
rows=[]
for f in sorted(glob.glob('/verif/seeded/*/meta.json')):
    m=json.load(open(f))
    n=m.get('note','')
    first='missed at first' if 'MISSED' in n else ('missed by the owning check' if 'missed by' in n else 'caught')
    rows.append(f"| {m['id']} | {m['breaks_property']} | {m['needs_to_manifest']} | {', '.join(m['detected_by'])} | {first} | {m.get('note','').replace('|','/')} |")
print("| Seed | Property | Needs to manifest | Now detected by | First run | What happened / what was strengthened |")
print("|---|---|---|---|---|---|")
print("\n".join(rows))
