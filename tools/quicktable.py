#!/usr/bin/env python3
"""Prints a markdown table of what the committed evidence files say each check covered (per section)."""
import json,glob,os
rows=[]
for f in sorted(glob.glob('/verif/evidence/C*.json')):
    e=json.load(open(f))
    cov=e.get('coverage',{})
    secs=cov.get('sections',[])
    parts=[]
    for s in secs:
        ex='' if s.get('exhaustive',True) else ' (not exhaustive)'
        parts.append(f"{s['name']}: {s.get('evaluations',0):,}{ex}".replace(',',' '))
    rows.append((e['property_id'],e.get('tier'),'; '.join(parts),cov.get('evaluations',0),cov.get('states',0),cov.get('transitions',0),e.get('wall_s',0)))
print('| Check | Tier | Sections (evaluations) | Evaluations | States | Transitions | Wall |')
print('|---|---|---|---|---|---|---|')
for r in rows:
    print(f"| {r[0]} | {r[1]} | {r[2]} | {r[3]:,} | {r[4]:,} | {r[5]:,} | {r[6]:.0f} s |".replace(',',' '))
