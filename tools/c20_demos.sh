#!/bin/bash
# usage: tools/c20_demos.sh [demo-number ...]      (default: all)
# Detection demos for C20: each demo is a realistic concurrency-breaking change applied to a COPY of one
# source file (the repo is untouched; the copy goes through cmd/vinstrument via C20_SRC_OVERLAY).
# For each demo: (a) the repository's own tests of the affected packages still pass with the change
# (go test -overlay, -vet=off); (b) run_c20.sh quick must exit 1; afterwards (c) the unchanged tree is
# green. Evidence of demo runs goes to a scratch directory, never to /verif/evidence.
set -u
export GOFLAGS=-mod=mod GOPROXY=off
export GOCACHE=${GOCACHE:-/verif/cache/gocache}
T=$(mktemp -d /tmp/vc20demo.XXXXXX); trap 'rm -rf "$T"' EXIT
mkdir -p /verif/out

demo() { # n title file pkgs
  n=$1; title=$2; file=$3; pkgs=$4
  echo "=== demo $n: $title ($file)"
  python3 - "$file" "$T/$n.go" <<'PY' || { echo "demo $n: patch did not apply"; return; }
import os,sys
src=open('/repo/'+sys.argv[1]).read()
old,new=os.environ['OLD'],os.environ['NEW']
if src.count(old)!=1: print("OLD must occur exactly once, occurs",src.count(old),file=sys.stderr); sys.exit(3)
open(sys.argv[2],'w').write(src.replace(old,new))
PY
  printf '{"Replace":{"/repo/%s":"%s"}}' "$file" "$T/$n.go" >"$T/$n.overlay.json"
  (cd /repo && go test -overlay "$T/$n.overlay.json" -vet=off -count=1 $pkgs 2>&1 | sed 's/^/    repo tests: /')
  mkdir -p "$T/ev$n"
  VERIF_EVIDENCE_DIR="$T/ev$n" C20_RACE_DIR=/verif/out/c20_race_demo C20_SRC_OVERLAY="$file=$T/$n.go" /verif/run_c20.sh quick >"$T/$n.out" 2>"$T/$n.err"
  rc=$?
  grep -A1 "^VIOLATION" "$T/$n.out" | cut -c1-260 | sed 's/^/    /'
  grep "^C20 tier" "$T/$n.out" | cut -c1-140 | sed 's/^/    /'
  echo "    demo $n exit=$rc (expected 1)"
}

want=" ${*:-1 2 3} "
if [[ $want == *" 1 "* ]]; then
OLD='func (reader *Reader) SkipImages() {
	reader.mu.Lock()
	defer reader.mu.Unlock()
	reader.skipImages = true' \
NEW='func (reader *Reader) SkipImages() {
	reader.skipImages = true' \
demo 1 "reader.SkipImages without taking the lock" reader/reader.go "./reader/ ./mobile/"
fi
if [[ $want == *" 2 "* ]]; then
OLD='	reader.mu.Lock()
	defer reader.mu.Unlock()

	defer func() {
		if e := recover(); e != nil {' \
NEW='	reader.mu.Lock()
	reader.mu.Unlock() // narrowed: released before the steps run

	defer func() {
		if e := recover(); e != nil {' \
demo 2 "reader.ReadDocument unlocks before runSteps (narrowed critical section)" reader/reader.go "./reader/ ./mobile/"
fi
if [[ $want == *" 3 "* ]]; then
OLD='	cscaOnce.Do(func() {
		cscaCertPool, cscaInitErr = cms.DefaultMasterList()
	})' \
NEW='	if cscaCertPool == nil {
		cscaCertPool, cscaInitErr = cms.DefaultMasterList()
	}' \
demo 3 "mobile: cscaOnce.Do replaced by an 'if cscaCertPool == nil' test" mobile/mobile.go "./mobile/"
fi
if [[ $want == *" 0 "* ]] || [ $# -eq 0 ]; then
echo "=== unchanged tree"
VERIF_EVIDENCE_DIR="$T/ev0" C20_RACE_DIR=/verif/out/c20_race_demo /verif/run_c20.sh quick >"$T/0.out" 2>"$T/0.err"; rc=$?
grep "^VIOLATION\|^C20 tier" "$T/0.out" | cut -c1-140 | sed 's/^/    /'
echo "    unchanged tree exit=$rc (expected 0)"
fi
rm -rf /verif/out/c20_race_demo
