#!/bin/bash
# usage: tools/seedregress.sh [ids...]  - re-runs every stored seeded change against the checks recorded in its
# meta.json (quick tier, build overlay, /repo untouched) and prints one line per seed: CAUGHT / MISSED / NOAPPLY.
cd "$(dirname "$(readlink -f "$0")")/.."
IDS="$@"; [ -n "$IDS" ] || IDS=$(ls seeded | sort -V)
for id in $IDS; do
  d=seeded/$id
  checks=$(python3 -c "import json;print(' '.join(json.load(open('$d/meta.json'))['detected_by']))")
  if ! git -C /repo apply --check $(readlink -f $d/patch.diff) 2>/dev/null; then echo "$id NOAPPLY (repo changed under the patch)"; continue; fi
  res=MISSED
  for c in $checks; do
    if [ "$c" = C20 ]; then out=$(tools/seedrun_c20.sh $d/patch.diff quick 2>&1); else out=$(tools/seedrun.sh $d/patch.diff quick $c 2>&1); fi
    if echo "$out" | grep -q "exit=1"; then res="CAUGHT by $c"; break; fi
    if echo "$out" | grep -q "does not compile\|exit=2\|exit=4"; then res="HARNESS-PROBLEM with $c"; fi
  done
  echo "$id $res"
done
