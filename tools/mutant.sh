#!/bin/bash
# usage: tools/mutant.sh <Cxx> <tier> <repo-relative-file> <python-expr old=>new pairs file>   (or a patch via MUT_PATCH)
# Builds vcheck with a build overlay in which ONE repo file is replaced by a modified copy (repo untouched),
# runs the check and reports the exit code. Evidence goes to a scratch dir, not /verif/evidence.
# Modification: env OLD / NEW (exact substring replace, first occurrence) applied to the file.
set -u
ID=$1; TIER=$2; FILE=$3
export GOFLAGS=-mod=mod GOPROXY=off
export GOCACHE=${GOCACHE:-/verif/cache/gocache}
T=$(mktemp -d /tmp/vmut.XXXXXX); trap 'rm -rf $T' EXIT
python3 - "$FILE" "$T" <<'PY'
import os,sys,json
f,t=sys.argv[1],sys.argv[2]
s=open('/repo/'+f).read()
old,new=os.environ['OLD'],os.environ['NEW']
if old not in s: print("OLD not found",file=sys.stderr); sys.exit(3)
s=s.replace(old,new,1)
dst=os.path.join(t,os.path.basename(f))
open(dst,'w').write(s)
json.dump({"Replace":{'/repo/'+f:dst}},open(os.path.join(t,'overlay.json'),'w'))
PY
[ $? -eq 0 ] || exit 3
cd /verif
go build -overlay $T/overlay.json -o $T/vcheck ./cmd/vcheck || { echo "MUTANT does not compile"; exit 4; }
if [ "${MUT_TESTS:-0}" = 1 ]; then
  (cd /repo && go test -overlay $T/overlay.json -vet=off -count=1 $(go list ./... | grep -v gmrtd-reader) 2>&1 | grep -v "^ok\|no test files" | head -20; echo "repo tests done")
fi
ulimit -v 12000000
VERIF_EVIDENCE_DIR=$T $T/vcheck run $ID $TIER | grep -v "^KNOWN-FINDING" | cut -c1-400
echo "mutant exit=${PIPESTATUS[0]}"
