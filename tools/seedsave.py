#!/usr/bin/env python3
"""usage: seedsave.py <id e.g. C03-1> <property> <srcdir> <needs> <detected_by comma list> <note>
Copies patch.diff / demo_test.go / README.md into /verif/seeded/<id>/ and writes meta.json."""
import sys,os,shutil,json
sid,prop,src,needs,det,note=sys.argv[1:7]
dst=f'/verif/seeded/{sid}'
os.makedirs(dst,exist_ok=True)
for f in ['patch.diff','demo_test.go','README.md']:
    shutil.copy(os.path.join(src,f),os.path.join(dst,f))
vlog=f'/verif/out/seedlogs/verify-{sid}.log'
ver=open(vlog).read().strip().splitlines()[-2:] if os.path.exists(vlog) else []
json.dump({"id":sid,"breaks_property":prop,"origin":"independent sub-agent given only the property text and a scratch worktree of /repo (nothing from /verif)",
 "needs_to_manifest":needs,
 "confirmed":{"how":"tools/seedverify.sh in a scratch worktree: repo suite with the patch, demo with the patch, demo without","result":ver},
 "checks_run":"tools/seedrun.sh <patch> quick <checks> (build overlay of the patched files over /repo; /repo untouched)",
 "detected_by":[d for d in det.split(',') if d],"note":note},open(os.path.join(dst,'meta.json'),'w'),indent=1)
print("saved",dst)
