#!/bin/bash
# usage: tools/fixregress.sh [commit ...]
# For every "fix:" commit recorded in known_findings.json (status=fixed): revert it on top of /repo HEAD in a scratch
# worktree (git revert -n, i.e. a three-way merge, so later fixes in neighbouring lines stay), take the diff as a
# patch and run the quick check(s) of the properties recorded for that commit through the build overlay
# (tools/seedrun.sh; /repo untouched).  A fixed entry "suppresses nothing": the check must report the violation
# again.  One line per commit: RETURNS-REPORTED / NOT-REPORTED / NOREVERT (conflict).
cd "$(dirname "$(readlink -f "$0")")/.."
mkdir -p out/fixregress
COMMITS="$@"
[ -n "$COMMITS" ] || COMMITS=$(python3 -c "
import json
seen=[]
for f in json.load(open('known_findings.json'))['findings']:
    if f.get('status')=='fixed':
        for c in f['commit'].replace(',',' ').split():
            if c not in seen: seen.append(c)
print(' '.join(seen))")
for c in $COMMITS; do
  props=$(python3 -c "
import json,sys
s=[]
for f in json.load(open('known_findings.json'))['findings']:
    if f.get('status')=='fixed' and '$c' in f['commit'] and f['property'] not in s: s.append(f['property'])
print(' '.join(s))")
  if [ -f seeded/fix-reverts/$c.diff ]; then   # hand-made semantic revert where the textual one does not merge/compile
    cp seeded/fix-reverts/$c.diff out/fixregress/$c.revert.diff
  else
  T=$(mktemp -d /tmp/vfix.XXXXXX)
  git -C /repo worktree add -q --detach $T/wt HEAD
  if ! git -C $T/wt revert -n $c >/dev/null 2>&1; then
    echo "$c [$props] NOREVERT (conflicts with later fixes)"; git -C /repo worktree remove --force $T/wt; rm -rf $T; continue
  fi
  git -C $T/wt diff HEAD -- . ':!*_test.go' > out/fixregress/$c.revert.diff
  git -C /repo worktree remove --force $T/wt; rm -rf $T
  fi
  res="NOT-REPORTED"
  for p in $props; do
    if [ "$p" = C20 ]; then out=$(tools/seedrun_c20.sh out/fixregress/$c.revert.diff quick 2>&1); else out=$(tools/seedrun.sh out/fixregress/$c.revert.diff quick $p 2>&1); fi
    echo "$out" > out/fixregress/$c.$p.log
    if echo "$out" | grep -q "exit=1"; then res="RETURNS-REPORTED by $p"; break; fi
    if echo "$out" | grep -q "does not compile\|exit=2\|exit=4"; then res="HARNESS-PROBLEM with $p"; fi
  done
  echo "$c [$props] $res"
done
