#!/bin/bash
# usage: tools/seedrun_c20.sh <patch.diff> [quick|thorough]  - runs C20 (instrumented build) against /repo WITH the patch (repo untouched)
set -u
PATCH=$(readlink -f "$1"); TIER=${2:-quick}
T=$(mktemp -d /tmp/vseed20.XXXXXX)
cleanup() { git -C /repo worktree remove --force $T/wt >/dev/null 2>&1; rm -rf $T; }
trap cleanup EXIT
git -C /repo worktree add -q --detach $T/wt HEAD || exit 3
( cd $T/wt && git apply "$PATCH" ) || { echo "patch does not apply"; exit 3; }
OV=""
for f in $(git -C $T/wt status --porcelain | cut -c4- | grep '\.go$' | grep -v _test.go); do OV="$OV;$f=$T/wt/$f"; done
echo "src overlay: $OV"
C20_SRC_OVERLAY="${OV#;}" C20_RACE_DIR=$T/race VERIF_EVIDENCE_DIR=$T /verif/run_c20.sh $TIER 2>&1 | grep -v "^KNOWN" | grep "VIOLATION\|key=\|^C20\|race pass\|HARNESS" | cut -c1-260 | head -14
echo "== C20 exit=${PIPESTATUS[0]}"
