#!/bin/bash
# usage: tools/seedrun.sh <patch.diff> <tier> <Cxx> [Cyy ...]
# Runs the given checks against /repo WITH the patch, without modifying /repo: the patch is applied in a scratch
# worktree and the changed files are mounted over /repo through a go build overlay. Evidence goes to a scratch dir.
# (tools/seedrun_inplace.sh does the same by `git -C /repo apply` + checkout.)
set -u
PATCH=$(readlink -f "$1"); TIER=$2; shift 2
export GOFLAGS=-mod=mod GOPROXY=off
export GOCACHE=${GOCACHE:-/verif/cache/gocache}
T=$(mktemp -d /tmp/vseed.XXXXXX)
cleanup() { git -C /repo worktree remove --force $T/wt >/dev/null 2>&1; rm -rf $T; }
trap cleanup EXIT
git -C /repo worktree add -q --detach $T/wt HEAD || exit 3
( cd $T/wt && git apply "$PATCH" ) || { echo "patch does not apply"; exit 3; }
python3 - "$T" <<'PY'
import json,subprocess,sys,os
t=sys.argv[1]
files=subprocess.check_output(['git','-C',t+'/wt','status','--porcelain']).decode().splitlines()
rep={}
for l in files:
    f=l[3:].strip()
    if f.endswith('.go') and not f.endswith('_test.go'):
        rep['/repo/'+f]=os.path.join(t,'wt',f)
json.dump({"Replace":rep},open(t+'/overlay.json','w'))
print("overlay:",list(rep))
PY
cd /verif
python3 tools/genall.py
go build -overlay $T/overlay.json -o $T/vcheck ./cmd/vcheck || { echo "PATCHED TREE does not compile"; exit 4; }
ulimit -v 12000000
for ID in "$@"; do
  VERIF_EVIDENCE_DIR=$T $T/vcheck run $ID $TIER 2>&1 | grep -v "^KNOWN-FINDING" | cut -c1-300 | tail -8
  echo "== $ID exit=${PIPESTATUS[0]}"
done
