// Package c19 decides property C19: parsed document attributes are exactly what the hashed bytes encode.
package c19

import (
	"bytes"
	"encoding/json"
	"fmt"
	"math/big"
	"reflect"
	"sort"
	"strings"

	"github.com/gmrtd/gmrtd/cms"
	"github.com/gmrtd/gmrtd/document"
	"github.com/gmrtd/gmrtd/document/iso19794"
	"github.com/gmrtd/gmrtd/document/iso39794"
	"github.com/gmrtd/gmrtd/mrz"

	"verif/internal/reflds"
	"verif/internal/vc"
)

func init() {
	vc.Register(&vc.Check{ID: "C19", Level: "exploration", Run: run, Replay: replay, QuickSec: 80, ThoroSec: 840,
		Rule: "inputs: every file of reflds.Enumerate(kind) for the 13 file types (bounds per section); each is parsed by its library constructor and the result is compared field by field with the view the generator derived from the abstract value (no second parser); parsed twice (deep-equal) and once more with the caller's buffer overwritten afterwards; offered to the 12 other constructors and, for data groups, to Document.NewDG under all 16 numbers; a product of DG1/DG11/DG2/DG7/DG12/DG16/COM/SOD choices is attached to a Document and Summary() compared with the documented precedence. distinct_nontrivial = distinct generated files ACCEPTED by their own constructor + distinct documents summarised (hashed)",
		Assume: []string{
			"reflds generators follow ICAO 9303-10/-11, ISO/IEC 19794-5:2005 §5 and the ISO/IEC 39794-5 ICAO application profile sample layout; generator self-test (ICAO specimen MRZ lines, stdlib X.509 parse of the home-made certificate, DER walk) passes",
			"EF.SOD / EF.CardSecurity signatures are dummies: the constructors parse and do not verify",
			"leniencies: SET OF SecurityInfo compared as a multiset; tag list names 5F0F / 5F1A (not A0) for repeated names; only hashAlgorithm OID (not its parameters) compared; Age/PossibleAges (clock) excluded; country resolution checked on alpha-3 (alpha-2 only for NLD and D->DEU); EF.DIR constructor on foreign files only recorded (EF.DIR has no outer tag)"}})
}

type diff struct{ key, msg string }

type diffs []diff

func (d *diffs) add(key, format string, a ...any) {
	*d = append(*d, diff{key, fmt.Sprintf(format, a...)})
}

func hx(b []byte) string {
	if len(b) > 24 {
		return fmt.Sprintf("%x..(%d bytes)", b[:24], len(b))
	}
	return fmt.Sprintf("%x", b)
}

func (d *diffs) str(key, field, got, want string) {
	if got != want {
		d.add(key, "%s = %q, the file encodes %q", field, got, want)
	}
}
func (d *diffs) num(key, field string, got, want int64) {
	if got != want {
		d.add(key, "%s = %d, the file encodes %d", field, got, want)
	}
}
func (d *diffs) byt(key, field string, got, want []byte) {
	if !bytes.Equal(got, want) {
		d.add(key, "%s = %s, the file encodes %s", field, hx(got), hx(want))
	}
}
func (d *diffs) strs(key, field string, got, want []string) {
	if len(got) != len(want) {
		d.add(key, "%s = %q, the file encodes %q", field, got, want)
		return
	}
	for i := range got {
		if got[i] != want[i] {
			d.add(key, "%s = %q, the file encodes %q", field, got, want)
			return
		}
	}
}
func (d *diffs) name(key, field string, got *mrz.MrzName, want *reflds.Name) {
	switch {
	case got == nil && want == nil:
	case got == nil:
		d.add(key, "%s is absent, the file encodes %v", field, *want)
	case want == nil:
		d.add(key, "%s = %q/%q, the file has none", field, got.Primary, got.Secondary)
	case got.Primary != want.Primary || got.Secondary != want.Secondary:
		d.add(key, "%s = %q/%q, the file encodes %v", field, got.Primary, got.Secondary, *want)
	}
}
func (d *diffs) names(key, field string, got []mrz.MrzName, want []reflds.Name) {
	if len(got) != len(want) {
		d.add(key, "%s has %d element(s) %v, the file encodes %d: %v", field, len(got), got, len(want), want)
		return
	}
	for i := range got {
		d.name(key, fmt.Sprintf("%s[%d]", field, i), &got[i], &want[i])
	}
}
func (d *diffs) images(key, field string, got, want [][]byte) {
	if len(got) != len(want) {
		d.add(key, "%s has %d image(s), the file contains %d", field, len(got), len(want))
		return
	}
	for i := range got {
		d.byt(key, fmt.Sprintf("%s[%d]", field, i), got[i], want[i])
	}
}

// ---------------------------------------------------------------------------------------------
// constructors

type ctor struct {
	kind reflds.Kind
	name string
	call func([]byte) (any, error) // returns untyped nil when the constructor returned a nil pointer
}

var ctors = []ctor{
	{reflds.KCOM, "NewCOM", func(b []byte) (any, error) {
		v, err := document.NewCOM(b)
		if v == nil {
			return nil, err
		}
		return v, err
	}},
	{reflds.KSOD, "NewSOD", func(b []byte) (any, error) {
		v, err := document.NewSOD(b)
		if v == nil {
			return nil, err
		}
		return v, err
	}},
	{reflds.KDG1, "NewDG1", func(b []byte) (any, error) {
		v, err := document.NewDG1(b)
		if v == nil {
			return nil, err
		}
		return v, err
	}},
	{reflds.KDG2, "NewDG2", func(b []byte) (any, error) {
		v, err := document.NewDG2(b)
		if v == nil {
			return nil, err
		}
		return v, err
	}},
	{reflds.KDG7, "NewDG7", func(b []byte) (any, error) {
		v, err := document.NewDG7(b)
		if v == nil {
			return nil, err
		}
		return v, err
	}},
	{reflds.KDG11, "NewDG11", func(b []byte) (any, error) {
		v, err := document.NewDG11(b)
		if v == nil {
			return nil, err
		}
		return v, err
	}},
	{reflds.KDG12, "NewDG12", func(b []byte) (any, error) {
		v, err := document.NewDG12(b)
		if v == nil {
			return nil, err
		}
		return v, err
	}},
	{reflds.KDG13, "NewDG13", func(b []byte) (any, error) {
		v, err := document.NewDG13(b)
		if v == nil {
			return nil, err
		}
		return v, err
	}},
	{reflds.KDG14, "NewDG14", func(b []byte) (any, error) {
		v, err := document.NewDG14(b)
		if v == nil {
			return nil, err
		}
		return v, err
	}},
	{reflds.KDG15, "NewDG15", func(b []byte) (any, error) {
		v, err := document.NewDG15(b)
		if v == nil {
			return nil, err
		}
		return v, err
	}},
	{reflds.KDG16, "NewDG16", func(b []byte) (any, error) {
		v, err := document.NewDG16(b)
		if v == nil {
			return nil, err
		}
		return v, err
	}},
	{reflds.KCardAccess, "NewCardAccess", func(b []byte) (any, error) {
		v, err := document.NewCardAccess(b)
		if v == nil {
			return nil, err
		}
		return v, err
	}},
	{reflds.KCardSecurity, "NewCardSecurity", func(b []byte) (any, error) {
		v, err := document.NewCardSecurity(b)
		if v == nil {
			return nil, err
		}
		return v, err
	}},
}

func ctorFor(k reflds.Kind) *ctor {
	for i := range ctors {
		if ctors[i].kind == k {
			return &ctors[i]
		}
	}
	return nil
}

func lc(k reflds.Kind) string { return strings.ToLower(string(k)) }

// ---------------------------------------------------------------------------------------------
// typed comparisons: library view vs expected view

func cmpDG1(v *document.DG1, e *reflds.DG1View, d *diffs) {
	d.str("dg1/RawMrz", "RawMrz", v.RawMrz, e.RawMrz)
	if v.Mrz == nil {
		d.add("dg1/Mrz", "Mrz is nil")
		return
	}
	cmpMRZ("dg1", v.Mrz, e, d)
}

func cmpMRZ(p string, m *mrz.MRZ, e *reflds.DG1View, d *diffs) {
	d.str(p+"/DocumentCode", "DocumentCode", m.DocumentCode, e.DocumentCode)
	d.str(p+"/IssuingState", "IssuingState", m.IssuingState, e.IssuingState)
	d.name(p+"/NameOfHolder", "NameOfHolder", m.NameOfHolder, &e.Name)
	d.str(p+"/DocumentNumber", "DocumentNumber", m.DocumentNumber, e.DocumentNumber)
	d.str(p+"/Nationality", "Nationality", m.Nationality, e.Nationality)
	d.str(p+"/DateOfBirth", "DateOfBirth", m.DateOfBirth, e.DateOfBirth)
	d.str(p+"/Sex", "Sex", m.Sex, e.Sex)
	d.str(p+"/DateOfExpiry", "DateOfExpiry", m.DateOfExpiry, e.DateOfExpiry)
	d.str(p+"/OptionalData", "OptionalData", m.OptionalData, e.OptionalData)
	d.str(p+"/OptionalData2", "OptionalData2", m.OptionalData2, e.OptionalData2)
}

func cmpBHT(p string, g document.BiometricHeaderTemplate, e reflds.BHT, d *diffs) {
	d.byt("dg2/BHT.IcaoHeaderVersion", p+".BHT.IcaoHeaderVersion", g.IcaoHeaderVersion, e.HeaderVersion)
	d.byt("dg2/BHT.BiometricType", p+".BHT.BiometricType", g.BiometricType, e.BiometricType)
	d.byt("dg2/BHT.BiometricSubType", p+".BHT.BiometricSubType", g.BiometricSubType, e.SubType)
	d.byt("dg2/BHT.CreationDateTime", p+".BHT.CreationDateTime", g.CreationDateTime, e.CreationDate)
	d.byt("dg2/BHT.ValidityPeriod", p+".BHT.ValidityPeriod", g.ValidityPeriod, e.Validity)
	d.byt("dg2/BHT.PID", p+".BHT.PID", g.PID, e.PID)
	d.byt("dg2/BHT.FormatOwner", p+".BHT.FormatOwner", g.FormatOwner, e.FormatOwner)
	d.byt("dg2/BHT.FormatType", p+".BHT.FormatType", g.FormatType, e.FormatType)
}

func cmp19794(p string, g *iso19794.ISO19794, e reflds.TemplateView, d *diffs) {
	h := g.Facial.Header
	d.byt("dg2/iso19794/Header.FormatID", p+".FormatID", h.FormatID[:], []byte{'F', 'A', 'C', 0})
	d.byt("dg2/iso19794/Header.VersionID", p+".VersionID", h.VersionID[:], []byte{'0', '1', '0', 0})
	d.num("dg2/iso19794/Header.RecordLength", p+".RecordLength", int64(h.RecordLength), int64(e.RecLen))
	d.num("dg2/iso19794/Header.NumberOfFaces", p+".NumberOfFaces", int64(h.NumberOfFaces), int64(len(e.Faces)))
	if len(g.Facial.Images) != len(e.Faces) {
		d.add("dg2/iso19794/faces-missing", "%s: %d facial record(s) in the view, the block contains %d", p, len(g.Facial.Images), len(e.Faces))
		return
	}
	for i, gi := range g.Facial.Images {
		ef := e.Faces[i]
		q := fmt.Sprintf("%s.face[%d]", p, i)
		fi := gi.FacialInformation
		d.num("dg2/iso19794/FacialInformation.Length", q+".Length", int64(fi.Length), int64(20+8*len(ef.Points)+12+len(ef.Image)))
		d.num("dg2/iso19794/FacialInformation.NumberOfPoints", q+".NumberOfPoints", int64(fi.NumberOfPoints), int64(len(ef.Points)))
		d.num("dg2/iso19794/FacialInformation.Gender", q+".Gender", int64(fi.Gender), int64(ef.Gender))
		d.num("dg2/iso19794/FacialInformation.EyeColor", q+".EyeColor", int64(fi.EyeColor), int64(ef.EyeColor))
		d.num("dg2/iso19794/FacialInformation.HairColor", q+".HairColor", int64(fi.HairColor), int64(ef.HairColor))
		d.byt("dg2/iso19794/FacialInformation.Properties", q+".Properties", fi.Properties[:], ef.FeatureMask[:])
		d.byt("dg2/iso19794/FacialInformation.Expression", q+".Expression", fi.Expression[:], ef.Expression[:])
		d.byt("dg2/iso19794/FacialInformation.Pose", q+".Pose", fi.Pose[:], ef.Pose[:])
		d.byt("dg2/iso19794/FacialInformation.PoseUncertainty", q+".PoseUncertainty", fi.PoseUncertainty[:], ef.PoseUncertainty[:])
		ii := gi.ImageInformation
		d.num("dg2/iso19794/ImageInformation.Type", q+".Type", int64(ii.Type), int64(ef.ImgType))
		d.num("dg2/iso19794/ImageInformation.DataType", q+".DataType", int64(ii.DataType), int64(ef.ImgDataType))
		d.num("dg2/iso19794/ImageInformation.Width", q+".Width", int64(ii.Width), int64(ef.Width))
		d.num("dg2/iso19794/ImageInformation.Height", q+".Height", int64(ii.Height), int64(ef.Height))
		d.num("dg2/iso19794/ImageInformation.ColorSpace", q+".ColorSpace", int64(ii.ColorSpace), int64(ef.ColorSpace))
		d.num("dg2/iso19794/ImageInformation.SourceType", q+".SourceType", int64(ii.SourceType), int64(ef.SourceType))
		d.num("dg2/iso19794/ImageInformation.DeviceType", q+".DeviceType", int64(ii.DeviceType), int64(ef.DeviceType))
		d.num("dg2/iso19794/ImageInformation.Quality", q+".Quality", int64(ii.Quality), int64(ef.Quality))
		d.byt("dg2/iso19794/Image.Data", q+".Data", gi.Data, ef.Image)
		if len(gi.Features) != len(ef.Points) {
			d.add("dg2/iso19794/feature-points-missing", "%s: %d feature point(s) in the view, the record contains %d", q, len(gi.Features), len(ef.Points))
			continue
		}
		for k, gp := range gi.Features {
			ep := ef.Points[k]
			if gp.Type != ep.Type || gp.MajorPoint != ep.Major || gp.MinorPoint != ep.Minor || gp.X != ep.X || gp.Y != ep.Y {
				// The known finding is ONE specific misreading of the right 8-byte block (type, major, minor, x, y, 1 reserved
				// instead of type, point-code, x, y, 2 reserved). Anything else - e.g. the block of another face or of an
				// earlier parse - is a different defect and must not hide behind that key.
				blk := [8]byte{ep.Type, ep.Major<<4 | ep.Minor, byte(ep.X >> 8), byte(ep.X), byte(ep.Y >> 8), byte(ep.Y), 0, 0}
				if !(gp.Type == blk[0] && gp.MajorPoint == blk[1] && gp.MinorPoint == blk[2] && gp.X == uint16(blk[3])<<8|uint16(blk[4]) && gp.Y == uint16(blk[5])<<8|uint16(blk[6])) {
					d.add("dg2/iso19794/feature-point-not-decoded-from-its-own-block", "%s.feature[%d] = {type %d major %d minor %d x %d y %d} is not any reading of this face's block %x",
						q, k, gp.Type, gp.MajorPoint, gp.MinorPoint, gp.X, gp.Y, blk)
					continue
				}
				d.add("dg2/iso19794/feature-point-fields", "%s.feature[%d] = {type %d major %d minor %d x %d y %d}, the record encodes {type %d point %d.%d x %d y %d} (ISO/IEC 19794-5 §5.6: type(1) point-code(1)=major<<4|minor x(2) y(2) reserved(2))",
					q, k, gp.Type, gp.MajorPoint, gp.MinorPoint, gp.X, gp.Y, ep.Type, ep.Major, ep.Minor, ep.X, ep.Y)
			}
		}
	}
}

func cmp39794(p string, g *iso39794.ISO39794_5_AP, e *reflds.Rec39794View, d *diffs) {
	fb := g.FaceImageDataBlock
	d.num("dg2/iso39794/VersionBlock.Generation", p+".Generation", int64(fb.VersionBlock.Generation), int64(e.Generation))
	d.num("dg2/iso39794/VersionBlock.Year", p+".Year", int64(fb.VersionBlock.Year), int64(e.Year))
	if len(fb.RepresentationBlocks) != 1 {
		d.add("dg2/iso39794/RepresentationBlocks", "%s: %d representation block(s), the file contains 1", p, len(fb.RepresentationBlocks))
		return
	}
	rb := fb.RepresentationBlocks[0]
	d.num("dg2/iso39794/RepresentationId", p+".RepresentationId", int64(rb.RepresentationId), int64(e.RepresentationID))
	b2 := rb.ImageRepresentation.Base.ImageRepresentation2DBlock
	d.byt("dg2/iso39794/RepresentationData2D", p+".RepresentationData2D", b2.RepresentationData2D, e.Image)
	info := b2.ImageInformation2DBlock
	d.byt("dg2/iso39794/ImageDataFormat", p+".ImageDataFormat.Raw", info.ImageDataFormat.Raw, e.RawImageDataFormat)
	x := e.Rich
	if x == nil {
		x = &reflds.Rich39794{}
	}
	d.byt("dg2/iso39794/FaceImageKind2D", p+".FaceImageKind2D.Raw", info.FaceImageKind2D.Raw, e.RawFaceImageKind)
	d.byt("dg2/iso39794/ImageColourSpace", p+".ImageColourSpace.Raw", info.ImageColourSpace.Raw, e.RawColourSpace)
	d.num("dg2/iso39794/CameraToSubjectDistance", p+".CameraToSubjectDistance", int64(info.CameraToSubjectDistance), int64(x.CameraToSubjectDistance))
	d.num("dg2/iso39794/SensorDiagonal", p+".SensorDiagonal", int64(info.SensorDiagonal), int64(x.SensorDiagonal))
	d.num("dg2/iso39794/LensFocalLength", p+".LensFocalLength", int64(info.LensFocalLength), int64(x.LensFocalLength))
	d.num("dg2/iso39794/ImageSizeBlock.Width", p+".ImageSizeBlock.Width", int64(info.ImageSizeBlock.Width), int64(x.Width))
	d.num("dg2/iso39794/ImageSizeBlock.Height", p+".ImageSizeBlock.Height", int64(info.ImageSizeBlock.Height), int64(x.Height))
	c := rb.CaptureDateTimeBlock
	got := [7]int{c.Year, c.Month, c.Day, c.Hour, c.Minute, c.Second, c.Millisecond}
	want := [7]int{x.CaptureYear, x.CaptureMonth, x.CaptureDay, x.CaptureHour, x.CaptureMinute, x.CaptureSecond, x.CaptureMillisecond}
	if got != want {
		d.add("dg2/iso39794/CaptureDateTimeBlock", "%s.CaptureDateTimeBlock = %v, the file encodes %v", p, got, want)
	}
	d.byt("dg2/iso39794/QualityBlocks", p+".QualityBlocks.Raw", rb.QualityBlocks.Raw, e.RawQuality)
	d.byt("dg2/iso39794/LandmarkBlocks", p+".LandmarkBlocks.Raw", rb.LandmarkBlocks.Raw, e.RawLandmarks)
	d.num("dg2/iso39794/SessionId", p+".SessionId", int64(rb.SessionId), int64(x.SessionID))
	d.num("dg2/iso39794/DerivedFrom", p+".DerivedFrom", int64(rb.DerivedFrom), int64(x.DerivedFrom))
	d.num("dg2/iso39794/CaptureDeviceBlock.ModelIdBlock", p+".ModelIdBlock.Organisation", int64(rb.CaptureDeviceBlock.ModelIdBlock.Organisation), int64(x.ModelOrg))
	d.num("dg2/iso39794/CaptureDeviceBlock.ModelIdBlock", p+".ModelIdBlock.Id", int64(rb.CaptureDeviceBlock.ModelIdBlock.Id), int64(x.ModelID))
	cb := rb.CaptureDeviceBlock.CertificationIdBlocks.CertificationIdBlock
	if len(x.CertIDs) >= 1 {
		d.num("dg2/iso39794/CaptureDeviceBlock.CertificationIdBlocks", p+".CertificationIdBlock.Organisation", int64(cb.Organisation), int64(x.CertIDs[0][0]))
		d.num("dg2/iso39794/CaptureDeviceBlock.CertificationIdBlocks", p+".CertificationIdBlock.Id", int64(cb.Id), int64(x.CertIDs[0][1]))
	} else if cb.Organisation != 0 || cb.Id != 0 {
		d.add("dg2/iso39794/CaptureDeviceBlock.CertificationIdBlocks", "%s.CertificationIdBlock = %v, the file has none", p, cb)
	}
	if len(x.CertIDs) > 1 {
		// the view type has room for exactly one element of this SEQUENCE OF
		d.add("dg2/iso39794/certification-ids-beyond-first-dropped", "%s: captureDeviceBlock.certificationIdBlocks (SEQUENCE OF) holds %d elements %v, the view exposes only the first %v", p, len(x.CertIDs), x.CertIDs, cb)
	}
}

func dg2ImageBytes(imgs []document.DG2Image) [][]byte {
	var out [][]byte
	for _, i := range imgs {
		out = append(out, i.Image)
	}
	return out
}

func eqImages(a, b [][]byte) bool {
	if len(a) != len(b) {
		return false
	}
	for i := range a {
		if !bytes.Equal(a[i], b[i]) {
			return false
		}
	}
	return true
}

// cmpFaceImages compares an all-templates image list; the known "only the last template" shape gets its own key.
func cmpFaceImages(field string, got [][]byte, e *reflds.DG2View, d *diffs) {
	if eqImages(got, e.Images) {
		return
	}
	last := e.Templates[len(e.Templates)-1].Images
	if len(e.Templates) > 1 && eqImages(got, last) {
		d.add("dg2/images-of-earlier-templates-dropped", "%s holds %d image(s) = those of the LAST of %d biometric templates; the file contains %d face image(s) in all templates", field, len(got), len(e.Templates), len(e.Images))
		return
	}
	d.images("dg2/Images", field, got, e.Images)
}

func cmpDG2(v *document.DG2, e *reflds.DG2View, d *diffs) {
	if len(v.BITs) != len(e.Templates) {
		d.add("dg2/templates-missing", "BITs has %d template(s), the file contains %d", len(v.BITs), len(e.Templates))
	} else {
		for i, bit := range v.BITs {
			p := fmt.Sprintf("BITs[%d]", i)
			et := e.Templates[i]
			cmpBHT(p, bit.BHT, et.BHT, d)
			switch {
			case et.Rec != nil:
				if bit.BDB.Iso39794 == nil || bit.BDB.Iso19794 != nil {
					d.add("dg2/BDB.encoding", "%s: ISO 39794-5 block (7F2E) not exposed as Iso39794", p)
					continue
				}
				cmp39794(p+".Iso39794", bit.BDB.Iso39794, et.Rec, d)
				if got := bit.BDB.Iso39794.Images(); !eqImages(got, et.Images) {
					d.images("dg2/iso39794/Images()", p+".Iso39794.Images()", got, et.Images)
				}
			default:
				if bit.BDB.Iso19794 == nil || bit.BDB.Iso39794 != nil {
					d.add("dg2/BDB.encoding", "%s: ISO 19794-5 block (5F2E) not exposed as Iso19794", p)
					continue
				}
				cmp19794(p+".Iso19794", bit.BDB.Iso19794, et, d)
				if got := bit.BDB.Iso19794.Images(); !eqImages(got, et.Images) {
					d.images("dg2/iso19794/Images()", p+".Iso19794.Images()", got, et.Images)
				}
			}
		}
	}
	cmpFaceImages("DG2.Images", dg2ImageBytes(v.Images), e, d)
}

func cmpDG7(v *document.DG7, e *reflds.DG7View, d *diffs) {
	var got [][]byte
	for _, i := range v.Images {
		got = append(got, i.Image)
	}
	d.images("dg7/Images", "DG7.Images", got, e.Images)
}

func cmpDG11(v *document.DG11, e *reflds.DG11View, d *diffs) {
	g := v.Details
	d.name("dg11/NameOfHolder", "NameOfHolder", g.NameOfHolder, e.NameOfHolder)
	d.names("dg11/OtherNames", "OtherNames", g.OtherNames, e.OtherNames)
	d.str("dg11/PersonalNumber", "PersonalNumber", g.PersonalNumber, e.PersonalNumber)
	d.str("dg11/FullDateOfBirth", "FullDateOfBirth", g.FullDateOfBirth, e.FullDateOfBirth)
	d.strs("dg11/PlaceOfBirth", "PlaceOfBirth", g.PlaceOfBirth, e.PlaceOfBirth)
	d.strs("dg11/Address", "Address", g.Address, e.Address)
	d.str("dg11/Telephone", "Telephone", g.Telephone, e.Telephone)
	d.str("dg11/Profession", "Profession", g.Profession, e.Profession)
	d.str("dg11/Title", "Title", g.Title, e.Title)
	d.str("dg11/PersonalSummary", "PersonalSummary", g.PersonalSummary, e.PersonalSummary)
	d.byt("dg11/ProofOfCitizenship", "ProofOfCitizenship", g.ProofOfCitizenship, e.ProofOfCitizenship)
	d.strs("dg11/OtherTravelDocuments", "OtherTravelDocuments", g.OtherTravelDocuments, e.OtherTravelDocuments)
	d.str("dg11/CustodyInformation", "CustodyInformation", g.CustodyInformation, e.CustodyInformation)
}

func cmpDG12(v *document.DG12, e *reflds.DG12View, d *diffs) {
	g := v.Details
	d.str("dg12/IssuingAuthority", "IssuingAuthority", g.IssuingAuthority, e.IssuingAuthority)
	d.str("dg12/DateOfIssue", "DateOfIssue", g.DateOfIssue, e.DateOfIssue)
	d.names("dg12/OtherPersons", "OtherPersons", g.OtherPersons, e.OtherPersons)
	d.str("dg12/EndorsementsAndObservations", "EndorsementsAndObservations", g.EndorsementsAndObservations, e.EndorsementsAndObservations)
	d.str("dg12/TaxExitRequirements", "TaxExitRequirements", g.TaxExitRequirements, e.TaxExitRequirements)
	d.byt("dg12/ImageFront", "ImageFront", g.ImageFront, e.ImageFront)
	d.byt("dg12/ImageRear", "ImageRear", g.ImageRear, e.ImageRear)
	d.str("dg12/PersoDateTime", "PersoDateTime", g.PersoDateTime, e.PersoDateTime)
	d.str("dg12/PersoSystemSerialNumber", "PersoSystemSerialNumber", g.PersoSystemSerialNumber, e.PersoSystemSerialNumber)
}

func cmpPersons(p string, got []document.PersonToNotify, want []reflds.PersonView, d *diffs) {
	if len(got) != len(want) {
		d.add(p+"/persons-missing", "PersonsToNotify has %d element(s), the file contains %d", len(got), len(want))
		return
	}
	for i, g := range got {
		w := want[i]
		q := fmt.Sprintf("PersonsToNotify[%d]", i)
		d.str(p+"/DateRecorded", q+".DateRecorded", g.DateRecorded, w.Date)
		d.name(p+"/Name", q+".Name", g.Name, &w.Name)
		d.str(p+"/Telephone", q+".Telephone", g.Telephone, w.Telephone)
		d.strs(p+"/Address", q+".Address", g.Address, w.Address)
	}
}

func bigEq(b *big.Int, has bool, v int) bool {
	if !has {
		return b == nil
	}
	return b != nil && b.IsInt64() && b.Int64() == int64(v)
}

func bigStr(b *big.Int) string {
	if b == nil {
		return "absent"
	}
	return b.String()
}

// cmpSecInfos compares per kind as multisets (SET OF is unordered).
func cmpSecInfos(p string, g *document.SecurityInfos, e *reflds.SecInfosView, d *diffs) {
	if g == nil {
		d.add(p+"/SecurityInfos", "SecurityInfos is nil")
		return
	}
	d.byt(p+"/SecurityInfos.RawData", "SecurityInfos.RawData", g.RawData, e.Raw)
	if g.TotalCnt() != len(e.Infos) {
		d.add(p+"/SecurityInfos.count", "SecurityInfos exposes %d element(s) in total, the file contains %d", g.TotalCnt(), len(e.Infos))
	}
	type entry struct {
		raw  []byte
		desc string
		ok   func(w reflds.SecInfoView) bool
	}
	match := func(kind, field string, got []entry) {
		want := e.ByKind(kind)
		key := p + "/SecurityInfos." + field
		if len(got) != len(want) {
			d.add(key, "%s has %d element(s), the file contains %d of that type", field, len(got), len(want))
			return
		}
		used := make([]bool, len(got))
		for _, w := range want {
			found := false
			for i, ge := range got {
				if !used[i] && bytes.Equal(ge.raw, w.Raw) {
					used[i] = true
					found = true
					if !ge.ok(w) {
						d.add(key, "%s element %s differs from the encoded %+v", field, ge.desc, w.SecInfo)
					}
					break
				}
			}
			if !found {
				d.add(key, "%s: no element with raw encoding %s (encoded %s %s)", field, hx(w.Raw), w.Kind, w.OID)
			}
		}
	}
	var es []entry
	for _, x := range g.PaceInfos {
		x := x
		es = append(es, entry{x.Raw, fmt.Sprintf("{%s v%d id %s}", x.Protocol, x.Version, bigStr(x.ParameterId)), func(w reflds.SecInfoView) bool {
			return x.Protocol.String() == w.OID && x.Version == w.Version && bigEq(x.ParameterId, w.HasID, w.ID)
		}})
	}
	match("pace", "PaceInfos", es)
	es = nil
	for _, x := range g.PaceDomainParamInfos {
		x := x
		es = append(es, entry{x.Raw, fmt.Sprintf("{%s alg %s id %s}", x.Protocol, x.DomainParameter.Algorithm, bigStr(x.ParameterId)), func(w reflds.SecInfoView) bool {
			return x.Protocol.String() == w.OID && x.DomainParameter.Algorithm.String() == w.AlgOID && bytes.Equal(x.DomainParameter.Parameters.FullBytes, w.AlgParams) && bigEq(x.ParameterId, w.HasID, w.ID)
		}})
	}
	match("pace-domain", "PaceDomainParamInfos", es)
	es = nil
	for _, x := range g.ActiveAuthInfos {
		x := x
		es = append(es, entry{x.Raw, fmt.Sprintf("{%s v%d sig %s}", x.Protocol, x.Version, x.SignatureAlgorithm), func(w reflds.SecInfoView) bool {
			return x.Protocol.String() == w.OID && x.Version == w.Version && x.SignatureAlgorithm.String() == w.SigAlgOID
		}})
	}
	match("aa", "ActiveAuthInfos", es)
	es = nil
	for _, x := range g.ChipAuthInfos {
		x := x
		es = append(es, entry{x.Raw, fmt.Sprintf("{%s v%d key %s}", x.Protocol, x.Version, bigStr(x.KeyId)), func(w reflds.SecInfoView) bool {
			return x.Protocol.String() == w.OID && x.Version == w.Version && bigEq(x.KeyId, w.HasID, w.ID)
		}})
	}
	match("ca", "ChipAuthInfos", es)
	es = nil
	for _, x := range g.ChipAuthPubKeyInfos {
		x := x
		k := x.ChipAuthenticationPublicKey
		es = append(es, entry{x.Raw, fmt.Sprintf("{%s alg %s key %s id %s}", x.Protocol, k.Algorithm.Algorithm, hx(k.SubjectPublicKey.Bytes), bigStr(x.KeyId)), func(w reflds.SecInfoView) bool {
			return x.Protocol.String() == w.OID && k.Algorithm.Algorithm.String() == w.AlgOID && bytes.Equal(k.Algorithm.Parameters.FullBytes, w.AlgParams) &&
				bytes.Equal(k.SubjectPublicKey.Bytes, w.PubKey) && k.SubjectPublicKey.BitLength == 8*len(w.PubKey) && bigEq(x.KeyId, w.HasID, w.ID)
		}})
	}
	match("ca-pk", "ChipAuthPubKeyInfos", es)
	es = nil
	for _, x := range g.TermAuthInfos {
		x := x
		es = append(es, entry{x.Raw, fmt.Sprintf("{%s v%d}", x.Protocol, x.Version), func(w reflds.SecInfoView) bool {
			return x.Protocol.String() == w.OID && x.Version == w.Version
		}})
	}
	match("ta", "TermAuthInfos", es)
	es = nil
	for _, x := range g.EfDirInfos {
		x := x
		es = append(es, entry{x.Raw, fmt.Sprintf("{%s %s}", x.Protocol, hx(x.EFDir)), func(w reflds.SecInfoView) bool {
			return x.Protocol.String() == w.OID && bytes.Equal(x.EFDir, w.EFDir)
		}})
	}
	match("efdir", "EfDirInfos", es)
	es = nil
	for _, x := range g.UnhandledInfos {
		x := x
		es = append(es, entry{x.Raw, fmt.Sprintf("{%s}", x.Protocol), func(w reflds.SecInfoView) bool { return x.Protocol.String() == w.OID }})
	}
	match("unknown", "UnhandledInfos", es)
}

func cmpCOM(v *document.COM, e *reflds.COMView, d *diffs) {
	d.str("com/LdsVersion", "LdsVersion", v.LdsVersion, e.LdsVersion)
	d.str("com/UnicodeVersion", "UnicodeVersion", v.UnicodeVersion, e.UnicodeVersion)
	ok := len(v.TagList) == len(e.Tags)
	for i := 0; ok && i < len(e.Tags); i++ {
		ok = uint32(v.TagList[i]) == e.Tags[i]
	}
	if !ok {
		d.add("com/TagList", "TagList = %x, the file encodes %x", v.TagList, e.Tags)
	}
}

func cmpSOD(v *document.SOD, e *reflds.SODView, d *diffs) {
	if v.LdsSecurityObject == nil || v.SD == nil {
		d.add("sod/LdsSecurityObject", "LdsSecurityObject or SD is nil")
		return
	}
	o := v.LdsSecurityObject
	d.num("sod/Version", "LdsSecurityObject.Version", int64(o.Version), int64(e.Version))
	d.str("sod/HashAlgorithm", "LdsSecurityObject.HashAlgorithm", o.HashAlgorithm.Algorithm.String(), e.HashOID)
	if len(o.DataGroupHashValues) != len(e.Hashes) {
		d.add("sod/DataGroupHashValues", "DataGroupHashValues has %d entrie(s), the file contains %d", len(o.DataGroupHashValues), len(e.Hashes))
	} else {
		for i, h := range o.DataGroupHashValues {
			if h.DataGroupNumber != e.Hashes[i].N || !bytes.Equal(h.DataGroupHashValue, e.Hashes[i].Hash) {
				d.add("sod/DataGroupHashValues", "DataGroupHashValues[%d] = {%d %s}, the file encodes {%d %s}", i, h.DataGroupNumber, hx(h.DataGroupHashValue), e.Hashes[i].N, hx(e.Hashes[i].Hash))
			}
		}
	}
	d.str("sod/LdsVersionInfo", "LdsVersionInfo.LdsVersion", o.LdsVersionInfo.LdsVersion, e.LdsVersion)
	d.str("sod/LdsVersionInfo", "LdsVersionInfo.UnicodeVersion", o.LdsVersionInfo.UnicodeVersion, e.UnicodeVersion)
	// helper accessors
	for n := 1; n <= 16; n++ {
		var want []byte
		for _, h := range e.Hashes {
			if h.N == n {
				want = h.Hash
			}
		}
		if got := v.DgHash(n); !bytes.Equal(got, want) {
			d.add("sod/DgHash()", "DgHash(%d) = %s, the file lists %s", n, hx(got), hx(want))
		}
		if v.HasDgHash(n) != (want != nil) {
			d.add("sod/HasDgHash()", "HasDgHash(%d) = %v, the file lists it: %v", n, v.HasDgHash(n), want != nil)
		}
	}
	d.str("sod/SD.EContentType", "SD.Content.EContentType", v.SD.Content.EContentType.String(), e.EContentType)
	d.byt("sod/SD.EContent", "SD.Content.EContent", v.SD.Content.EContent, e.EContent)
	cmpSD("sod", v.SD.Certificates.Bytes, sdDigests(v.SD.DigestAlgorithms), v.SD.SignerInfos, e.Certificate, e.Signature, e.DigestOID, d)
}

func sdDigests(a []cms.AlgorithmIdentifier) []string {
	var out []string
	for _, x := range a {
		out = append(out, x.Algorithm.String())
	}
	return out
}

// cmpSD compares the CMS envelope values: embedded certificate, digest algorithm, the single SignerInfo.
func cmpSD(p string, cert []byte, digests []string, signers []cms.SignerInfo, wantCert, wantSig []byte, wantDigest string, d *diffs) {
	d.byt(p+"/SD.Certificates", "SD.Certificates", cert, wantCert)
	if len(digests) != 1 || digests[0] != wantDigest {
		d.add(p+"/SD.DigestAlgorithms", "SD.DigestAlgorithms = %v, the file encodes [%s]", digests, wantDigest)
	}
	if len(signers) != 1 {
		d.add(p+"/SD.SignerInfos", "SD.SignerInfos has %d element(s), the file contains 1", len(signers))
		return
	}
	si := signers[0]
	d.num(p+"/SD.SignerInfos", "SignerInfo.Version", int64(si.Version), 1)
	d.str(p+"/SD.SignerInfos", "SignerInfo.DigestAlgorithm", si.DigestAlgorithm.Algorithm.String(), wantDigest)
	d.byt(p+"/SD.SignerInfos", "SignerInfo.EncryptedDigest", si.EncryptedDigest, wantSig)
	if len(si.AuthenticatedAttributes) != 2 {
		d.add(p+"/SD.SignerInfos", "SignerInfo has %d signed attribute(s), the file contains 2", len(si.AuthenticatedAttributes))
	}
}

func cmpCardSecurity(v *document.CardSecurity, e *reflds.CardSecurityView, d *diffs) {
	if v.SD == nil {
		d.add("cardsecurity/SD", "SD is nil")
		return
	}
	cmpSecInfos("cardsecurity", v.SecurityInfos, e.SecInfos, d)
	d.str("cardsecurity/SD.EContentType", "SD.Content.EContentType", v.SD.Content.EContentType.String(), e.EContentType)
	d.byt("cardsecurity/SD.EContent", "SD.Content.EContent", v.SD.Content.EContent, e.SecInfos.Raw)
	cmpSD("cardsecurity", v.SD.Certificates.Bytes, sdDigests(v.SD.DigestAlgorithms), v.SD.SignerInfos, e.Certificate, e.Signature, e.DigestOID, d)
}

// ---------------------------------------------------------------------------------------------

// compare dispatches on the kind. obj is the constructor's result.
func compare(f reflds.File, obj any) (d diffs) {
	if rp, ok := obj.(document.RawDataProvider); ok {
		d.byt(lc(f.Kind)+"/RawData", "RawData", rp.GetRawData(), f.Bytes)
	}
	switch e := f.View.(type) {
	case *reflds.DG1View:
		cmpDG1(obj.(*document.DG1), e, &d)
	case *reflds.DG2View:
		cmpDG2(obj.(*document.DG2), e, &d)
	case *reflds.DG7View:
		cmpDG7(obj.(*document.DG7), e, &d)
	case *reflds.DG11View:
		cmpDG11(obj.(*document.DG11), e, &d)
	case *reflds.DG12View:
		cmpDG12(obj.(*document.DG12), e, &d)
	case *reflds.DG13View:
		d.byt("dg13/Content", "Content", obj.(*document.DG13).Content, e.Content)
	case *reflds.SecInfosView:
		switch o := obj.(type) {
		case *document.DG14:
			cmpSecInfos("dg14", o.SecInfos, e, &d)
		case *document.CardAccess:
			cmpSecInfos("cardaccess", o.SecurityInfos, e, &d)
		}
	case *reflds.DG15View:
		d.byt("dg15/SubjectPublicKeyInfoBytes", "SubjectPublicKeyInfoBytes", obj.(*document.DG15).SubjectPublicKeyInfoBytes, e.SPKI)
	case *reflds.DG16View:
		cmpPersons("dg16", obj.(*document.DG16).PersonsToNotify, e.Persons, &d)
	case *reflds.COMView:
		cmpCOM(obj.(*document.COM), e, &d)
	case *reflds.SODView:
		cmpSOD(obj.(*document.SOD), e, &d)
	case *reflds.CardSecurityView:
		cmpCardSecurity(obj.(*document.CardSecurity), e, &d)
	default:
		d.add("harness/unknown-view", "no comparison for view type %T", f.View)
	}
	return d
}

// dedupe keeps the first message per key.
func dedupe(d diffs) diffs {
	seen := map[string]bool{}
	var out diffs
	for _, x := range d {
		if !seen[x.key] {
			seen[x.key] = true
			out = append(out, x)
		}
	}
	return out
}

var seedCache = map[reflds.Kind][][]byte{}

func seedsOfKind(k reflds.Kind) [][]byte {
	if v, ok := seedCache[k]; ok {
		return v
	}
	var out [][]byte
	for _, sd := range reflds.Seeds() {
		if sd.Kind == k {
			out = append(out, sd.Bytes)
		}
	}
	// for DG2 add a record with feature points and two faces so that per-record scratch state is exercised
	reflds.Enumerate(k, false, func(f reflds.File) {
		if len(out) < 6 {
			out = append(out, f.Bytes)
		}
	})
	seedCache[k] = out
	return out
}

// checkFile runs every per-file oracle. accepted reports whether the file's own constructor accepted it.
func checkFile(f reflds.File) (d diffs, accepted bool) {
	k := lc(f.Kind)
	ct := ctorFor(f.Kind)
	in := bytes.Clone(f.Bytes)
	var obj any
	var err error
	if pv, _ := vc.Guard(func() { obj, err = ct.call(in) }); pv != nil {
		d.add("panic/"+ct.name, "%s panicked on a well-formed file: %v", ct.name, pv)
		return d, false
	}
	if err != nil || obj == nil {
		d.add(k+"/well-formed-file-rejected", "%s rejected a well-formed file (%s): %v", ct.name, f.Label, err)
	} else {
		accepted = true
		nCmp := -1
		if pv, _ := vc.Guard(func() { first := compare(f, obj); nCmp = len(first); d = append(d, first...) }); pv != nil {
			d.add("panic/view/"+k, "reading the view of %s panicked: %v", ct.name, pv)
		}
		// the same bytes give the same view
		obj2, err2 := ct.call(bytes.Clone(f.Bytes))
		if err2 != nil || !reflect.DeepEqual(obj, obj2) {
			d.add(k+"/same-bytes-different-view", "%s on the same bytes twice gave different results (second error: %v)", ct.name, err2)
		}
		// state must not survive between calls: after LATER parses of other files of the same kind (the generator's seed
		// files) the view obtained from THIS file still compares equal to its expectation
		nBefore := len(d)
		for _, sd := range seedsOfKind(f.Kind) {
			vc.Guard(func() { ct.call(bytes.Clone(sd)) })
		}
		var after diffs
		if pv, _ := vc.Guard(func() { after = compare(f, obj) }); nCmp >= 0 && (pv != nil || len(after) != nCmp) {
			d.add(k+"/earlier-view-changed-by-a-later-parse", "the view returned by %s for one file changed after other files of the same kind were parsed (%d differences now)", ct.name, len(after))
		}
		_ = nBefore
		// the view belongs to a private copy: overwriting the caller's buffer afterwards changes nothing
		for i := range in {
			in[i] ^= 0xA5
		}
		if !reflect.DeepEqual(obj, obj2) {
			d.add(k+"/view-aliases-caller-buffer", "the view returned by %s changed when the caller's input buffer was overwritten afterwards", ct.name)
		}
	}
	// wrong file for every other constructor
	foreignOK := map[int]bool{} // data-group numbers whose constructor accepted this foreign file (reported once)
	for i := range ctors {
		o := &ctors[i]
		if o.kind == f.Kind {
			continue
		}
		var oo any
		var oerr error
		if pv, _ := vc.Guard(func() { oo, oerr = o.call(bytes.Clone(f.Bytes)) }); pv != nil {
			d.add("panic/"+o.name+"("+string(f.Kind)+")", "%s panicked on a %s file: %v", o.name, f.Kind, pv)
			continue
		}
		if oerr == nil && oo != nil {
			foreignOK[o.kind.DG()] = true
			d.add("wrong-file-accepted/"+o.name+"("+string(f.Kind)+")", "%s accepted a %s file (%s) without error", o.name, f.Kind, f.Label)
		}
		// ... also when a genuine file of the constructor's own kind FOLLOWS the foreign one: the outer tag of these
		// bytes is still the foreign file's (everything behind the first data object would be hashed but never shown)
		if own := seedsOfKind(o.kind); len(own) > 0 && len(own[0]) > 0 && len(f.Bytes) > 0 && own[0][0] != f.Bytes[0] {
			both := append(bytes.Clone(f.Bytes), own[0]...)
			oo, oerr = nil, nil
			if pv, _ := vc.Guard(func() { oo, oerr = o.call(both) }); pv != nil {
				d.add("panic/"+o.name+"("+string(f.Kind)+"+own)", "%s panicked on a %s file followed by a file of its own kind: %v", o.name, f.Kind, pv)
			} else if oerr == nil && oo != nil {
				d.add("wrong-file-accepted/outer-tag-foreign-own-object-behind/"+o.name, "%s accepted bytes whose outer tag is that of a %s file (%s) because a data object of its own kind follows behind it", o.name, f.Kind, f.Label)
			}
		}
	}
	// Document.NewDG under every data-group number
	if f.Kind != reflds.KDIR {
		for n := 1; n <= 16; n++ {
			var doc document.Document
			var nerr error
			if pv, _ := vc.Guard(func() { nerr = doc.NewDG(n, bytes.Clone(f.Bytes)) }); pv != nil {
				d.add(fmt.Sprintf("panic/NewDG(%d,%s)", n, f.Kind), "Document.NewDG(%d) panicked on a %s file: %v", n, f.Kind, pv)
				continue
			}
			if n == f.Kind.DG() {
				if nerr != nil && accepted {
					d.add(k+"/NewDG-rejects-own-number", "Document.NewDG(%d) rejected the file its constructor accepts: %v", n, nerr)
				}
				continue
			}
			if nerr == nil && !foreignOK[n] {
				d.add(fmt.Sprintf("wrong-file-accepted/NewDG(%d,%s)", n, f.Kind), "Document.NewDG(%d, <%s file>) returned no error (%s)", n, f.Kind, f.Label)
			}
		}
	}
	return dedupe(d), accepted
}

// ---------------------------------------------------------------------------------------------
// document summary

type docCase struct {
	files map[string]*reflds.File // slot -> file (nil = absent). slots: dg1 dg2 dg7 dg11 dg12 dg16 com sod
}

func (dc docCase) label() string {
	var s []string
	for _, slot := range []string{"dg1", "dg11", "dg2", "dg7", "dg12", "dg16", "com", "sod"} {
		if f := dc.files[slot]; f != nil {
			s = append(s, slot+"["+f.Label+"]")
		}
	}
	return strings.Join(s, " ")
}

func (dc docCase) replay() map[string]any {
	m := map[string]any{}
	for slot, f := range dc.files {
		if f != nil {
			m[slot] = vc.Hex(f.Bytes)
		}
	}
	return map[string]any{"files": m, "label": dc.label()}
}

var countries = map[string][2]string{"UTO": {"UTO", ""}, "NLD": {"NLD", "NL"}, "D": {"DEU", "DE"}}

func cmpCountry(key, field string, got *document.CountryInfo, code string, d *diffs) {
	if code == "" {
		if got != nil {
			d.add(key, "%s = %+v without a DG1", field, *got)
		}
		return
	}
	w := countries[code]
	if got == nil {
		d.add(key, "%s is absent, DG1 encodes %q", field, code)
		return
	}
	if got.Alpha3 != w[0] || (w[1] != "" && got.Alpha2 != w[1]) {
		d.add(key, "%s = %+v, DG1 encodes %q (alpha-3 %s alpha-2 %s)", field, *got, code, w[0], w[1])
	}
}

func imgData(x []document.ImageData) [][]byte {
	var out [][]byte
	for _, i := range x {
		out = append(out, i.Data)
	}
	return out
}

func wantFormat(b []byte) string {
	if bytes.HasPrefix(b, []byte{0xFF, 0xD8, 0xFF}) {
		return "image/jpeg"
	}
	return "image/jp2"
}

func checkDoc(dc docCase) (d diffs) {
	var ex document.DocumentEx
	doc := &ex.Document
	var perr error
	pv, _ := vc.Guard(func() {
		for slot, f := range dc.files {
			if f == nil {
				continue
			}
			var err error
			switch slot {
			case "com":
				doc.Mf.Lds1.Com, err = document.NewCOM(bytes.Clone(f.Bytes))
			case "sod":
				doc.Mf.Lds1.Sod, err = document.NewSOD(bytes.Clone(f.Bytes))
			default:
				err = doc.NewDG(f.Kind.DG(), bytes.Clone(f.Bytes))
			}
			if err != nil {
				perr = fmt.Errorf("%s: %v", slot, err)
			}
		}
	})
	if pv != nil {
		d.add("panic/document-build", "building the document panicked: %v", pv)
		return d
	}
	if perr != nil {
		// reported by the per-file section; nothing to summarise
		return nil
	}
	var sum *document.DocumentSummary
	if pv, _ := vc.Guard(func() { sum = ex.Summary() }); pv != nil {
		d.add("panic/Summary", "DocumentEx.Summary() panicked: %v", pv)
		return d
	}
	if sum == nil || sum.IdentityAttributes == nil {
		d.add("summary/IdentityAttributes", "Summary().IdentityAttributes is nil")
		return d
	}
	ia := sum.IdentityAttributes
	view := func(slot string) any {
		if f := dc.files[slot]; f != nil {
			return f.View
		}
		return nil
	}
	e1, _ := view("dg1").(*reflds.DG1View)
	e11, _ := view("dg11").(*reflds.DG11View)
	e2, _ := view("dg2").(*reflds.DG2View)
	e7, _ := view("dg7").(*reflds.DG7View)
	e12, _ := view("dg12").(*reflds.DG12View)
	e16, _ := view("dg16").(*reflds.DG16View)
	ecom, _ := view("com").(*reflds.COMView)
	esod, _ := view("sod").(*reflds.SODView)

	z1 := &reflds.DG1View{}
	var mrzName *reflds.Name
	if e1 != nil {
		z1 = e1
		mrzName = &e1.Name
	}
	d.str("summary/DocumentCode", "DocumentCode", ia.DocumentCode, z1.DocumentCode)
	d.str("summary/DocumentNumber", "DocumentNumber", ia.DocumentNumber, z1.DocumentNumber)
	d.str("summary/Sex", "Sex", ia.Sex, z1.Sex)
	d.str("summary/MrzOptionalData", "MrzOptionalData", ia.MrzOptionalData, z1.OptionalData)
	d.str("summary/MrzOptionalData2", "MrzOptionalData2", ia.MrzOptionalData2, z1.OptionalData2)
	cmpCountry("summary/IssuingState", "IssuingState", ia.IssuingState, z1.IssuingState, &d)
	cmpCountry("summary/Nationality", "Nationality", ia.Nationality, z1.Nationality, &d)
	d.name("summary/NameMrzRaw", "NameMrzRaw", ia.NameMrzRaw, mrzName)
	d.str("summary/DateOfBirthMrzRaw", "DateOfBirthMrzRaw", ia.DateOfBirthMrzRaw, z1.DateOfBirth)
	d.str("summary/DateOfExpiryMrzRaw", "DateOfExpiryMrzRaw", ia.DateOfExpiryMrzRaw, z1.DateOfExpiry)
	wantExp := ""
	if z1.DateOfExpiry != "" {
		wantExp = "20" + z1.DateOfExpiry // documented: 2-digit year expanded to 20YY (generated dates are valid)
	}
	d.str("summary/DateOfExpiry", "DateOfExpiry", ia.DateOfExpiry, wantExp)

	z11 := &reflds.DG11View{}
	if e11 != nil {
		z11 = e11
	}
	// precedence: DG11 wins over DG1 MRZ when present, for Name and DateOfBirth
	wantName := mrzName
	src := "DG1 (no DG11 name)"
	if z11.NameOfHolder != nil {
		wantName = z11.NameOfHolder
		src = "DG11 (wins over DG1)"
	}
	if ia.Name == nil && wantName != nil || ia.Name != nil && wantName == nil || ia.Name != nil && (ia.Name.Primary != wantName.Primary || ia.Name.Secondary != wantName.Secondary) {
		d.add("summary/Name-precedence", "Name = %v, documented source is %s = %v", ia.Name, src, wantName)
	}
	wantDob, dsrc := z1.DateOfBirth, "DG1 MRZ"
	if z11.FullDateOfBirth != "" {
		wantDob, dsrc = z11.FullDateOfBirth, "DG11 (wins over DG1)"
	}
	if ia.DateOfBirth != wantDob {
		d.add("summary/DateOfBirth-precedence", "DateOfBirth = %q, documented source is %s = %q", ia.DateOfBirth, dsrc, wantDob)
	}
	d.str("summary/DateOfBirthDg11Raw", "DateOfBirthDg11Raw", ia.DateOfBirthDg11Raw, z11.FullDateOfBirth)
	d.names("summary/OtherNames", "OtherNames", ia.OtherNames, z11.OtherNames)
	d.str("summary/PersonalNumber", "PersonalNumber", ia.PersonalNumber, z11.PersonalNumber)
	d.strs("summary/PlaceOfBirth", "PlaceOfBirth", ia.PlaceOfBirth, z11.PlaceOfBirth)
	d.strs("summary/Address", "Address", ia.Address, z11.Address)
	d.str("summary/Telephone", "Telephone", ia.Telephone, z11.Telephone)
	d.str("summary/Profession", "Profession", ia.Profession, z11.Profession)
	d.str("summary/Title", "Title", ia.Title, z11.Title)

	z12 := &reflds.DG12View{}
	if e12 != nil {
		z12 = e12
	}
	d.str("summary/IssuingAuthority", "IssuingAuthority", ia.IssuingAuthority, z12.IssuingAuthority)
	d.str("summary/DateOfIssue", "DateOfIssue", ia.DateOfIssue, z12.DateOfIssue)
	d.str("summary/DateOfIssueRaw", "DateOfIssueRaw", ia.DateOfIssueRaw, z12.DateOfIssue)
	for _, s := range []struct {
		name string
		got  *document.ImageData
		want []byte
	}{{"DocumentImageFront", ia.DocumentImageFront, z12.ImageFront}, {"DocumentImageRear", ia.DocumentImageRear, z12.ImageRear}} {
		switch {
		case s.got == nil && len(s.want) == 0:
		case s.got == nil:
			d.add("summary/"+s.name, "%s is absent, DG12 contains %s", s.name, hx(s.want))
		case !bytes.Equal(s.got.Data, s.want) || (len(s.want) > 0 && string(s.got.Format) != wantFormat(s.want)):
			d.add("summary/"+s.name, "%s = {%s %s}, DG12 contains %s", s.name, hx(s.got.Data), s.got.Format, hx(s.want))
		}
	}
	if e2 != nil {
		cmpFaceImages("Summary().IdentityAttributes.FaceImages", imgData(ia.FaceImages), e2, &d)
		for _, im := range ia.FaceImages {
			if string(im.Format) != wantFormat(im.Data) {
				d.add("summary/FaceImages.Format", "FaceImages format %q for image %s", im.Format, hx(im.Data))
			}
		}
	} else if len(ia.FaceImages) != 0 {
		d.add("summary/FaceImages", "FaceImages has %d image(s) without a DG2", len(ia.FaceImages))
	}
	var want7 [][]byte
	if e7 != nil {
		want7 = e7.Images
	}
	d.images("summary/SignatureImages", "SignatureImages", imgData(ia.SignatureImages), want7)
	var want16 []reflds.PersonView
	if e16 != nil {
		want16 = e16.Persons
	}
	cmpPersons("summary/PersonsToNotify", ia.PersonsToNotify, want16, &d)

	// LDS / Unicode version: EF.SOD (v1) has priority over EF.COM
	wl, wu := "", ""
	if ecom != nil {
		wl, wu = ecom.LdsVersion, ecom.UnicodeVersion
	}
	if esod != nil && esod.LdsVersion != "" {
		wl, wu = esod.LdsVersion, esod.UnicodeVersion
	}
	d.str("summary/LdsVersion-precedence", "Summary().LdsVersion", sum.LdsVersion, wl)
	d.str("summary/UnicodeVersion-precedence", "Summary().UnicodeVersion", sum.UnicodeVersion, wu)
	d.str("summary/LdsVersion-precedence", "Document.LdsVersion()", doc.LdsVersion(), wl)
	d.str("summary/UnicodeVersion-precedence", "Document.UnicodeVersion()", doc.UnicodeVersion(), wu)

	// computed fresh: a second call gives an equal summary (Age fields come from the same clock day)
	if s2 := ex.Summary(); !reflect.DeepEqual(stripAge(sum), stripAge(s2)) {
		d.add("summary/not-recomputed-equal", "two Summary() calls on the same document differ")
	}
	return dedupe(d)
}

func stripAge(s *document.DocumentSummary) document.DocumentSummary {
	c := *s
	if c.IdentityAttributes != nil {
		ia := *c.IdentityAttributes
		ia.Age, ia.PossibleAges = nil, nil
		c.IdentityAttributes = &ia
	}
	return c
}

// docChoices returns, per slot, the alternatives (nil = file absent) of the summary product.
func docChoices() (slots []string, choices map[string][]*reflds.File) {
	p := func(f reflds.File) *reflds.File { return &f }
	nm := reflds.NameSpec{Primary: []string{"ERIKSSON"}, Secondary: []string{"ANNA", "MARIA"}}
	ta := reflds.SecInfoAlphabet()
	_ = ta
	choices = map[string][]*reflds.File{
		"dg1": {nil,
			p(reflds.BuildDG1(reflds.MRZSpec{Layout: 3, DocCode: "P", State: "UTO", Nationality: "UTO", Name: nm, DocNumber: "L898902C3", DOB: "740812", Sex: "F", Expiry: "120415", Optional: "ZE184226B"})),
			p(reflds.BuildDG1(reflds.MRZSpec{Layout: 1, DocCode: "ID", State: "D", Nationality: "D", Name: reflds.NameSpec{Primary: []string{"MUSTERMANN"}}, DocNumber: "D23145890734", DOB: "000229", Sex: "M", Expiry: "300101", Optional: "XY9", Optional2: "Z1"})),
			p(reflds.BuildDG1(reflds.MRZSpec{Layout: 2, DocCode: "I", State: "NLD", Nationality: "UTO", Name: reflds.NameSpec{Primary: []string{"VAN", "DER", "BERG"}, Secondary: []string{"JAN"}}, DocNumber: "AB12345", DOB: "991231", Sex: "M", Expiry: "291231", Optional: "AB1"}))},
		"dg11": {nil,
			p(reflds.BuildDG11(reflds.StdDG11(reflds.D11Name, 0, false, false))),
			p(reflds.BuildDG11(reflds.StdDG11(reflds.D11FullDOB, 0, false, false))),
			p(reflds.BuildDG11(reflds.StdDG11(reflds.D11FullDOB|reflds.D11Name, 0, false, true))),
			p(reflds.BuildDG11(reflds.StdDG11(reflds.D11All, 3, false, false))),
			p(reflds.BuildDG11(reflds.StdDG11(reflds.D11All&^(reflds.D11Name|reflds.D11FullDOB), 2, false, false))),
			p(reflds.BuildDG11(reflds.StdDG11(reflds.D11OtherNames, 2, true, false)))},
		"dg12": {nil,
			p(reflds.BuildDG12(reflds.StdDG12(reflds.D12All, 2, false, false))),
			p(reflds.BuildDG12(reflds.StdDG12(reflds.D12IssuingAuthority|reflds.D12ImageRear|reflds.D12DateOfIssue, 0, true, false)))},
		"dg7":  {nil, p(reflds.BuildDG7(reflds.DG7Spec{Images: [][]byte{reflds.Image(reflds.MagicJPEG, 1, 60), reflds.Image(reflds.MagicJ2K, 2, 45)}}))},
		"dg16": {nil, p(reflds.BuildDG16(reflds.DG16Spec{Persons: []reflds.Person{{Date: "20020101", Name: reflds.NameSpec{Primary: []string{"SMITH"}, Secondary: []string{"CHARLES", "R"}}, Tel: "19525551212", Address: []string{"123 MAPLE RD", "ANYTOWN"}}, {Date: "20191231", BCDDate: true, Name: reflds.NameSpec{Primary: []string{"BROWN"}}, Tel: "+4420123456", Address: []string{"LONDON"}}}}))},
		"com":  {nil, p(reflds.BuildCOM(reflds.COMSpec{LdsVersion: "0107", UnicodeVersion: "040000", Tags: []uint32{0x61, 0x75}}))},
		"sod": {nil,
			p(reflds.BuildSOD(reflds.SODSpec{Version: 0, HashOID: reflds.OIDSHA256, DGs: []int{1, 2}})),
			p(reflds.BuildSOD(reflds.SODSpec{Version: 1, HashOID: reflds.OIDSHA256, HashParamsNull: true, DGs: []int{1, 2, 11}, LdsVersion: "0108", UnicodeVersion: "060000"}))},
	}
	// DG2: none, one template, two templates (19794-5 with two faces + 39794-5), three templates
	var dg2s []reflds.File
	reflds.Enumerate(reflds.KDG2, false, func(f reflds.File) { dg2s = append(dg2s, f) })
	var two, three *reflds.File
	for i := range dg2s {
		v := dg2s[i].View.(*reflds.DG2View)
		if two == nil && len(v.Templates) == 2 && len(v.Templates[0].Images) == 2 && v.Templates[1].Rec != nil {
			two = &dg2s[i]
		}
		if three == nil && len(v.Templates) == 3 {
			three = &dg2s[i]
		}
	}
	choices["dg2"] = []*reflds.File{nil, &dg2s[1], two, three}
	return []string{"dg1", "dg11", "dg2", "dg7", "dg12", "dg16", "com", "sod"}, choices
}

// ---------------------------------------------------------------------------------------------

func replayCase(f reflds.File) map[string]any {
	m := map[string]any{"kind": string(f.Kind), "label": f.Label}
	if len(f.Bytes) <= 20000 {
		m["hex"] = vc.Hex(f.Bytes)
	} else {
		m["hex_prefix"] = vc.Hex(f.Bytes[:64])
		m["len"] = len(f.Bytes)
	}
	return m
}

func run(c *vc.Ctx) {
	if c.Shard == 0 {
		if err := reflds.SelfTest(); err != nil {
			c.HarnessError("reflds self-test: %v", err)
			return
		}
	}
	kinds := append(append([]reflds.Kind{}, reflds.Kinds...), reflds.KDIR)
	sampled := map[reflds.Kind]bool{}
	for _, k := range kinds {
		sec := "files/" + string(k)
		c.SecBound(sec, reflds.Bound(k, c.Thorough())+"; each file: own constructor view == generated view, parsed twice, caller buffer overwritten, 12 foreign constructors + Document.NewDG(1..16)")
		stop := false
		n := 0
		reflds.Enumerate(k, c.Thorough(), func(f reflds.File) {
			n++
			if stop || !c.Mine() {
				return
			}
			if c.Expired() {
				c.SecNotExhaustive(sec, fmt.Sprintf("deadline at file %d", n))
				stop = true
				return
			}
			if k == reflds.KDIR {
				runDIR(c, sec, f)
				return
			}
			d, acc := checkFile(f)
			if acc {
				c.DistinctBytes(f.Bytes)
			}
			if len(d) == 0 {
				c.Outcome(sec, "view-equal+foreign-constructors-reject")
			} else {
				c.Outcome(sec, "mismatch")
			}
			for _, x := range d {
				x, f := x, f
				c.Violation(sec, x.key, fmt.Sprintf("%s file [%s]: %s", f.Kind, f.Label, x.msg), replayCase(f), func() bool {
					d2, _ := checkFile(f)
					for _, y := range d2 {
						if y.key == x.key {
							return true
						}
					}
					return false
				})
			}
			if !sampled[k] && len(f.Bytes) < 400 && n > 3 {
				sampled[k] = true
				c.Sample(map[string]any{"kind": string(k), "label": f.Label, "hex": vc.Hex(f.Bytes)})
			}
		})
	}
	// document summary
	sec := "document-summary"
	slots, choices := docChoices()
	total := 1
	for _, s := range slots {
		total *= len(choices[s])
	}
	c.SecBound(sec, fmt.Sprintf("product of %d documents: DG1 {absent, TD3, TD1 long number/D, TD2} x DG11 {absent, name only, date only, BCD date+name, all, all but name+date, bare other names} x DG2 {absent, 1, 2, 3 templates} x DG7 {absent, 2 images} x DG12 {absent, all, 3 elements BCD} x DG16 {absent, 2 persons} x COM {absent, present} x SOD {absent, v0, v1}; Summary().IdentityAttributes and LDS/Unicode version compared with the documented precedence (DG11 over DG1 for name and date of birth; EF.SOD v1 over EF.COM)", total))
	idx := make([]int, len(slots))
	for n := 0; n < total; n++ {
		x := n
		dc := docCase{files: map[string]*reflds.File{}}
		for i, s := range slots {
			idx[i] = x % len(choices[s])
			x /= len(choices[s])
			dc.files[s] = choices[s][idx[i]]
		}
		if !c.Mine() {
			continue
		}
		if c.Expired() {
			c.SecNotExhaustive(sec, fmt.Sprintf("deadline at document %d of %d", n, total))
			break
		}
		d := checkDoc(dc)
		c.Distinct("doc:" + fmt.Sprint(idx))
		if len(d) == 0 {
			c.Outcome(sec, "summary-follows-documented-precedence")
		} else {
			c.Outcome(sec, "mismatch")
		}
		for _, x := range d {
			x, dc := x, dc
			c.Violation(sec, x.key, fmt.Sprintf("document {%s}: %s", dc.label(), x.msg), dc.replay(), func() bool {
				for _, y := range checkDoc(dc) {
					if y.key == x.key {
						return true
					}
				}
				return false
			})
		}
	}
}

// runDIR: EF.DIR files (no outer tag of their own) must be rejected by the 13 constructors; NewEFDIR on them is
// only recorded.
func runDIR(c *vc.Ctx, sec string, f reflds.File) {
	bad := false
	for i := range ctors {
		o := &ctors[i]
		var oo any
		var oerr error
		if pv, _ := vc.Guard(func() { oo, oerr = o.call(bytes.Clone(f.Bytes)) }); pv != nil {
			c.Violation(sec, "panic/"+o.name+"(DIR)", fmt.Sprintf("%s panicked on an EF.DIR file: %v", o.name, pv), replayCase(f), nil)
			bad = true
			continue
		}
		if oerr == nil && oo != nil {
			c.Violation(sec, "wrong-file-accepted/"+o.name+"(DIR)", fmt.Sprintf("%s accepted an EF.DIR file (%s)", o.name, f.Label), replayCase(f), nil)
			bad = true
		}
	}
	dir, err := document.NewEFDIR(bytes.Clone(f.Bytes))
	e := f.View.(*reflds.DIRView)
	if err != nil || dir == nil || len(dir.Application) != len(e.AIDs) || !bytes.Equal(dir.RawData, f.Bytes) {
		c.Violation(sec, "dir/Application", fmt.Sprintf("NewEFDIR: err=%v, the file contains %d application template(s)", err, len(e.AIDs)), replayCase(f), nil)
		bad = true
	}
	if bad {
		c.Outcome(sec, "mismatch")
	} else {
		c.Outcome(sec, "rejected-by-all-13-constructors+application-count-equal")
		c.DistinctBytes(f.Bytes)
	}
}

// ---------------------------------------------------------------------------------------------
// replay

func findFile(kind reflds.Kind, b []byte) *reflds.File {
	var hit *reflds.File
	reflds.Enumerate(kind, true, func(f reflds.File) {
		if hit == nil && bytes.Equal(f.Bytes, b) {
			hit = &f
		}
	})
	if hit == nil {
		reflds.Enumerate(kind, false, func(f reflds.File) {
			if hit == nil && bytes.Equal(f.Bytes, b) {
				hit = &f
			}
		})
	}
	return hit
}

// plain converts a view into JSON-friendly values with byte strings in hex and OIDs / big integers as text.
func plain(v reflect.Value, depth int) any {
	if !v.IsValid() || depth > 40 {
		return nil
	}
	if v.CanInterface() {
		switch x := v.Interface().(type) {
		case *big.Int:
			if x == nil {
				return nil
			}
			return x.String()
		case fmt.Stringer:
			if v.Kind() == reflect.Slice && v.Type().Elem().Kind() == reflect.Int { // asn1.ObjectIdentifier
				return x.String()
			}
		}
	}
	switch v.Kind() {
	case reflect.Pointer, reflect.Interface:
		if v.IsNil() {
			return nil
		}
		return plain(v.Elem(), depth+1)
	case reflect.Struct:
		m := map[string]any{}
		for i := 0; i < v.NumField(); i++ {
			if v.Type().Field(i).IsExported() {
				m[v.Type().Field(i).Name] = plain(v.Field(i), depth+1)
			}
		}
		return m
	case reflect.Slice, reflect.Array:
		if v.Type().Elem().Kind() == reflect.Uint8 {
			b := make([]byte, v.Len())
			for i := range b {
				b[i] = byte(v.Index(i).Uint())
			}
			if len(b) > 48 {
				return fmt.Sprintf("%x..(%d bytes)", b[:48], len(b))
			}
			return fmt.Sprintf("%x", b)
		}
		out := make([]any, v.Len())
		for i := range out {
			out[i] = plain(v.Index(i), depth+1)
		}
		return out
	case reflect.Map:
		return fmt.Sprint(v.Interface())
	}
	if v.CanInterface() {
		return v.Interface()
	}
	return nil
}

func jsonView(v any) string {
	b, err := json.Marshal(plain(reflect.ValueOf(v), 0))
	if err != nil {
		return fmt.Sprintf("%+v", v)
	}
	if len(b) > 8000 {
		return string(b[:8000]) + "...(truncated)"
	}
	return string(b)
}

func replay(c *vc.Ctx, raw json.RawMessage) string {
	var doc struct {
		Section string `json:"section"`
		Case    struct {
			Kind  string            `json:"kind"`
			Label string            `json:"label"`
			Hex   string            `json:"hex"`
			Files map[string]string `json:"files"`
		} `json:"case"`
	}
	if err := json.Unmarshal(raw, &doc); err != nil {
		return "unreadable case: " + err.Error()
	}
	var out strings.Builder
	report := func(sec string, d diffs, what string) {
		sort.Slice(d, func(i, j int) bool { return d[i].key < d[j].key })
		for _, x := range d {
			c.Violation(sec, x.key, what+": "+x.msg, nil, nil)
			fmt.Fprintf(&out, "\n  verdict %s: %s", x.key, x.msg)
		}
		if len(d) == 0 {
			out.WriteString("\n  verdict: no difference")
		}
	}
	if doc.Case.Files != nil {
		dc := docCase{files: map[string]*reflds.File{}}
		kindOf := map[string]reflds.Kind{"dg1": reflds.KDG1, "dg2": reflds.KDG2, "dg7": reflds.KDG7, "dg11": reflds.KDG11, "dg12": reflds.KDG12, "dg16": reflds.KDG16, "com": reflds.KCOM, "sod": reflds.KSOD}
		_, choices := docChoices()
		for slot, h := range doc.Case.Files {
			b := vc.Unhex(h)
			for _, f := range choices[slot] {
				if f != nil && bytes.Equal(f.Bytes, b) {
					dc.files[slot] = f
				}
			}
			if dc.files[slot] == nil {
				dc.files[slot] = findFile(kindOf[slot], b)
			}
			if dc.files[slot] == nil {
				return fmt.Sprintf("file in slot %s is not produced by the generators; cannot derive the expected view", slot)
			}
			fmt.Fprintf(&out, "\n  %s = %s\n    expected view: %s", slot, h[:min(len(h), 160)], jsonView(dc.files[slot].View))
		}
		var ex document.DocumentEx
		for slot, f := range dc.files {
			switch slot {
			case "com":
				ex.Document.Mf.Lds1.Com, _ = document.NewCOM(f.Bytes)
			case "sod":
				ex.Document.Mf.Lds1.Sod, _ = document.NewSOD(f.Bytes)
			default:
				ex.Document.NewDG(f.Kind.DG(), f.Bytes)
			}
		}
		s := ex.Summary()
		s.IdentityAttributes.Age, s.IdentityAttributes.PossibleAges = nil, nil
		fmt.Fprintf(&out, "\n  library Summary(): %s", jsonView(s))
		report(doc.Section, checkDoc(dc), "document {"+dc.label()+"}")
		return out.String()
	}
	if doc.Case.Hex == "" {
		return "case carries no bytes (file larger than 20000 bytes); label: " + doc.Case.Label
	}
	b := vc.Unhex(doc.Case.Hex)
	kind := reflds.Kind(doc.Case.Kind)
	fmt.Fprintf(&out, "%s file, %d bytes", kind, len(b))
	if ct := ctorFor(kind); ct != nil {
		obj, err := ct.call(bytes.Clone(b))
		fmt.Fprintf(&out, "\n  library %s: err=%v\n    view: %s", ct.name, err, jsonView(obj))
	}
	f := findFile(kind, b)
	if f == nil {
		out.WriteString("\n  bytes are not produced by the generators; cannot derive the expected view")
		return out.String()
	}
	fmt.Fprintf(&out, "\n  generated from: %s\n    expected view: %s", f.Label, jsonView(f.View))
	if kind == reflds.KDIR {
		return out.String()
	}
	d, _ := checkFile(*f)
	report(doc.Section, d, string(kind)+" file ["+f.Label+"]")
	return out.String()
}
