package c18

import (
	"fmt"
	"testing"

	"verif/internal/refmrz"
	"verif/internal/vc"
)

func TestDbg(t *testing.T) {
	c := &vc.Ctx{}
	bases, _ := enumerate(c)
	seen := map[string]int{}
	for _, b := range bases {
		m := []byte(b.zone)
		for i := range m {
			for k := 0; k < 37; k++ {
				if refmrz.Alphabet[k] == b.zone[i] {
					continue
				}
				m[i] = refmrz.Alphabet[k]
				r := analyse(string(m))
				if (r.class == "rejected/check-digits-agree,other-reason" || r.class == "rejected/check-digit-disagrees:composite") && seen[r.class] < 6 {
					seen[r.class]++
					fmt.Println(r.class, i, string(m), "\n   ", r.obs)
				}
			}
			m[i] = b.zone[i]
		}
	}
}
