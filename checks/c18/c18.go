// Package c18 checks property C18: MRZ decoding enforces the ICAO check digits, well-formed zones decode to
// the right character ranges, and every route to the access-control key seed yields the same string.
package c18

import (
	"bytes"
	"encoding/json"
	"fmt"
	"strings"

	"github.com/gmrtd/gmrtd/document"
	"github.com/gmrtd/gmrtd/mrz"
	"github.com/gmrtd/gmrtd/password"

	"verif/internal/refmrz"
	"verif/internal/vc"
)

func init() {
	vc.Register(&vc.Check{ID: "C18", Level: "exploration", Run: run, Replay: replay, QuickSec: 80, ThoroSec: 840,
		Rule: "bases: valid TD1/TD2/TD3 zones built by the independent generator refmrz.Build from abstract values: every document number length 1..9 and every long length 10..22 (TD1) / 10..14 (TD2) x every optional data length that fits (TD3: both spellings of the unset personal number check digit), every name length (primary only; primary<<secondary; single-filler components), full / partial / unknown birth dates x sex x 1-2 character document code x 1/3 letter state codes, interior fillers in numbers (thorough: 6 content rotations). Each base: decoded by the library, via DG1, and compared field by field with the generator's values. Mutants of every base: every position x the 36 other symbols of [0-9A-Z<], every adjacent transposition, every deletion, every position x 37 insertions; beyond the stated quantifier: every substitution in the check-digit protected region followed by repair of the composite digit, or of the field's own digit (leaves exactly one check wrong); thorough: all pairs of substitutions inside the protected region for a subset of bases, substitutions with 8 symbols outside the alphabet. Plus periodic arbitrary strings. Each input: mrz.MrzDecode and password.NewPasswordMrz are run and judged against refmrz (accepted => no non-empty checked field / composite disagrees; conservatively well-formed => accepted with equal fields; accepted + alphabet + non-empty key fields => the 3 key-seed routes equal the MRZ information string and its SHA-1). distinct_nontrivial = distinct inputs ACCEPTED by MrzDecode (hashed)",
		Assume: []string{
			"refmrz implements Doc 9303-3 §4.9 check digits, the TD1/TD2/TD3 positions of parts 5/6/4, the long document number rule and the MRZ information string of part 11 (independent, self-tested against the specimens and Appendix D.2 of Doc 9303, no gmrtd import)",
			"leniency: empty fields are not judged (check digit '<' or '0' or anything); a composite over fillers only is not judged; a long document number whose optional field has no filler at all is not judged; interior fillers may be presented as '<', ' ' or dropped; in the long form OptionalData may be either the remainder after the continuation or the whole optional field; NewPasswordMrz is only required to enforce the three key fields (it documents that it ignores the composite)",
		}})
}

const alnumSyms = "0123456789ABCDEFGHIJKLMNOPQRSTUVWXYZ"

// ---- one input ---------------------------------------------------------------------------------

type result struct {
	key, what string
	accepted  bool
	class     string
	obs       string // replay text
}

func shapeOf(p *refmrz.Parsed) string {
	var s []string
	switch n := len(strings.TrimRight(p.DocNum, "<")); {
	case p.Long:
		s = append(s, "docnum-long")
	case n < 9:
		s = append(s, "docnum<9")
	default:
		s = append(s, "docnum9")
	}
	switch o := strings.TrimRight(p.Opt, "<"); {
	case o == "":
		s = append(s, "opt-empty")
	case len(o) == len(p.Opt):
		s = append(s, "opt-full")
	default:
		s = append(s, "opt-partial")
	}
	switch d := strings.TrimRight(p.DOB, "<"); len(d) {
	case 6:
		s = append(s, "dob-full")
	case 0:
		s = append(s, "dob-unknown")
	default:
		s = append(s, "dob-partial")
	}
	return strings.Join(s, "+")
}

// same compares a decoded library value with the reference value (trailing fillers removed, interior
// fillers kept as '<'). The library value must carry no leading/trailing filler or blank; interior
// fillers may be shown as '<' or ' ' or be dropped.
func same(lib, exp string) bool {
	if lib != strings.Trim(lib, " <") {
		return false
	}
	l := strings.ReplaceAll(lib, " ", "<")
	if l == exp {
		return true
	}
	return strings.ReplaceAll(l, "<", "") == strings.ReplaceAll(exp, "<", "") && strings.Contains(exp, "<")
}

func cmpFields(dec *mrz.MRZ, e refmrz.Expect, isTD1 bool) (field, detail string) {
	prim, sec := "", ""
	if dec.NameOfHolder != nil {
		prim, sec = dec.NameOfHolder.Primary, dec.NameOfHolder.Secondary
	}
	type fc struct{ name, lib, exp string }
	list := []fc{{"document-code", dec.DocumentCode, e.DocCode}, {"issuing-state", dec.IssuingState, e.Issuer},
		{"name-primary", prim, e.Primary}, {"name-secondary", sec, e.Secondary}, {"document-number", dec.DocumentNumber, e.DocNumber},
		{"nationality", dec.Nationality, e.Nationality}, {"date-of-birth", dec.DateOfBirth, e.DOB}, {"sex", dec.Sex, e.Sex},
		{"date-of-expiry", dec.DateOfExpiry, e.DOE}}
	for _, f := range list {
		if !same(f.lib, f.exp) {
			return f.name, fmt.Sprintf("%s decoded as %q, character range without fillers is %q", f.name, f.lib, f.exp)
		}
	}
	if !same(dec.OptionalData, e.Optional) && !(e.Long && same(dec.OptionalData, e.OptionalWhole)) {
		return "optional-data", fmt.Sprintf("optional data decoded as %q, character range without fillers is %q", dec.OptionalData, e.Optional)
	}
	if isTD1 {
		if !same(dec.OptionalData2, e.Optional2) {
			return "optional-data-2", fmt.Sprintf("optional data 2 decoded as %q, character range without fillers is %q", dec.OptionalData2, e.Optional2)
		}
	} else if dec.OptionalData2 != "" {
		return "optional-data-2", fmt.Sprintf("optional data 2 decoded as %q in a layout without that field", dec.OptionalData2)
	}
	return "", ""
}

// analyse runs the library on s and judges it with the reference. Everything is derived from s alone.
func analyse(s string) (r result) {
	var dec *mrz.MRZ
	var err error
	if pv, _ := vc.Guard(func() { dec, err = mrz.MrzDecode(s) }); pv != nil {
		return result{key: "panic/MrzDecode", what: fmt.Sprintf("MrzDecode(%q) panicked: %v", s, pv)}
	}
	var pw *password.Password
	var perr error
	if pv, _ := vc.Guard(func() { pw, perr = password.NewPasswordMrz(s) }); pv != nil {
		return result{key: "panic/NewPasswordMrz", what: fmt.Sprintf("NewPasswordMrz(%q) panicked: %v", s, pv)}
	}
	acc, pacc := err == nil, perr == nil
	r.accepted = acc
	r.obs = fmt.Sprintf("MrzDecode: accepted=%v err=%v; NewPasswordMrz: accepted=%v err=%v", acc, err, pacc, perr)
	fail := func(key, what string) result {
		r.key, r.what, r.class = key, what, "VIOLATION"
		r.obs += "; VERDICT " + key + ": " + what
		return r
	}
	if acc && dec == nil {
		return fail("decode-returns-nil-without-error", fmt.Sprintf("MrzDecode(%q) returned (nil, nil)", s))
	}
	if pacc && pw == nil {
		return fail("password-mrz-returns-nil-without-error", fmt.Sprintf("NewPasswordMrz(%q) returned (nil, nil)", s))
	}
	p, ok := refmrz.Parse(s)
	if !ok {
		r.obs += fmt.Sprintf("; reference: length %d is no TD1/TD2/TD3 zone", len(s))
		if acc {
			return fail("unsupported-length/decode-accepts", fmt.Sprintf("MrzDecode accepts a string of %d characters: %q", len(s), s))
		}
		if pacc {
			return fail("unsupported-length/password-mrz-accepts", fmt.Sprintf("NewPasswordMrz accepts a string of %d characters: %q", len(s), s))
		}
		r.class = "rejected/unsupported-length"
		return r
	}
	lay := p.Layout.String()
	dis := p.Disagreements()
	wf, why := p.WellFormed()
	info := p.MRZInfo()
	r.obs += fmt.Sprintf("; reference: layout=%s long-docnum=%v docnum=%q cd=%q dob=%q cd=%q doe=%q cd=%q optional=%q composite-cd=%q disagreements=%v well-formed=%v %s mrz-information=%q",
		lay, p.Long, p.DocNum, string(p.DocCD), p.DOB, string(p.DOBCD), p.DOE, string(p.DOECD), p.Opt, string(p.CompCD), dis, wf, why, info)
	if acc && len(dis) > 0 {
		return fail(lay+"/"+dis[0].Field+"/check-digit-not-enforced", fmt.Sprintf("MrzDecode accepts %q although %v", s, dis[0]))
	}
	if kd := p.KeyFieldDisagreements(); pacc && len(kd) > 0 {
		return fail(lay+"/password-mrz/"+kd[0].Field+"/check-digit-not-enforced", fmt.Sprintf("NewPasswordMrz accepts %q although %v", s, kd[0]))
	}
	if wf && !acc {
		return fail(lay+"/wellformed-zone-rejected/"+shapeOf(p), fmt.Sprintf("MrzDecode rejects the well-formed zone %q: %v", s, err))
	}
	if wf && !pacc {
		return fail(lay+"/password-mrz/wellformed-zone-rejected/"+shapeOf(p), fmt.Sprintf("NewPasswordMrz rejects the well-formed zone %q: %v", s, perr))
	}
	if !acc {
		if len(dis) > 0 {
			r.class = "rejected/check-digit-disagrees:" + dis[0].Field
		} else {
			r.class = "rejected/check-digits-agree,other-reason"
		}
		if pacc {
			r.class += "+password-mrz-accepts(key-fields-agree)"
		}
		return r
	}
	exp := p.Fields()
	if wf {
		if f, d := cmpFields(dec, exp, p.Layout == refmrz.TD1); f != "" {
			return fail(lay+"/decoded-field-differs/"+f, fmt.Sprintf("MrzDecode(%q): %s", s, d))
		}
		r.class = "accepted/well-formed,fields-equal"
	} else {
		r.class = "accepted/check-digits-agree,not-judged-well-formed"
	}
	// key seed routes
	if (!refmrz.InAlphabet(s) || !p.KeyFieldsNonEmpty()) && acc && pacc && pw != nil {
		// a zone with a symbol outside the alphabet, or with an EMPTY key field (unknown date: any check digit spelling is
		// tolerated), that the library ACCEPTS on both routes: no reference
		// value exists, but "all ways of supplying the same document data open the same chip" still applies - the
		// routes must agree with each other
		var pf *password.Password
		var ferr, eerr error
		var re string
		if pv, _ := vc.Guard(func() {
			pf, ferr = password.NewPasswordMrzi(dec.DocumentNumber, dec.DateOfBirth, dec.DateOfExpiry)
			re, eerr = dec.EncodeMrzi()
		}); pv != nil {
			return fail("panic/key-seed-routes", fmt.Sprintf("NewPasswordMrzi/EncodeMrzi on the decoded fields of %q panicked: %v", s, pv))
		}
		if ferr == nil && eerr == nil && pf != nil && (pw.Password != pf.Password || pf.Password != re) {
			kind := "routes-disagree-on-accepted-zone-with-foreign-symbol"
			if refmrz.InAlphabet(s) {
				kind = "routes-disagree-on-accepted-zone-with-empty-key-field"
			}
			return fail(lay+"/keyseed/"+kind, fmt.Sprintf("zone %q is accepted, but the key seed string is %q from the full MRZ, %q from the decoded fields and %q re-encoded", s, pw.Password, pf.Password, re))
		}
	}
	if !refmrz.InAlphabet(s) || !p.KeyFieldsNonEmpty() {
		r.class += ",key-seed-not-judged"
		return r
	}
	if p.Long {
		lay += "/long-docnum"
	}
	if !pacc {
		return fail(lay+"/keyseed/full-mrz-route-fails", fmt.Sprintf("MrzDecode accepts %q but NewPasswordMrz fails: %v", s, perr))
	}
	var pf *password.Password
	var ferr, eerr error
	var re string
	if pv, _ := vc.Guard(func() {
		pf, ferr = password.NewPasswordMrzi(dec.DocumentNumber, dec.DateOfBirth, dec.DateOfExpiry)
		re, eerr = dec.EncodeMrzi()
	}); pv != nil {
		return fail("panic/key-seed-routes", fmt.Sprintf("NewPasswordMrzi/EncodeMrzi on the decoded fields of %q panicked: %v", s, pv))
	}
	if ferr != nil || pf == nil {
		return fail(lay+"/keyseed/decoded-fields-route-fails", fmt.Sprintf("NewPasswordMrzi(%q,%q,%q) from the decoded fields of %q fails: %v", dec.DocumentNumber, dec.DateOfBirth, dec.DateOfExpiry, s, ferr))
	}
	if eerr != nil {
		return fail(lay+"/keyseed/reencode-route-fails", fmt.Sprintf("MrzDecode(%q).EncodeMrzi() fails: %v", s, eerr))
	}
	r.obs += fmt.Sprintf("; key seed strings: full-mrz=%q decoded-fields=%q re-encoded=%q", pw.Password, pf.Password, re)
	for _, rt := range []struct{ name, got string }{{"full-mrz", pw.Password}, {"decoded-fields", pf.Password}, {"reencode", re}} {
		if rt.got != info {
			return fail(lay+"/keyseed/"+rt.name+"-route-differs", fmt.Sprintf("zone %q: key seed string via %s route is %q, MRZ information is %q (full-mrz %q, decoded-fields %q, re-encoded %q)", s, rt.name, rt.got, info, pw.Password, pf.Password, re))
		}
	}
	want := refmrz.KeySeedHash(info)
	for _, rt := range []struct {
		name string
		p    *password.Password
	}{{"full-mrz", pw}, {"decoded-fields", pf}} {
		if rt.p.PasswordType != password.PASSWORD_TYPE_MRZi {
			return fail(lay+"/keyseed/"+rt.name+"-route-wrong-password-type", fmt.Sprintf("zone %q: password type %d", s, rt.p.PasswordType))
		}
		k, kerr := rt.p.Key()
		if kerr != nil || !bytes.Equal(k, want[:]) {
			return fail(lay+"/keyseed/"+rt.name+"-route-key-bytes-differ", fmt.Sprintf("zone %q: Key() via %s route = %x (%v), SHA-1 of the MRZ information is %x", s, rt.name, k, kerr, want))
		}
	}
	return r
}

// dg1Route feeds the zone through document.NewDG1 (61 L 5F1F L zone).
func dg1Route(zone string, e refmrz.Expect, isTD1, keyFields bool) (key, what string) {
	inner := append([]byte{0x5F, 0x1F, byte(len(zone))}, zone...)
	data := append([]byte{0x61, byte(len(inner))}, inner...)
	var dg *document.DG1
	var err error
	if pv, _ := vc.Guard(func() { dg, err = document.NewDG1(data) }); pv != nil {
		return "panic/NewDG1", fmt.Sprintf("NewDG1 with zone %q panicked: %v", zone, pv)
	}
	if err != nil || dg == nil || dg.Mrz == nil {
		return "dg1/wellformed-zone-rejected", fmt.Sprintf("NewDG1 with the well-formed zone %q fails: %v", zone, err)
	}
	if dg.RawMrz != zone {
		return "dg1/raw-mrz-differs", fmt.Sprintf("NewDG1: RawMrz %q, zone %q", dg.RawMrz, zone)
	}
	if f, d := cmpFields(dg.Mrz, e, isTD1); f != "" {
		return "dg1/decoded-field-differs/" + f, fmt.Sprintf("NewDG1 with zone %q: %s", zone, d)
	}
	if keyFields {
		re, err := dg.Mrz.EncodeMrzi()
		if err != nil || re != e.MRZInfo {
			return "dg1/keyseed/reencode-route-differs", fmt.Sprintf("NewDG1(%q).Mrz.EncodeMrzi() = %q (%v), MRZ information is %q", zone, re, err, e.MRZInfo)
		}
	}
	return "", ""
}

// ---- base enumeration --------------------------------------------------------------------------

type base struct {
	zone string
	exp  refmrz.Expect
	tag  string
}

func alnum(n, salt int) string {
	b := make([]byte, n)
	for j := range b {
		b[j] = alnumSyms[((salt*7+j*11+3)%36+36)%36]
	}
	return b2s(b)
}

func b2s(b []byte) string { return string(b) }

// gapped is alnum/letters with single fillers at every 6th position (never first, last or adjacent).
func gapped(s string) string {
	b := []byte(s)
	for j := 4; j < len(b)-1; j += 6 {
		b[j] = '<'
	}
	return string(b)
}

func letters(n, salt int) string {
	b := make([]byte, n)
	for j := range b {
		b[j] = byte('A' + ((salt*5+j*7+1)%26+26)%26)
	}
	return string(b)
}

var (
	dobs    = []string{"740812", "7408<<", "74<<<<", "<<<<<<", "960229", "851231", "010101", "340712"}
	does    = []string{"120415", "291231", "300101", "960229", "950712"}
	sexes   = []string{"M", "F", ""}
	states  = []string{"UTO", "D", "GBR", "NLD", "XXA"}
	codesID = []string{"I", "ID", "AC", "C", "IP"}
	codesP  = []string{"P", "PM", "PD", "P"}
)

func enumerate(c *vc.Ctx) ([]base, []string) {
	var out []base
	var errs []string
	seen := map[string]bool{}
	rots := 1
	if c.Thorough() {
		rots = 6
	}
	add := func(tag string, d refmrz.Doc) {
		z, e, err := refmrz.Build(d)
		if err != nil {
			errs = append(errs, fmt.Sprintf("%s: %v (%+v)", tag, err, d))
			return
		}
		if seen[z] {
			return
		}
		seen[z] = true
		out = append(out, base{z, e, tag})
	}
	n := 0
	std := func(l refmrz.Layout, r int) refmrz.Doc {
		// rotating don't-care content; r is a running index
		d := refmrz.Doc{Layout: l, Issuer: states[r%len(states)], Nationality: states[(r/2+1)%len(states)],
			DOB: dobs[(r/5)%len(dobs)], DOE: does[r%len(does)], Sex: sexes[r%3]}
		if r%5 != 0 { // mostly full dates
			d.DOB = []string{"740812", "960229", "851231", "010101", "340712"}[r%5]
		}
		if l == refmrz.TD3 {
			d.DocCode = codesP[r%len(codesP)]
		} else {
			d.DocCode = codesID[r%len(codesID)]
		}
		nl := refmrz.NameLen(l)
		pl := 1 + (r*3)%(nl/2)
		sl := (r * 5) % (nl - pl - 1)
		d.Primary = letters(pl, r)
		if sl > 0 {
			d.Secondary = letters(sl, r+1)
			if r%2 == 1 {
				d.Secondary = gapped(d.Secondary)
			}
		}
		return d
	}
	seed := int(c.Seed % 97)
	for _, l := range []refmrz.Layout{refmrz.TD1, refmrz.TD2, refmrz.TD3} {
		ol := refmrz.OptLen(l)
		// A: document number length x optional data length
		for rot := 0; rot < rots; rot++ {
			for dn := 1; dn <= refmrz.MaxDocNumber(l); dn++ {
				maxOpt := ol
				if dn > 9 {
					maxOpt = refmrz.MaxDocNumber(l) - dn
				}
				for o := 0; o <= maxOpt; o++ {
					n++
					d := std(l, n+rot*7)
					d.DocNumber = alnum(dn, n+seed+rot*13)
					d.Optional = alnum(o, n*3+seed+rot)
					if rot%2 == 1 {
						d.Optional = gapped(d.Optional)
					}
					if l == refmrz.TD1 {
						d.Optional2 = alnum((dn+o*5+rot)%(refmrz.Opt2Len(l)+1), n+1+seed)
					}
					tag := fmt.Sprintf("%v/docnum%d/opt%d", l, dn, o)
					if l == refmrz.TD3 && o == 0 {
						d.EmptyOptCD = '<'
						add(tag+"/cd<", d)
						d.EmptyOptCD = '0'
						add(tag+"/cd0", d)
						continue
					}
					add(tag, d)
				}
			}
		}
		// B: every name length
		nl := refmrz.NameLen(l)
		for total := 1; total <= nl; total++ {
			n++
			d := std(l, n)
			d.DocNumber = alnum(1+n%9, n+seed)
			d.Optional = alnum(n%(ol+1), n+seed)
			d.Primary, d.Secondary = letters(total, n), ""
			if total%2 == 0 {
				d.Primary = gapped(d.Primary)
			}
			add(fmt.Sprintf("%v/name-primary%d", l, total), d)
			if total >= 4 {
				pl := 1 + (total*3)%(total-3)
				d.Primary, d.Secondary = letters(pl, n), letters(total-2-pl, n+2)
				if total%3 == 0 {
					d.Primary, d.Secondary = gapped(d.Primary), gapped(d.Secondary)
				}
				add(fmt.Sprintf("%v/name%d+%d", l, pl, total-2-pl), d)
			}
		}
		// C: dates x sex x code length x state code lengths
		for _, dob := range dobs[:4] {
			for _, sx := range sexes {
				for ci := 0; ci < 2; ci++ {
					for _, is := range []string{"UTO", "D"} {
						for _, nat := range []string{"GBR", "D"} {
							n++
							d := std(l, n)
							d.DOB, d.Sex, d.Issuer, d.Nationality = dob, sx, is, nat
							d.DocCode = map[bool][]string{true: codesP, false: codesID}[l == refmrz.TD3][ci]
							d.DocNumber = alnum(9-n%3, n+seed)
							d.Optional = alnum(n%4, n+seed)
							add(fmt.Sprintf("%v/misc", l), d)
						}
					}
				}
			}
		}
		// D: single interior fillers in document number / optional data
		for _, dn := range []int{3, 5, 9} {
			for _, gap := range []int{1, dn / 2, dn - 2} {
				n++
				d := std(l, n)
				b := []byte(alnum(dn, n+seed))
				b[gap] = '<'
				d.DocNumber = string(b)
				d.Optional = gapped(alnum(ol-n%2, n+seed))
				if dn > 9 || strings.Contains(d.DocNumber, "<<") || strings.HasPrefix(d.DocNumber, "<") || strings.HasSuffix(d.DocNumber, "<") {
					continue
				}
				add(fmt.Sprintf("%v/docnum-with-filler%d", l, dn), d)
			}
		}
	}
	return out, errs
}

// ---- run ---------------------------------------------------------------------------------------

func run(c *vc.Ctx) {
	if err := refmrz.SelfTest(); err != nil {
		if c.Shard == 0 {
			c.HarnessError("refmrz self-test: %v", err)
		}
		return
	}
	bases, errs := enumerate(c)
	if len(errs) > 0 {
		if c.Shard == 0 {
			c.HarnessError("generator refused %d documents, first: %s", len(errs), errs[0])
		}
		return
	}
	perLayout := map[string]int{}
	for _, b := range bases {
		l, _ := refmrz.LayoutOf(len(b.zone))
		perLayout[l.String()]++
	}
	c.Extra("bases", len(bases))
	c.Extra("bases_per_layout", perLayout)

	rep := func(sec, s string) result {
		r := analyse(s)
		if r.key != "" {
			c.Violation(sec, r.key, r.what, s, func() bool { return analyse(s).key != "" })
		}
		c.Outcome(sec, r.class)
		if r.accepted {
			c.Distinct(s)
		}
		return r
	}

	// (1) valid zones
	sec := "valid-zones"
	c.SecBound(sec, fmt.Sprintf("%d generated valid zones (%v): library result compared with the generator's values, directly and via NewDG1", len(bases), perLayout))
	for _, b := range bases {
		if !c.Mine() {
			continue
		}
		p, _ := refmrz.Parse(b.zone)
		pe := p.Fields()
		if wf, why := p.WellFormed(); !wf || pe != b.exp {
			c.HarnessError("generator and parser of refmrz disagree on %s %q: well-formed=%v %s; parsed %+v, generated %+v", b.tag, b.zone, wf, why, pe, b.exp)
			continue
		}
		r := rep(sec, b.zone)
		if r.key == "" {
			if k, w := dg1Route(b.zone, b.exp, p.Layout == refmrz.TD1, p.KeyFieldsNonEmpty()); k != "" {
				z := b.zone
				c.Violation(sec, p.Layout.String()+"/"+k, w, z, func() bool {
					k2, _ := dg1Route(z, b.exp, p.Layout == refmrz.TD1, p.KeyFieldsNonEmpty())
					return k2 != ""
				})
			}
		}
		if strings.Contains(b.tag, "docnum12/opt1") || strings.Contains(b.tag, "td3/docnum7/opt9") {
			c.Sample(map[string]any{"base": b.tag, "zone": b.zone, "mrz_information": b.exp.MRZInfo, "document_number": b.exp.DocNumber, "optional": b.exp.Optional})
		}
	}

	// (2) single mutants of every base
	secS, secT, secD, secI := "substitution", "transposition", "deletion", "insertion"
	secRC, secRF := "substitution+composite-repaired", "substitution+field-check-digit-repaired"
	c.SecBound(secS, "every base x every position x the 36 other symbols of [0-9A-Z<]")
	c.SecBound(secT, "every base x every adjacent transposition of two different characters")
	c.SecBound(secD, "every base x every single deletion")
	c.SecBound(secI, "every base x every insertion position x 37 symbols")
	c.SecBound(secRC, "every base x every position of the check-digit protected region x 36 other symbols, composite digit recomputed (a field digit stays wrong)")
	c.SecBound(secRF, "every base x every position of a checked field x 36 other symbols, the field's own digit recomputed (the composite stays wrong)")
	sampled := 0
	for bi, b := range bases {
		if !c.Mine() {
			continue
		}
		if c.Expired() {
			for _, s := range []string{secS, secT, secD, secI, secRC, secRF} {
				c.SecNotExhaustive(s, fmt.Sprintf("deadline at base %d of %d", bi, len(bases)))
			}
			break
		}
		z := b.zone
		m := []byte(z)
		for i := 0; i < len(z); i++ {
			for k := 0; k < len(refmrz.Alphabet); k++ {
				if refmrz.Alphabet[k] == z[i] {
					continue
				}
				m[i] = refmrz.Alphabet[k]
				r := rep(secS, string(m))
				if r.accepted && sampled < 2 && r.class == "accepted/well-formed,fields-equal" && i > len(z)/2 {
					sampled++
					c.Sample(map[string]any{"base_zone": z, "accepted_substitution_mutant": string(m), "position": i})
				}
			}
			m[i] = z[i]
		}
		for i := 0; i+1 < len(z); i++ {
			if z[i] == z[i+1] {
				continue
			}
			m[i], m[i+1] = z[i+1], z[i]
			rep(secT, string(m))
			m[i], m[i+1] = z[i], z[i+1]
		}
		for i := 0; i < len(z); i++ {
			rep(secD, z[:i]+z[i+1:])
		}
		for i := 0; i <= len(z); i++ {
			for k := 0; k < len(refmrz.Alphabet); k++ {
				rep(secI, z[:i]+refmrz.Alphabet[k:k+1]+z[i:])
			}
		}
		l, _ := refmrz.LayoutOf(len(z))
		a, e := refmrz.CheckedRegion(l)
		for i := a; i < e; i++ {
			for k := 0; k < len(refmrz.Alphabet); k++ {
				if refmrz.Alphabet[k] == z[i] {
					continue
				}
				m[i] = refmrz.Alphabet[k]
				ms := string(m)
				if mc := refmrz.RepairComposite(ms); mc != ms && mc != z {
					rep(secRC, mc)
				}
				if p, ok := refmrz.Parse(ms); ok {
					if f := p.FieldAt(i); f != "" {
						if mf := refmrz.RepairField(ms, f); mf != ms && mf != z {
							rep(secRF, mf)
						}
					}
				}
			}
			m[i] = z[i]
		}
	}

	// (3) thorough: all pairs of substitutions inside the protected region, for a subset of bases
	if c.Thorough() {
		secP := "double-substitution"
		perL := map[refmrz.Layout]int{}
		var subset []base
		step := map[refmrz.Layout]int{refmrz.TD1: 61, refmrz.TD2: 23, refmrz.TD3: 37}
		cnt := map[refmrz.Layout]int{}
		for _, b := range bases {
			l, _ := refmrz.LayoutOf(len(b.zone))
			cnt[l]++
			if cnt[l]%step[l] == 1 && perL[l] < 24 {
				perL[l]++
				subset = append(subset, b)
			}
		}
		c.SecBound(secP, fmt.Sprintf("%d bases (every %v-th of each layout, at most 24) x all pairs of positions of the protected region x 36 x 36 other symbols", len(subset), step))
	pairs:
		for _, b := range subset {
			z := b.zone
			l, _ := refmrz.LayoutOf(len(z))
			a, e := refmrz.CheckedRegion(l)
			for i := a; i < e; i++ {
				if !c.Mine() {
					continue
				}
				if c.Expired() {
					c.SecNotExhaustive(secP, "deadline")
					break pairs
				}
				m := []byte(z)
				for ki := 0; ki < len(refmrz.Alphabet); ki++ {
					if refmrz.Alphabet[ki] == z[i] {
						continue
					}
					m[i] = refmrz.Alphabet[ki]
					for j := i + 1; j < e; j++ {
						for kj := 0; kj < len(refmrz.Alphabet); kj++ {
							if refmrz.Alphabet[kj] == z[j] {
								continue
							}
							m[j] = refmrz.Alphabet[kj]
							rep(secP, string(m))
						}
						m[j] = z[j]
					}
				}
			}
		}
		// symbols outside the alphabet (no check digit is defined for them: only panics, wrong lengths and the
		// judgements that do not involve the foreign character apply)
		secN := "non-alphabet-substitution"
		foreign := []byte{' ', 'a', 'z', '-', '/', 0x00, 0x7F, 0xC3}
		c.SecBound(secN, fmt.Sprintf("every base x every position x %d symbols outside [0-9A-Z<] (blank, lower case, punctuation, NUL, DEL, a UTF-8 lead byte)", len(foreign)))
		for _, b := range bases {
			if !c.Mine() {
				continue
			}
			if c.Expired() {
				c.SecNotExhaustive(secN, "deadline")
				break
			}
			m := []byte(b.zone)
			for i := range m {
				for _, f := range foreign {
					m[i] = f
					rep(secN, string(m))
				}
				m[i] = b.zone[i]
			}
		}
	}

	// (3b) the blank, the one foreign symbol the library's own decoded fields contain (fillers become blanks): every
	// position, in both tiers
	{
		secB := "blank-substitution"
		c.SecBound(secB, "every base x every position replaced by a blank (the decoded-field spelling of the filler)")
		for _, b := range bases {
			if !c.Mine() {
				continue
			}
			m := []byte(b.zone)
			for i := range m {
				if m[i] == ' ' {
					continue
				}
				m[i] = ' '
				rep(secB, string(m))
				m[i] = b.zone[i]
			}
			// and every filler at once
			rep(secB, strings.ReplaceAll(b.zone, "<", " "))
		}
	}

	// (4) arbitrary strings: periodic patterns at and around the supported lengths
	secA := "arbitrary-strings"
	syms := "<017AK"
	lengths := []int{0, 1, 29, 30, 36, 44, 60, 71, 72, 73, 87, 88, 89, 90, 91, 176, 180}
	maxPeriod := 4
	if c.Thorough() {
		maxPeriod = 6
	}
	c.SecBound(secA, fmt.Sprintf("every periodic string with a period word of length 1..%d over {%s} at lengths %v", maxPeriod, syms, lengths))
	for per := 1; per <= maxPeriod; per++ {
		total := 1
		for i := 0; i < per; i++ {
			total *= len(syms)
		}
		for v := 0; v < total; v++ {
			if !c.Mine() {
				continue
			}
			w := make([]byte, per)
			x := v
			for i := range w {
				w[i] = syms[x%len(syms)]
				x /= len(syms)
			}
			for _, L := range lengths {
				s := make([]byte, L)
				for i := range s {
					s[i] = w[i%per]
				}
				rep(secA, string(s))
			}
		}
	}
}

func replay(c *vc.Ctx, raw json.RawMessage) string {
	var doc struct {
		Section string          `json:"section"`
		Case    json.RawMessage `json:"case"`
	}
	json.Unmarshal(raw, &doc)
	var s string
	if json.Unmarshal(doc.Case, &s) != nil {
		return "case is not a zone string: " + string(doc.Case)
	}
	r := analyse(s)
	bad := r.key != ""
	if bad {
		c.Violation(doc.Section, r.key, r.what, s, nil)
	} else if p, ok := refmrz.Parse(s); ok {
		if wf, _ := p.WellFormed(); wf {
			if k, w := dg1Route(s, p.Fields(), p.Layout == refmrz.TD1, p.KeyFieldsNonEmpty()); k != "" {
				c.Violation(doc.Section, p.Layout.String()+"/"+k, w, s, nil)
				bad = true
				r.obs += "; VERDICT " + k + ": " + w
			}
		}
	}
	dec, err := mrz.MrzDecode(s)
	fields := ""
	if err == nil && dec != nil {
		j, _ := json.Marshal(dec)
		fields = "; decoded " + string(j)
	}
	verdict := "conforming (class " + r.class + ")"
	if bad {
		verdict = "VIOLATION"
	}
	return fmt.Sprintf("zone %q (%d characters): %s%s; overall: %s", s, len(s), r.obs, fields, verdict)
}
