package c12

import (
	"fmt"
	"strings"

	"verif/internal/reflds"
)

// raw-bytes parsers: all byte strings of length <= 3 in both tiers
var shortParsers = []string{
	"tlv.Decode", "tlv.Decode+String", "tlv.Unwrap", "tlv.UnwrapTag", "tlv.DecodeEncode", "tlv.ParseTag", "tlv.ParseTags", "tlv.ParseLength", "tlv.ParseTagAndLength",
	"iso7816.ParseRApdu", "iso7816.SM.Decode/3DES", "iso7816.SM.Decode/AES128",
}

// file constructors: all strings <= 3 in thorough; quick: all <= 2 and the 3-byte strings that start with one of 32 bytes
var shortCtors = []string{
	"document.NewDG1", "document.NewDG2", "document.NewDG7", "document.NewDG11", "document.NewDG12", "document.NewDG13", "document.NewDG14",
	"document.NewDG15", "document.NewDG16", "document.NewCOM", "document.NewSOD", "document.NewCardAccess", "document.NewCardSecurity", "document.NewEFDIR",
	"document.Document.NewDG",
}

// further byte consumers: all strings <= 3 in thorough, <= 2 in quick
var shortOthers = []string{
	"document.DecodeSecurityInfos", "document.NewDocumentFromCbor", "document.UnmarshalVerifiableDoc", "document.NewChipAuthEvidenceFromCbor",
	"cms.ParseSignedData", "cms.ParseCertificates", "cms.Asn1decodeSubjectPublicKeyInfo", "cms.ParseRDNSequence",
}

var shortEPs = append(append(append([]string{}, shortParsers...), shortCtors...), shortOthers...)

// first bytes of the 3-byte strings the constructors see in the quick tier: every outer tag of a file, the universal
// tags the files are made of, multi-byte tag leaders, length-form bytes, extremes
var quickFirst = []byte{0x60, 0x61, 0x67, 0x6B, 0x6C, 0x6D, 0x6E, 0x6F, 0x70, 0x75, 0x77, 0x30, 0x31, 0x00, 0x01, 0x02, 0x04, 0x06, 0x1F, 0x5F, 0x7F, 0x80, 0x81, 0x82, 0x84, 0xA0, 0xA1, 0x0E, 0x0F, 0x10, 0x1D, 0xFF}

func mustEPs(names []string) []*EP {
	out := make([]*EP, len(names))
	for i, n := range names {
		out[i] = mustEP(n)
	}
	return out
}

// section1: (a) all byte strings of length <= 3; (b) all strings of length 4..5 over a 24-symbol alphabet.
func (r *runner) section1(co *corpusT) {
	c := r.c
	secA := "1a all byte strings <=3"
	parsers, ctors, others := mustEPs(shortParsers), mustEPs(shortCtors), mustEPs(shortOthers)
	all := append(append(append([]*EP{}, parsers...), ctors...), others...)
	isQuickFirst := map[byte]bool{}
	for _, b := range quickFirst {
		isQuickFirst[b] = true
	}
	if c.Thorough() {
		c.SecBound(secA, fmt.Sprintf("all 16 843 009 byte strings of length 0..3 at each of %d entry points", len(all)))
	} else {
		c.SecBound(secA, fmt.Sprintf("all 16 843 009 byte strings of length 0..3 at the %d raw-bytes parsers (tlv.*, ParseRApdu, SecureMessaging.Decode); at the %d file constructors all strings of length 0..2 and the 2 097 152 strings of length 3 whose first byte is one of %x; at %d further byte consumers (CBOR import, CMS parsers) all strings of length 0..2", len(parsers), len(ctors), quickFirst, len(others)))
	}
	for l := 0; l <= 3; l++ {
		total := 1 << (8 * l)
		for blk := 0; blk < total; blk += 16384 {
			if !c.Mine() {
				continue
			}
			if c.Expired() {
				c.SecNotExhaustive(secA, fmt.Sprintf("deadline at length %d block %d", l, blk))
				break
			}
			one := make([][]byte, 1)
			for v := blk; v < blk+16384 && v < total; v++ {
				buf := make([]byte, l)
				xv := v
				for i := l - 1; i >= 0; i-- {
					buf[i] = byte(xv)
					xv >>= 8
				}
				one[0] = buf
				eps := all
				if c.Quick() && l == 3 {
					eps = parsers
					if isQuickFirst[buf[0]] {
						eps = all[:len(parsers)+len(ctors)]
					}
				}
				r.batch(secA, eps, one, "short", func(int) { c.DistinctBytes(buf) })
			}
		}
	}
	eps := all
	for _, ep := range eps {
		c.Distinct(ep.Name + "|short")
	}

	secB := "1b structural alphabet <=5"
	base := []byte{0x00, 0x01, 0x02, 0x04, 0x05, 0x06, 0x30, 0x31, 0x7F, 0x5F, 0x1F, 0x80, 0x81, 0x82, 0x83, 0x84, 0x85, 0x87, 0x8E, 0x99, 0xA0, 0xA1, 0xFF}
	own := map[string]byte{
		"document.NewDG1": 0x61, "document.NewDG2": 0x75, "document.NewDG7": 0x67, "document.NewDG11": 0x6B, "document.NewDG12": 0x6C, "document.NewDG13": 0x6D,
		"document.NewDG14": 0x6E, "document.NewDG15": 0x6F, "document.NewDG16": 0x70, "document.NewCOM": 0x60, "document.NewSOD": 0x77,
		"document.NewCardAccess": 0x03, "document.NewCardSecurity": 0xA3, "document.NewEFDIR": 0x61,
		"tlv.Decode+String": 0x21,
	}
	if c.Thorough() {
		own["document.DecodeSecurityInfos"], own["iso7816.SM.Decode/3DES"] = 0x03, 0x90
		own["tlv.Unwrap"], own["tlv.DecodeEncode"], own["iso7816.SM.Decode/AES128"], own["document.Document.NewDG"] = 0x77, 0x21, 0x90, 0x6E
	}
	var names []string
	for _, n := range shortEPs {
		if _, ok := own[n]; ok {
			names = append(names, n)
		}
	}
	c.SecBound(secB, fmt.Sprintf("all 8 294 400 strings of length 4..5 over the 23 symbols %x plus the entry point's own outer tag, at each of %d TLV based entry points", base, len(names)))
	for _, n := range names {
		ep := mustEP(n)
		alpha := append(append([]byte{}, base...), own[n])
		for a := 0; a < 24; a++ {
			for b := 0; b < 24; b++ {
				if !c.Mine() {
					continue
				}
				if c.Expired() {
					c.SecNotExhaustive(secB, "deadline at "+n)
					return
				}
				one := []*EP{ep}
				for x := 0; x < 24; x++ {
					for y := 0; y < 24; y++ {
						ins := make([][]byte, 0, 25)
						ins = append(ins, []byte{alpha[a], alpha[b], alpha[x], alpha[y]})
						for z := 0; z < 24; z++ {
							ins = append(ins, []byte{alpha[a], alpha[b], alpha[x], alpha[y], alpha[z]})
						}
						r.batch(secB, one, ins, "alphabet", nil)
					}
				}
			}
		}
		c.Distinct(n + "|alphabet")
	}
}

// positions returns the swept positions of a seed of length n under a cap.
func positions(n, limit int) (ps []int, stride int) {
	if limit <= 0 || n <= limit {
		for i := 0; i < n; i++ {
			ps = append(ps, i)
		}
		return ps, 1
	}
	stride = (n + limit - 1) / limit
	head := min(64, limit/4)
	for i := 0; i < n; i++ {
		if i < head || i%stride == 0 {
			ps = append(ps, i)
		}
	}
	return ps, stride
}

// sectionGenuine: every well-formed file of the reflds enumeration (all 14 kinds, every field-subset / length-form /
// security-info-subset shape) at its constructor, at json.Marshal, at tlv String(), and onward where a pipeline exists.
func (r *runner) sectionGenuine(co *corpusT) {
	c := r.c
	sec := "2a genuine file enumeration"
	kinds := append(append([]reflds.Kind{}, reflds.Kinds...), reflds.KDIR)
	total := 0
	for _, k := range kinds {
		ctor := mustEP(ctorOfKind[k])
		js := mustEP("json(" + ctorOfKind[k] + ")")
		str := mustEP("tlv.Decode+String")
		var onward []*EP
		switch k {
		case reflds.KDG14:
			onward = []*EP{mustEP("chipauth.VerifyEvidence/file:dg14[ca]"), mustEP("passiveauth.PassiveAuth/file:dg14[rich]")}
		case reflds.KCardAccess:
			onward = []*EP{mustEP("passiveauth.PassiveAuth/file:cardAccess[rich]")}
		case reflds.KCardSecurity:
			onward = []*EP{mustEP("pace.VerifyEvidence/file:cardSecurity[cam]")}
		case reflds.KDG15:
			onward = []*EP{mustEP("activeauth.VerifyEvidence/file:dg15[aarsa]"), mustEP("activeauth.VerifyEvidence/file:dg15[aaec]")}
		case reflds.KDG1, reflds.KDG11, reflds.KDG12:
			if c.Thorough() {
				onward = []*EP{mustEP("passiveauth.PassiveAuth/file:" + fileOfKind[k] + "[rich]")} // Summary() over every name / date / field shape
			}
		}
		n := 0
		reflds.Enumerate(k, c.Thorough(), func(f reflds.File) {
			n++
			if !c.Mine() || c.Expired() {
				return
			}
			cl := "genuine:" + string(k)
			r.doClass(sec, ctor, f.Bytes, cl)
			r.doClass(sec, js, f.Bytes, cl)
			if len(f.Bytes) <= 4096 {
				r.doClass(sec, str, f.Bytes, cl)
			}
			for _, ep := range onward {
				r.doClass(sec, ep, f.Bytes, cl)
			}
		})
		total += n
	}
	if c.Expired() {
		c.SecNotExhaustive(sec, "deadline")
	}
	c.SecBound(sec, fmt.Sprintf("all %d well-formed files of the reflds enumeration over the 14 file kinds (bounds as in C19) at the file's constructor, json.Marshal of the result and tlv String(); every DG14 also as the DG14 of a Chip Authentication session (chipauth.VerifyEvidence) and of a document (Document.Verify, PassiveAuth, Summary), every CardAccess / CardSecurity / DG15 through the verifier that consumes it", total))
}

// capFor gives the number of swept positions of a seed at an entry point in the quick tier (0 = every position).
// The caps follow measured cost per call; thorough sweeps every position of every seed.
func capFor(seed, en string, n int, pipe bool) int {
	clamp := func(v, lo, hi int) int {
		if v < lo {
			return lo
		}
		if v > hi {
			return hi
		}
		return v
	}
	switch {
	case strings.HasPrefix(en, "json("):
		return clamp(40000/(n+1), 48, 384)
	case en == "tlv.Decode+String" || en == "tlv.DecodeEncode":
		return clamp(40000/(n+1), 48, 2048) // String() of a whole file costs time proportional to its size
	case strings.HasPrefix(en, "mobile.Verifier.Verify/file"):
		return 6 // 3..7 ms per call (passive authentication against the built-in master lists)
	case strings.Contains(en, "/rawdoc"):
		return 64
	case strings.HasPrefix(en, "VerifyEvidence/bundle[full]") && !strings.Contains(seed, "evidence=+cam+ca+aa"):
		return 128
	case strings.HasPrefix(en, "mobile."), strings.HasPrefix(en, "verifier.Verify["), strings.Contains(en, "/docex"):
		return 160
	case strings.HasPrefix(en, "verifier.Verify/bundle"):
		if strings.Contains(seed, "evidence=+cam+ca+aa") {
			return 128
		}
		return 24 // the evidence verifiers see every position of every subset directly (VerifyEvidence/bundle)
	case strings.Contains(seed, "explicit") && pipe:
		return 48 // generic-curve arithmetic, about 1 ms per call
	case strings.HasPrefix(en, "verifier.Verify/file:sod"), strings.HasPrefix(en, "verifier.Verify/file:cardSecurity"):
		return 64 // the same files are swept at every position through PassiveAuth / pace.VerifyEvidence directly
	case strings.HasPrefix(en, "verifier.Verify/file:"), pipe && strings.Contains(seed, "/SOD-"):
		return 128
	case pipe:
		return 256
	case en == "document.Document.NewDG":
		return 192 // same code as the file's own constructor, which sweeps every position
	case strings.Contains(seed, "/SOD-") || strings.Contains(seed, "/pss/") || strings.Contains(seed, "var/SOD"):
		return 640
	}
	return 1280
}

// section2: every position x every byte value, every truncation, every one-byte extension of every seed.
func (r *runner) section2(co *corpusT) {
	c := r.c
	sec := "2 seed mutations"
	sec2 := "2 seed mutations (onward pipelines)"
	strided := []string{}
	nSeeds := 0
	defer func() {
		bound := fmt.Sprintf("%d seeds; each seed x each of its entry points x (every position x all 256 byte values, every truncation length, extension by each byte value); a file constructor that returns a value is followed by json.Marshal of that value", nSeeds)
		if len(strided) > 0 {
			bound += fmt.Sprintf("; the quick tier strides %d large or costly seed/entry-point pairs (a head of up to 64 positions + every k-th, all 256 values there; listed under strided_in_quick)", len(strided))
			if c.Shard == 0 {
				c.Extra("strided_in_quick", strided)
			}
		}
		c.SecBound(sec, bound)
		c.SecBound(sec2, bound)
	}()
	for _, s := range co.seeds {
		nSeeds++
		type target struct {
			en   string
			pipe bool
		}
		var ts []target
		for _, en := range s.EPs {
			ts = append(ts, target{en, false})
			if lookupEP("json("+en+")") != nil {
				ts = append(ts, target{"json(" + en + ")", false})
			}
		}
		for _, en := range s.Pipe {
			ts = append(ts, target{en, true})
		}
		for _, t := range ts {
			en := t.en
			ep := lookupEP(en)
			if ep == nil {
				c.HarnessError("seed %s: unknown entry point %s", s.Name, en)
				return
			}
			limit, secN := 0, sec
			if t.pipe {
				secN = sec2
			}
			if c.Quick() {
				limit = capFor(s.Name, en, len(s.B), t.pipe)
			} else if t.pipe {
				// thorough sweeps every position, except through the two kinds of pipeline that cost 3..10 ms per call
				switch {
				case strings.HasPrefix(en, "mobile.Verifier.Verify/file"):
					limit = 200
				case strings.HasSuffix(en, "bp]") || strings.HasSuffix(en, "[ca3]"):
					limit = 96 // verification on 256..384-bit curves with generic arithmetic
				}
			}
			ps, stride := positions(len(s.B), limit)
			if stride > 1 {
				strided = append(strided, fmt.Sprintf("%s @ %s: %d bytes, first positions + every %d-th", s.Name, en, len(s.B), stride))
			}
			class := "mutation:" + s.Name
			for _, p := range ps {
				if !c.Mine() {
					continue
				}
				if c.Expired() {
					c.SecNotExhaustive(secN, fmt.Sprintf("deadline at seed %s entry point %s position %d", s.Name, en, p))
					return
				}
				m := append([]byte{}, s.B...)
				for v := 0; v < 256; v++ {
					if v&15 == 0 && (r.tripped(secN, ep, class) || c.Expired()) {
						break
					}
					m[p] = byte(v)
					r.do(secN, ep, append([]byte{}, m...), class)
				}
			}
			// truncations (every length, strided like the positions) and one-byte extensions
			if c.Mine() {
				for _, p := range ps {
					if c.Expired() {
						break
					}
					r.do(secN, ep, append([]byte{}, s.B[:p]...), "truncation:"+s.Name)
				}
			}
			if c.Mine() {
				for v := 0; v < 256; v++ {
					r.do(secN, ep, append(append([]byte{}, s.B...), byte(v)), "extension:"+s.Name)
				}
			}
			c.Distinct(en + "|" + s.Name)
		}
	}
}
