package c12

import (
	"bytes"
	"crypto/sha256"
	"encoding/asn1"
	"encoding/json"
	"fmt"
	"sort"
	"strings"
	"sync"

	"github.com/gmrtd/gmrtd/activeauth"
	"github.com/gmrtd/gmrtd/chipauth"
	"github.com/gmrtd/gmrtd/cms"
	"github.com/gmrtd/gmrtd/document"
	"github.com/gmrtd/gmrtd/iso7816"
	"github.com/gmrtd/gmrtd/mobile"
	"github.com/gmrtd/gmrtd/mrz"
	"github.com/gmrtd/gmrtd/pace"
	"github.com/gmrtd/gmrtd/passiveauth"
	"github.com/gmrtd/gmrtd/password"
	"github.com/gmrtd/gmrtd/tlv"
	"github.com/gmrtd/gmrtd/verifier"

	"verif/internal/refcrypto"
	"verif/internal/smdrv"
)

// EP is one entry point under test: F feeds the input to the library and reports whether a value (true)
// or an error (false) came back. F never recovers; the runner does.
type EP struct {
	Name  string
	F     func(in []byte) bool
	Base  uint64 // constant allocation allowance (public-key operations)
	Extra int    // bytes of genuine context the input is embedded in (counted as input length)
}

var (
	epMu  sync.Mutex
	epReg = map[string]*EP{}
)

func reg(name string, f func(in []byte) bool) *EP {
	e := &EP{Name: name, F: f}
	epReg[name] = e
	return e
}

func epNames() []string {
	epMu.Lock()
	defer epMu.Unlock()
	var ns []string
	for k := range epReg {
		ns = append(ns, k)
	}
	sort.Strings(ns)
	return ns
}

// lookupEP resolves a name; parametrised pipeline entry points ("…[session]") are built on demand.
func lookupEP(name string) *EP {
	epMu.Lock()
	defer epMu.Unlock()
	return lookupEPLocked(name)
}

func lookupEPLocked(name string) *EP {
	if e := epReg[name]; e != nil {
		return e
	}
	if i := strings.IndexByte(name, '['); i > 0 && strings.HasSuffix(name, "]") {
		if e := buildSessionEP(name[:i], name[i+1:len(name)-1]); e != nil {
			e.Name = name
			e.Base = cryptoAllowance
			epReg[name] = e
			return e
		}
	}
	return nil
}

func mustEP(name string) *EP {
	e := lookupEP(name)
	if e == nil {
		panic("c12: unknown entry point " + name)
	}
	return e
}

// ---- raw-bytes entry points ----

var smKeys = map[string][2][]byte{}

func smEP(name string, alg refcrypto.Alg) {
	enc, mac := smdrv.Keys(alg, "c12")
	smKeys[name] = [2][]byte{enc, mac}
	// one SecureMessaging object per entry point; the counter (its only mutable state) is reset before every call
	sm, err := smdrv.NewLibSM(alg, enc, mac, smSSC(alg))
	if err != nil {
		panic("harness: NewLibSM: " + err.Error())
	}
	ssc0 := smSSC(alg)
	reg(name, func(in []byte) bool {
		if err := sm.SetSSC(ssc0); err != nil {
			panic("harness: SetSSC: " + err.Error())
		}
		_, err := sm.Decode(in)
		return err == nil
	})
}

func smSSC(alg refcrypto.Alg) []byte { return smdrv.SSCStart(alg, 1) }

type rawDataer interface{ GetRawData() []byte }

func ctorEP[T any](name string, f func([]byte) (T, error)) {
	reg(name, func(in []byte) bool {
		_, err := f(in)
		return err == nil
	})
	reg("json("+name+")", func(in []byte) bool {
		v, err := f(in)
		if err != nil {
			return false
		}
		_, err = json.Marshal(v)
		return err == nil
	})
}

var dgOfTag = map[byte]int{0x61: 1, 0x75: 2, 0x67: 7, 0x6B: 11, 0x6C: 12, 0x6D: 13, 0x6E: 14, 0x6F: 15, 0x70: 16}

func init() {
	reg("tlv.Decode", func(in []byte) bool { _, err := tlv.Decode(in); return err == nil })
	reg("tlv.Decode+String", func(in []byte) bool {
		n, err := tlv.Decode(in)
		if err != nil {
			return false
		}
		_ = n.Encode()
		_ = n.NodeByTag(0x30).Value()
		_ = n.NodeByTagOccur(0x06, 2).Children()
		_ = n.String()
		return true
	})
	reg("tlv.Unwrap", func(in []byte) bool { _, _, err := tlv.Unwrap(in); return err == nil })
	reg("tlv.UnwrapTag", func(in []byte) bool {
		t := tlv.TlvTag(0x77)
		if len(in) > 0 && in[0]&1 == 1 {
			t = tlv.TlvTag(in[0])
		}
		_, err := tlv.UnwrapTag(t, in)
		return err == nil
	})
	reg("tlv.DecodeEncode", func(in []byte) bool { _, err := tlv.DecodeEncode(in); return err == nil })
	reg("tlv.ParseTag", func(in []byte) bool { _, err := tlv.ParseTag(bytes.NewReader(in)); return err == nil })
	reg("tlv.ParseTags", func(in []byte) bool { _, err := tlv.ParseTags(bytes.NewReader(in)); return err == nil })
	reg("tlv.ParseLength", func(in []byte) bool {
		l, err := tlv.ParseLength(bytes.NewReader(in))
		if err == nil {
			_ = l.Encode()
		}
		return err == nil
	})
	reg("tlv.ParseTagAndLength", func(in []byte) bool {
		t, l, err := tlv.ParseTagAndLength(bytes.NewReader(in))
		if err == nil {
			_ = t.Encode()
			_ = t.IsConstructed()
			_ = l.Encode()
		}
		return err == nil
	})
	reg("iso7816.ParseRApdu", func(in []byte) bool {
		r, err := iso7816.ParseRApdu(in)
		if err == nil {
			_ = r.String()
			_ = r.IsSuccess()
		}
		return err == nil
	})
	smEP("iso7816.SM.Decode/3DES", refcrypto.TDES)
	smEP("iso7816.SM.Decode/AES128", refcrypto.AES128)
	smEP("iso7816.SM.Decode/AES256", refcrypto.AES256)

	ctorEP("document.NewDG1", document.NewDG1)
	ctorEP("document.NewDG2", document.NewDG2)
	ctorEP("document.NewDG7", document.NewDG7)
	ctorEP("document.NewDG11", document.NewDG11)
	ctorEP("document.NewDG12", document.NewDG12)
	ctorEP("document.NewDG13", document.NewDG13)
	ctorEP("document.NewDG14", document.NewDG14)
	ctorEP("document.NewDG15", document.NewDG15)
	ctorEP("document.NewDG16", document.NewDG16)
	ctorEP("document.NewCOM", document.NewCOM)
	ctorEP("document.NewSOD", document.NewSOD)
	ctorEP("document.NewCardAccess", document.NewCardAccess)
	ctorEP("document.NewCardSecurity", document.NewCardSecurity)
	ctorEP("document.NewEFDIR", document.NewEFDIR)
	// Document.NewDG: the data-group number is taken from the first input byte (0..31: also unsupported numbers),
	// or from the file's own outer tag when the first byte is one (so that genuine files reach their constructor)
	reg("document.Document.NewDG", func(in []byte) bool {
		var d document.Document
		if len(in) == 0 {
			return d.NewDG(0, in) == nil
		}
		if dg, ok := dgOfTag[in[0]]; ok {
			if d.NewDG(dg, in) != nil {
				return false
			}
			(&document.DocumentEx{Document: d}).Summary()
			_ = d.Verify()
			return true
		}
		return d.NewDG(int(in[0]&0x1F), in[1:]) == nil
	})
	reg("document.NewDocumentFromCbor", func(in []byte) bool {
		d, err := document.NewDocumentFromCbor(in)
		if err != nil {
			return false
		}
		_ = d.Verify()
		(&document.DocumentEx{Document: *d}).Summary()
		return true
	})
	reg("document.UnmarshalVerifiableDoc", func(in []byte) bool {
		_, _, err := document.UnmarshalVerifiableDoc(in)
		return err == nil
	})
	reg("document.NewChipAuthEvidenceFromCbor", func(in []byte) bool {
		_, err := document.NewChipAuthEvidenceFromCbor(in)
		return err == nil
	})
	reg("document.DecodeSecurityInfos", func(in []byte) bool {
		s, err := document.DecodeSecurityInfos(in)
		if err != nil {
			return false
		}
		_ = s.TotalCnt()
		_ = s.Contains(s)
		return true
	})

	reg("mrz.MrzDecode", func(in []byte) bool {
		m, err := mrz.MrzDecode(string(in))
		if err != nil {
			return false
		}
		_, _ = m.EncodeMrzi()
		return true
	})
	reg("mrz.ConvertMrzToMrzi", func(in []byte) bool { _, err := mrz.ConvertMrzToMrzi(string(in)); return err == nil })
	reg("mrz.ParseName", func(in []byte) bool { _, err := mrz.ParseName(mrz.DecodeValue(string(in))); return err == nil })
	reg("password.NewPasswordMrz", func(in []byte) bool {
		p, err := password.NewPasswordMrz(string(in))
		if err != nil {
			return false
		}
		_, _ = p.Type()
		_, err = p.Key()
		return err == nil
	})
	reg("password.NewPasswordMrzi", func(in []byte) bool {
		// input = documentNo | dateOfBirth | dateOfExpiry separated by '|'
		parts := strings.SplitN(string(in), "|", 3)
		for len(parts) < 3 {
			parts = append(parts, "")
		}
		p, err := password.NewPasswordMrzi(parts[0], parts[1], parts[2])
		if err != nil {
			return false
		}
		_, err = p.Key()
		return err == nil
	})

	reg("cms.ParseSignedData", func(in []byte) bool { _, err := cms.ParseSignedData(in); return err == nil })
	reg("cms.ParseCertificates", func(in []byte) bool { _, err := cms.ParseCertificates(in); return err == nil })
	reg("cms.ParseRDNSequence", func(in []byte) bool { _, err := cms.ParseRDNSequence(in); return err == nil })
	reg("cms.Asn1decodeSubjectPublicKeyInfo", func(in []byte) bool {
		spki, err := cms.Asn1decodeSubjectPublicKeyInfo(in)
		if err != nil {
			return false
		}
		_, _ = spki.RsaPubKey()
		_, _, _ = spki.EcCurveAndPubKey(true)
		_, _ = cms.ParseECSpecifiedDomain(&spki.Algorithm)
		return true
	})
	// cms.VerifySignature: input = u16 length of SubjectPublicKeyInfo | SubjectPublicKeyInfo | signature; the digest
	// is a fixed SHA-256 value, the signature algorithm is selected by the entry point name
	for _, v := range []struct {
		name string
		sig  asn1.ObjectIdentifier
	}{
		{"cms.VerifySignature/ecdsa-with-SHA256", asn1.ObjectIdentifier{1, 2, 840, 10045, 4, 3, 2}},
		{"cms.VerifySignature/sha256WithRSA", asn1.ObjectIdentifier{1, 2, 840, 113549, 1, 1, 11}},
		{"cms.VerifySignature/rsassa-pss", asn1.ObjectIdentifier{1, 2, 840, 113549, 1, 1, 10}},
	} {
		v := v
		reg(v.name, func(in []byte) bool {
			spki, sig, ok := splitPair(in)
			if !ok {
				return false
			}
			dg := sha256.Sum256([]byte("c12 fixed message"))
			return cms.VerifySignature(spki, asn1.ObjectIdentifier{2, 16, 840, 1, 101, 3, 4, 2, 1}, dg[:], v.sig, sig) == nil
		})
	}
	// activeauth.ValidateActiveAuthSignature: input = u16 length of EF.DG15 | EF.DG15 | INTERNAL AUTHENTICATE response;
	// the challenge is fixed
	reg("activeauth.ValidateActiveAuthSignature", func(in []byte) bool {
		f, sig, ok := splitPair(in)
		if !ok {
			return false
		}
		dg15, err := document.NewDG15(f)
		if err != nil || dg15 == nil {
			return false
		}
		res, err := activeauth.ValidateActiveAuthSignature(dg15, sig, []byte{1, 2, 3, 4, 5, 6, 7, 8})
		return err == nil && res != nil
	})
	reg("mobile.Verifier.Verify", func(in []byte) bool {
		d, err := mobile.NewVerifier().Verify(in)
		if err != nil {
			if strings.Contains(err.Error(), "getCscaCertPool") {
				panic("harness: built-in CSCA pool unavailable: " + err.Error())
			}
			return false
		}
		_, _ = d.SummaryJson()
		return true
	})
}

func init() {
	for n, e := range epReg {
		if strings.HasPrefix(n, "cms.VerifySignature/") || n == "activeauth.ValidateActiveAuthSignature" || n == "mobile.Verifier.Verify" {
			e.Base = cryptoAllowance
		}
	}
}

func splitPair(in []byte) (a, b []byte, ok bool) {
	if len(in) < 2 {
		return nil, nil, false
	}
	n := int(in[0])<<8 | int(in[1])
	if 2+n > len(in) {
		return nil, nil, false
	}
	return in[2 : 2+n], in[2+n:], true
}

func joinPair(a, b []byte) []byte {
	out := []byte{byte(len(a) >> 8), byte(len(a))}
	return append(append(out, a...), b...)
}

// ---- session (pipeline) entry points ----

// buildSessionEP builds "<base>[<session>]".
func buildSessionEP(base, sname string) *EP {
	if strings.HasPrefix(base, "cms.") {
		return buildCmsEP(base, sname)
	}
	s := getSess(sname)
	if s == nil {
		return nil
	}
	if e := buildSessionEP2(base, s); e != nil {
		e.Extra = len(s.Blob)
		return e
	}
	return nil
}

func buildSessionEP2(base string, s *sess) *EP {
	post := func(d *document.DocumentEx) {
		d.Summary()
		_, _ = json.Marshal(d)
	}
	verify := func(blob []byte) bool {
		d, err := verifier.NewVerifier(s.Pool).Verify(blob)
		if err != nil || d == nil {
			return false
		}
		post(d)
		return true
	}
	mverify := func(blob []byte) bool {
		d, err := mobile.NewVerifier().Verify(blob)
		if err != nil || d == nil {
			return false
		}
		_, _ = d.SummaryJson()
		return true
	}
	file := ""
	if i := strings.Index(base, "/file:"); i > 0 {
		file = base[i+6:]
		base = base[:i] + "/file"
		if _, ok := s.Files[file]; !ok && !validFileName(file) {
			return nil
		}
	}
	switch base {
	case "verifier.Verify/without-files", "mobile.Verifier.Verify/without-files", "pipeline/without-files":
		return withoutFilesEP(base, s)
	case "verifier.Verify":
		return &EP{F: verify}
	case "verifier.Verify/file":
		return &EP{F: func(in []byte) bool { return verify(s.blobWith(file, in, nil)) }}
	case "verifier.Verify/bundle":
		return &EP{F: func(in []byte) bool { return verify(s.blobWith("", nil, in)) }}
	case "verifier.Verify/rawdoc":
		return &EP{F: func(in []byte) bool {
			return verify(seal(magicDocEx, 1, mustCbor(rawDocEx{Document: seal(magicDoc, 1, in), ChipAuthEvidence: seal(magicEv, 2, s.Bundle)})))
		}}
	case "verifier.Verify/docex":
		return &EP{F: func(in []byte) bool { return verify(seal(magicDocEx, 1, in)) }}
	case "mobile.Verifier.Verify":
		return &EP{F: mverify}
	case "mobile.Verifier.Verify/file":
		return &EP{F: func(in []byte) bool { return mverify(s.blobWith(file, in, nil)) }}
	case "mobile.Verifier.Verify/bundle":
		return &EP{F: func(in []byte) bool { return mverify(s.blobWith("", nil, in)) }}
	case "passiveauth.PassiveAuth/file":
		return &EP{F: func(in []byte) bool {
			d := s.Doc.Document
			if !setFile(&d, file, in) {
				return false
			}
			_ = d.Verify()
			res, err := passiveauth.PassiveAuth(&d, s.Pool)
			dx := &document.DocumentEx{Document: d}
			dx.Session.PassiveAuthResult, dx.Session.PassiveAuthErr = res, err
			dx.Summary()
			return err == nil
		}}
	case "chipauth.VerifyEvidence/file":
		return &EP{F: func(in []byte) bool {
			d := s.Doc.Document
			if !setFile(&d, file, in) {
				return false
			}
			_, err := chipauth.VerifyEvidence(&d, s.Doc.Session.ChipAuthResult.Evidence)
			return err == nil
		}}
	case "activeauth.VerifyEvidence/file":
		return &EP{F: func(in []byte) bool {
			d := s.Doc.Document
			if !setFile(&d, file, in) {
				return false
			}
			_, err := activeauth.VerifyEvidence(&d, s.Doc.Session.ActiveAuthResult.Evidence)
			return err == nil
		}}
	case "pace.VerifyEvidence/file":
		return &EP{F: func(in []byte) bool {
			d := s.Doc.Document
			if !setFile(&d, file, in) {
				return false
			}
			_, err := pace.VerifyEvidence(&d, s.Doc.Session.PaceCamResult.Evidence)
			return err == nil
		}}
	case "VerifyEvidence/bundle":
		// bundle payload -> NewChipAuthEvidenceFromCbor -> the three evidence verifiers, called directly
		return &EP{F: func(in []byte) bool {
			b, err := document.NewChipAuthEvidenceFromCbor(seal(magicEv, 2, in))
			if err != nil {
				return false
			}
			d := s.Doc.Document
			ok := true
			if b.PaceCam != nil {
				_, err := pace.VerifyEvidence(&d, b.PaceCam)
				ok = ok && err == nil
			}
			if b.ChipAuth != nil {
				_, err := chipauth.VerifyEvidence(&d, b.ChipAuth)
				ok = ok && err == nil
			}
			if b.ActiveAuth != nil {
				_, err := activeauth.VerifyEvidence(&d, b.ActiveAuth)
				ok = ok && err == nil
			}
			return ok
		}}
	case "activeauth.ValidateActiveAuthSignature/sig":
		ev := s.Doc.Session.ActiveAuthResult.Evidence
		return &EP{F: func(in []byte) bool {
			_, err := activeauth.ValidateActiveAuthSignature(s.Doc.Document.Mf.Lds1.Dg15, in, ev.Nonce)
			return err == nil
		}}
	}
	return nil
}

func validFileName(n string) bool {
	switch n {
	case "cardAccess", "cardSecurity", "dir", "com", "sod", "dg1", "dg2", "dg7", "dg11", "dg12", "dg13", "dg14", "dg15", "dg16":
		return true
	}
	return false
}

// setFile parses b with the file's constructor and stores it in d (a struct copy sharing the other files).
func setFile(d *document.Document, name string, b []byte) bool {
	var err error
	l := &d.Mf.Lds1
	switch name {
	case "cardAccess":
		d.Mf.CardAccess, err = document.NewCardAccess(b)
	case "cardSecurity":
		d.Mf.CardSecurity, err = document.NewCardSecurity(b)
	case "dir":
		d.Mf.Dir, err = document.NewEFDIR(b)
	case "com":
		l.Com, err = document.NewCOM(b)
	case "sod":
		l.Sod, err = document.NewSOD(b)
	case "dg1":
		l.Dg1, err = document.NewDG1(b)
	case "dg2":
		l.Dg2, err = document.NewDG2(b)
	case "dg7":
		l.Dg7, err = document.NewDG7(b)
	case "dg11":
		l.Dg11, err = document.NewDG11(b)
	case "dg12":
		l.Dg12, err = document.NewDG12(b)
	case "dg13":
		l.Dg13, err = document.NewDG13(b)
	case "dg14":
		l.Dg14, err = document.NewDG14(b)
	case "dg15":
		l.Dg15, err = document.NewDG15(b)
	case "dg16":
		l.Dg16, err = document.NewDG16(b)
	default:
		panic("harness: setFile " + name)
	}
	return err == nil
}

// buildCmsEP: "cms.ParseSignedData+Verify[pool]", "cms.ParseCertificates+Verify[pool]",
// "cms.CreateCertPoolFromSignedData/ml[pool]" (input = master list, root fixed), "…/root[pool]" (input = root certificate).
func buildCmsEP(base, pname string) *EP {
	pk := getPKI(pname)
	if pk == nil {
		return nil
	}
	switch base {
	case "cms.ParseSignedData+Verify":
		return &EP{F: func(in []byte) bool {
			sd, err := cms.ParseSignedData(in)
			if err != nil {
				return false
			}
			_, err = sd.Verify(pk.Pool)
			_, _ = json.Marshal(sd)
			return err == nil
		}}
	case "cms.ParseCertificates+Verify":
		return &EP{F: func(in []byte) bool {
			cs, err := cms.ParseCertificates(in)
			if err != nil {
				return false
			}
			ok := true
			for i := range cs {
				_, err := cs[i].Verify(pk.Pool)
				ok = ok && err == nil
				_, _ = cs[i].TbsCertificate.IssuerRDN()
				_, _ = cs[i].TbsCertificate.SubjectRDN()
				_, _, _ = cs[i].TbsCertificate.Validity.Parse()
				_, _ = json.Marshal(cs[i])
			}
			return ok
		}}
	case "cms.GenericCertPool.Add+lookups":
		return &EP{F: func(in []byte) bool {
			p := &cms.GenericCertPool{}
			if p.Add(in) != nil {
				return false
			}
			_ = p.ByIssuerCountry("NL")
			_ = p.BySKI(pk.SKI)
			_, _ = p.ByIssuerAndSerial(in)
			return true
		}}
	case "cms.CreateCertPoolFromSignedData/ml":
		return &EP{F: func(in []byte) bool {
			p, err := cms.CreateCertPoolFromSignedData(in, pk.Root)
			if err != nil {
				return false
			}
			_ = p.ByIssuerCountry("NL")
			return true
		}}
	case "cms.CreateCertPoolFromSignedData/root":
		return &EP{F: func(in []byte) bool {
			_, err := cms.CreateCertPoolFromSignedData(pk.ML, in)
			return err == nil
		}}
	}
	return nil
}

var _ = fmt.Sprintf
