package c12

import (
	"bytes"
	"crypto/sha256"
	"fmt"
	"math/big"
	"sort"
	"strings"
	"sync"

	cbor "github.com/fxamacker/cbor/v2"
	"github.com/gmrtd/gmrtd/cms"
	"github.com/gmrtd/gmrtd/document"
	"github.com/gmrtd/gmrtd/mobile"

	"verif/internal/e2e"
	"verif/internal/perso"
	"verif/internal/refchip"
	"verif/internal/refcrypto"
	"verif/internal/reflds"
	"verif/internal/refmrz"
	"verif/internal/refpki"
	"verif/internal/smdrv"
	"verif/internal/vc"
)

// ---- CBOR framing of the serialised document (the input format of verifier.Verify), mirrored here so that
// inner parts can be replaced and the checksums recomputed ("re-sealed") ----

const (
	magicDoc   = "gmrtd-raw-doc"
	magicEv    = "gmrtd-chip-auth-evidence"
	magicDocEx = "gmrtd-verifiable-doc"
)

type envelope struct {
	Magic   string `cbor:"magic"`
	Version uint   `cbor:"version"`
	SHA256  []byte `cbor:"sha256"`
	Payload []byte `cbor:"payload"`
}

type rawDocEx struct {
	Document         []byte `cbor:"document"`
	ChipAuthEvidence []byte `cbor:"chipAuthEvidence"`
}

type rawDoc struct {
	CardAccess   []byte `cbor:"cardAccess,omitempty"`
	CardSecurity []byte `cbor:"cardSecurity,omitempty"`
	Dir          []byte `cbor:"dir,omitempty"`
	Com          []byte `cbor:"com,omitempty"`
	Sod          []byte `cbor:"sod,omitempty"`
	Dg1          []byte `cbor:"dg1,omitempty"`
	Dg2          []byte `cbor:"dg2,omitempty"`
	Dg7          []byte `cbor:"dg7,omitempty"`
	Dg11         []byte `cbor:"dg11,omitempty"`
	Dg12         []byte `cbor:"dg12,omitempty"`
	Dg13         []byte `cbor:"dg13,omitempty"`
	Dg14         []byte `cbor:"dg14,omitempty"`
	Dg15         []byte `cbor:"dg15,omitempty"`
	Dg16         []byte `cbor:"dg16,omitempty"`
}

func (r *rawDoc) field(name string) *[]byte {
	switch name {
	case "cardAccess":
		return &r.CardAccess
	case "cardSecurity":
		return &r.CardSecurity
	case "dir":
		return &r.Dir
	case "com":
		return &r.Com
	case "sod":
		return &r.Sod
	case "dg1":
		return &r.Dg1
	case "dg2":
		return &r.Dg2
	case "dg7":
		return &r.Dg7
	case "dg11":
		return &r.Dg11
	case "dg12":
		return &r.Dg12
	case "dg13":
		return &r.Dg13
	case "dg14":
		return &r.Dg14
	case "dg15":
		return &r.Dg15
	case "dg16":
		return &r.Dg16
	}
	panic("harness: rawDoc field " + name)
}

var fileNames = []string{"cardAccess", "cardSecurity", "dir", "com", "sod", "dg1", "dg2", "dg7", "dg11", "dg12", "dg13", "dg14", "dg15", "dg16"}

func mustCbor(v any) []byte {
	b, err := cbor.Marshal(v)
	if err != nil {
		panic("harness: cbor.Marshal: " + err.Error())
	}
	return b
}

func seal(magic string, version uint, payload []byte) []byte {
	d := sha256.Sum256(payload)
	return mustCbor(envelope{Magic: magic, Version: version, SHA256: d[:], Payload: payload})
}

func unseal(b []byte) []byte {
	var e envelope
	if err := cbor.Unmarshal(b, &e); err != nil {
		panic("harness: unseal: " + err.Error())
	}
	return e.Payload
}

// ---- PKI (per issuing profile) ----

type pkiT struct {
	Name string
	Is   *refpki.Issuer
	Pool *cms.GenericCertPool
	Root []byte // CSCA certificate
	DS   []byte
	ML   []byte // master list signed by a master list signer of the CSCA
	SKI  []byte
}

var (
	pkiMu  sync.Mutex
	pkiMap = map[string]*pkiT{}
)

func profileOf(name string) (refpki.Profile, bool) {
	p := refpki.DefaultProfile()
	switch name {
	case "rsa":
	case "pss":
		p.CSCA, p.DS = refpki.RSA(2048, true, 2), refpki.RSA(2048, true, 3)
	case "ec":
		p.CSCA, p.DS = refpki.EC("P-256", false, 0), refpki.EC("P-256", false, 1)
	case "bp":
		p.CSCA, p.DS, p.Hash = refpki.EC("brainpoolP384r1", true, 0), refpki.EC("brainpoolP256r1", true, 1), refpki.SHA384
	default:
		return p, false
	}
	return p, true
}

func getPKI(name string) *pkiT {
	pkiMu.Lock()
	defer pkiMu.Unlock()
	if p := pkiMap[name]; p != nil {
		return p
	}
	prof, ok := profileOf(name)
	if !ok {
		return nil
	}
	is := refpki.NewIssuer(prof)
	pool, err := e2e.Pool(is.TrustStoreDER())
	if err != nil {
		panic("harness: trust store: " + err.Error())
	}
	ml, _ := is.IssueMasterList([]*refpki.Cert{is.CSCACert})
	p := &pkiT{Name: name, Is: is, Pool: pool, Root: is.CSCACert.DER, DS: is.DSCert.DER, ML: ml, SKI: is.CSCACert.SKI}
	pkiMap[name] = p
	return p
}

// ---- sessions ----

type sess struct {
	Name   string
	P      *perso.Perso
	Doc    *document.DocumentEx
	Pool   *cms.GenericCertPool
	Files  map[string][]byte
	Raw    rawDoc
	Bundle []byte // CBOR of the evidence bundle (payload of the evidence envelope)
	Blob   []byte // DocumentEx.ToCbor()
}

var (
	sessMu  sync.Mutex
	sessMap = map[string]*sess{}
	sessErr = map[string]error{}
)

func one() *int { v := 1; return &v }

func sessConfig(name string) (cfg perso.Config, live bool, ok bool) {
	camP256 := []refchip.PACEProto{{Mapping: 6, Cipher: 2, ParamID: 12}}
	switch name {
	case "ca":
		return perso.Config{BAC: true, CA: []perso.CASpec{{Curve: "P-256", Cipher: 2, KeyID: one()}}}, true, true
	case "ca3":
		return perso.Config{BAC: true, CA: []perso.CASpec{{Curve: "brainpoolP256r1", Cipher: 1, NoInfo: true}}}, true, true
	case "ca192":
		return perso.Config{BAC: true, CA: []perso.CASpec{{Curve: "P-256", Cipher: 3, KeyID: one()}}}, true, true
	case "ca256":
		return perso.Config{BAC: true, CA: []perso.CASpec{{Curve: "brainpoolP384r1", Cipher: 4, KeyID: one()}}}, true, true
	case "cam":
		return perso.Config{PACE: camP256}, true, true
	case "cambp":
		return perso.Config{PACE: []refchip.PACEProto{{Mapping: 6, Cipher: 4, ParamID: 13}}}, true, true
	case "aarsa":
		return perso.Config{BAC: true, AA: &perso.AASpec{RSABits: 2048, Trailer: "BC"}}, true, true
	case "aaec":
		return perso.Config{BAC: true, AA: &perso.AASpec{Curve: "P-256"}}, true, true
	case "aaecbp":
		return perso.Config{BAC: true, AA: &perso.AASpec{Curve: "brainpoolP320r1", DER: true, Explicit: true}}, true, true
	case "full":
		return perso.Config{BAC: true, PACE: camP256, CA: []perso.CASpec{{Curve: "P-256", Cipher: 2, KeyID: one()}}, AA: &perso.AASpec{RSABits: 2048, Trailer: "BC"}, DIR: true}, true, true
	case "rich":
		// every file type present (no chip authentication): for documents assembled from mutated files
		return perso.Config{BAC: true, DGs: []int{2, 7, 11, 12, 13, 16}, DIR: true}, true, true
	}
	if len(name) > 3 && name[:3] == "pa-" {
		if prof, ok := profileOf(name[3:]); ok {
			return perso.Config{BAC: true, DGs: []int{11}, Profile: &prof}, false, true
		}
	}
	return perso.Config{}, false, false
}

func getSess(name string) *sess {
	sessMu.Lock()
	defer sessMu.Unlock()
	if s := sessMap[name]; s != nil {
		return s
	}
	if sessErr[name] != nil {
		return nil
	}
	s, err := buildSess(name)
	if err != nil {
		sessErr[name] = err
		return nil
	}
	sessMap[name] = s
	return s
}

func buildSess(name string) (*sess, error) {
	cfg, live, ok := sessConfig(name)
	if !ok {
		return nil, fmt.Errorf("no session %q", name)
	}
	p := perso.Build(cfg)
	s := &sess{Name: name, P: p, Files: map[string][]byte{}}
	pool, err := e2e.Pool(p.Store)
	if err != nil {
		return nil, err
	}
	s.Pool = pool
	if live {
		r := e2e.Read(p, e2e.ReadOpts{AAChallenge: []byte{1, 2, 3, 4, 5, 6, 7, 8}})
		if r.Panic != nil || r.Err != nil || r.Doc == nil {
			return nil, fmt.Errorf("session %s: live read failed: %v %v", name, r.Panic, r.Err)
		}
		s.Doc = r.Doc
		ss := &r.Doc.Session
		okM := func(need bool, have bool, what string) error {
			if need && !have {
				return fmt.Errorf("session %s: %s did not succeed live (ca=%v cam=%v aa=%v)", name, what, ss.ChipAuthErr, ss.PaceErr, ss.ActiveAuthErr)
			}
			return nil
		}
		hasCA := ss.ChipAuthResult != nil && ss.ChipAuthResult.Success && ss.ChipAuthResult.Evidence != nil
		hasCAM := ss.PaceCamResult != nil && ss.PaceCamResult.Success && ss.PaceCamResult.Evidence != nil
		hasAA := ss.ActiveAuthResult != nil && ss.ActiveAuthResult.Success && ss.ActiveAuthResult.Evidence != nil
		for _, e := range []error{
			okM(name == "ca" || name == "ca3" || name == "ca192" || name == "ca256", hasCA, "CA"),
			okM(name == "cam" || name == "cambp" || name == "full", hasCAM, "PACE-CAM"),
			okM(name == "aarsa" || name == "aaec" || name == "aaecbp" || name == "full", hasAA, "AA"),
		} {
			if e != nil {
				return nil, e
			}
		}
		if name == "full" {
			// Chip Authentication evidence from a second read (BAC, no PACE, no AA key) of a chip with the same CA key and DG14
			cfgB := cfg
			cfgB.AA = nil
			pB := perso.Build(cfgB)
			if !bytes.Equal(pB.Files[14], p.Files[14]) {
				return nil, fmt.Errorf("session full: DG14 of the CA donor differs")
			}
			rB := e2e.Read(pB, e2e.ReadOpts{SkipPace: true})
			if rB.Doc == nil || rB.Doc.Session.ChipAuthResult == nil || !rB.Doc.Session.ChipAuthResult.Success {
				return nil, fmt.Errorf("session full: CA donor read failed: %v %v", rB.Panic, rB.Err)
			}
			s.Doc.Session.ChipAuthResult = rB.Doc.Session.ChipAuthResult
		}
	} else {
		// assembled from the genuine files with the library's constructors (no chip read)
		dx := &document.DocumentEx{}
		set := func(n string, b []byte) error {
			if b == nil {
				return nil
			}
			if !setFile(&dx.Document, n, b) {
				return fmt.Errorf("session %s: genuine file %s refused", name, n)
			}
			return nil
		}
		for d, b := range p.Files {
			n := fileNameOfDG(d)
			if n == "" {
				continue
			}
			if err := set(n, b); err != nil {
				return nil, err
			}
		}
		if err := set("cardAccess", p.CardAccess); err != nil {
			return nil, err
		}
		if err := set("cardSecurity", p.CardSecurity); err != nil {
			return nil, err
		}
		s.Doc = dx
	}
	for _, n := range fileNames {
		if b := fileOf(&s.Doc.Document, n); b != nil {
			s.Files[n] = b
			*s.Raw.field(n) = b
		}
	}
	evEnv, err := s.Doc.Session.ChipAuthEvidenceToCbor()
	if err != nil {
		return nil, err
	}
	s.Bundle = unseal(evEnv)
	s.Blob, err = s.Doc.ToCbor()
	if err != nil {
		return nil, err
	}
	if mine := s.blobWith("", nil, nil); !bytes.Equal(mine, s.Blob) {
		return nil, fmt.Errorf("session %s: re-sealed export differs from the library's export (harness framing out of date)", name)
	}
	return s, nil
}

func fileNameOfDG(d int) string {
	switch d {
	case 0x1D:
		return "sod"
	case 0x1E:
		return "com"
	case 1, 2, 7, 11, 12, 13, 14, 15, 16:
		return fmt.Sprintf("dg%d", d)
	}
	return ""
}

func fileOf(d *document.Document, n string) []byte {
	l := &d.Mf.Lds1
	get := func(isNil bool, f rawDataer) []byte {
		if isNil {
			return nil
		}
		return f.GetRawData()
	}
	switch n {
	case "cardAccess":
		return get(d.Mf.CardAccess == nil, d.Mf.CardAccess)
	case "cardSecurity":
		return get(d.Mf.CardSecurity == nil, d.Mf.CardSecurity)
	case "dir":
		return get(d.Mf.Dir == nil, d.Mf.Dir)
	case "com":
		return get(l.Com == nil, l.Com)
	case "sod":
		return get(l.Sod == nil, l.Sod)
	case "dg1":
		return get(l.Dg1 == nil, l.Dg1)
	case "dg2":
		return get(l.Dg2 == nil, l.Dg2)
	case "dg7":
		return get(l.Dg7 == nil, l.Dg7)
	case "dg11":
		return get(l.Dg11 == nil, l.Dg11)
	case "dg12":
		return get(l.Dg12 == nil, l.Dg12)
	case "dg13":
		return get(l.Dg13 == nil, l.Dg13)
	case "dg14":
		return get(l.Dg14 == nil, l.Dg14)
	case "dg15":
		return get(l.Dg15 == nil, l.Dg15)
	case "dg16":
		return get(l.Dg16 == nil, l.Dg16)
	}
	return nil
}

// blobWith returns the serialised document with one file and/or the evidence bundle payload replaced, re-sealed.
func (s *sess) blobWith(file string, b []byte, bundle []byte) []byte {
	rd := s.Raw
	if file != "" {
		*rd.field(file) = b
	}
	if bundle == nil {
		bundle = s.Bundle
	}
	return seal(magicDocEx, 1, mustCbor(rawDocEx{Document: seal(magicDoc, 1, mustCbor(rd)), ChipAuthEvidence: seal(magicEv, 2, bundle)}))
}

// blobFiles serialises an arbitrary file set with the session's evidence.
func (s *sess) blobFiles(rd rawDoc, bundle []byte) []byte {
	if bundle == nil {
		bundle = s.Bundle
	}
	return seal(magicDocEx, 1, mustCbor(rawDocEx{Document: seal(magicDoc, 1, mustCbor(rd)), ChipAuthEvidence: seal(magicEv, 2, bundle)}))
}

// ---- seed corpus ----

type seedT struct {
	Name string
	B    []byte
	EPs  []string // cheap entry points (parsers): every position in quick up to 2 KiB
	Pipe []string // costly entry points (verification pipelines): strided in quick above 384 bytes
}

type corpusT struct {
	seeds        []seedT
	lds          []reflds.Seed
	thoroughOnly []string
}

var ctorOfKind = map[reflds.Kind]string{
	reflds.KDG1: "document.NewDG1", reflds.KDG2: "document.NewDG2", reflds.KDG7: "document.NewDG7", reflds.KDG11: "document.NewDG11",
	reflds.KDG12: "document.NewDG12", reflds.KDG13: "document.NewDG13", reflds.KDG14: "document.NewDG14", reflds.KDG15: "document.NewDG15",
	reflds.KDG16: "document.NewDG16", reflds.KCOM: "document.NewCOM", reflds.KSOD: "document.NewSOD", reflds.KCardAccess: "document.NewCardAccess",
	reflds.KCardSecurity: "document.NewCardSecurity", reflds.KDIR: "document.NewEFDIR",
}

var fileOfKind = map[reflds.Kind]string{
	reflds.KDG1: "dg1", reflds.KDG2: "dg2", reflds.KDG7: "dg7", reflds.KDG11: "dg11", reflds.KDG12: "dg12", reflds.KDG13: "dg13", reflds.KDG14: "dg14",
	reflds.KDG15: "dg15", reflds.KDG16: "dg16", reflds.KCOM: "com", reflds.KSOD: "sod", reflds.KCardAccess: "cardAccess", reflds.KCardSecurity: "cardSecurity", reflds.KDIR: "dir",
}

var allCtors = []string{"document.NewDG1", "document.NewDG2", "document.NewDG7", "document.NewDG11", "document.NewDG12", "document.NewDG13", "document.NewDG14",
	"document.NewDG15", "document.NewDG16", "document.NewCOM", "document.NewSOD", "document.NewCardAccess", "document.NewCardSecurity", "document.NewEFDIR"}

func (co *corpusT) add(name string, b []byte, eps []string, pipe []string) {
	co.seeds = append(co.seeds, seedT{name, b, eps, pipe})
}

func (co *corpusT) describe() []string {
	var out []string
	for _, s := range co.seeds {
		out = append(out, fmt.Sprintf("%s (%d bytes) -> %v %v", s.Name, len(s.B), s.EPs, s.Pipe))
	}
	return out
}

// sessionsUsed lists the sessions every worker builds up front.
func sessionsUsed(thorough bool) []string {
	l := []string{"ca", "ca3", "ca192", "ca256", "cam", "aarsa", "aaec", "full", "rich", "pa-rsa", "pa-ec", "pa-pss"}
	if thorough {
		l = append(l, "cambp", "aaecbp", "pa-bp")
	}
	return l
}

func smResponse(alg refcrypto.Alg, data []byte, sw uint16, odd bool) []byte {
	enc, mac := smdrv.Keys(alg, "c12")
	chip := refcrypto.NewSM(alg, enc, mac, smSSC(alg))
	return chip.Wrap(data, sw, odd)
}

// smAuthentic builds a response whose MAC is genuine over an arbitrary (possibly malformed) sequence of data objects.
func smAuthentic(alg refcrypto.Alg, dos []byte, sw uint16) []byte {
	enc, mac := smdrv.Keys(alg, "c12")
	_ = enc
	ssc := new(big.Int).SetBytes(smSSC(alg))
	ssc.Add(ssc, big.NewInt(1))
	sscB := ssc.FillBytes(make([]byte, alg.Block()))
	m := refcrypto.MAC8(alg, mac, append(append([]byte{}, sscB...), dos...))
	out := append(append([]byte{}, dos...), 0x8E, 0x08)
	out = append(out, m...)
	return append(out, byte(sw>>8), byte(sw))
}

func buildCorpus(c *vc.Ctx) (*corpusT, error) {
	for _, n := range sessionsUsed(c.Thorough()) {
		if getSess(n) == nil {
			return nil, sessErr[n]
		}
	}
	// the built-in CSCA pool of the mobile facade is loaded once, outside any measured call
	if err := mobile.PreloadCscaCertPool(); err != nil {
		return nil, fmt.Errorf("mobile.PreloadCscaCertPool: %w", err)
	}
	if err := reflds.SelfTest(); err != nil {
		return nil, fmt.Errorf("reflds self-test: %w", err)
	}
	co := &corpusT{lds: reflds.Seeds()}
	// A. reflds seeds (all 14 file kinds + variants)
	for _, s := range co.lds {
		eps := []string{ctorOfKind[s.Kind], "tlv.Decode+String"}
		var pipe []string
		if s.Kind.DG() != 0 {
			eps = append(eps, "document.Document.NewDG")
		}
		switch s.Kind {
		case reflds.KSOD:
			// the CMS object without the 77 wrapper goes to the CMS parser as its own seed below
		case reflds.KDG14, reflds.KCardAccess:
			pipe = append(pipe, "passiveauth.PassiveAuth/file:"+fileOfKind[s.Kind]+"[rich]")
		default:
			pipe = append(pipe, "passiveauth.PassiveAuth/file:"+fileOfKind[s.Kind]+"[rich]")
		}
		if s.Kind == reflds.KDG16 {
			// the offline verifiers have no recover of their own: whatever escapes a constructor escapes them
			pipe = append(pipe, "verifier.Verify/file:dg16[rich]", "mobile.Verifier.Verify/file:dg16[rich]")
		}
		co.add("reflds/"+s.Name, s.Bytes, eps, pipe)
		if s.Kind == reflds.KSOD {
			if ts, ok := parseBER(s.Bytes); ok && len(ts) == 1 {
				co.add("reflds/"+s.Name+"/contentInfo", s.Bytes[ts[0].off+ts[0].hlen:], []string{"cms.ParseSignedData+Verify[rsa]"}, nil)
			}
		}
		if s.Kind == reflds.KCardSecurity {
			co.add("reflds/"+s.Name+"/contentInfo", s.Bytes, []string{"cms.ParseSignedData+Verify[rsa]"}, nil)
		}
	}
	co.add("reflds/certificate", reflds.Certificate(), []string{"cms.ParseCertificates+Verify[rsa]", "cms.GenericCertPool.Add+lookups[rsa]"}, nil)
	// B. refpki-issued objects per profile, with the documents they belong to
	profs := []string{"rsa", "ec", "pss"}
	if c.Thorough() {
		profs = append(profs, "bp")
	}
	for _, pn := range profs {
		pk := getPKI(pn)
		s := getSess("pa-" + pn)
		sod := s.Files["sod"]
		co.add("refpki/"+pn+"/SOD", sod, []string{"document.NewSOD", "tlv.Decode+String"}, []string{"passiveauth.PassiveAuth/file:sod[pa-" + pn + "]"})
		if ts, ok := parseBER(sod); ok && len(ts) == 1 {
			co.add("refpki/"+pn+"/SOD/contentInfo", sod[ts[0].off+ts[0].hlen:], []string{"cms.ParseSignedData"}, []string{"cms.ParseSignedData+Verify[" + pn + "]"})
		}
		co.add("refpki/"+pn+"/ds-cert", pk.DS, []string{"cms.ParseCertificates", "cms.GenericCertPool.Add+lookups[" + pn + "]"}, []string{"cms.ParseCertificates+Verify[" + pn + "]"})
		co.add("refpki/"+pn+"/csca-cert", pk.Root, []string{"cms.ParseCertificates"}, []string{"cms.ParseCertificates+Verify[" + pn + "]", "cms.CreateCertPoolFromSignedData/root[" + pn + "]"})
		co.add("refpki/"+pn+"/master-list", pk.ML, []string{"cms.ParseSignedData"}, []string{"cms.CreateCertPoolFromSignedData/ml[" + pn + "]"})
		co.add("refpki/"+pn+"/issuer-name", refpki.DER(pk.Is.CSCAName.Node()), []string{"cms.ParseRDNSequence"}, nil)
		co.add("refpki/"+pn+"/ds-spki", pk.Is.DSKey.SPKI(), []string{"cms.Asn1decodeSubjectPublicKeyInfo"}, nil)
		co.add("refpki/"+pn+"/dg1-in-document", s.Files["dg1"], nil, []string{"passiveauth.PassiveAuth/file:dg1[pa-" + pn + "]"})
	}
	// indefinite-length EF.SOD (what streaming encoders emit)
	{
		s := getSess("pa-rsa")
		dgs := map[int][]byte{}
		for _, d := range s.P.DGList {
			dgs[d] = s.P.Files[d]
		}
		for _, enc := range []refpki.Encoding{refpki.EncIndefOuter, refpki.EncIndefDeep} {
			b, _ := s.P.Issuer.IssueSOD(dgs, refpki.SODOpts{Encoding: enc})
			co.add("refpki/rsa/SOD-"+enc.String(), b, []string{"document.NewSOD", "tlv.Decode+String", "tlv.DecodeEncode"}, []string{"passiveauth.PassiveAuth/file:sod[pa-rsa]"})
		}
	}
	// C. session files fed onward, serialised documents, evidence bundles
	for _, sn := range []string{"ca", "cam", "aarsa", "aaec"} {
		s := getSess(sn)
		switch sn {
		case "ca":
			co.add("session/ca/dg14", s.Files["dg14"], []string{"document.NewDG14"}, []string{"chipauth.VerifyEvidence/file:dg14[ca]", "verifier.Verify/file:dg14[ca]"})
		case "cam":
			co.add("session/cam/cardSecurity", s.Files["cardSecurity"], []string{"document.NewCardSecurity"}, []string{"pace.VerifyEvidence/file:cardSecurity[cam]", "passiveauth.PassiveAuth/file:cardSecurity[cam]"})
			co.add("session/cam/cardAccess", s.Files["cardAccess"], []string{"document.NewCardAccess"}, []string{"verifier.Verify/file:cardAccess[cam]"})
			co.add("session/cam/dg14", s.Files["dg14"], []string{"document.NewDG14"}, []string{"verifier.Verify/file:dg14[cam]"})
		case "aarsa":
			co.add("session/aarsa/dg15", s.Files["dg15"], []string{"document.NewDG15"}, []string{"activeauth.VerifyEvidence/file:dg15[aarsa]", "verifier.Verify/file:dg15[aarsa]"})
			co.add("session/aarsa/signature", s.Doc.Session.ActiveAuthResult.Evidence.Signature, nil, []string{"activeauth.ValidateActiveAuthSignature/sig[aarsa]"})
		case "aaec":
			co.add("session/aaec/dg15", s.Files["dg15"], []string{"document.NewDG15"}, []string{"activeauth.VerifyEvidence/file:dg15[aaec]"})
			co.add("session/aaec/dg14", s.Files["dg14"], []string{"document.NewDG14"}, []string{"verifier.Verify/file:dg14[aaec]"})
			co.add("session/aaec/signature", s.Doc.Session.ActiveAuthResult.Evidence.Signature, nil, []string{"activeauth.ValidateActiveAuthSignature/sig[aaec]"})
		}
		co.add("session/"+sn+"/bundle", s.Bundle, nil, []string{"VerifyEvidence/bundle[" + sn + "]"})
		co.add("session/"+sn+"/evidence-envelope", seal(magicEv, 2, s.Bundle), []string{"document.NewChipAuthEvidenceFromCbor"}, nil)
	}
	if c.Thorough() {
		for _, sn := range []string{"ca3", "cambp", "aaecbp"} {
			s := getSess(sn)
			co.add("session/"+sn+"/bundle", s.Bundle, nil, []string{"VerifyEvidence/bundle[" + sn + "]"})
			if f := s.Files["dg14"]; f != nil && sn == "ca3" {
				co.add("session/ca3/dg14", f, nil, []string{"chipauth.VerifyEvidence/file:dg14[ca3]"})
			}
			if f := s.Files["cardSecurity"]; f != nil {
				co.add("session/"+sn+"/cardSecurity", f, nil, []string{"pace.VerifyEvidence/file:cardSecurity[" + sn + "]"})
			}
			if sn == "aaecbp" {
				co.add("session/aaecbp/dg15", s.Files["dg15"], nil, []string{"activeauth.VerifyEvidence/file:dg15[aaecbp]"})
				co.add("session/aaecbp/signature", s.Doc.Session.ActiveAuthResult.Evidence.Signature, nil, []string{"activeauth.ValidateActiveAuthSignature/sig[aaecbp]"})
			}
		}
	}
	full := getSess("full")
	{
		// the eight evidence subsets of the full session
		ses := full.Doc.Session
		for m := 0; m < 8; m++ {
			dx := *full.Doc
			dx.Session = ses
			label := ""
			if m&1 == 0 {
				dx.Session.PaceCamResult = nil
			} else {
				label += "+cam"
			}
			if m&2 == 0 {
				dx.Session.ChipAuthResult = nil
			} else {
				label += "+ca"
			}
			if m&4 == 0 {
				dx.Session.ActiveAuthResult = nil
			} else {
				label += "+aa"
			}
			if label == "" {
				label = "none"
			}
			blob, err := dx.ToCbor()
			if err != nil {
				return nil, err
			}
			evEnv, _ := dx.Session.ChipAuthEvidenceToCbor()
			bundle := unseal(evEnv)
			co.add("cbor/full/evidence="+label+"/bundle", bundle, nil, []string{"VerifyEvidence/bundle[full]", "verifier.Verify/bundle[full]"})
			co.add("cbor/full/evidence="+label+"/evidence-envelope", evEnv, []string{"document.NewChipAuthEvidenceFromCbor"}, nil)
			if m == 0 || m == 7 {
				co.add("cbor/full/evidence="+label+"/export", blob, []string{"document.UnmarshalVerifiableDoc"}, []string{"verifier.Verify[full]", "mobile.Verifier.Verify"})
				co.add("cbor/full/evidence="+label+"/export-payload", unseal(blob), nil, []string{"verifier.Verify/docex[full]"})
			}
		}
		docEnv, err := full.Doc.Document.ToCbor()
		if err != nil {
			return nil, err
		}
		co.add("cbor/full/document-envelope", docEnv, []string{"document.NewDocumentFromCbor"}, nil)
		co.add("cbor/full/document-payload", unseal(docEnv), nil, []string{"verifier.Verify/rawdoc[full]"})
		for _, f := range []string{"com", "dg1", "dg14", "dg15", "cardAccess", "dir"} {
			if full.Files[f] != nil {
				co.add("session/full/"+f, full.Files[f], nil, []string{"verifier.Verify/file:" + f + "[full]"})
			}
		}
		co.add("session/full/sod", full.Files["sod"], nil, []string{"verifier.Verify/file:sod[full]"})
		co.add("session/full/cardSecurity", full.Files["cardSecurity"], nil, []string{"verifier.Verify/file:cardSecurity[full]"})
		co.add("session/full/dg14-mobile", full.Files["dg14"], nil, []string{"mobile.Verifier.Verify/file:dg14[full]"})
	}
	// D. secure-messaging responses
	for _, a := range []struct {
		n   string
		alg refcrypto.Alg
	}{{"3DES", refcrypto.TDES}, {"AES128", refcrypto.AES128}, {"AES256", refcrypto.AES256}} {
		for _, dl := range []int{0, 1, 24} {
			data := make([]byte, dl)
			for i := range data {
				data[i] = byte(0x41 + i)
			}
			co.add(fmt.Sprintf("sm/%s/data=%d", a.n, dl), smResponse(a.alg, data, 0x9000, false), []string{"iso7816.SM.Decode/" + a.n, "iso7816.ParseRApdu"}, nil)
		}
		co.add(fmt.Sprintf("sm/%s/odd-ins", a.n), smResponse(a.alg, []byte{1, 2, 3}, 0x6282, true), []string{"iso7816.SM.Decode/" + a.n}, nil)
	}
	// E. MRZ zones
	for _, d := range []refmrz.Doc{
		{Layout: refmrz.TD3, DocCode: "P", Issuer: "UTO", Primary: "ERIKSSON", Secondary: "ANNA<MARIA", DocNumber: "L898902C3", Nationality: "UTO", DOB: "740812", Sex: "F", DOE: "120415", Optional: "ZE184226B"},
		{Layout: refmrz.TD1, DocCode: "I", Issuer: "UTO", Primary: "ERIKSSON", Secondary: "ANNA<MARIA", DocNumber: "D23145890734", Nationality: "UTO", DOB: "740812", Sex: "F", DOE: "120415", Optional: "XY9", Optional2: "Z1"},
		{Layout: refmrz.TD2, DocCode: "I", Issuer: "D", Primary: "VAN<DER<BERG", Secondary: "JAN", DocNumber: "AB12345", Nationality: "D", DOB: "040229", Sex: "M", DOE: "300101", Optional: "AB1"},
		{Layout: refmrz.TD1, DocCode: "ID", Issuer: "NLD", Primary: "DE<BRUIJN", Secondary: "", DocNumber: "SPECI2014", Nationality: "NLD", DOB: "650310", Sex: "", DOE: "240309"},
	} {
		z, _, err := refmrz.Build(d)
		if err != nil {
			return nil, fmt.Errorf("refmrz.Build: %w", err)
		}
		co.add(fmt.Sprintf("mrz/%v/%s", d.Layout, d.DocNumber), []byte(z), []string{"mrz.MrzDecode", "password.NewPasswordMrz", "mrz.ConvertMrzToMrzi"}, nil)
	}
	co.add("mrz/name", []byte("VAN<DER<BERG<<JAN<PIETER<<<<<<<<<<<<<<<"), []string{"mrz.ParseName"}, nil)
	co.add("mrz/mrzi-fields", []byte("L898902C3|740812|120415"), []string{"password.NewPasswordMrzi"}, nil)
	// F. keys + signatures for the signature verifiers
	sigOf := func(k *refpki.Key) []byte {
		sig, _ := k.Sign([]byte("c12 fixed message"), refpki.SignOpts{Hash: refpki.SHA256})
		return sig
	}
	kEC := refpki.LoadKey(refpki.EC("P-256", false, 7))
	kBP := refpki.LoadKey(refpki.EC("brainpoolP224r1", true, 7))
	kRSA := refpki.LoadKey(refpki.RSA(2048, false, 4))
	co.add("sig/ecdsa-P-256", joinPair(kEC.SPKI(), sigOf(kEC)), nil, []string{"cms.VerifySignature/ecdsa-with-SHA256"})
	co.add("sig/ecdsa-brainpoolP224r1-explicit", joinPair(kBP.SPKI(), sigOf(kBP)), nil, []string{"cms.VerifySignature/ecdsa-with-SHA256"})
	co.add("sig/rsa2048-pkcs1", joinPair(kRSA.SPKI(), sigOf(kRSA)), nil, []string{"cms.VerifySignature/sha256WithRSA", "cms.VerifySignature/rsassa-pss"})
	co.add("spki/ec-explicit", kBP.SPKI(), []string{"cms.Asn1decodeSubjectPublicKeyInfo"}, nil)
	{
		aa := getSess("aaec")
		co.add("aa/dg15+signature/ec", joinPair(aa.Files["dg15"], aa.Doc.Session.ActiveAuthResult.Evidence.Signature), nil, []string{"activeauth.ValidateActiveAuthSignature"})
	}
	if c.Quick() {
		// near-duplicates of seeds that stay (same parsers, same structure): thorough only
		var keep []seedT
		for _, sd := range co.seeds {
			n := sd.Name
			if strings.Contains(n, "var/SOD-") || strings.HasSuffix(n, "SOD-indef-outer") || n == "refpki/pss/csca-cert" || n == "refpki/pss/master-list" ||
				n == "refpki/pss/issuer-name" || n == "refpki/pss/dg1-in-document" || n == "refpki/pss/ds-spki" || n == "refpki/ec/issuer-name" || n == "refpki/ec/dg1-in-document" {
				co.thoroughOnly = append(co.thoroughOnly, n)
				continue
			}
			keep = append(keep, sd)
		}
		co.seeds = keep
	}
	// sweep order: the small seeds that are the only genuine input of their entry points first, the large CMS / LDS
	// files (whose parsers also see the refpki and session variants) last, so that a deadline cuts redundancy first
	rank := func(n string) int {
		switch {
		case strings.HasPrefix(n, "mrz/"), strings.HasPrefix(n, "sm/"), strings.HasPrefix(n, "sig/"), strings.HasPrefix(n, "spki/"), strings.HasPrefix(n, "aa/"):
			return 0
		case strings.HasPrefix(n, "session/"):
			return 1
		case strings.HasPrefix(n, "cbor/"):
			return 2
		case strings.HasPrefix(n, "refpki/"):
			return 3
		}
		return 4
	}
	sort.SliceStable(co.seeds, func(i, j int) bool { return rank(co.seeds[i].Name) < rank(co.seeds[j].Name) })
	return co, nil
}
