package c12

import (
	"fmt"
	"strings"

	"verif/internal/refcrypto"
)

// lying length forms, in ascending order of the claimed length (the escalation order)
type lenForm struct {
	raw   []byte
	claim uint64 // claimed content length; 0 for forms that are not a length at all
	name  string
}

var lenForms = []lenForm{
	{[]byte{0x7F}, 127, "7F"},
	{[]byte{0x81, 0xFF}, 255, "81FF"},
	{[]byte{0x82, 0xFF, 0xFF}, 65535, "82FFFF"},
	{[]byte{0x83, 0x10, 0x00, 0x00}, 1 << 20, "83100000"},
	{[]byte{0x84, 0x00, 0x10, 0x00, 0x00}, 1 << 20, "8400100000"},
	{[]byte{0x83, 0xFF, 0xFF, 0xFF}, 1<<24 - 1, "83FFFFFF"},
	{[]byte{0x84, 0x01, 0x00, 0x00, 0x00}, 1 << 24, "8401000000"},
	{[]byte{0x84, 0x10, 0x00, 0x00, 0x00}, 1 << 28, "8410000000"},
	{[]byte{0x84, 0x3F, 0xFF, 0xFF, 0xFF}, 1<<30 - 1, "843FFFFFFF"},
	{[]byte{0x84, 0x40, 0x00, 0x00, 0x00}, 1 << 30, "8440000000"},
	{[]byte{0x84, 0x7F, 0xFF, 0xFF, 0xFF}, 1<<31 - 1, "847FFFFFFF"},
	{[]byte{0x84, 0x80, 0x00, 0x00, 0x00}, 1 << 31, "8480000000"},
	{[]byte{0x84, 0xFF, 0xFF, 0xFF, 0xFF}, 1<<32 - 1, "84FFFFFFFF"},
	// two length octets missing: the decoder takes them from what follows, i.e. a claim of about 4 GiB
	{[]byte{0x84, 0xFF}, 1<<32 - 1, "84FF(truncated)"},
	// not lengths at all (rejected forms): harmless at any point of the escalation
	{[]byte{0x85, 0x01, 0x00, 0x00, 0x00, 0x00}, 0, "850100000000"},
	{[]byte{0x88, 0x7F, 0xFF, 0xFF, 0xFF, 0xFF, 0xFF, 0xFF, 0xFF}, 0, "887FFFFFFFFFFFFFFF"},
	{[]byte{0xFF}, 0, "FF"},
}

// lying sends one pattern with every length form, smallest claim first; claims of 2^28 and more are marked on disk first,
// and the escalation stops at the first violation of this entry point.
func (r *runner) lying(sec string, ep *EP, class string, build func(f lenForm) []byte) {
	for _, f := range lenForms {
		if f.claim >= 1<<28 {
			if r.stopAt[ep.Name] {
				if !r.stopAt["noted|"+sec+ep.Name] {
					r.stopAt["noted|"+sec+ep.Name] = true
					r.c.SecNotExhaustive(sec, "claims of 2^28 and more are not sent to "+ep.Name+" after its allocation violation on a smaller claim")
				}
				continue
			}
		}
		in := build(f)
		if f.claim >= 1<<28 {
			r.markRisky(ep, in, class)
		}
		_, bad := r.doClass(sec, ep, in, class+":"+f.name)
		if bad && f.claim >= 1<<20 {
			r.stopAt[ep.Name] = true
		}
	}
}

var oidShapes = []struct {
	name string
	b    []byte
}{
	{"empty", []byte{}},
	{"80", []byte{0x80}},
	{"8080", []byte{0x80, 0x80}},
	{"8001", []byte{0x80, 0x01}},
	{"FF", []byte{0xFF}},
	{"2A86-ends-with-continuation", []byte{0x2A, 0x86}},
	{"2A8001-padded-arc", []byte{0x2A, 0x80, 0x01}},
	{"FFFFFFFFFF7F", []byte{0xFF, 0xFF, 0xFF, 0xFF, 0xFF, 0x7F}},
	{"arc>64bit", []byte{0x2A, 0xFF, 0xFF, 0xFF, 0xFF, 0xFF, 0xFF, 0xFF, 0xFF, 0xFF, 0xFF, 0x7F}},
	{"first-arc>int32", []byte{0x8F, 0xFF, 0xFF, 0xFF, 0x7F}},
	{"arc=2^31", []byte{0x2A, 0x88, 0x80, 0x80, 0x80, 0x00}},
	{"valid-1-byte", []byte{0x2A}},
	{"valid-127-bytes", append([]byte{0x2A}, make([]byte, 126)...)},
	{"valid-128-bytes", append([]byte{0x2A}, make([]byte, 127)...)},
	{"valid-300-bytes", append([]byte{0x2A}, make([]byte, 299)...)},
}

// primitive value shapes by universal tag (structure-aware replacement of a value, ancestors re-lengthed)
func valueShapes(tag byte, old []byte) [][]byte {
	switch tag {
	case 0x02, 0x0A: // INTEGER, ENUMERATED
		return [][]byte{{}, {0x00}, {0x01}, {0xFF}, {0x80}, {0x7F, 0xFF, 0xFF, 0xFF, 0xFF, 0xFF, 0xFF, 0xFF}, {0x80, 0, 0, 0, 0, 0, 0, 0}, {0x00, 0xFF, 0xFF, 0xFF, 0xFF, 0xFF, 0xFF, 0xFF, 0xFF},
			{0x00, 0x00, 0x01}, {0xFF, 0xFF}, bytesOf(0x7F, 1024), append([]byte{0x00}, old...), {0x7F, 0xFF, 0xFF, 0xFF}, {0x00, 0x80, 0x00, 0x00, 0x00}}
	case 0x03: // BIT STRING
		out := [][]byte{{}, {0x00}, {0x07}, {0x08, 0x00}, {0xFF, 0xFF}, {0x07, 0x80}, {0x00, 0x04}, {0x00, 0x04, 0x01}}
		if len(old) > 1 {
			out = append(out, append([]byte{0x07}, old[1:]...), old[1:], old[:len(old)-1], append([]byte{0x00, 0x02}, old[2:]...), append([]byte{0x00, 0x03}, old[2:]...))
		}
		return out
	case 0x04: // OCTET STRING
		out := [][]byte{{}, {0x00}, bytesOf(0xFF, 64)}
		if len(old) > 1 {
			out = append(out, old[:len(old)-1], append(append([]byte{}, old...), 0x00), old[1:])
		}
		return out
	case 0x01: // BOOLEAN
		return [][]byte{{}, {0x00}, {0x01}, {0xFF}, {0x00, 0x00}}
	case 0x05: // NULL
		return [][]byte{{0x00}, {0x05, 0x00}}
	case 0x17: // UTCTime
		return [][]byte{{}, []byte("Z"), []byte("0000000000Z"), []byte("000000000000Z"), []byte("991332250000Z"), []byte("250230000000Z"), []byte("2501010000Z"), []byte("250101000000+0100"), []byte("250101000000"), []byte("25010100000Z"), []byte("2501010000000Z"), bytesOf(0xFF, 13)}
	case 0x18: // GeneralizedTime
		return [][]byte{{}, []byte("Z"), []byte("00000000000000Z"), []byte("99991332250000Z"), []byte("20250101000000.5Z"), []byte("20250101000000"), []byte("2025010100Z"), []byte("20250101000000+0100"), bytesOf(0xFF, 15)}
	case 0x0C, 0x13, 0x16, 0x14, 0x1E: // strings
		return [][]byte{{}, {0xFF, 0xFE}, {0x00}, bytesOf('A', 300), {0xC3}, {0xD8, 0x00}, []byte("<<<"), []byte("\x00\x00\x00")}
	case 0x06:
		return nil // object identifiers have their own section
	}
	// application / context tags of the LDS (names, dates, numbers, images, key references)
	n := len(old)
	if n > 512 {
		n = 512
	}
	return [][]byte{{}, {0x00}, bytesOf(0xFF, n), bytesOf('<', n), bytesOf('9', n), bytesOf(0x00, n), bytesOf('A', 300)}
}

func nestDefinite(tag byte, depth int, leaf []byte) []byte {
	// sizes from the inside out, then one pass of writing
	sizes := make([]int, depth+1)
	sizes[0] = len(leaf)
	for i := 1; i <= depth; i++ {
		sizes[i] = 1 + len(berLen(sizes[i-1])) + sizes[i-1]
	}
	out := make([]byte, 0, sizes[depth])
	for i := depth; i >= 1; i-- {
		out = append(out, tag)
		out = append(out, berLen(sizes[i-1])...)
	}
	return append(out, leaf...)
}

// nest builds depth levels of a constructed tag around leaf. form: 0 definite, 1 indefinite, 2 even levels indefinite, 3 odd levels indefinite,
// 4 indefinite without any end-of-contents.
func nest(tag byte, depth, form int, leaf []byte) []byte {
	if form == 0 {
		return nestDefinite(tag, depth, leaf)
	}
	if form == 1 || form == 4 {
		out := make([]byte, 0, 4*depth+len(leaf))
		for i := 0; i < depth; i++ {
			out = append(out, tag, 0x80)
		}
		out = append(out, leaf...)
		if form == 1 {
			out = append(out, make([]byte, 2*depth)...)
		}
		return out
	}
	x := append([]byte{}, leaf...)
	for i := 0; i < depth; i++ {
		if (i%2 == 0) == (form == 2) {
			x = append(append([]byte{tag, 0x80}, x...), 0, 0)
		} else {
			x = append(append([]byte{tag}, berLen(len(x))...), x...)
		}
	}
	return x
}

var outerTagOf = map[string]byte{
	"document.NewDG1": 0x61, "document.NewDG2": 0x75, "document.NewDG7": 0x67, "document.NewDG11": 0x6B, "document.NewDG12": 0x6C, "document.NewDG13": 0x6D,
	"document.NewDG14": 0x6E, "document.NewDG15": 0x6F, "document.NewDG16": 0x70, "document.NewCOM": 0x60, "document.NewSOD": 0x77,
	"document.NewCardAccess": 0x31, "document.NewCardSecurity": 0x30, "document.NewEFDIR": 0x61, "document.DecodeSecurityInfos": 0x31,
	"tlv.Decode+String": 0x30, "tlv.DecodeEncode": 0x30, "tlv.Unwrap": 0x30, "tlv.UnwrapTag": 0x77, "tlv.Decode": 0x30, "document.Document.NewDG": 0x6E,
	"cms.ParseSignedData": 0x30, "cms.ParseCertificates": 0x30, "cms.Asn1decodeSubjectPublicKeyInfo": 0x30, "cms.ParseRDNSequence": 0x30,
}

var grammarEPs = []string{"tlv.Decode+String", "tlv.DecodeEncode", "tlv.Unwrap", "tlv.UnwrapTag",
	"document.NewDG1", "document.NewDG2", "document.NewDG7", "document.NewDG11", "document.NewDG12", "document.NewDG13", "document.NewDG14",
	"document.NewDG15", "document.NewDG16", "document.NewCOM", "document.NewSOD", "document.NewCardAccess", "document.NewCardSecurity", "document.NewEFDIR",
	"document.Document.NewDG", "document.DecodeSecurityInfos", "cms.ParseSignedData", "cms.ParseCertificates", "cms.Asn1decodeSubjectPublicKeyInfo", "cms.ParseRDNSequence",
	"iso7816.SM.Decode/3DES", "iso7816.SM.Decode/AES128"}

// forEP adapts a TLV input to an entry point: own outer tag for the file constructors, status word for SM responses.
func forEP(en string, body func(outer byte) []byte) []byte {
	if strings.HasPrefix(en, "iso7816.SM.Decode") {
		return append(body(0x87), 0x90, 0x00)
	}
	return body(outerTagOf[en])
}

func (r *runner) sectionGrammar(co *corpusT) {
	c := r.c
	r.grammarNesting()
	r.grammarSiblings()
	r.grammarTemplate()
	r.grammarSeeds(co)
	r.grammarSM()
	r.grammarCBOR(co)
	_ = c
}

// ---- 3a nesting ----
func (r *runner) grammarNesting() {
	c := r.c
	sec := "3a nesting"
	leaves := []struct {
		n string
		b []byte
	}{{"octet", []byte{0x04, 0x01, 0xAA}}, {"bad-oid", []byte{0x06, 0x01, 0x80}}, {"empty", nil}}
	deep := []int{61, 64, 100, 127, 128, 129, 255, 256, 257, 1000, 4000, 16000}
	if c.Thorough() {
		deep = append(deep, 2000, 8000, 12000, 16300)
	}
	c.SecBound(sec, fmt.Sprintf("every depth 1..60 and the ladder %v (inputs <= 64 KiB) x {definite, indefinite, even levels indefinite, odd levels indefinite, indefinite without end-of-contents} x inner tag {30, A1} under the entry point's own outer tag x leaf {04 01 AA, 06 01 80, none} at %d entry points", deep, len(grammarEPs)))
	for _, en := range grammarEPs {
		ep := mustEP(en)
		for d := 1; d <= 60+len(deep); d++ {
			if !c.Mine() {
				continue
			}
			if c.Expired() {
				c.SecNotExhaustive(sec, "deadline")
				return
			}
			depth := d
			if d > 60 {
				depth = deep[d-61]
			}
			for form := 0; form <= 4; form++ {
				for _, inner := range []byte{0x30, 0xA1} {
					for _, lf := range leaves {
						if depth > 60 && (inner != 0x30 || lf.n == "bad-oid") {
							continue
						}
						in := forEP(en, func(outer byte) []byte {
							b := nest(inner, depth, form, lf.b)
							if outer != 0 && len(b) > 0 {
								b = append([]byte{}, b...)
								b[0] = outer
							}
							return b
						})
						if len(in) > 64<<10+8 {
							continue
						}
						cl := fmt.Sprintf("nesting:form%d", form)
						if depth > 60 {
							r.markRisky(ep, in, cl)
							cl = fmt.Sprintf("deep-nesting:form%d", form)
						}
						r.doClass(sec, ep, in, cl)
					}
				}
			}
		}
	}
}

// ---- 3b sibling counts ----
func (r *runner) grammarSiblings() {
	c := r.c
	sec := "3b sibling counts"
	var counts []int
	if c.Thorough() {
		for n := 1; n <= 10050; n++ {
			counts = append(counts, n)
		}
	} else {
		for n := 1; n <= 64; n++ {
			counts = append(counts, n)
		}
		counts = append(counts, 100, 127, 128, 255, 256, 1000, 2000, 5000, 9000)
		for n := 9990; n <= 10010; n++ {
			counts = append(counts, n)
		}
		counts = append(counts, 10049, 10050)
	}
	elems := [][]byte{{0x04, 0x00}, {0x30, 0x00}, {0x5F, 0x0E, 0x01, 0x41}, {0x06, 0x01, 0x2A}}
	bound := "counts 1..10050 (every count)"
	if c.Quick() {
		bound = "counts 1..64, 100, 127, 128, 255, 256, 1000, 2000, 5000, 9000, 9990..10010, 10049, 10050"
	}
	c.SecBound(sec, bound+" of the elements {04 00, 30 00, 5F0E 01 41, 06 01 2A}, flat and inside the entry point's own outer tag, at tlv.Decode+String and tlv.DecodeEncode; the ladder {1,2,16,100,1000,9999,10000,10001,10050} at every other TLV based entry point; EF.COM tag lists and DG11/DG12 tag lists of the same counts; DG11/DG12: every tag of the file's vocabulary listed n times x n matching data objects (also 1 x n, n x 1, wrapped in A0) for n in {2,16,100,300,1000,4000,12000} (as far as the file stays below 60 000 bytes)")
	ladder := []int{1, 2, 16, 100, 1000, 9999, 10000, 10001, 10050}
	for _, en := range grammarEPs {
		ep := mustEP(en)
		cs := ladder
		if en == "tlv.Decode+String" || en == "tlv.DecodeEncode" {
			cs = counts
		}
		for _, n := range cs {
			if !c.Mine() {
				continue
			}
			if c.Expired() {
				c.SecNotExhaustive(sec, "deadline")
				return
			}
			for ei, el := range elems {
				body := make([]byte, 0, n*len(el))
				for i := 0; i < n; i++ {
					body = append(body, el...)
				}
				for _, wrap := range []bool{false, true} {
					in := forEP(en, func(outer byte) []byte {
						if !wrap {
							return body
						}
						return append(append([]byte{outer}, berLen(len(body))...), body...)
					})
					r.doClass(sec, ep, in, fmt.Sprintf("siblings:elem%d", ei))
				}
			}
		}
	}
	// tag lists (ParseTags) inside EF.COM / DG11 / DG12
	for _, t := range []struct {
		en    string
		outer byte
		pre   []byte
	}{
		{"document.NewCOM", 0x60, []byte{0x5F, 0x01, 0x04, '0', '1', '0', '7', 0x5F, 0x36, 0x06, '0', '4', '0', '0', '0', '0'}},
		{"document.NewDG11", 0x6B, nil}, {"document.NewDG12", 0x6C, nil},
	} {
		ep := mustEP(t.en)
		for _, n := range ladder {
			if !c.Mine() {
				continue
			}
			for _, tg := range [][]byte{{0x61}, {0x5F, 0x0E}, {0x5F, 0x81, 0x81, 0x01}, {0x1F}} {
				var list []byte
				for i := 0; i < n; i++ {
					list = append(list, tg...)
				}
				body := append(append([]byte{}, t.pre...), append(append([]byte{0x5C}, berLen(len(list))...), list...)...)
				in := append(append([]byte{t.outer}, berLen(len(body))...), body...)
				r.doClass(sec, ep, in, "siblings:tag-list")
			}
		}
	}
	// tag lists that name the SAME tag n times together with n matching data objects (two factors: a list entry
	// handler that reads "every occurrence" of its data object is run once per list entry)
	for _, t := range []struct {
		en    string
		outer byte
		tags  [][]byte
	}{
		{"document.NewDG11", 0x6B, [][]byte{{0x5F, 0x0E}, {0x5F, 0x0F}, {0x5F, 0x10}, {0x5F, 0x11}, {0x5F, 0x12}, {0x5F, 0x13}, {0x5F, 0x14}, {0x5F, 0x15}, {0x5F, 0x16}, {0x5F, 0x17}, {0x5F, 0x18}, {0x5F, 0x2B}, {0xA0}}},
		{"document.NewDG12", 0x6C, [][]byte{{0x5F, 0x19}, {0x5F, 0x1A}, {0x5F, 0x1B}, {0x5F, 0x1C}, {0x5F, 0x1D}, {0x5F, 0x1E}, {0x5F, 0x26}, {0x5F, 0x55}, {0x5F, 0x56}, {0xA0}}},
	} {
		ep := mustEP(t.en)
		for _, n := range []int{2, 16, 100, 300, 1000, 4000, 12000} {
			if !c.Mine() {
				continue
			}
			for _, tg := range t.tags {
				for _, val := range [][]byte{{'A'}, []byte("20200101")} {
					for _, shape := range []string{"n-entries-n-objects", "1-entry-n-objects", "n-entries-1-object", "n-entries-wrapped-in-A0", "n-entries-99-objects-in-A0"} {
						ln, on := n, n
						switch shape {
						case "1-entry-n-objects":
							ln = 1
						case "n-entries-1-object":
							on = 1
						case "n-entries-99-objects-in-A0":
							on = 99
						}
						var list, objs []byte
						for i := 0; i < ln; i++ {
							list = append(list, tg...)
						}
						obj := append(append(append([]byte{}, tg...), berLen(len(val))...), val...)
						if tg[0] == 0xA0 {
							obj = []byte{0xA0, 0x07, 0x02, 0x01, 0x01, 0x5F, 0x0F, 0x01, 'A'}
						}
						for i := 0; i < on; i++ {
							objs = append(objs, obj...)
						}
						if shape == "n-entries-wrapped-in-A0" || shape == "n-entries-99-objects-in-A0" {
							cnt := byte(min(on, 99))
							inner := append([]byte{0x02, 0x01, cnt}, objs...)
							objs = append(append([]byte{0xA0}, berLen(len(inner))...), inner...)
						}
						body := append(append(append([]byte{0x5C}, berLen(len(list))...), list...), objs...)
						in := append(append([]byte{t.outer}, berLen(len(body))...), body...)
						if len(in) > 60000 {
							continue
						}
						r.doClass(sec, ep, in, "siblings:repeated-tag-list-entry-x-objects/"+shape)
					}
				}
			}
		}
	}
	// tlv.ParseTags directly
	epT := mustEP("tlv.ParseTags")
	for _, n := range ladder {
		if !c.Mine() {
			continue
		}
		for _, tg := range [][]byte{{0x61}, {0x5F, 0x0E}, {0x5F, 0x81, 0x81, 0x01}, {0x1F, 0x81}, {0x00}} {
			var list []byte
			for i := 0; i < n*6; i++ {
				list = append(list, tg...)
			}
			r.doClass(sec, epT, list, "siblings:tag-list")
		}
	}
}

// ---- 3c/d/e on a small template: every length form, indefinite marker and end-of-contents at every node ----
func (r *runner) grammarTemplate() {
	c := r.c
	sec := "3c template: lying lengths / indefinite / end-of-contents"
	// X { 31 { 04 AA, 30 { 02 01 01 } }, A0 { 06 2A }, 04 BBBB }
	tpl := func(outer byte) []byte {
		return []byte{outer, 0x13, 0x31, 0x08, 0x04, 0x01, 0xAA, 0x30, 0x03, 0x02, 0x01, 0x01, 0xA0, 0x03, 0x06, 0x01, 0x2A, 0x04, 0x02, 0xBB, 0xBB}
	}
	c.SecBound(sec, fmt.Sprintf("template X{31{04 AA,30{02 01 01}},A0{06 2A},04 BBBB} under each entry point's outer tag: each of its 8 length fields x %d lying length forms (ancestors consistent with the actual bytes; also with the input cut right after the lying header), each node x indefinite marker with/without end-of-contents, end-of-contents inserted at each of the 22 byte offsets, at %d entry points", len(lenForms), len(grammarEPs)))
	for _, en := range grammarEPs {
		ep := mustEP(en)
		outer := outerTagOf[en]
		if strings.HasPrefix(en, "iso7816.SM") {
			outer = 0x30
		}
		base := tpl(outer)
		finish := func(b []byte) []byte {
			if strings.HasPrefix(en, "iso7816.SM") {
				return append(b, 0x90, 0x00)
			}
			return b
		}
		ts, ok := derSeed(base)
		if !ok {
			c.HarnessError("template does not round-trip")
			return
		}
		var nodes []*bnode
		walk(ts, func(n *bnode, d int) { nodes = append(nodes, n) })
		for ni, n := range nodes {
			if !c.Mine() {
				continue
			}
			if c.Expired() {
				c.SecNotExhaustive(sec, "deadline")
				return
			}
			n := n
			r.lying(sec, ep, fmt.Sprintf("claimed-length:template-node%d", ni), func(f lenForm) []byte {
				n.rawLen = f.raw
				b := finish(encNodes(ts))
				n.rawLen = nil
				return b
			})
			r.lying(sec, ep, fmt.Sprintf("claimed-length:template-node%d-cut", ni), func(f lenForm) []byte {
				// raw splice: header with the lying length, nothing after it
				b := append(append([]byte{}, base[:n.lenOff]...), f.raw...)
				return finish(b)
			})
			for _, eoc := range []bool{true, false} {
				n.rawLen, n.eoc = []byte{0x80}, eoc
				r.doClass(sec, ep, finish(encNodes(ts)), fmt.Sprintf("indefinite-marker:eoc=%v", eoc))
				n.rawLen, n.eoc = nil, false
			}
		}
		if c.Mine() {
			for p := 0; p <= len(base); p++ {
				b := append(append(append([]byte{}, base[:p]...), 0, 0), base[p:]...)
				r.doClass(sec, ep, finish(b), "end-of-contents:raw-insert")
			}
		}
	}
}

// ---- 3c/d/e/f on every genuine DER seed ----
func (r *runner) grammarSeeds(co *corpusT) {
	c := r.c
	secL := "3c seeds: lying length at every node"
	secI := "3d seeds: indefinite marker at every node"
	secE := "3e seeds: end-of-contents at every position"
	secO := "3f seeds: malformed OID in every OID slot / injected into every constructed node"
	secS := "3i seeds: typed value shapes and structural edits"
	nSeeds, nNodes, nOids, nCons, nShapes := 0, 0, 0, 0, 0
	for _, s := range co.seeds {
		if !(strings.HasPrefix(s.Name, "reflds/") || strings.HasPrefix(s.Name, "refpki/") || strings.HasPrefix(s.Name, "session/")) || strings.HasSuffix(s.Name, "/bundle") || strings.HasSuffix(s.Name, "envelope") || strings.HasSuffix(s.Name, "signature") {
			continue
		}
		ts, ok := derSeed(s.B)
		if !ok {
			continue // indefinite-length variants: covered by the byte-level sweep only
		}
		nSeeds++
		var targets []*EP
		for _, en := range s.EPs {
			targets = append(targets, mustEP(en))
		}
		var pipes, oidPipes []*EP
		for _, en := range s.Pipe {
			oidPipes = append(oidPipes, mustEP(en))
			if strings.HasPrefix(en, "mobile.") {
				continue // 3 ms per call: only the OID cases go through the mobile facade
			}
			pipes = append(pipes, mustEP(en))
		}
		var nodes []*bnode
		walk(ts, func(n *bnode, d int) { nodes = append(nodes, n) })
		nNodes += len(nodes)
		small := len(s.B) <= 700 || c.Thorough()
		cl := func(kind string) string { return kind + ":" + s.Name }
		for _, n := range nodes {
			if !c.Mine() {
				continue
			}
			if c.Expired() {
				c.SecNotExhaustive(secL, "deadline at seed "+s.Name)
				return
			}
			n := n
			all := targets
			if small {
				all = append(append([]*EP{}, targets...), pipes...)
			}
			for _, ep := range all {
				r.lying(secL, ep, cl("claimed-length"), func(f lenForm) []byte {
					n.rawLen = f.raw
					b := encNodes(ts)
					n.rawLen = nil
					return b
				})
				for _, eoc := range []bool{true, false} {
					n.rawLen, n.eoc = []byte{0x80}, eoc
					r.doClass(secI, ep, encNodes(ts), cl(fmt.Sprintf("indefinite-marker(eoc=%v)", eoc)))
					n.rawLen, n.eoc = nil, false
				}
				// non-minimal but truthful length forms at this node
				for k := 1; k <= 4; k++ {
					ln := n.clenNow()
					raw := []byte{byte(0x80 | k)}
					for i := k - 1; i >= 0; i-- {
						raw = append(raw, byte(ln>>(8*i)))
					}
					n.rawLen = raw
					r.doClass(secI, ep, encNodes(ts), cl("non-minimal-length"))
					n.rawLen = nil
				}
			}
			// malformed OIDs
			isOID := len(n.tag) == 1 && n.tag[0] == 0x06 && !n.cons
			if isOID {
				nOids++
				old := n.val
				for _, sh := range oidShapes {
					n.val = sh.b
					in := encNodes(ts)
					for _, ep := range append(append([]*EP{}, targets...), oidPipes...) {
						r.doClass(secO, ep, in, cl("oid-slot")+":"+sh.name)
					}
				}
				n.val = old
			}
			// typed value shapes
			if !n.cons && n.wrap == 0 {
				if shapes := valueShapes(n.tag[len(n.tag)-1]|byte(0xC0*min(1, len(n.tag)-1)), n.val); shapes != nil {
					old := n.val
					for _, sh := range shapes {
						n.val = sh
						in := encNodes(ts)
						for _, ep := range all {
							r.doClass(secS, ep, in, cl(fmt.Sprintf("value-shape(tag%02x)", n.tag[0])))
						}
						nShapes++
					}
					n.val = old
				}
			}
			if n.cons || n.wrap != 0 {
				// structural edits: children removed, each child deleted, each child duplicated, adjacent children swapped
				kids0 := n.kids
				edit := func(nk []*bnode, what string) {
					n.kids = nk
					in := encNodes(ts)
					n.kids = kids0
					for _, ep := range all {
						r.doClass(secS, ep, in, cl("structure("+what+")"))
					}
					nShapes++
				}
				edit(nil, "emptied")
				for i := range kids0 {
					edit(append(append([]*bnode{}, kids0[:i]...), kids0[i+1:]...), "child-deleted")
					edit(append(append(append([]*bnode{}, kids0[:i+1]...), kids0[i]), kids0[i+1:]...), "child-duplicated")
					if i+1 < len(kids0) {
						sw := append([]*bnode{}, kids0...)
						sw[i], sw[i+1] = sw[i+1], sw[i]
						edit(sw, "children-swapped")
					}
				}
			}
			if n.cons || n.wrap != 0 {
				nCons++
				kids := n.kids
				for _, sh := range oidShapes {
					inj := &bnode{raw: append(append([]byte{0x06}, berLen(len(sh.b))...), sh.b...)}
					for _, at := range []int{0, len(kids)} {
						nk := append(append(append([]*bnode{}, kids[:at]...), inj), kids[at:]...)
						n.kids = nk
						in := encNodes(ts)
						n.kids = kids
						oall := all
						if small {
							oall = append(append([]*EP{}, targets...), oidPipes...)
						}
						for _, ep := range oall {
							r.doClass(secO, ep, in, cl("oid-injected")+":"+sh.name)
						}
					}
				}
				// end-of-contents as an element at every child index (ancestor lengths consistent)
				eocN := &bnode{raw: []byte{0, 0}}
				for at := 0; at <= len(kids); at++ {
					nk := append(append(append([]*bnode{}, kids[:at]...), eocN), kids[at:]...)
					n.kids = nk
					in := encNodes(ts)
					n.kids = kids
					for _, ep := range all {
						r.doClass(secE, ep, in, cl("end-of-contents(element)"))
					}
				}
			}
		}
		// end-of-contents inserted at every byte offset (raw, lengths untouched)
		ps, _ := positions(len(s.B)+1, map[bool]int{true: 0, false: 2048}[c.Thorough()])
		for _, p := range ps {
			if !c.Mine() {
				continue
			}
			in := append(append(append([]byte{}, s.B[:p]...), 0, 0), s.B[p:]...)
			for _, ep := range targets {
				r.doClass(secE, ep, in, cl("end-of-contents(raw)"))
			}
		}
	}
	c.SecBound(secL, fmt.Sprintf("%d DER seeds, %d TLV nodes (also inside OCTET/BIT STRING wrappers): each node's length field x %d lying forms with consistent ancestors, smallest claim first", nSeeds, nNodes, len(lenForms)))
	c.SecBound(secI, "same nodes: length replaced by 80 with and without end-of-contents (primitive nodes too), and by each truthful non-minimal form 81..84")
	c.SecBound(secE, "00 00 as an element at every child index of every constructed node (lengths consistent) and inserted raw at every byte offset")
	c.SecBound(secS, "every primitive node of the same seeds replaced by each extreme value of its type (INTEGER: empty, 0, 1, -1, -128, max/min int64, 2^64-1, non-minimal, 2^31-1, 2^31, 1024 bytes; BIT STRING: empty, unused-bits 7/8/FF, shortened, format byte changed; OCTET STRING; BOOLEAN; NULL; UTCTime / GeneralizedTime: 12 resp. 9 malformed or impossible dates; strings: empty, invalid UTF-8 / UTF-16, 300 characters); every constructed node emptied, each child deleted, duplicated, swapped with its neighbour; ancestors re-lengthed; fed to the constructor, String() and the onward pipelines")
	_ = nShapes
	c.SecBound(secO, fmt.Sprintf("%d OID slots x %d malformed/extreme OID shapes; the same shapes injected as first and last child of each of %d constructed nodes; fed to the file constructor, tlv String() and the onward pipelines", nOids, len(oidShapes), nCons))
}

func (n *bnode) clenNow() int {
	switch {
	case n.cons || n.wrap == 1:
		return len(encNodes(n.kids))
	case n.wrap == 2:
		return 1 + len(encNodes(n.kids))
	}
	return len(n.val)
}

// ---- 3g secure messaging: responses with a genuine MAC over malformed data objects ----
func (r *runner) grammarSM() {
	c := r.c
	sec := "3g secure messaging: authenticated malformed responses"
	type algT struct {
		n   string
		alg refcrypto.Alg
	}
	algs := []algT{{"3DES", refcrypto.TDES}, {"AES128", refcrypto.AES128}, {"AES256", refcrypto.AES256}}
	do := func(tag byte, v []byte) []byte { return append(append([]byte{tag}, berLen(len(v))...), v...) }
	n := 0
	for _, a := range algs {
		ep := mustEP("iso7816.SM.Decode/" + a.n)
		bs := a.alg.Block()
		blk := make([]byte, bs)
		for i := range blk {
			blk[i] = byte(0x10 + i)
		}
		encs := [][]byte{nil, {}, {0x01}, {0x00}, {0x02}, append([]byte{0x01}, blk...), append([]byte{0x01}, blk[:bs-1]...), append([]byte{0x01}, append(blk, 0x00)...),
			append([]byte{0x02}, blk...), append([]byte{0x01}, make([]byte, 3*bs)...)}
		// a ciphertext whose plaintext has no padding marker / only padding
		enc, _ := refKeys(a.alg)
		for _, pt := range [][]byte{make([]byte, bs), append([]byte{0x80}, make([]byte, bs-1)...), bytesOf(0xFF, bs)} {
			encs = append(encs, append([]byte{0x01}, refcrypto.CBCEncrypt(a.alg, enc, smIV(a.alg), pt)...))
		}
		st := [][]byte{nil, {}, {0x90}, {0x90, 0x00}, {0x90, 0x00, 0x00}, {0x62, 0x82}}
		for _, tag := range []byte{0x87, 0x85} {
			for _, e := range encs {
				for _, s := range st {
					for _, extra := range [][]byte{nil, do(0x99, []byte{0x90, 0x00}), do(0x8E, make([]byte, 8)), {0x30, 0x80, 0x00, 0x00}, do(0x97, []byte{0})} {
						if !c.Mine() {
							continue
						}
						var dos []byte
						if e != nil {
							dos = append(dos, do(tag, e)...)
						}
						if s != nil {
							dos = append(dos, do(0x99, s)...)
						}
						dos = append(dos, extra...)
						for _, sw := range []uint16{0x9000, 0x6282} {
							r.doClass(sec, ep, smAuthentic(a.alg, dos, sw), "sm-authentic-malformed")
							n++
						}
					}
				}
			}
		}
		// MAC object of every length 0..17 (not authentic)
		if c.Mine() {
			for l := 0; l <= 17; l++ {
				in := append(append(do(0x99, []byte{0x90, 0x00}), do(0x8E, make([]byte, l))...), 0x90, 0x00)
				r.doClass(sec, ep, in, "sm-mac-length")
			}
		}
	}
	c.SecBound(sec, "for 3DES/AES-128/AES-256: {DO87, DO85} x 13 value shapes (absent, empty, wrong indicator, partial block, block+1, plaintext without padding marker ...) x DO99 of length {absent,0,1,2,3} x trailing extras {none, second DO99, second DO8E, indefinite constructed, DO97}, each with a GENUINE MAC so that decoding proceeds past the MAC check; DO8E of every length 0..17")
}

func refKeys(alg refcrypto.Alg) (enc, mac []byte) {
	k := smKeys[map[refcrypto.Alg]string{refcrypto.TDES: "iso7816.SM.Decode/3DES", refcrypto.AES128: "iso7816.SM.Decode/AES128", refcrypto.AES256: "iso7816.SM.Decode/AES256"}[alg]]
	return k[0], k[1]
}

func smIV(alg refcrypto.Alg) []byte {
	if alg == refcrypto.TDES {
		return make([]byte, 8)
	}
	enc, _ := refKeys(alg)
	ssc := smSSC(alg)
	// counter + 1
	for i := len(ssc) - 1; i >= 0; i-- {
		ssc[i]++
		if ssc[i] != 0 {
			break
		}
	}
	return refcrypto.ECBEncryptBlock(alg, enc, ssc)
}

func bytesOf(v byte, n int) []byte {
	b := make([]byte, n)
	for i := range b {
		b[i] = v
	}
	return b
}
