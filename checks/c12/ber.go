package c12

// A small BER tree used only to BUILD inputs (structure-aware mutation of genuine files). It keeps the
// position of every header in the original bytes, can look inside OCTET STRING / BIT STRING wrappers that
// hold DER (eContent, SubjectPublicKeyInfo, extension values), and re-encodes with consistent ancestor
// lengths after a node was changed. It is not an oracle.

type bnode struct {
	tag  []byte
	cons bool
	val  []byte   // primitive content (for a wrapper: ignored on encode, kids are used)
	kids []*bnode // children of a constructed node, or of a wrapper
	wrap int      // 0 none, 1 OCTET STRING holding TLVs, 2 BIT STRING (00 + TLVs)
	// position in the source
	off, hlen, clen int
	lenOff, lenLen  int
	// encode overrides
	rawLen []byte // length octets written verbatim (lying / non-minimal / indefinite)
	eoc    bool   // append 00 00 after the content
	raw    []byte // whole TLV written verbatim (injected element)
}

func parseBER(b []byte) ([]*bnode, bool) { return parseBERat(b, 0, 0) }

func parseBERat(b []byte, base, depth int) ([]*bnode, bool) {
	if depth > 40 {
		return nil, false
	}
	var out []*bnode
	p := 0
	for p < len(b) {
		n := &bnode{off: base + p}
		q := p
		n.cons = b[q]&0x20 != 0
		first := b[q]
		q++
		if first&0x1F == 0x1F {
			for {
				if q >= len(b) || q-p > 3 {
					return nil, false
				}
				x := b[q]
				q++
				if x&0x80 == 0 {
					break
				}
			}
		}
		n.tag = append([]byte{}, b[p:q]...)
		if q >= len(b) {
			return nil, false
		}
		n.lenOff = base + q
		l := int(b[q])
		q++
		if l&0x80 != 0 {
			k := l & 0x7F
			if k == 0 || k > 3 || q+k > len(b) {
				return nil, false
			}
			l = 0
			for i := 0; i < k; i++ {
				l = l<<8 | int(b[q+i])
			}
			q += k
		}
		n.lenLen = base + q - n.lenOff
		n.hlen = q - p
		n.clen = l
		if q+l > len(b) {
			return nil, false
		}
		content := b[q : q+l]
		if n.cons {
			kids, ok := parseBERat(content, base+q, depth+1)
			if !ok {
				return nil, false
			}
			n.kids = kids
		} else {
			n.val = append([]byte{}, content...)
			if len(n.tag) == 1 && n.tag[0] == 0x04 && l >= 2 && (content[0] == 0x30 || content[0] == 0x31) {
				if kids, ok := parseBERat(content, base+q, depth+1); ok {
					n.kids, n.wrap = kids, 1
				}
			}
			if len(n.tag) == 1 && n.tag[0] == 0x03 && l >= 3 && content[0] == 0 && content[1] == 0x30 {
				if kids, ok := parseBERat(content[1:], base+q+1, depth+1); ok {
					n.kids, n.wrap = kids, 2
				}
			}
		}
		out = append(out, n)
		p = q + l
	}
	return out, true
}

func berLen(n int) []byte {
	switch {
	case n < 0x80:
		return []byte{byte(n)}
	case n < 0x100:
		return []byte{0x81, byte(n)}
	case n < 0x10000:
		return []byte{0x82, byte(n >> 8), byte(n)}
	case n < 0x1000000:
		return []byte{0x83, byte(n >> 16), byte(n >> 8), byte(n)}
	}
	return []byte{0x84, byte(n >> 24), byte(n >> 16), byte(n >> 8), byte(n)}
}

func encNodes(ns []*bnode) []byte {
	var out []byte
	for _, n := range ns {
		out = append(out, n.enc()...)
	}
	return out
}

func (n *bnode) enc() []byte {
	if n.raw != nil {
		return n.raw
	}
	var content []byte
	switch {
	case n.cons || n.wrap == 1:
		content = encNodes(n.kids)
	case n.wrap == 2:
		content = append([]byte{0}, encNodes(n.kids)...)
	default:
		content = n.val
	}
	out := append([]byte{}, n.tag...)
	if n.rawLen != nil {
		out = append(out, n.rawLen...)
	} else {
		out = append(out, berLen(len(content))...)
	}
	out = append(out, content...)
	if n.eoc {
		out = append(out, 0, 0)
	}
	return out
}

// walk visits every node (pre-order), including those inside wrappers.
func walk(ns []*bnode, f func(n *bnode, depth int)) {
	var rec func(ns []*bnode, d int)
	rec = func(ns []*bnode, d int) {
		for _, n := range ns {
			f(n, d)
			rec(n.kids, d+1)
		}
	}
	rec(ns, 0)
}

// derSeed reports whether the seed parses and re-encodes to itself (definite minimal lengths everywhere), which is
// the precondition for the tree based mutations.
func derSeed(b []byte) ([]*bnode, bool) {
	ts, ok := parseBER(b)
	if !ok {
		return nil, false
	}
	e := encNodes(ts)
	if len(e) != len(b) {
		return nil, false
	}
	for i := range e {
		if e[i] != b[i] {
			return nil, false
		}
	}
	return ts, true
}
