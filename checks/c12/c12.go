// Package c12: untrusted bytes never crash, hang or exhaust the process.
//
// Every public entry point of gmrtd that consumes bytes from a chip, a file or a serialised document is
// driven with (1) all short byte strings, (2) every single-byte substitution / truncation / extension of
// genuine seeds, (3) an adversarial grammar (nesting, sibling counts, lying lengths, indefinite markers,
// end-of-contents, malformed OIDs, evidence bundles, documents lacking files, EC range classes).
// Oracle per call: no panic; TotalAlloc delta <= 256 KiB + 4000 x len(input); CPU horizon 20 s.
//
// Files: c12.go (runtime: oracle, violation keys, watchdog, replay), eps.go (entry-point registry; pipeline entry
// points are named "<library path>/<what the input replaces>[<session>]"), ber.go (BER tree used to build
// structure-aware inputs), seeds.go (genuine corpus, PKI profiles, live sessions, CBOR framing), sections.go
// (1a/1b short strings, 2a genuine enumeration, 2 seed sweeps), grammar.go (3a-3i), evidence.go (3h CBOR grammar,
// 4a evidence bundles, 4b missing files, 4c signature / key range classes).
// Debugging aids (never needed for a normal run): C12_ONLY=1,2,3,4 selects sections, C12_STATS=1 prints timings.
package c12

import (
	"encoding/json"
	"fmt"
	"os"
	"path/filepath"
	"runtime"
	"runtime/debug"
	"runtime/metrics"
	"strings"
	"sync"
	"syscall"
	"time"

	"verif/internal/refcrypto"
	"verif/internal/refpki"
	"verif/internal/vc"
)

const (
	allocBase    = 256 << 10 // bytes
	allocPerByte = 4000
	slowBudget   = 20 * time.Second  // per-call horizon for inputs <= 64 KiB
	hangLimit    = 100 * time.Second // a single call still running after this long is reported by the watchdog
	scratchDir   = "/verif/out/c12"
)

func init() {
	vc.Register(&vc.Check{ID: "C12", Level: "exploration", Run: run, Replay: replay, QuickSec: 135, ThoroSec: 1500,
		Rule: "entry points: tlv.Decode/Unwrap/UnwrapTag/DecodeEncode/ParseTag(s)/ParseLength/ParseTagAndLength (+String/Encode of decoded nodes), iso7816.ParseRApdu, SecureMessaging.Decode (3DES, AES), the 14 document.New* constructors and Document.NewDG, NewDocumentFromCbor, UnmarshalVerifiableDoc, NewChipAuthEvidenceFromCbor, cms.ParseSignedData(+Verify)/ParseCertificates(+Verify)/CreateCertPoolFromSignedData/VerifySignature, mrz.MrzDecode, password.NewPasswordMrz, activeauth.ValidateActiveAuthSignature, {activeauth,chipauth,pace}.VerifyEvidence, passiveauth.PassiveAuth, Document.Verify, DocumentEx.Summary, verifier.Verify, mobile.Verifier.Verify. " +
			"Inputs: (1) all byte strings of length <=3 at every raw-bytes entry point, all strings of length <=5 over a 24-symbol structural alphabet at the TLV based ones; (2) for every genuine seed (reflds seeds, refpki-issued SOD/CardSecurity/master list/certificates, CBOR exports with every evidence subset, SM responses, MRZ zones): every position x every byte value, every truncation, every one-byte extension, also fed onward through Document -> PassiveAuth / VerifyEvidence / verifier.Verify; (3) the adversarial grammar enumerated to its stated bound. " +
			"Oracle per call: no panic, TotalAlloc delta <= 256 KiB + 4000 x len(input), 20 s horizon. distinct_nontrivial = distinct (entry point, input class, outcome) plus distinct inputs that produced a value in section 1",
		Assume: []string{
			"the allocation counter is the process-wide /gc/heap/allocs:bytes (= MemStats.TotalAlloc) read around each call in a worker with a single working goroutine; an excess is confirmed with runtime.ReadMemStats (minimum of 3 re-runs) before it is reported",
			"the time horizon is a hang detector only (20 s per call, re-run 3 times; a call still running after 100 s is reported by a watchdog), not a performance assertion; the polynomial-time clause is otherwise not decided",
			"length claims of 2^30 and more are only sent to an entry point after the same pattern with claims 2^20, 2^24 and 2^28 stayed inside the allocation bound",
		}})
}

// ---------------------------------------------------------------------------------------------
// runtime

type caseRec struct {
	EP    string `json:"entry_point"`
	In    string `json:"input_hex"`
	Class string `json:"input_class,omitempty"`
}

type runner struct {
	c         *vc.Ctx
	smp       []metrics.Sample
	mu        sync.Mutex
	curEP     string
	curIn     []byte
	curT0     time.Time
	busy      bool
	hang      chan caseRec
	curFile   string
	stopAt    map[string]bool // ep|class for which the length-claim escalation is stopped
	nCalls    int64
	risky     bool
	nSamples  int
	maxA      map[string]uint64 // largest allocation delta seen per entry point (fast counter)
	maxT      map[string]time.Duration
	confirmed map[string]bool // allocation violation keys already confirmed with the precise counter
	allocHits map[string]int  // confirmed allocation violations per entry point + input class (circuit breaker)
	sumT      map[string]time.Duration
	cnt       map[string]int64
}

var statsOn = os.Getenv("C12_STATS") != ""

func newRunner(c *vc.Ctx) *runner {
	r := &runner{c: c, smp: []metrics.Sample{{Name: "/gc/heap/allocs:bytes"}}, hang: make(chan caseRec, 1), stopAt: map[string]bool{}, maxA: map[string]uint64{}, maxT: map[string]time.Duration{}, confirmed: map[string]bool{}, allocHits: map[string]int{}, sumT: map[string]time.Duration{}, cnt: map[string]int64{}}
	os.MkdirAll(scratchDir, 0o755)
	r.curFile = filepath.Join(scratchDir, fmt.Sprintf("current-%d.txt", c.Shard))
	return r
}

func (r *runner) allocNow() uint64 {
	metrics.Read(r.smp)
	return r.smp[0].Value.Uint64()
}

// allocBound: 256 KiB + 4000 x input length. Entry points that perform public-key operations get a constant
// allowance on top (big-integer arithmetic of a bounded number of signature / key-agreement verifications: measured
// up to 11 MiB for one ECDSA verification on a 512-bit generic curve, independent of the input); entry points whose
// input is a part of, or a recipe for, a larger genuine document count that document's size as input length.
func allocBound(ep *EP, n int) uint64 {
	return uint64(allocBase) + ep.Base + uint64(allocPerByte)*uint64(n+ep.Extra)
}

const cryptoAllowance = 64 << 20

// preciseAlloc re-runs the call three times under runtime.ReadMemStats and returns the smallest delta.
func preciseAlloc(ep *EP, in []byte) uint64 {
	best := ^uint64(0)
	var m runtime.MemStats
	for i := 0; i < 3; i++ {
		runtime.ReadMemStats(&m)
		a := m.TotalAlloc
		vc.Guard(func() { ep.F(in) })
		runtime.ReadMemStats(&m)
		if d := m.TotalAlloc - a; d < best {
			best = d
		}
	}
	return best
}

// topFrame returns the first gmrtd function below the panic in a debug.Stack() dump.
func topFrame(stack string) string { t, _ := frames(stack); return t }

// frames returns the first gmrtd function below the panic (where it was raised, or the library function that called
// into the standard library code that raised it) and the outermost gmrtd function on the stack (the public entry
// point the harness called).
func frames(stack string) (top, entry string) {
	lines := strings.Split(stack, "\n")
	start := 0
	for i, l := range lines {
		if strings.HasPrefix(l, "panic(") {
			start = i + 1
		}
	}
	const pfx = "github.com/gmrtd/gmrtd/"
	top, entry = "no-gmrtd-frame", "no-gmrtd-frame"
	first := true
	for _, l := range lines[start:] {
		if !strings.HasPrefix(l, pfx) {
			continue
		}
		f := l[len(pfx):]
		// strip the argument list (last balanced parenthesis group)
		if strings.HasSuffix(f, ")") {
			depth := 0
			for i := len(f) - 1; i >= 0; i-- {
				if f[i] == ')' {
					depth++
				} else if f[i] == '(' {
					depth--
					if depth == 0 {
						f = f[:i]
						break
					}
				}
			}
		}
		if first {
			top, first = f, false
		}
		entry = f
	}
	return top, entry
}

func short(b []byte) string {
	if len(b) <= 48 {
		return vc.Hex(b)
	}
	return fmt.Sprintf("%s…(%d bytes)", vc.Hex(b[:48]), len(b))
}

// markRisky records the case on disk before a call that could kill the process outright.
func (r *runner) markRisky(ep *EP, in []byte, class string) {
	h := in
	if len(h) > 4096 {
		h = h[:4096]
	}
	os.WriteFile(r.curFile, []byte(fmt.Sprintf("%s\n%s\n%d\n%s\n", ep.Name, class, len(in), vc.Hex(h))), 0o644)
	r.risky = true
}

// do runs one case through the oracle. Returns (value returned, violation found).
func (r *runner) do(sec string, ep *EP, in []byte, class string) (ok, bad bool) {
	r.nCalls++
	r.mu.Lock()
	r.curEP, r.curIn, r.curT0, r.busy = ep.Name, in, time.Now(), true
	t0 := r.curT0
	r.mu.Unlock()
	a0 := r.allocNow()
	pv, stack := vc.Guard(func() { ok = ep.F(in) })
	a1 := r.allocNow()
	dt := time.Since(t0)
	r.mu.Lock()
	r.busy = false
	r.mu.Unlock()
	if r.risky { // the call came back: the marker must not outlive it
		os.Remove(r.curFile)
		r.risky = false
	}
	c := r.c
	if d := a1 - a0; a1 > a0 && d > r.maxA[ep.Name] {
		r.maxA[ep.Name] = d
	}
	if dt > 300*time.Millisecond && os.Getenv("C12_STATS") != "" {
		fmt.Fprintf(os.Stderr, "SLOWCALL %v %s [%s] %s\n", dt, ep.Name, class, short(in))
	}
	r.sumT[ep.Name] += dt
	r.cnt[ep.Name]++
	if statsOn {
		r.sumT["class|"+class+" @ "+ep.Name] += dt
	}
	if dt > r.maxT[ep.Name] {
		r.maxT[ep.Name] = dt
	}
	if s, isStr := pv.(string); isStr && strings.HasPrefix(s, "harness:") {
		c.HarnessError("%s on entry point %s input %s", s, ep.Name, short(in))
		return false, false
	}
	switch {
	case pv != nil:
		fr, entry := frames(stack)
		if entry == "no-gmrtd-frame" {
			entry = ep.Name
		}
		key := "panic/" + entry + "/" + fr
		msg := fmt.Sprint(pv)
		if len(msg) > 160 {
			msg = msg[:160] + "…"
		}
		inc := append([]byte{}, in...)
		c.Violation(sec, key, fmt.Sprintf("%s (harness entry point %s) panicked in %s on input %s [%s]: %s", entry, ep.Name, fr, short(in), class, msg),
			caseRec{ep.Name, vc.Hex(inc), class}, func() bool { p, _ := vc.Guard(func() { ep.F(inc) }); return p != nil })
		c.Outcome(sec, "PANIC")
		c.Distinct(ep.Name + "|" + class + "|panic|" + fr)
		return false, true
	}
	if d := a1 - a0; d > allocBound(ep, len(in)) && a1 > a0 {
		key := "alloc/" + keyName(ep.Name) + "/" + allocClass(class)
		// the first case of a key (and every borderline case) is confirmed with the precise counter; once the key is
		// confirmed, a case whose fast delta exceeds twice the bound is counted without re-running it three times
		pd := d
		if !r.confirmed[key] || d <= 2*allocBound(ep, len(in)) {
			pd = preciseAlloc(ep, in)
		}
		if pd > allocBound(ep, len(in)) {
			r.confirmed[key] = true
			r.allocHits[ep.Name+"|"+class]++
			inc := append([]byte{}, in...)
			c.Violation(sec, key, fmt.Sprintf("%s allocated %d bytes for a %d-byte input %s [%s] (bound %d = 256 KiB + 4000 x input length + allowance %d)", ep.Name, pd, len(in), short(in), class, allocBound(ep, len(in)), ep.Base),
				caseRec{ep.Name, vc.Hex(inc), class}, func() bool { return preciseAlloc(ep, inc) > allocBound(ep, len(inc)) })
			c.Outcome(sec, "ALLOC")
			c.Distinct(ep.Name + "|" + class + "|alloc")
			return ok, true
		}
	}
	if dt > slowBudget && len(in) <= 64<<10 {
		slow := true
		worst := dt
		for i := 0; i < 3 && slow; i++ {
			t := time.Now()
			vc.Guard(func() { ep.F(in) })
			if e := time.Since(t); e <= slowBudget {
				slow = false
			} else if e < worst {
				worst = e
			}
		}
		if slow {
			inc := append([]byte{}, in...)
			c.Violation(sec, "slow/"+keyName(ep.Name), fmt.Sprintf("%s needs more than %v (%.1f s at best over 4 runs) for the %d-byte input %s [%s]", ep.Name, slowBudget, worst.Seconds(), len(in), short(in), class),
				caseRec{ep.Name, vc.Hex(inc), class}, nil)
			c.Outcome(sec, "SLOW")
			return ok, true
		}
	}
	if ok {
		c.Outcome(sec, "value")
	} else {
		c.Outcome(sec, "error")
	}
	return ok, false
}

// batch runs eps x ins under ONE guard and ONE measurement (the cheap path for the exhaustive short-input sections):
// if nothing panicked, the summed allocation is within the smallest individual bound and the summed time within the
// horizon, then no single call can have violated the oracle. Otherwise every case is re-run one by one through do().
// accepted, if non-nil, is told which inputs produced a value at the first entry point.
func (r *runner) batch(sec string, eps []*EP, ins [][]byte, class string, accepted func(ii int)) {
	minB := ^uint64(0)
	for _, ep := range eps {
		for _, in := range ins {
			if b := allocBound(ep, len(in)); b < minB {
				minB = b
			}
		}
	}
	r.mu.Lock()
	r.curEP, r.curIn, r.curT0, r.busy = eps[0].Name+" (first of a batch)", ins[0], time.Now(), true
	t0 := r.curT0
	r.mu.Unlock()
	var nVal, nErr int64
	a0 := r.allocNow()
	pv, _ := vc.Guard(func() {
		for ii, in := range ins {
			for ei, ep := range eps {
				if ep.F(in) {
					nVal++
					if ei == 0 && accepted != nil {
						accepted(ii)
					}
				} else {
					nErr++
				}
			}
		}
	})
	a1 := r.allocNow()
	dt := time.Since(t0)
	r.mu.Lock()
	r.busy = false
	r.mu.Unlock()
	if pv == nil && (a1 < a0 || a1-a0 <= minB) && dt <= slowBudget {
		r.nCalls += nVal + nErr
		s := r.c.Sec(sec) // single working goroutine: the section counters are not touched concurrently
		if s.Outcomes == nil {
			s.Outcomes = map[string]int64{}
		}
		s.Evaluations += nVal + nErr - 1
		s.Outcomes["value"] += nVal
		s.Outcomes["error"] += nErr
		r.c.Eval(nVal + nErr - 1)
		// one regular Outcome call keeps the section clock running; undo its own count
		if nVal > 0 {
			s.Outcomes["value"]--
			r.c.Outcome(sec, "value")
		} else {
			s.Outcomes["error"]--
			r.c.Outcome(sec, "error")
		}
		return
	}
	for _, in := range ins {
		for _, ep := range eps {
			r.do(sec, ep, in, class)
		}
	}
}

// tripped reports whether the circuit breaker for (entry point, class) is open: after 24 confirmed allocation violations
// the remaining cases of that class are skipped (each one may allocate gigabytes) and the section is marked non-exhaustive.
func (r *runner) tripped(sec string, ep *EP, class string) bool {
	if r.allocHits[ep.Name+"|"+class] < 24 {
		return false
	}
	if r.allocHits[ep.Name+"|"+class] == 24 {
		r.allocHits[ep.Name+"|"+class]++
		r.c.SecNotExhaustive(sec, fmt.Sprintf("circuit breaker: 24 allocation violations of %s on class %s; remaining cases of that class skipped", ep.Name, class))
	}
	return true
}

// keyName strips the session parameter of a pipeline entry point, so that a key names the library path, not the fixture.
func keyName(ep string) string {
	if i := strings.IndexByte(ep, '['); i > 0 {
		return ep[:i]
	}
	return ep
}

// allocClass maps an input class to the root-cause part of an allocation key.
func allocClass(class string) string {
	if i := strings.IndexByte(class, ':'); i > 0 {
		return class[:i]
	}
	return class
}

// doClass is do() plus the (entry point, class, outcome) distinct key.
func (r *runner) doClass(sec string, ep *EP, in []byte, class string) (ok, bad bool) {
	ok, bad = r.do(sec, ep, in, class)
	if r.c.Shard == 0 && r.nSamples < 6 && len(in) > 8 && len(in) < 200 && r.nCalls%977 == 0 {
		r.nSamples++
		r.c.Sample(map[string]any{"section": sec, "entry_point": ep.Name, "input_class": class, "input_hex": vc.Hex(in), "returned_value": ok, "violation": bad})
	}
	if !bad {
		if ok {
			r.c.Distinct(ep.Name + "|" + allocClass(class) + "|value")
		} else {
			r.c.Distinct(ep.Name + "|" + allocClass(class) + "|error")
		}
	}
	return
}

// watchdog reports a call that does not come back.
func (r *runner) watchdog(stop chan struct{}) {
	t := time.NewTicker(time.Second)
	defer t.Stop()
	for {
		select {
		case <-stop:
			return
		case <-t.C:
			r.mu.Lock()
			if r.busy && time.Since(r.curT0) > hangLimit {
				rec := caseRec{r.curEP, vc.Hex(r.curIn), "watchdog"}
				r.mu.Unlock()
				select {
				case r.hang <- rec:
				default:
				}
				return
			}
			r.mu.Unlock()
		}
	}
}

func run(c *vc.Ctx) {
	if err := refcrypto.SelfTest(); err != nil {
		c.HarnessError("refcrypto self-test: %v", err)
		return
	}
	if err := refpki.EnsureKeys(); err != nil {
		c.HarnessError("refpki keys: %v", err)
		return
	}
	// fewer collections: the workers allocate short-lived garbage only (heap stays far below the cap)
	debug.SetGCPercent(400)
	debug.SetMemoryLimit(1500 << 20)
	r := newRunner(c)
	if c.Shard == 0 {
		if old, _ := filepath.Glob(filepath.Join(scratchDir, "current-*.txt")); len(old) > 0 {
			for _, f := range old {
				b, _ := os.ReadFile(f)
				s := string(b)
				if len(s) > 300 {
					s = s[:300]
				}
				c.Note("a previous run left " + filepath.Base(f) + " (a worker of that run died inside this call): " + strings.ReplaceAll(s, "\n", " | "))
			}
		}
	}
	os.Remove(r.curFile)
	done := make(chan struct{})
	stop := make(chan struct{})
	go r.watchdog(stop)
	go func() {
		defer close(done)
		defer func() {
			if p := recover(); p != nil {
				c.HarnessError("C12 body panicked outside a guarded call: %v\n%s", p, stackOf())
			}
		}()
		r.body()
	}()
	select {
	case <-done:
		close(stop)
		os.Remove(r.curFile)
	case rec := <-r.hang:
		c.Violation("watchdog", "slow/"+keyName(rec.EP), fmt.Sprintf("%s did not return within %v on a %d-byte input %s (worker abandoned the call)", rec.EP, hangLimit, len(rec.In)/2, short(vc.Unhex(rec.In))), rec, nil)
		c.SecNotExhaustive("watchdog", "a call did not return; the worker stopped enumerating")
	}
}

func cpuSeconds() float64 {
	var ru syscall.Rusage
	syscall.Getrusage(syscall.RUSAGE_SELF, &ru)
	return float64(ru.Utime.Sec+ru.Stime.Sec) + float64(ru.Utime.Usec+ru.Stime.Usec)/1e6
}

func stackOf() string {
	b := make([]byte, 8192)
	return string(b[:runtime.Stack(b, false)])
}

// body runs all sections in a fixed order (identical in every worker): the structure-aware sections, which are cheap
// and reach deepest, first; the bulk exhaustive short-string section last, so that a starved run loses breadth there.
func (r *runner) body() {
	c := r.c
	corpus, err := buildCorpus(c)
	if err != nil {
		c.HarnessError("corpus: %v", err)
		return
	}
	stat := os.Getenv("C12_STATS") != ""
	tPrev := time.Now()
	cpuPrev := cpuSeconds()
	lap := func(what string) {
		if stat && c.Shard < 2 {
			fmt.Fprintf(os.Stderr, "LAP shard=%d %s wall=%.1fs cpu=%.1fs calls=%d\n", c.Shard, what, time.Since(tPrev).Seconds(), cpuSeconds()-cpuPrev, r.nCalls)
		}
		tPrev, cpuPrev = time.Now(), cpuSeconds()
	}
	lap("corpus")
	only := os.Getenv("C12_ONLY") // debugging aid: comma separated subset of {1,2,3,4}; unset = all
	want := func(s string) bool { return only == "" || strings.Contains(","+only+",", ","+s+",") }
	if want("3") {
		r.sectionGrammar(corpus)
		lap("grammar")
	}
	if want("4") {
		r.sectionEvidence(corpus)
		lap("evidence")
	}
	if want("2") {
		r.sectionGenuine(corpus)
		lap("genuine")
		r.section2(corpus)
		lap("section2")
	}
	if want("1") {
		r.section1(corpus)
		lap("section1")
	}
	if os.Getenv("C12_STATS") != "" {
		for k, v := range r.maxA {
			fmt.Fprintf(os.Stderr, "STAT shard=%d ep=%s maxalloc=%d maxtime=%v\n", c.Shard, k, v, r.maxT[k])
			fmt.Fprintf(os.Stderr, "SUMT shard=%d ep=%s sum=%.3f n=%d\n", c.Shard, k, r.sumT[k].Seconds(), r.cnt[k])
		}
		for k, v := range r.sumT {
			if strings.HasPrefix(k, "class|") {
				fmt.Fprintf(os.Stderr, "SUMC shard=%d %s sum=%.3f\n", c.Shard, k[6:], v.Seconds())
			}
		}
	}
	if c.Shard == 0 {
		c.Extra("entry_points", epNames())
		c.Extra("seed_corpus", corpus.describe())
		c.Extra("hypotheses_from_code_reading", map[string]string{
			"document.NewDG16 -> parsePersonToNotify evaluates node.String() eagerly; oid.DecodeAsn1objectId panics on a malformed OID inside a person template":                                     "decided by sections 3f/2: key panic/document.NewDG16/oid.DecodeAsn1objectId when it reproduces",
			"tlv node String() on tag 06 with a malformed OID (also a VALID OID of 128 bytes or more: the helper writes the length as one byte)":                                                     "decided by sections 1a/3f: key panic/tlv.TlvNodes.String/oid.DecodeAsn1objectId when it reproduces",
			"verifier.Verify and mobile.Verifier.Verify have no recover, a panic below escapes":                                                                                                      "decided by the DG16 seeds fed through verifier.Verify/file:dg16 and mobile.Verifier.Verify/file:dg16",
			"fixed earlier (BytesFromBuffer over-allocation, tlv.Unwrap indefinite length, chipauth.VerifyEvidence nil DG14 / nil key id / oversize SmSsc, brainpoolP192r1 alternative-curve retry)": "re-decided on every run by sections 3c, 3d, 4a, 4b, 4c and 2a (every DG14 shape as the DG14 of a CA session); a regression appears as alloc/... or panic/... violation",
		})
		c.Extra("not_covered", []string{
			"the polynomial-time clause beyond the 20 s horizon (cubic modular exponentiation with a 16 KiB RSA modulus takes 0.6 s and is not judged)",
			"inputs longer than 64 KiB, and claims that need more than the worker's address space to be refuted",
			"the reader's response sequences (chip answers during a live read) - property C11",
			"stack exhaustion by recursion deeper than the 16 300 levels that fit a 64 KiB input",
			"htmlreport (not a byte-consuming entry point of the property) and cmd/",
			"goroutines started by the library: a panic there cannot be contained by the harness and would surface as a dead worker (harness error with the case recorded in /verif/out/c12/current-<shard>.txt)",
		})
		if len(corpus.thoroughOnly) > 0 {
			c.Extra("seeds_swept_in_thorough_only", corpus.thoroughOnly)
		}
	}
}

// ---------------------------------------------------------------------------------------------
// replay

func replay(c *vc.Ctx, raw json.RawMessage) string {
	var doc struct {
		Section string  `json:"section"`
		Case    caseRec `json:"case"`
	}
	if err := json.Unmarshal(raw, &doc); err != nil {
		return "cannot read the recorded case: " + err.Error()
	}
	if err := refpki.EnsureKeys(); err != nil {
		return "refpki keys: " + err.Error()
	}
	ep := lookupEP(doc.Case.EP)
	if ep == nil {
		return "unknown entry point " + doc.Case.EP
	}
	in := vc.Unhex(doc.Case.In)
	r := newRunner(c)
	var m runtime.MemStats
	runtime.ReadMemStats(&m)
	a := m.TotalAlloc
	t0 := time.Now()
	var ok bool
	pv, stack := vc.Guard(func() { ok = ep.F(in) })
	dt := time.Since(t0)
	runtime.ReadMemStats(&m)
	obs := fmt.Sprintf("%s on %d-byte input %s: returned value=%v panic=%v alloc=%d bytes (bound %d) time=%v", ep.Name, len(in), short(in), ok, pv, m.TotalAlloc-a, allocBound(ep, len(in)), dt.Round(time.Microsecond))
	if pv != nil {
		obs += " top library frame=" + topFrame(stack)
	}
	sec := doc.Section
	if sec == "" {
		sec = "replay"
	}
	r.do(sec, ep, in, doc.Case.Class)
	return obs
}
