package c12

import (
	"crypto/sha256"
	"fmt"
	"math/big"
	"os"
	"strings"
	"time"

	"github.com/gmrtd/gmrtd/activeauth"
	"github.com/gmrtd/gmrtd/chipauth"
	"github.com/gmrtd/gmrtd/document"
	"github.com/gmrtd/gmrtd/pace"
	"github.com/gmrtd/gmrtd/passiveauth"

	"verif/internal/refpki"
)

// ---- hand-written CBOR (so that malformed items can be placed anywhere) ----

func cbHead(major byte, n uint64) []byte {
	m := major << 5
	switch {
	case n < 24:
		return []byte{m | byte(n)}
	case n < 1<<8:
		return []byte{m | 24, byte(n)}
	case n < 1<<16:
		return []byte{m | 25, byte(n >> 8), byte(n)}
	case n < 1<<32:
		return []byte{m | 26, byte(n >> 24), byte(n >> 16), byte(n >> 8), byte(n)}
	}
	return []byte{m | 27, byte(n >> 56), byte(n >> 48), byte(n >> 40), byte(n >> 32), byte(n >> 24), byte(n >> 16), byte(n >> 8), byte(n)}
}
func cbBytes(b []byte) []byte { return append(cbHead(2, uint64(len(b))), b...) }
func cbText(s string) []byte  { return append(cbHead(3, uint64(len(s))), s...) }
func cbUint(n uint64) []byte  { return cbHead(0, n) }
func cbInt(n int64) []byte {
	if n >= 0 {
		return cbHead(0, uint64(n))
	}
	return cbHead(1, uint64(-(n + 1)))
}
func cbInts(v []int64) []byte {
	out := cbHead(4, uint64(len(v)))
	for _, x := range v {
		out = append(out, cbInt(x)...)
	}
	return out
}

type kv struct {
	k string
	v []byte // raw CBOR item; nil = key absent
}

func cbMap(kvs []kv) []byte {
	n := 0
	for _, e := range kvs {
		if e.v != nil {
			n++
		}
	}
	out := cbHead(5, uint64(n))
	for _, e := range kvs {
		if e.v != nil {
			out = append(out, cbText(e.k)...)
			out = append(out, e.v...)
		}
	}
	return out
}

func envRaw(magic, version, sha, payload []byte) []byte {
	return cbMap([]kv{{"magic", magic}, {"version", version}, {"sha256", sha}, {"payload", payload}})
}

func shaItem(payload []byte) []byte { d := sha256.Sum256(payload); return cbBytes(d[:]) }

// bundle description with per-field raw items
type bundleT struct {
	cam, ca, aa []kv // nil slice = mechanism absent
}

func (b bundleT) enc() []byte {
	sub := func(k []kv) []byte {
		if k == nil {
			return nil
		}
		return cbMap(k)
	}
	return cbMap([]kv{{"paceCam", sub(b.cam)}, {"chipAuth", sub(b.ca)}, {"activeAuth", sub(b.aa)}})
}

func oidItem(o []int) []byte {
	v := make([]int64, len(o))
	for i, x := range o {
		v[i] = int64(x)
	}
	return cbInts(v)
}

func genuineBundle(s *sess) bundleT {
	var b bundleT
	ss := &s.Doc.Session
	if ss.PaceCamResult != nil && ss.PaceCamResult.Evidence != nil {
		e := ss.PaceCamResult.Evidence
		b.cam = []kv{{"paceOid", oidItem(e.PaceOid)}, {"parameterId", cbInt(int64(e.ParameterId))}, {"nonce", cbBytes(e.Nonce)}, {"termMapPri", cbBytes(e.TermMapPri)},
			{"termMapPub", cbBytes(e.TermMapPub)}, {"chipMapPub", cbBytes(e.ChipMapPub)}, {"termKaPri", cbBytes(e.TermKaPri)}, {"termKaPub", cbBytes(e.TermKaPub)},
			{"chipKaPub", cbBytes(e.ChipKaPub)}, {"ecadIC", cbBytes(e.EcadIC)}}
	}
	if ss.ChipAuthResult != nil && ss.ChipAuthResult.Evidence != nil {
		e := ss.ChipAuthResult.Evidence
		b.ca = []kv{{"termPri", cbBytes(e.TermPri)}, {"termPubKey", cbBytes(e.TermPubKey)}, {"smRapdu", cbBytes(e.SmRapdu)}, {"smSsc", cbBytes(e.SmSsc)}}
	}
	if ss.ActiveAuthResult != nil && ss.ActiveAuthResult.Evidence != nil {
		e := ss.ActiveAuthResult.Evidence
		b.aa = []kv{{"algorithm", oidItem(e.Algorithm)}, {"nonce", cbBytes(e.Nonce)}, {"signature", cbBytes(e.Signature)}}
	}
	return b
}

func cloneKV(k []kv) []kv { return append([]kv{}, k...) }

// byteStates: the states of a byte-string field with genuine value g.
func byteStates(g []byte) []struct {
	n string
	v []byte
} {
	type st = struct {
		n string
		v []byte
	}
	return []st{
		{"genuine", cbBytes(g)}, {"absent", nil}, {"empty", cbBytes(nil)}, {"null", []byte{0xF6}},
		{"+1byte", cbBytes(append(append([]byte{}, g...), 0x00))}, {"leading-zero", cbBytes(append([]byte{0}, g...))},
		{"zeros", cbBytes(make([]byte, len(g)))}, {"ones", cbBytes(bytesOf(0xFF, len(g)))},
		{"1024", cbBytes(bytesOf(0x41, 1024))}, {"1025", cbBytes(bytesOf(0x41, 1025))},
	}
}

func itemBytes(raw []byte) []byte {
	// inverse of cbBytes for genuine items
	if len(raw) == 0 {
		return nil
	}
	switch raw[0] & 0x1F {
	case 24:
		return raw[2:]
	case 25:
		return raw[3:]
	case 26:
		return raw[5:]
	}
	return raw[1:]
}

// ---- section 4 ----

func (r *runner) sectionEvidence(co *corpusT) {
	t := time.Now()
	lap := func(w string) {
		if os.Getenv("C12_STATS") != "" && r.c.Shard < 2 {
			fmt.Fprintf(os.Stderr, "LAP shard=%d   %s %.1fs\n", r.c.Shard, w, time.Since(t).Seconds())
		}
		t = time.Now()
	}
	r.evidenceBundles()
	lap("4a")
	r.withoutFiles()
	lap("4b")
	r.ecRangeClasses()
	lap("4c")
}

func (r *runner) evidenceBundles() {
	c := r.c
	sec := "4a evidence bundles"
	both := func(sn string) []*EP {
		return []*EP{mustEP("VerifyEvidence/bundle[" + sn + "]"), mustEP("verifier.Verify/bundle[" + sn + "]")}
	}
	run := func(eps []*EP, b bundleT, class string) {
		in := b.enc()
		for _, ep := range eps {
			r.doClass(sec, ep, in, class)
		}
	}
	// Chip Authentication: full product of the field states
	for _, sn := range []string{"ca", "full"} {
		s := getSess(sn)
		g := genuineBundle(s)
		eps := both(sn)
		var states [4][]struct {
			n string
			v []byte
		}
		for i := range g.ca {
			states[i] = byteStates(itemBytes(g.ca[i].v))
		}
		// consumer specific: counter exactly one byte longer than the cipher block with a non-zero top byte, value 0, maximum value
		blk := len(itemBytes(g.ca[3].v))
		states[3] = append(states[3], struct {
			n string
			v []byte
		}{"block+1-nonzero", cbBytes(append([]byte{1}, make([]byte, blk)...))}, struct {
			n string
			v []byte
		}{"one-byte-01", cbBytes([]byte{1})})
		for a := range states[0] {
			if !c.Mine() {
				continue
			}
			if c.Expired() {
				c.SecNotExhaustive(sec, "deadline")
				return
			}
			for b := range states[1] {
				for cc := range states[2] {
					for d := range states[3] {
						nb := bundleT{cam: g.cam, aa: g.aa, ca: []kv{{"termPri", states[0][a].v}, {"termPubKey", states[1][b].v}, {"smRapdu", states[2][cc].v}, {"smSsc", states[3][d].v}}}
						run(eps, nb, fmt.Sprintf("evidence-ca:%s/%s/%s/%s", states[0][a].n, states[1][b].n, states[2][cc].n, states[3][d].n))
					}
				}
			}
		}
	}
	// PACE-CAM: every subset of the eight byte fields x state; object identifier x parameter id grid
	for _, sn := range []string{"cam", "full"} {
		s := getSess(sn)
		g := genuineBundle(s)
		eps := both(sn)
		for mask := 1; mask < 256; mask++ {
			if !c.Mine() {
				continue
			}
			if c.Expired() {
				c.SecNotExhaustive(sec, "deadline")
				return
			}
			for _, stn := range []string{"absent", "empty", "null", "+1byte", "leading-zero", "zeros", "ones", "1024", "1025"} {
				cam := cloneKV(g.cam)
				for i := 0; i < 8; i++ {
					if mask&(1<<i) == 0 {
						continue
					}
					for _, st := range byteStates(itemBytes(g.cam[2+i].v)) {
						if st.n == stn {
							cam[2+i].v = st.v
						}
					}
				}
				run(eps, bundleT{cam: cam, ca: g.ca, aa: g.aa}, "evidence-cam:"+stn)
			}
		}
		oids := [][]byte{nil, cbInts(nil), {0xF6}, cbInts([]int64{0}), cbInts([]int64{0, 4, 0, 127, 0, 7, 2, 2, 4, 2, 2}), cbInts([]int64{0, 4, 0, 127, 0, 7, 2, 2, 4, 6, 4}),
			cbInts([]int64{0, 4, 0, 127, 0, 7, 2, 2, 4, 6, 5}), cbInts([]int64{-1, 4}), cbInts([]int64{0, 4, 0, 127, 0, 7, 2, 2, 4, 6, -2}),
			cbInts([]int64{1<<63 - 1, 1<<63 - 1}), cbInts(make([]int64, 300)), cbBytes([]byte{1, 2}), cbText("0.4.0.127.0.7.2.2.4.6.2")}
		pids := [][]byte{nil, {0xF6}, cbInt(-1 << 63), cbInt(-1), cbInt(1<<63 - 1), cbHead(0, 1<<64-1), cbInt(1 << 31), cbBytes([]byte{13}), {0xF9, 0x49, 0x00}}
		for p := 0; p <= 33; p++ {
			pids = append(pids, cbInt(int64(p)))
		}
		for oi, o := range oids {
			if !c.Mine() {
				continue
			}
			for _, p := range pids {
				cam := cloneKV(g.cam)
				cam[0].v, cam[1].v = o, p
				run(eps, bundleT{cam: cam, ca: g.ca, aa: g.aa}, fmt.Sprintf("evidence-cam-oid%d", oi))
			}
		}
	}
	// Active Authentication
	for _, sn := range []string{"aarsa", "aaec", "full"} {
		s := getSess(sn)
		g := genuineBundle(s)
		eps := both(sn)
		sig := itemBytes(g.aa[2].v)
		algs := [][]byte{g.aa[0].v, nil, cbInts(nil), {0xF6}, cbInts([]int64{1}), cbInts([]int64{1, 2, 840, 113549, 1, 1, 1}), cbInts([]int64{1, 2, 840, 10045, 2, 1}),
			cbInts([]int64{1, 2, 840, 113549, 1, 1, 10}), cbInts([]int64{-1, 2}), cbInts([]int64{1<<63 - 1}), cbInts(make([]int64, 200))}
		nonces := [][]byte{g.aa[1].v, nil, cbBytes(nil), cbBytes([]byte{1}), cbBytes(make([]byte, 9)), cbBytes(make([]byte, 4096)), cbBytes(make([]byte, 4097))}
		sigs := [][]byte{g.aa[2].v, nil, cbBytes(nil), cbBytes([]byte{0}), cbBytes([]byte{1}), cbBytes(sig[:len(sig)-1]), cbBytes(append(append([]byte{}, sig...), 0)), cbBytes(append([]byte{0}, sig...)),
			cbBytes(make([]byte, len(sig))), cbBytes(bytesOf(0xFF, len(sig))), cbBytes(make([]byte, 4096)), cbBytes(make([]byte, 4097)),
			cbBytes([]byte{0x30, 0x80}), cbBytes([]byte{0x30, 0x06, 0x02, 0x01, 0x00, 0x02, 0x01, 0x00}), cbBytes([]byte{0x30, 0x84, 0xFF, 0xFF, 0xFF, 0xFF})}
		for ai, a := range algs {
			if !c.Mine() {
				continue
			}
			for _, n := range nonces {
				for _, sg := range sigs {
					run(eps, bundleT{cam: g.cam, ca: g.ca, aa: []kv{{"algorithm", a}, {"nonce", n}, {"signature", sg}}}, fmt.Sprintf("evidence-aa:alg%d", ai))
				}
			}
		}
	}
	// width sweep: every byte-string field of every mechanism at EVERY length 0..2L+2 (L = genuine length, at
	// least 16) with a value whose top byte is non-zero / all ones, the other fields genuine - for every secure
	// messaging cipher of Chip Authentication (3DES: key 16 / block 8; AES-128/192/256: key 16/24/32, block 16),
	// so that a bound taken from the wrong object (key vs block vs field size) is crossed
	widthSess := []string{"ca", "ca3", "ca192", "ca256", "cam", "aarsa", "aaec", "full"}
	if c.Thorough() {
		widthSess = append(widthSess, "cambp", "aaecbp")
	}
	for _, sn := range widthSess {
		s := getSess(sn)
		if s == nil {
			c.HarnessError("session %s unavailable", sn)
			continue
		}
		g := genuineBundle(s)
		eps := both(sn)
		mechs := []*[]kv{&g.cam, &g.ca, &g.aa}
		for mi, mp := range mechs {
			for fi := range *mp {
				raw := (*mp)[fi].v
				if len(raw) == 0 || raw[0]>>5 != 2 {
					continue // not a byte string
				}
				L := len(itemBytes(raw))
				if L < 16 {
					L = 16
				}
				if L > 80 {
					L = 80 // signatures / public keys: lengths around the genuine one are in the product above
				}
				for n := 0; n <= 2*L+2; n++ {
					if !c.Mine() {
						continue
					}
					for _, fill := range []byte{0x00, 0xFF} {
						v := bytesOf(fill, n)
						if n > 0 && fill == 0 {
							v[0] = 0x01
						}
						nb := bundleT{cam: cloneKV(g.cam), ca: cloneKV(g.ca), aa: cloneKV(g.aa)}
						tgt := []*[]kv{&nb.cam, &nb.ca, &nb.aa}[mi]
						(*tgt)[fi].v = cbBytes(v)
						run(eps, nb, fmt.Sprintf("evidence-width:%s/%s/%d", sn, (*mp)[fi].k, n))
					}
				}
			}
		}
	}
	// mechanisms present as empty maps / wrong types
	full := getSess("full")
	g := genuineBundle(full)
	if c.Mine() {
		for _, v := range [][]byte{cbMap(nil), {0xF6}, cbInts(nil), cbBytes(nil), cbUint(1)} {
			for k := 0; k < 3; k++ {
				keys := []string{"paceCam", "chipAuth", "activeAuth"}
				subs := [][]byte{cbMap(g.cam), cbMap(g.ca), cbMap(g.aa)}
				subs[k] = v
				in := cbMap([]kv{{keys[0], subs[0]}, {keys[1], subs[1]}, {keys[2], subs[2]}})
				for _, ep := range both("full") {
					r.doClass(sec, ep, in, "evidence-mechanism-shape")
				}
			}
		}
	}
	c.SecBound(sec, "Chip Authentication: full product of 4 fields x {genuine, absent, empty, null, +1 byte, leading zero, all-zero, all-FF, 1024, 1025 bytes} (+ counter one byte longer than the cipher block, one-byte counter) on sessions ca and full; width sweep: every byte field of every mechanism x every length 0..2L+2 x {01 00.., FF..} with the rest genuine on Chip Authentication over 3DES / AES-128 / AES-192 / AES-256 sessions, PACE-CAM and both AA sessions; PACE-CAM: every non-empty subset of the 8 byte fields x 9 states, 13 object-identifier shapes x 43 parameter ids; Active Authentication: 11 algorithm shapes x 7 nonces x 15 signatures on RSA, ECDSA and the full session; each bundle through NewChipAuthEvidenceFromCbor + the evidence verifier directly and through verifier.Verify")
}

// withoutFiles: documents lacking every subset of the files the evidence refers to.
func (r *runner) withoutFiles() {
	c := r.c
	sec := "4b documents lacking files"
	for _, sn := range []string{"ca", "cam", "aarsa", "aaec", "full"} {
		s := getSess(sn)
		var present []int
		for i, n := range fileNames {
			if s.Files[n] != nil {
				present = append(present, i)
			}
		}
		eps := []*EP{mustEP("pipeline/without-files[" + sn + "]"), mustEP("verifier.Verify/without-files[" + sn + "]")}
		if sn == "full" {
			eps = append(eps, mustEP("mobile.Verifier.Verify/without-files[full]"))
		}
		for m := 0; m < 1<<len(present); m++ {
			if !c.Mine() {
				continue
			}
			if c.Expired() {
				c.SecNotExhaustive(sec, "deadline")
				return
			}
			mask := 0
			for j, i := range present {
				if m&(1<<j) != 0 {
					mask |= 1 << i
				}
			}
			in := []byte{byte(mask >> 8), byte(mask)}
			for _, ep := range eps {
				r.doClass(sec, ep, in, "without-files")
			}
		}
	}
	c.SecBound(sec, "sessions ca, cam, aarsa, aaec, full: every subset of the files present (CardAccess, CardSecurity, DIR, COM, SOD, DG1, DG14, DG15) removed; Document.Verify, PassiveAuth, Summary and the three evidence verifiers called directly (with the session's own evidence, or the full session's for the other mechanisms), and the re-serialised document through verifier.Verify (and mobile.Verifier.Verify for the full session)")
}

func withoutFilesEP(base string, s *sess) *EP {
	strip := func(in []byte) (rawDoc, document.Document, bool) {
		if len(in) != 2 {
			return rawDoc{}, document.Document{}, false
		}
		mask := int(in[0])<<8 | int(in[1])
		rd := s.Raw
		d := s.Doc.Document
		for i, n := range fileNames {
			if mask&(1<<i) != 0 {
				*rd.field(n) = nil
				setFile(&d, n, nil)
			}
		}
		return rd, d, true
	}
	switch base {
	case "verifier.Verify/without-files", "mobile.Verifier.Verify/without-files":
		v := lookupEPLocked(strings.Split(base, "/")[0] + "[" + s.Name + "]")
		return &EP{F: func(in []byte) bool {
			rd, _, ok := strip(in)
			if !ok {
				return false
			}
			return v.F(s.blobFiles(rd, nil))
		}}
	case "pipeline/without-files":
		full := getSess("full")
		return &EP{F: func(in []byte) bool {
			_, d, ok := strip(in)
			if !ok {
				return false
			}
			ok = d.Verify() == nil
			dx := &document.DocumentEx{Document: d}
			dx.Session.PassiveAuthResult, dx.Session.PassiveAuthErr = passiveauth.PassiveAuth(&d, s.Pool)
			own, oth := &s.Doc.Session, &full.Doc.Session
			cam := own.PaceCamResult
			if cam == nil {
				cam = oth.PaceCamResult
			}
			ca := own.ChipAuthResult
			if ca == nil {
				ca = oth.ChipAuthResult
			}
			aa := own.ActiveAuthResult
			if aa == nil {
				aa = oth.ActiveAuthResult
			}
			dx.Session.PaceCamResult, dx.Session.PaceErr = pace.VerifyEvidence(&d, cam.Evidence)
			dx.Session.ChipAuthResult, dx.Session.ChipAuthErr = chipauth.VerifyEvidence(&d, ca.Evidence)
			dx.Session.ActiveAuthResult, dx.Session.ActiveAuthErr = activeauth.VerifyEvidence(&d, aa.Evidence)
			dx.Summary()
			return ok
		}}
	}
	return nil
}

// ---- 4c signature components in every range class ----

func (r *runner) ecRangeClasses() {
	c := r.c
	sec := "4c signature range classes"
	epV := mustEP("cms.VerifySignature/ecdsa-with-SHA256")
	epA := mustEP("activeauth.ValidateActiveAuthSignature")
	one := big.NewInt(1)
	nCases := 0
	for ci, cn := range refpki.CurveNames {
		cu := refpki.CurveByName(cn)
		k := cu.P.BitLen()
		type cls struct {
			n string
			v *big.Int
		}
		classes := []cls{{"0", big.NewInt(0)}, {"1", big.NewInt(1)}, {"n-1", new(big.Int).Sub(cu.N, one)}, {"n", cu.N}, {"n+1", new(big.Int).Add(cu.N, one)}, {"p", cu.P},
			{"2^k-1", new(big.Int).Sub(new(big.Int).Lsh(one, uint(k)), one)}, {"2^(8*len)-1", new(big.Int).Sub(new(big.Int).Lsh(one, uint(8*cu.ByteLen())), one)}, {"mid", new(big.Int).Rsh(cu.N, 1)}}
		for _, on := range refpki.CurveNames {
			o := refpki.CurveByName(on)
			if on != cn && o.ByteLen() == cu.ByteLen() {
				classes = append(classes, cls{"n(" + on + ")", o.N}, cls{"n(" + on + ")+1", new(big.Int).Add(o.N, one)}, cls{"n(" + on + ")-1", new(big.Int).Sub(o.N, one)})
			}
		}
		for _, explicit := range []bool{false, true} {
			key := refpki.LoadKey(refpki.EC(cn, explicit, 20+ci))
			spki := key.SPKI()
			dg15 := append(append([]byte{0x6F}, berLen(len(spki))...), spki...)
			for _, rc := range classes {
				if !c.Mine() {
					continue
				}
				if c.Expired() {
					c.SecNotExhaustive(sec, "deadline")
					return
				}
				for _, sc := range classes {
					class := fmt.Sprintf("sig-range:%s/explicit=%v", cn, explicit)
					der := refpki.ECDSASigDER(rc.v, sc.v)
					r.doClass(sec, epV, joinPair(spki, der), class)
					r.doClass(sec, epA, joinPair(dg15, der), class+"/der")
					l := cu.ByteLen()
					if rc.v.BitLen() <= 8*l && sc.v.BitLen() <= 8*l {
						plain := append(rc.v.FillBytes(make([]byte, l)), sc.v.FillBytes(make([]byte, l))...)
						r.doClass(sec, epA, joinPair(dg15, plain), class+"/plain")
					}
					nCases++
				}
			}
			// signature shapes that are not a pair of integers at all
			if c.Mine() {
				for _, sg := range [][]byte{nil, {0x30}, {0x30, 0x00}, {0x30, 0x80, 0x00, 0x00}, {0x30, 0x03, 0x02, 0x01, 0x01}, {0x30, 0x06, 0x02, 0x01, 0x81, 0x02, 0x01, 0x81},
					{0x30, 0x08, 0x02, 0x02, 0x00, 0x01, 0x02, 0x02, 0x00, 0x01}, {0x30, 0x84, 0x7F, 0xFF, 0xFF, 0xFF}, bytesOf(0xFF, 2*cu.ByteLen()+1), bytesOf(0x00, 2*cu.ByteLen()), make([]byte, 1)} {
					r.doClass(sec, epV, joinPair(spki, sg), "sig-shape:"+cn)
					r.doClass(sec, epA, joinPair(dg15, sg), "sig-shape:"+cn)
				}
			}
		}
	}
	// RSA: signature representative in every range class relative to the modulus, for AA and PKCS#1 / PSS verification
	for _, bits := range []int{1024, 2048} {
		key := refpki.LoadKey(refpki.RSA(bits, false, 0))
		spki := key.SPKI()
		dg15 := append(append([]byte{0x6F}, berLen(len(spki))...), spki...)
		N := key.RSA.N
		l := (N.BitLen() + 7) / 8
		vals := []*big.Int{big.NewInt(0), big.NewInt(1), new(big.Int).Sub(N, one), N, new(big.Int).Add(N, one), new(big.Int).Sub(new(big.Int).Lsh(one, uint(8*l)), one), new(big.Int).Rsh(N, 1)}
		if !c.Mine() {
			continue
		}
		for _, v := range vals {
			for _, width := range []int{l - 1, l, l + 1, 1} {
				if v.BitLen() > 8*width {
					continue
				}
				sg := v.FillBytes(make([]byte, width))
				for _, en := range []string{"cms.VerifySignature/sha256WithRSA", "cms.VerifySignature/rsassa-pss"} {
					r.doClass(sec, mustEP(en), joinPair(spki, sg), fmt.Sprintf("sig-range:rsa%d", bits))
				}
				r.doClass(sec, epA, joinPair(dg15, sg), fmt.Sprintf("sig-range:rsa%d", bits))
			}
		}
	}
	// RSA: the RECOVERED message representative in every structural class. Whoever holds the private key of the
	// DG15 (a cloned chip, a forged evidence file) or of an embedded certificate decides what the signature recovers
	// to: signature = F^d mod n. ISO 9796-2 (AA): F = head | filler(L) | trailer for every head {6A, 4A, 00, BC},
	// every filler length 0..70 (all digest sizes 20/28/32/48/64 -1, +0, +1 included) and every trailer
	// {BC, 38CC, 34CC, 36CC, 35CC, 33CC (unknown id), CC, none}; PKCS#1 v1.5 / PSS: EM = 00 01 FF.. 00 | T for every
	// padding length class and DigestInfo length 0..70.
	{
		key := refpki.LoadKey(refpki.RSA(1024, false, 0))
		spki := key.SPKI()
		dg15 := append(append([]byte{0x6F}, berLen(len(spki))...), spki...)
		N, D := key.RSA.N, key.RSA.D
		l := (N.BitLen() + 7) / 8
		sign := func(f []byte) []byte {
			return new(big.Int).Exp(new(big.Int).SetBytes(f), D, N).FillBytes(make([]byte, l))
		}
		trailers := [][]byte{{0xBC}, {0x38, 0xCC}, {0x34, 0xCC}, {0x36, 0xCC}, {0x35, 0xCC}, {0x33, 0xCC}, {0xCC}, nil}
		for L := 0; L <= 70; L++ {
			if !c.Mine() {
				continue
			}
			for _, head := range []byte{0x6A, 0x4A, 0x00, 0xBC} {
				for _, tr := range trailers {
					f := append(append([]byte{head}, bytesOf(0x5D, L)...), tr...)
					r.doClass(sec, epA, joinPair(dg15, sign(f)), "rsa-recovered-block:iso9796-2")
					// the same block at full width (filler extended on the left, as a genuine chip would)
					if len(f) < l {
						full := append([]byte{head}, bytesOf(0xBB, l-1-L-len(tr))...)
						full = append(append(full, bytesOf(0x5D, L)...), tr...)
						if new(big.Int).SetBytes(full).Cmp(N) < 0 {
							r.doClass(sec, epA, joinPair(dg15, sign(full)), "rsa-recovered-block:iso9796-2/full-width")
						}
					}
				}
			}
			for _, ps := range []int{0, 1, 7, 8, l - 3 - L} {
				if ps < 0 || 3+ps+L > l {
					continue
				}
				em := append(append([]byte{0x00, 0x01}, bytesOf(0xFF, ps)...), 0x00)
				em = append(em, bytesOf(0x30, L)...)
				sg := sign(em)
				r.doClass(sec, mustEP("cms.VerifySignature/sha256WithRSA"), joinPair(spki, sg), "rsa-recovered-block:pkcs1")
				r.doClass(sec, mustEP("cms.VerifySignature/rsassa-pss"), joinPair(spki, sg), "rsa-recovered-block:pkcs1")
			}
		}
	}
	// RSA keys of adversarial shape: modulus of every size class (also even), exponent up to the largest the key type can hold
	// (larger moduli only make the cubic cost of modular exponentiation visible - 0.6 s at 16 KiB - which the 20 s
	// horizon is not meant to judge)
	sizes := []int{128, 129, 256, 1024, 4096, 16384}
	rsaOID := []int{1, 2, 840, 113549, 1, 1, 1}
	for _, nb := range sizes {
		for _, e := range []int64{3, 65537, 1<<31 - 1, 1<<62 + 1} {
			for _, even := range []bool{false, true} {
				if !c.Mine() {
					continue
				}
				nBytes := bytesOf(0xA5, nb)
				nBytes[0] = 0xC3
				nBytes[nb-1] = 0x0B
				if even {
					nBytes[nb-1] = 0x0A
				}
				N := new(big.Int).SetBytes(nBytes)
				spki := refpki.DER(refpki.Seq(refpki.Seq(refpki.OID(rsaOID), refpki.Null()), refpki.BitString(refpki.DER(refpki.Seq(refpki.Int(N), refpki.Int64(e))))))
				dg15 := append(append([]byte{0x6F}, berLen(len(spki))...), spki...)
				for _, sg := range [][]byte{bytesOf(0x5A, nb), bytesOf(0xFF, nb), {0x02}} {
					if len(dg15)+len(sg) > 64<<10 {
						sg = sg[:1]
					}
					cl := fmt.Sprintf("rsa-key-shape:%d-byte-modulus", nb)
					r.doClass(sec, epA, joinPair(dg15, sg), cl)
					if len(spki)+len(sg) < 65000 {
						r.doClass(sec, mustEP("cms.VerifySignature/sha256WithRSA"), joinPair(spki, sg), cl)
						r.doClass(sec, mustEP("cms.VerifySignature/rsassa-pss"), joinPair(spki, sg), cl)
					}
				}
			}
		}
	}
	c.SecBound(sec, "11 curves x {named, explicit parameters} x (r, s) each in {0, 1, n-1, n, n+1, p, 2^k-1, 2^(8len)-1, n/2, and n, n+1, n-1 of every other curve of the same size}: cms.VerifySignature (DER) and activeauth.ValidateActiveAuthSignature (DER and plain); 11 non-integer-pair signature shapes per key; RSA-1024/2048: representative in {0, 1, N-1, N, N+1, 2^(8len)-1, N/2} x width {len-1, len, len+1, 1} for PKCS#1 v1.5, PSS and AA; RSA keys with a modulus of 128, 129, 256, 1024, 4096, 16384 bytes, odd and even, x exponent {3, 65537, 2^31-1, 2^62+1} x 3 signatures")
}

// ---- 3h CBOR grammar ----

func (r *runner) grammarCBOR(co *corpusT) {
	c := r.c
	sec := "3h CBOR grammar"
	type item struct {
		n     string
		b     []byte
		risky bool
	}
	var items []item
	rep := func(b []byte, n int) []byte {
		out := make([]byte, 0, len(b)*n)
		for i := 0; i < n; i++ {
			out = append(out, b...)
		}
		return out
	}
	depths := []int{}
	for d := 1; d <= 64; d++ {
		depths = append(depths, d)
	}
	depths = append(depths, 100, 1000, 10000, 30000)
	for _, d := range depths {
		items = append(items,
			item{"nest-array", append(rep([]byte{0x81}, d), 0x00), d > 64},
			item{"nest-map", append(rep([]byte{0xA1, 0x00}, d), 0x00), d > 64},
			item{"nest-tag", append(rep([]byte{0xC1}, d), 0x00), d > 64},
			item{"nest-indef-array", append(rep([]byte{0x9F}, d), rep([]byte{0xFF}, d)...), d > 64},
			item{"nest-indef-array-unterminated", rep([]byte{0x9F}, d), d > 64},
			item{"nest-indef-bytes", append(rep([]byte{0x5F}, d), 0xFF), d > 64})
	}
	for _, major := range []byte{2, 3, 4, 5} {
		for _, n := range []uint64{1 << 20, 1 << 24, 1 << 28, 1<<32 - 1, 1 << 32, 1<<63 - 1, 1 << 63, 1<<64 - 1} {
			h := cbHead(major, n)
			items = append(items, item{fmt.Sprintf("claimed-length:major%d", major), append(h, 0x41, 0x41, 0x41), n >= 1<<28})
		}
	}
	for _, b := range [][]byte{{0x00}, {0x20}, {0x3B, 0xFF, 0xFF, 0xFF, 0xFF, 0xFF, 0xFF, 0xFF, 0xFF}, {0x1B, 0xFF, 0xFF, 0xFF, 0xFF, 0xFF, 0xFF, 0xFF, 0xFF}, append([]byte{0xC2, 0x58, 0x20}, bytesOf(0xFF, 32)...),
		{0xFB, 0x7F, 0xF0, 0, 0, 0, 0, 0, 0}, {0xF9, 0x7E, 0x00}, {0xF6}, {0xF7}, {0xF5}, {0x80}, {0xA0}, {0x60}, {0x40}, {0xD9, 0xD9, 0xF7, 0x00}, {0xF8, 0xFF}, {0xF8, 0x00}, {0xFF}, {0x1C}, {0x1F}, {0x5F, 0x41, 0x00, 0xFF},
		{0x7F, 0x61, 0xFF, 0xFF}, {0x61, 0xFF}, {0xA1, 0x00}, {0xA2, 0x00, 0x00, 0x00, 0x01}, {0xBF, 0xFF}, {0xBF, 0x00, 0xFF}, {0xC0, 0x60}, {0xC1, 0xFB, 0x7F, 0xF8, 0, 0, 0, 0, 0, 0}, {0xD8, 0x18, 0x41, 0xFF}} {
		items = append(items, item{"type-confusion", b, false})
	}
	full := getSess("full")
	docEnvPayload := unseal(mustToCbor(&full.Doc.Document))
	exportPayload := unseal(full.Blob)
	g := genuineBundle(full)
	eps3 := []*EP{mustEP("document.NewDocumentFromCbor"), mustEP("document.UnmarshalVerifiableDoc"), mustEP("document.NewChipAuthEvidenceFromCbor"), mustEP("verifier.Verify[full]")}
	epMob := mustEP("mobile.Verifier.Verify")
	epRawdoc, epDocex := mustEP("verifier.Verify/rawdoc[full]"), mustEP("verifier.Verify/docex[full]")
	epBundle := []*EP{mustEP("VerifyEvidence/bundle[full]"), mustEP("verifier.Verify/bundle[full]")}
	call := func(ep *EP, in []byte, it item, place string) {
		cl := it.n + ":" + place
		if it.risky {
			r.markRisky(ep, in, cl)
		}
		r.doClass(sec, ep, in, cl)
	}
	type envT struct {
		magic   string
		ver     uint64
		payload []byte
	}
	envs := []envT{{magicDoc, 1, docEnvPayload}, {magicEv, 2, full.Bundle}, {magicDocEx, 1, exportPayload}}
	for _, it := range items {
		if !c.Mine() {
			continue
		}
		if c.Expired() {
			c.SecNotExhaustive(sec, "deadline")
			return
		}
		// top level
		for _, ep := range eps3 {
			call(ep, it.b, it, "top")
		}
		call(epMob, it.b, it, "top")
		// each envelope field of each envelope kind
		for _, e := range envs {
			gen := [4][]byte{cbText(e.magic), cbUint(e.ver), shaItem(e.payload), cbBytes(e.payload)}
			for f := 0; f < 4; f++ {
				v := gen
				v[f] = it.b
				in := envRaw(v[0], v[1], v[2], v[3])
				for _, ep := range eps3 {
					call(ep, in, it, "envelope-field")
				}
			}
		}
		// inside the raw document map, the evidence bundle and the outer pair (re-sealed so that the item is reached)
		rd := []kv{{"dg1", cbBytes(full.Files["dg1"])}, {"sod", cbBytes(full.Files["sod"])}, {"dg14", cbBytes(full.Files["dg14"])}}
		for _, alt := range [][]kv{{{"dg1", it.b}, rd[1], rd[2]}, {rd[0], {"sod", it.b}, rd[2]}, {rd[0], rd[1], rd[2], {"unknown", it.b}}, {rd[0], {"dg1", it.b}, rd[1]}} {
			call(epRawdoc, cbMap(alt), it, "rawdoc-field")
		}
		for _, alt := range [][]kv{{{"document", it.b}, {"chipAuthEvidence", cbBytes(seal(magicEv, 2, full.Bundle))}}, {{"document", cbBytes(seal(magicDoc, 1, docEnvPayload))}, {"chipAuthEvidence", it.b}}} {
			call(epDocex, cbMap(alt), it, "docex-field")
		}
		for mech := 0; mech < 3; mech++ {
			src := [][]kv{g.cam, g.ca, g.aa}[mech]
			for fi := range src {
				nb := bundleT{cam: g.cam, ca: g.ca, aa: g.aa}
				k := cloneKV(src)
				k[fi].v = it.b
				switch mech {
				case 0:
					nb.cam = k
				case 1:
					nb.ca = k
				default:
					nb.aa = k
				}
				for _, ep := range epBundle {
					call(ep, nb.enc(), it, "bundle-field")
				}
			}
		}
	}
	c.SecBound(sec, fmt.Sprintf("%d CBOR items (arrays/maps/tags/indefinite containers nested 1..64, 100, 1000, 10000, 30000 deep; byte/text/array/map headers claiming 2^20..2^64-1 elements with 3 bytes of data; 30 type-confusion items) placed at top level, in each of the 4 fields of each of the 3 envelopes, in 4 positions of the raw document map, in both fields of the outer pair and in each of the 17 evidence fields (inner envelopes re-sealed)", len(items)))
}

func mustToCbor(d *document.Document) []byte {
	b, err := d.ToCbor()
	if err != nil {
		panic("harness: Document.ToCbor: " + err.Error())
	}
	return b
}
