package c07

import (
	"bytes"
	"crypto/rand"
	"fmt"

	"github.com/gmrtd/gmrtd/activeauth"
	"github.com/gmrtd/gmrtd/document"
	"github.com/gmrtd/gmrtd/iso7816"

	"verif/internal/perso"
	"verif/internal/ref7816"
	"verif/internal/refchip"
	"verif/internal/vc"
)

// aaHist is a HISTORY of active-authentication runs through the activeauth API on one session (no caller
// challenge: the library draws RND.IFD itself; the random source never repeats). One letter per run:
//
//	G  the genuine chip
//	R  a device without the private key that recorded the last G run and returns the recorded signature
//	K  a device signing with ANOTHER key of the same type
//
// R and K must never be reported successful, also when ONE ActiveAuth object serves all runs.
type aaHist struct {
	AA         perso.AASpec `json:"aa"`
	Seq        string       `json:"seq"`
	SameObject bool         `json:"same_activeauth_object"`
}

type swapDev struct{ cur iso7816.Transceiver }

func (s *swapDev) Transceive(cla, ins, p1, p2 int, data []byte, le int, enc []byte) []byte {
	return s.cur.Transceive(cla, ins, p1, p2, data, le, enc)
}

func aaHistSeqs(depth int) []string {
	var out []string
	var rec func(s string)
	rec = func(s string) {
		if len(s) > 0 {
			out = append(out, s)
		}
		if len(s) == depth {
			return
		}
		for _, l := range "GRK" {
			if l == 'R' && !bytes.ContainsRune([]byte(s), 'G') {
				continue
			}
			rec(s + string(l))
		}
	}
	rec("")
	return out
}

func runAAHist(h aaHist) (key, what, outcome string, exchanges int) {
	term := refchip.NewDetRand("terminal-aa-history")
	old := rand.Reader
	rand.Reader = term
	defer func() { rand.Reader = old }()

	spec := h.AA
	genuine := perso.Build(perso.Config{BAC: true, AA: &spec})
	doc := &document.Document{}
	if err := doc.NewDG(15, genuine.Files[15]); err != nil {
		return "harness", "NewDG15: " + err.Error(), "", 0
	}
	sw := &swapDev{}
	nfc := iso7816.NewNfcSession(sw)
	var shared *activeauth.ActiveAuth
	if h.SameObject {
		shared = activeauth.NewActiveAuth(nfc, doc)
	}
	var recorded []byte
	for i, l := range h.Seq {
		sp := h.AA
		if l == 'K' {
			sp.Clone = true
		}
		p := perso.Build(perso.Config{BAC: true, AA: &sp})
		chip := p.Chip
		chip.NoAccessRules = true
		chip.Rand = refchip.NewDetRand(fmt.Sprintf("chip-aa-run-%d", i))
		if l == 'R' {
			rec := recorded
			chip.Hostile = &refchip.Hostile{Exec: func(_ *refchip.Chip, cmd *ref7816.Cmd, _ bool) ([]byte, uint16, bool) {
				if cmd.INS == 0x88 {
					return bytes.Clone(rec), 0x9000, true
				}
				return nil, 0, false
			}}
		}
		sw.cur = chip
		a := shared
		if a == nil {
			a = activeauth.NewActiveAuth(nfc, doc)
		}
		var r *document.ActiveAuthResult
		var err error
		pv, _ := vc.Guard(func() { r, err = a.DoActiveAuth() })
		exchanges += len(chip.Log)
		if pv != nil {
			return "panic", fmt.Sprintf("DoActiveAuth panicked in run %d of %s: %v", i+1, h.Seq, pv), "panic", exchanges
		}
		ok := r != nil && r.Success
		switch l {
		case 'G':
			if !ok || err != nil {
				return "history/genuine-run-failed", fmt.Sprintf("run %d (genuine chip) of history %s (same object=%v) failed: %v", i+1, h.Seq, h.SameObject, err), "failed", exchanges
			}
			recorded = nil
			for _, ex := range chip.Log {
				if ex.Plain != nil && ex.Plain.INS == 0x88 && ex.SW == 0x9000 {
					recorded = bytes.Clone(ex.RespData)
				}
			}
			if recorded == nil {
				return "harness", "no INTERNAL AUTHENTICATE response to record", "", exchanges
			}
			if r.Evidence == nil || len(chip.Truth.AAChallenges) != 1 || !bytes.Equal(r.Evidence.Nonce, chip.Truth.AAChallenges[0]) {
				return "history/nonce-not-recorded", fmt.Sprintf("run %d of history %s: the evidence nonce is not the challenge the chip signed", i+1, h.Seq), "nonce", exchanges
			}
			outcome += "G:ok "
		default:
			name := map[rune]string{'R': "replayed-signature-of-recorded-run", 'K': "signature-by-another-key"}[l]
			if ok {
				return "history/impostor-accepted:" + name, fmt.Sprintf("run %d of history %s (same ActiveAuth object=%v): active authentication reported successful for %s", i+1, h.Seq, h.SameObject, name), "accepted", exchanges
			}
			outcome += string(l) + ":refused "
		}
	}
	return "", "", outcome, exchanges
}
