// Package c07: active authentication accepts exactly valid signatures over the challenge.
package c07

import (
	"bytes"
	"crypto/rsa"
	"encoding/json"
	"fmt"
	"math/big"

	"github.com/gmrtd/gmrtd/activeauth"
	"github.com/gmrtd/gmrtd/document"
	"github.com/gmrtd/gmrtd/verifier"

	"verif/internal/e2e"
	"verif/internal/perso"
	"verif/internal/refchip"
	"verif/internal/refcrypto"
	"verif/internal/refpki"
	"verif/internal/vc"
)

func init() {
	vc.Register(&vc.Check{ID: "C07", Level: "exploration", Run: run, Replay: replay, QuickSec: 170, ThoroSec: 1500,
		Rule:   "(1) activeauth.ValidateActiveAuthSignature on responses produced by the independent signer: RSA moduli 1024/2048/3072/4096 and 1031/1279/2041 bits (bit length not a multiple of 8) x 5 trailers (SHA-1/224/256/384/512) x chip-chosen M1 {00.., FF.., pattern, ending ..BC, ending ..CC} x challenges {00.., FF.., pattern}; ECDSA on 11 curves x {plain r||s, DER} x challenges, hash by key size => accepted. For genuine cases: every single-bit flip of the signature (quick: all bits for 1024/2048-bit RSA and all EC, every 5th bit above), every single-bit flip of the challenge, the same response under another key of the same size/curve, RSA: signature + modulus (same width where it fits, and one octet wider) => rejected (invalid by construction). (2) challenge plumbing end to end: Reader.WithAAChallenge(c) => the chip saw exactly c and the evidence nonce is c; Verifier.WithAAChallenge(c') hard-fails iff c' != c for c'=c and all 64 one-bit neighbours, on every call of every history of up to 3 Verify calls {matching evidence, evidence with another nonce, unparseable} on ONE armed Verifier, also when the evidence is otherwise unverifiable (algorithm changed, signature corrupted / oversize, DG15 removed), AA over RSA and ECDSA. distinct_nontrivial = distinct (key, trailer/format, M1 class, challenge, mutation class, verdict)",
		Assume: []string{"independent ISO/IEC 9796-2 scheme 1 signer and deterministic ECDSA signer of refchip/refpki (self-tested against crypto/rsa, crypto/ecdsa)", "for moduli whose bit length is not a multiple of 8 only the byte-aligned representative is demanded to verify", "signature forgery not searched; ECDSA malleability (r, n-s) is a valid signature and not generated"}})
}

type aaCase struct {
	RSABits  int    `json:"rsa_bits,omitempty"`
	KeyIdx   int    `json:"key_idx,omitempty"`
	Trailer  string `json:"trailer,omitempty"`
	M1       string `json:"m1,omitempty"`
	Curve    string `json:"curve,omitempty"`
	Explicit bool   `json:"explicit,omitempty"`
	DER      bool   `json:"der,omitempty"`
	Chal     string `json:"challenge"`
	Mut      string `json:"mutation,omitempty"` // "", sigbit, chalbit, otherkey
	Bit      int    `json:"bit,omitempty"`
}

var oddKeys = map[int]*rsa.PrivateKey{}

func rsaKey(bits, idx int) *rsa.PrivateKey {
	switch bits {
	case 1024, 2048, 3072, 4096:
		return refpki.LoadKey(refpki.RSA(bits, false, idx)).RSA
	}
	k := bits*10 + idx
	if oddKeys[k] == nil {
		oddKeys[k] = refpki.GenerateRSA(bits, fmt.Sprintf("c07-odd-%d-%d", bits, idx))
	}
	return oddKeys[k]
}

func challenge(name string) []byte {
	switch name {
	case "00":
		return make([]byte, 8)
	case "FF":
		return bytes.Repeat([]byte{0xFF}, 8)
	}
	return []byte{0x01, 0x23, 0x45, 0x67, 0x89, 0xAB, 0xCD, 0xEF}
}

func m1(name string, n int) []byte {
	b := make([]byte, n)
	switch name {
	case "00":
	case "FF":
		for i := range b {
			b[i] = 0xFF
		}
	case "endBC", "endCC":
		for i := range b {
			b[i] = byte(0x11 + 3*i)
		}
		if n > 0 {
			b[n-1] = map[string]byte{"endBC": 0xBC, "endCC": 0xCC}[name]
		}
		if n > 1 && name == "endCC" {
			b[n-2] = 0x34
		}
	default:
		for i := range b {
			b[i] = byte(0x5A ^ (i * 7))
		}
	}
	return b
}

func rsaDG15(key *rsa.PrivateKey) []byte {
	spki := refpki.DER(refpki.Seq(refpki.Seq(refpki.OID([]int{1, 2, 840, 113549, 1, 1, 1}), refpki.Null()),
		refpki.BitString(refpki.DER(refpki.Seq(refpki.Int(key.N), refpki.Int64(int64(key.E)))))))
	return wrap6F(spki)
}

func wrap6F(spki []byte) []byte {
	out := []byte{0x6F}
	switch {
	case len(spki) < 0x80:
		out = append(out, byte(len(spki)))
	case len(spki) < 0x100:
		out = append(out, 0x81, byte(len(spki)))
	default:
		out = append(out, 0x82, byte(len(spki)>>8), byte(len(spki)))
	}
	return append(out, spki...)
}

func ecDG15(key *refpki.ECPrivateKey, explicit bool) []byte {
	var params *refpki.Node
	if explicit {
		params = key.Curve.ExplicitParams()
	} else {
		params = refpki.OID(key.Curve.OID)
	}
	return wrap6F(refpki.DER(refpki.Seq(refpki.Seq(refpki.OID([]int{1, 2, 840, 10045, 2, 1}), params), refpki.BitString(key.Point()))))
}

// build returns DG15 bytes, the response and the challenge for the (possibly mutated) case, and whether it is genuine.
func build(ac aaCase) (dg15, resp, chal []byte, genuine bool) {
	chal = challenge(ac.Chal)
	if ac.Curve == "" {
		key := rsaKey(ac.RSABits, ac.KeyIdx)
		resp = refchip.AASignRSA(key, ac.Trailer, m1(ac.M1, refchip.AAM1Len(key, ac.Trailer)), chal)
		dg15 = rsaDG15(key)
		if ac.Mut == "otherkey" {
			dg15 = rsaDG15(rsaKey(ac.RSABits, ac.KeyIdx+1))
		}
	} else {
		curve := refpki.CurveByName(ac.Curve)
		key := refpki.DeriveECKey(curve, "c07-aa")
		r, s := key.SignDigest(perso.ECAAHash(curve).Sum(chal))
		if ac.DER {
			resp = refpki.ECDSASigDER(r, s)
		} else {
			l := (curve.N.BitLen() + 7) / 8
			resp = append(r.FillBytes(make([]byte, l)), s.FillBytes(make([]byte, l))...)
		}
		dg15 = ecDG15(key, ac.Explicit)
		if ac.Mut == "otherkey" {
			dg15 = ecDG15(refpki.DeriveECKey(curve, "c07-aa-other"), ac.Explicit)
		}
	}
	switch ac.Mut {
	case "":
		genuine = true
	case "sigbit":
		resp = bytes.Clone(resp)
		resp[ac.Bit/8] ^= 1 << (ac.Bit % 8)
	case "chalbit":
		chal = bytes.Clone(chal)
		chal[ac.Bit/8] ^= 1 << (ac.Bit % 8)
	case "sig-plus-modulus", "sig-plus-modulus-one-octet-longer":
		// s + N recovers the same message representative; RSAVP1 (RFC 8017 5.2.2 step 1) makes it invalid
		if ac.Curve == "" {
			n := rsaKey(ac.RSABits, ac.KeyIdx).N
			v := new(big.Int).Add(new(big.Int).SetBytes(resp), n)
			w := len(resp)
			if ac.Mut == "sig-plus-modulus-one-octet-longer" {
				w++
			}
			if (v.BitLen()+7)/8 > w {
				w = (v.BitLen() + 7) / 8
			}
			resp = v.FillBytes(make([]byte, w))
		}
	}
	return
}

func sigBits(ac aaCase) int {
	_, resp, _, _ := build(aaCase{RSABits: ac.RSABits, KeyIdx: ac.KeyIdx, Trailer: ac.Trailer, M1: ac.M1, Curve: ac.Curve, DER: ac.DER, Chal: ac.Chal})
	return len(resp) * 8
}

type verdict struct {
	Key, What, Outcome string
}

func evalCase(ac aaCase) verdict {
	dg15b, resp, chal, genuine := build(ac)
	var dg15 *document.DG15
	var err error
	if pv, _ := vc.Guard(func() { dg15, err = document.NewDG15(dg15b) }); pv != nil || err != nil || dg15 == nil {
		return verdict{Key: "dg15-rejected", What: fmt.Sprintf("NewDG15 failed on a well-formed DG15: %v %v", pv, err), Outcome: "dg15-error"}
	}
	var res *document.ActiveAuthResult
	var verr error
	if pv, _ := vc.Guard(func() { res, verr = activeauth.ValidateActiveAuthSignature(dg15, resp, chal) }); pv != nil {
		return verdict{Key: "panic", What: fmt.Sprintf("ValidateActiveAuthSignature panicked: %v", pv), Outcome: "panic"}
	}
	ok := res != nil && res.Success && verr == nil
	kind := "rsa"
	if ac.Curve != "" {
		kind = "ecdsa"
	}
	if genuine {
		if !ok {
			k := fmt.Sprintf("genuine-rejected/%s", kind)
			if ac.Curve == "" {
				k += fmt.Sprintf("/bits%%8=%d/trailer=%s", ac.RSABits%8, ac.Trailer)
			} else {
				k += fmt.Sprintf("/%s/der=%v", ac.Curve, ac.DER)
			}
			return verdict{Key: k, What: fmt.Sprintf("genuine active-authentication response rejected: %v (case %+v)", verr, ac), Outcome: "genuine-rejected"}
		}
		if res.Evidence == nil || !bytes.Equal(res.Evidence.Nonce, chal) || !bytes.Equal(res.Evidence.Signature, resp) {
			return verdict{Key: "evidence-not-recorded", What: "successful result does not record the challenge/response it verified", Outcome: "evidence"}
		}
		return verdict{Outcome: "genuine-accepted"}
	}
	if ok || (res != nil && res.Success) {
		return verdict{Key: fmt.Sprintf("invalid-accepted/%s/%s", kind, ac.Mut), What: fmt.Sprintf("response that is not a valid signature over the challenge was accepted (case %+v)", ac), Outcome: "invalid-accepted"}
	}
	return verdict{Outcome: "invalid-rejected"}
}

func run(c *vc.Ctx) {
	if err := refcrypto.SelfTest(); err != nil {
		c.HarnessError("refcrypto self-test: %v", err)
		return
	}
	if err := refpki.EnsureKeys(); err != nil {
		c.HarnessError("refpki keys: %v", err)
		return
	}
	do := func(sec string, ac aaCase) {
		v := evalCase(ac)
		c.Outcome(sec, v.Outcome)
		cls := ac
		cls.Bit = ac.Bit / 64
		c.Distinct(fmt.Sprintf("%+v/%s", cls, v.Outcome))
		if v.Key != "" {
			c.Violation(sec, v.Key, v.What, ac, func() bool { return evalCase(ac).Key != "" })
		}
	}
	trailers := []string{"BC", "38CC", "34CC", "36CC", "35CC"}
	m1s := []string{"00", "FF", "pt", "endBC", "endCC"}
	chals := []string{"00", "FF", "pt"}
	bitsList := []int{1024, 2048, 3072, 4096, 1031, 1279}
	if c.Thorough() {
		bitsList = append(bitsList, 2041)
	}
	sec1 := "RSA: genuine responses"
	c.SecBound(sec1, fmt.Sprintf("moduli %v x 5 trailers x 5 M1 contents x 3 challenges", bitsList))
	for _, bits := range bitsList {
		for _, tr := range trailers {
			for _, m := range m1s {
				for _, ch := range chals {
					if !c.Mine() {
						continue
					}
					do(sec1, aaCase{RSABits: bits, Trailer: tr, M1: m, Chal: ch})
				}
			}
		}
	}
	sec2 := "RSA: mutated responses"
	c.SecBound(sec2, "per modulus size x {BC,34CC,35CC} x {pattern M1}: every signature bit (quick: every 5th bit above 2048 bits), all 64 challenge bits, other key of the same size")
	for _, bits := range bitsList {
		for _, tr := range []string{"BC", "34CC", "35CC"} {
			base := aaCase{RSABits: bits, Trailer: tr, M1: "pt", Chal: "pt"}
			step := 1
			if bits > 2048 && c.Quick() {
				step = 5
			}
			n := ((bits + 7) / 8) * 8
			for blk := 0; blk < n; blk += 64 {
				if !c.Mine() {
					continue
				}
				if c.Expired() {
					c.SecNotExhaustive(sec2, "deadline")
					goto ec
				}
				for b := blk; b < blk+64 && b < n; b += step {
					ac := base
					ac.Mut, ac.Bit = "sigbit", b
					do(sec2, ac)
				}
			}
			if c.Mine() {
				for b := 0; b < 64; b++ {
					ac := base
					ac.Mut, ac.Bit = "chalbit", b
					do(sec2, ac)
				}
				ac := base
				ac.Mut = "otherkey"
				do(sec2, ac)
				for _, m := range []string{"sig-plus-modulus", "sig-plus-modulus-one-octet-longer"} {
					ac := base
					ac.Mut = m
					do(sec2, ac)
				}
			}
		}
	}
ec:
	sec3 := "ECDSA: genuine and mutated responses"
	c.SecBound(sec3, "11 curves x {named,explicit} x {plain,DER} x 3 challenges genuine; every signature bit, 64 challenge bits, other key on named/pattern")
	for _, curve := range refpki.CurveNames {
		for _, der := range []bool{false, true} {
			for _, ex := range []bool{false, true} {
				for _, ch := range chals {
					if !c.Mine() {
						continue
					}
					do(sec3, aaCase{Curve: curve, Explicit: ex, DER: der, Chal: ch})
				}
			}
			if !c.Mine() {
				continue
			}
			if c.Expired() {
				c.SecNotExhaustive(sec3, "deadline")
				goto plumbing
			}
			base := aaCase{Curve: curve, DER: der, Chal: "pt"}
			n := sigBits(base)
			for b := 0; b < n; b++ {
				ac := base
				ac.Mut, ac.Bit = "sigbit", b
				do(sec3, ac)
			}
			for b := 0; b < 64; b++ {
				ac := base
				ac.Mut, ac.Bit = "chalbit", b
				do(sec3, ac)
			}
			ac := base
			ac.Mut = "otherkey"
			do(sec3, ac)
		}
	}
	{
		// adversarial recovered blocks: the DG15 key is under the attacker's control, so the attacker can make the
		// recovered message representative F be ANY short byte string (signature = F^d mod n). Every F of length 1..2 and
		// every 3-byte F starting with 6A: the validator must reject without panicking.
		sec3b := "RSA: every short recovered block F (attacker-chosen key)"
		c.SecBound(sec3b, "all F of length 1 and 2 (65 792) and all 3-byte F beginning with 6A (65 536), signature = F^d mod n for a 1024-bit key, 2 challenges")
		key := rsaKey(1024, 0)
		dg15b := rsaDG15(key)
		dg15, err := document.NewDG15(dg15b)
		if err != nil || dg15 == nil {
			c.HarnessError("short-F: DG15: %v", err)
		} else {
			width := (key.N.BitLen() + 7) / 8
			tryF := func(f []byte) {
				sig := new(big.Int).Exp(new(big.Int).SetBytes(f), key.D, key.N).FillBytes(make([]byte, width))
				for _, ch := range []string{"00", "pt"} {
					var res *document.ActiveAuthResult
					pv, _ := vc.Guard(func() { res, _ = activeauth.ValidateActiveAuthSignature(dg15, sig, challenge(ch)) })
					switch {
					case pv != nil:
						c.Outcome(sec3b, "panic")
						c.Violation(sec3b, "panic/short-recovered-block", fmt.Sprintf("ValidateActiveAuthSignature panics when the signature recovers to F=%x: %v", f, pv), map[string]any{"F": vc.Hex(f), "signature": vc.Hex(sig)}, nil)
					case res != nil && res.Success:
						c.Outcome(sec3b, "accepted")
						c.Violation(sec3b, "invalid-accepted/rsa/short-recovered-block", fmt.Sprintf("signature recovering to F=%x accepted", f), map[string]any{"F": vc.Hex(f)}, nil)
					default:
						c.Outcome(sec3b, "rejected")
					}
				}
			}
			for hi := 0; hi < 256; hi++ {
				if !c.Mine() {
					continue
				}
				if c.Expired() {
					c.SecNotExhaustive(sec3b, "deadline")
					break
				}
				tryF([]byte{byte(hi)})
				for lo := 0; lo < 256; lo++ {
					tryF([]byte{byte(hi), byte(lo)})
					tryF([]byte{0x6A, byte(hi), byte(lo)})
				}
				c.Distinct(fmt.Sprintf("shortF/%02x", hi))
			}
		}
	}
	// genuine signatures over a "challenge" that is NOT 8 bytes long: not a signature over the challenge that is sent
	{
		sec3c := "signatures over challenges of other lengths"
		c.SecBound(sec3c, "RSA-1024/BC, RSA-2048/34CC, ECDSA P-256 plain, ECDSA brainpoolP384r1 DER x challenge lengths {0,1,7,9,16,32}: a response that IS a valid signature over that string must be rejected by ValidateActiveAuthSignature and by VerifyEvidence")
		type kcase struct {
			name string
			rsa  *rsa.PrivateKey
			tr   string
			ec   string
			der  bool
		}
		for ki, kc := range []kcase{{"rsa1024/BC", rsaKey(1024, 0), "BC", "", false}, {"rsa2048/34CC", rsaKey(2048, 0), "34CC", "", false}, {"ec/P-256", nil, "", "P-256", false}, {"ec/brainpoolP384r1/der", nil, "", "brainpoolP384r1", true}} {
			for _, n := range []int{0, 1, 7, 9, 16, 32} {
				if !c.Mine() {
					continue
				}
				ch := make([]byte, n)
				for i := range ch {
					ch[i] = byte(0x31 + i)
				}
				var dg15b, resp []byte
				var alg []int
				if kc.rsa != nil {
					resp = refchip.AASignRSA(kc.rsa, kc.tr, m1("pt", refchip.AAM1Len(kc.rsa, kc.tr)), ch)
					dg15b = rsaDG15(kc.rsa)
				} else {
					curve := refpki.CurveByName(kc.ec)
					key := refpki.DeriveECKey(curve, "c07-aa")
					r, sv := key.SignDigest(perso.ECAAHash(curve).Sum(ch))
					if kc.der {
						resp = refpki.ECDSASigDER(r, sv)
					} else {
						l := (curve.N.BitLen() + 7) / 8
						resp = append(r.FillBytes(make([]byte, l)), sv.FillBytes(make([]byte, l))...)
					}
					dg15b = ecDG15(key, false)
					alg = []int{1, 2, 840, 10045, 2, 1}
				}
				_ = alg
				dg15, err := document.NewDG15(dg15b)
				if err != nil || dg15 == nil {
					c.HarnessError("challenge-length: DG15: %v", err)
					continue
				}
				var res *document.ActiveAuthResult
				pv, _ := vc.Guard(func() { res, _ = activeauth.ValidateActiveAuthSignature(dg15, resp, ch) })
				c.Eval(1)
				rec := map[string]any{"key": kc.name, "challenge_len": n, "key_index": ki}
				switch {
				case pv != nil:
					c.Outcome(sec3c, "panic")
					c.Violation(sec3c, "panic/challenge-length", fmt.Sprintf("ValidateActiveAuthSignature panics for a %d-byte challenge: %v", n, pv), rec, nil)
				case res != nil && res.Success:
					c.Outcome(sec3c, "accepted")
					c.Violation(sec3c, "invalid-accepted/signature-over-a-challenge-of-another-length", fmt.Sprintf("%s: a signature over a %d-byte string is accepted as an active-authentication response (the challenge that is sent has exactly 8 bytes)", kc.name, n), rec, nil)
				default:
					c.Outcome(sec3c, "rejected")
				}
				c.Distinct(fmt.Sprintf("chlen/%s/%d", kc.name, n))
			}
		}
	}
plumbing:
	sec4 := "challenge plumbing: reader -> chip -> evidence -> offline verifier"
	c.SecBound(sec4, "AA over {RSA-2048/34CC, ECDSA brainpoolP256r1, ECDSA P-521 DER} x access {BAC, PACE-GM} x 3 challenges: chip-side challenge, evidence nonce, verifier with c and all 64 one-bit neighbours, 39 call histories on one armed Verifier")
	for _, aa := range []perso.AASpec{{RSABits: 2048, Trailer: "34CC"}, {Curve: "brainpoolP256r1"}, {Curve: "P-521", DER: true}} {
		for _, pace := range []bool{false, true} {
			for _, ch := range chals {
				if !c.Mine() {
					continue
				}
				aa := aa
				cfg := perso.Config{AA: &aa, DGs: []int{2}}
				if pace {
					cfg.PACE = []refchip.PACEProto{{Mapping: 2, Cipher: 2, ParamID: 13}}
				} else {
					cfg.BAC = true
				}
				cval := challenge(ch)
				p := perso.Build(cfg)
				r := e2e.Read(p, e2e.ReadOpts{AAChallenge: cval})
				c.Eval(1)
				rec := map[string]any{"aa": aa, "pace": pace, "challenge": vc.Hex(cval)}
				if r.Panic != nil || r.Err != nil || r.Doc == nil {
					c.Violation(sec4, "plumbing/read-failed", fmt.Sprintf("read with caller challenge failed: %v %v", r.Panic, r.Err), rec, nil)
					continue
				}
				s := r.Doc.Session
				if len(p.Chip.Truth.AAChallenges) != 1 || !bytes.Equal(p.Chip.Truth.AAChallenges[0], cval) {
					c.Violation(sec4, "plumbing/challenge-not-transmitted", fmt.Sprintf("caller supplied %x, chip received %x", cval, p.Chip.Truth.AAChallenges), rec, nil)
					continue
				}
				if s.ActiveAuthResult == nil || !s.ActiveAuthResult.Success || s.ActiveAuthResult.Evidence == nil || !bytes.Equal(s.ActiveAuthResult.Evidence.Nonce, cval) {
					c.Violation(sec4, "plumbing/challenge-not-recorded", "AA result/evidence does not carry the caller's challenge", rec, nil)
					continue
				}
				blob, err := r.Doc.ToCbor()
				if err != nil {
					c.Violation(sec4, "plumbing/export-failed", err.Error(), rec, nil)
					continue
				}
				for b := -1; b < 64; b++ {
					cp := bytes.Clone(cval)
					if b >= 0 {
						cp[b/8] ^= 1 << (b % 8)
					}
					v := e2e.Verify(p.Store, blob, cp)
					c.Eval(1)
					hard := v.Err != nil || v.Doc == nil
					switch {
					case v.Panic != nil:
						c.Violation(sec4, "plumbing/verifier-panic", fmt.Sprint(v.Panic), rec, nil)
					case b < 0 && hard:
						c.Violation(sec4, "plumbing/verifier-rejects-matching-challenge", fmt.Sprintf("offline verification with the challenge that was used fails: %v", v.Err), rec, nil)
					case b < 0 && (v.Doc.Session.ActiveAuthResult == nil || !v.Doc.Session.ActiveAuthResult.Success):
						c.Violation(sec4, "plumbing/offline-aa-not-reproduced", "offline AA verdict is not successful for genuine evidence", rec, nil)
					case b >= 0 && !hard:
						c.Violation(sec4, "plumbing/verifier-accepts-other-challenge", fmt.Sprintf("offline verification with challenge %x (recorded %x) does not hard-fail", cp, cval), rec, nil)
					}
					c.Outcome(sec4, map[bool]string{true: "hard-error", false: "verified"}[hard])
				}
				// ONE Verifier armed with the caller's challenge and used for a history of Verify calls: the binding
				// must hold on every call, whatever was verified (or failed to parse) before
				{
					ev := r.Doc.Session.ActiveAuthResult.Evidence
					orig := ev.Nonce
					ev.Nonce = append(bytes.Clone(orig[:7]), orig[7]^1)
					blobD, derr := r.Doc.ToCbor()
					ev.Nonce = orig
					pool, perr := e2e.Pool(p.Store)
					if derr != nil || perr != nil {
						c.HarnessError("verifier history setup: %v %v", derr, perr)
					} else {
						// recorded nonces of OTHER lengths that agree with the supplied challenge as far as they go
						// (a comparison over the shorter operand, or over a fixed 8 bytes, would accept them)
						for name, nn := range map[string][]byte{"prefix-4": bytes.Clone(orig[:4]), "challenge+00": append(bytes.Clone(orig), 0x00), "empty": {}, "prefix-7": bytes.Clone(orig[:7])} {
							ev.Nonce = nn
							bl, lerr := r.Doc.ToCbor()
							ev.Nonce = orig
							if lerr != nil {
								continue
							}
							v := e2e.Verify(p.Store, bl, cval)
							c.Eval(1)
							switch {
							case v.Panic != nil:
								c.Violation(sec4, "plumbing/verifier-panic", fmt.Sprint(v.Panic), rec, nil)
							case v.Err == nil && v.Doc != nil:
								c.Violation(sec4, "plumbing/verifier-accepts-nonce-of-other-length/"+name, fmt.Sprintf("recorded nonce %x (%s) differs from the supplied challenge %x but Verify returns no error", nn, name, cval), rec, nil)
								c.Outcome(sec4, "NOT-hard-error")
							default:
								c.Outcome(sec4, "hard-error")
							}
						}
						blobs := map[byte][]byte{'M': blob, 'D': blobD, 'X': {0xFF, 0x00}}
						var seqs []string
						for _, a := range "MDX" {
							seqs = append(seqs, string(a))
							for _, b := range "MDX" {
								seqs = append(seqs, string(a)+string(b))
								for _, d := range "MDX" {
									seqs = append(seqs, string(a)+string(b)+string(d))
								}
							}
						}
						for _, sq := range seqs {
							vf := verifier.NewVerifier(pool)
							if _, err := vf.WithAAChallenge(cval); err != nil {
								c.HarnessError("WithAAChallenge: %v", err)
								break
							}
							for i := 0; i < len(sq); i++ {
								var d *document.DocumentEx
								var verr error
								pv, _ := vc.Guard(func() { d, verr = vf.Verify(blobs[sq[i]]) })
								c.Eval(1)
								hard := verr != nil || d == nil
								switch {
								case pv != nil:
									c.Violation(sec4, "plumbing/verifier-panic", fmt.Sprint(pv), rec, nil)
								case sq[i] == 'M' && hard:
									c.Violation(sec4, "plumbing/reused-verifier-rejects-matching-challenge", fmt.Sprintf("call %d of history %s on one Verifier: matching evidence fails: %v", i+1, sq, verr), rec, nil)
								case sq[i] != 'M' && !hard:
									c.Violation(sec4, "plumbing/reused-verifier-accepts-other-nonce", fmt.Sprintf("call %d of history %s on one Verifier armed with %x: evidence with another nonce does not hard-fail", i+1, sq, cval), rec, nil)
								}
								c.Outcome(sec4, "history:"+string(sq[i])+map[bool]string{true: ":hard-error", false: ":verified"}[hard])
							}
						}
					}
				}
				// the hard failure on a differing nonce must not depend on the evidence being otherwise verifiable
				ev := r.Doc.Session.ActiveAuthResult.Evidence
				origAlg, origSig, origDg15 := ev.Algorithm, ev.Signature, r.Doc.Document.Mf.Lds1.Dg15
				for _, tamper := range []string{"algorithm-changed", "signature-corrupted", "dg15-removed", "signature-oversize"} {
					switch tamper {
					case "algorithm-changed":
						ev.Algorithm = []int{1, 2, 840, 113549, 1, 1, 10}
					case "signature-corrupted":
						ev.Signature = append(bytes.Clone(origSig[:len(origSig)-1]), origSig[len(origSig)-1]^1)
					case "dg15-removed":
						r.Doc.Document.Mf.Lds1.Dg15 = nil
					case "signature-oversize":
						ev.Signature = bytes.Repeat([]byte{0x30}, 5000)
					}
					b2, err := r.Doc.ToCbor()
					ev.Algorithm, ev.Signature, r.Doc.Document.Mf.Lds1.Dg15 = origAlg, origSig, origDg15
					if err != nil {
						continue
					}
					for _, other := range [][]byte{{0xFF, 0xFF, 0xFF, 0xFF, 0xFF, 0xFF, 0xFF, 0xFE}, func() []byte { x := bytes.Clone(cval); x[7] ^= 1; return x }()} {
						if bytes.Equal(other, cval) {
							continue
						}
						v := e2e.Verify(p.Store, b2, other)
						c.Eval(1)
						switch {
						case v.Panic != nil:
							c.Violation(sec4, "plumbing/verifier-panic", fmt.Sprint(v.Panic), rec, nil)
						case v.Err == nil && v.Doc != nil:
							c.Violation(sec4, "plumbing/no-hard-failure-on-differing-nonce-when-evidence-is-"+tamper, fmt.Sprintf("supplied challenge %x differs from the recorded nonce %x but Verify returns no error (evidence %s)", other, cval, tamper), rec, nil)
							c.Outcome(sec4, "NOT-hard-error")
						default:
							c.Outcome(sec4, "hard-error")
						}
					}
					// with the matching challenge a tampered bundle must at least not verify
					v := e2e.Verify(p.Store, b2, cval)
					c.Eval(1)
					if v.Panic != nil {
						c.Violation(sec4, "plumbing/verifier-panic", fmt.Sprint(v.Panic), rec, nil)
					} else if v.Doc != nil && v.Doc.Session.ActiveAuthResult != nil && v.Doc.Session.ActiveAuthResult.Success {
						c.Violation(sec4, "plumbing/tampered-evidence-verifies/"+tamper, "AA verdict successful for tampered evidence", rec, nil)
					}
				}
				c.Distinct(fmt.Sprintf("plumbing/%v/%v/%s", aa, pace, ch))
			}
		}
	}
	// histories of runs through the activeauth API
	sec5 := "histories of runs (activeauth API)"
	{
		depth := 3
		if c.Thorough() {
			depth = 4
		}
		seqs := aaHistSeqs(depth)
		specs := []perso.AASpec{{RSABits: 2048, Trailer: "34CC"}, {RSABits: 1024, Trailer: "BC"}, {Curve: "brainpoolP256r1"}, {Curve: "P-521", DER: true}}
		c.SecBound(sec5, fmt.Sprintf("%d key types x all %d histories of up to %d DoActiveAuth runs over {genuine chip, device returning the recorded signature of the last genuine run, device signing with another key} x {one ActiveAuth object for all runs, a new one per run}; library-drawn challenges from a never-repeating source", len(specs), len(seqs), depth))
		for _, sp := range specs {
			for _, sq := range seqs {
				for _, same := range []bool{true, false} {
					if !c.Mine() {
						continue
					}
					h := aaHist{AA: sp, Seq: sq, SameObject: same}
					k, w, out, ex := runAAHist(h)
					c.Eval(int64(len(sq)))
					c.Outcome(sec5, out)
					c.Distinct(fmt.Sprintf("aahist/%v/%s/%v/%s", sp, sq, same, out))
					_ = ex
					if k == "harness" {
						c.HarnessError("AA history %+v: %s", h, w)
						continue
					}
					if k != "" {
						c.Violation(sec5, k, w, h, func() bool { kk, _, _, _ := runAAHist(h); return kk != "" })
					}
				}
			}
		}
	}
	if c.Shard == 0 {
		c.Sample(aaCase{RSABits: 1023, Trailer: "35CC", M1: "endCC", Chal: "FF"})
		c.Sample(aaCase{Curve: "brainpoolP320r1", DER: true, Chal: "pt", Mut: "sigbit", Bit: 77})
	}
}

func replay(c *vc.Ctx, raw json.RawMessage) string {
	var hd struct {
		Section string `json:"section"`
		Case    aaHist `json:"case"`
	}
	if json.Unmarshal(raw, &hd) == nil && hd.Case.Seq != "" {
		k, w, out, _ := runAAHist(hd.Case)
		if k != "" {
			c.Violation(hd.Section, k, w, hd.Case, nil)
		}
		return fmt.Sprintf("AA history %+v -> %s; verdict: %s %s", hd.Case, out, k, w)
	}
	var doc struct {
		Section string          `json:"section"`
		Case    json.RawMessage `json:"case"`
	}
	if err := json.Unmarshal(raw, &doc); err != nil {
		return err.Error()
	}
	refpki.EnsureKeys()
	var ac aaCase
	if err := json.Unmarshal(doc.Case, &ac); err != nil || (ac.RSABits == 0 && ac.Curve == "") {
		return "plumbing case (re-run the check to reproduce): " + string(doc.Case)
	}
	v := evalCase(ac)
	if v.Key != "" {
		c.Violation(doc.Section, v.Key, v.What, ac, nil)
	}
	_, resp, chal, genuine := build(ac)
	return fmt.Sprintf("case %+v: genuine=%v response=%x… challenge=%x -> %s; verdict: %s %s", ac, genuine, resp[:8], chal, v.Outcome, v.Key, v.What)
}
