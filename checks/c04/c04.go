// Package c04: PACE succeeds with every conforming chip and fails closed otherwise.
package c04

import (
	"bytes"
	"crypto/rand"
	"encoding/json"
	"fmt"
	"math/big"
	"strings"

	"github.com/gmrtd/gmrtd/document"
	"github.com/gmrtd/gmrtd/iso7816"
	"github.com/gmrtd/gmrtd/pace"
	"github.com/gmrtd/gmrtd/password"

	"verif/internal/refchip"
	"verif/internal/refcrypto"
	"verif/internal/reflds"
	"verif/internal/refmrz"
	"verif/internal/refpki"
	"verif/internal/vc"
)

func init() {
	vc.Register(&vc.Check{ID: "C04", Level: "model_checking", Run: run, Replay: replay, QuickSec: 170, ThoroSec: 1800,
		Rule:   "real pace.DoPACE against the independent chip (own EC arithmetic, fixed-width ECKA secret per TR-03111) for ALL 77 configurations (parameter id 8..18 x {GM-3DES, GM-AES128/192/256, CAM-AES128/192/256}); terminal and chip randomness are explorer-owned (crypto/rand.Reader seam): scalar alphabet per role {2, n-2, pattern} in full product (quick: on 4 configurations; thorough: all 77) plus, on all 77, the slices where the shared x-coordinate or a transmitted public coordinate has a leading zero octet (found by deterministic search), passwords {TD1, TD2, TD3, TD1 extended, CAN}. Success oracle: Success, chip completed, first protected read works on both sides (same keys and counter), CAM result successful for CAM. Fail-closed (one deviation per run): wrong password, every single-bit flip of the encrypted nonce, mapping/agreement key replaced by {other valid point, off-curve point, the terminal's own key, truncated, 00}, every single-bit flip of the token, the genuine token cut or extended to 0/1/4/7/9/16 octets, a password-less device FOLLOWING the protocol on the nonce value zero with an encrypted nonce of 0..48 octets, every single-bit flip of the encrypted chip-authentication data; plus a device WITHOUT the password answering every step from {echo of the terminal's value, G, 2G} x {echo of the terminal's token, zeros, pattern} (complete 27-way product, reflection attacks). Selection: every ordered subset (<=3) of a 7-entry PACEInfo alphabet containing a supported entry. Histories: every sequence of up to 3 (thorough 4) runs on one session over {conforming chip, password-less replay of the recorded previous run, chip with another password}, through one reused Pace object and a new one per run. states = protocol runs, transitions = exchanges; distinct_nontrivial = distinct (configuration, scalar/deviation class, outcome)",
		Assume: []string{"refchip PACE follows ICAO 9303-11 §4.4 with BSI TR-03111 FE2OS encoding of the shared secret", "refcrypto anchored to ICAO App. D; EC arithmetic self-checked (generator on curve, n*G = infinity)", "MAC / discrete-log hardness not searched"}})
}

var dg1File = append([]byte{0x61, 0x5B, 0x5F, 0x1F, 0x58}, bytes.Repeat([]byte{'B'}, 88)...)

type advert struct {
	Mapping int  `json:"mapping"` // 1 DH-GM 2 ECDH-GM 4 ECDH-IM 6 CAM; 9 = unknown OID under id-PACE
	Cipher  int  `json:"cipher"`
	ParamID int  `json:"param"`
	NoParam bool `json:"no_param,omitempty"`
}

type paceCase struct {
	ParamID      int       `json:"param"`
	Cipher       int       `json:"cipher"`
	CAM          bool      `json:"cam"`
	Pwd          string    `json:"pwd"`     // td1 td2 td3 td1x can
	Scalars      [5]string `json:"scalars"` // terminal map, terminal KA, chip map, chip KA, nonce: "2" "n-2" "pt" or "lz:<role>"
	LZ           string    `json:"lz,omitempty"`
	Dev          string    `json:"dev,omitempty"`
	Bit          int       `json:"bit,omitempty"`
	Advert       []advert  `json:"advert,omitempty"` // CardAccess contents (default: just the configuration)
	ChipWrongPwd bool      `json:"chip_wrong_pwd,omitempty"`
}

type result struct {
	Key, What, Outcome string
	Exchanges          int
}

func cipherAlg(c int) refcrypto.Alg {
	return []refcrypto.Alg{0, refcrypto.TDES, refcrypto.AES128, refcrypto.AES192, refcrypto.AES256}[c]
}

func oidStr(mapping, cipher int) string {
	return fmt.Sprintf("0.4.0.127.0.7.2.2.4.%d.%d", mapping, cipher)
}

func mrzFor(pwd string) (zone, info string) {
	d := refmrz.Doc{DocCode: "P", Issuer: "UTO", Primary: "ERIKSSON", Secondary: "ANNA", Nationality: "UTO", DOB: "740812", Sex: "F", DOE: "320415", DocNumber: "L898902C3"}
	switch pwd {
	case "td1":
		d.Layout, d.DocCode = refmrz.TD1, "I"
	case "td1x":
		d.Layout, d.DocCode, d.DocNumber = refmrz.TD1, "I", "D23145890734"
	case "td2":
		d.Layout, d.DocCode, d.DocNumber = refmrz.TD2, "I", "AB12<4"
	default:
		d.Layout = refmrz.TD3
	}
	z, e, err := refmrz.Build(d)
	if err != nil {
		panic(err)
	}
	return z, e.MRZInfo
}

func fixed(v *big.Int, n int) []byte { return v.FillBytes(make([]byte, n)) }

func scalarValue(curve *refpki.Curve, name string, role int) *big.Int {
	switch name {
	case "2":
		return big.NewInt(int64(2 + role)) // distinct small values per role
	case "n-2":
		return new(big.Int).Sub(curve.N, big.NewInt(int64(2+role)))
	default:
		b := make([]byte, (curve.N.BitLen()+7)/8)
		for i := range b {
			b[i] = byte(0x3B + 0x29*i + 0x11*role)
		}
		v := new(big.Int).SetBytes(b)
		v.Mod(v, new(big.Int).Sub(curve.N, big.NewInt(3)))
		return v.Add(v, big.NewInt(2))
	}
}

func nonceValue(name string, n int) []byte {
	b := make([]byte, n)
	switch name {
	case "2":
		b[n-1] = 2
	case "n-2":
		for i := range b {
			b[i] = 0xFF
		}
		b[n-1] = 0xFD
	default:
		for i := range b {
			b[i] = byte(0xA7 + 0x35*i)
		}
	}
	return b
}

func leadingZero(curve *refpki.Curve, v *big.Int) bool { return fixed(v, curve.ByteLen())[0] == 0 }

// resolveScalars turns the named alphabet (and an optional leading-zero search) into concrete values.
// roles: 0 terminal map (b), 1 terminal KA (t), 2 chip map (a), 3 chip KA (c); nonce s.
// mapped generator G' = (s + a*b) G ; PK_IFD = t G' ; PK_IC = c G' ; K = t c G'.
func resolveScalars(curve *refpki.Curve, pc *paceCase, nonceLen int) (sc [4]*big.Int, s []byte, ok bool) {
	for r := 0; r < 4; r++ {
		sc[r] = scalarValue(curve, pc.Scalars[r], r)
	}
	s = nonceValue(pc.Scalars[4], nonceLen)
	if pc.LZ == "" {
		return sc, s, true
	}
	n := curve.N
	g := func() *big.Int {
		sv := new(big.Int).SetBytes(s)
		sv.Mod(sv, n)
		ab := new(big.Int).Mul(sc[2], sc[0])
		return sv.Add(sv, ab).Mod(sv, n)
	}
	mulG := func(k *big.Int) *big.Int {
		kk := new(big.Int).Mod(k, n)
		x, _ := curve.ScalarMult(curve.Gx, curve.Gy, kk)
		return x
	}
	pred := func() bool {
		gg := g()
		switch pc.LZ {
		case "shared-x/terminal-ka", "shared-x/chip-ka":
			k := new(big.Int).Mul(sc[1], sc[3])
			k.Mul(k, gg)
			x := mulG(k)
			return x != nil && leadingZero(curve, x)
		case "pub-x/terminal-map":
			return leadingZero(curve, mulG(sc[0]))
		case "pub-x/chip-map":
			return leadingZero(curve, mulG(sc[2]))
		case "pub-x/terminal-ka":
			x := mulG(new(big.Int).Mul(sc[1], gg))
			return x != nil && leadingZero(curve, x)
		case "pub-x/chip-ka":
			x := mulG(new(big.Int).Mul(sc[3], gg))
			return x != nil && leadingZero(curve, x)
		}
		panic("unknown lz role " + pc.LZ)
	}
	role := map[string]int{"shared-x/terminal-ka": 1, "shared-x/chip-ka": 3, "pub-x/terminal-map": 0, "pub-x/chip-map": 2, "pub-x/terminal-ka": 1, "pub-x/chip-ka": 3}[pc.LZ]
	for try := 0; try < 4000; try++ {
		sc[role] = big.NewInt(int64(7 + try))
		if pred() {
			return sc, s, true
		}
	}
	return sc, s, false
}

func runOne(pc paceCase) result {
	curve := refpki.CurveByName(refchip.StdCurve(pc.ParamID))
	alg := cipherAlg(pc.Cipher)
	mapping := 2
	if pc.CAM {
		mapping = 6
	}
	nonceLen := 16
	if alg == refcrypto.AES192 || alg == refcrypto.AES256 {
		nonceLen = 32
	}
	sc, s, ok := resolveScalars(curve, &pc, nonceLen)
	if !ok {
		return result{Outcome: "lz-not-found"}
	}
	zone, info := mrzFor(pc.Pwd)
	const can = "502917"

	chip := refchip.NewChip()
	chip.PACE = &refchip.PACEConf{Protos: []refchip.PACEProto{{Mapping: mapping, Cipher: pc.Cipher, ParamID: pc.ParamID}},
		Passwords: map[int][]byte{1: refchip.PasswordFromMRZInfo(info), 2: []byte(can)}}
	if pc.ChipWrongPwd {
		chip.PACE.Passwords = map[int][]byte{1: refchip.PasswordFromMRZInfo("X" + info[1:]), 2: []byte("502918")}
	}
	if strings.HasPrefix(pc.Dev, "nopwd-follow/") {
		// a device without the password that follows the protocol with an encrypted nonce of pc.Bit octets (all zero),
		// assuming the nonce VALUE zero
		z := make([]byte, pc.Bit)
		chip.PACE.NoPwdNonce = &z
		chip.PACE.Passwords = map[int][]byte{1: refchip.PasswordFromMRZInfo("X" + info[1:]), 2: []byte("502918")}
	}
	advs := pc.Advert
	if advs == nil {
		advs = []advert{{Mapping: mapping, Cipher: pc.Cipher, ParamID: pc.ParamID}}
	} else {
		// the chip supports every advertised entry that is standard and that the library could use
		chip.PACE.Protos = nil
		for _, a := range advs {
			if (a.Mapping == 2 || a.Mapping == 6) && a.Cipher >= 1 && a.Cipher <= 4 && refchip.StdCurve(a.ParamID) != "" && !a.NoParam {
				chip.PACE.Protos = append(chip.PACE.Protos, refchip.PACEProto{Mapping: a.Mapping, Cipher: a.Cipher, ParamID: a.ParamID})
			}
		}
	}
	var infos []reflds.SecInfo
	for _, a := range advs {
		infos = append(infos, reflds.SecInfo{Kind: "pace", OID: oidStr(a.Mapping, a.Cipher), Version: 2, HasID: !a.NoParam, ID: a.ParamID})
	}
	cardAccess := reflds.BuildCardAccess(infos).Bytes
	chip.AddMF(0x011C, 0x1C, cardAccess, refchip.AccFree)
	needCAM := false
	for _, a := range advs {
		if a.Mapping == 6 {
			needCAM = true
		}
	}
	if needCAM {
		// static key on the curve of the CAM entry
		camCurve := curve
		for _, a := range advs {
			if a.Mapping == 6 && refchip.StdCurve(a.ParamID) != "" {
				camCurve = refpki.CurveByName(refchip.StdCurve(a.ParamID))
				pidForKey := a.ParamID
				chip.PACE.CAMKey = refpki.DeriveECKey(camCurve, "cam-static")
				ci := append(append([]reflds.SecInfo{}, infos...), reflds.SecInfo{Kind: "ca-pk", OID: "0.4.0.127.0.7.2.2.1.2", AlgOID: "0.4.0.127.0.7.1.2",
					AlgParams: refpki.DER(refpki.Int64(int64(pidForKey))), PubKey: chip.PACE.CAMKey.Point()})
				cs := reflds.BuildCardSecurity(reflds.CardSecuritySpec{Infos: ci, DigestOID: "2.16.840.1.101.3.4.2.1"})
				if pc.Dev != "cam-cardsecurity-missing" {
					chip.AddMF(0x011D, 0x1D, cs.Bytes, refchip.AccPACESM)
				}
				break
			}
		}
	}
	chip.AddLDS(0x0101, 1, dg1File, refchip.AccSM)
	nb := (curve.N.BitLen() + 7) / 8
	chip.Rand.Queue = [][]byte{s, fixed(sc[2], nb), fixed(sc[3], nb)}
	term := refchip.NewDetRand("terminal")
	for _, r := range []int{0, 1} {
		b := fixed(sc[r], nb)
		b[1] ^= 0x42 // elliptic.GenerateKey flips this bit pattern of the bytes it reads
		term.Queue = append(term.Queue, b)
	}
	old := rand.Reader
	rand.Reader = term
	defer func() { rand.Reader = old }()

	// exchange indices: 0 MSE, 1 GA nonce, 2 GA map, 3 GA key agreement, 4 GA token
	var termMapPub, termKaPub []byte
	chip.Fault = func(n int, genuine []byte) []byte {
		if len(chip.Log) > 0 {
			if w := chip.Log[n].Wire; n == 2 && len(w) > 9 {
				termMapPub = w[9 : len(w)-1]
			} else if n == 3 && len(w) > 9 {
				termKaPub = w[9 : len(w)-1]
			}
		}
		if len(pc.Dev) > 6 && pc.Dev[:6] == "nopwd/" && n >= 2 && n <= 4 {
			// a device WITHOUT the password: every answer is fabricated from what the terminal sent (echo) or from public values
			var mk, kk, tk string
			fmt.Sscanf(strings.ReplaceAll(pc.Dev[6:], "/", " "), "%s %s %s", &mk, &kk, &tk)
			w := chip.Log[n].Wire
			pt := func(kind string, own []byte) []byte {
				switch kind {
				case "echo":
					return own
				case "G":
					return curve.EncodePoint(curve.Gx, curve.Gy)
				}
				x, y := curve.ScalarMult(curve.Gx, curve.Gy, big.NewInt(2))
				return curve.EncodePoint(x, y)
			}
			wrap := func(tag byte, v []byte) []byte {
				in := append(append([]byte{tag}, encLen(len(v))...), v...)
				return append(append(append([]byte{0x7C}, encLen(len(in))...), in...), 0x90, 0x00)
			}
			switch n {
			case 2:
				return wrap(0x82, pt(mk, w[9:len(w)-1]))
			case 3:
				return wrap(0x84, pt(kk, w[9:len(w)-1]))
			case 4:
				tok := make([]byte, 8)
				if i := bytes.Index(w, []byte{0x85, 0x08}); i >= 0 && tk == "echo" {
					tok = w[i+2 : i+10]
				} else if tk == "pattern" {
					tok = []byte{1, 2, 3, 4, 5, 6, 7, 8}
				}
				return wrap(0x86, tok)
			}
		}
		if len(pc.Dev) > 10 && pc.Dev[:10] == "malformed/" && len(genuine) >= 6 && genuine[len(genuine)-2] == 0x90 {
			// structurally malformed chip message at exchange pc.Bit (1..4)
			if n != pc.Bit {
				return nil
			}
			body := genuine[:len(genuine)-2]
			hl := 2
			if body[1] == 0x81 {
				hl = 3
			} else if body[1] == 0x82 {
				hl = 4
			}
			inner := bytes.Clone(body[hl:])
			wrap7c := func(in []byte) []byte {
				return append(append(append([]byte{0x7C}, encLen(len(in))...), in...), 0x90, 0x00)
			}
			switch pc.Dev[10:] {
			case "empty-7c":
				return []byte{0x7C, 0x00, 0x90, 0x00}
			case "wrong-inner-tag":
				inner[0] ^= 0x08
				return wrap7c(inner)
			case "garbage-object-first":
				g := []byte{inner[0], 0x03, 0x01, 0x02, 0x03}
				return wrap7c(append(g, inner...))
			case "without-7c":
				return append(inner, 0x90, 0x00)
			case "no-data":
				return []byte{0x90, 0x00}
			case "trailing-byte":
				return append(append(bytes.Clone(body), 0x00), 0x90, 0x00)
			case "length-one-too-long":
				m := bytes.Clone(genuine)
				m[hl-1]++
				return m
			}
			return nil
		}
		if pc.Dev == "" || len(genuine) < 6 || genuine[len(genuine)-2] != 0x90 {
			return nil
		}
		body := genuine[:len(genuine)-2]
		// locate the value of the inner data object: 7C L [tag L value ...]
		inner := func(tag byte) (off, l int) {
			p := 2
			if body[1] == 0x81 {
				p = 3
			} else if body[1] == 0x82 {
				p = 4
			}
			for p < len(body) {
				t := body[p]
				ll, hl := int(body[p+1]), 2
				if body[p+1] == 0x81 {
					ll, hl = int(body[p+2]), 3
				}
				if t == tag {
					return p + hl, ll
				}
				p += hl + ll
			}
			return -1, 0
		}
		replaceValue := func(tag byte, v []byte) []byte {
			// rebuild 7C { tag v } (+ keep nothing else)
			in := append([]byte{tag}, encLen(len(v))...)
			in = append(in, v...)
			out := append([]byte{0x7C}, encLen(len(in))...)
			return append(append(out, in...), 0x90, 0x00)
		}
		switch {
		case pc.Dev == "nonce-bitflip" && n == 1:
			off, l := inner(0x80)
			if off < 0 || pc.Bit >= l*8 {
				return nil
			}
			m := bytes.Clone(genuine)
			m[off+pc.Bit/8] ^= 1 << (pc.Bit % 8)
			return m
		case pc.Dev == "token-bitflip" && n == 4:
			off, l := inner(0x86)
			if off < 0 || pc.Bit >= l*8 {
				return nil
			}
			m := bytes.Clone(genuine)
			m[off+pc.Bit/8] ^= 1 << (pc.Bit % 8)
			return m
		case pc.Dev == "token-length" && n == 4:
			// the genuine token cut to / extended to pc.Bit octets (a comparison over the shorter operand accepts a prefix)
			off, l := inner(0x86)
			if off < 0 {
				return nil
			}
			t := bytes.Clone(body[off : off+l])
			if pc.Bit <= len(t) {
				t = t[:pc.Bit]
			} else {
				t = append(t, make([]byte, pc.Bit-len(t))...)
			}
			return replaceValue(0x86, t)
		case pc.Dev == "ecad-bitflip" && n == 4:
			off, l := inner(0x8A)
			if off < 0 || pc.Bit >= l*8 {
				return nil
			}
			m := bytes.Clone(genuine)
			m[off+pc.Bit/8] ^= 1 << (pc.Bit % 8)
			return m
		case (len(pc.Dev) > 4 && pc.Dev[:4] == "map/" && n == 2) || (len(pc.Dev) > 3 && pc.Dev[:3] == "ka/" && n == 3):
			tag := byte(0x82)
			own := termMapPub
			kind := pc.Dev[4:]
			if n == 3 {
				tag, own, kind = 0x84, termKaPub, pc.Dev[3:]
			}
			off, l := inner(tag)
			gen := bytes.Clone(body[off : off+l])
			switch kind {
			case "other-valid-point":
				x, y := curve.ScalarMult(curve.Gx, curve.Gy, big.NewInt(0x1234567))
				return replaceValue(tag, curve.EncodePoint(x, y))
			case "off-curve":
				gen[len(gen)-1] ^= 0x01
				return replaceValue(tag, gen)
			case "terminals-own-key":
				return replaceValue(tag, own)
			case "truncated":
				return replaceValue(tag, gen[:len(gen)-1])
			case "infinity-00":
				return replaceValue(tag, []byte{0x00})
			case "empty":
				return replaceValue(tag, nil)
			}
		}
		return nil
	}

	nfc := iso7816.NewNfcSession(chip)
	doc := &document.Document{}
	var err error
	doc.Mf.CardAccess, err = document.NewCardAccess(cardAccess)
	if err != nil || doc.Mf.CardAccess == nil {
		// a CardAccess the library cannot parse: with a supported entry present this already is a selection failure
		return result{Key: "select/cardaccess-unparseable", What: fmt.Sprintf("NewCardAccess failed on a CardAccess that contains a supported PACEInfo: %v (advert %+v)", err, advs), Outcome: "cardaccess-error"}
	}
	var pass *password.Password
	if pc.Pwd == "can" {
		pass = password.NewPasswordCan(can)
	} else {
		pass, err = password.NewPasswordMrz(zone)
		if err != nil {
			return result{Key: "password/valid-mrz-rejected", What: err.Error(), Outcome: "password-error"}
		}
	}
	var pr *document.PaceResult
	var cr *document.PaceCamResult
	var perr error
	pv, _ := vc.Guard(func() { pr, cr, perr = pace.NewPace(nfc, doc, pass).DoPACE() })
	res := result{Exchanges: len(chip.Log)}
	if pv != nil {
		res.Key, res.What, res.Outcome = "panic", fmt.Sprintf("DoPACE panicked: %v", pv), "panic"
		return res
	}
	success := pr != nil && pr.Success
	hostile := pc.Dev != "" || pc.ChipWrongPwd
	if !hostile {
		sel := ""
		if pc.Advert != nil {
			sel = "select/"
		}
		if !success {
			res.Outcome = "failed"
			res.Key = sel + "genuine/pace-failed"
			if k := chip.Truth.PACELastK; len(k) > 0 && k[0] == 0 {
				// root-cause signature: the agreed x-coordinate starts with a zero octet
				res.Key = sel + "genuine/pace-failed/shared-secret-with-leading-zero-octet"
			} else if pc.LZ != "" {
				res.Key += "/leading-zero:" + pc.LZ
			}
			if pc.Advert != nil {
				res.Key = "select/supported-entry-not-used"
				for _, a := range advs {
					if refchip.StdCurve(a.ParamID) == "" && !a.NoParam && (a.Mapping == 2 || a.Mapping == 6) {
						res.Key = "select/shadowed-by-entry-with-unsupported-parameter-id"
					}
				}
			}
			res.What = fmt.Sprintf("PACE against a conforming chip failed (chip completed=%v, exchanges=%d): %v", chip.Truth.PACECompleted, len(chip.Log), perr)
			return res
		}
		if !chip.Truth.PACECompleted || nfc.SM() == nil {
			res.Key, res.What, res.Outcome = "genuine/success-without-session", "Success reported but the chip did not complete PACE or no SM is installed", "inconsistent"
			return res
		}
		if _, e := nfc.SelectAid(refchip.AIDLDS1); e != nil {
			res.Key, res.What, res.Outcome = "genuine/session-keys-differ", fmt.Sprintf("first protected command after PACE fails: %v", e), "post-pace-failure"
			return res
		}
		data, rerr := nfc.ReadFile(0x0101)
		if rerr != nil || !bytes.Equal(data, dg1File) {
			res.Key, res.What, res.Outcome = "genuine/session-keys-differ", fmt.Sprintf("protected read after PACE fails: %v", rerr), "post-pace-failure"
			return res
		}
		if chip.SM == nil || !bytes.Equal(nfc.SM().SSC(), chip.SM.SSCBytes()) {
			res.Key, res.What, res.Outcome = "genuine/ssc-differ", "counters differ after the first protected exchanges", "ssc"
			return res
		}
		usedCAM := chip.Truth.PACECAM
		if usedCAM {
			if cr == nil || !cr.Success {
				res.Key, res.What, res.Outcome = "genuine/cam-not-reported", fmt.Sprintf("PACE-CAM completed with a conforming chip but the chip-authentication mapping is not reported successful: %v", perr), "cam-missing"
				return res
			}
		} else if cr != nil && cr.Success {
			res.Key, res.What, res.Outcome = "genuine/cam-reported-without-cam", "PaceCamResult successful although the chip ran generic mapping", "cam-bogus"
			return res
		}
		res.Outcome = "success+protected-read"
		if usedCAM {
			res.Outcome += "+cam"
		}
		return res
	}
	// hostile
	if pc.Dev == "cam-cardsecurity-missing" {
		// a chip that runs PACE-CAM correctly but has no EF.CardSecurity: the mapping cannot be verified
		if cr != nil && cr.Success {
			res.Key, res.What, res.Outcome = "hostile/cam-success-without-cardsecurity", "PaceCamResult successful although the chip has no EF.CardSecurity", "cam-accepted"
			return res
		}
		res.Outcome = "cam-not-successful"
		return res
	}
	if pc.Dev == "ecad-bitflip" {
		if cr != nil && cr.Success {
			res.Key, res.What, res.Outcome = "hostile/cam-success-with-altered-ecad", fmt.Sprintf("encrypted chip-authentication data altered (bit %d) but PaceCamResult is successful", pc.Bit), "cam-accepted"
			return res
		}
		res.Outcome = "cam-not-successful"
		return res
	}
	if success {
		res.Key, res.What, res.Outcome = "hostile/accepted:"+pc.Dev, fmt.Sprintf("PACE reported success although %s (bit %d, wrong password=%v)", pc.Dev, pc.Bit, pc.ChipWrongPwd), "accepted"
		return res
	}
	if nfc.SM() != nil {
		res.Key, res.What, res.Outcome = "hostile/session-installed:"+pc.Dev, "PACE failed but an SM session is installed", "sm-installed"
		return res
	}
	res.Outcome = "failed-closed"
	return res
}

func encLen(n int) []byte {
	if n < 0x80 {
		return []byte{byte(n)}
	}
	if n < 0x100 {
		return []byte{0x81, byte(n)}
	}
	return []byte{0x82, byte(n >> 8), byte(n)}
}

type config struct {
	ParamID, Cipher int
	CAM             bool
}

func allConfigs() []config {
	var out []config
	for p := 8; p <= 18; p++ {
		for c := 1; c <= 4; c++ {
			out = append(out, config{p, c, false})
		}
		for c := 2; c <= 4; c++ {
			out = append(out, config{p, c, true})
		}
	}
	return out
}

var lzRoles = []string{"shared-x/terminal-ka", "shared-x/chip-ka", "pub-x/terminal-map", "pub-x/chip-map", "pub-x/terminal-ka", "pub-x/chip-ka"}

func run(c *vc.Ctx) {
	if err := refcrypto.SelfTest(); err != nil {
		c.HarnessError("refcrypto self-test: %v", err)
		return
	}
	do := func(sec string, pc paceCase, label string) {
		r := runOne(pc)
		c.AddStates(1)
		c.AddTrans(int64(r.Exchanges))
		c.AddTraces(1)
		c.Outcome(sec, r.Outcome)
		c.Distinct(label + "/" + r.Outcome)
		if r.Key != "" {
			c.Violation(sec, r.Key, r.What, pc, func() bool { return runOne(pc).Key != "" })
		}
	}
	cfgs := allConfigs()
	pt := [5]string{"pt", "pt", "pt", "pt", "pt"}
	// (1) all 77 configurations: default scalars, leading-zero slices, passwords
	sec1 := "all 77 configurations: default + leading-zero slices + passwords"
	c.SecBound(sec1, "77 configurations x (pattern scalars x 5 passwords + 6 leading-zero slices)")
	for _, cf := range cfgs {
		for _, pwd := range []string{"td3", "td1", "td2", "td1x", "can"} {
			if !c.Mine() {
				continue
			}
			do(sec1, paceCase{ParamID: cf.ParamID, Cipher: cf.Cipher, CAM: cf.CAM, Pwd: pwd, Scalars: pt}, fmt.Sprintf("cfg/%v/%s", cf, pwd))
		}
		for _, lz := range lzRoles {
			if !c.Mine() {
				continue
			}
			if c.Expired() {
				c.SecNotExhaustive(sec1, "deadline")
				break
			}
			do(sec1, paceCase{ParamID: cf.ParamID, Cipher: cf.Cipher, CAM: cf.CAM, Pwd: "td3", Scalars: pt, LZ: lz}, fmt.Sprintf("cfg/%v/lz/%s", cf, lz))
		}
	}
	// (2) full product of the scalar alphabet
	sec2 := "full product of the scalar alphabet {2,n-2,pattern}^5"
	prod := []config{{13, 2, false}, {12, 1, false}, {16, 4, true}, {8, 3, false}}
	if c.Thorough() {
		prod = cfgs
	}
	c.SecBound(sec2, fmt.Sprintf("%d configuration(s) x 243 combinations of (terminal map, terminal KA, chip map, chip KA, nonce)", len(prod)))
	names := []string{"2", "n-2", "pt"}
	for _, cf := range prod {
		for i := 0; i < 243; i++ {
			if !c.Mine() {
				continue
			}
			if c.Expired() {
				c.SecNotExhaustive(sec2, "deadline")
				goto hostile
			}
			sc := [5]string{names[i%3], names[i/3%3], names[i/9%3], names[i/27%3], names[i/81%3]}
			do(sec2, paceCase{ParamID: cf.ParamID, Cipher: cf.Cipher, CAM: cf.CAM, Pwd: "td3", Scalars: sc}, fmt.Sprintf("prod/%v/%d", cf, i))
		}
	}
hostile:
	// (3) fail closed
	sec3 := "fail-closed: one altered chip message per run"
	hcfgs := []config{{13, 2, false}, {12, 1, false}, {16, 4, true}, {9, 3, true}}
	if c.Thorough() {
		hcfgs = append(hcfgs, config{18, 4, false}, config{8, 1, false}, config{17, 2, true}, config{14, 3, false}, config{10, 2, true}, config{11, 4, false}, config{15, 2, false})
	}
	c.SecBound(sec3, fmt.Sprintf("%d configurations x {wrong password (MRZ and CAN), every bit of the encrypted nonce, 6 replacements of the mapping key, 6 of the agreement key, every bit of the token, every bit of the encrypted chip-authentication data (CAM)}", len(hcfgs)))
	for _, cf := range hcfgs {
		base := paceCase{ParamID: cf.ParamID, Cipher: cf.Cipher, CAM: cf.CAM, Pwd: "td3", Scalars: pt}
		lab := fmt.Sprintf("h/%v", cf)
		for _, pwd := range []string{"td3", "can"} {
			if !c.Mine() {
				continue
			}
			pc := base
			pc.Pwd, pc.ChipWrongPwd, pc.Dev = pwd, true, "wrong-password"
			do(sec3, pc, lab+"/wrongpwd/"+pwd)
		}
		nl := 128
		if cf.Cipher >= 3 {
			nl = 256
		}
		for b := 0; b < nl; b++ {
			if !c.Mine() {
				continue
			}
			pc := base
			pc.Dev, pc.Bit = "nonce-bitflip", b
			do(sec3, pc, fmt.Sprintf("%s/nonce/%d", lab, b))
		}
		for _, k := range []string{"other-valid-point", "off-curve", "terminals-own-key", "truncated", "infinity-00", "empty"} {
			if !c.Mine() {
				continue
			}
			pc := base
			pc.Dev = "map/" + k
			do(sec3, pc, lab+"/"+pc.Dev)
			pc.Dev = "ka/" + k
			do(sec3, pc, lab+"/"+pc.Dev)
		}
		// structurally malformed chip messages at each of the four GENERAL AUTHENTICATE answers
		for msg := 1; msg <= 4; msg++ {
			for _, k := range []string{"empty-7c", "wrong-inner-tag", "garbage-object-first", "without-7c", "no-data", "trailing-byte", "length-one-too-long"} {
				if !c.Mine() {
					continue
				}
				pc := base
				pc.Dev, pc.Bit = "malformed/"+k, msg
				do(sec3, pc, fmt.Sprintf("%s/malformed/%d/%s", lab, msg, k))
			}
		}
		// a device without the password that follows the protocol honestly on a guessed nonce value (zero), for
		// every length of the encrypted nonce it may send: none of them may be accepted
		for _, zl := range []int{0, 1, 8, 15, 16, 17, 24, 32, 48} {
			if !c.Mine() {
				continue
			}
			pc := base
			pc.Dev, pc.Bit = "nopwd-follow/encrypted-nonce-octets", zl
			do(sec3, pc, fmt.Sprintf("%s/nopwd-follow/%d", lab, zl))
		}
		// a device without the password: complete product of its answer options
		for _, mk := range []string{"echo", "G", "2G"} {
			for _, kk := range []string{"echo", "G", "2G"} {
				for _, tk := range []string{"echo", "zeros", "pattern"} {
					if !c.Mine() {
						continue
					}
					pc := base
					pc.Dev = fmt.Sprintf("nopwd/%s/%s/%s", mk, kk, tk)
					do(sec3, pc, lab+"/"+pc.Dev)
				}
			}
		}
		for b := 0; b < 64; b++ {
			if !c.Mine() {
				continue
			}
			pc := base
			pc.Dev, pc.Bit = "token-bitflip", b
			do(sec3, pc, fmt.Sprintf("%s/token/%d", lab, b))
		}
		for _, tl := range []int{0, 1, 4, 7, 9, 16} {
			if !c.Mine() {
				continue
			}
			pc := base
			pc.Dev, pc.Bit = "token-length", tl
			do(sec3, pc, fmt.Sprintf("%s/token-length/%d", lab, tl))
		}
		if cf.CAM && c.Mine() {
			pc := base
			pc.Dev = "cam-cardsecurity-missing"
			do(sec3, pc, lab+"/cam-cardsecurity-missing")
		}
		if cf.CAM {
			curve := refpki.CurveByName(refchip.StdCurve(cf.ParamID))
			el := ((curve.N.BitLen()+7)/8/16 + 1) * 16 * 8
			for b := 0; b < el; b++ {
				if !c.Mine() {
					continue
				}
				if c.Expired() {
					c.SecNotExhaustive(sec3, "deadline")
					goto sel
				}
				pc := base
				pc.Dev, pc.Bit = "ecad-bitflip", b
				do(sec3, pc, fmt.Sprintf("%s/ecad/%d", lab, b))
			}
		}
	}
sel:
	// (4) selection among several PACEInfos
	sec4 := "selection: ordered subsets (<=3) of the PACEInfo alphabet"
	alpha := []advert{{2, 2, 13, false}, {6, 2, 13, false}, {2, 1, 12, false}, {4, 4, 13, false}, {1, 4, 0, false}, {9, 2, 13, false}, {2, 4, 19, false}}
	supported := func(a advert) bool { return (a.Mapping == 2 || a.Mapping == 6) && refchip.StdCurve(a.ParamID) != "" }
	c.SecBound(sec4, "alphabet {GM-AES128@13, CAM-AES128@13, GM-3DES@12, ECDH-IM-AES256@13 (unsupported mapping), DH-GM-AES256@0 (unsupported), unknown OID under id-PACE, GM-AES256@19 (RFU parameter id)}; every ordered subset of size 1..3 with at least one supported entry")
	var subsets [][]advert
	var gen func(cur []advert, used int)
	gen = func(cur []advert, used int) {
		if len(cur) > 0 {
			has := false
			for _, a := range cur {
				if supported(a) {
					has = true
				}
			}
			if has {
				subsets = append(subsets, append([]advert{}, cur...))
			}
		}
		if len(cur) == 3 {
			return
		}
		for i, a := range alpha {
			if used&(1<<i) == 0 {
				gen(append(cur, a), used|1<<i)
			}
		}
	}
	gen(nil, 0)
	for i, sub := range subsets {
		if !c.Mine() {
			continue
		}
		if c.Expired() {
			c.SecNotExhaustive(sec4, "deadline")
			break
		}
		// configuration fields are only used for scalar sizing: take the first supported entry
		var first advert
		for _, a := range sub {
			if supported(a) {
				first = a
				break
			}
		}
		// scalars must fit the curve the library will choose; with mixed curves (12 and 13 are both 256 bit) sizes agree
		pc := paceCase{ParamID: first.ParamID, Cipher: first.Cipher, CAM: first.Mapping == 6, Pwd: "td3", Scalars: pt, Advert: sub}
		do(sec4, pc, fmt.Sprintf("sel/%d", i))
	}
	// (5) histories of runs on one session
	sec5 := "histories of runs on one session"
	depth := 3
	if c.Thorough() {
		depth = 4
	}
	seqs := histSeqs(depth)
	hcfg := []histCase{{ParamID: 13, Cipher: 2}, {ParamID: 12, Cipher: 1}, {ParamID: 13, Cipher: 2, CAM: true}, {ParamID: 16, Cipher: 4, CAM: true}}
	c.SecBound(sec5, fmt.Sprintf("%d configurations x all %d histories of up to %d runs over {conforming chip, password-less device replaying every recorded response of the last conforming run, conforming chip with another password} x {one Pace object for all runs, a new one per run}; terminal randoms never repeat", len(hcfg), len(seqs), depth))
	for _, h0 := range hcfg {
		for _, sq := range seqs {
			for _, same := range []bool{true, false} {
				if !c.Mine() {
					continue
				}
				if c.Expired() {
					c.SecNotExhaustive(sec5, "deadline")
					break
				}
				hc := h0
				hc.Seq, hc.SameObject = sq, same
				r := runHist(hc)
				c.AddStates(int64(len(sq)))
				c.AddTrans(int64(r.Exchanges))
				c.AddTraces(1)
				c.Outcome(sec5, r.Outcome)
				c.Distinct(fmt.Sprintf("hist/%d/%d/%v/%s/%v/%s", hc.ParamID, hc.Cipher, hc.CAM, sq, same, r.Outcome))
				if r.Key == "harness" {
					c.HarnessError("%s", r.What)
					continue
				}
				if r.Key != "" {
					c.Violation(sec5, r.Key, r.What, hc, func() bool { return runHist(hc).Key != "" })
				}
			}
		}
	}
	if c.Shard == 0 {
		c.Sample(paceCase{ParamID: 13, Cipher: 2, Pwd: "td3", Scalars: pt, LZ: "shared-x/terminal-ka"})
		c.Sample(paceCase{ParamID: 16, Cipher: 4, CAM: true, Pwd: "can", Scalars: [5]string{"2", "n-2", "pt", "2", "n-2"}, Dev: "token-bitflip", Bit: 17})
	}
}

func replay(c *vc.Ctx, raw json.RawMessage) string {
	var hd struct {
		Section string   `json:"section"`
		Case    histCase `json:"case"`
	}
	if json.Unmarshal(raw, &hd) == nil && hd.Case.Seq != "" {
		r := runHist(hd.Case)
		if r.Key != "" {
			c.Violation(hd.Section, r.Key, r.What, hd.Case, nil)
		}
		return fmt.Sprintf("history %+v -> %s; verdict: %s %s", hd.Case, r.Outcome, r.Key, r.What)
	}
	var doc struct {
		Section string   `json:"section"`
		Case    paceCase `json:"case"`
	}
	if err := json.Unmarshal(raw, &doc); err != nil {
		return err.Error()
	}
	r := runOne(doc.Case)
	if r.Key != "" {
		c.Violation(doc.Section, r.Key, r.What, doc.Case, nil)
	}
	return fmt.Sprintf("case %+v -> outcome %s after %d exchanges; verdict: %s %s", doc.Case, r.Outcome, r.Exchanges, r.Key, r.What)
}
