package c04

import (
	"bytes"
	"crypto/rand"
	"fmt"

	"github.com/gmrtd/gmrtd/document"
	"github.com/gmrtd/gmrtd/iso7816"
	"github.com/gmrtd/gmrtd/pace"
	"github.com/gmrtd/gmrtd/password"

	"verif/internal/refchip"
	"verif/internal/reflds"
	"verif/internal/refpki"
	"verif/internal/vc"
)

// histCase is a HISTORY of PACE runs on one NFC session (the card is re-presented between runs: secure
// messaging dropped, chip state fresh). Seq has one letter per run:
//
//	G  a conforming chip with fresh nonce and ephemeral keys
//	R  a device WITHOUT the password that recorded the most recent G run and answers every command of the
//	   run with the recorded response, in order (same encrypted nonce, same public keys, same token)
//	W  a conforming chip personalised with ANOTHER password
//
// The terminal's random source never repeats, so a replayed token cannot match the new session: R and W must
// fail closed whatever happened before, also when one Pace object is used for all runs.
type histCase struct {
	ParamID    int    `json:"param"`
	Cipher     int    `json:"cipher"`
	CAM        bool   `json:"cam"`
	Seq        string `json:"seq"`
	SameObject bool   `json:"same_pace_object"`
}

type swapChip struct{ cur iso7816.Transceiver }

func (s *swapChip) Transceive(cla, ins, p1, p2 int, data []byte, le int, enc []byte) []byte {
	return s.cur.Transceive(cla, ins, p1, p2, data, le, enc)
}

// wireReplayer answers the n-th command with the n-th recorded response (6982 afterwards).
type wireReplayer struct {
	resp [][]byte
	n    int
}

func (r *wireReplayer) Transceive(cla, ins, p1, p2 int, data []byte, le int, enc []byte) []byte {
	if r.n < len(r.resp) {
		r.n++
		return bytes.Clone(r.resp[r.n-1])
	}
	r.n++
	return []byte{0x69, 0x82}
}

func histSeqs(depth int) []string {
	var out []string
	var rec func(s string)
	rec = func(s string) {
		if len(s) > 0 {
			out = append(out, s)
		}
		if len(s) == depth {
			return
		}
		for _, l := range "GRW" {
			if l == 'R' && !bytes.ContainsRune([]byte(s), 'G') {
				continue
			}
			rec(s + string(l))
		}
	}
	rec("")
	return out
}

func runHist(hc histCase) result {
	curve := refpki.CurveByName(refchip.StdCurve(hc.ParamID))
	mapping := 2
	if hc.CAM {
		mapping = 6
	}
	zone, info := mrzFor("td3")
	infos := []reflds.SecInfo{{Kind: "pace", OID: oidStr(mapping, hc.Cipher), Version: 2, HasID: true, ID: hc.ParamID}}
	cardAccess := reflds.BuildCardAccess(infos).Bytes
	mkChip := func(run int, wrongPwd bool) *refchip.Chip {
		chip := refchip.NewChip()
		chip.PACE = &refchip.PACEConf{Protos: []refchip.PACEProto{{Mapping: mapping, Cipher: hc.Cipher, ParamID: hc.ParamID}},
			Passwords: map[int][]byte{1: refchip.PasswordFromMRZInfo(info)}}
		if wrongPwd {
			chip.PACE.Passwords = map[int][]byte{1: refchip.PasswordFromMRZInfo("X" + info[1:])}
		}
		chip.AddMF(0x011C, 0x1C, cardAccess, refchip.AccFree)
		if hc.CAM {
			chip.PACE.CAMKey = refpki.DeriveECKey(curve, "cam-static")
			ci := append(append([]reflds.SecInfo{}, infos...), reflds.SecInfo{Kind: "ca-pk", OID: "0.4.0.127.0.7.2.2.1.2", AlgOID: "0.4.0.127.0.7.1.2",
				AlgParams: refpki.DER(refpki.Int64(int64(hc.ParamID))), PubKey: chip.PACE.CAMKey.Point()})
			cs := reflds.BuildCardSecurity(reflds.CardSecuritySpec{Infos: ci, DigestOID: "2.16.840.1.101.3.4.2.1"})
			chip.AddMF(0x011D, 0x1D, cs.Bytes, refchip.AccPACESM)
		}
		chip.AddLDS(0x0101, 1, dg1File, refchip.AccSM)
		chip.Rand = refchip.NewDetRand(fmt.Sprintf("chip-pace-run-%d", run))
		return chip
	}
	term := refchip.NewDetRand("terminal-pace-history")
	old := rand.Reader
	rand.Reader = term
	defer func() { rand.Reader = old }()

	sw := &swapChip{}
	nfc := iso7816.NewNfcSession(sw)
	doc := &document.Document{}
	var err error
	if doc.Mf.CardAccess, err = document.NewCardAccess(cardAccess); err != nil {
		return result{Key: "harness", What: "NewCardAccess: " + err.Error()}
	}
	pass, err := password.NewPasswordMrz(zone)
	if err != nil {
		return result{Key: "harness", What: "password: " + err.Error()}
	}
	var shared *pace.Pace
	if hc.SameObject {
		shared = pace.NewPace(nfc, doc, pass)
	}
	var recorded [][]byte
	var res result
	for i, l := range hc.Seq {
		nfc.SetSecureMessaging(nil)
		var chip *refchip.Chip
		var rp *wireReplayer
		switch l {
		case 'G':
			chip = mkChip(i, false)
			sw.cur = chip
		case 'W':
			chip = mkChip(i, true)
			sw.cur = chip
		case 'R':
			rp = &wireReplayer{resp: recorded}
			sw.cur = rp
		}
		p := shared
		if p == nil {
			p = pace.NewPace(nfc, doc, pass)
		}
		var pr *document.PaceResult
		var perr error
		pv, _ := vc.Guard(func() { pr, _, perr = p.DoPACE() })
		if chip != nil {
			res.Exchanges += len(chip.Log)
		} else {
			res.Exchanges += rp.n
		}
		if pv != nil {
			return result{Key: "panic", What: fmt.Sprintf("DoPACE panicked in run %d of %s: %v", i+1, hc.Seq, pv), Outcome: "panic", Exchanges: res.Exchanges}
		}
		success := pr != nil && pr.Success
		switch l {
		case 'G':
			if !success || !chip.Truth.PACECompleted || nfc.SM() == nil {
				res.Key, res.What, res.Outcome = "history/genuine-run-failed", fmt.Sprintf("run %d (conforming chip) of history %s (same object=%v) failed: success=%v err=%v chip-completed=%v", i+1, hc.Seq, hc.SameObject, success, perr, chip.Truth.PACECompleted), "failed"
				return res
			}
			n := len(chip.Log) // what an eavesdropper holds: the responses of the PACE run itself
			recorded = nil
			for _, ex := range chip.Log[:n] {
				if ex.Protected {
					break
				}
				recorded = append(recorded, bytes.Clone(ex.WireResp))
			}
			if _, e := nfc.SelectAid(refchip.AIDLDS1); e != nil {
				res.Key, res.What, res.Outcome = "history/genuine-run-session-unusable", fmt.Sprintf("run %d of history %s: first protected command fails: %v", i+1, hc.Seq, e), "post-pace-failure"
				return res
			}
			data, rerr := nfc.ReadFile(0x0101)
			if rerr != nil || !bytes.Equal(data, dg1File) {
				res.Key, res.What, res.Outcome = "history/genuine-run-session-unusable", fmt.Sprintf("run %d of history %s: protected read fails: %v", i+1, hc.Seq, rerr), "post-pace-failure"
				return res
			}
			res.Outcome += "G:ok "
		default:
			kind := map[rune]string{'R': "replay-of-recorded-run", 'W': "chip-with-other-password"}[l]
			if success {
				res.Key, res.What, res.Outcome = "history/accepted:"+kind, fmt.Sprintf("run %d of history %s (same Pace object=%v): PACE reported success for %s", i+1, hc.Seq, hc.SameObject, kind), "accepted"
				return res
			}
			if nfc.SM() != nil {
				res.Key, res.What, res.Outcome = "history/session-installed:"+kind, fmt.Sprintf("run %d of history %s (same Pace object=%v): PACE failed but secure messaging is installed", i+1, hc.Seq, hc.SameObject), "sm-installed"
				return res
			}
			res.Outcome += string(l) + ":failed-closed "
		}
	}
	return res
}
