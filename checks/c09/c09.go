// Package c09 checks property C09: genuine security objects verify for every supported algorithm profile.
package c09

import (
	"encoding/json"
	"fmt"
	"math/big"
	"regexp"
	"sort"
	"strings"
	"time"

	"github.com/gmrtd/gmrtd/cms"
	"github.com/gmrtd/gmrtd/document"
	"github.com/gmrtd/gmrtd/passiveauth"

	"verif/internal/refpki"
	"verif/internal/vc"
)

func init() {
	vc.Register(&vc.Check{ID: "C09", Level: "exploration", Run: run, Replay: replay, QuickSec: 110, ThoroSec: 1150,
		Rule:   "documents issued by the independent issuer refpki over the profile matrix CSCA key {RSA-2048 PKCS1, RSA-3072 PSS, ECDSA on 11 curves} x DS key {RSA-2048/3072/4096 PKCS1, RSA-2048 PSS, ECDSA on 11 curves x {named, explicit parameters}} x digest {SHA-1..512} x SID {issuerAndSerial, SKI}, each with the one-factor variants (encoding, LDS SO version, signing time at the inclusive ends of the DS and of the CSCA validity, name invariances, extra certificates before/after the signer, anchors with equal SKI, CardSecurity, master-list pool, hash-list order, ...) and all pairs of variants that touch different parts. quick = one-factor-at-a-time and pairwise around 4 baselines + all CSCA x DS-key x digest triples in the base form; thorough = full product x every variant + pairs under a covering set of profiles. Each document is assembled with the library's own file constructors and passed to passiveauth.PassiveAuth; required outcome: Success. distinct_nontrivial = distinct (profile, variant) documents accepted",
		Assume: []string{"refpki (independent of gmrtd) issues correct DER: cross-checked at start against crypto/x509, crypto/rsa, crypto/ecdsa (self-test)", "Go standard library crypto"}})
}

// ---- case description ----

type kase struct {
	CSCA    string `json:"csca"`
	DS      string `json:"ds"`
	Hash    string `json:"hash"`
	SID     string `json:"sid"`     // "ias" | "ski"
	Variant string `json:"variant"` // "" = base
}

func (k kase) String() string {
	v := k.Variant
	if v == "" {
		v = "base"
	}
	return fmt.Sprintf("csca=%s ds=%s hash=%s sid=%s variant=%s", k.CSCA, k.DS, k.Hash, k.SID, v)
}

var cscaNames, dsNames []string
var cscaSpec = map[string]refpki.KeySpec{}
var dsSpec = map[string]refpki.KeySpec{}

func init() {
	addC := func(name string, s refpki.KeySpec) { cscaNames = append(cscaNames, name); cscaSpec[name] = s }
	addD := func(name string, s refpki.KeySpec) { dsNames = append(dsNames, name); dsSpec[name] = s }
	addC("rsa2048-pkcs1", refpki.RSA(2048, false, 0))
	addC("rsa3072-pss", refpki.RSA(3072, true, 0))
	for _, c := range refpki.CurveNames {
		addC("ec-"+c, refpki.EC(c, false, 0))
	}
	addD("rsa2048-pkcs1", refpki.RSA(2048, false, 1))
	addD("rsa3072-pkcs1", refpki.RSA(3072, false, 1))
	addD("rsa4096-pkcs1", refpki.RSA(4096, false, 1))
	addD("rsa2048-pss", refpki.RSA(2048, true, 2))
	for _, c := range refpki.CurveNames {
		addD("ec-"+c+"-named", refpki.EC(c, false, 1))
		addD("ec-"+c+"-explicit", refpki.EC(c, true, 1))
	}
}

// variants: one factor changed with respect to the base document
// (base = DER, LDS SO v0, signingTime inside both windows as UTCTime, digest AlgorithmIdentifier without NULL).
// A case's Variant is "" (base), one of these, or several joined with "+" (factors from disjoint groups).
var variants = []string{
	"",
	"enc-indef-outer", "enc-indef-all", "enc-indef-deep",
	"lds-v1",
	"st-absent", "st-notbefore-utc", "st-notafter-utc", "st-inside-gen", "st-notbefore-gen", "st-notafter-gen",
	"csca-notafter-eq-st", "csca-notbefore-eq-st",
	"sid-rdn-order", "sid-string-type", "sid-rdn-order-string-type",
	"csca-name-two-ous", "sid-rdn-order-two-ous",
	"csca-name-non-ascii", "sid-string-t61-latin1", "sid-string-bmp-non-ascii", "sid-string-universal",
	"extra-cert", "extra-cert-csca", "extra-cert-before-ds", "extra-cert-same-issuer-other-serial",
	"anchors-same-ski-wrong-key-first", "anchors-link-cert-first",
	"cardsec", "ml-pool", "cardsec-other-ds-earlier-window", "cardsec-other-ds-earlier-window-no-st",
	"digest-null-params", "si-rsaencryption-oid",
	"pss-salt-20", "pss-salt-20-der-omitted", "pss-der-defaults-omitted",
	"csca-explicit-params",
	"hash-order-desc", "hash-order-dg15-first",
}

// groups: two variants combine only when their groups are disjoint (they then touch different parts).
var groups = map[string][]string{
	"enc-indef-outer": {"enc"}, "enc-indef-all": {"enc"}, "enc-indef-deep": {"enc"},
	"lds-v1":    {"lds"},
	"st-absent": {"st"}, "st-notbefore-utc": {"st"}, "st-notafter-utc": {"st"}, "st-inside-gen": {"st"}, "st-notbefore-gen": {"st"}, "st-notafter-gen": {"st"},
	"csca-notafter-eq-st": {"st", "anchors", "cscawin"}, "csca-notbefore-eq-st": {"st", "anchors", "cscawin"},
	"sid-rdn-order": {"sid"}, "sid-string-type": {"sid"}, "sid-rdn-order-string-type": {"sid"},
	"extra-cert": {"extra"}, "extra-cert-csca": {"extra"}, "extra-cert-before-ds": {"extra"}, "extra-cert-same-issuer-other-serial": {"extra"},
	"anchors-same-ski-wrong-key-first": {"anchors"}, "anchors-link-cert-first": {"anchors"},
	"cardsec": {"container"}, "ml-pool": {"container", "anchors"},
	// (signed in 2018: needs the anchor's ordinary validity, hence exclusive with the re-issued anchors)
	"cardsec-other-ds-earlier-window": {"container", "cscawin"}, "cardsec-other-ds-earlier-window-no-st": {"container", "cscawin"},
	"csca-name-two-ous": {"name"}, "sid-rdn-order-two-ous": {"sid", "name"},
	"csca-name-non-ascii": {"name"}, "sid-string-t61-latin1": {"sid", "name"}, "sid-string-bmp-non-ascii": {"sid", "name"}, "sid-string-universal": {"sid", "name"},
	"digest-null-params": {"digest"}, "si-rsaencryption-oid": {"sigalg"},
	"pss-salt-20": {"pss"}, "pss-salt-20-der-omitted": {"pss"}, "pss-der-defaults-omitted": {"pss"},
	"csca-explicit-params": {"cscaparams"},
	"hash-order-desc":      {"hashorder"}, "hash-order-dg15-first": {"hashorder"},
}

// pairs returns every unordered pair of variants with disjoint groups, as "a+b".
func pairs() []string {
	var out []string
	for i, a := range variants {
		for _, b := range variants[i+1:] {
			if a == "" || b == "" {
				continue
			}
			ok := true
			for _, ga := range groups[a] {
				for _, gb := range groups[b] {
					if ga == gb {
						ok = false
					}
				}
			}
			if ok {
				out = append(out, a+"+"+b)
			}
		}
	}
	return out
}

func applicable1(k kase, v string) bool {
	switch v {
	case "sid-rdn-order", "sid-string-type", "sid-rdn-order-string-type", "sid-rdn-order-two-ous", "sid-string-t61-latin1", "sid-string-bmp-non-ascii", "sid-string-universal":
		return k.SID == "ias"
	case "si-rsaencryption-oid":
		return strings.HasPrefix(k.DS, "rsa") && !strings.HasSuffix(k.DS, "pss")
	case "pss-salt-20", "pss-salt-20-der-omitted":
		return (k.CSCA == "rsa3072-pss" || k.DS == "rsa2048-pss") && k.Hash != "sha1"
	case "pss-der-defaults-omitted":
		return (k.CSCA == "rsa3072-pss" || k.DS == "rsa2048-pss") && k.Hash == "sha1"
	case "csca-explicit-params":
		return strings.HasPrefix(k.CSCA, "ec-")
	}
	_, known := groups[v]
	return known || v == ""
}

// applicable says whether every factor of the variant changes something for the case (inapplicable variants
// are skipped in the enumeration and behave as base when reached through minimisation).
func applicable(k kase) bool {
	for _, v := range strings.Split(k.Variant, "+") {
		if !applicable1(k, v) {
			return false
		}
	}
	return true
}

// ---- building and evaluating one document ----

type built struct {
	dgs     map[int][]byte
	sod     []byte
	cardSec []byte
	store   [][]byte // trust store certificates in order
	mlPool  []byte   // when non-nil: master list to derive the pool from (root = store[0])
	wantDS  []byte
	wantCA  []byte
}

func dgFiles() map[int][]byte {
	caKey := refpki.LoadKey(refpki.EC("brainpoolP256r1", false, 20))
	aaKey := refpki.LoadKey(refpki.EC("P-256", false, 21))
	return map[int][]byte{
		1:  refpki.BuildDG1TD3("NLD", "XR1234567", "800101", "300101"),
		11: refpki.BuildDG11("SPECIMEN<<ANNA<MARIA"),
		13: refpki.BuildDG13([]byte("refpki opaque optional details")),
		14: refpki.BuildDG14(caKey, true),
		15: refpki.BuildDG15(aaKey),
	}
}

func build(k kase) (*built, error) {
	cs, ok := cscaSpec[k.CSCA]
	if !ok {
		return nil, fmt.Errorf("unknown csca %q", k.CSCA)
	}
	ds, ok := dsSpec[k.DS]
	if !ok {
		return nil, fmt.Errorf("unknown ds %q", k.DS)
	}
	var parts []string
	if applicable(k) {
		parts = strings.Split(k.Variant, "+")
	}
	p := refpki.Profile{Country: "NL", State: "NLD", CSCA: cs, DS: ds, Hash: refpki.Hash(k.Hash)}
	for _, v := range parts {
		switch v {
		case "pss-salt-20":
			p.PSSSaltLen = 20
		case "pss-der-defaults-omitted":
			p.PSSOmitDefaults = true
		case "pss-salt-20-der-omitted":
			p.PSSSaltLen, p.PSSOmitDefaults = 20, true
		case "csca-explicit-params":
			p.CSCA.Explicit = true
		case "csca-name-two-ous", "sid-rdn-order-two-ous":
			p.CSCATwoOUs = true
		case "csca-name-non-ascii", "sid-string-t61-latin1", "sid-string-bmp-non-ascii", "sid-string-universal":
			p.CSCANonASCII = true
		}
	}
	is := refpki.NewIssuer(p)
	o := refpki.SODOpts{}
	if k.SID == "ski" {
		o.SIDForm = refpki.SIDSubjectKeyID
	}
	b := &built{dgs: dgFiles(), store: [][]byte{is.CSCACert.DER}, wantDS: is.DSCert.DER, wantCA: is.CSCACert.DER}
	for _, v := range parts {
		applyVariant(v, is, cs, &o, b)
	}
	b.sod, _ = is.IssueSOD(b.dgs, o)
	return b, nil
}

// cscaWithWindow re-issues the self-signed CSCA certificate (same key, names, identifiers) with another validity.
func cscaWithWindow(is *refpki.Issuer, nb, na time.Time) *refpki.Cert {
	return refpki.IssueCert(refpki.CertSpec{
		Serial: big.NewInt(1), Issuer: is.CSCAName, Subject: is.CSCAName,
		NotBefore: nb, NotAfter: na, Key: is.CSCAKey,
		AKI: is.CSCAKey.KeyID(), BasicConstraints: refpki.BCCA, PathLen: 0, KeyUsage: refpki.KUKeyCertSign | refpki.KUCRLSign,
	}, is.CSCAKey, is.CertSignOpts())
}

func applyVariant(v string, is *refpki.Issuer, cs refpki.KeySpec, op *refpki.SODOpts, b *built) {
	o := *op
	defer func() { *op = o }()
	switch v {
	case "enc-indef-outer":
		o.Encoding = refpki.EncIndefOuter
	case "enc-indef-all":
		o.Encoding = refpki.EncIndefAll
	case "enc-indef-deep":
		o.Encoding = refpki.EncIndefDeep
	case "lds-v1":
		o.LDSVersion = 1
	case "st-absent":
		o.NoSigningTime = true
	case "st-notbefore-utc":
		o.SigningTime = refpki.DSNotBefore
	case "st-notafter-utc":
		o.SigningTime = refpki.DSNotAfter
	case "st-inside-gen":
		o.SigningTimeGeneralized = true
	case "st-notbefore-gen":
		o.SigningTime, o.SigningTimeGeneralized = refpki.DSNotBefore, true
	case "st-notafter-gen":
		o.SigningTime, o.SigningTimeGeneralized = refpki.DSNotAfter, true
	case "sid-rdn-order", "sid-rdn-order-two-ous":
		// (two OUs: the reversal also swaps the two attributes of the repeated type relative to each other)
		o.SIDIssuer = is.CSCAName.Reversed()
	case "sid-string-type":
		o.SIDIssuer = is.CSCAName.WithStringTag(0x13) // certificate uses UTF8String
	case "sid-string-t61-latin1":
		// the certificate carries the name as UTF8String with characters outside ASCII; the SID writes the same
		// characters in another string type (TeletexString as ISO 8859-1, BMPString, UniversalString)
		o.SIDIssuer = is.CSCAName.WithStringTag(0x14)
	case "sid-string-bmp-non-ascii":
		o.SIDIssuer = is.CSCAName.WithStringTag(0x1E)
	case "sid-string-universal":
		o.SIDIssuer = is.CSCAName.WithStringTag(0x1C)
	case "sid-rdn-order-string-type":
		o.SIDIssuer = is.CSCAName.Reversed().WithStringTag(0x13)
	case "csca-notafter-eq-st":
		// the trust anchor's validity ends exactly at the signing time (X.509 validity is inclusive), inside the DS window
		c := cscaWithWindow(is, refpki.CSCANotBefore, refpki.SigningTime)
		b.store, b.wantCA = [][]byte{c.DER}, c.DER
	case "csca-notbefore-eq-st":
		c := cscaWithWindow(is, refpki.SigningTime, refpki.CSCANotAfter)
		b.store, b.wantCA = [][]byte{c.DER}, c.DER
	case "hash-order-desc":
		o.HashOrder = []int{15, 14, 13, 11, 1}
	case "hash-order-dg15-first":
		o.HashOrder = []int{15}
	case "extra-cert-before-ds":
		other := refpki.LoadKey(refpki.EC("P-256", false, 7))
		o.ExtraCerts = []*refpki.Cert{is.IssueDS(refpki.CertSpec{Serial: big.NewInt(0x1002), Subject: refpki.NewName("NL", "Reference State", "Document Signer", "DS 02"), Key: other})}
		o.ExtraCertsFirst = true
	case "extra-cert-same-issuer-other-serial":
		// two embedded certificates of the same issuer, the unrelated one first and with a numerically close serial
		other := refpki.LoadKey(refpki.EC("P-256", false, 7))
		o.ExtraCerts = []*refpki.Cert{
			is.IssueDS(refpki.CertSpec{Serial: big.NewInt(0x1000), Subject: refpki.NewName("NL", "Reference State", "Document Signer", "DS 00"), Key: other}),
			is.CSCACert,
		}
		o.ExtraCertsFirst = true
	case "extra-cert":
		other := refpki.LoadKey(refpki.EC("P-256", false, 7))
		o.ExtraCerts = []*refpki.Cert{is.IssueDS(refpki.CertSpec{Serial: big.NewInt(0x1002), Subject: refpki.NewName("NL", "Reference State", "Document Signer", "DS 02"), Key: other})}
	case "extra-cert-csca":
		o.ExtraCerts = []*refpki.Cert{is.CSCACert}
	case "digest-null-params":
		o.DigestNull = true
	case "si-rsaencryption-oid":
		o.RSAEncryptionOID = true
	case "anchors-same-ski-wrong-key-first":
		var fk *refpki.Key
		if cs.Alg == "ec" {
			fk = refpki.LoadKey(refpki.EC(cs.Curve, false, 9))
		} else {
			fk = refpki.LoadKey(refpki.RSA(2048, cs.PSS, 4))
		}
		fake := refpki.IssueCert(refpki.CertSpec{Serial: big.NewInt(7), Issuer: is.CSCAName, Subject: is.CSCAName,
			NotBefore: refpki.CSCANotBefore, NotAfter: refpki.CSCANotAfter, Key: fk, SKI: is.CSCACert.SKI, AKI: is.CSCACert.SKI,
			BasicConstraints: refpki.BCCA, KeyUsage: refpki.KUKeyCertSign | refpki.KUCRLSign}, fk, is.CertSignOpts())
		b.store = [][]byte{fake.DER, is.CSCACert.DER}
	case "anchors-link-cert-first":
		// link certificate: the SAME CSCA key certified by a previous CSCA key (same SKI, other issuer key)
		old := refpki.LoadKey(refpki.EC("P-384", false, 10))
		link := refpki.IssueCert(refpki.CertSpec{Serial: big.NewInt(8), Issuer: is.CSCAName, Subject: is.CSCAName,
			NotBefore: refpki.CSCANotBefore, NotAfter: refpki.CSCANotAfter, Key: is.CSCAKey, AKI: old.KeyID(),
			BasicConstraints: refpki.BCCA, KeyUsage: refpki.KUKeyCertSign | refpki.KUCRLSign}, old, refpki.SignOpts{Hash: refpki.SHA384})
		b.store = [][]byte{link.DER, is.CSCACert.DER}
		b.wantCA = link.DER
	case "cardsec":
		b.cardSec, _ = is.IssueCardSecurity(refpki.SecurityInfos(refpki.LoadKey(refpki.EC("brainpoolP256r1", false, 20)), false))
	case "cardsec-other-ds-earlier-window", "cardsec-other-ds-earlier-window-no-st":
		// EF.CardSecurity signed years before the SOD by ANOTHER document signer whose validity ended before the
		// SOD's signing time: each SignedData is judged at its own signing time
		k2 := refpki.LoadKey(refpki.EC("P-256", false, 8))
		ds2 := is.IssueDS(refpki.CertSpec{Serial: big.NewInt(0x1003), Subject: refpki.NewName("NL", "Reference State", "Document Signer", "DS 2016"), Key: k2,
			NotBefore: time.Date(2016, 1, 1, 0, 0, 0, 0, time.UTC), NotAfter: time.Date(2019, 1, 1, 0, 0, 0, 0, time.UTC)})
		t := time.Date(2018, 6, 15, 12, 0, 0, 0, time.UTC)
		sd := &refpki.SignedData{EContentType: refpki.OIDCardSecurityObj, EContent: refpki.SecurityInfos(refpki.LoadKey(refpki.EC("brainpoolP256r1", false, 20)), false),
			DigestAlg: is.Profile.Hash, Certs: []*refpki.Cert{ds2}, SigningTime: &t}
		if v == "cardsec-other-ds-earlier-window-no-st" {
			sd.SigningTime = nil
		}
		sd.Sign(k2, refpki.SignOpts{Hash: is.Profile.Hash})
		b.cardSec, _ = sd.Encode(refpki.EncDER, 0)
	case "ml-pool":
		un := refpki.NewIssuer(refpki.Profile{Country: "SE", State: "SWE", CSCA: refpki.EC("P-256", false, 30), DS: refpki.EC("P-256", false, 31), Hash: refpki.SHA256})
		b.mlPool, _ = is.IssueMasterList([]*refpki.Cert{is.CSCACert, un.CSCACert})
	}
}

type verdict struct {
	OK      bool
	Stage   string // where it was refused
	Err     string
	Panic   string
	ChainOK bool
}

func assemble(dgs map[int][]byte, sod, cardSec []byte) (*document.Document, string, error) {
	doc := &document.Document{}
	var nums []int
	for n := range dgs {
		nums = append(nums, n)
	}
	sort.Ints(nums)
	for _, n := range nums {
		if err := doc.NewDG(n, dgs[n]); err != nil {
			return nil, fmt.Sprintf("NewDG%d", n), err
		}
	}
	var err error
	if doc.Mf.Lds1.Sod, err = document.NewSOD(sod); err != nil {
		return nil, "NewSOD", err
	}
	if cardSec != nil {
		if doc.Mf.CardSecurity, err = document.NewCardSecurity(cardSec); err != nil {
			return nil, "NewCardSecurity", err
		}
	}
	return doc, "", nil
}

func evaluate(b *built) verdict {
	var v verdict
	pv, stack := vc.Guard(func() {
		doc, stage, err := assemble(b.dgs, b.sod, b.cardSec)
		if err != nil {
			v.Stage, v.Err = stage, err.Error()
			return
		}
		var pool cms.CertPool
		if b.mlPool != nil {
			p, err := cms.CreateCertPoolFromSignedData(b.mlPool, b.store[0])
			if err != nil {
				v.Stage, v.Err = "CreateCertPoolFromSignedData", err.Error()
				return
			}
			pool = p
		} else {
			gp := &cms.GenericCertPool{}
			for _, d := range b.store {
				if err := gp.Add(d); err != nil {
					v.Stage, v.Err = "CertPool.Add", err.Error()
					return
				}
			}
			pool = gp
		}
		res, err := passiveauth.PassiveAuth(doc, pool)
		if err != nil || res == nil || !res.Success {
			v.Stage = "PassiveAuth"
			if err != nil {
				v.Err = err.Error()
			} else {
				v.Err = "Success=false without error"
			}
			return
		}
		v.OK = true
		if res.Sod != nil && len(res.Sod.CertChain) == 2 && string(res.Sod.CertChain[0]) == string(b.wantDS) && string(res.Sod.CertChain[1]) == string(b.wantCA) {
			v.ChainOK = true
		}
	})
	if pv != nil {
		v.OK = false
		v.Stage = "panic"
		v.Panic = fmt.Sprint(pv)
		v.Err = firstFrames(stack)
	}
	return v
}

func firstFrames(stack string) string {
	var out []string
	for _, l := range strings.Split(stack, "\n") {
		if strings.Contains(l, "gmrtd/") && !strings.HasPrefix(l, "\t") {
			out = append(out, strings.TrimSpace(l))
			if len(out) == 3 {
				break
			}
		}
	}
	return strings.Join(out, " <- ")
}

var reHex = regexp.MustCompile(`[0-9a-fA-F]{8,}`)
var reNum = regexp.MustCompile(`[0-9]+`)

// errClass reduces a wrapped library error to its innermost two segments without values.
func errClass(v verdict) string {
	if v.Panic != "" {
		return "panic:" + reNum.ReplaceAllString(reHex.ReplaceAllString(v.Panic, "#"), "#")
	}
	parts := strings.Split(v.Err, ": ")
	if len(parts) > 2 {
		parts = parts[len(parts)-2:]
	}
	s := strings.Join(parts, ": ")
	s = reHex.ReplaceAllString(s, "#")
	s = reNum.ReplaceAllString(s, "#")
	if len(s) > 120 {
		s = s[:120]
	}
	return v.Stage + ":" + s
}

func evalCase(k kase) verdict {
	b, err := build(k)
	if err != nil {
		return verdict{Stage: "build", Err: err.Error()}
	}
	return evaluate(b)
}

var baseline = kase{CSCA: "rsa2048-pkcs1", DS: "rsa2048-pkcs1", Hash: "sha256", SID: "ias", Variant: ""}

// minimise finds which factors of a refused case are necessary for the refusal (one-minimal with respect to
// resetting a factor to the baseline value) and returns the narrow key.
func minimise(k kase, v verdict) (string, kase) {
	cur := k
	try := func(t kase) bool {
		if t == cur {
			return false
		}
		if r := evalCase(t); !r.OK {
			cur = t
			return true
		}
		return false
	}
	t := cur
	t.Variant = ""
	try(t)
	if strings.Contains(cur.Variant, "+") { // a pair: is one of its factors enough?
		for _, part := range strings.Split(cur.Variant, "+") {
			t = cur
			t.Variant = part
			if try(t) {
				break
			}
		}
	}
	t = cur
	t.SID = baseline.SID
	try(t)
	t = cur
	t.CSCA = baseline.CSCA
	try(t)
	t = cur
	t.DS = baseline.DS
	try(t)
	t = cur
	t.Hash = baseline.Hash
	try(t)
	// a refusal that does not depend on WHICH curve is keyed by the family, so that one root cause gives one key
	cscaLabel, dsLabel := cur.CSCA, cur.DS
	if strings.HasPrefix(cur.CSCA, "ec-") {
		a, b := cur, cur
		a.CSCA, b.CSCA = "ec-P-256", "ec-brainpoolP384r1"
		if !evalCase(a).OK && !evalCase(b).OK {
			cscaLabel = "ec-any-curve"
		}
	}
	if strings.HasPrefix(cur.DS, "ec-") {
		a, b := cur, cur
		a.DS, b.DS = "ec-P-256-named", "ec-brainpoolP384r1-explicit"
		if !evalCase(a).OK && !evalCase(b).OK {
			dsLabel = "ec-any-curve"
		}
	}
	fv := evalCase(cur)
	var f []string
	if cur.CSCA != baseline.CSCA {
		f = append(f, "csca="+cscaLabel)
	}
	if cur.DS != baseline.DS {
		f = append(f, "ds="+dsLabel)
	}
	if cur.Hash != baseline.Hash {
		f = append(f, "hash="+cur.Hash)
	}
	if cur.SID != baseline.SID {
		f = append(f, "sid="+cur.SID)
	}
	if cur.Variant != "" {
		f = append(f, "variant="+cur.Variant)
	}
	if len(f) == 0 {
		f = []string{"baseline"}
	}
	return "reject/" + strings.Join(f, ",") + "/" + errClass(fv), cur
}

// ---- enumeration ----

func enumerate(thorough bool) []kase {
	var out []kase
	seen := map[kase]bool{}
	add := func(k kase) {
		if !applicable(k) || seen[k] {
			return
		}
		seen[k] = true
		out = append(out, k)
	}
	hashes := []string{"sha1", "sha224", "sha256", "sha384", "sha512"}
	sids := []string{"ias", "ski"}
	if thorough {
		for _, c := range cscaNames {
			for _, d := range dsNames {
				for _, h := range hashes {
					for _, s := range sids {
						for _, v := range variants {
							add(kase{c, d, h, s, v})
						}
						if thoroughPairProfile(c, d, h) {
							for _, v := range pairs() {
								add(kase{c, d, h, s, v})
							}
						}
					}
				}
			}
		}
		return out
	}
	baselines := []kase{
		{"rsa2048-pkcs1", "rsa2048-pkcs1", "sha256", "ias", ""},
		{"rsa3072-pss", "rsa2048-pss", "sha256", "ski", ""},
		{"ec-P-256", "ec-P-256-named", "sha256", "ias", ""},
		{"ec-brainpoolP384r1", "ec-brainpoolP256r1-explicit", "sha384", "ski", ""},
	}
	for _, b := range baselines {
		add(b)
		for _, c := range cscaNames {
			k := b
			k.CSCA = c
			add(k)
		}
		for _, d := range dsNames {
			k := b
			k.DS = d
			add(k)
		}
		for _, h := range hashes {
			k := b
			k.Hash = h
			add(k)
		}
		for _, s := range sids {
			k := b
			k.SID = s
			add(k)
			for _, v := range variants { // variants under both SID forms (SID-related ones only apply to one)
				k2 := k
				k2.Variant = v
				add(k2)
			}
			for _, v := range pairs() { // every pair of variants that touch different parts
				k2 := k
				k2.Variant = v
				add(k2)
			}
		}
		// PSS parameter variants need SHA-1 / non-SHA-1
		for _, h := range []string{"sha1", "sha512"} {
			for _, v := range []string{"pss-salt-20", "pss-salt-20-der-omitted", "pss-der-defaults-omitted"} {
				k := b
				k.Hash, k.Variant = h, v
				add(k)
			}
		}
	}
	// all CSCA x DS x digest triples in the base form (contains the "all DS-key x digest pairs" of the plan)
	for _, c := range cscaNames {
		for _, d := range dsNames {
			for _, h := range hashes {
				add(kase{c, d, h, "ias", ""})
			}
		}
	}
	return out
}

// thoroughPairProfile selects the profiles under which the thorough tier adds all variant pairs: every CSCA
// and every DS key type at the default digest plus every digest at two profiles (the full product with pairs
// would be 13*26*5*2*~400 documents).
func thoroughPairProfile(c, d, h string) bool {
	if h == "sha256" {
		return c == "rsa2048-pkcs1" || c == "rsa3072-pss" || c == "ec-brainpoolP256r1" || d == "rsa2048-pkcs1" || d == "ec-P-256-named"
	}
	return (c == "rsa3072-pss" && d == "rsa2048-pss") || (c == "ec-P-384" && d == "ec-brainpoolP384r1-explicit")
}

func run(c *vc.Ctx) {
	if err := refpki.EnsureKeys(); err != nil {
		c.HarnessError("refpki.EnsureKeys: %v", err)
		return
	}
	if err := refpki.SelfTest(); err != nil {
		c.HarnessError("refpki self-test: %v", err)
		return
	}
	cases := enumerate(c.Thorough())
	sec := "profile-matrix"
	if c.Thorough() {
		c.SecBound(sec, fmt.Sprintf("full product 13 CSCA keys x 26 DS keys x 5 digests x 2 SID forms x %d variants (inapplicable variants skipped) + all %d variant pairs under a covering set of profiles (every CSCA key and every DS key at SHA-256, every digest at two profiles): %d documents", len(variants), len(pairs()), len(cases)))
	} else {
		c.SecBound(sec, fmt.Sprintf("one-factor-at-a-time around 4 baselines (CSCA, DS, digest, SID, %d variants and all %d pairs of variants touching different parts under both SID forms, PSS parameter variants) + all 13 CSCA keys x 26 DS keys x 5 digests in the base form: %d documents", len(variants), len(pairs()), len(cases)))
	}
	chainOdd := 0
	slowest, slowestCase := time.Duration(0), ""
	for i, k := range cases {
		if !c.Mine() {
			continue
		}
		if c.Expired() {
			c.SecNotExhaustive(sec, fmt.Sprintf("deadline at document %d of %d", i, len(cases)))
			break
		}
		t0 := time.Now()
		v := evalCase(k)
		if d := time.Since(t0); d > slowest {
			slowest, slowestCase = d, k.String()
		}
		if v.OK {
			c.Distinct(k.String())
			if v.ChainOK {
				c.Outcome(sec, "accepted")
			} else {
				chainOdd++
				c.Outcome(sec, "accepted(reported chain is not [DS, expected anchor]; informational)")
			}
			if i%97 == 0 {
				c.Sample(map[string]any{"case": k, "result": "Success"})
			}
			continue
		}
		c.Outcome(sec, "refused")
		key, minCase := minimise(k, v)
		kk := k
		c.Violation(sec, key, fmt.Sprintf("genuine document refused: %s: stage %s: %s %s (minimal refusing case: %s)", k, v.Stage, v.Panic, v.Err, minCase), kk,
			func() bool { return !evalCase(kk).OK })
	}
	if c.Shard == 0 {
		c.Extra("slowest_document_shard0", fmt.Sprintf("%v %s", slowest, slowestCase))
	}
	_ = chainOdd
}

func replay(c *vc.Ctx, raw json.RawMessage) string {
	var doc struct {
		Section string `json:"section"`
		Case    kase   `json:"case"`
	}
	if err := json.Unmarshal(raw, &doc); err != nil {
		return "cannot decode case: " + err.Error()
	}
	if err := refpki.EnsureKeys(); err != nil {
		return "EnsureKeys: " + err.Error()
	}
	k := doc.Case
	b, err := build(k)
	if err != nil {
		return err.Error()
	}
	v := evaluate(b)
	if !v.OK {
		key, minCase := minimise(k, v)
		c.Violation(doc.Section, key, fmt.Sprintf("genuine document refused: %s: %s %s %s (minimal: %s)", k, v.Stage, v.Panic, v.Err, minCase), k, nil)
	}
	return fmt.Sprintf("%s\n  EF.SOD=%s\n  trust store[0]=%s\n  PassiveAuth: ok=%v stage=%s panic=%s err=%s", k, vc.Hex(b.sod), vc.Hex(b.store[0]), v.OK, v.Stage, v.Panic, v.Err)
}
