package c14

import (
	"bytes"
	"math/big"

	"github.com/gmrtd/gmrtd/document"

	"verif/internal/refchip"
	"verif/internal/refcrypto"
	"verif/internal/refpki"
)

// jointReplacement builds the documented structural exception of PACE-CAM evidence: anyone who reads the bundle
// can replace ChipKaPub and EcadIC together (TermKaPri is stored), keeping the chip-authentication data.
func jointReplacement(ev *document.PaceCamEvidence) (newChipKaPub, newEcad []byte, ok bool) {
	name := refchip.StdCurve(ev.ParameterId)
	if name == "" || len(ev.PaceOid) == 0 {
		return nil, nil, false
	}
	curve := refpki.CurveByName(name)
	var alg refcrypto.Alg
	switch ev.PaceOid[len(ev.PaceOid)-1] {
	case 2:
		alg = refcrypto.AES128
	case 3:
		alg = refcrypto.AES192
	case 4:
		alg = refcrypto.AES256
	default:
		return nil, nil, false
	}
	t := new(big.Int).SetBytes(ev.TermKaPri)
	cx, cy, okp := curve.DecodePoint(ev.ChipKaPub)
	if !okp {
		return nil, nil, false
	}
	enc := func(px, py *big.Int) []byte {
		kx, _ := curve.ScalarMult(px, py, t)
		return refcrypto.KDF(kx.FillBytes(make([]byte, curve.ByteLen())), 1, alg)
	}
	iv := func(k []byte) []byte { return refcrypto.ECBEncryptBlock(alg, k, bytes.Repeat([]byte{0xFF}, 16)) }
	k1 := enc(cx, cy)
	if len(ev.EcadIC)%16 != 0 || len(ev.EcadIC) == 0 {
		return nil, nil, false
	}
	ca, err := refcrypto.Unpad(refcrypto.CBCDecrypt(alg, k1, iv(k1), ev.EcadIC))
	if err != nil {
		return nil, nil, false
	}
	nx, ny := curve.ScalarMult(curve.Gx, curve.Gy, big.NewInt(0x51F15EED))
	k2 := enc(nx, ny)
	return curve.EncodePoint(nx, ny), refcrypto.CBCEncrypt(alg, k2, iv(k2), refcrypto.Pad(ca, 16)), true
}

// ecadVariants re-encrypts the chip-authentication data under the SAME session key with a plaintext that is
// arithmetically related to the genuine one: CA_IC + n (n = group order), 00 || CA_IC, and the genuine padded
// plaintext followed by a further all-zero block. Whoever holds the bundle can do this (TermKaPri is stored).
func ecadVariants(ev *document.PaceCamEvidence) map[string][]byte {
	name := refchip.StdCurve(ev.ParameterId)
	if name == "" || len(ev.PaceOid) == 0 || len(ev.EcadIC)%16 != 0 || len(ev.EcadIC) == 0 {
		return nil
	}
	curve := refpki.CurveByName(name)
	var alg refcrypto.Alg
	switch ev.PaceOid[len(ev.PaceOid)-1] {
	case 2:
		alg = refcrypto.AES128
	case 3:
		alg = refcrypto.AES192
	case 4:
		alg = refcrypto.AES256
	default:
		return nil
	}
	t := new(big.Int).SetBytes(ev.TermKaPri)
	cx, cy, ok := curve.DecodePoint(ev.ChipKaPub)
	if !ok {
		return nil
	}
	kx, _ := curve.ScalarMult(cx, cy, t)
	k := refcrypto.KDF(kx.FillBytes(make([]byte, curve.ByteLen())), 1, alg)
	iv := refcrypto.ECBEncryptBlock(alg, k, bytes.Repeat([]byte{0xFF}, 16))
	ca, err := refcrypto.Unpad(refcrypto.CBCDecrypt(alg, k, iv, ev.EcadIC))
	if err != nil {
		return nil
	}
	enc := func(pt []byte) []byte { return refcrypto.CBCEncrypt(alg, k, iv, pt) }
	plusN := new(big.Int).Add(new(big.Int).SetBytes(ca), curve.N)
	w := len(ca)
	if (plusN.BitLen()+7)/8 > w {
		w = (plusN.BitLen() + 7) / 8
	}
	return map[string][]byte{
		"ecad-of-scalar-plus-group-order": enc(refcrypto.Pad(plusN.FillBytes(make([]byte, w)), 16)),
		"ecad-of-scalar-with-leading-00":  enc(refcrypto.Pad(append([]byte{0}, ca...), 16)),
	}
}
