// Package c14: offline verification reproduces live verdicts and detects evidence tampering.
package c14

import (
	"bytes"
	"encoding/asn1"
	"encoding/json"
	"fmt"
	"math/big"
	"strings"

	"github.com/gmrtd/gmrtd/document"
	"github.com/gmrtd/gmrtd/verifier"

	"verif/internal/e2e"
	"verif/internal/lz"
	"verif/internal/perso"
	"verif/internal/refchip"
	"verif/internal/refcrypto"
	"verif/internal/refpki"
	"verif/internal/vc"
)

func init() {
	vc.Register(&vc.Check{ID: "C14", Level: "exploration", Run: run, Replay: replay, QuickSec: 170, ThoroSec: 1800,
		Rule:   "live reads of the independent chip over the mechanism matrix {CA: 11 curves x 4 suites x {BAC,PACE}; PACE-CAM: 11 parameter ids x 3 suites; AA-RSA: 5 trailers; AA-ECDSA: 11 curves; trusted/untrusted issuer}, each serialised with DocumentEx.ToCbor and verified with verifier.Verify: PA verdict, completeness verdict and every mechanism verdict must equal the live ones. Then for EVERY evidence field (10 PACE-CAM, 4 CA, 3 AA) x the value-changing mutation set {every single-bit flip, zeroed, last byte dropped, one byte appended, same field of another genuine session, integers +-1, each other supported OID} the bundle is re-serialised with the library's own writer and the corresponding verdict must be unsuccessful; the documented joint replacement (ChipKaPub, EcadIC) is generated and must pass. For every file x every single-bit flip: PA or parsing fails. Histories: every sequence of up to 3 Verify calls {genuine, tampered, another session's export, unparseable} on ONE Verifier reports per call what a fresh Verifier reports. distinct_nontrivial = distinct (mechanism, field, mutation kind, outcome)",
		Assume: []string{"representation-only changes (leading zero octets) are not value changes and are not generated", "a contained panic is not counted as 'verdict unsuccessful': it is reported"}})
}

type session struct {
	Name string
	Cfg  perso.Config
	LZ   string // "" | "cam" | "ca": drive the session randomness into the leading-zero slice of the shared secret
}

func sessions(thorough bool) []session {
	var out []session
	one := 1
	curves := refpki.CurveNames
	for i, cu := range curves {
		for cipher := 1; cipher <= 4; cipher++ {
			for _, pace := range []bool{false, true} {
				if !thorough && (i+cipher+b2i(pace))%4 != 0 {
					continue
				}
				cfg := perso.Config{DGs: []int{2}, CA: []perso.CASpec{{Curve: cu, Cipher: cipher, KeyID: &one}}}
				if cipher == 1 && i%2 == 0 {
					cfg.CA = []perso.CASpec{{Curve: cu, Cipher: 1, NoInfo: true}}
				}
				if pace {
					cfg.PACE = []refchip.PACEProto{{Mapping: 2, Cipher: 2, ParamID: 13}}
				} else {
					cfg.BAC = true
				}
				out = append(out, session{Name: fmt.Sprintf("ca/%s/c%d/pace=%v", cu, cipher, pace), Cfg: cfg})
			}
		}
	}
	for pid := 8; pid <= 18; pid++ {
		for cipher := 2; cipher <= 4; cipher++ {
			if !thorough && (pid+cipher)%3 != 0 {
				continue
			}
			out = append(out, session{Name: fmt.Sprintf("cam/%d/c%d", pid, cipher), Cfg: perso.Config{DGs: []int{2}, PACE: []refchip.PACEProto{{Mapping: 6, Cipher: cipher, ParamID: pid}}}})
		}
	}
	for _, tr := range []string{"BC", "38CC", "34CC", "36CC", "35CC"} {
		out = append(out, session{Name: "aa-rsa/" + tr, Cfg: perso.Config{BAC: true, DGs: []int{2}, AA: &perso.AASpec{RSABits: 2048, Trailer: tr}}})
	}
	for i, cu := range curves {
		out = append(out, session{Name: "aa-ec/" + cu, Cfg: perso.Config{BAC: true, DGs: []int{2}, AA: &perso.AASpec{Curve: cu, DER: i%3 == 0, Explicit: i%4 == 1}}})
	}
	// sessions inside the 1/256 slice where the agreed x-coordinate starts with a zero octet
	for _, pid := range []int{12, 13, 16, 18} {
		out = append(out, session{Name: fmt.Sprintf("cam-leading-zero-secret/%d", pid), Cfg: perso.Config{DGs: []int{2}, PACE: []refchip.PACEProto{{Mapping: 6, Cipher: 2 + pid%3, ParamID: pid}}}, LZ: "cam"})
	}
	for i, cu := range []string{"P-256", "brainpoolP256r1", "brainpoolP384r1", "P-521"} {
		out = append(out, session{Name: "ca-leading-zero-secret/" + cu, Cfg: perso.Config{BAC: true, DGs: []int{2}, CA: []perso.CASpec{{Curve: cu, Cipher: 1 + i}}}, LZ: "ca"})
	}
	out = append(out, session{Name: "untrusted/ca", Cfg: perso.Config{BAC: true, DGs: []int{2}, Untrusted: true, CA: []perso.CASpec{{Curve: "P-256", Cipher: 2}}}})
	out = append(out, session{Name: "ca-not-first-protected-command/aa+ca", Cfg: perso.Config{BAC: true, DGs: []int{2, 11}, CA: []perso.CASpec{{Curve: "brainpoolP256r1", Cipher: 2}}}})
	return out
}

func b2i(b bool) int {
	if b {
		return 1
	}
	return 0
}

type verdicts struct {
	PA, Complete, AA, CAM, CA bool
}

func verdictsOf(d *document.DocumentEx) verdicts {
	s := d.Session
	return verdicts{
		PA:       s.PassiveAuthResult != nil && s.PassiveAuthResult.Success,
		Complete: s.DocumentVerifyErr == nil,
		AA:       s.ActiveAuthResult != nil && s.ActiveAuthResult.Success,
		CAM:      s.PaceCamResult != nil && s.PaceCamResult.Success,
		CA:       s.ChipAuthResult != nil && s.ChipAuthResult.Success,
	}
}

type field struct {
	Mech string
	Name string
	Get  func(d *document.DocumentEx) []byte
	Set  func(d *document.DocumentEx, v []byte)
}

func byteFields() []field {
	var fs []field
	cam := func(name string, p func(e *document.PaceCamEvidence) *[]byte) {
		fs = append(fs, field{"CAM", name, func(d *document.DocumentEx) []byte { return *p(d.Session.PaceCamResult.Evidence) },
			func(d *document.DocumentEx, v []byte) { *p(d.Session.PaceCamResult.Evidence) = v }})
	}
	cam("Nonce", func(e *document.PaceCamEvidence) *[]byte { return &e.Nonce })
	cam("TermMapPri", func(e *document.PaceCamEvidence) *[]byte { return &e.TermMapPri })
	cam("TermMapPub", func(e *document.PaceCamEvidence) *[]byte { return &e.TermMapPub })
	cam("ChipMapPub", func(e *document.PaceCamEvidence) *[]byte { return &e.ChipMapPub })
	cam("TermKaPri", func(e *document.PaceCamEvidence) *[]byte { return &e.TermKaPri })
	cam("TermKaPub", func(e *document.PaceCamEvidence) *[]byte { return &e.TermKaPub })
	cam("ChipKaPub", func(e *document.PaceCamEvidence) *[]byte { return &e.ChipKaPub })
	cam("EcadIC", func(e *document.PaceCamEvidence) *[]byte { return &e.EcadIC })
	ca := func(name string, p func(e *document.ChipAuthEvidence) *[]byte) {
		fs = append(fs, field{"CA", name, func(d *document.DocumentEx) []byte { return *p(d.Session.ChipAuthResult.Evidence) },
			func(d *document.DocumentEx, v []byte) { *p(d.Session.ChipAuthResult.Evidence) = v }})
	}
	ca("TermPri", func(e *document.ChipAuthEvidence) *[]byte { return &e.TermPri })
	ca("TermPubKey", func(e *document.ChipAuthEvidence) *[]byte { return &e.TermPubKey })
	ca("SmRapdu", func(e *document.ChipAuthEvidence) *[]byte { return &e.SmRapdu })
	ca("SmSsc", func(e *document.ChipAuthEvidence) *[]byte { return &e.SmSsc })
	aa := func(name string, p func(e *document.ActiveAuthEvidence) *[]byte) {
		fs = append(fs, field{"AA", name, func(d *document.DocumentEx) []byte { return *p(d.Session.ActiveAuthResult.Evidence) },
			func(d *document.DocumentEx, v []byte) { *p(d.Session.ActiveAuthResult.Evidence) = v }})
	}
	aa("Nonce", func(e *document.ActiveAuthEvidence) *[]byte { return &e.Nonce })
	aa("Signature", func(e *document.ActiveAuthEvidence) *[]byte { return &e.Signature })
	return fs
}

func has(d *document.DocumentEx, mech string) bool {
	s := d.Session
	switch mech {
	case "CAM":
		return s.PaceCamResult != nil && s.PaceCamResult.Success && s.PaceCamResult.Evidence != nil
	case "CA":
		return s.ChipAuthResult != nil && s.ChipAuthResult.Success && s.ChipAuthResult.Evidence != nil
	case "AA":
		return s.ActiveAuthResult != nil && s.ActiveAuthResult.Success && s.ActiveAuthResult.Evidence != nil
	}
	return false
}

func mechVerdict(v verdicts, mech string) bool {
	switch mech {
	case "CAM":
		return v.CAM
	case "CA":
		return v.CA
	}
	return v.AA
}

type mutation struct {
	Kind string
	Val  []byte
}

func byteMutations(orig, other []byte, allBits bool) []mutation {
	var out []mutation
	step := 1
	if !allBits && len(orig) > 40 {
		step = 3
	}
	for b := 0; b < len(orig)*8; b += step {
		m := bytes.Clone(orig)
		m[b/8] ^= 1 << (b % 8)
		out = append(out, mutation{fmt.Sprintf("bitflip@%d", b), m})
	}
	if len(orig) > 0 {
		z := make([]byte, len(orig))
		if !bytes.Equal(z, orig) {
			out = append(out, mutation{"zeroed", z})
		}
		out = append(out, mutation{"last-byte-dropped", bytes.Clone(orig[:len(orig)-1])})
	}
	out = append(out, mutation{"one-byte-appended", append(bytes.Clone(orig), 0x5A)})
	if other != nil && !bytes.Equal(other, orig) {
		out = append(out, mutation{"other-session", bytes.Clone(other)})
	}
	return out
}

// algebraicMutations: values that differ from the genuine one but are RELATED to it in the arithmetic of the
// mechanism - a scalar plus the group order, the negated point, an RSA signature plus the modulus, the ECDSA
// signature (r, n-s). A verifier that only uses the field through a function with such a symmetry accepts them.
func algebraicMutations(p *perso.Perso, sess session, f field, orig []byte) []mutation {
	var out []mutation
	var curve *refpki.Curve
	switch f.Mech {
	case "CAM":
		if len(sess.Cfg.PACE) > 0 {
			curve = refpki.CurveByName(refchip.StdCurve(sess.Cfg.PACE[0].ParamID))
		}
	case "CA":
		if len(sess.Cfg.CA) > 0 {
			curve = refpki.CurveByName(sess.Cfg.CA[0].Curve)
		}
	}
	addN := func(n *big.Int, label string) {
		v := new(big.Int).Add(new(big.Int).SetBytes(orig), n)
		w := len(orig)
		if (v.BitLen()+7)/8 > w {
			w = (v.BitLen() + 7) / 8
		}
		out = append(out, mutation{label, v.FillBytes(make([]byte, w))})
	}
	switch {
	case curve != nil && (f.Name == "TermMapPri" || f.Name == "TermKaPri" || f.Name == "TermPri"):
		addN(curve.N, "scalar-plus-group-order")
	case curve != nil && f.Mech == "CAM" && f.Name == "Nonce":
		// the nonce enters the mapping only as the scalar of s*G
		addN(curve.N, "nonce-plus-group-order")
	case curve != nil && strings.HasSuffix(f.Name, "Pub") || curve != nil && f.Name == "TermPubKey":
		if x, y, ok := curve.DecodePoint(orig); ok {
			out = append(out, mutation{"negated-point", curve.EncodePoint(x, new(big.Int).Sub(curve.P, y))})
		}
	case f.Mech == "AA" && f.Name == "Signature" && p.Chip.AA != nil:
		if k := p.Chip.AA.RSA; k != nil {
			addN(k.N, "rsa-signature-plus-modulus")
		} else if e := p.Chip.AA.EC; e != nil {
			n := e.Curve.N
			l := (n.BitLen() + 7) / 8
			if len(orig) == 2*l {
				r, sv := new(big.Int).SetBytes(orig[:l]), new(big.Int).SetBytes(orig[l:])
				ns := new(big.Int).Sub(n, sv)
				out = append(out, mutation{"ecdsa-negated-s", append(r.FillBytes(make([]byte, l)), ns.FillBytes(make([]byte, l))...)})
			} else if r, sv, ok := refpki.ParseECDSASigDER(orig); ok {
				out = append(out, mutation{"ecdsa-negated-s", refpki.ECDSASigDER(r, new(big.Int).Sub(n, sv))})
			}
		}
	}
	return out
}

type caseRec struct {
	Session  string `json:"session"`
	Mech     string `json:"mechanism"`
	Field    string `json:"field"`
	Mutation string `json:"mutation"`
	Value    string `json:"value_hex,omitempty"`
}

var supportedCamOIDs = []asn1.ObjectIdentifier{{0, 4, 0, 127, 0, 7, 2, 2, 4, 6, 2}, {0, 4, 0, 127, 0, 7, 2, 2, 4, 6, 3}, {0, 4, 0, 127, 0, 7, 2, 2, 4, 6, 4},
	{0, 4, 0, 127, 0, 7, 2, 2, 4, 2, 2}, {0, 4, 0, 127, 0, 7, 2, 2, 4, 2, 4}, {0, 4, 0, 127, 0, 7, 2, 2, 4, 2, 1}}
var aaAlgOIDs = []asn1.ObjectIdentifier{{1, 2, 840, 113549, 1, 1, 1}, {1, 2, 840, 10045, 2, 1}, {1, 2, 840, 113549, 1, 1, 10}, {2, 23, 136, 1, 1, 5}}

func run(c *vc.Ctx) {
	if err := refcrypto.SelfTest(); err != nil {
		c.HarnessError("refcrypto self-test: %v", err)
		return
	}
	if err := refpki.EnsureKeys(); err != nil {
		c.HarnessError("refpki keys: %v", err)
		return
	}
	ss := sessions(c.Thorough())
	secA := "live vs offline verdicts"
	secB := "evidence field mutations"
	secC := "file bit flips"
	secD := "histories on one Verifier"
	var prevBlob []byte
	c.SecBound(secA, fmt.Sprintf("%d genuine sessions", len(ss)))
	c.SecBound(secB, "every byte-string field x {every bit (every 3rd bit for fields > 40 bytes in quick), zeroed, last byte dropped, one byte appended, other session}; ParameterId +-1; PaceOid / AA Algorithm -> every other supported OID; joint (ChipKaPub, EcadIC) replacement must pass")
	c.SecBound(secD, "per session: every history of up to 3 Verify calls over {genuine export, export with one evidence field tampered, genuine export of the previous session of this worker, unparseable blob} on ONE Verifier; every call must report what a fresh Verifier reports for that blob")
	fields := byteFields()
	fileSweepDone := 0
	for si, sess := range ss {
		if !c.Mine() {
			continue
		}
		if c.Expired() {
			c.SecNotExhaustive(secA, fmt.Sprintf("deadline at session %d of %d", si, len(ss)))
			break
		}
		p := perso.Build(sess.Cfg)
		ropts := e2e.ReadOpts{}
		switch sess.LZ {
		case "cam":
			pr := sess.Cfg.PACE[0]
			nl := 16
			if pr.Cipher >= 3 {
				nl = 32
			}
			cq, tq, ok := lz.PACE(refpki.CurveByName(refchip.StdCurve(pr.ParamID)), nl)
			if !ok {
				c.Note("no leading-zero PACE session found for " + sess.Name)
				continue
			}
			p.Chip.Rand.Queue = cq
			ropts.TermRand = refchip.NewDetRand("terminal-lz")
			ropts.TermRand.Queue = tq
		case "ca":
			tb, ok := lz.CA(p.Chip.CA[0].Key)
			if !ok {
				c.Note("no leading-zero CA scalar found for " + sess.Name)
				continue
			}
			ropts.TermRand = refchip.NewDetRand("terminal-lz")
			ropts.TermRand.Queue = [][]byte{tb}
		}
		live := e2e.Read(p, ropts)
		if sess.LZ != "" && live.Doc != nil {
			k := p.Chip.Truth.PACELastK
			if sess.LZ == "ca" {
				k = p.Chip.Truth.CALastK
			}
			if len(k) == 0 || k[0] != 0 {
				c.HarnessError("session %s did not land in the leading-zero slice (secret %x)", sess.Name, k)
				continue
			}
		}
		if live.Panic != nil || live.Err != nil || live.Doc == nil {
			c.Violation(secA, "live-read-failed", fmt.Sprintf("session %s: live read failed: %v %v", sess.Name, live.Panic, live.Err), caseRec{Session: sess.Name}, nil)
			continue
		}
		lv := verdictsOf(live.Doc)
		if (sess.LZ == "cam" && !lv.CAM) || (sess.LZ == "ca" && !lv.CA) {
			c.Violation(secA, "live-mechanism-failed-in-leading-zero-slice", fmt.Sprintf("session %s: live verdicts %+v", sess.Name, lv), caseRec{Session: sess.Name}, nil)
			continue
		}
		// the mechanism the configuration is about must have succeeded live (non-vacuity)
		blob, err := live.Doc.ToCbor()
		if err != nil {
			c.Violation(secA, "export-failed", err.Error(), caseRec{Session: sess.Name}, nil)
			continue
		}
		off := e2e.Verify(p.Store, blob, nil)
		c.Outcome(secA, fmt.Sprintf("%+v", lv))
		c.Distinct("A/" + sess.Name)
		if off.Panic != nil || off.Err != nil || off.Doc == nil {
			c.Violation(secA, "offline-verify-failed-on-genuine", fmt.Sprintf("session %s: verifier failed on a genuine export: %v %v", sess.Name, off.Panic, off.Err), caseRec{Session: sess.Name}, nil)
			continue
		}
		ov := verdictsOf(off.Doc)
		if ov != lv {
			k := "verdicts-differ/"
			switch {
			case ov.PA != lv.PA:
				k += "PA"
			case ov.Complete != lv.Complete:
				k += "completeness"
			case ov.CA != lv.CA:
				k += "CA"
			case ov.CAM != lv.CAM:
				k += "PACE-CAM"
			default:
				k += "AA"
			}
			c.Violation(secA, k, fmt.Sprintf("session %s: live %+v, offline %+v (offline errs: ca=%v cam=%v aa=%v)", sess.Name, lv, ov, off.Doc.Session.ChipAuthErr, off.Doc.Session.PaceErr, off.Doc.Session.ActiveAuthErr), caseRec{Session: sess.Name}, nil)
			continue
		}
		// second genuine session with other randomness, for the "other session" mutation
		p2 := perso.Build(sess.Cfg)
		p2.Chip.Rand = refchip.NewDetRand("chip-other")
		other := e2e.Read(p2, e2e.ReadOpts{TermRand: refchip.NewDetRand("terminal-other"), AAChallenge: []byte{9, 8, 7, 6, 5, 4, 3, 2}})
		d := live.Doc
		try := func(mech, fname, mkind string, apply func(), restore func(), mustPass bool) {
			apply()
			b2, err := d.ToCbor()
			restore()
			rec := caseRec{Session: sess.Name, Mech: mech, Field: fname, Mutation: mkind}
			kindClass := mkind
			if i := bytes.IndexByte([]byte(mkind), '@'); i > 0 {
				kindClass = mkind[:i]
			}
			c.Distinct(fmt.Sprintf("B/%s/%s/%s", mech, fname, kindClass))
			if err != nil {
				c.Outcome(secB, "export-refused")
				return
			}
			v := e2e.Verify(p.Store, b2, nil)
			switch {
			case v.Panic != nil:
				c.Outcome(secB, "panic")
				c.Violation(secB, fmt.Sprintf("panic/%s.%s/%s", mech, fname, kindClass), fmt.Sprintf("session %s: verifier panicked on %s.%s %s: %v", sess.Name, mech, fname, mkind, v.Panic), rec, nil)
			case v.Err != nil || v.Doc == nil:
				c.Outcome(secB, "hard-error")
				if mustPass {
					c.Violation(secB, "documented-exception-does-not-pass", fmt.Sprintf("session %s: joint replacement rejected: %v", sess.Name, v.Err), rec, nil)
				}
			default:
				ok := mechVerdict(verdictsOf(v.Doc), mech)
				if mustPass {
					c.Outcome(secB, "joint-replacement-passes")
					if !ok {
						c.Violation(secB, "documented-exception-does-not-pass", fmt.Sprintf("session %s: the documented joint replacement of ChipKaPub and EcadIC does not verify", sess.Name), rec, nil)
					}
					return
				}
				if ok {
					c.Outcome(secB, "ACCEPTED")
					c.Violation(secB, fmt.Sprintf("tamper-accepted/%s.%s/%s", mech, fname, kindClass), fmt.Sprintf("session %s: %s evidence field %s changed (%s) but the %s verdict is still successful", sess.Name, mech, fname, mkind, mech), rec, nil)
				} else {
					c.Outcome(secB, "verdict-unsuccessful")
				}
			}
		}
		for _, f := range fields {
			if !has(d, f.Mech) {
				continue
			}
			orig := f.Get(d)
			var oth []byte
			if other.Doc != nil && has(other.Doc, f.Mech) {
				oth = f.Get(other.Doc)
			}
			for _, m := range append(byteMutations(orig, oth, c.Thorough()), algebraicMutations(p, sess, f, orig)...) {
				f, m := f, m
				if f.Mech == "AA" && f.Name == "Signature" && m.Kind == "one-byte-appended" && len(orig) > 0 && orig[0] == 0x30 && int(orig[1])+2 == len(orig) {
					// a byte after a complete DER Ecdsa-Sig-Value does not change the signature value (r,s): representation only
					continue
				}
				try(f.Mech, f.Name, m.Kind, func() { f.Set(d, m.Val) }, func() { f.Set(d, orig) }, false)
			}
		}
		if has(d, "CAM") {
			ev := d.Session.PaceCamResult.Evidence
			op, oo := ev.ParameterId, ev.PaceOid
			for _, dlt := range []int{-1, 1} {
				try("CAM", "ParameterId", fmt.Sprintf("%+d", dlt), func() { ev.ParameterId = op + dlt }, func() { ev.ParameterId = op }, false)
			}
			for _, o := range supportedCamOIDs {
				if o.Equal(oo) {
					continue
				}
				try("CAM", "PaceOid", "other-oid@"+o.String(), func() { ev.PaceOid = o }, func() { ev.PaceOid = oo }, false)
			}
			// EcadIC re-encrypted under the same key with an arithmetically related plaintext
			{
				orig := ev.EcadIC
				vs := ecadVariants(ev)
				for _, name := range []string{"ecad-of-scalar-plus-group-order"} {
					if v, ok := vs[name]; ok && !bytes.Equal(v, orig) {
						try("CAM", "EcadIC", name, func() { ev.EcadIC = v }, func() { ev.EcadIC = orig }, false)
					}
				}
			}
			// documented exception: joint replacement of ChipKaPub and EcadIC, built from the stored TermKaPri
			if nk, ne, ok := jointReplacement(ev); ok {
				ok1, ok2 := ev.ChipKaPub, ev.EcadIC
				try("CAM", "ChipKaPub+EcadIC", "joint-replacement", func() { ev.ChipKaPub, ev.EcadIC = nk, ne }, func() { ev.ChipKaPub, ev.EcadIC = ok1, ok2 }, true)
			}
		}
		if has(d, "AA") {
			ev := d.Session.ActiveAuthResult.Evidence
			oo := ev.Algorithm
			for _, o := range aaAlgOIDs {
				if o.Equal(oo) {
					continue
				}
				try("AA", "Algorithm", "other-oid@"+o.String(), func() { ev.Algorithm = o }, func() { ev.Algorithm = oo }, false)
			}
		}
		// histories on ONE verifier: what one Verify call reports must not depend on what the same Verifier
		// verified before (differential against a fresh Verifier per blob)
		{
			pool, perr := e2e.Pool(p.Store)
			var tampered []byte
			for _, f := range fields {
				if has(d, f.Mech) {
					orig := f.Get(d)
					if len(orig) == 0 {
						continue
					}
					m := bytes.Clone(orig)
					m[len(m)/2] ^= 0x10
					f.Set(d, m)
					tampered, _ = d.ToCbor()
					f.Set(d, orig)
					break
				}
			}
			blobs := map[byte][]byte{'G': blob, 'X': {0xFF, 0x00}}
			alpha := "GX"
			if tampered != nil {
				blobs['T'] = tampered
				alpha += "T"
			}
			if prevBlob != nil {
				blobs['P'] = prevBlob
				alpha += "P"
			}
			obs := func(d *document.DocumentEx, err error, pv any) string {
				if pv != nil {
					return fmt.Sprintf("panic %v", pv)
				}
				if err != nil || d == nil {
					return "hard-error"
				}
				return fmt.Sprintf("%+v", verdictsOf(d))
			}
			fresh := map[byte]string{}
			if perr == nil {
				for k, b := range blobs {
					var dd *document.DocumentEx
					var err error
					pv, _ := vc.Guard(func() { dd, err = verifier.NewVerifier(pool).Verify(b) })
					fresh[k] = obs(dd, err, pv)
				}
				var seqs []string
				var gen func(s string)
				gen = func(s string) {
					if len(s) > 0 {
						seqs = append(seqs, s)
					}
					if len(s) == 3 {
						return
					}
					for _, a := range alpha {
						gen(s + string(a))
					}
				}
				gen("")
				for _, sq := range seqs {
					vf := verifier.NewVerifier(pool)
					for i := 0; i < len(sq); i++ {
						var dd *document.DocumentEx
						var err error
						pv, _ := vc.Guard(func() { dd, err = vf.Verify(blobs[sq[i]]) })
						got := obs(dd, err, pv)
						c.Eval(1)
						c.Outcome(secD, map[bool]string{true: "same-as-fresh", false: "DIFFERS"}[got == fresh[sq[i]]])
						if got != fresh[sq[i]] {
							c.Violation(secD, "reused-verifier-differs-from-fresh/"+string(sq[i]), fmt.Sprintf("session %s: call %d of history %s on one Verifier (G genuine, T one evidence field tampered, P genuine export of another session, X unparseable) reports %s; a fresh Verifier reports %s", sess.Name, i+1, sq, got, fresh[sq[i]]), caseRec{Session: sess.Name, Mutation: "history " + sq}, nil)
							break
						}
					}
				}
				c.Distinct("D/" + sess.Name)
			}
			prevBlob = blob
		}
		// file bit flips on a few sessions
		if fileSweepDone < 2 && (has(d, "CA") || has(d, "CAM")) {
			fileSweepDone++
			c.SecBound(secC, "per swept session: every file x every bit (quick: every 3rd bit) => PA/parsing fails")
			step := 3
			if c.Thorough() {
				step = 1
			}
			for _, dg := range p.DGList { // EF.SOD: authenticated-region sweep is C01 (unauthenticated wrapper bytes may legitimately change)
				orig := p.Files[dg]
				for b := 0; b < len(orig)*8; b += step {
					m := bytes.Clone(orig)
					m[b/8] ^= 1 << (b % 8)
					res := flipFile(d, dg, m, p.Store)
					c.Outcome(secC, res)
					if len(res) > 12 && res[:12] == "verify-panic" {
						c.Violation(secC, fmt.Sprintf("file-flip-panic/%x/%s", dg, res[14:]), fmt.Sprintf("session %s: file %x with bit %d flipped makes the offline verifier panic: %s", sess.Name, dg, b, res), caseRec{Session: sess.Name, Field: fmt.Sprintf("file %x", dg), Mutation: fmt.Sprintf("bitflip@%d", b)}, nil)
					}
					if res == "ACCEPTED" {
						c.Violation(secC, fmt.Sprintf("file-flip-accepted/%x", dg), fmt.Sprintf("session %s: file %x with bit %d flipped still passes passive authentication offline", sess.Name, dg, b), caseRec{Session: sess.Name, Field: fmt.Sprintf("file %x", dg), Mutation: fmt.Sprintf("bitflip@%d", b)}, nil)
					}
				}
			}
		}
	}
	if c.Shard == 0 {
		c.Sample(caseRec{Session: "cam/13/c2", Mech: "CAM", Field: "TermKaPri", Mutation: "bitflip@17"})
		c.Sample(caseRec{Session: "aa-rsa/34CC", Mech: "AA", Field: "Algorithm", Mutation: "other-oid@1.2.840.10045.2.1"})
	}
}

// flipFile re-parses the document with one file replaced and runs the offline verifier.
func flipFile(d *document.DocumentEx, dg int, newBytes []byte, store [][]byte) string {
	cp := *d
	var err error
	pv, _ := vc.Guard(func() {
		if dg == 0x1D {
			var sod *document.SOD
			sod, err = document.NewSOD(newBytes)
			cp.Document.Mf.Lds1.Sod = sod
		} else {
			doc2 := d.Document // copy of struct (pointers shared); NewDG replaces the pointer for this DG only
			err = doc2.NewDG(dg, newBytes)
			cp.Document = doc2
		}
	})
	if pv != nil {
		return "parse-panic"
	}
	if err != nil {
		return "parse-error"
	}
	blob, err := cp.ToCbor()
	if err != nil {
		return "export-error"
	}
	v := e2e.Verify(store, blob, nil)
	if v.Panic != nil {
		msg := fmt.Sprint(v.Panic)
		if len(msg) > 60 {
			msg = msg[:60]
		}
		return "verify-panic: " + msg
	}
	if v.Err != nil || v.Doc == nil {
		return "verify-hard-error"
	}
	if vd := verdictsOf(v.Doc); vd.PA {
		return "ACCEPTED"
	}
	return "pa-failed"
}

func replay(c *vc.Ctx, raw json.RawMessage) string {
	return "C14 cases are re-executed by re-running the check (sessions are deterministic); recorded case: " + string(raw)
}
