// Package c05: BAC derives the ICAO keys and authenticates mutually.
package c05

import (
	"bytes"
	"crypto/rand"
	"encoding/json"
	"fmt"

	"github.com/gmrtd/gmrtd/bac"
	"github.com/gmrtd/gmrtd/document"
	"github.com/gmrtd/gmrtd/iso7816"
	"github.com/gmrtd/gmrtd/mrz"
	"github.com/gmrtd/gmrtd/password"

	"verif/internal/refchip"
	"verif/internal/refcrypto"
	"verif/internal/refmrz"
	"verif/internal/vc"
)

func init() {
	vc.Register(&vc.Check{ID: "C05", Level: "model_checking", Run: run, Replay: replay, QuickSec: 120, ThoroSec: 900,
		Rule:   "real bac.DoBAC (password from the full MRZ, from its three fields, and from the fields mrz.MrzDecode returns) against the independent chip personalised with keys derived by the reference from the printed MRZ. MRZ alphabet: three layouts x document-number lengths 1..9 and extended 10..max x filler/letter/digit shapes x date shapes; randoms RND.IC, K.IC (chip) and RND.IFD, K.IFD (terminal, through crypto/rand.Reader) from the full product {00..,FF..,pattern}^4. Success oracle: Success, the chip authenticated the terminal, and a protected file read succeeds on both sides (same session keys and SSC). Hostile responses (one deviation at the EXTERNAL AUTHENTICATE answer): every single-bit flip of the 40-byte cryptogram, MAC under another MRZ's keys, genuine cryptogram of another run, RND.IFD / RND.IC not echoed under a correct MAC, lengths 39/41, all-zero, bare status, the terminal's own cryptogram reflected => Success=false and no SM session. Histories: every sequence of up to 3 (thorough 4) runs on one session over {conforming chip, key-less device replaying the recorded previous run, 6300}, through one reused BAC object and through a new object per run: conforming runs succeed with a usable session, every other run fails closed. states = protocol runs, transitions = exchanges; distinct_nontrivial = distinct (layout, docnum length, random combo | hostile kind, outcome)",
		Assume: []string{"reference KDF / 3DES / retail MAC anchored to ICAO 9303-11 App. D.2/D.3 by SelfTest", "MAC forgery not searched"}})
}

var patterns = map[string]func(n int) []byte{
	"00": func(n int) []byte { return make([]byte, n) },
	"FF": func(n int) []byte { return bytes.Repeat([]byte{0xFF}, n) },
	"pt": func(n int) []byte {
		b := make([]byte, n)
		for i := range b {
			b[i] = byte(0x01 + 0x22*i)
		}
		return b
	},
}
var patNames = []string{"00", "FF", "pt"}

type runCase struct {
	Zone       string    `json:"zone"`
	MRZInfo    string    `json:"mrz_info"` // reference expectation, used to personalise the chip
	ViaMrzi    bool      `json:"via_fields"`
	ViaDecoded bool      `json:"via_decoded_fields,omitempty"` // mrz.MrzDecode(zone), then NewPasswordMrzi on the decoded fields
	DocNum     string    `json:"doc_number"`
	DOB        string    `json:"dob"`
	DOE        string    `json:"doe"`
	Rnd        [4]string `json:"rnd"` // RND.IC, K.IC, RND.IFD, K.IFD pattern names
	Hostile    string    `json:"hostile"`
	Bit        int       `json:"bit"`
}

type result struct {
	Key, What string
	Outcome   string
	Exchanges int
}

var dg1File = append([]byte{0x61, 0x5B, 0x5F, 0x1F, 0x58}, bytes.Repeat([]byte{'A'}, 88)...)

func runOne(rc runCase) result {
	chip := refchip.NewChip()
	chip.BAC = refchip.BACKeysFromMRZInfo(rc.MRZInfo)
	chip.AddLDS(0x0101, 1, dg1File, refchip.AccSM)
	chip.Rand.Queue = [][]byte{patterns[rc.Rnd[0]](8), patterns[rc.Rnd[1]](16)}
	term := refchip.NewDetRand("terminal")
	term.Queue = [][]byte{patterns[rc.Rnd[2]](8), patterns[rc.Rnd[3]](16)}
	old := rand.Reader
	rand.Reader = term
	defer func() { rand.Reader = old }()

	var genuineEA []byte
	other := refchip.BACKeysFromMRZInfo("X00000000<1010101" + "2" + "3012316" + "9") // another document's keys
	chip.Fault = func(n int, genuine []byte) []byte {
		if n != 2 || len(genuine) != 42 { // 0: SELECT AID, 1: GET CHALLENGE, 2: EXTERNAL AUTHENTICATE
			return nil
		}
		genuineEA = genuine
		cg := genuine[:40]
		switch rc.Hostile {
		case "":
			return nil
		case "bitflip":
			m := bytes.Clone(genuine)
			m[rc.Bit/8] ^= 1 << (rc.Bit % 8)
			return m
		case "mac-under-other-mrz":
			pt := refcrypto.CBCDecrypt(refcrypto.TDES, chip.BAC.KEnc, make([]byte, 8), cg[:32])
			e := refcrypto.CBCEncrypt(refcrypto.TDES, other.KEnc, make([]byte, 8), pt)
			return append(append(e, refcrypto.MAC8(refcrypto.TDES, other.KMac, e)...), 0x90, 0x00)
		case "plaintext-under-other-enc-key-genuine-mac-key":
			pt := refcrypto.CBCDecrypt(refcrypto.TDES, chip.BAC.KEnc, make([]byte, 8), cg[:32])
			e := refcrypto.CBCEncrypt(refcrypto.TDES, other.KEnc, make([]byte, 8), pt)
			return append(append(e, refcrypto.MAC8(refcrypto.TDES, chip.BAC.KMac, e)...), 0x90, 0x00)
		case "replay-other-run":
			// a genuine cryptogram of another run: same keys, other randoms (RND.IFD differs)
			pt := append(append(bytes.Repeat([]byte{0x5A}, 8), bytes.Repeat([]byte{0xA5}, 8)...), bytes.Repeat([]byte{0x33}, 16)...)
			e := refcrypto.CBCEncrypt(refcrypto.TDES, chip.BAC.KEnc, make([]byte, 8), pt)
			return append(append(e, refcrypto.MAC8(refcrypto.TDES, chip.BAC.KMac, e)...), 0x90, 0x00)
		case "len39":
			return append(bytes.Clone(cg[:39]), 0x90, 0x00)
		case "len41":
			return append(append(bytes.Clone(cg), 0x00), 0x90, 0x00)
		case "all-zero":
			return append(make([]byte, 40), 0x90, 0x00)
		case "bare-9000":
			return []byte{0x90, 0x00}
		case "sw-6300":
			return append(bytes.Clone(cg), 0x63, 0x00)
		case "reflect-command":
			// a device without any key reflects the terminal's own cryptogram (its MAC verifies, both challenges are inside)
			w := chip.Log[n].Wire
			if len(w) >= 45 {
				return append(bytes.Clone(w[5:45]), 0x90, 0x00)
			}
			return nil
		case "reflect-command-blocks-swapped":
			w := chip.Log[n].Wire
			if len(w) >= 45 {
				d := bytes.Clone(w[5:45])
				copy(d[0:8], w[13:21])
				copy(d[8:16], w[5:13])
				return append(d, 0x90, 0x00)
			}
			return nil
		}
		return nil
	}
	switch rc.Hostile {
	case "rnd-ifd-not-echoed":
		chip.Hostile = &refchip.Hostile{BACResponsePlain: func(p []byte) []byte { p[8+rc.Bit/8] ^= 1 << (rc.Bit % 8); return p }}
	case "rnd-ic-not-echoed":
		chip.Hostile = &refchip.Hostile{BACResponsePlain: func(p []byte) []byte { p[rc.Bit/8] ^= 1 << (rc.Bit % 8); return p }}
	}
	_ = genuineEA

	nfc := iso7816.NewNfcSession(chip)
	var res result
	var pass *password.Password
	var err error
	if rc.ViaDecoded {
		var dec *mrz.MRZ
		if dec, err = mrz.MrzDecode(rc.Zone); err == nil {
			pass, err = password.NewPasswordMrzi(dec.DocumentNumber, dec.DateOfBirth, dec.DateOfExpiry)
		}
	} else if rc.ViaMrzi {
		pass, err = password.NewPasswordMrzi(rc.DocNum, rc.DOB, rc.DOE)
	} else {
		pass, err = password.NewPasswordMrz(rc.Zone)
	}
	if err != nil {
		return result{Key: "password/valid-mrz-rejected", What: fmt.Sprintf("password construction failed for a well-formed MRZ (%q): %v", rc.Zone, err), Outcome: "password-error"}
	}
	if _, err := nfc.SelectAid(refchip.AIDLDS1); err != nil {
		return result{Key: "harness", What: "select AID: " + err.Error()}
	}
	var br *document.BacResult
	var berr error
	pv, _ := vc.Guard(func() { br, berr = bac.NewBAC(nfc, &document.Document{}, pass).DoBAC() })
	res.Exchanges = len(chip.Log)
	if pv != nil {
		return result{Key: "panic", What: fmt.Sprintf("DoBAC panicked: %v", pv), Outcome: "panic", Exchanges: len(chip.Log)}
	}
	success := br != nil && br.Success
	if rc.Hostile == "" {
		// conforming chip: must succeed, chip must have authenticated the terminal, next protected exchange works
		if !success || berr != nil {
			res.Key, res.What, res.Outcome = "genuine/bac-failed", fmt.Sprintf("BAC against a conforming chip failed (chip authenticated terminal=%v): %v; MRZ info expected by ICAO %q, zone %q", chip.Truth.BACCompleted, berr, rc.MRZInfo, rc.Zone), "failed"
			if !chip.Truth.BACCompleted {
				res.Key = "genuine/chip-rejects-terminal (keys differ from ICAO derivation)"
			}
			return res
		}
		if !chip.Truth.BACCompleted || nfc.SM() == nil {
			res.Key, res.What, res.Outcome = "genuine/success-without-session", "Success reported but chip did not complete / no SM installed", "inconsistent"
			return res
		}
		data, rerr := nfc.ReadFile(0x0101)
		if rerr != nil || !bytes.Equal(data, dg1File) {
			res.Key, res.What, res.Outcome = "genuine/session-keys-or-ssc-differ", fmt.Sprintf("BAC succeeded but the first protected read fails: %v", rerr), "post-bac-failure"
			return res
		}
		if !bytes.Equal(nfc.SM().SSC(), chip.SM.SSCBytes()) {
			res.Key, res.What, res.Outcome = "genuine/ssc-differ", fmt.Sprintf("SSC terminal %x chip %x", nfc.SM().SSC(), chip.SM.SSCBytes()), "ssc"
			return res
		}
		res.Outcome = "success+protected-read"
		return res
	}
	// hostile: must fail closed
	if success {
		res.Key, res.What, res.Outcome = "hostile/accepted:"+rc.Hostile, fmt.Sprintf("BAC reported success for a chip response of kind %s (bit %d)", rc.Hostile, rc.Bit), "accepted"
		return res
	}
	if nfc.SM() != nil {
		res.Key, res.What, res.Outcome = "hostile/session-installed:"+rc.Hostile, fmt.Sprintf("BAC failed but a secure-messaging session is installed (kind %s)", rc.Hostile), "sm-installed"
		return res
	}
	res.Outcome = "failed-closed"
	return res
}

type base struct {
	Zone, Info, DocNum, DOB, DOE string
	Layout                       string
}

func bases(thorough bool) []base {
	var out []base
	add := func(d refmrz.Doc) {
		z, e, err := refmrz.Build(d)
		if err != nil {
			return
		}
		out = append(out, base{z, e.MRZInfo, e.DocNumber, e.DOB, e.DOE, d.Layout.String()})
	}
	layouts := []refmrz.Layout{refmrz.TD1, refmrz.TD2, refmrz.TD3}
	num := "L8X8902C1Z7Q4K0W2R5T9Y3U6"
	dates := [][2]string{{"690806", "940623"}, {"000101", "991231"}}
	if thorough {
		dates = append(dates, [2]string{"740812", "120415"}, [2]string{"991231", "000101"})
	}
	for _, l := range layouts {
		maxN := refmrz.MaxDocNumber(l)
		for n := 1; n <= maxN; n++ {
			for _, dt := range dates {
				for variant := 0; variant < 3; variant++ {
					dn := num[:n]
					switch variant {
					case 1: // digits only
						dn = "1234567890123456789012345"[:n]
					case 2: // interior filler
						if n < 3 {
							continue
						}
						dn = num[:1] + "<" + num[2:n]
					}
					d := refmrz.Doc{Layout: l, DocCode: "P", Issuer: "UTO", Primary: "ERIKSSON", Secondary: "ANNA<MARIA", DocNumber: dn, Nationality: "UTO", DOB: dt[0], Sex: "F", DOE: dt[1]}
					if l != layouts[2] || true {
						d.Optional = "ZE184226B"
					}
					add(d)
					if variant == 0 {
						d.Optional = ""
						d.Sex = ""
						add(d)
					}
				}
			}
		}
	}
	return out
}

func run(c *vc.Ctx) {
	if err := refcrypto.SelfTest(); err != nil {
		c.HarnessError("refcrypto self-test: %v", err)
		return
	}
	bs := bases(c.Thorough())
	if len(bs) < 50 {
		c.HarnessError("only %d MRZ bases generated", len(bs))
		return
	}
	do := func(sec string, rc runCase, label string) {
		r := runOne(rc)
		c.AddStates(1)
		c.AddTrans(int64(r.Exchanges))
		c.AddTraces(1)
		c.Outcome(sec, r.Outcome)
		c.Distinct(label + "/" + r.Outcome)
		if r.Key == "harness" {
			c.HarnessError("%s", r.What)
			return
		}
		if r.Key != "" {
			c.Violation(sec, r.Key, r.What, rc, func() bool { return runOne(rc).Key != "" })
		}
	}
	sec1 := "genuine: MRZ shapes x randoms^4 x {full MRZ, three fields}"
	c.SecBound(sec1, fmt.Sprintf("%d MRZ bases (3 layouts, document number lengths 1..max incl. extended, letters/digits/interior filler, date shapes) x 81 random combinations x 2 password routes (full MRZ, the three printed fields) + 3 combinations through the third route MrzDecode -> decoded fields -> NewPasswordMrzi", len(bs)))
	for bi, b := range bs {
		for i := 0; i < 81; i++ {
			for route := 0; route < 3; route++ {
				via := route == 1
				if route == 2 && i >= 3 {
					continue // the decoded-fields route concerns the key seed only: 3 random combinations suffice
				}
				if !c.Mine() {
					continue
				}
				if c.Expired() {
					c.SecNotExhaustive(sec1, "deadline")
					goto hostile
				}
				r := [4]string{patNames[i%3], patNames[i/3%3], patNames[i/9%3], patNames[i/27%3]}
				rc := runCase{Zone: b.Zone, MRZInfo: b.Info, ViaMrzi: via, ViaDecoded: route == 2, DocNum: b.DocNum, DOB: b.DOB, DOE: b.DOE, Rnd: r}
				do(sec1, rc, fmt.Sprintf("g/%s/%d/%d/%d", b.Layout, len(b.DocNum), route, i))
				if bi == 3 && i == 5 && !via {
					c.Sample(rc)
				}
			}
		}
	}
hostile:
	sec2 := "hostile EXTERNAL AUTHENTICATE responses"
	kinds := []string{"reflect-command", "reflect-command-blocks-swapped", "mac-under-other-mrz", "plaintext-under-other-enc-key-genuine-mac-key", "replay-other-run", "len39", "len41", "all-zero", "bare-9000", "sw-6300"}
	hb := []base{bs[0], bs[len(bs)/2], bs[len(bs)-1]}
	c.SecBound(sec2, fmt.Sprintf("%d bases x 3 random combos x (320 single-bit flips of the cryptogram + 16 SW bit flips + 64 RND.IFD bits not echoed + 64 RND.IC bits not echoed + %d structural kinds)", len(hb), len(kinds)))
	for _, b := range hb {
		for _, rn := range [][4]string{{"pt", "pt", "pt", "pt"}, {"00", "FF", "00", "FF"}, {"FF", "00", "pt", "00"}} {
			mk := func(h string, bit int) runCase {
				return runCase{Zone: b.Zone, MRZInfo: b.Info, DocNum: b.DocNum, DOB: b.DOB, DOE: b.DOE, Rnd: rn, Hostile: h, Bit: bit}
			}
			for bit := 0; bit < 336; bit++ {
				if !c.Mine() {
					continue
				}
				rc := mk("bitflip", bit)
				if bit >= 320 {
					// status-word bits: a changed SW must not produce success either (9000 -> something else)
				}
				do(sec2, rc, fmt.Sprintf("h/bitflip/%d", bit/8))
			}
			for bit := 0; bit < 64; bit++ {
				if !c.Mine() {
					continue
				}
				do(sec2, mk("rnd-ifd-not-echoed", bit), fmt.Sprintf("h/ifd/%d", bit))
				do(sec2, mk("rnd-ic-not-echoed", bit), fmt.Sprintf("h/ic/%d", bit))
			}
			for _, k := range kinds {
				if !c.Mine() {
					continue
				}
				if (k == "reflect-command" || k == "reflect-command-blocks-swapped") && rn[0] == rn[2] {
					// RND.IC == RND.IFD (probability 2^-64 outside this alphabet): a reflected cryptogram IS a well-formed
					// echo of both challenges and no implementation can tell it apart - not judged
					continue
				}
				do(sec2, mk(k, 0), "h/"+k)
			}
		}
	}
	sec3 := "histories of runs on one session"
	depth := 3
	if c.Thorough() {
		depth = 4
	}
	seqs := histSeqs(depth)
	c.SecBound(sec3, fmt.Sprintf("%d bases x all %d histories of up to %d runs over {conforming chip, key-less device replaying the last recorded run, 6300} x {one BAC object for all runs, a new BAC object per run} x 2 password routes; terminal randoms never repeat", len(hb), len(seqs), depth))
	for _, b := range hb {
		for _, sq := range seqs {
			for _, same := range []bool{true, false} {
				for _, via := range []bool{false, true} {
					if !c.Mine() {
						continue
					}
					hc := histCase{Zone: b.Zone, MRZInfo: b.Info, ViaMrzi: via, DocNum: b.DocNum, DOB: b.DOB, DOE: b.DOE, Seq: sq, SameObject: same}
					r := runHist(hc)
					c.AddStates(int64(len(sq)))
					c.AddTrans(int64(r.Exchanges))
					c.AddTraces(1)
					c.Outcome(sec3, r.Outcome)
					c.Distinct(fmt.Sprintf("hist/%s/%v/%s", sq, same, r.Outcome))
					if r.Key == "harness" {
						c.HarnessError("%s", r.What)
						continue
					}
					if r.Key != "" {
						c.Violation(sec3, r.Key, r.What, hc, func() bool { return runHist(hc).Key != "" })
					}
				}
			}
		}
	}
}

func replay(c *vc.Ctx, raw json.RawMessage) string {
	var hd struct {
		Section string   `json:"section"`
		Case    histCase `json:"case"`
	}
	if json.Unmarshal(raw, &hd) == nil && hd.Case.Seq != "" {
		r := runHist(hd.Case)
		if r.Key != "" {
			c.Violation(hd.Section, r.Key, r.What, hd.Case, nil)
		}
		return fmt.Sprintf("history %+v -> %s; verdict: %s %s", hd.Case, r.Outcome, r.Key, r.What)
	}
	var doc struct {
		Section string  `json:"section"`
		Case    runCase `json:"case"`
	}
	if err := json.Unmarshal(raw, &doc); err != nil {
		return err.Error()
	}
	r := runOne(doc.Case)
	if r.Key != "" {
		c.Violation(doc.Section, r.Key, r.What, doc.Case, nil)
	}
	return fmt.Sprintf("case %+v -> outcome %s after %d exchanges; verdict: %s %s", doc.Case, r.Outcome, r.Exchanges, r.Key, r.What)
}
