package c05

import (
	"bytes"
	"crypto/rand"
	"fmt"

	"github.com/gmrtd/gmrtd/bac"
	"github.com/gmrtd/gmrtd/document"
	"github.com/gmrtd/gmrtd/iso7816"
	"github.com/gmrtd/gmrtd/password"

	"verif/internal/refchip"
	"verif/internal/vc"
)

// histCase is a HISTORY of BAC runs on one NFC session (the card is re-presented between runs: secure
// messaging is dropped and the chip state is reset). Seq has one letter per run:
//
//	G  a conforming chip with fresh RND.IC / K.IC
//	R  a device WITHOUT keys that recorded the most recent G run and replays it: the same RND.IC to
//	   GET CHALLENGE and the recorded 40-byte cryptogram to EXTERNAL AUTHENTICATE
//	F  a device that answers EXTERNAL AUTHENTICATE with 6300
//
// The terminal's random source returns never-repeating values, so an R run is "a response replayed from
// another run" in the sense of the statement and must fail closed whatever happened before.
type histCase struct {
	Zone       string `json:"zone"`
	MRZInfo    string `json:"mrz_info"`
	ViaMrzi    bool   `json:"via_fields"`
	DocNum     string `json:"doc_number"`
	DOB        string `json:"dob"`
	DOE        string `json:"doe"`
	Seq        string `json:"seq"`
	SameObject bool   `json:"same_bac_object"` // all runs through ONE *bac.BAC (else NewBAC per run, as the reader does)
}

// swapChip lets the harness exchange the device behind a live NfcSession.
type swapChip struct{ cur iso7816.Transceiver }

func (s *swapChip) Transceive(cla, ins, p1, p2 int, data []byte, le int, enc []byte) []byte {
	return s.cur.Transceive(cla, ins, p1, p2, data, le, enc)
}

// replayDevice holds no keys, only a recording.
type replayDevice struct {
	rndIC, ea []byte
	n         int
}

func (r *replayDevice) Transceive(cla, ins, p1, p2 int, data []byte, le int, enc []byte) []byte {
	r.n++
	switch ins {
	case 0xA4:
		return []byte{0x90, 0x00}
	case 0x84:
		return append(bytes.Clone(r.rndIC), 0x90, 0x00)
	case 0x82:
		return append(bytes.Clone(r.ea), 0x90, 0x00)
	}
	return []byte{0x69, 0x82}
}

func histSeqs(depth int) []string {
	out := []string{}
	var rec func(s string)
	rec = func(s string) {
		if len(s) > 0 {
			out = append(out, s)
		}
		if len(s) == depth {
			return
		}
		for _, l := range "GRF" {
			if l == 'R' && !bytes.ContainsRune([]byte(s), 'G') {
				continue // nothing recorded yet
			}
			rec(s + string(l))
		}
	}
	rec("")
	return out
}

func runHist(hc histCase) result {
	term := refchip.NewDetRand("terminal-history")
	old := rand.Reader
	rand.Reader = term
	defer func() { rand.Reader = old }()

	var pass *password.Password
	var err error
	if hc.ViaMrzi {
		pass, err = password.NewPasswordMrzi(hc.DocNum, hc.DOB, hc.DOE)
	} else {
		pass, err = password.NewPasswordMrz(hc.Zone)
	}
	if err != nil {
		return result{Key: "harness", What: "password: " + err.Error()}
	}
	sw := &swapChip{}
	nfc := iso7816.NewNfcSession(sw)
	var shared *bac.BAC
	if hc.SameObject {
		shared = bac.NewBAC(nfc, &document.Document{}, pass)
	}
	var rec *replayDevice
	var res result
	outcome := ""
	for i, l := range hc.Seq {
		nfc.SetSecureMessaging(nil)
		var chip *refchip.Chip
		switch l {
		case 'G', 'F':
			chip = refchip.NewChip()
			chip.BAC = refchip.BACKeysFromMRZInfo(hc.MRZInfo)
			chip.AddLDS(0x0101, 1, dg1File, refchip.AccSM)
			chip.Rand = refchip.NewDetRand(fmt.Sprintf("chip-run-%d", i))
			if l == 'F' {
				chip.Fault = func(n int, genuine []byte) []byte {
					if len(genuine) == 42 {
						return []byte{0x63, 0x00}
					}
					return nil
				}
			}
			sw.cur = chip
		case 'R':
			sw.cur = &replayDevice{rndIC: rec.rndIC, ea: rec.ea}
		}
		if _, err := nfc.SelectAid(refchip.AIDLDS1); err != nil {
			return result{Key: "harness", What: "select AID: " + err.Error()}
		}
		b := shared
		if b == nil {
			b = bac.NewBAC(nfc, &document.Document{}, pass)
		}
		var br *document.BacResult
		var berr error
		pv, _ := vc.Guard(func() { br, berr = b.DoBAC() })
		if chip != nil {
			res.Exchanges += len(chip.Log)
		} else {
			res.Exchanges += 3
		}
		if pv != nil {
			return result{Key: "panic", What: fmt.Sprintf("DoBAC panicked in run %d of %s: %v", i+1, hc.Seq, pv), Outcome: "panic", Exchanges: res.Exchanges}
		}
		success := br != nil && br.Success
		switch l {
		case 'G':
			if !success || berr != nil || !chip.Truth.BACCompleted || nfc.SM() == nil {
				res.Key, res.What, res.Outcome = "history/genuine-run-failed", fmt.Sprintf("run %d (conforming chip) of history %s failed: success=%v err=%v chip-completed=%v", i+1, hc.Seq, success, berr, chip.Truth.BACCompleted), "failed"
				return res
			}
			data, rerr := nfc.ReadFile(0x0101)
			if rerr != nil || !bytes.Equal(data, dg1File) {
				res.Key, res.What, res.Outcome = "history/genuine-run-session-unusable", fmt.Sprintf("run %d of history %s: protected read after BAC fails: %v", i+1, hc.Seq, rerr), "post-bac-failure"
				return res
			}
			// what an eavesdropper of this run holds
			rec = &replayDevice{}
			for _, ex := range chip.Log {
				if len(ex.Wire) > 1 && ex.Wire[1] == 0x84 && len(ex.WireResp) == 10 {
					rec.rndIC = bytes.Clone(ex.WireResp[:8])
				}
				if len(ex.Wire) > 1 && ex.Wire[1] == 0x82 && len(ex.WireResp) == 42 {
					rec.ea = bytes.Clone(ex.WireResp[:40])
				}
			}
			if rec.rndIC == nil || rec.ea == nil {
				return result{Key: "harness", What: "could not record the genuine run"}
			}
			outcome += "G:ok "
		case 'R', 'F':
			kind := map[rune]string{'R': "replay-of-recorded-run", 'F': "sw-6300"}[l]
			if success {
				res.Key, res.What, res.Outcome = "history/accepted:"+kind, fmt.Sprintf("run %d of history %s (same BAC object=%v): BAC reported success for %s", i+1, hc.Seq, hc.SameObject, kind), "accepted"
				return res
			}
			if nfc.SM() != nil {
				res.Key, res.What, res.Outcome = "history/session-installed:"+kind, fmt.Sprintf("run %d of history %s (same BAC object=%v): BAC failed but secure messaging is installed", i+1, hc.Seq, hc.SameObject), "sm-installed"
				return res
			}
			outcome += string(l) + ":failed-closed "
		}
	}
	res.Outcome = outcome
	return res
}
