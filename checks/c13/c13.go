// Package c13: file reads return exactly the stored file or an error.
package c13

import (
	"bytes"
	"encoding/json"
	"fmt"

	"github.com/gmrtd/gmrtd/iso7816"

	"verif/internal/explore"
	"verif/internal/refchip"
	"verif/internal/refcrypto"
	"verif/internal/smdrv"
	"verif/internal/vc"
)

func init() {
	vc.Register(&vc.Check{ID: "C13", Level: "model_checking", Run: run, Replay: replay, QuickSec: 170, ThoroSec: 1500,
		Rule: "real NfcSession.ReadFile against the independent chip (file-only personality, a second file reachable by short EF identifier). (i) EVERY chunking (all compositions, chip answers 1..requested bytes at every READ BINARY) of every file of total size 2..10 x header forms x maxLe {1,2,3,4,5,8,256}; (ii) size set x header form x EVERY maxLe 1..65536 with default chunking (quick: 6 sizes; thorough: all), plain and under secure messaging; (iii) chip Le caps around the fallback ladder x maxLe; (iv) deviation-bounded exploration (D<=2) of chip answers {all,1,requested-1,half,reject} on a 16-value maxLe boundary set; (v) EF physical size = TLV + {0,1,2,300} padding bytes. Oracle: result is exactly the file's top-level data object, or an error; (nil,nil) only if the chip answered SELECT with 6A82/6283; READ BINARY count bounded. states = executions, transitions = READ BINARY exchanges; distinct_nontrivial = distinct (section,size,header,maxLe class,outcome) tuples",
		Assume: []string{"the chip follows ISO 7816-4 READ BINARY addressing: P1.b8=1 selects by short EF identifier (SFI 0 = current EF)", "file contents are a position-dependent pattern so repeated/missing segments are visible"}})
}

type fileSpec struct {
	Total   int // total TLV size
	TagLen  int // 1 or 2
	LenForm int // 0 short, 1 = 81, 2 = 82, 3 = indefinite (80 ... 00 00)
	Pad     int // physical padding after the TLV
}

// build returns (tlv bytes, physical EF contents) or nil if the form cannot express the size.
var buildCache = map[fileSpec][2][]byte{}
var otherFile = bytes.Repeat([]byte{0xEE}, 70000)

// build is memoised; callers must not modify the returned slices (the chip copies what it returns).
func (f fileSpec) build() (tlv []byte, phys []byte) {
	if v, ok := buildCache[f]; ok {
		return v[0], v[1]
	}
	tlv, phys = f.build0()
	if len(buildCache) > 64 {
		buildCache = map[fileSpec][2][]byte{}
	}
	buildCache[f] = [2][]byte{tlv, phys}
	return
}

func (f fileSpec) build0() (tlv []byte, phys []byte) {
	h := f.TagLen + 1 + f.LenForm
	if f.LenForm == 3 {
		h = f.TagLen + 1 + 2 // 80 and the end-of-contents octets
	}
	l := f.Total - h
	if l < 0 {
		return nil, nil
	}
	switch f.LenForm {
	case 0:
		if l > 127 {
			return nil, nil
		}
	case 1:
		if l > 255 {
			return nil, nil
		}
	case 2, 3:
		if l > 65535 {
			return nil, nil
		}
	}
	if f.TagLen == 1 {
		tlv = append(tlv, 0x61)
	} else {
		tlv = append(tlv, 0x7F, 0x61)
	}
	switch f.LenForm {
	case 0:
		tlv = append(tlv, byte(l))
	case 1:
		tlv = append(tlv, 0x81, byte(l))
	case 2:
		tlv = append(tlv, 0x82, byte(l>>8), byte(l))
	case 3:
		tlv = append(tlv, 0x80)
	}
	if f.LenForm == 3 {
		// indefinite length: the value must itself be TLV; one primitive 04 element (or nothing) then 00 00
		switch {
		case l == 0:
		case l == 1:
			return nil, nil
		case l-2 < 128:
			tlv = append(tlv, 0x04, byte(l-2))
			for i := 0; i < l-2; i++ {
				tlv = append(tlv, byte(i)*7^0x33)
			}
		default:
			return nil, nil
		}
		tlv = append(tlv, 0x00, 0x00)
		phys = append([]byte{}, tlv...)
		for i := 0; i < f.Pad; i++ {
			phys = append(phys, 0xC0+byte(i%7))
		}
		return
	}
	for i := 0; i < l; i++ {
		tlv = append(tlv, byte(i)^byte(i>>8)*17^byte(i>>16)*29^0x5A)
	}
	phys = append([]byte{}, tlv...)
	for i := 0; i < f.Pad; i++ {
		phys = append(phys, 0xC0+byte(i%7)) // padding that is distinguishable from content
	}
	return
}

type scenario struct {
	File    fileSpec
	MaxLe   int
	LeCap   int
	SM      int // 0 plain; 1..4 = alg+1
	Strict  bool // strict ISO parser (rejects gmrtd's 6-byte case-2E form)
	NoExt   bool
	Choices []int // ReadChoice schedule (explorer prefix)
	Menu    int   // 0: default chunking only; 1: {all,1,req-1,half,reject}; 2: every k in 1..n
}

type outcome struct {
	Class  string
	Key    string
	What   string
	Reads  int
	Data   []byte
}

const otherSFI = 1

func runScenario(sc scenario, env *explore.Env) outcome {
	tlv, phys := sc.File.build()
	chip := refchip.NewChip()
	chip.NoAccessRules = true
	chip.Lenient2E = !sc.Strict
	chip.ExtendedLen = !sc.NoExt
	chip.LeCap = sc.LeCap
	other := otherFile
	chip.AddMF(0x0105, 5, phys, refchip.AccFree)
	chip.AddMF(0x0101, otherSFI, other, refchip.AccFree)
	if sc.Menu != 0 {
		chip.ReadChoice = func(r refchip.ReadReq) int {
			n := min(r.Ne, r.Avail)
			if sc.Menu == 2 {
				// every k in 1..n; default (choice 0) = all
				k := env.Choose(fmt.Sprintf("rb@%d ne=%d", r.Offset, r.Ne), n)
				return n - k
			}
			opts := []int{n, 1, n - 1, (n + 1) / 2, 0}
			// dedupe menu while keeping order
			var menu []int
			for _, o := range opts {
				if o < 0 || (o == 0 && false) {
					continue
				}
				dup := false
				for _, m := range menu {
					if m == o {
						dup = true
					}
				}
				if !dup && (o >= 1 || o == 0) {
					menu = append(menu, o)
				}
			}
			return menu[env.Choose(fmt.Sprintf("rb@%d ne=%d", r.Offset, r.Ne), len(menu))]
		}
	}
	nfc := iso7816.NewNfcSession(chip)
	nfc.SetMaxLe(sc.MaxLe)
	if sc.SM > 0 {
		alg := refcrypto.Alg(sc.SM - 1)
		enc, mac := smdrv.Keys(alg, "c13")
		ssc := smdrv.SSCStart(alg, 1)
		chip.SM = refcrypto.NewSM(alg, enc, mac, ssc)
		lib, err := smdrv.NewLibSM(alg, enc, mac, ssc)
		if err != nil {
			return outcome{Class: "harness", Key: "harness", What: err.Error()}
		}
		nfc.SetSecureMessaging(lib)
	}
	var data []byte
	var err error
	pv, _ := vc.Guard(func() { data, err = nfc.ReadFile(0x0105) })
	o := outcome{Reads: chip.Truth.ReadBinaries, Data: data}
	switch {
	case pv != nil:
		o.Class, o.Key, o.What = "panic", "panic", fmt.Sprintf("ReadFile panicked: %v", pv)
	case err != nil:
		o.Class = "error"
	case data == nil:
		o.Class = "notfound"
		o.Key = "notfound-for-existing-file"
		if len(tlv) <= 4 {
			o.Key += "/object-fits-in-4-byte-probe"
		}
		o.What = fmt.Sprintf("ReadFile returned (nil,nil) = not found, but the chip selected the file (TLV of %d bytes: %x…)", len(tlv), tlv[:min(len(tlv), 8)])
	case bytes.Equal(data, tlv):
		o.Class = "exact"
	default:
		o.Class = "wrong"
		o.Key, o.What = classifyWrong(data, tlv, phys, sc)
	}
	limit := 1000 + 3 + 2
	if o.Reads > limit && o.Key == "" {
		o.Key, o.What = "chunk-limit-exceeded", fmt.Sprintf("%d READ BINARY commands for one file", o.Reads)
	}
	return o
}

func classifyWrong(data, tlv, phys []byte, sc scenario) (string, string) {
	what := fmt.Sprintf("ReadFile returned %d bytes, the stored object has %d (file %+v maxLe %d); first difference at %d", len(data), len(tlv), sc.File, sc.MaxLe, firstDiff(data, tlv))
	switch {
	case sc.File.LenForm == 3 && len(data) < len(tlv) && bytes.Equal(data, tlv[:len(data)]):
		return "wrong/prefix/indefinite-length-top-level-object", what
	case len(data) < len(tlv) && bytes.Equal(data, tlv[:len(data)]):
		return "wrong/prefix", what
	case len(data) > len(tlv) && bytes.Equal(data[:len(tlv)], tlv) && bytes.Equal(data, phys[:min(len(phys), len(data))]):
		return "wrong/object-plus-padding-bytes", what
	case len(data) == len(tlv) && firstDiff(data, tlv) >= 32768:
		d := firstDiff(data, tlv)
		if data[d] == 0xEE {
			return "wrong/offset>=32768-read-as-SFI/other-file-bytes", what
		}
		return "wrong/offset>=32768-read-as-SFI/own-head-repeated", what
	}
	return "wrong/other", what
}

func firstDiff(a, b []byte) int {
	for i := 0; i < len(a) && i < len(b); i++ {
		if a[i] != b[i] {
			return i
		}
	}
	return min(len(a), len(b))
}

func leClass(m int) string {
	switch {
	case m <= 4:
		return fmt.Sprint(m)
	case m < 128:
		return "5..127"
	case m <= 256:
		return fmt.Sprint("128..256")
	case m < 32768:
		return "257..32767"
	default:
		return ">=32768"
	}
}

func run(c *vc.Ctx) {
	if err := refcrypto.SelfTest(); err != nil {
		c.HarnessError("refcrypto self-test: %v", err)
		return
	}
	record := func(sec string, sc scenario, o outcome) {
		c.AddStates(1)
		c.AddTrans(int64(o.Reads))
		c.AddTraces(1)
		c.Outcome(sec, o.Class)
		c.Distinct(fmt.Sprintf("%s/%d/%d%d/%s/sm%d/%s", sec, sc.File.Total, sc.File.TagLen, sc.File.LenForm, leClass(sc.MaxLe), sc.SM, o.Class))
		if o.Key != "" {
			s2 := sc
			c.Violation(sec, o.Key, o.What, s2, func() bool {
				return runScenario(s2, explore.Run(s2.Choices, 5000, func(*explore.Env) {})).Key != "" || true
			})
		}
	}
	forms := []struct{ tl, lf int }{{1, 0}, {1, 1}, {1, 2}, {2, 0}, {2, 1}, {2, 2}, {1, 3}, {2, 3}}

	// (i) every chunking of tiny files
	sec1 := "(i) all chunkings of files of total size 2..10"
	maxTiny := 10
	if c.Thorough() {
		maxTiny = 12
	}
	c.SecBound(sec1, fmt.Sprintf("total size 2..%d x 6 header forms x padding {0,2} x maxLe {1,2,3,4,5,8,256}; every composition of every read", maxTiny))
	for total := 2; total <= maxTiny; total++ {
		for _, f := range forms {
			for _, pad := range []int{0, 2} {
				fs := fileSpec{total, f.tl, f.lf, pad}
				if t, _ := fs.build(); t == nil {
					continue
				}
				for _, ml := range []int{1, 2, 3, 4, 5, 8, 256} {
					if !c.Mine() {
						continue
					}
					if c.Expired() {
						c.SecNotExhaustive(sec1, "deadline")
						goto part2
					}
					sc := scenario{File: fs, MaxLe: ml, Menu: 2}
					var last outcome
					explore.Explore(-1, 4000, func(e *explore.Env) { last = runScenario(sc, e) }, func(e *explore.Env) bool {
						s := sc
						s.Choices = e.TrimmedChoices()
						record(sec1, s, last)
						return true
					}, nil)
				}
			}
		}
	}
part2:
	// (ii) every maxLe
	sec2 := "(ii) every maxLe 1..65536, default chunking"
	sizes := []int{5, 130, 261, 32769, 33290, 40000}
	if c.Thorough() {
		sizes = []int{2, 3, 4, 5, 6, 127, 128, 129, 130, 131, 255, 256, 257, 258, 259, 260, 261, 32766, 32767, 32768, 32769, 32770, 32771, 32772, 33279, 33280, 33290, 40000, 65534, 65535, 65539}
	}
	c.SecBound(sec2, fmt.Sprintf("sizes %v x longest fitting length form (and 2-byte tag for size 261) x every maxLe 1..65536 x {plain lenient-2E chip, 3DES SM, AES-128 SM}; plus strict-ISO plain chip on maxLe boundary set", sizes))
	for _, total := range sizes {
		var fsList []fileSpec
		for _, f := range forms {
			fs := fileSpec{total, f.tl, f.lf, 0}
			if t, _ := fs.build(); t != nil {
				fsList = append(fsList, fs)
			}
		}
		if len(fsList) == 0 {
			continue
		}
		// minimal-length form among those that fit, 1-byte tag; plus a 2-byte tag form for mid sizes
		pick := []fileSpec{fsList[0]}
		if total == 261 || total == 130 {
			pick = fsList
		}
		for _, fs := range pick {
			for _, sm := range []int{0, 1, 2} {
				if sm != 0 && total > 40000 {
					continue
				}
				if sm != 0 && total > 1000 && c.Quick() {
					// quick: large files under SM only on the maxLe boundary set (thorough: every maxLe)
					for _, ml := range []int{1, 100, 223, 224, 255, 256, 257, 1000, 4096, 32767, 32768, 65535, 65536} {
						if !c.Mine() {
							continue
						}
						sc := scenario{File: fs, MaxLe: ml, SM: sm}
						record(sec2, sc, runScenario(sc, nil))
					}
					continue
				}
				for ml0 := 1; ml0 <= 65536; ml0 += 512 {
					if !c.Mine() {
						continue
					}
					if c.Expired() {
						c.SecNotExhaustive(sec2, fmt.Sprintf("deadline at size %d", total))
						goto part3
					}
					for ml := ml0; ml < ml0+512 && ml <= 65536; ml++ {
						sc := scenario{File: fs, MaxLe: ml, SM: sm}
						record(sec2, sc, runScenario(sc, nil))
					}
				}
			}
		}
	}
part3:
	// (iii) Le caps x maxLe, strict/lenient, extended on/off
	sec3 := "(iii) chip Le caps around the fallback ladder"
	caps := []int{0, 4, 100, 127, 128, 129, 191, 192, 193, 255, 256, 257, 1000}
	mls := []int{4, 5, 127, 128, 129, 192, 200, 223, 224, 255, 256, 257, 1000, 4096, 32767, 32768, 65535, 65536}
	c.SecBound(sec3, fmt.Sprintf("caps %v x maxLe %v x sizes {130,261,1000,33290} x {strict,lenient 2E} x {extended,no extended} x {plain,AES-256 SM} x padding {0,1,2,300}", caps, mls))
	for _, total := range []int{130, 261, 1000, 33290} {
		for _, cap := range caps {
			for _, ml := range mls {
				for _, strict := range []bool{false, true} {
					for _, noext := range []bool{false, true} {
						for _, sm := range []int{0, 4} {
							for _, pad := range []int{0, 1, 2, 300} {
								if !c.Mine() {
									continue
								}
								if c.Expired() {
									c.SecNotExhaustive(sec3, "deadline")
									goto part4
								}
								lf := 2
								if total < 128 {
									lf = 0
								} else if total < 256 {
									lf = 1
								}
								sc := scenario{File: fileSpec{total, 1, lf, pad}, MaxLe: ml, LeCap: cap, Strict: strict, NoExt: noext, SM: sm}
								record(sec3, sc, runScenario(sc, nil))
							}
						}
					}
				}
			}
		}
	}
part4:
	// (iv) D<=2 deviations of chip answers
	sec4 := "(iv) D<=2 chip-answer deviations {all,1,req-1,half,reject}"
	d2Limit := 40
	if c.Thorough() {
		d2Limit = 200
	}
	mls4 := []int{1, 3, 4, 5, 7, 8, 100, 128, 192, 255, 256, 257, 300, 1000, 32768, 65536}
	szs4 := []int{6, 131, 261, 700}
	if c.Thorough() {
		szs4 = append(szs4, 3000, 33290)
	}
	c.SecBound(sec4, fmt.Sprintf("sizes %v x padding {0,2} x maxLe %v x {plain,3DES SM}; all executions with <=2 non-default chip answers where the read needs <=%d exchanges, <=1 otherwise", szs4, mls4, d2Limit))
	for _, total := range szs4 {
		for _, pad := range []int{0, 2} {
			for _, ml := range mls4 {
				for _, sm := range []int{0, 1} {
					if !c.Mine() {
						continue
					}
					if c.Expired() {
						c.SecNotExhaustive(sec4, "deadline")
						goto done
					}
					lf := 2
					if total < 128 {
						lf = 0
					} else if total < 256 {
						lf = 1
					}
					sc := scenario{File: fileSpec{total, 1, lf, pad}, MaxLe: ml, SM: sm, Menu: 1}
					var last outcome
					// the deviation bound depends on the number of choice points of the scenario
					D := 2
					if pts := (total + ml - 1) / ml; pts > d2Limit {
						D = 1
					}
					explore.Explore(D, 3000, func(e *explore.Env) { last = runScenario(sc, e) }, func(e *explore.Env) bool {
						s := sc
						s.Choices = e.TrimmedChoices()
						record(sec4, s, last)
						return !c.Expired()
					}, nil)
				}
			}
		}
	}
done:
	// (v) not-found semantics
	if c.Shard == 0 {
		sec5 := "(v) SELECT status semantics"
		for _, swv := range []uint16{0x6A82, 0x6283, 0x6982, 0x6A86, 0x6700} {
			chip := refchip.NewChip()
			chip.NoAccessRules = true
			swv := swv
			chip.Hostile = &refchip.Hostile{Exec: hostileSelect(swv)}
			nfc := iso7816.NewNfcSession(chip)
			data, err := nfc.ReadFile(0x0105)
			cls := "error"
			if err == nil && data == nil {
				cls = "notfound"
			} else if err == nil {
				cls = "data"
			}
			c.Outcome(sec5, fmt.Sprintf("%04x->%s", swv, cls))
			if cls == "data" || (cls == "notfound" && swv != 0x6A82 && swv != 0x6283) {
				c.Violation(sec5, "select-status/"+cls, fmt.Sprintf("SELECT answered %04x but ReadFile reported %s", swv, cls), swv, nil)
			}
		}
		c.Sample(map[string]any{"scenario": scenario{File: fileSpec{261, 2, 2, 2}, MaxLe: 100, Menu: 1, Choices: []int{0, 1, 3}}, "meaning": "file 7F61 82 .. (261 bytes) + 2 padding bytes; chip answers READ BINARY #2 with 1 byte and #3 with half"})
	}
}

func replay(c *vc.Ctx, raw json.RawMessage) string {
	var doc struct {
		Section string   `json:"section"`
		Case    scenario `json:"case"`
	}
	if err := json.Unmarshal(raw, &doc); err != nil {
		return err.Error()
	}
	var o outcome
	explore.Run(doc.Case.Choices, 5000, func(e *explore.Env) { o = runScenario(doc.Case, e) })
	if o.Key != "" {
		c.Violation(doc.Section, o.Key, o.What, doc.Case, nil)
	}
	tlv, _ := doc.Case.File.build()
	return fmt.Sprintf("scenario %+v: stored object %d bytes (%x…); ReadFile -> class=%s, %d bytes, %d READ BINARY; verdict: %s %s", doc.Case, len(tlv), tlv[:min(8, len(tlv))], o.Class, len(o.Data), o.Reads, o.Key, o.What)
}
