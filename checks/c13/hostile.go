package c13

import (
	"verif/internal/ref7816"
	"verif/internal/refchip"
)

func hostileSelect(swv uint16) func(c *refchip.Chip, cmd *ref7816.Cmd, protected bool) ([]byte, uint16, bool) {
	return func(c *refchip.Chip, cmd *ref7816.Cmd, protected bool) ([]byte, uint16, bool) {
		if cmd.INS == 0xA4 {
			return nil, swv, true
		}
		return nil, 0, false
	}
}
