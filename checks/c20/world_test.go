package c20

import (
	"testing"
	"time"

	"github.com/gmrtd/gmrtd/cms"
	"github.com/gmrtd/gmrtd/iso7816"
	"github.com/gmrtd/gmrtd/reader"
	"github.com/gmrtd/gmrtd/verifier"
)

// The world must give a complete, trusted read in the plain (uninstrumented) build.
func TestWorldSequentialRead(t *testing.T) {
	w, err := NewWorld()
	if err != nil {
		t.Fatal(err)
	}
	pool := &cms.GenericCertPool{}
	for _, d := range w.TrustDER {
		if err := pool.Add(d); err != nil {
			t.Fatal(err)
		}
	}
	var first string
	var cbor []byte
	for i := 0; i < 3; i++ {
		chip := w.NewChip()
		r := reader.NewReader(nil, iso7816.NewNfcSession(chip), pool)
		if i == 1 {
			r.SkipImages()
		}
		if i == 2 {
			r.WithAAChallenge([]byte{1, 2, 3, 4, 5, 6, 7, 8})
		}
		t0 := time.Now()
		d, log, err := r.ReadDocument(w.Password(), nil, nil)
		el := time.Since(t0)
		o := ObserveDocEx(d, err) + " " + ObserveApduLog(log) + " " + chip.Observe()
		t.Logf("read %d (%v): %s", i, el, o)
		if err != nil || !d.Summary().DataTrusted {
			t.Fatalf("read %d not clean", i)
		}
		if i == 0 {
			first = o
			cbor, err = d.ToCbor()
			if err != nil {
				t.Fatal(err)
			}
		}
	}
	_ = first
	v := verifier.NewVerifier(pool)
	t0 := time.Now()
	d, err := v.Verify(cbor)
	t.Logf("verify (%v): %s", time.Since(t0), ObserveDocEx(d, err))
	if err != nil {
		t.Fatal(err)
	}
	v.WithAAChallenge([]byte{9, 9, 9, 9, 9, 9, 9, 9})
	d, err = v.Verify(cbor)
	t.Logf("verify with other challenge: %s", ObserveDocEx(d, err))
	if err == nil {
		t.Fatal("nonce mismatch expected")
	}
}
