// Package c20 holds the scheduler-independent half of the C20 check (shared readers, verifiers and trust
// stores are safe under concurrency): the deterministic world (issuer, document, chip), the observation
// functions and the sequential-equivalence oracle. It compiles in the normal vcheck build and uses the
// library's public API only.
//
// The check itself (scenarios, schedule exploration, free-running race pass) is the separate command
// /verif/cmd/vcheck20, which only builds with the overlay produced by /verif/cmd/vinstrument (build tag
// verifinst) and is driven by /verif/run_c20.sh. It is deliberately NOT linked into the ordinary vcheck
// (no READY marker here): the scheduler must be the virtual package github.com/gmrtd/gmrtd/verifsched that
// the instrumented library files import, and that package does not exist in a normal build.
package c20

import (
	"crypto/sha256"
	"encoding/hex"
	"fmt"
	"sort"
	"strings"

	"github.com/gmrtd/gmrtd/document"
	"github.com/gmrtd/gmrtd/iso7816"
	"github.com/gmrtd/gmrtd/password"

	"verif/internal/ref7816"
	"verif/internal/refchip"
	"verif/internal/reflds"
	"verif/internal/refpki"
)

const (
	DocNumber = "XR2044719"
	DOB       = "800704"
	DOE       = "330101"
	State     = "NLD"
)

// World is the fixed, deterministic environment of every execution.
type World struct {
	Issuer   *refpki.Issuer
	DGs      map[int][]byte // data group files
	SOD      []byte
	COM      []byte
	TrustDER [][]byte // the CSCA certificate of the issuer
	OtherDER [][]byte // an unrelated CSCA (another country), for multi-pool stores
	AAKey    *refpki.Key
	MRZInfo  string
	// NoMemo: do not memoise chip signatures (free-running pass: the memo table would be harness state
	// shared between goroutines).
	NoMemo bool
	aaSigs map[string][]byte
}

// NewWorld builds the document: DG1 (TD3), DG2 (face), DG7 (signature image), DG11, DG15 (EC P-256 active
// authentication key), EF.COM and an EF.SOD signed by an EC P-256 document signer under an EC P-256 CSCA.
func NewWorld() (*World, error) {
	w := &World{DGs: map[int][]byte{}, aaSigs: map[string][]byte{}}
	prof := refpki.Profile{Country: "NL", State: State, CSCA: refpki.EC("P-256", false, 0), DS: refpki.EC("P-256", false, 1), Hash: refpki.SHA256}
	w.Issuer = refpki.NewIssuer(prof)
	w.TrustDER = w.Issuer.TrustStoreDER()
	other := refpki.NewIssuer(refpki.Profile{Country: "SE", State: "SWE", CSCA: refpki.EC("P-256", false, 10), DS: refpki.EC("P-256", false, 11), Hash: refpki.SHA256})
	w.OtherDER = other.TrustStoreDER()
	w.AAKey = refpki.LoadKey(refpki.EC("P-256", false, 20))

	w.DGs[1] = refpki.BuildDG1TD3(State, DocNumber, DOB, DOE)
	for _, s := range reflds.Seeds() {
		switch s.Name {
		case "doc/DG2":
			w.DGs[2] = s.Bytes
		case "doc/DG7":
			w.DGs[7] = s.Bytes
		}
	}
	if w.DGs[2] == nil || w.DGs[7] == nil {
		return nil, fmt.Errorf("reflds seeds lack doc/DG2 or doc/DG7")
	}
	w.DGs[11] = refpki.BuildDG11("SPECIMEN<<ANNA<MARIA")
	w.DGs[15] = refpki.BuildDG15(w.AAKey)
	w.SOD, _ = w.Issuer.IssueSOD(w.DGs, refpki.SODOpts{LDSVersion: 0})
	w.COM = refpki.BuildCOM([]int{1, 2, 7, 11, 15})
	cd := func(s string) string { return s + string(refpki.CheckDigit(s)) }
	w.MRZInfo = cd(DocNumber) + cd(DOB) + cd(DOE)
	return w, nil
}

// Password is the MRZ-derived access password of the document.
func (w *World) Password() *password.Password {
	p, err := password.NewPasswordMrzi(DocNumber, DOB, DOE)
	if err != nil {
		panic(err)
	}
	return p
}

// Chip is a fresh reference chip personalised with the world's document: BAC only (no EF.CardAccess, so
// no PACE), active authentication with ECDSA answered through the chip's command hook.
type Chip struct {
	*refchip.Chip
	AAChallenges [][]byte
}

func (w *World) NewChip() *Chip {
	c := &Chip{Chip: refchip.NewChip()}
	c.Lenient2E = true
	c.BAC = refchip.BACKeysFromMRZInfo(w.MRZInfo)
	for dg, data := range w.DGs {
		fid, sfi := refchip.LDSFID(dg)
		c.AddLDS(fid, sfi, data, refchip.AccSM)
	}
	c.AddLDS(0x011D, 0x1D, w.SOD, refchip.AccSM)
	c.AddLDS(0x011E, 0x1E, w.COM, refchip.AccSM)
	c.Hostile = &refchip.Hostile{Exec: func(_ *refchip.Chip, cmd *ref7816.Cmd, protected bool) ([]byte, uint16, bool) {
		if cmd.INS != 0x88 {
			return nil, 0, false
		}
		if !protected {
			return nil, 0x6982, true
		}
		if len(cmd.Data) != 8 {
			return nil, 0x6700, true
		}
		c.AAChallenges = append(c.AAChallenges, append([]byte{}, cmd.Data...))
		return w.aaSign(cmd.Data), 0x9000, true
	}}
	return c
}

// aaSign is the chip's active authentication signature (ecdsa-plain over SHA-256 of RND.IFD), memoised:
// it is a deterministic function of the challenge.
func (w *World) aaSign(ch []byte) []byte {
	if !w.NoMemo {
		if s, ok := w.aaSigs[string(ch)]; ok {
			return s
		}
	}
	d := sha256.Sum256(ch)
	r, s := w.AAKey.EC.SignDigest(d[:])
	out := make([]byte, 64)
	r.FillBytes(out[:32])
	s.FillBytes(out[32:])
	if !w.NoMemo {
		w.aaSigs[string(ch)] = out
	}
	return out
}

// Prewarm computes the signatures for the given challenges (so that concurrent free-running goroutines
// only read the memo table).
func (w *World) Prewarm(chs ...[]byte) {
	for _, c := range chs {
		w.aaSign(c)
	}
}

// ---------------------------------------------------------------------------------------------------
// observations

func short(b []byte) string {
	if b == nil {
		return "-"
	}
	h := sha256.Sum256(b)
	return fmt.Sprintf("%d:%s", len(b), hex.EncodeToString(h[:4]))
}

func errStr(e error) string {
	if e == nil {
		return "nil"
	}
	s := e.Error()
	if len(s) > 160 {
		s = s[:160]
	}
	return s
}

// ObserveDocEx is the canonical observation of a read / verify result: error, file set with content
// hashes, access-control and authentication verdicts, the active authentication nonce.
func ObserveDocEx(d *document.DocumentEx, err error) string {
	var b strings.Builder
	fmt.Fprintf(&b, "err=%s", errStr(err))
	if d == nil {
		b.WriteString(" doc=nil")
		return b.String()
	}
	l := d.Document.Mf.Lds1
	files := []string{}
	add := func(name string, present bool, raw func() []byte) {
		if present {
			files = append(files, name+"="+short(raw()))
		}
	}
	add("CardAccess", d.Document.Mf.CardAccess != nil, func() []byte { return d.Document.Mf.CardAccess.GetRawData() })
	add("DIR", d.Document.Mf.Dir != nil, func() []byte { return d.Document.Mf.Dir.GetRawData() })
	add("COM", l.Com != nil, func() []byte { return l.Com.GetRawData() })
	add("SOD", l.Sod != nil, func() []byte { return l.Sod.GetRawData() })
	add("DG1", l.Dg1 != nil, func() []byte { return l.Dg1.RawData })
	add("DG2", l.Dg2 != nil, func() []byte { return l.Dg2.RawData })
	add("DG7", l.Dg7 != nil, func() []byte { return l.Dg7.RawData })
	add("DG11", l.Dg11 != nil, func() []byte { return l.Dg11.RawData })
	add("DG15", l.Dg15 != nil, func() []byte { return l.Dg15.RawData })
	fmt.Fprintf(&b, " files=[%s]", strings.Join(files, " "))
	s := d.Session
	fmt.Fprintf(&b, " bac=%v/%s pace=%v/%s", s.BacResult != nil, errStr(s.BacErr), s.PaceResult != nil, errStr(s.PaceErr))
	if s.ActiveAuthResult != nil {
		n := "-"
		if s.ActiveAuthResult.Evidence != nil {
			n = hex.EncodeToString(s.ActiveAuthResult.Evidence.Nonce)
		}
		fmt.Fprintf(&b, " aa=%v nonce=%s/%s", s.ActiveAuthResult.Success, n, errStr(s.ActiveAuthErr))
	} else {
		fmt.Fprintf(&b, " aa=none/%s", errStr(s.ActiveAuthErr))
	}
	fmt.Fprintf(&b, " ca=%v/%s", s.ChipAuthResult != nil, errStr(s.ChipAuthErr))
	if s.PassiveAuthResult != nil {
		chain := 0
		if s.PassiveAuthResult.Sod != nil {
			chain = len(s.PassiveAuthResult.Sod.CertChain)
		}
		fmt.Fprintf(&b, " pa=%v chain=%d/%s", s.PassiveAuthResult.Success, chain, errStr(s.PassiveAuthErr))
	} else {
		fmt.Fprintf(&b, " pa=none/%s", errStr(s.PassiveAuthErr))
	}
	fmt.Fprintf(&b, " verify=%s", errStr(s.DocumentVerifyErr))
	sum := d.Summary()
	if sum != nil {
		fmt.Fprintf(&b, " trusted=%v", sum.DataTrusted)
	}
	return b.String()
}

// ObserveApduLog is the number of exchanges the session logged (sensitive to the maximum Le in force).
func ObserveApduLog(l *iso7816.ApduLog) string {
	if l == nil {
		return "apdus=nil"
	}
	return fmt.Sprintf("apdus=%d", len(l.AllEntries()))
}

// ObserveChip is what the chip itself saw: exchanges, files selected, challenges signed.
func (c *Chip) Observe() string {
	var ch []string
	for _, x := range c.AAChallenges {
		ch = append(ch, hex.EncodeToString(x))
	}
	return fmt.Sprintf("chip[exchanges=%d selects=%d reads=%d bac=%v aa=%v]", len(c.Log), c.Truth.Selects, c.Truth.ReadBinaries, c.Truth.BACCompleted, ch)
}

// ---------------------------------------------------------------------------------------------------
// oracle

// Outcome is the joint observation of one execution: one entry per call (thread), plus the final shared state.
type Outcome struct {
	Calls []string
	Final string
}

func (o Outcome) Key() string { return strings.Join(o.Calls, " || ") + " ## " + o.Final }

// Permutations returns all orders of 0..n-1.
func Permutations(n int) [][]int {
	var out [][]int
	var rec func(cur []int, used []bool)
	rec = func(cur []int, used []bool) {
		if len(cur) == n {
			out = append(out, append([]int{}, cur...))
			return
		}
		for i := 0; i < n; i++ {
			if !used[i] {
				used[i] = true
				rec(append(cur, i), used)
				used[i] = false
			}
		}
	}
	rec(nil, make([]bool, n))
	return out
}

// Reference is the set of outcomes of all sequential orders of the same calls.
type Reference struct {
	ByKey   map[string][]int  // outcome key -> one order that produces it
	LabelOf map[string]string // outcome key -> readable name of the first sequential order that produces it
	PerCal  []map[string]bool
}

func NewReference() *Reference { return &Reference{ByKey: map[string][]int{}} }

func (r *Reference) Add(order []int, o Outcome) {
	if _, ok := r.ByKey[o.Key()]; !ok {
		r.ByKey[o.Key()] = append([]int{}, order...)
	}
	for len(r.PerCal) < len(o.Calls) {
		r.PerCal = append(r.PerCal, map[string]bool{})
	}
	for i, c := range o.Calls {
		r.PerCal[i][c] = true
	}
}

// Judge compares an observed outcome with the sequential reference. ok: the whole outcome (every call's
// result and the final shared state) is the outcome of SOME sequential order. Otherwise key classifies
// the disagreement narrowly: which call returned a result that no sequential order gives it, or - if every
// call's result is individually possible - that the combination is not.
func (r *Reference) Judge(o Outcome, callNames []string) (ok bool, key, what string) {
	if _, ok := r.ByKey[o.Key()]; ok {
		return true, "", ""
	}
	var badCalls []string
	for i, c := range o.Calls {
		if i < len(r.PerCal) && !r.PerCal[i][c] {
			badCalls = append(badCalls, callNames[i])
			what += fmt.Sprintf("call %s returned {%s}, which it returns in no sequential order (sequential results: %s). ", callNames[i], c, setStr(r.PerCal[i]))
		}
	}
	if len(badCalls) > 0 {
		return false, "not-sequential/result-of/" + strings.Join(badCalls, "+"), what
	}
	var keys []string
	for k := range r.ByKey {
		keys = append(keys, k)
	}
	sort.Strings(keys)
	return false, "not-sequential/combination", fmt.Sprintf("every call's result occurs in some sequential order, but the combination {%s} occurs in none (%d sequential outcomes, e.g. {%s})", o.Key(), len(keys), keys[0])
}

func setStr(m map[string]bool) string {
	var k []string
	for s := range m {
		k = append(k, "{"+s+"}")
	}
	sort.Strings(k)
	return strings.Join(k, " | ")
}
