// Package c02: trust verdicts are gated on passive authentication and completeness.
package c02

import (
	"encoding/json"
	"errors"
	"fmt"

	"github.com/gmrtd/gmrtd/document"

	"verif/internal/e2e"
	"verif/internal/perso"
	"verif/internal/refchip"
	"verif/internal/refcrypto"
	"verif/internal/reflds"
	"verif/internal/refpki"
	"verif/internal/vc"
)

func init() {
	vc.Register(&vc.Check{ID: "C02", Level: "model_checking", Run: run, Replay: replay, QuickSec: 150, ThoroSec: 900,
		Rule:   "(1) explicit enumeration of the COMPLETE finite product of per-step session outcomes: PassiveAuthResult {nil, failed early, failed in the SOD chain, failed in CardSecurity after the SOD chain verified, success} x CardSecurity chain present {no, yes} x {AA, PACE-CAM, CA} each {absent, failed, succeeded} x completeness {passed, failed, never run although the document is incomplete} = 810 real Session values; Summary() and VerifiedChipAuthStatus() evaluated on every one against the statement's implications written independently. (2) Document.Verify over the complete product {DG14 stored, SOD lists 14, DG15 stored, SOD lists 15, CardAccess {absent, contained in DG14, not contained}} x every permutation of the SOD's hash list (a SEQUENCE OF without prescribed order). (3) end-to-end hostile chip personalities through Reader.ReadDocument AND through ToCbor -> Verifier.Verify: clone without the CA / AA / CAM private key, clone with substituted DG14 / DG15 / CardSecurity key pair (its own protocol run succeeds), DG14 or DG15 withheld though listed (hash list ascending, descending, withheld entry first), everything issued by a CSCA outside the trust store, CardAccess extended so that it is not contained in DG14 - x access control {BAC, PACE-GM, PACE-CAM}. states = outcome tuples + hostile scenarios, transitions = step outcomes evaluated / exchanges; distinct_nontrivial = distinct (tuple | scenario, verdict)",
		Assume: []string{"a clone that copies genuine files may legitimately yield DataTrusted (the data IS genuine); the statement's claim for clones is about the chip-authentic verdict"}})
}

func tri(v int, mk func(ok bool) any) any {
	switch v {
	case 0:
		return nil
	case 1:
		return mk(false)
	}
	return mk(true)
}

func buildSession(pa, cardsec, aa, cam, ca, verr int) document.Session {
	var s document.Session
	// the shapes passiveauth.PassiveAuth can return: nil (not run); failed before the SOD was looked at; failed
	// in the SOD signature/chain (Sod allocated, no chain); failed in CardSecurity after the SOD chain verified
	// (Sod with chain; CardSec allocated without chain or - cardsec==1 - a chain left from a partial result); success
	switch pa {
	case paFailEarly:
		s.PassiveAuthResult = &document.PassiveAuthResult{Success: false}
		s.PassiveAuthErr = errors.New("pa failed")
	case paFailSod:
		s.PassiveAuthResult = &document.PassiveAuthResult{Success: false, Sod: &document.PassiveAuth{}}
		s.PassiveAuthErr = errors.New("pa failed: SOD")
	case paFailCardSec:
		s.PassiveAuthResult = &document.PassiveAuthResult{Success: false, Sod: document.NewPassiveAuth([][]byte{{1}, {2}}), CardSec: &document.PassiveAuth{}}
		s.PassiveAuthErr = errors.New("pa failed: CardSecurity")
	case paOK:
		s.PassiveAuthResult = &document.PassiveAuthResult{Success: true, Sod: document.NewPassiveAuth([][]byte{{1}, {2}})}
	}
	if cardsec == 1 && s.PassiveAuthResult != nil {
		s.PassiveAuthResult.CardSec = document.NewPassiveAuth([][]byte{{3}, {4}})
	}
	switch aa {
	case 1:
		s.ActiveAuthResult, s.ActiveAuthErr = &document.ActiveAuthResult{Success: false}, errors.New("aa failed")
	case 2:
		s.ActiveAuthResult = &document.ActiveAuthResult{Success: true}
	}
	switch cam {
	case 1:
		s.PaceCamResult, s.PaceErr = &document.PaceCamResult{Success: false}, errors.New("cam failed")
	case 2:
		s.PaceCamResult = &document.PaceCamResult{Success: true}
	}
	switch ca {
	case 1:
		s.ChipAuthResult, s.ChipAuthErr = &document.ChipAuthResult{Success: false}, errors.New("ca failed")
	case 2:
		s.ChipAuthResult = &document.ChipAuthResult{Success: true}
	}
	if verr == 1 {
		s.DocumentVerifyErr = errors.New("incomplete")
	}
	return s
}

const (
	paNil = iota
	paFailEarly
	paFailSod
	paFailCardSec
	paOK
	paCount
)

type tuple struct{ PA, CardSec, AA, CAM, CA, VErr int }

// incompleteDoc is a genuinely issued document from which DG15 (listed in its security object) was withheld:
// Document.Verify fails on it. Used for the third value of the completeness dimension: the check was never RUN
// (DocumentVerifyErr nil) although the document is in fact incomplete.
var incompleteDoc = func() *document.Document {
	p := perso.Build(perso.Config{BAC: true, DGs: []int{2}, AA: &perso.AASpec{RSABits: 1024, Trailer: "BC"}})
	d := &document.Document{}
	for _, n := range []int{1, 2} {
		if err := d.NewDG(n, p.Files[n]); err != nil {
			panic(err)
		}
	}
	var err error
	if d.Mf.Lds1.Sod, err = document.NewSOD(p.Files[0x1D]); err != nil {
		panic(err)
	}
	// (that Document.Verify fails on this document is decided by part 2 of the check, not assumed here)
	return d
}

func checkTuple(t tuple) (key, what, sig string) {
	d := &document.DocumentEx{Session: buildSession(t.PA, t.CardSec, t.AA, t.CAM, t.CA, t.VErr)}
	if t.VErr == 2 {
		d.Document = *incompleteDoc()
	}
	var sum *document.DocumentSummary
	var st document.ChipAuthStatus
	if pv, _ := vc.Guard(func() { sum = d.Summary(); st = d.Session.VerifiedChipAuthStatus() }); pv != nil {
		return "panic/summary", fmt.Sprintf("Summary panicked on %+v: %v", t, pv), ""
	}
	sig = fmt.Sprintf("trusted=%v/auth=%s", sum.DataTrusted, sum.ChipAuthenticity)
	if sum.DataTrusted && t.PA == paOK && t.VErr == 2 {
		return "trusted-although-completeness-check-never-ran", fmt.Sprintf("DataTrusted for outcome tuple %+v: passive authentication succeeded, Document.Verify was never run on a document that withholds a listed DG15", t), sig
	}
	if sum.DataTrusted && !(t.PA == paOK && t.VErr == 0) {
		return "trusted-without-pa-or-completeness", fmt.Sprintf("DataTrusted for outcome tuple %+v", t), sig
	}
	if fmt.Sprint(sum.ChipAuthenticity) != fmt.Sprint(st) {
		return "summary-differs-from-session-status", fmt.Sprintf("%+v: summary %s, session %s", t, sum.ChipAuthenticity, st), sig
	}
	name := fmt.Sprint(sum.ChipAuthenticity)
	var mech int
	switch name {
	case "n/a":
		return "", "", sig
	case "Active Authentication":
		mech = t.AA
	case "PACE-CAM":
		mech = t.CAM
		if t.CardSec == 0 || t.PA != paOK {
			return "cam-named-without-authenticated-cardsecurity", fmt.Sprintf("%+v names PACE-CAM", t), sig
		}
	case "Chip Authentication":
		mech = t.CA
	default:
		return "unknown-status", name, sig
	}
	if t.VErr == 1 {
		// consequence clause: a chip that withholds a listed DG14/DG15, or whose CardAccess is not contained in DG14
		// (both are what a failed completeness check records), never produces a chip-authentic verdict
		return "mechanism-named-although-completeness-check-failed", fmt.Sprintf("%+v names %s", t, name), sig
	}
	if mech != 2 {
		return "mechanism-named-without-success", fmt.Sprintf("%+v names %s", t, name), sig
	}
	if t.PA != paOK {
		return "mechanism-named-without-pa", fmt.Sprintf("%+v names %s", t, name), sig
	}
	return "", "", sig
}

// ---- part 2: Document.Verify ----

type verifyCase struct {
	M     int   `json:"m"`     // bit0 DG14 stored, bit1 SOD lists 14, bit2 DG15 stored, bit3 SOD lists 15, /16: CardAccess 0 absent 1 contained 2 not contained
	Order []int `json:"order"` // order of the SOD's hash list
}

func permutations(a []int) [][]int {
	if len(a) <= 1 {
		return [][]int{append([]int{}, a...)}
	}
	var out [][]int
	for i := range a {
		rest := append(append([]int{}, a[:i]...), a[i+1:]...)
		for _, p := range permutations(rest) {
			out = append(out, append([]int{a[i]}, p...))
		}
	}
	return out
}

func checkVerifyCase(vk verifyCase) (key, what, sig string, herr error) {
	one := 1
	m := vk.M
	dg14, l14, dg15, l15, ca := m&1 != 0, m&2 != 0, m&4 != 0, m&8 != 0, m/16
	cfg := perso.Config{DGs: []int{2}, BAC: true}
	cfg.SODOpts.HashOrder = vk.Order
	if l14 {
		cfg.CA = []perso.CASpec{{Curve: "P-256", Cipher: 2, KeyID: &one}}
	}
	if l15 {
		cfg.AA = &perso.AASpec{RSABits: 1024, Trailer: "BC"}
	}
	if ca > 0 {
		cfg.PACE = []refchip.PACEProto{{Mapping: 2, Cipher: 2, ParamID: 13}}
	}
	if ca == 2 {
		cfg.CardAccessExtra = []reflds.SecInfo{{Kind: "pace", OID: "0.4.0.127.0.7.2.2.4.2.4", Version: 2, HasID: true, ID: 16}}
	}
	p := perso.Build(cfg)
	doc := &document.Document{}
	var perr error
	add := func(d int) {
		if e := doc.NewDG(d, p.Files[d]); e != nil {
			perr = e
		}
	}
	add(1)
	add(2)
	if dg14 && p.Files[14] != nil {
		add(14)
	}
	if dg15 {
		add(15)
	}
	if perr != nil {
		return "", "", "", perr
	}
	if doc.Mf.Lds1.Sod, perr = document.NewSOD(p.Files[0x1D]); perr != nil {
		return "", "", "", perr
	}
	if p.CardAccess != nil {
		doc.Mf.CardAccess, _ = document.NewCardAccess(p.CardAccess)
	}
	var verr error
	if pv, _ := vc.Guard(func() { verr = doc.Verify() }); pv != nil {
		return "panic/verify", fmt.Sprint(pv), "panic", nil
	}
	mustFail := (l14 && !dg14) || (l15 && !dg15) || (ca == 2 && dg14 && p.Files[14] != nil)
	sig = fmt.Sprintf("mustFail=%v/err=%v", mustFail, verr != nil)
	desc := fmt.Sprintf("dg14=%v listed14=%v dg15=%v listed15=%v cardaccess=%d hash-list order %v", dg14, l14, dg15, l15, ca, vk.Order)
	if mustFail && verr == nil {
		k := "verify-passes/"
		switch {
		case l14 && !dg14:
			k += "dg14-listed-but-missing"
		case l15 && !dg15:
			k += "dg15-listed-but-missing"
		default:
			k += "cardaccess-not-contained-in-dg14"
		}
		return k, "Document.Verify passes for " + desc, sig, nil
	}
	if !mustFail && verr != nil {
		return "verify-fails-on-complete-document", fmt.Sprintf("Document.Verify fails (%v) for %s", verr, desc), sig, nil
	}
	return "", "", sig, nil
}

// ---- part 3: hostile personalities ----

type hostile struct {
	Name   string `json:"name"`
	Access string `json:"access"`          // bac | pace | cam
	Mech   string `json:"mech"`            // aa-rsa | aa-ec | ca | none
	Order  string `json:"order,omitempty"` // SOD hash list: "" ascending | desc | withheld-first
}

type expect struct {
	MustNotTrust  bool
	MustNotName   []string // mechanisms that must not be named
	MustBeNoneAll bool
}

func buildHostile(h hostile) (*perso.Perso, expect, bool) {
	cfg := perso.Config{DGs: []int{2}}
	switch h.Access {
	case "bac":
		cfg.BAC = true
	case "pace":
		cfg.PACE = []refchip.PACEProto{{Mapping: 2, Cipher: 2, ParamID: 13}}
	case "cam":
		cfg.PACE = []refchip.PACEProto{{Mapping: 6, Cipher: 2, ParamID: 13}}
	}
	one := 1
	switch h.Mech {
	case "aa-rsa":
		cfg.AA = &perso.AASpec{RSABits: 1024, Trailer: "34CC"}
	case "aa-ec":
		cfg.AA = &perso.AASpec{Curve: "P-256"}
	case "ca":
		cfg.CA = []perso.CASpec{{Curve: "brainpoolP256r1", Cipher: 2, KeyID: &one}}
	}
	switch h.Order {
	case "desc":
		cfg.SODOpts.HashOrder = []int{15, 14, 2, 1}
	case "withheld-first":
		cfg.SODOpts.HashOrder = []int{15, 14} // only one of them is listed in any scenario with a mechanism
	}
	var ex expect
	switch h.Name {
	case "genuine":
		return perso.Build(cfg), ex, true
	case "untrusted-issuer":
		// everything consistent and every protocol succeeds, but the issuing CSCA is not in the trust store
		cfg.Untrusted = true
		ex.MustNotTrust, ex.MustBeNoneAll = true, true
		return perso.Build(cfg), ex, true
	case "clone-without-key":
		switch h.Mech {
		case "aa-rsa", "aa-ec":
			cfg.AA.Clone = true
			ex.MustNotName = []string{"Active Authentication"}
		case "ca":
			cfg.CA[0].Clone = true
			ex.MustNotName = []string{"Chip Authentication"}
		default:
			if h.Access != "cam" {
				return nil, ex, false
			}
		}
		if h.Access == "cam" {
			cfg.CAMClone = true
			ex.MustNotName = append(ex.MustNotName, "PACE-CAM")
		}
		return perso.Build(cfg), ex, true
	case "substituted-key-pair":
		// the clone replaces DG15 / DG14 / CardSecurity by files carrying ITS key; its own protocol run succeeds
		p := perso.Build(cfg)
		ex.MustNotTrust, ex.MustBeNoneAll = true, true
		switch h.Mech {
		case "aa-rsa", "aa-ec":
			c2 := cfg
			aa := *cfg.AA
			c2.AA = &aa
			c2.DocNumber = "ATTACKER1"
			q := perso.Build(c2) // another personalisation: different keys only if labels differ -> force a clone key
			_ = q
			aa.Clone = true
			c3 := cfg
			c3.AA = &aa
			r := perso.Build(c3) // chip signs with the clone key
			// DG15 must carry the clone key: take DG15 from a personalisation whose genuine key IS the clone key is not available;
			// instead publish the clone's public key by rebuilding DG15 from the chip's signing key
			p = r
			fid, sfi := refchip.LDSFID(15)
			p.Chip.AddLDS(fid, sfi, dg15For(p.Chip.AA), refchip.AccSM)
		case "ca":
			attacker := refpki.DeriveECKey(refpki.CurveByName("brainpoolP256r1"), "attacker-ca")
			p.Chip.CA[0].Key = attacker
			infos := []reflds.SecInfo{}
			for _, pr := range cfg.PACE {
				infos = append(infos, reflds.SecInfo{Kind: "pace", OID: fmt.Sprintf("0.4.0.127.0.7.2.2.4.%d.%d", pr.Mapping, pr.Cipher), Version: 2, HasID: true, ID: pr.ParamID})
			}
			infos = append(infos, reflds.SecInfo{Kind: "ca-pk", OID: "0.4.0.127.0.7.2.2.1.2", AlgOID: "1.2.840.10045.2.1", AlgParams: refpki.DER(refpki.OID(attacker.Curve.OID)), PubKey: attacker.Point(), HasID: true, ID: 1},
				reflds.SecInfo{Kind: "ca", OID: "0.4.0.127.0.7.2.2.3.2.2", Version: 1, HasID: true, ID: 1})
			fid, sfi := refchip.LDSFID(14)
			p.Chip.AddLDS(fid, sfi, reflds.BuildDG14(infos).Bytes, refchip.AccSM)
		default:
			if h.Access != "cam" {
				return nil, ex, false
			}
			// CardSecurity re-issued by the attacker's own (untrusted) CSCA with the attacker's key
			attacker := refpki.DeriveECKey(refpki.CurveByName("brainpoolP256r1"), "attacker-cam")
			p.Chip.PACE.CAMKey = attacker
			prof := refpki.DefaultProfile()
			prof.CSCA, prof.DS = refpki.RSA(2048, false, 4), refpki.RSA(2048, false, 5)
			evil := refpki.NewIssuer(prof)
			set, _ := reflds.EncSecInfos([]reflds.SecInfo{{Kind: "pace", OID: "0.4.0.127.0.7.2.2.4.6.2", Version: 2, HasID: true, ID: 13},
				{Kind: "ca-pk", OID: "0.4.0.127.0.7.2.2.1.2", AlgOID: "0.4.0.127.0.7.1.2", AlgParams: refpki.DER(refpki.Int64(13)), PubKey: attacker.Point()}})
			cs, _ := evil.IssueCardSecurity(set)
			p.Chip.AddMF(0x011D, 0x1D, cs, refchip.AccPACESM)
			// the data groups are genuine copies: PA of the SOD itself passes, so data may be trusted; the chip must not be called authentic
			ex.MustNotTrust, ex.MustBeNoneAll = false, false
			ex.MustNotName = []string{"PACE-CAM"}
		}
		return p, ex, true
	case "dg14-withheld-aa-intact":
		// the chip has AA (DG15) and CA (DG14), withholds DG14 and completes AA genuinely
		if h.Mech != "aa-rsa" && h.Mech != "aa-ec" {
			return nil, ex, false
		}
		cfg.CA = []perso.CASpec{{Curve: "brainpoolP256r1", Cipher: 2, KeyID: &one}}
		cfg.OmitFromChip = []int{14}
		ex.MustNotTrust, ex.MustBeNoneAll = true, true
		return perso.Build(cfg), ex, true
	case "dg-withheld":
		switch h.Mech {
		case "aa-rsa", "aa-ec":
			cfg.OmitFromChip = []int{15}
			ex.MustNotName = []string{"Active Authentication"}
		case "ca":
			cfg.OmitFromChip = []int{14}
			ex.MustNotName = []string{"Chip Authentication"}
		default:
			return nil, ex, false
		}
		ex.MustNotTrust = true
		return perso.Build(cfg), ex, true
	case "cardaccess-not-in-dg14":
		if h.Access == "bac" || (h.Mech != "ca" && h.Mech != "aa-ec" && h.Access != "cam") {
			return nil, ex, false // needs PACE (CardAccess) and a DG14
		}
		cfg.CardAccessExtra = []reflds.SecInfo{{Kind: "pace", OID: "0.4.0.127.0.7.2.2.4.2.1", Version: 2, HasID: true, ID: 12}}
		ex.MustNotTrust = true
		return perso.Build(cfg), ex, true
	}
	return nil, ex, false
}

func dg15For(k *refchip.AAKey) []byte {
	var spki []byte
	if k.RSA != nil {
		spki = refpki.DER(refpki.Seq(refpki.Seq(refpki.OID([]int{1, 2, 840, 113549, 1, 1, 1}), refpki.Null()),
			refpki.BitString(refpki.DER(refpki.Seq(refpki.Int(k.RSA.N), refpki.Int64(int64(k.RSA.E)))))))
	} else {
		spki = refpki.DER(refpki.Seq(refpki.Seq(refpki.OID([]int{1, 2, 840, 10045, 2, 1}), refpki.OID(k.EC.Curve.OID)), refpki.BitString(k.EC.Point())))
	}
	out := []byte{0x6F}
	switch {
	case len(spki) < 0x80:
		out = append(out, byte(len(spki)))
	case len(spki) < 0x100:
		out = append(out, 0x81, byte(len(spki)))
	default:
		out = append(out, 0x82, byte(len(spki)>>8), byte(len(spki)))
	}
	return append(out, spki...)
}

type verdict struct {
	Key, What, Sig string
	Exchanges      int
}

func judgeSummary(h hostile, ex expect, route string, d *document.DocumentEx) (string, string, string) {
	sum := d.Summary()
	name := fmt.Sprint(sum.ChipAuthenticity)
	sig := fmt.Sprintf("%s:trusted=%v/auth=%s", route, sum.DataTrusted, name)
	if h.Name == "genuine" {
		if !sum.DataTrusted {
			return "genuine-not-trusted/" + route, fmt.Sprintf("genuine chip %+v: DataTrusted=false (pa=%v verify=%v)", h, d.Session.PassiveAuthErr, d.Session.DocumentVerifyErr), sig
		}
		if (h.Mech != "none" || h.Access == "cam") && name == "n/a" {
			return "genuine-not-authentic/" + route, fmt.Sprintf("genuine chip %+v: no chip-authenticity mechanism named", h), sig
		}
		return "", "", sig
	}
	if ex.MustNotTrust && sum.DataTrusted {
		return "hostile-trusted/" + h.Name + "/" + route, fmt.Sprintf("scenario %+v via %s: DataTrusted=true", h, route), sig
	}
	if ex.MustBeNoneAll && name != "n/a" {
		return "hostile-authentic/" + h.Name + "/" + route, fmt.Sprintf("scenario %+v via %s: chip authenticity %s", h, route, name), sig
	}
	for _, m := range ex.MustNotName {
		if name == m {
			return "hostile-authentic/" + h.Name + "/" + route, fmt.Sprintf("scenario %+v via %s: names %s", h, route, name), sig
		}
	}
	return "", "", sig
}

func runHostile(h hostile) verdict {
	p, ex, ok := buildHostile(h)
	if !ok {
		return verdict{Sig: "n/a"}
	}
	r := e2e.Read(p, e2e.ReadOpts{})
	v := verdict{Exchanges: len(p.Chip.Log)}
	if r.Panic != nil {
		v.Key, v.What = "panic/read", fmt.Sprint(r.Panic)
		return v
	}
	if r.Doc == nil {
		v.Sig = "no-document"
		return v
	}
	if k, w, s := judgeSummary(h, ex, "live", r.Doc); k != "" {
		v.Key, v.What, v.Sig = k, w, s
		return v
	} else {
		v.Sig = s
	}
	if r.Err != nil && h.Name == "genuine" {
		v.Key, v.What = "genuine-read-failed", r.Err.Error()
		return v
	}
	blob, err := r.Doc.ToCbor()
	if err != nil {
		v.Sig += "|export-error"
		return v
	}
	o := e2e.Verify(p.Store, blob, nil)
	if o.Panic != nil {
		v.Key, v.What = "panic/verify", fmt.Sprint(o.Panic)
		return v
	}
	if o.Doc == nil || o.Err != nil {
		v.Sig += "|offline-hard-error"
		if h.Name == "genuine" {
			v.Key, v.What = "genuine-offline-rejected", fmt.Sprint(o.Err)
		}
		return v
	}
	k, w, s := judgeSummary(h, ex, "offline", o.Doc)
	v.Sig += "|" + s
	v.Key, v.What = k, w
	return v
}

func run(c *vc.Ctx) {
	if err := refcrypto.SelfTest(); err != nil {
		c.HarnessError("refcrypto self-test: %v", err)
		return
	}
	if err := refpki.EnsureKeys(); err != nil {
		c.HarnessError("refpki keys: %v", err)
		return
	}
	sec1 := "(1) complete product of step outcomes"
	c.SecBound(sec1, "5 x 2 x 3 x 3 x 3 x 3 = 810 Session values (completeness: passed / failed / never run on an incomplete document)")
	for pa := 0; pa < paCount; pa++ {
		for cs := 0; cs < 2; cs++ {
			for aa := 0; aa < 3; aa++ {
				for cam := 0; cam < 3; cam++ {
					for ca := 0; ca < 3; ca++ {
						for ve := 0; ve < 3; ve++ {
							if !c.Mine() {
								continue
							}
							t := tuple{pa, cs, aa, cam, ca, ve}
							k, w, sig := checkTuple(t)
							c.AddStates(1)
							c.AddTrans(6)
							c.AddTraces(1)
							c.Outcome(sec1, sig)
							c.Distinct(fmt.Sprintf("t/%+v/%s", t, sig))
							if k != "" {
								c.Violation(sec1, k, w, t, nil)
							}
						}
					}
				}
			}
		}
	}
	// (2) Document.Verify product
	sec2 := "(2) Document.Verify completeness product"
	c.SecBound(sec2, "DG14 stored {n,y} x SOD lists 14 {n,y} x DG15 stored {n,y} x SOD lists 15 {n,y} x CardAccess {absent, contained, not contained} x all permutations of the listed data groups in the hash list")
	for m := 0; m < 48; m++ {
		dg14, l14, dg15, l15 := m&1 != 0, m&2 != 0, m&4 != 0, m&8 != 0
		if (dg14 && !l14) || (dg15 && !l15) {
			// a stored but unlisted DG cannot be produced by the issuer model; it is covered by C01 (injected DG)
			continue
		}
		listed := []int{1, 2}
		if l14 {
			listed = append(listed, 14)
		}
		if l15 {
			listed = append(listed, 15)
		}
		for _, order := range permutations(listed) {
			if !c.Mine() {
				continue
			}
			vk := verifyCase{M: m, Order: order}
			key, what, sig, herr := checkVerifyCase(vk)
			if herr != nil {
				c.HarnessError("part 2 build %+v: %v", vk, herr)
				continue
			}
			c.AddStates(1)
			c.AddTraces(1)
			c.Outcome(sec2, sig)
			c.Distinct(fmt.Sprintf("v/%d/%v", m, order))
			if key != "" {
				c.Violation(sec2, key, what, vk, func() bool { k, _, _, _ := checkVerifyCase(vk); return k != "" })
			}
		}
	}
	// (3) hostile chips end to end
	sec3 := "(3) hostile chip personalities, live and offline"
	names := []string{"genuine", "clone-without-key", "substituted-key-pair", "dg-withheld", "dg14-withheld-aa-intact", "untrusted-issuer", "cardaccess-not-in-dg14"}
	c.SecBound(sec3, fmt.Sprintf("%v x access {bac,pace,cam} x mechanism {aa-rsa,aa-ec,ca,none} (genuine and dg-withheld: x hash-list order {ascending, descending, withheld-first})", names))
	for _, n := range names {
		for _, acc := range []string{"bac", "pace", "cam"} {
			for _, mech := range []string{"aa-rsa", "aa-ec", "ca", "none"} {
				orders := []string{""}
				if n == "dg-withheld" || n == "genuine" {
					orders = []string{"", "desc", "withheld-first"}
				}
				for _, ord := range orders {
					if !c.Mine() {
						continue
					}
					h := hostile{n, acc, mech, ord}
					v := runHostile(h)
					if v.Sig == "n/a" {
						continue
					}
					c.AddStates(1)
					c.AddTrans(int64(v.Exchanges))
					c.AddTraces(1)
					c.Outcome(sec3, n+" -> "+v.Sig)
					c.Distinct(fmt.Sprintf("h/%+v/%s", h, v.Sig))
					if v.Key != "" {
						c.Violation(sec3, v.Key, v.What, h, func() bool { return runHostile(h).Key != "" })
					}
				}
			}
		}
	}
	if c.Shard == 0 {
		c.Sample(tuple{paOK, 0, 0, 2, 2, 0})
		c.Sample(hostile{"substituted-key-pair", "pace", "ca", ""})
	}
}

func replay(c *vc.Ctx, raw json.RawMessage) string {
	var doc struct {
		Section string          `json:"section"`
		Case    json.RawMessage `json:"case"`
	}
	json.Unmarshal(raw, &doc)
	refpki.EnsureKeys()
	var t tuple
	var h hostile
	var vk verifyCase
	if json.Unmarshal(doc.Case, &vk) == nil && vk.Order != nil {
		k, w, sig, herr := checkVerifyCase(vk)
		if k != "" {
			c.Violation(doc.Section, k, w, vk, nil)
		}
		return fmt.Sprintf("Document.Verify case %+v -> %s; verdict: %s %s %v", vk, sig, k, w, herr)
	}
	if json.Unmarshal(doc.Case, &h) == nil && h.Name != "" {
		v := runHostile(h)
		if v.Key != "" {
			c.Violation(doc.Section, v.Key, v.What, h, nil)
		}
		return fmt.Sprintf("scenario %+v -> %s; verdict: %s %s", h, v.Sig, v.Key, v.What)
	}
	if json.Unmarshal(doc.Case, &t) == nil {
		k, w, sig := checkTuple(t)
		if k != "" {
			c.Violation(doc.Section, k, w, t, nil)
		}
		return fmt.Sprintf("tuple %+v -> %s; verdict: %s %s", t, sig, k, w)
	}
	return string(raw)
}
