package c15

import (
	"fmt"
	"reflect"
	"testing"
	"time"

	"github.com/gmrtd/gmrtd/document"
	"verif/internal/reflds"
)

func parseKind(k reflds.Kind, b []byte) (any, error) {
	switch k {
	case reflds.KCOM:
		return document.NewCOM(b)
	case reflds.KSOD:
		return document.NewSOD(b)
	case reflds.KDG1:
		return document.NewDG1(b)
	case reflds.KDG2:
		return document.NewDG2(b)
	case reflds.KDG7:
		return document.NewDG7(b)
	case reflds.KDG11:
		return document.NewDG11(b)
	case reflds.KDG12:
		return document.NewDG12(b)
	case reflds.KDG13:
		return document.NewDG13(b)
	case reflds.KDG14:
		return document.NewDG14(b)
	case reflds.KDG15:
		return document.NewDG15(b)
	case reflds.KDG16:
		return document.NewDG16(b)
	case reflds.KCardAccess:
		return document.NewCardAccess(b)
	case reflds.KCardSecurity:
		return document.NewCardSecurity(b)
	case reflds.KDIR:
		return document.NewEFDIR(b)
	}
	return nil, fmt.Errorf("?")
}

func TestScratch(t *testing.T) {
	for _, s := range reflds.Seeds() {
		a, err := parseKind(s.Kind, s.Bytes)
		b, _ := parseKind(s.Kind, s.Bytes)
		fmt.Printf("%-28s %-12s len=%5d err=%v stable=%v\n", s.Name, s.Kind, len(s.Bytes), err, reflect.DeepEqual(a, b))
	}
	kinds := append(append([]reflds.Kind{}, reflds.Kinds...), reflds.KDIR)
	for _, th := range []bool{false, true} {
		for _, k := range kinds {
			n, acc, tot, mx := 0, 0, 0, 0
			st := time.Now()
			reflds.Enumerate(k, th, func(f reflds.File) {
				n++
				tot += len(f.Bytes)
				if len(f.Bytes) > mx {
					mx = len(f.Bytes)
				}
				if _, err := parseKind(k, f.Bytes); err == nil {
					acc++
				}
			})
			fmt.Printf("thorough=%v %-12s n=%6d accepted=%6d avg=%d max=%d  %v\n", th, k, n, acc, tot/max(n, 1), mx, time.Since(st))
		}
	}
}
