package c15

import (
	"bytes"
	"fmt"

	"github.com/gmrtd/gmrtd/document"

	"verif/internal/vc"
)

// Histories on ONE Document object. The round-trip sections export a freshly assembled object once; a reader
// session however builds the Document step by step (EF.CardAccess before PACE, EF.DIR/SOD/COM by direct
// assignment, data groups through NewDG) and an application may export it more than once. The statement must
// hold for the content the object has AT THE TIME of each export.
//
// ops (alphabet), on slots {cardAccess, com, sod, dg1, dg14}:
//
//	S<slot><a|b>  set the slot to content a / b (data groups through Document.NewDG, the others by assignment)
//	C<slot>       remove the file
//	E             export through Document.ToCbor, import, compare with the reference model (a map)
//	X             export through the enclosing DocumentEx's ToCbor (one DocumentEx object for the whole history), import, compare
//	W             the caller overwrites the blob returned by the previous export (it owns that buffer)
//
// invariant after every op: each blob returned so far still holds the bytes it held when it was returned
type histOp struct {
	Kind string `json:"op"` // S C E X W
	Slot int    `json:"slot,omitempty"`
	Alt  int    `json:"alt,omitempty"`
}

type histRecipe struct {
	Ops []histOp `json:"history"`
}

var histSlots = []int{0, 3, 4, 5, 11}

func clearSlot(d *document.Document, i int) {
	switch i {
	case 0:
		d.Mf.CardAccess = nil
	case 1:
		d.Mf.CardSecurity = nil
	case 2:
		d.Mf.Dir = nil
	case 3:
		d.Mf.Lds1.Com = nil
	case 4:
		d.Mf.Lds1.Sod = nil
	case 5:
		d.Mf.Lds1.Dg1 = nil
	case 6:
		d.Mf.Lds1.Dg2 = nil
	case 7:
		d.Mf.Lds1.Dg7 = nil
	case 8:
		d.Mf.Lds1.Dg11 = nil
	case 9:
		d.Mf.Lds1.Dg12 = nil
	case 10:
		d.Mf.Lds1.Dg13 = nil
	case 11:
		d.Mf.Lds1.Dg14 = nil
	case 12:
		d.Mf.Lds1.Dg15 = nil
	case 13:
		d.Mf.Lds1.Dg16 = nil
	}
}

var dgOfSlot = map[int]int{5: 1, 6: 2, 7: 7, 8: 11, 9: 12, 10: 13, 11: 14, 12: 15, 13: 16}

func histContent(slot, alt int) ([]byte, error) {
	fs := enumFiles(slotKinds[slot], false)
	var out [][]byte
	for _, f := range fs {
		dup := false
		for _, o := range out {
			if bytes.Equal(o, f) {
				dup = true
			}
		}
		if !dup {
			out = append(out, f)
		}
		if len(out) == 2 {
			break
		}
	}
	if len(out) < 2 {
		return nil, fmt.Errorf("slot %s: fewer than two distinct generated files", slotNames[slot])
	}
	return out[alt], nil
}

func histAlphabet() []histOp {
	var a []histOp
	a = append(a, histOp{Kind: "E"}, histOp{Kind: "X"}, histOp{Kind: "W"})
	for _, s := range histSlots {
		a = append(a, histOp{Kind: "S", Slot: s, Alt: 0}, histOp{Kind: "S", Slot: s, Alt: 1}, histOp{Kind: "C", Slot: s})
	}
	return a
}

func (o histOp) String() string {
	switch o.Kind {
	case "S":
		return fmt.Sprintf("set-%s-%c", slotNames[o.Slot], 'a'+o.Alt)
	case "C":
		return "clear-" + slotNames[o.Slot]
	case "E":
		return "export"
	case "X":
		return "export-ex"
	}
	return "overwrite-returned-blob"
}

// runHistory executes the history on a fresh Document and checks every export against the model.
func runHistory(h histRecipe) (key, what, outcome string, exports int, herr error) {
	// ONE DocumentEx whose embedded Document is the object under test: both exporters see the same live object
	ex := &document.DocumentEx{}
	d := &ex.Document
	m := &model{}
	var last []byte
	// every blob handed to the caller so far, with a private copy taken at that moment: a later library call must
	// not change a blob the caller holds (the caller may: op W, which updates the copy too)
	type heldBlob struct {
		blob, copy []byte
		after      int
	}
	var held []heldBlob
	for step, op := range h.Ops {
		for _, hb := range held {
			if !bytes.Equal(hb.blob, hb.copy) {
				return "history/returned-blob-changed-by-later-call", fmt.Sprintf("the blob returned by the export at step %d was changed by a later call of the library (history %s): the caller's bytes are no longer what was exported", hb.after, fmt.Sprint(h.Ops[:step])), "blob-changed", exports, nil
			}
		}
		switch op.Kind {
		case "S":
			b, err := histContent(op.Slot, op.Alt)
			if err != nil {
				return "", "", "", exports, err
			}
			if dg, isDG := dgOfSlot[op.Slot]; isDG {
				var err error
				if pv, _ := vc.Guard(func() { err = d.NewDG(dg, bytes.Clone(b)) }); pv != nil || err != nil {
					return "", "", "", exports, fmt.Errorf("NewDG(%d) on a generated file: %v %v", dg, pv, err)
				}
				obj, _ := getSlot(d, op.Slot)
				m.obj[op.Slot] = obj
			} else {
				obj, err := parseSlot(op.Slot, bytes.Clone(b))
				if err != nil || obj == nil {
					return "", "", "", exports, fmt.Errorf("constructor of %s on a generated file: %v", slotNames[op.Slot], err)
				}
				setSlot(d, op.Slot, obj)
				m.obj[op.Slot] = obj
			}
			m.raw[op.Slot] = b
		case "C":
			clearSlot(d, op.Slot)
			m.obj[op.Slot], m.raw[op.Slot] = nil, nil
		case "W":
			for i := range last {
				last[i] = 0xEE
			}
			if len(held) > 0 {
				held[len(held)-1].copy = bytes.Clone(last)
			}
		case "E", "X":
			var blob []byte
			var err error
			pv, _ := vc.Guard(func() {
				if op.Kind == "E" {
					blob, err = d.ToCbor()
				} else {
					blob, err = ex.ToCbor()
				}
			})
			hs := fmt.Sprint(h.Ops[:step+1])
			if pv != nil {
				return "panic/history-export", fmt.Sprintf("export panicked after %s: %v", hs, pv), "panic", exports, nil
			}
			if err != nil {
				return "history/export-error", fmt.Sprintf("export failed after %s: %v", hs, err), "export-error", exports, nil
			}
			exports++
			imp := "document"
			if op.Kind == "X" {
				imp = "verifiable"
			}
			r, ierr, ipv := importAs(imp, bytes.Clone(blob))
			if ipv != nil {
				return "panic/history-import", fmt.Sprintf("import panicked after %s: %v", hs, ipv), "panic", exports, nil
			}
			if ierr != nil {
				return "history/import-rejected", fmt.Sprintf("the export made after %s is rejected on import: %v", hs, ierr), "import-rejected", exports, nil
			}
			mm := *m
			mm.rec.Importer = "document"
			if cl, det := compare(&mm, "document", imported{doc: r.doc}, false); cl != "" {
				return "history/stale-or-wrong-export/" + cl, fmt.Sprintf("after %s the export does not carry the object's current content: %s", hs, det), "content-differs", exports, nil
			}
			last = blob
			held = append(held, heldBlob{blob: blob, copy: bytes.Clone(blob), after: step})
		}
	}
	for _, hb := range held {
		if !bytes.Equal(hb.blob, hb.copy) {
			return "history/returned-blob-changed-by-later-call", fmt.Sprintf("the blob returned by the export at step %d was changed by a later call of the library (history %s)", hb.after, fmt.Sprint(h.Ops)), "blob-changed", exports, nil
		}
	}
	return "", "", "ok", exports, nil
}
