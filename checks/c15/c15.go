// Package c15 checks property C15: document serialisation (CBOR export / import of Document, DocumentEx and the
// chip-authentication evidence bundle) round-trips and detects corruption.
//
// Everything the oracle expects is known BY CONSTRUCTION of the exported document: the raw bytes of every
// file come from the reference generator reflds, the parsed structs are the ones this harness put into the
// Document before exporting it, and the evidence values are the harness' own deterministic values (the library
// receives clones). The library is never asked what the "right" import would be.
package c15

import (
	"bytes"
	"crypto/sha256"
	"encoding/asn1"
	"encoding/json"
	"fmt"
	"reflect"
	"regexp"
	"sort"
	"strconv"
	"strings"

	"github.com/gmrtd/gmrtd/document"

	"verif/internal/reflds"
	"verif/internal/vc"
)

func init() {
	vc.Register(&vc.Check{ID: "C15", Level: "exploration", Run: run, Replay: replay, QuickSec: 95, ThoroSec: 840,
		Rule: "round trip: every subset of the 14 file types (16 384) with file contents rotating through the reflds seed/enumeration pool, " +
			"through Document.ToCbor/NewDocumentFromCbor and, for every subset of the 3 evidence mechanisms, through DocumentEx.ToCbor/UnmarshalVerifiableDoc; " +
			"the evidence bundle alone for all 4^3 (absent | 3 size variants) combinations x every subset of the evidence-carrying results recording the live run as failed; every file of reflds.Enumerate for every kind alone and inside the full document; " +
			"DG13 sizes across the CBOR length-form boundaries; every byte-string evidence field x 9 value shapes (leading zero octets, all zero, single octet, empty ...); " +
			"HISTORIES on one Document object: every sequence of 4 (thorough 5) operations over {export, export through DocumentEx, caller overwrites the returned blob, set a / set b / remove for 5 slots} with every export imported and compared with a map model, and after every operation every blob returned so far still byte-identical to what it was when returned (a later library call must not reach into a blob the caller holds). Corruption: for each representative blob of each of the three envelopes EVERY byte position x all 255 other values, " +
			"every truncation length and all 256 one-byte extensions; import must fail or return exactly the exported content. Forged envelopes (each foreign magic, newer versions, also nested and re-sealed) must be rejected. " +
			"distinct_nontrivial = distinct documents round-tripped + distinct corrupted blobs that got past the CBOR decoding of the outer envelope (by error text; accounting only)",
		Assume: []string{
			"reflds generates well-formed LDS files (independent generator, no gmrtd imports); the parsed structs put into the exported Document are the library's own constructors' results for those bytes (C19 checks them against reflds views)",
			"reflect.DeepEqual on the parsed structs is a faithful comparison: confirmed at start-up to hold for two independent parses of every pool file (harness error otherwise); no parsed struct contains clock-dependent data (time.Now is only used by DocumentSummary, which is not compared)",
			"nil and empty byte strings / OIDs are the same evidence value",
			"the 60-line CBOR reader/writer used ONLY to forge envelopes (foreign magic / newer version) and to name the region of a corrupted byte reproduces the library's genuine export byte for byte (self-test)",
		}})
}

// ---------------------------------------------------------------------------------------------
// slots = the 14 file types, in the order of the library's raw document

const nSlots = 14

var slotNames = [nSlots]string{"cardAccess", "cardSecurity", "dir", "com", "sod", "dg1", "dg2", "dg7", "dg11", "dg12", "dg13", "dg14", "dg15", "dg16"}
var slotKinds = [nSlots]reflds.Kind{reflds.KCardAccess, reflds.KCardSecurity, reflds.KDIR, reflds.KCOM, reflds.KSOD, reflds.KDG1, reflds.KDG2,
	reflds.KDG7, reflds.KDG11, reflds.KDG12, reflds.KDG13, reflds.KDG14, reflds.KDG15, reflds.KDG16}

func slotIndex(name string) int {
	for i, n := range slotNames {
		if n == name {
			return i
		}
	}
	return -1
}

// parseSlot runs the library constructor of slot i. obj is nil when the constructor returned a nil file.
func parseSlot(i int, b []byte) (obj any, err error) {
	b = bytes.Clone(b)
	switch i {
	case 0:
		v, e := document.NewCardAccess(b)
		if v != nil {
			obj = v
		}
		err = e
	case 1:
		v, e := document.NewCardSecurity(b)
		if v != nil {
			obj = v
		}
		err = e
	case 2:
		v, e := document.NewEFDIR(b)
		if v != nil {
			obj = v
		}
		err = e
	case 3:
		v, e := document.NewCOM(b)
		if v != nil {
			obj = v
		}
		err = e
	case 4:
		v, e := document.NewSOD(b)
		if v != nil {
			obj = v
		}
		err = e
	case 5:
		v, e := document.NewDG1(b)
		if v != nil {
			obj = v
		}
		err = e
	case 6:
		v, e := document.NewDG2(b)
		if v != nil {
			obj = v
		}
		err = e
	case 7:
		v, e := document.NewDG7(b)
		if v != nil {
			obj = v
		}
		err = e
	case 8:
		v, e := document.NewDG11(b)
		if v != nil {
			obj = v
		}
		err = e
	case 9:
		v, e := document.NewDG12(b)
		if v != nil {
			obj = v
		}
		err = e
	case 10:
		v, e := document.NewDG13(b)
		if v != nil {
			obj = v
		}
		err = e
	case 11:
		v, e := document.NewDG14(b)
		if v != nil {
			obj = v
		}
		err = e
	case 12:
		v, e := document.NewDG15(b)
		if v != nil {
			obj = v
		}
		err = e
	case 13:
		v, e := document.NewDG16(b)
		if v != nil {
			obj = v
		}
		err = e
	}
	return
}

func setSlot(d *document.Document, i int, obj any) {
	switch i {
	case 0:
		d.Mf.CardAccess = obj.(*document.CardAccess)
	case 1:
		d.Mf.CardSecurity = obj.(*document.CardSecurity)
	case 2:
		d.Mf.Dir = obj.(*document.EFDIR)
	case 3:
		d.Mf.Lds1.Com = obj.(*document.COM)
	case 4:
		d.Mf.Lds1.Sod = obj.(*document.SOD)
	case 5:
		d.Mf.Lds1.Dg1 = obj.(*document.DG1)
	case 6:
		d.Mf.Lds1.Dg2 = obj.(*document.DG2)
	case 7:
		d.Mf.Lds1.Dg7 = obj.(*document.DG7)
	case 8:
		d.Mf.Lds1.Dg11 = obj.(*document.DG11)
	case 9:
		d.Mf.Lds1.Dg12 = obj.(*document.DG12)
	case 10:
		d.Mf.Lds1.Dg13 = obj.(*document.DG13)
	case 11:
		d.Mf.Lds1.Dg14 = obj.(*document.DG14)
	case 12:
		d.Mf.Lds1.Dg15 = obj.(*document.DG15)
	case 13:
		d.Mf.Lds1.Dg16 = obj.(*document.DG16)
	}
}

// getSlot returns the file in slot i of an imported document: (nil, nil) when absent.
func getSlot(d *document.Document, i int) (obj any, raw []byte) {
	switch i {
	case 0:
		if v := d.Mf.CardAccess; v != nil {
			return v, v.RawData
		}
	case 1:
		if v := d.Mf.CardSecurity; v != nil {
			return v, v.RawData
		}
	case 2:
		if v := d.Mf.Dir; v != nil {
			return v, v.RawData
		}
	case 3:
		if v := d.Mf.Lds1.Com; v != nil {
			return v, v.RawData
		}
	case 4:
		if v := d.Mf.Lds1.Sod; v != nil {
			return v, v.RawData
		}
	case 5:
		if v := d.Mf.Lds1.Dg1; v != nil {
			return v, v.RawData
		}
	case 6:
		if v := d.Mf.Lds1.Dg2; v != nil {
			return v, v.RawData
		}
	case 7:
		if v := d.Mf.Lds1.Dg7; v != nil {
			return v, v.RawData
		}
	case 8:
		if v := d.Mf.Lds1.Dg11; v != nil {
			return v, v.RawData
		}
	case 9:
		if v := d.Mf.Lds1.Dg12; v != nil {
			return v, v.RawData
		}
	case 10:
		if v := d.Mf.Lds1.Dg13; v != nil {
			return v, v.RawData
		}
	case 11:
		if v := d.Mf.Lds1.Dg14; v != nil {
			return v, v.RawData
		}
	case 12:
		if v := d.Mf.Lds1.Dg15; v != nil {
			return v, v.RawData
		}
	case 13:
		if v := d.Mf.Lds1.Dg16; v != nil {
			return v, v.RawData
		}
	}
	return nil, nil
}

// ---------------------------------------------------------------------------------------------
// file references: a stable, replayable name for the bytes of one file
//   seed:<name>            reflds.Seeds() entry
//   enum:<q|t>:<index>     index-th file of reflds.Enumerate(kind, thorough)
//   dg13len:<n>            DG13 with n opaque content bytes
//   dg7img:<n>             DG7 with one JPEG image of n bytes

var (
	seedByName map[string]reflds.Seed
	enumCache  = map[string][][]byte{}
)

func seeds() map[string]reflds.Seed {
	if seedByName == nil {
		seedByName = map[string]reflds.Seed{}
		for _, s := range reflds.Seeds() {
			seedByName[s.Name] = s
		}
	}
	return seedByName
}

func enumFiles(k reflds.Kind, thorough bool) [][]byte {
	key := string(k) + map[bool]string{false: ":q", true: ":t"}[thorough]
	if l, ok := enumCache[key]; ok {
		return l
	}
	var l [][]byte
	reflds.Enumerate(k, thorough, func(f reflds.File) { l = append(l, f.Bytes) })
	enumCache[key] = l
	return l
}

func fill(n, seed int) []byte {
	b := make([]byte, n)
	for i := range b {
		b[i] = byte(seed*31 + i*7 + (i >> 8) + 3)
	}
	return b
}

func resolve(slot int, ref string) ([]byte, error) {
	k := slotKinds[slot]
	switch {
	case strings.HasPrefix(ref, "seed:"):
		s, ok := seeds()[ref[5:]]
		if !ok || s.Kind != k {
			return nil, fmt.Errorf("no seed %q of kind %s", ref, k)
		}
		return s.Bytes, nil
	case strings.HasPrefix(ref, "enum:"):
		p := strings.Split(ref, ":")
		if len(p) != 3 {
			return nil, fmt.Errorf("bad ref %q", ref)
		}
		idx, err := strconv.Atoi(p[2])
		l := enumFiles(k, p[1] == "t")
		if err != nil || idx < 0 || idx >= len(l) {
			return nil, fmt.Errorf("bad ref %q", ref)
		}
		return l[idx], nil
	case strings.HasPrefix(ref, "dg13len:") && k == reflds.KDG13:
		n, err := strconv.Atoi(ref[8:])
		if err != nil || n < 0 {
			return nil, fmt.Errorf("bad ref %q", ref)
		}
		return reflds.BuildDG13(fill(n, n)).Bytes, nil
	case strings.HasPrefix(ref, "dg7img:") && k == reflds.KDG7:
		n, err := strconv.Atoi(ref[7:])
		if err != nil || n < 24 {
			return nil, fmt.Errorf("bad ref %q", ref)
		}
		return reflds.BuildDG7(reflds.DG7Spec{Images: [][]byte{reflds.Image(reflds.MagicJPEG, 9, n)}}).Bytes, nil
	}
	return nil, fmt.Errorf("bad ref %q for %s", ref, k)
}

// ---------------------------------------------------------------------------------------------
// evidence values (deterministic, realistic sizes). Variant 0 = mechanism absent.

var (
	oidEcdsaSha256   = []int{1, 2, 840, 10045, 4, 3, 2}
	oidEcdsaPlain256 = []int{0, 4, 0, 127, 0, 7, 1, 1, 4, 1, 3}
	oidPaceCam128    = []int{0, 4, 0, 127, 0, 7, 2, 2, 4, 6, 2}
	oidPaceCam192    = []int{0, 4, 0, 127, 0, 7, 2, 2, 4, 6, 3}
	oidPaceCam256    = []int{0, 4, 0, 127, 0, 7, 2, 2, 4, 6, 4}
)

func point(n, seed int) []byte { return append([]byte{0x04}, fill(2*n, seed)...) }

func smRapdu(seed int) []byte {
	return append(append([]byte{0x99, 0x02, 0x90, 0x00, 0x8E, 0x08}, fill(8, seed)...), 0x90, 0x00)
}

func aaEvidence(v int) *document.ActiveAuthEvidence {
	switch v {
	case 1: // ECDSA P-256
		return &document.ActiveAuthEvidence{Algorithm: asn1.ObjectIdentifier(oidEcdsaSha256), Nonce: fill(8, 11), Signature: fill(64, 12)}
	case 2: // RSA-2048 (ISO 9796-2): no algorithm identifier
		return &document.ActiveAuthEvidence{Algorithm: nil, Nonce: fill(8, 13), Signature: fill(256, 14)}
	case 3: // ECDSA P-521 plain
		return &document.ActiveAuthEvidence{Algorithm: asn1.ObjectIdentifier(oidEcdsaPlain256), Nonce: fill(8, 15), Signature: fill(132, 16)}
	}
	return nil
}

func caEvidence(v int) *document.ChipAuthEvidence {
	switch v {
	case 1: // ECDH P-256, 3DES secure messaging (8-byte SSC)
		return &document.ChipAuthEvidence{TermPri: fill(32, 21), TermPubKey: point(32, 22), SmRapdu: smRapdu(23), SmSsc: fill(8, 24)}
	case 2: // ECDH brainpoolP384r1, AES (16-byte SSC)
		return &document.ChipAuthEvidence{TermPri: fill(48, 25), TermPubKey: point(48, 26), SmRapdu: smRapdu(27), SmSsc: fill(16, 28)}
	case 3: // DH 2048, no SSC recorded (empty field)
		return &document.ChipAuthEvidence{TermPri: fill(28, 29), TermPubKey: fill(256, 30), SmRapdu: smRapdu(31), SmSsc: nil}
	}
	return nil
}

func pcEvidence(v int) *document.PaceCamEvidence {
	mk := func(oid []int, param, n, ecad, seed int) *document.PaceCamEvidence {
		return &document.PaceCamEvidence{PaceOid: asn1.ObjectIdentifier(oid), ParameterId: param, Nonce: fill(16, seed),
			TermMapPri: fill(n, seed+1), TermMapPub: point(n, seed+2), ChipMapPub: point(n, seed+3),
			TermKaPri: fill(n, seed+4), TermKaPub: point(n, seed+5), ChipKaPub: point(n, seed+6), EcadIC: fill(ecad, seed+7)}
	}
	switch v {
	case 1:
		return mk(oidPaceCam128, 13, 32, 32, 41) // brainpoolP256r1
	case 2:
		return mk(oidPaceCam192, 8, 24, 32, 51) // secp192r1 (smallest parameter id)
	case 3:
		return mk(oidPaceCam256, 18, 66, 80, 61) // secp521r1
	}
	return nil
}

func cloneInts(a []int) []int {
	if a == nil {
		return nil
	}
	return append([]int{}, a...)
}

func cloneAA(e *document.ActiveAuthEvidence) *document.ActiveAuthEvidence {
	if e == nil {
		return nil
	}
	return &document.ActiveAuthEvidence{Algorithm: cloneInts(e.Algorithm), Nonce: bytes.Clone(e.Nonce), Signature: bytes.Clone(e.Signature)}
}
func cloneCA(e *document.ChipAuthEvidence) *document.ChipAuthEvidence {
	if e == nil {
		return nil
	}
	return &document.ChipAuthEvidence{TermPri: bytes.Clone(e.TermPri), TermPubKey: bytes.Clone(e.TermPubKey), SmRapdu: bytes.Clone(e.SmRapdu), SmSsc: bytes.Clone(e.SmSsc)}
}
func clonePC(e *document.PaceCamEvidence) *document.PaceCamEvidence {
	if e == nil {
		return nil
	}
	return &document.PaceCamEvidence{PaceOid: cloneInts(e.PaceOid), ParameterId: e.ParameterId, Nonce: bytes.Clone(e.Nonce),
		TermMapPri: bytes.Clone(e.TermMapPri), TermMapPub: bytes.Clone(e.TermMapPub), ChipMapPub: bytes.Clone(e.ChipMapPub),
		TermKaPri: bytes.Clone(e.TermKaPri), TermKaPub: bytes.Clone(e.TermKaPub), ChipKaPub: bytes.Clone(e.ChipKaPub), EcadIC: bytes.Clone(e.EcadIC)}
}

// ---------------------------------------------------------------------------------------------
// recipe = replayable description of one case; model = what was exported (the expectation)

type evSpec struct {
	AA           int  `json:"aa"` // 0 absent, 1..3 variant
	CA           int  `json:"ca"`
	PC           int  `json:"paceCam"`
	EmptyResults bool `json:"emptyResults,omitempty"` // absent mechanisms carry a Result without Evidence instead of no Result
	// FailedMask: the Result that carries the evidence records the live run as NOT successful (bit 1 active
	// authentication, 2 chip authentication, 4 PACE-CAM) - the evidence of a failed run is evidence all the same
	FailedMask int `json:"failedMask,omitempty"`
	// Field / Shape: one byte-string evidence field ("aa.Nonce", "ca.SmSsc", "pc.EcadIC", ...) takes a value of the
	// given shape instead of the variant's pattern (see shapeValue)
	Field string `json:"field,omitempty"`
	Shape string `json:"shape,omitempty"`
}

// shapes of a byte-string value of genuine length n. Counters, scalars and coordinates really do have these forms:
// a send sequence counter is 00..00 02, a private scalar or coordinate starts with a zero octet once in 256.
var shapeNames = []string{"leading-zero-1", "leading-zeros-all-but-last", "all-zero", "trailing-zero", "all-ff", "one-byte-00", "one-byte-01", "high-bit-first", "empty"}

func shapeValue(shape string, n int) []byte {
	b := fill(n, 77)
	for i := range b {
		if b[i] == 0 {
			b[i] = 0x5C
		}
	}
	switch shape {
	case "leading-zero-1":
		b[0] = 0
	case "leading-zeros-all-but-last":
		b = make([]byte, n)
		b[n-1] = 0x02
	case "all-zero":
		b = make([]byte, n)
	case "trailing-zero":
		b[n-1] = 0
	case "all-ff":
		b = bytes.Repeat([]byte{0xFF}, n)
	case "one-byte-00":
		b = []byte{0}
	case "one-byte-01":
		b = []byte{1}
	case "high-bit-first":
		b[0] = 0x80
	case "empty":
		b = []byte{}
	}
	return b
}

// evFields lists the byte-string evidence fields by name with accessors into a bundle's three parts.
func evFieldPtr(name string, aa *document.ActiveAuthEvidence, ca *document.ChipAuthEvidence, pc *document.PaceCamEvidence) *[]byte {
	switch name {
	case "aa.Nonce":
		if aa != nil {
			return &aa.Nonce
		}
	case "aa.Signature":
		if aa != nil {
			return &aa.Signature
		}
	case "ca.TermPri":
		if ca != nil {
			return &ca.TermPri
		}
	case "ca.TermPubKey":
		if ca != nil {
			return &ca.TermPubKey
		}
	case "ca.SmRapdu":
		if ca != nil {
			return &ca.SmRapdu
		}
	case "ca.SmSsc":
		if ca != nil {
			return &ca.SmSsc
		}
	}
	if pc != nil {
		switch name {
		case "pc.Nonce":
			return &pc.Nonce
		case "pc.TermMapPri":
			return &pc.TermMapPri
		case "pc.TermMapPub":
			return &pc.TermMapPub
		case "pc.ChipMapPub":
			return &pc.ChipMapPub
		case "pc.TermKaPri":
			return &pc.TermKaPri
		case "pc.TermKaPub":
			return &pc.TermKaPub
		case "pc.ChipKaPub":
			return &pc.ChipKaPub
		case "pc.EcadIC":
			return &pc.EcadIC
		}
	}
	return nil
}

var evFieldNames = []string{"aa.Nonce", "aa.Signature", "ca.TermPri", "ca.TermPubKey", "ca.SmRapdu", "ca.SmSsc",
	"pc.Nonce", "pc.TermMapPri", "pc.TermMapPub", "pc.ChipMapPub", "pc.TermKaPri", "pc.TermKaPub", "pc.ChipKaPub", "pc.EcadIC"}

type mutation struct {
	Kind    string  `json:"kind"` // sub | trunc | ext | forge | foreign
	Pos     int     `json:"pos,omitempty"`
	Val     int     `json:"val,omitempty"`
	Len     int     `json:"len,omitempty"`
	Magic   string  `json:"magic,omitempty"`   // forge: replace the magic (empty = keep)
	Version *uint64 `json:"version,omitempty"` // forge: replace the version
	Nested  string  `json:"nested,omitempty"`  // forge: apply to this inner envelope of a verifiable doc ("document" | "chipAuthEvidence") and re-seal
	Foreign string  `json:"foreign,omitempty"` // foreign: hand the genuine export of THIS envelope kind to the recipe's importer
	// Shadow: the forged magic/version sits under the envelope's own key, and a second entry placed BEFORE it - the
	// key spelt in upper case ("upper"), capitalised ("title") or repeated literally ("dup") - carries the genuine value
	Shadow string `json:"shadow,omitempty"`
}

type recipe struct {
	Importer string            `json:"importer"` // document | verifiable | evidence
	Files    map[string]string `json:"files,omitempty"`
	Ev       evSpec            `json:"evidence"`
	Mut      *mutation         `json:"mutation,omitempty"`
}

func (r recipe) key() string {
	var sb strings.Builder
	sb.WriteString(r.Importer)
	names := make([]string, 0, len(r.Files))
	for n := range r.Files {
		names = append(names, n)
	}
	sort.Strings(names)
	for _, n := range names {
		sb.WriteString("|" + n + "=" + r.Files[n])
	}
	fmt.Fprintf(&sb, "|ev=%d%d%d%v%d", r.Ev.AA, r.Ev.CA, r.Ev.PC, r.Ev.EmptyResults, r.Ev.FailedMask)
	if r.Ev.Field != "" {
		sb.WriteString("|" + r.Ev.Field + "=" + r.Ev.Shape)
	}
	return sb.String()
}

type model struct {
	rec recipe
	raw [nSlots][]byte // expected raw bytes (never handed to the library)
	obj [nSlots]any    // the parsed structs put into the exported Document
	aa  *document.ActiveAuthEvidence
	ca  *document.ChipAuthEvidence
	pc  *document.PaceCamEvidence
}

type parsed struct {
	obj any
	err error
}

var parseCache = map[string]parsed{}

func parseCached(slot int, ref string, b []byte) (any, error) {
	k := slotNames[slot] + "|" + ref
	if p, ok := parseCache[k]; ok {
		return p.obj, p.err
	}
	var obj any
	var err error
	if pv, _ := vc.Guard(func() { obj, err = parseSlot(slot, b) }); pv != nil {
		err = fmt.Errorf("constructor panicked: %v", pv)
	}
	if err == nil && obj == nil {
		err = fmt.Errorf("constructor returned no file")
	}
	if len(parseCache) < 4000 && (strings.HasPrefix(ref, "seed:") || strings.HasPrefix(ref, "enum:q:")) {
		parseCache[k] = parsed{obj, err}
	}
	return obj, err
}

// build resolves a recipe. An error means the recipe cannot be turned into a document the library's own
// constructors accept (that is C19's business, not a C15 violation).
func build(rec recipe) (*model, error) {
	m := &model{rec: rec}
	for name, ref := range rec.Files {
		i := slotIndex(name)
		if i < 0 {
			return nil, fmt.Errorf("unknown slot %q", name)
		}
		b, err := resolve(i, ref)
		if err != nil {
			return nil, err
		}
		obj, err := parseCached(i, ref, b)
		if err != nil {
			return nil, fmt.Errorf("%s %s: %w", name, ref, err)
		}
		m.raw[i] = b
		m.obj[i] = obj
	}
	m.aa, m.ca, m.pc = aaEvidence(rec.Ev.AA), caEvidence(rec.Ev.CA), pcEvidence(rec.Ev.PC)
	if rec.Ev.Field != "" {
		fp := evFieldPtr(rec.Ev.Field, m.aa, m.ca, m.pc)
		if fp == nil {
			return nil, fmt.Errorf("evidence field %q not present in the recipe", rec.Ev.Field)
		}
		n := len(*fp)
		if n == 0 {
			n = 8
		}
		*fp = shapeValue(rec.Ev.Shape, n)
	}
	return m, nil
}

func (m *model) document() *document.Document {
	var d document.Document
	for i := 0; i < nSlots; i++ {
		if m.obj[i] != nil {
			setSlot(&d, i, m.obj[i])
		}
	}
	return &d
}

func (m *model) session() *document.Session {
	var s document.Session
	if m.aa != nil {
		s.ActiveAuthResult = &document.ActiveAuthResult{Success: m.rec.Ev.FailedMask&1 == 0, Evidence: cloneAA(m.aa)}
	} else if m.rec.Ev.EmptyResults {
		s.ActiveAuthResult = &document.ActiveAuthResult{Success: true}
	}
	if m.ca != nil {
		s.ChipAuthResult = &document.ChipAuthResult{Success: m.rec.Ev.FailedMask&2 == 0, Evidence: cloneCA(m.ca)}
	} else if m.rec.Ev.EmptyResults {
		s.ChipAuthResult = &document.ChipAuthResult{Success: false}
	}
	if m.pc != nil {
		s.PaceCamResult = &document.PaceCamResult{Success: m.rec.Ev.FailedMask&4 == 0, Evidence: clonePC(m.pc)}
	} else if m.rec.Ev.EmptyResults {
		s.PaceCamResult = &document.PaceCamResult{Success: true}
	}
	return &s
}

// export calls the library's exporter of the recipe's envelope.
func exportAs(m *model, importer string) (blob []byte, err error, pv any) {
	pv, _ = vc.Guard(func() {
		switch importer {
		case "document":
			blob, err = m.document().ToCbor()
		case "verifiable":
			ex := &document.DocumentEx{Document: *m.document(), Session: *m.session()}
			blob, err = ex.ToCbor()
		case "evidence":
			blob, err = m.session().ChipAuthEvidenceToCbor()
		default:
			err = fmt.Errorf("unknown importer %q", importer)
		}
	})
	return
}

type imported struct {
	doc    *document.Document
	bundle *document.ChipAuthEvidenceBundle
}

func importAs(importer string, blob []byte) (r imported, err error, pv any) {
	pv, _ = vc.Guard(func() {
		switch importer {
		case "document":
			r.doc, err = document.NewDocumentFromCbor(blob)
		case "verifiable":
			r.doc, r.bundle, err = document.UnmarshalVerifiableDoc(blob)
		case "evidence":
			r.bundle, err = document.NewChipAuthEvidenceFromCbor(blob)
		default:
			err = fmt.Errorf("unknown importer %q", importer)
		}
	})
	return
}

// ---------------------------------------------------------------------------------------------
// oracle: is the imported content exactly the exported one?

func intsEq(a, b []int) bool {
	if len(a) != len(b) {
		return false
	}
	for i := range a {
		if a[i] != b[i] {
			return false
		}
	}
	return true
}

type bf struct {
	name      string
	got, want []byte
}

func firstBytesDiff(fs []bf) string {
	for _, f := range fs {
		if !bytes.Equal(f.got, f.want) {
			return fmt.Sprintf("%s: got %x, exported %x", f.name, f.got, f.want)
		}
	}
	return ""
}

// compare returns ("", "") when r is exactly m's content, else (difference class, detail).
// deep additionally compares the parsed view of every file (reflect.DeepEqual against the struct that was exported).
func compare(m *model, importer string, r imported, deep bool) (class, detail string) {
	if importer != "evidence" {
		if r.doc == nil {
			return "no-document", "import returned neither an error nor a document"
		}
		for i := 0; i < nSlots; i++ {
			obj, raw := getSlot(r.doc, i)
			switch {
			case m.obj[i] == nil && obj != nil:
				return "file-set/spurious-" + slotNames[i], fmt.Sprintf("%s was not exported but is present after import (%d bytes: %x)", slotNames[i], len(raw), raw[:min(len(raw), 24)])
			case m.obj[i] != nil && obj == nil:
				return "file-set/missing-" + slotNames[i], fmt.Sprintf("%s (%d bytes) was exported but is absent after import", slotNames[i], len(m.raw[i]))
			case obj == nil:
				continue
			}
			if !bytes.Equal(raw, m.raw[i]) {
				p := 0
				for p < len(raw) && p < len(m.raw[i]) && raw[p] == m.raw[i][p] {
					p++
				}
				return "file-bytes/" + slotNames[i], fmt.Sprintf("%s RawData differs from the exported bytes: %d vs %d bytes, first difference at offset %d", slotNames[i], len(raw), len(m.raw[i]), p)
			}
			if deep && !reflect.DeepEqual(obj, m.obj[i]) {
				p := diffPath(reflect.ValueOf(obj), reflect.ValueOf(m.obj[i]))
				if p == "" {
					p = "(unlocated)"
				}
				return "parsed-view/" + slotNames[i] + "/" + p, fmt.Sprintf("%s: parsed view after import differs from the exported file's at %s", slotNames[i], p)
			}
		}
	}
	if importer != "document" {
		if r.bundle == nil {
			return "no-evidence-bundle", "import returned neither an error nor an evidence bundle"
		}
		b := r.bundle
		for _, x := range []struct {
			name      string
			got, want bool
		}{{"activeAuth", b.ActiveAuth != nil, m.aa != nil}, {"chipAuth", b.ChipAuth != nil, m.ca != nil}, {"paceCam", b.PaceCam != nil, m.pc != nil}} {
			if x.got && !x.want {
				return "evidence-set/spurious-" + x.name, x.name + " evidence was not exported but is present after import"
			}
			if !x.got && x.want {
				return "evidence-set/missing-" + x.name, x.name + " evidence was exported but is absent after import"
			}
		}
		if m.aa != nil {
			if !intsEq(b.ActiveAuth.Algorithm, m.aa.Algorithm) {
				return "evidence-value/activeAuth.Algorithm", fmt.Sprintf("got %v, exported %v", b.ActiveAuth.Algorithm, m.aa.Algorithm)
			}
			if d := firstBytesDiff([]bf{{"Nonce", b.ActiveAuth.Nonce, m.aa.Nonce}, {"Signature", b.ActiveAuth.Signature, m.aa.Signature}}); d != "" {
				return "evidence-value/activeAuth." + d[:strings.Index(d, ":")], "activeAuth." + d
			}
		}
		if m.ca != nil {
			g := b.ChipAuth
			if d := firstBytesDiff([]bf{{"TermPri", g.TermPri, m.ca.TermPri}, {"TermPubKey", g.TermPubKey, m.ca.TermPubKey}, {"SmRapdu", g.SmRapdu, m.ca.SmRapdu}, {"SmSsc", g.SmSsc, m.ca.SmSsc}}); d != "" {
				return "evidence-value/chipAuth." + d[:strings.Index(d, ":")], "chipAuth." + d
			}
		}
		if m.pc != nil {
			g := b.PaceCam
			if !intsEq(g.PaceOid, m.pc.PaceOid) {
				return "evidence-value/paceCam.PaceOid", fmt.Sprintf("got %v, exported %v", g.PaceOid, m.pc.PaceOid)
			}
			if g.ParameterId != m.pc.ParameterId {
				return "evidence-value/paceCam.ParameterId", fmt.Sprintf("got %d, exported %d", g.ParameterId, m.pc.ParameterId)
			}
			if d := firstBytesDiff([]bf{{"Nonce", g.Nonce, m.pc.Nonce}, {"TermMapPri", g.TermMapPri, m.pc.TermMapPri}, {"TermMapPub", g.TermMapPub, m.pc.TermMapPub},
				{"ChipMapPub", g.ChipMapPub, m.pc.ChipMapPub}, {"TermKaPri", g.TermKaPri, m.pc.TermKaPri}, {"TermKaPub", g.TermKaPub, m.pc.TermKaPub},
				{"ChipKaPub", g.ChipKaPub, m.pc.ChipKaPub}, {"EcadIC", g.EcadIC, m.pc.EcadIC}}); d != "" {
				return "evidence-value/paceCam." + d[:strings.Index(d, ":")], "paceCam." + d
			}
		}
	}
	return "", ""
}

// diffPath names the first field in which two values of the same type differ (field names only, no indices / values).
func diffPath(a, b reflect.Value) string {
	if a.IsValid() != b.IsValid() {
		return "(presence)"
	}
	if !a.IsValid() {
		return ""
	}
	if a.Type() != b.Type() {
		return "(type)"
	}
	switch a.Kind() {
	case reflect.Ptr, reflect.Interface:
		if a.IsNil() || b.IsNil() {
			if a.IsNil() == b.IsNil() {
				return ""
			}
			return "(nil)"
		}
		return diffPath(a.Elem(), b.Elem())
	case reflect.Struct:
		for i := 0; i < a.NumField(); i++ {
			if p := diffPath(a.Field(i), b.Field(i)); p != "" {
				return "." + a.Type().Field(i).Name + p
			}
		}
	case reflect.Slice, reflect.Array:
		if a.Kind() == reflect.Slice && a.IsNil() != b.IsNil() {
			return "(nil-vs-empty)"
		}
		if a.Len() != b.Len() {
			return "(len)"
		}
		for i := 0; i < a.Len(); i++ {
			if p := diffPath(a.Index(i), b.Index(i)); p != "" {
				if strings.HasPrefix(p, "(") {
					return p
				}
				return "[]" + p
			}
		}
	case reflect.Map:
		if a.Len() != b.Len() || a.IsNil() != b.IsNil() {
			return "(map)"
		}
		it := a.MapRange()
		for it.Next() {
			if diffPath(it.Value(), b.MapIndex(it.Key())) != "" {
				return "(map)"
			}
		}
	case reflect.Bool:
		if a.Bool() != b.Bool() {
			return "(value)"
		}
	case reflect.Int, reflect.Int8, reflect.Int16, reflect.Int32, reflect.Int64:
		if a.Int() != b.Int() {
			return "(value)"
		}
	case reflect.Uint, reflect.Uint8, reflect.Uint16, reflect.Uint32, reflect.Uint64, reflect.Uintptr:
		if a.Uint() != b.Uint() {
			return "(value)"
		}
	case reflect.Float32, reflect.Float64:
		if a.Float() != b.Float() {
			return "(value)"
		}
	case reflect.String:
		if a.String() != b.String() {
			return "(value)"
		}
	case reflect.Func:
		if !a.IsNil() || !b.IsNil() {
			return "(func)"
		}
	}
	return ""
}

// ---------------------------------------------------------------------------------------------
// minimal CBOR reader / writer for one definite-length map of text keys to uint / byte string / text string.
// Used ONLY to forge envelopes and to name the region a corrupted byte lies in; never for a verdict.

type cItem struct {
	key                 string
	kStart, kEnd        int // key bytes
	major               byte
	u                   uint64
	s                   []byte
	vStart, vBody, vEnd int // value header [vStart,vBody), body [vBody,vEnd)
}

func cborHead(b []byte, p int) (major byte, arg uint64, next int, err error) {
	if p >= len(b) {
		return 0, 0, 0, fmt.Errorf("eof")
	}
	major = b[p] >> 5
	ai := b[p] & 0x1F
	p++
	switch {
	case ai < 24:
		return major, uint64(ai), p, nil
	case ai <= 27:
		n := 1 << (ai - 24)
		if p+n > len(b) {
			return 0, 0, 0, fmt.Errorf("eof")
		}
		for i := 0; i < n; i++ {
			arg = arg<<8 | uint64(b[p+i])
		}
		return major, arg, p + n, nil
	}
	return 0, 0, 0, fmt.Errorf("unsupported additional information %d", ai)
}

func cborMapItems(b []byte) (items []cItem, err error) {
	mj, n, p, err := cborHead(b, 0)
	if err != nil || mj != 5 {
		return nil, fmt.Errorf("not a definite map")
	}
	for i := uint64(0); i < n; i++ {
		var it cItem
		kmj, kl, kp, err := cborHead(b, p)
		if err != nil || kmj != 3 || kp+int(kl) > len(b) {
			return nil, fmt.Errorf("key %d is not a text string", i)
		}
		it.kStart, it.kEnd = p, kp+int(kl)
		it.key = string(b[kp:it.kEnd])
		p = it.kEnd
		vmj, arg, vp, err := cborHead(b, p)
		if err != nil {
			return nil, err
		}
		it.major, it.vStart, it.vBody = vmj, p, vp
		switch vmj {
		case 0:
			it.u, it.vEnd = arg, vp
		case 2, 3:
			if arg > uint64(len(b)) || vp+int(arg) > len(b) {
				return nil, fmt.Errorf("string overruns")
			}
			it.vEnd = vp + int(arg)
			it.s = b[vp:it.vEnd]
		default:
			return nil, fmt.Errorf("unsupported value type %d of key %q", vmj, it.key)
		}
		p = it.vEnd
		items = append(items, it)
	}
	if p != len(b) {
		return nil, fmt.Errorf("%d trailing bytes", len(b)-p)
	}
	return items, nil
}

func cborEncHead(major byte, arg uint64) []byte {
	m := major << 5
	switch {
	case arg < 24:
		return []byte{m | byte(arg)}
	case arg < 1<<8:
		return []byte{m | 24, byte(arg)}
	case arg < 1<<16:
		return []byte{m | 25, byte(arg >> 8), byte(arg)}
	case arg < 1<<32:
		return []byte{m | 26, byte(arg >> 24), byte(arg >> 16), byte(arg >> 8), byte(arg)}
	}
	out := []byte{m | 27}
	for i := 7; i >= 0; i-- {
		out = append(out, byte(arg>>(8*i)))
	}
	return out
}

func cborEncMap(items []cItem) []byte {
	out := cborEncHead(5, uint64(len(items)))
	for _, it := range items {
		out = append(out, cborEncHead(3, uint64(len(it.key)))...)
		out = append(out, it.key...)
		if it.major == 0 {
			out = append(out, cborEncHead(0, it.u)...)
		} else {
			out = append(out, cborEncHead(it.major, uint64(len(it.s)))...)
			out = append(out, it.s...)
		}
	}
	return out
}

func findItem(items []cItem, key string) *cItem {
	for i := range items {
		if items[i].key == key {
			return &items[i]
		}
	}
	return nil
}

// region names the part of an exported envelope that byte position pos lies in.
func region(items []cItem, pos int) string {
	if len(items) == 0 {
		return "unknown"
	}
	if pos < items[0].kStart {
		return "map-header"
	}
	for _, it := range items {
		switch {
		case pos >= it.kStart && pos < it.kEnd:
			return "key:" + it.key
		case pos >= it.vStart && pos < it.vBody:
			if it.major == 0 {
				return "value:" + it.key
			}
			return "length:" + it.key
		case pos >= it.vBody && pos < it.vEnd:
			return "value:" + it.key
		}
	}
	return "unknown"
}

// forge re-encodes a genuine envelope with another magic and/or version; the payload and its checksum stay genuine.
func forge(blob []byte, magic string, version *uint64, shadow string) ([]byte, error) {
	items, err := cborMapItems(blob)
	if err != nil {
		return nil, err
	}
	spell := func(k string) string {
		switch shadow {
		case "upper":
			return strings.ToUpper(k)
		case "title":
			return strings.ToUpper(k[:1]) + k[1:]
		}
		return k
	}
	var front []cItem
	mi, vi := findItem(items, "magic"), findItem(items, "version")
	if mi == nil || vi == nil || mi.major != 3 || vi.major != 0 {
		return nil, fmt.Errorf("envelope without magic/version")
	}
	if magic != "" {
		if shadow != "" {
			front = append(front, cItem{key: spell("magic"), major: mi.major, s: bytes.Clone(mi.s)})
		}
		mi.s = []byte(magic)
	}
	if version != nil {
		if shadow != "" {
			front = append(front, cItem{key: spell("version"), major: vi.major, u: vi.u})
		}
		vi.u = *version
	}
	return cborEncMap(append(front, items...)), nil
}

// forgeNested forges the inner envelope `inner` of a verifiable-document blob and re-seals the outer one
// (outer payload re-encoded, outer checksum recomputed), so that only the inner magic/version is "wrong".
func forgeNested(blob []byte, inner, magic string, version *uint64, shadow string) ([]byte, error) {
	outer, err := cborMapItems(blob)
	if err != nil {
		return nil, err
	}
	pi, si := findItem(outer, "payload"), findItem(outer, "sha256")
	if pi == nil || si == nil || pi.major != 2 || si.major != 2 {
		return nil, fmt.Errorf("outer envelope without payload/sha256")
	}
	pl, err := cborMapItems(pi.s)
	if err != nil {
		return nil, fmt.Errorf("outer payload: %w", err)
	}
	ii := findItem(pl, inner)
	if ii == nil || ii.major != 2 {
		return nil, fmt.Errorf("no inner envelope %q", inner)
	}
	f, err := forge(ii.s, magic, version, shadow)
	if err != nil {
		return nil, err
	}
	ii.s = f
	np := cborEncMap(pl)
	d := sha256.Sum256(np)
	pi.s, si.s = np, d[:]
	return cborEncMap(outer), nil
}

// envelopeOf returns magic and version of a genuine export (read with the mini reader).
func envelopeOf(blob []byte) (magic string, version uint64, err error) {
	items, err := cborMapItems(blob)
	if err != nil {
		return "", 0, err
	}
	mi, vi := findItem(items, "magic"), findItem(items, "version")
	if mi == nil || vi == nil {
		return "", 0, fmt.Errorf("envelope without magic/version")
	}
	return string(mi.s), vi.u, nil
}

// ---------------------------------------------------------------------------------------------
// case execution

var bracketRe = regexp.MustCompile(`\[([A-Za-z0-9_.]+)\]`)

// errStage gives a short, value-free signature of an import error: the first bracketed function names.
func errStage(err error) string {
	ms := bracketRe.FindAllStringSubmatch(err.Error(), 3)
	var p []string
	for _, m := range ms {
		p = append(p, m[1])
	}
	if len(p) == 0 {
		return "other"
	}
	return strings.Join(p, ">")
}

// rejectClass is used for outcome accounting only.
func rejectClass(err error) (class string, pastOuterDecoding bool) {
	s := err.Error()
	switch {
	case strings.Contains(s, "checksum mismatch"):
		return "rejected/checksum", true
	case strings.Contains(s, "unrecognised magic"):
		return "rejected/magic", true
	case strings.Contains(s, "unsupported version"), strings.Contains(s, "no longer supported"):
		return "rejected/version", true
	case strings.Contains(s, "cbor.Unmarshal(envelope)"):
		i := strings.Index(s, "cbor.Unmarshal(envelope)")
		return "rejected/envelope-undecodable", i > 40 // inner envelope => the outer one was decoded
	case strings.Contains(s, "cbor.Unmarshal("):
		return "rejected/payload-undecodable", true
	}
	return "rejected/file-constructor-or-other", true
}

// runRecipe executes a recipe completely and returns the verdict. key == "" means the property holds on this case.
// outcome is an accounting class; obs describes what the import returned (for replay).
func runRecipe(rec recipe) (key, what, outcome, obs string, harnessErr error) {
	m, err := build(rec)
	if err != nil {
		return "", "", "", "", err
	}
	imp := rec.Importer
	blob, err, pv := exportAs(m, imp)
	if pv != nil {
		return "panic/export/" + imp, fmt.Sprintf("export (%s) panicked: %v", imp, pv), "panic", fmt.Sprintf("export panicked: %v", pv), nil
	}
	if err != nil {
		return "roundtrip/" + imp + "/export-error", fmt.Sprintf("export (%s) of a well-formed document failed: %v", imp, err), "export-error", "export error: " + err.Error(), nil
	}
	if rec.Mut == nil {
		r, err, pv := importAs(imp, blob)
		switch {
		case pv != nil:
			return "panic/import/" + imp, fmt.Sprintf("import (%s) of the library's own export panicked: %v", imp, pv), "panic", fmt.Sprintf("import panicked: %v", pv), nil
		case err != nil:
			return "roundtrip/" + imp + "/import-rejected/" + errStage(err), fmt.Sprintf("import (%s) rejects the library's own export of %s: %v", imp, rec.key(), err), "import-rejected", "import error: " + err.Error(), nil
		}
		if cl, det := compare(m, imp, r, true); cl != "" {
			return "roundtrip/" + imp + "/" + cl, fmt.Sprintf("export+import (%s) of %s changes the content: %s", imp, rec.key(), det), "content-changed", describe(imp, r), nil
		}
		return "", "", "identical", describe(imp, r), nil
	}
	mu := rec.Mut
	var mb []byte
	var desc string
	switch mu.Kind {
	case "sub":
		if mu.Pos < 0 || mu.Pos >= len(blob) || byte(mu.Val) == blob[mu.Pos] {
			return "", "", "", "", fmt.Errorf("substitution out of range / no change")
		}
		mb = bytes.Clone(blob)
		mb[mu.Pos] = byte(mu.Val)
		desc = fmt.Sprintf("byte %d of %d changed %02x->%02x", mu.Pos, len(blob), blob[mu.Pos], byte(mu.Val))
	case "trunc":
		if mu.Len < 0 || mu.Len >= len(blob) {
			return "", "", "", "", fmt.Errorf("truncation out of range")
		}
		mb = blob[:mu.Len]
		desc = fmt.Sprintf("truncated from %d to %d bytes", len(blob), mu.Len)
	case "ext":
		mb = append(bytes.Clone(blob), byte(mu.Val))
		desc = fmt.Sprintf("extended by the byte %02x", byte(mu.Val))
	case "forge":
		if mu.Nested != "" {
			mb, err = forgeNested(blob, mu.Nested, mu.Magic, mu.Version, mu.Shadow)
		} else {
			mb, err = forge(blob, mu.Magic, mu.Version, mu.Shadow)
		}
		if err != nil {
			return "", "", "", "", fmt.Errorf("forge: %w", err)
		}
		return verdictForged(m, rec, blob, mb)
	case "foreign":
		fb, err, pv := exportAs(m, mu.Foreign)
		if err != nil || pv != nil {
			return "", "", "", "", fmt.Errorf("export of the foreign envelope failed: %v %v", err, pv)
		}
		r, err, pv := importAs(imp, fb)
		switch {
		case pv != nil:
			return "panic/import/" + imp, fmt.Sprintf("%s import of a genuine %s export panicked: %v", imp, mu.Foreign, pv), "panic", fmt.Sprintf("import panicked: %v", pv), nil
		case err != nil:
			cl, _ := rejectClass(err)
			return "", "", cl, "import error: " + err.Error(), nil
		}
		return "foreign-magic-accepted/" + imp + "/export-of-" + mu.Foreign, fmt.Sprintf("the %s importer accepts a genuine %s export (foreign magic) of %s", imp, mu.Foreign, rec.key()), "accepted", describe(imp, r), nil
	default:
		return "", "", "", "", fmt.Errorf("unknown mutation %q", mu.Kind)
	}
	r, err, pv := importAs(imp, mb)
	switch {
	case pv != nil:
		return "panic/import/" + imp, fmt.Sprintf("import (%s) panicked on a corrupted blob (%s): %v", imp, desc, pv), "panic", fmt.Sprintf("import panicked: %v", pv), nil
	case err != nil:
		cl, _ := rejectClass(err)
		return "", "", cl, "import error: " + err.Error(), nil
	}
	reg := "end"
	if mu.Kind == "sub" {
		items, _ := cborMapItems(blob)
		reg = region(items, mu.Pos)
	}
	if cl, det := compare(m, imp, r, true); cl != "" {
		// one key per (envelope, corrupted region, kind of difference): strip the file / field name
		short := cl
		if i := strings.Index(cl, "/"); i >= 0 {
			short = cl[:i]
		}
		return "corruption/imports-different-content/" + imp + "/" + mu.Kind + "@" + reg + "/" + short,
			fmt.Sprintf("corrupted %s blob (%s, in %s) is imported without error but with different content: %s", imp, desc, reg, det), "accepted-different", describe(imp, r), nil
	}
	return "", "", "accepted-identical/" + mu.Kind + "@" + reg, describe(imp, r), nil
}

func verdictForged(m *model, rec recipe, blob, mb []byte) (key, what, outcome, obs string, harnessErr error) {
	imp, mu := rec.Importer, rec.Mut
	target := blob
	if mu.Nested != "" {
		items, _ := cborMapItems(blob)
		if pi := findItem(items, "payload"); pi != nil {
			if pl, err := cborMapItems(pi.s); err == nil {
				if ii := findItem(pl, mu.Nested); ii != nil {
					target = ii.s
				}
			}
		}
	}
	gm, gv, err := envelopeOf(target)
	if err != nil {
		return "", "", "", "", err
	}
	foreign := mu.Magic != "" && mu.Magic != gm
	newer := mu.Version != nil && *mu.Version > gv
	r, err, pv := importAs(imp, mb)
	where := imp
	if mu.Nested != "" {
		where += "/nested:" + mu.Nested
	}
	if mu.Shadow != "" {
		where += "/own-key-shadowed-by-" + mu.Shadow + "-key-with-genuine-value"
	}
	switch {
	case pv != nil:
		return "panic/import/" + imp, fmt.Sprintf("import (%s) panicked on a forged envelope: %v", where, pv), "panic", fmt.Sprintf("import panicked: %v", pv), nil
	case err != nil:
		if !foreign && !newer && (mu.Version == nil || *mu.Version == gv) && mu.Shadow == "" {
			// the re-encoded genuine envelope must still import: otherwise the forging machinery is broken
			return "", "", "", "", fmt.Errorf("identity forge of %s rejected: %v", where, err)
		}
		cl, _ := rejectClass(err)
		return "", "", cl, "import error: " + err.Error(), nil
	}
	switch {
	case foreign:
		return "foreign-magic-accepted/" + where + "/magic-of-" + magicOwner(mu.Magic), fmt.Sprintf("%s envelope carrying the foreign magic %q (genuine: %q) is accepted", where, mu.Magic, gm), "accepted", describe(imp, r), nil
	case newer:
		return "newer-version-accepted/" + where, fmt.Sprintf("%s envelope with version %d (exported version: %d) is accepted", where, *mu.Version, gv), "accepted", describe(imp, r), nil
	}
	// same magic, same or older version: not in the statement's "rejected" class; content must still be the original
	if cl, det := compare(m, imp, r, true); cl != "" {
		return "corruption/imports-different-content/" + imp + "/forge/" + cl, fmt.Sprintf("re-encoded %s envelope imports different content: %s", where, det), "accepted-different", describe(imp, r), nil
	}
	return "", "", "accepted-identical/forge", describe(imp, r), nil
}

var knownMagics = map[string]string{}

func magicOwner(m string) string {
	if o, ok := knownMagics[m]; ok {
		return o
	}
	return "unknown"
}

func describe(importer string, r imported) string {
	var sb strings.Builder
	if r.doc != nil {
		sb.WriteString("files{")
		for i := 0; i < nSlots; i++ {
			if obj, raw := getSlot(r.doc, i); obj != nil {
				h := sha256.Sum256(raw)
				fmt.Fprintf(&sb, "%s:%dB sha256=%x ", slotNames[i], len(raw), h[:6])
			}
		}
		sb.WriteString("}")
	}
	if r.bundle != nil {
		sb.WriteString(" evidence{")
		if e := r.bundle.ActiveAuth; e != nil {
			fmt.Fprintf(&sb, "activeAuth(alg=%v nonce=%x sig=%dB) ", e.Algorithm, e.Nonce, len(e.Signature))
		}
		if e := r.bundle.ChipAuth; e != nil {
			fmt.Fprintf(&sb, "chipAuth(termPri=%dB termPub=%dB smRapdu=%x ssc=%x) ", len(e.TermPri), len(e.TermPubKey), e.SmRapdu, e.SmSsc)
		}
		if e := r.bundle.PaceCam; e != nil {
			fmt.Fprintf(&sb, "paceCam(oid=%v param=%d nonce=%x ecad=%dB) ", e.PaceOid, e.ParameterId, e.Nonce, len(e.EcadIC))
		}
		sb.WriteString("}")
	}
	if sb.Len() == 0 {
		return "import returned nothing"
	}
	return "import succeeded: " + sb.String()
}

// ---------------------------------------------------------------------------------------------
// the explorer

type runner struct {
	c *vc.Ctx
}

// do executes one recipe and books it under section sec.
func (rn *runner) do(sec string, rec recipe) {
	c := rn.c
	key, what, outcome, _, herr := runRecipe(rec)
	if herr != nil {
		c.HarnessError("%s: %s: %v", sec, rec.key(), herr)
		return
	}
	c.Outcome(sec, outcome)
	if key != "" {
		rc := rec
		c.Violation(sec, key, what, rc, func() bool { k, _, _, _, _ := runRecipe(rc); return k != "" })
		return
	}
	if rec.Mut == nil {
		c.Distinct(rec.key())
	}
}

// pool of file variants per slot for the subset sweep.
func buildPool(thorough bool) (pool [nSlots][]string) {
	names := make([]string, 0)
	for n := range seeds() {
		names = append(names, n)
	}
	sort.Strings(names) // "doc/..." first, then "var/..."
	for i := 0; i < nSlots; i++ {
		for _, n := range names {
			if seeds()[n].Kind == slotKinds[i] {
				pool[i] = append(pool[i], "seed:"+n)
			}
		}
		l := enumFiles(slotKinds[i], false)
		if len(l) == 0 {
			continue
		}
		// a spread of the enumeration plus its smallest and largest member
		small, large := 0, 0
		for j, b := range l {
			if len(b) < len(l[small]) {
				small = j
			}
			if len(b) > len(l[large]) {
				large = j
			}
		}
		picks := map[int]bool{small: true, large: true}
		steps := 6
		if thorough {
			steps = 24
		}
		for s := 0; s < steps; s++ {
			picks[s*(len(l)-1)/max(steps-1, 1)] = true
		}
		idx := make([]int, 0, len(picks))
		for j := range picks {
			idx = append(idx, j)
		}
		sort.Ints(idx)
		for _, j := range idx {
			pool[i] = append(pool[i], fmt.Sprintf("enum:q:%d", j))
		}
	}
	return
}

func pick(pool []string, subset, slot, rot int) string {
	h := uint32(subset)*2654435761 + uint32(slot)*40503 + uint32(rot)*2246822519
	h ^= h >> 15
	h *= 2246822519
	h ^= h >> 13
	return pool[int(h%uint32(len(pool)))]
}

func subsetFiles(pool [nSlots][]string, subset, rot int) map[string]string {
	f := map[string]string{}
	for i := 0; i < nSlots; i++ {
		if subset>>i&1 == 1 {
			f[slotNames[i]] = pick(pool[i], subset, i, rot)
		}
	}
	return f
}

func docSeedFiles() map[string]string {
	f := map[string]string{}
	for i := 0; i < nSlots; i++ {
		n := string(slotKinds[i])
		f[slotNames[i]] = "seed:doc/" + n
	}
	return f
}

func evOfSubset(e, rot int) evSpec {
	v := func(bit, salt int) int {
		if e>>bit&1 == 0 {
			return 0
		}
		return 1 + (rot+salt)%3
	}
	return evSpec{AA: v(0, 0), CA: v(1, 1), PC: v(2, 2), EmptyResults: rot%2 == 1}
}

type blobCase struct {
	name string
	rec  recipe
}

func run(c *vc.Ctx) {
	rn := &runner{c: c}
	thorough := c.Thorough()
	pool := buildPool(thorough)

	// ---- self-tests (every worker): pool files parse, parse is stable under DeepEqual, forging is the identity
	poolN := 0
	for i := 0; i < nSlots; i++ {
		if len(pool[i]) == 0 {
			c.HarnessError("no pool file for %s", slotNames[i])
			return
		}
		for _, ref := range pool[i] {
			b, err := resolve(i, ref)
			if err != nil {
				c.HarnessError("pool: %v", err)
				return
			}
			o1, e1 := parseCached(i, ref, b)
			o2, e2 := parseSlot(i, b)
			if e1 != nil || e2 != nil {
				c.HarnessError("pool file %s %s is not accepted by its constructor: %v %v", slotNames[i], ref, e1, e2)
				return
			}
			if !reflect.DeepEqual(o1, o2) {
				c.HarnessError("DeepEqual is not stable for two parses of %s %s (at %s)", slotNames[i], ref, diffPath(reflect.ValueOf(o1), reflect.ValueOf(o2)))
				return
			}
			poolN++
		}
	}
	full := recipe{Files: docSeedFiles(), Ev: evSpec{AA: 1, CA: 1, PC: 1}}
	genuine := map[string][]byte{}
	versions := map[string]uint64{}
	magics := map[string]string{}
	{
		m, err := build(full)
		if err != nil {
			c.HarnessError("full seed document: %v", err)
			return
		}
		for _, imp := range []string{"document", "verifiable", "evidence"} {
			blob, err, pv := exportAs(m, imp)
			if err != nil || pv != nil {
				// an exporter that fails on the seed document is reported by the round-trip sections
				continue
			}
			items, err := cborMapItems(blob)
			if err != nil {
				c.HarnessError("mini CBOR reader cannot read the genuine %s export: %v", imp, err)
				return
			}
			if !bytes.Equal(cborEncMap(items), blob) {
				c.HarnessError("mini CBOR writer does not reproduce the genuine %s export", imp)
				return
			}
			genuine[imp] = blob
			magics[imp], versions[imp], _ = envelopeOf(blob)
			knownMagics[magics[imp]] = imp
		}
	}
	c.Extra("pool_files", poolN)
	c.Extra("envelope_magics", magics)
	c.Extra("envelope_versions", versions)

	rots := 1
	if thorough {
		rots = 3
	}

	// ---- (1) every subset of the 14 files, plain Document envelope
	sec := "roundtrip/subsets-document"
	c.SecBound(sec, fmt.Sprintf("all 16384 subsets of the 14 file types x %d content rotation(s) over a pool of %d files, Document.ToCbor -> NewDocumentFromCbor", rots, poolN))
	for rot := 0; rot < rots; rot++ {
		for s := 0; s < 1<<nSlots; s++ {
			if !c.Mine() {
				continue
			}
			if c.Expired() {
				c.SecNotExhaustive(sec, fmt.Sprintf("deadline at rotation %d subset %d", rot, s))
				rot = rots
				break
			}
			rec := recipe{Importer: "document", Files: subsetFiles(pool, s, rot)}
			rn.do(sec, rec)
			if s == 0x2AAA && rot == 0 {
				c.Sample(map[string]any{"roundtrip": rec})
			}
		}
	}

	// ---- (2) every subset x every evidence subset, DocumentEx envelope
	sec = "roundtrip/subsets-x-evidence-verifiable"
	c.SecBound(sec, fmt.Sprintf("all 16384 file subsets x all 8 subsets of {AA, CA, PACE-CAM} evidence (3 size variants each, rotating) x %d rotation(s), DocumentEx.ToCbor -> UnmarshalVerifiableDoc", rots))
outer2:
	for rot := 0; rot < rots; rot++ {
		for e := 0; e < 8; e++ {
			for s := 0; s < 1<<nSlots; s++ {
				if !c.Mine() {
					continue
				}
				if c.Expired() {
					c.SecNotExhaustive(sec, fmt.Sprintf("deadline at rotation %d evidence subset %d file subset %d", rot, e, s))
					break outer2
				}
				rec := recipe{Importer: "verifiable", Files: subsetFiles(pool, s, rot+1), Ev: evOfSubset(e, rot+s)}
				rn.do(sec, rec)
				if s == 0x1555 && e == 7 && rot == 0 {
					c.Sample(map[string]any{"roundtrip": rec})
				}
			}
		}
	}

	// ---- (3) evidence bundle: all (absent | variant 1..3)^3 combinations, both envelopes that carry evidence
	sec = "roundtrip/evidence-combinations"
	c.SecBound(sec, "all 4^3 combinations of (absent | 3 size variants) per mechanism x (no Result | Result without Evidence for absent ones) x every subset of the evidence-carrying Results recording the live run as failed x {bundle alone, DocumentEx with empty document, DocumentEx with full document}")
	for a := 0; a < 4; a++ {
		for ca := 0; ca < 4; ca++ {
			for p := 0; p < 4; p++ {
				for _, er := range []bool{false, true} {
					if !c.Mine() {
						continue
					}
					for fm := 0; fm < 8; fm++ {
						if (fm&1 != 0 && a == 0) || (fm&2 != 0 && ca == 0) || (fm&4 != 0 && p == 0) {
							continue // the flag belongs to a Result that carries evidence
						}
						ev := evSpec{AA: a, CA: ca, PC: p, EmptyResults: er, FailedMask: fm}
						rn.do(sec, recipe{Importer: "evidence", Ev: ev})
						rn.do(sec, recipe{Importer: "verifiable", Ev: ev})
						rn.do(sec, recipe{Importer: "verifiable", Files: docSeedFiles(), Ev: ev})
					}
				}
			}
		}
	}

	// ---- (3b) evidence value shapes: every byte-string field x every shape, for each size variant
	sec = "roundtrip/evidence-value-shapes"
	c.SecBound(sec, fmt.Sprintf("%d byte-string evidence fields x %d value shapes (leading zero octet, all zero but the last octet as in a real send sequence counter, all zero, trailing zero, all FF, single octet 00 / 01, high bit first, empty) x 3 size variants x {bundle alone, DocumentEx with full document}", len(evFieldNames), len(shapeNames)))
	for _, fn := range evFieldNames {
		for _, sh := range shapeNames {
			for v := 1; v <= 3; v++ {
				if !c.Mine() {
					continue
				}
				ev := evSpec{Field: fn, Shape: sh}
				switch fn[:2] {
				case "aa":
					ev.AA = v
				case "ca":
					ev.CA = v
				default:
					ev.PC = v
				}
				rn.do(sec, recipe{Importer: "evidence", Ev: ev})
				ev.AA, ev.CA, ev.PC = max(ev.AA, 1), max(ev.CA, 1), max(ev.PC, 1)
				rn.do(sec, recipe{Importer: "verifiable", Files: docSeedFiles(), Ev: ev})
			}
		}
	}

	// ---- (3c) histories on one Document object
	sec = "roundtrip/histories-on-one-object"
	{
		alpha := histAlphabet()
		depth := 4
		if thorough {
			depth = 5
		}
		c.SecBound(sec, fmt.Sprintf("every sequence of exactly %d operations over %d operations {export, export through DocumentEx, caller overwrites the returned blob, set content a / b and remove for each of cardAccess, com, sod, dg1 (NewDG), dg14 (NewDG)} followed by a final export; every export in the sequence is imported and compared with a map model; after every operation each blob returned so far must be unchanged", depth, len(alpha)))
		total := 1
		for i := 0; i < depth; i++ {
			total *= len(alpha)
		}
		for n := 0; n < total; n++ {
			if !c.Mine() {
				continue
			}
			if n%4096 == 0 && c.Expired() {
				c.SecNotExhaustive(sec, fmt.Sprintf("deadline at sequence %d of %d", n, total))
				break
			}
			var h histRecipe
			for i, x := 0, n; i < depth; i++ {
				h.Ops = append(h.Ops, alpha[x%len(alpha)])
				x /= len(alpha)
			}
			h.Ops = append(h.Ops, histOp{Kind: "E"})
			key, what, outcome, exports, herr := runHistory(h)
			if herr != nil {
				c.HarnessError("history %v: %v", h.Ops, herr)
				break
			}
			c.Eval(int64(exports))
			c.Outcome(sec, outcome)
			if n%97 == 0 {
				c.Distinct(fmt.Sprintf("hist/%v", h.Ops))
			}
			if key != "" {
				hh := h
				c.Violation(sec, key, what, hh, func() bool { k, _, _, _, _ := runHistory(hh); return k != "" })
			}
		}
	}

	// ---- (4) contents: every enumerated file of every kind, alone and inside the full document
	sec = "roundtrip/content-sweep"
	{
		total := 0
		for i := 0; i < nSlots; i++ {
			total += len(enumFiles(slotKinds[i], thorough))
		}
		c.SecBound(sec, fmt.Sprintf("every file of reflds.Enumerate(kind, thorough=%v) for all 14 kinds (%d files): alone (Document envelope) and replacing its kind in the full seed document with all evidence (DocumentEx envelope)", thorough, total))
	}
	tq := map[bool]string{false: "q", true: "t"}[thorough]
outer4:
	for i := 0; i < nSlots; i++ {
		l := enumFiles(slotKinds[i], thorough)
		for j := range l {
			if !c.Mine() {
				continue
			}
			if c.Expired() {
				c.SecNotExhaustive(sec, fmt.Sprintf("deadline at %s file %d of %d", slotNames[i], j, len(l)))
				break outer4
			}
			ref := fmt.Sprintf("enum:%s:%d", tq, j)
			// stability of the comparison for this very file
			o1, e1 := parseSlot(i, l[j])
			o2, e2 := parseSlot(i, l[j])
			if e1 != nil || e2 != nil || o1 == nil {
				c.Outcome(sec, "skipped/constructor-rejects-file") // C19's business
				continue
			}
			if !reflect.DeepEqual(o1, o2) {
				c.HarnessError("DeepEqual is not stable for two parses of %s %s", slotNames[i], ref)
				continue
			}
			rn.do(sec, recipe{Importer: "document", Files: map[string]string{slotNames[i]: ref}})
			f := docSeedFiles()
			f[slotNames[i]] = ref
			rn.do(sec, recipe{Importer: "verifiable", Files: f, Ev: evSpec{AA: 1 + j%3, CA: 1 + (j/3)%3, PC: 1 + (j/9)%3}})
		}
	}

	// ---- (5) sizes across the CBOR length-form boundaries (24, 256, 65536) at every nesting level
	sec = "roundtrip/size-boundaries"
	var lens []int
	for n := 0; n <= 700; n++ {
		lens = append(lens, n)
	}
	hi := 65300
	if thorough {
		hi = 65000
	}
	for n := hi; n <= 65560; n++ {
		lens = append(lens, n)
	}
	if thorough {
		lens = append(lens, 100000, 131072, 200000, 1<<20)
	}
	c.SecBound(sec, fmt.Sprintf("DG13 with every content length 0..700 and %d..65560 (%d lengths): alone in the Document envelope, and with CA evidence in the DocumentEx envelope", hi, len(lens)))
	for _, n := range lens {
		if !c.Mine() {
			continue
		}
		if c.Expired() {
			c.SecNotExhaustive(sec, fmt.Sprintf("deadline at length %d", n))
			break
		}
		ref := fmt.Sprintf("dg13len:%d", n)
		rn.do(sec, recipe{Importer: "document", Files: map[string]string{"dg13": ref}})
		rn.do(sec, recipe{Importer: "verifiable", Files: map[string]string{"dg13": ref}, Ev: evSpec{CA: 1 + n%3}})
	}

	// ---- (6) forged envelopes: foreign magic, newer version (before the long corruption sweep so that it always runs)
	sec = "magic-version"
	if len(genuine) == 3 {
		vers := []uint64{1, 2, 3, 22, 23, 254, 255, 65535, 1 << 32, 1<<63 - 1, 1<<64 - 1}
		c.SecBound(sec, "importer x {empty, full} document: genuine export of each other envelope; own payload under each of the 3 magics; own magic with version+{1,2,3,22,23,254,255,65535,2^32,2^63-1} and 2^64-1; the same forgeries applied to each inner envelope of a DocumentEx blob with the outer envelope re-sealed; every forgery also with the forged value under the envelope's own key and a second entry BEFORE it (key in upper case, capitalised, or repeated literally) carrying the genuine value")
		bases := []recipe{{Ev: evSpec{}}, full}
		imps := []string{"document", "verifiable", "evidence"}
		for _, base := range bases {
			for _, imp := range imps {
				var cases []mutation
				for _, other := range imps {
					if other != imp {
						cases = append(cases, mutation{Kind: "foreign", Foreign: other})
					}
					cases = append(cases, mutation{Kind: "forge", Magic: magics[other]}) // own magic = identity forge (machinery self-check)
				}
				for _, dv := range vers {
					v := versions[imp] + dv
					if dv == 1<<64-1 {
						v = dv
					}
					cases = append(cases, mutation{Kind: "forge", Version: &v})
				}
				if imp == "verifiable" {
					for _, inner := range []string{"document", "chipAuthEvidence"} {
						innerImp := map[string]string{"document": "document", "chipAuthEvidence": "evidence"}[inner]
						for _, other := range imps {
							cases = append(cases, mutation{Kind: "forge", Nested: inner, Magic: magics[other]})
						}
						for _, dv := range vers {
							v := versions[innerImp] + dv
							if dv == 1<<64-1 {
								v = dv
							}
							cases = append(cases, mutation{Kind: "forge", Nested: inner, Version: &v})
						}
					}
				}
				// every forgery also with the envelope's own key shadowed by an entry that carries the genuine value
				for _, mu := range append([]mutation{}, cases...) {
					if mu.Kind == "forge" {
						for _, sh := range []string{"upper", "title", "dup"} {
							m2 := mu
							m2.Shadow = sh
							cases = append(cases, m2)
						}
					}
				}
				for _, mu := range cases {
					if !c.Mine() {
						continue
					}
					mu := mu
					rec := base
					rec.Importer = imp
					rec.Mut = &mu
					rn.do(sec, rec)
				}
			}
		}
	} else {
		c.SecNotExhaustive(sec, "an exporter failed on the seed document (reported by the round-trip sections)")
	}

	// ---- (7) corruption: every byte x every value, every truncation, every extension
	var blobs []blobCase
	small := map[string]string{"dg1": "seed:var/DG1-TD2", "sod": "seed:var/SOD-v0-sha1"}
	blobs = append(blobs,
		blobCase{"document/empty", recipe{Importer: "document"}},
		blobCase{"document/dir-only", recipe{Importer: "document", Files: map[string]string{"dir": "seed:doc/DIR"}}},
		blobCase{"document/all-14-files", recipe{Importer: "document", Files: docSeedFiles()}},
		blobCase{"verifiable/empty", recipe{Importer: "verifiable"}},
		blobCase{"verifiable/all-14-files+all-evidence", recipe{Importer: "verifiable", Files: docSeedFiles(), Ev: evSpec{AA: 1, CA: 1, PC: 1}}},
	)
	for e := 0; e < 8; e++ {
		ev := evOfSubset(e, e)
		ev.EmptyResults = false
		blobs = append(blobs, blobCase{fmt.Sprintf("verifiable/dg1+sod+evidence-subset-%d", e), recipe{Importer: "verifiable", Files: small, Ev: ev}})
		blobs = append(blobs, blobCase{fmt.Sprintf("evidence/subset-%d", e), recipe{Importer: "evidence", Ev: ev}})
	}
	for i := 0; i < nSlots; i++ {
		blobs = append(blobs, blobCase{"document/only-" + slotNames[i], recipe{Importer: "document", Files: map[string]string{slotNames[i]: "seed:doc/" + string(slotKinds[i])}}})
	}
	if thorough {
		varFiles := docSeedFiles()
		for k, v := range map[string]string{"dg1": "seed:var/DG1-TD1-long-number", "dg2": "seed:var/DG2-three-templates", "dg7": "seed:var/DG7-three", "dg11": "seed:var/DG11-bare-bcd",
			"dg12": "seed:var/DG12-bcd", "dg14": "seed:var/DG14-all", "dg15": "seed:var/DG15-ec-explicit", "dg16": "seed:var/DG16-three", "com": "seed:var/COM-all16",
			"sod": "seed:var/SOD-v1-sha512", "cardAccess": "seed:var/CardAccess-all"} {
			varFiles[k] = v
		}
		blobs = append(blobs,
			blobCase{"verifiable/all-14-variant-files+large-evidence", recipe{Importer: "verifiable", Files: varFiles, Ev: evSpec{AA: 2, CA: 3, PC: 3}}},
			blobCase{"document/dg1+sod+dg7-16KB-image", recipe{Importer: "document", Files: map[string]string{"dg1": "seed:doc/DG1", "sod": "seed:doc/SOD", "dg7": "dg7img:16000"}}},
			blobCase{"verifiable/dg13-65536-bytes", recipe{Importer: "verifiable", Files: map[string]string{"dg13": "dg13len:65529"}, Ev: evSpec{AA: 1}}},
		)
	}
	blobSizes := map[string]int{}
	for _, bc := range blobs {
		sec := "corruption/" + bc.name
		m, err := build(bc.rec)
		if err != nil {
			c.HarnessError("%s: %v", sec, err)
			continue
		}
		imp := bc.rec.Importer
		blob, err, pv := exportAs(m, imp)
		if err != nil || pv != nil {
			// reported as a round-trip violation; nothing to corrupt
			rn.do(sec, bc.rec)
			continue
		}
		blobSizes[bc.name] = len(blob)
		// the intact blob must import to the original (else every "accepted" below is meaningless)
		if r, err, pv := importAs(imp, blob); err != nil || pv != nil {
			if c.Shard == 0 {
				rn.do(sec, bc.rec)
			}
			continue
		} else if cl, _ := compare(m, imp, r, true); cl != "" {
			if c.Shard == 0 {
				rn.do(sec, bc.rec)
			}
			continue
		}
		items, _ := cborMapItems(blob)
		// very large blobs: every position of the first and last 3000 bytes, every 97th position in between (stated in the bound)
		stride := func(p int) bool { return len(blob) <= 80000 || p < 3000 || p >= len(blob)-3000 || p%97 == 0 }
		bound := fmt.Sprintf("%d-byte %s blob: every position x 255 substitutions, every truncation length 0..%d, 256 one-byte extensions", len(blob), imp, len(blob)-1)
		if len(blob) > 80000 {
			bound = fmt.Sprintf("%d-byte %s blob: positions 0..2999, the last 3000 and every 97th in between x 255 substitutions; every truncation length; 256 one-byte extensions", len(blob), imp)
		}
		c.SecBound(sec, bound)
		one := func(mu mutation, mb []byte, reg string) {
			r, err, pv := importAs(imp, mb)
			if pv == nil && err != nil {
				cl, past := rejectClass(err)
				c.Outcome(sec, cl)
				if past {
					c.Distinct(bc.name + "|" + mu.Kind + strconv.Itoa(mu.Pos) + "," + strconv.Itoa(mu.Val) + "," + strconv.Itoa(mu.Len))
				}
				return
			}
			if pv == nil {
				if cl, _ := compare(m, imp, r, true); cl == "" {
					c.Outcome(sec, "accepted-identical/"+mu.Kind+"@"+reg)
					c.Distinct(bc.name + "|" + mu.Kind + strconv.Itoa(mu.Pos) + "," + strconv.Itoa(mu.Val) + "," + strconv.Itoa(mu.Len))
					return
				}
			}
			// panic or different content: take the slow, replayable path for the verdict
			rec := bc.rec
			rec.Mut = &mu
			rn.do(sec, rec)
		}
		expired := false
		buf := make([]byte, len(blob)+1)
		for p := 0; p < len(blob) && !expired; p++ {
			if !stride(p) {
				continue
			}
			if !c.Mine() {
				continue
			}
			if c.Expired() {
				c.SecNotExhaustive(sec, fmt.Sprintf("deadline at position %d of %d", p, len(blob)))
				expired = true
				break
			}
			reg := region(items, p)
			copy(buf, blob)
			for v := 0; v < 256; v++ {
				if byte(v) == blob[p] {
					continue
				}
				buf[p] = byte(v)
				one(mutation{Kind: "sub", Pos: p, Val: v}, buf[:len(blob)], reg)
			}
		}
		for l0 := 0; l0 < len(blob) && !expired; l0 += 64 {
			if !c.Mine() {
				continue
			}
			if c.Expired() {
				c.SecNotExhaustive(sec, fmt.Sprintf("deadline at truncation length %d of %d", l0, len(blob)))
				expired = true
				break
			}
			for l := l0; l < l0+64 && l < len(blob); l++ {
				one(mutation{Kind: "trunc", Len: l}, blob[:l], "end")
			}
		}
		if !expired && c.Mine() {
			copy(buf, blob)
			for v := 0; v < 256; v++ {
				buf[len(blob)] = byte(v)
				one(mutation{Kind: "ext", Val: v}, buf, "end")
			}
		}
		if expired {
			break
		}
	}
	c.Extra("corruption_blob_sizes", blobSizes)
	c.Sample(map[string]any{"corruption": recipe{Importer: "verifiable", Files: small, Ev: evSpec{AA: 1, CA: 1, PC: 1}, Mut: &mutation{Kind: "sub", Pos: 30, Val: 0}}})
}

// ---------------------------------------------------------------------------------------------
// replay

func replay(c *vc.Ctx, raw json.RawMessage) string {
	var doc struct {
		Section string          `json:"section"`
		Case    json.RawMessage `json:"case"`
	}
	json.Unmarshal(raw, &doc)
	// (a) a bare blob: {"importer": "...", "blob": "<hex>"}: import it and print what comes back
	var bare struct {
		Importer string `json:"importer"`
		Blob     string `json:"blob"`
	}
	if json.Unmarshal(doc.Case, &bare) == nil && bare.Blob != "" {
		r, err, pv := importAs(bare.Importer, vc.Unhex(bare.Blob))
		switch {
		case pv != nil:
			c.Violation(doc.Section, "panic/import/"+bare.Importer, fmt.Sprintf("import panicked: %v", pv), bare, nil)
			return fmt.Sprintf("%s import panicked: %v", bare.Importer, pv)
		case err != nil:
			return fmt.Sprintf("%s import error: %v", bare.Importer, err)
		}
		return describe(bare.Importer, r)
	}
	// (a2) a history on one Document object
	var hr histRecipe
	if json.Unmarshal(doc.Case, &hr) == nil && len(hr.Ops) > 0 {
		k, w, outcome, exports, herr := runHistory(hr)
		if k != "" {
			c.Violation(doc.Section, k, w, hr, nil)
		}
		return fmt.Sprintf("history %v: %d exports, outcome %s; verdict: %s %s %v", hr.Ops, exports, outcome, k, w, herr)
	}
	// (b) a recipe: rebuild the document, export, mutate, import, judge
	var rec recipe
	if err := json.Unmarshal(doc.Case, &rec); err != nil || rec.Importer == "" {
		return "case is neither a recipe nor a blob: " + string(doc.Case)
	}
	// the magics are needed to name a foreign magic's owner in the key
	if m, err := build(recipe{}); err == nil {
		for _, imp := range []string{"document", "verifiable", "evidence"} {
			if b, err, pv := exportAs(m, imp); err == nil && pv == nil {
				if mg, _, err := envelopeOf(b); err == nil {
					knownMagics[mg] = imp
				}
			}
		}
	}
	key, what, outcome, obs, herr := runRecipe(rec)
	if herr != nil {
		return "harness error: " + herr.Error()
	}
	if key != "" {
		c.Violation(doc.Section, key, what, rec, nil)
	}
	blobHex := ""
	if m, err := build(rec); err == nil {
		if b, err, pv := exportAs(m, rec.Importer); err == nil && pv == nil && len(b) <= 400 {
			blobHex = " exported blob (before the mutation) = " + vc.Hex(b) + ";"
		}
	}
	return fmt.Sprintf("%s;%s outcome=%s; verdict: %s %s", obs, blobHex, outcome, key, what)
}
