// Package c11: link faults at any point of a session fail safe.
package c11

import (
	"bytes"
	"encoding/json"
	"fmt"
	"strconv"
	"strings"

	"verif/internal/e2e"
	"verif/internal/perso"
	"verif/internal/refchip"
	"verif/internal/refcrypto"
	"verif/internal/refpki"
	"verif/internal/vc"
)

func init() {
	vc.Register(&vc.Check{ID: "C11", Level: "fault_enumeration", Run: run, Replay: replay, QuickSec: 170, ThoroSec: 2400,
		Rule:   "for each chip configuration the fault-free read is run and its N exchanges numbered; then for EVERY exchange index k in [0,N) and EVERY fault kind of the 20-entry menu (bare 6A82, bare 6283, empty, first byte only, last byte dropped, first half, data bit flipped, SW bit flipped, 1 byte appended, 300 bytes appended, data field extended by one octet / doubled with the status word intact (oversized), data field shortened by one octet / to its first half with the status word intact (truncated), SW:=6A82/6982/6700/6300, bare 9000, previous response replayed) one complete execution of the real Reader.ReadDocument against the independent chip (D=1: N x 20 per configuration); D=2 = all ordered pairs of faults (quick: 4 session-continuing kinds on the smallest configuration; thorough: all 20 x 20 kinds on three configurations), which replaces 'random multi-fault sequences' by an exhaustive bound. Horizon: more than 20 N exchanges = livelock. Oracle from the chip's own truth: no panic escapes; every file returned is byte-identical to the chip's (on clear-text exchanges: unless the response was altered in content while staying within the requested length, which no transport can notice - then passive authentication must record the failure); no protocol reported successful that the chip did not complete; DataTrusted only if issuer trusted and all returned files genuine; a faulted read (fault on a protected exchange) that reports neither an error nor a failed step must be indistinguishable from the fault-free read (no silent degradation). distinct_nontrivial = distinct (configuration, k, fault kind, outcome signature)",
		Assume: []string{"content corruption of the plaintext EF.CardAccess read (before any session exists) is undetectable by any implementation; byte-identity of CardAccess is therefore not asserted for faults on unprotected exchanges", "faults are applied to the response bytes on the wire; the chip itself behaves conformingly"}})
}

var faultKinds = []string{"bare-6A82", "bare-6283", "empty", "first-byte-only", "last-byte-dropped", "first-half", "data-bit-flipped", "sw-bit-flipped", "one-byte-appended", "300-bytes-appended", "data-extended-by-1", "data-doubled", "data-last-byte-dropped", "data-first-half",
	"sw:=6A82", "sw:=6982", "sw:=6700", "sw:=6300", "bare-9000", "previous-response"}

func applyFault(kind string, genuine, prev []byte) []byte {
	g := bytes.Clone(genuine)
	setSW := func(a, b byte) []byte {
		if len(g) >= 2 {
			g[len(g)-2], g[len(g)-1] = a, b
			return g
		}
		return []byte{a, b}
	}
	if strings.HasPrefix(kind, "data-bit-flipped@") {
		i, _ := strconv.Atoi(kind[len("data-bit-flipped@"):])
		if i < len(g)-2 {
			g[i] ^= 1
		}
		return g
	}
	switch kind {
	case "empty":
		return []byte{}
	case "first-byte-only":
		return g[:min(1, len(g))]
	case "last-byte-dropped":
		return g[:max(0, len(g)-1)]
	case "first-half":
		return g[:len(g)/2]
	case "data-bit-flipped":
		if len(g) > 0 {
			g[0] ^= 1
		}
		return g
	case "sw-bit-flipped":
		if len(g) >= 2 {
			g[len(g)-2] ^= 1
		}
		return g
	case "data-extended-by-1":
		// OVERSIZED data field with the status word intact: one octet more than the chip sent
		if len(g) >= 2 {
			return append(append(append([]byte{}, g[:len(g)-2]...), 0x00), g[len(g)-2:]...)
		}
		return g
	case "data-doubled":
		if len(g) >= 2 {
			return append(append(append([]byte{}, g[:len(g)-2]...), g[:len(g)-2]...), g[len(g)-2:]...)
		}
		return g
	case "data-last-byte-dropped":
		// TRUNCATED data field with the status word intact (a legal short read of genuine bytes)
		if len(g) >= 3 {
			return append(append([]byte{}, g[:len(g)-3]...), g[len(g)-2:]...)
		}
		return g
	case "data-first-half":
		if len(g) >= 3 {
			return append(append([]byte{}, g[:(len(g)-2)/2]...), g[len(g)-2:]...)
		}
		return g
	case "one-byte-appended":
		return append(g, 0x00)
	case "300-bytes-appended":
		return append(g, bytes.Repeat([]byte{0xAA}, 300)...)
	case "sw:=6A82":
		return setSW(0x6A, 0x82)
	case "sw:=6982":
		return setSW(0x69, 0x82)
	case "sw:=6700":
		return setSW(0x67, 0x00)
	case "sw:=6300":
		return setSW(0x63, 0x00)
	case "bare-9000":
		return []byte{0x90, 0x00}
	case "bare-6A82":
		return []byte{0x6A, 0x82}
	case "bare-6283":
		return []byte{0x62, 0x83}
	case "previous-response":
		if prev == nil {
			return []byte{0x6F, 0x00}
		}
		return bytes.Clone(prev)
	}
	panic("unknown fault " + kind)
}

type chipCfg struct {
	Name string
	Cfg  func() perso.Config
	Tune func(chip *refchip.Chip) // transport behaviour of the chip (Le cap, short reads); nil = answers every Le in full
}

func configs(thorough bool) []chipCfg {
	one := 1
	out := []chipCfg{
		{Name: "BAC+AA-RSA", Cfg: func() perso.Config {
			return perso.Config{BAC: true, DGs: []int{2}, AA: &perso.AASpec{RSABits: 1024, Trailer: "34CC"}}
		}},
		{Name: "PACE-GM+BAC+CA", Cfg: func() perso.Config {
			return perso.Config{BAC: true, PACE: []refchip.PACEProto{{Mapping: 2, Cipher: 2, ParamID: 13}}, DGs: []int{2, 11}, CA: []perso.CASpec{{Curve: "brainpoolP256r1", Cipher: 2, KeyID: &one}}}
		}},
		{Name: "PACE-CAM+AA-ECDSA", Cfg: func() perso.Config {
			return perso.Config{PACE: []refchip.PACEProto{{Mapping: 6, Cipher: 2, ParamID: 12}}, DGs: []int{2}, AA: &perso.AASpec{Curve: "P-256"}}
		}},
	}
	// a chip whose LAST data group is an optional one (a silently dropped last file has no later exchange that could fail)
	out = append(out, chipCfg{Name: "BAC-only", Cfg: func() perso.Config { return perso.Config{BAC: true, DGs: []int{2, 7, 11, 12}} }})
	// secondary read paths: a chip that rejects READ BINARY above 192 bytes (the library falls back 256 -> 192 and
	// lowers its read size for the rest of the session), and a chip that returns fewer bytes than requested
	out = append(out,
		chipCfg{Name: "BAC+AA-ECDSA/le-cap-192-fallback", Cfg: func() perso.Config {
			return perso.Config{BAC: true, DGs: []int{2, 11}, AA: &perso.AASpec{Curve: "P-256"}}
		}, Tune: func(chip *refchip.Chip) { chip.LeCap = 192 }},
		chipCfg{Name: "BAC/short-reads-half", Cfg: func() perso.Config { return perso.Config{BAC: true, DGs: []int{2}} },
			Tune: func(chip *refchip.Chip) {
				chip.ReadChoice = func(r refchip.ReadReq) int {
					n := min(r.Ne, r.Avail)
					if r.Ne <= 4 {
						return n // the 4-byte header probe is answered in full (a shorter answer is an error for the library: C13)
					}
					return max(1, (n+1)/2)
				}
			}})
	// EF.CardAccess with TWO PACEInfos, both repeated in DG14 (the cross-check the library has for the one file that
	// is always read in the clear); a chip without access control whose security object lists DG15 but no DG14
	out = append(out,
		chipCfg{Name: "PACE-GM+CAM-two-infos+DG14", Cfg: func() perso.Config {
			return perso.Config{PACE: []refchip.PACEProto{{Mapping: 2, Cipher: 2, ParamID: 13}, {Mapping: 6, Cipher: 2, ParamID: 13}}, DGs: []int{2}}
		}},
		chipCfg{Name: "no-access-control+AA-only", Cfg: func() perso.Config {
			return perso.Config{DGs: []int{2}, AA: &perso.AASpec{RSABits: 1024, Trailer: "BC"}}
		}, Tune: func(chip *refchip.Chip) { chip.NoAccessRules = true }},
		// elementary files that are LARGER than the data object they hold (bytes behind it - here shaped like empty data objects - as on chips with
		// fixed-size files): a read that takes a wrong size returns padding instead of failing at the end of file
		chipCfg{Name: "no-access-control+padded-files", Cfg: func() perso.Config {
			return perso.Config{DGs: []int{11}}
		}, Tune: func(chip *refchip.Chip) {
			chip.NoAccessRules = true
			for _, fs := range []map[uint16]*refchip.EF{chip.MF, chip.LDS} {
				for _, f := range fs {
					f.Data = append(append([]byte{}, f.Data...), 0x04, 0x00, 0x04, 0x00, 0x04)
				}
			}
		}})
	if thorough {
		out = append(out,
			chipCfg{Name: "PACE-GM/le-cap-128-fallback", Cfg: func() perso.Config {
				return perso.Config{PACE: []refchip.PACEProto{{Mapping: 2, Cipher: 2, ParamID: 13}}, DGs: []int{2, 7}}
			}, Tune: func(chip *refchip.Chip) { chip.LeCap = 128 }})
		out = append(out,
			chipCfg{Name: "BAC+CA-3DES-noinfo", Cfg: func() perso.Config {
				return perso.Config{BAC: true, DGs: []int{2}, CA: []perso.CASpec{{Curve: "P-256", Cipher: 1, NoInfo: true}}}
			}},
			chipCfg{Name: "PACE-GM-only-3DES", Cfg: func() perso.Config {
				return perso.Config{PACE: []refchip.PACEProto{{Mapping: 2, Cipher: 1, ParamID: 12}}, DGs: []int{2, 16}}
			}},
			chipCfg{Name: "PACE-GM+BAC-untrusted", Cfg: func() perso.Config {
				return perso.Config{BAC: true, PACE: []refchip.PACEProto{{Mapping: 2, Cipher: 4, ParamID: 16}}, DGs: []int{2}, Untrusted: true}
			}},
			chipCfg{Name: "PACE-CAM-AES256+CA", Cfg: func() perso.Config {
				return perso.Config{PACE: []refchip.PACEProto{{Mapping: 6, Cipher: 4, ParamID: 13}}, DGs: []int{2}, CA: []perso.CASpec{{Curve: "P-384", Cipher: 4}}}
			}},
			chipCfg{Name: "BAC+AA-ECDSA-DER+CA", Cfg: func() perso.Config {
				return perso.Config{BAC: true, DGs: []int{2, 13}, AA: &perso.AASpec{Curve: "brainpoolP384r1", DER: true}, CA: []perso.CASpec{{Curve: "P-256", Cipher: 2}}}
			}},
			chipCfg{Name: "BAC-large-DG", Cfg: func() perso.Config {
				big := append([]byte{0x6D, 0x82, 0x07, 0xD0}, bytes.Repeat([]byte{0x5C}, 2000)...)
				return perso.Config{BAC: true, DGs: []int{2}, DGOverride: map[int][]byte{13: big}}
			}},
		)
	}
	return out
}

type fault struct {
	K    int    `json:"k"`
	Kind string `json:"kind"`
}

type caseRec struct {
	Config string  `json:"config"`
	Faults []fault `json:"faults"`
	N      int     `json:"fault_free_exchanges"`
}

type result struct {
	Key, What            string
	Sig                  string
	Exchanges            int
	Complete             string // files present + verdicts; compared with the fault-free run when a faulted read reports no failure
	Failed               bool   // the read returned an error or recorded a failed step
	UnprotectedFault     bool
	FailedSet            string // which steps are recorded as failed (compared with the fault-free run: only a NEW failure counts)
	CardAccessDiffers    bool   // the returned EF.CardAccess is not the chip's (only possible after a fault on an unprotected exchange)
	HasDG14              bool
	Present              []int       // files obtained
	AlteredAuthenticated []int       // files covered by the security object returned with other bytes after a clear-text fault
	PlainResp            map[int]int // fault-free run: exchange index -> response length, for exchanges outside secure messaging
}

func runCase(cc chipCfg, faults []fault, n int) result {
	cfg := cc.Cfg()
	p := perso.Build(cfg)
	chip := p.Chip
	if cc.Tune != nil {
		cc.Tune(chip)
	}
	limit := 20*n + 1100 // above the library's own 1000-chunk bound
	overrun := false
	unprotectedFault := false
	undetectableClearFault := false // some clear-text fault kept the response within the requested length
	var prev []byte
	chip.Fault = func(i int, genuine []byte) []byte {
		defer func() { prev = genuine }()
		if i > limit {
			overrun = true
			return []byte{0x6F, 0x00}
		}
		for _, f := range faults {
			if f.K == i {
				out := applyFault(f.Kind, genuine, prev)
				if !chip.Log[i].Protected {
					unprotectedFault = true
					// a clear-text response whose data field is longer than the command's Le is visibly oversized: the
					// transport CAN notice it (unlike a same-length alteration), so no returned file may differ
					oversized := false
					if pl := chip.Log[i].Plain; pl != nil && pl.Le > 0 && len(out)-2 > pl.Le && len(out) > len(genuine) {
						oversized = true
					}
					// a response that delivers a genuine PREFIX of the chip's data with the chip's status word alters no
					// content either: a short read, from which a correct reader assembles the right file or fails
					prefix := len(out) >= 2 && len(genuine) >= 2 && len(out) <= len(genuine) &&
						bytes.Equal(out[len(out)-2:], genuine[len(genuine)-2:]) && bytes.HasPrefix(genuine, out[:len(out)-2])
					if !oversized && !prefix {
						undetectableClearFault = true
					}
				}
				return out
			}
		}
		return nil
	}
	r := e2e.Read(p, e2e.ReadOpts{})
	res := result{Exchanges: len(chip.Log)}
	if len(faults) == 0 {
		res.PlainResp = map[int]int{}
		for i, ex := range chip.Log {
			if !ex.Protected {
				res.PlainResp[i] = len(ex.WireResp)
			}
		}
	}
	if r.Panic != nil {
		res.Key, res.What = "panic-escapes-read", fmt.Sprintf("ReadDocument panicked: %v", r.Panic)
		return res
	}
	if overrun {
		res.Key, res.What = "livelock", fmt.Sprintf("more than %d exchanges for a read that needs %d", limit, n)
		return res
	}
	t := chip.Truth
	sig := fmt.Sprintf("err=%v", r.Err != nil)
	if r.Doc == nil {
		res.Sig = sig + "/nodoc"
		res.Failed = true
		return res
	}
	for _, d := range append(append([]int{}, p.DGList...), 0x1D, 0x1E, 0x1C, 0x11D) {
		got := e2e.FileBytes(&r.Doc.Document, d)
		if got == nil {
			continue
		}
		var want []byte
		switch d {
		case 0x1C:
			if unprotectedFault && undetectableClearFault {
				// EF.CardAccess is read in the clear: the link can alter it unnoticed at the transport level. What the
				// library CAN notice is a CardAccess that is not contained in an (authenticated) DG14: judged below.
				if !bytes.Equal(got, p.CardAccess) {
					res.CardAccessDiffers = true
				}
				continue
			}
			want = p.CardAccess
		case 0x11D:
			want = p.CardSecurity
		default:
			want = p.Files[d]
		}
		if !bytes.Equal(got, want) && unprotectedFault && undetectableClearFault {
			// the fault hit an exchange outside secure messaging (a chip without access control, or the clear-text
			// prologue): the transport cannot notice. Files covered by the security object must then be caught by
			// passive authentication (judged against the fault-free run in judgeCase); EF.COM is covered by nothing.
			if d != 0x1E {
				res.AlteredAuthenticated = append(res.AlteredAuthenticated, d)
			}
			continue
		}
		if !bytes.Equal(got, want) {
			res.Key, res.What = fmt.Sprintf("file-differs/%x", d), fmt.Sprintf("returned file %x (%d bytes) differs from the chip's (%d bytes)", d, len(got), len(want))
			return res
		}
	}
	s := r.Doc.Session
	bac := s.BacResult != nil && s.BacResult.Success
	pace := s.PaceResult != nil && s.PaceResult.Success
	cam := s.PaceCamResult != nil && s.PaceCamResult.Success
	ca := s.ChipAuthResult != nil && s.ChipAuthResult.Success
	aa := s.ActiveAuthResult != nil && s.ActiveAuthResult.Success
	switch {
	case bac && !t.BACCompleted:
		res.Key, res.What = "success-without-chip/BAC", "BAC reported successful but the chip did not complete it"
	case pace && !t.PACECompleted:
		res.Key, res.What = "success-without-chip/PACE", "PACE reported successful but the chip did not complete it"
	case cam && !(t.PACECompleted && t.PACECAM):
		res.Key, res.What = "success-without-chip/PACE-CAM", "PACE-CAM reported successful but the chip did not send chip-authentication data in a completed PACE"
	case ca && !t.CACompleted:
		res.Key, res.What = "success-without-chip/CA", "chip authentication reported successful but the chip never authenticated a command under the new keys"
	case aa && t.AASigned == 0:
		res.Key, res.What = "success-without-chip/AA", "active authentication reported successful but the chip produced no signature"
	}
	if res.Key != "" {
		return res
	}
	sum := r.Doc.Summary()
	if sum.DataTrusted {
		if cfg.Untrusted {
			res.Key, res.What = "trusted-with-untrusted-issuer", "DataTrusted although the issuer is not in the trust store"
			return res
		}
		// all files identical (checked above) and the security object must be the genuine one
		if !bytes.Equal(e2e.FileBytes(&r.Doc.Document, 0x1D), p.Files[0x1D]) {
			res.Key, res.What = "trusted-without-genuine-sod", "DataTrusted but the EF.SOD returned is not the chip's"
			return res
		}
		for _, d := range p.DGList {
			if e2e.FileBytes(&r.Doc.Document, d) == nil && d != 2 && d != 7 {
				// completeness: a DG listed in the SOD and present on the chip is missing, yet trusted
				if d == 14 || d == 15 {
					res.Key, res.What = fmt.Sprintf("trusted-although-DG%d-missing", d), fmt.Sprintf("DataTrusted although DG%d (listed in the SOD) was not obtained", d)
					return res
				}
			}
		}
	}
	ch := fmt.Sprint(sum.ChipAuthenticity)
	switch {
	case ch == "Active Authentication" && !aa, ch == "PACE-CAM" && !cam, ch == "Chip Authentication" && !ca:
		res.Key, res.What = "summary-names-failed-mechanism", fmt.Sprintf("summary names %s although that protocol did not succeed", ch)
		return res
	}
	res.Sig = fmt.Sprintf("%s/bac=%v/pace=%v/cam=%v/ca=%v/aa=%v/trusted=%v", sig, bac, pace, cam, ca, aa, sum.DataTrusted)
	var present []int
	for _, d := range append(append([]int{}, p.DGList...), 0x1D, 0x1E, 0x1C, 0x11D) {
		if e2e.FileBytes(&r.Doc.Document, d) != nil {
			present = append(present, d)
		}
	}
	pa := s.PassiveAuthResult != nil && s.PassiveAuthResult.Success
	res.Present = present
	res.Complete = fmt.Sprintf("files=%v/bac=%v/pace=%v/cam=%v/ca=%v/aa=%v/pa=%v/trusted=%v/auth=%s", present, bac, pace, cam, ca, aa, pa, sum.DataTrusted, ch)
	res.Failed = r.Err != nil || s.BacErr != nil || s.PaceErr != nil || s.ChipAuthErr != nil || s.ActiveAuthErr != nil || s.PassiveAuthErr != nil || s.DocumentVerifyErr != nil
	res.FailedSet = fmt.Sprintf("read=%v,bac=%v,pace=%v,ca=%v,aa=%v,pa=%v,verify=%v", r.Err != nil, s.BacErr != nil, s.PaceErr != nil, s.ChipAuthErr != nil, s.ActiveAuthErr != nil, s.PassiveAuthErr != nil, s.DocumentVerifyErr != nil)
	res.HasDG14 = e2e.FileBytes(&r.Doc.Document, 14) != nil
	res.UnprotectedFault = unprotectedFault
	return res
}

// newFailure says whether the faulted run recorded an error or a failed step that the fault-free run of the same
// configuration does not have (a chip without access control always has a failed BAC step, for instance).
func newFailure(r, base result) bool {
	if r.FailedSet == "" {
		return r.Failed
	}
	a, b := strings.Split(r.FailedSet, ","), strings.Split(base.FailedSet, ",")
	for i := range a {
		if strings.HasSuffix(a[i], "=true") && (i >= len(b) || !strings.HasSuffix(b[i], "=true")) {
			return true
		}
	}
	return false
}

// judgeCase = runCase + the no-silent-degradation rules against the fault-free result of the same configuration.
func judgeCase(cc chipCfg, faults []fault, n int, base result) result {
	r := runCase(cc, faults, n)
	if r.Key != "" {
		return r
	}
	failed := newFailure(r, base)
	if !failed && !r.UnprotectedFault && r.Complete != base.Complete {
		// the statement: a misbehaving exchange ends the read with an error or with that step recorded as failed.
		// Tolerated faults are fine only if the result is indistinguishable from the fault-free read.
		r.Key, r.What = "silent-degradation", fmt.Sprintf("no error and no failed step, but the result differs from the fault-free read: %s (fault-free: %s)", r.Complete, base.Complete)
	}
	if !failed && len(r.AlteredAuthenticated) > 0 {
		r.Key, r.What = fmt.Sprintf("altered-file-unnoticed/%x", r.AlteredAuthenticated[0]), fmt.Sprintf("file(s) %x were altered on a clear-text exchange and returned, and neither an error nor a failed step (passive authentication) is recorded", r.AlteredAuthenticated)
	}
	if !failed && r.UnprotectedFault {
		// a file that the fault-free read obtains and that the (already authenticated) security object lists is gone,
		// and nothing is recorded: an error status on a clear-text SELECT was taken for "file not found"
		have := map[int]bool{}
		for _, d := range r.Present {
			have[d] = true
		}
		for _, d := range base.Present {
			if d >= 1 && d <= 16 && !have[d] {
				r.Key, r.What = "clear-text-fault/listed-data-group-dropped-unnoticed", fmt.Sprintf("DG%d is listed in the security object and stored on the chip; after the fault it is missing from the document, the read reports no error and no failed step (trusted=%v)", d, strings.Contains(r.Complete, "trusted=true"))
				break
			}
		}
	}
	if !failed && r.CardAccessDiffers && r.HasDG14 {
		// a fault on the clear-text EF.CardAccess read: the returned file differs from the chip's although DG14 (which
		// repeats the chip's SecurityInfos and is covered by the security object) was obtained, and nothing is recorded
		r.Key, r.What = "altered-cardaccess-unnoticed-although-dg14-obtained", "the returned EF.CardAccess differs from the chip's file; DG14 was read and authenticated, yet no error and no failed step is recorded"
	}
	return r
}

func run(c *vc.Ctx) {
	if err := refcrypto.SelfTest(); err != nil {
		c.HarnessError("refcrypto self-test: %v", err)
		return
	}
	if err := refpki.EnsureKeys(); err != nil {
		c.HarnessError("refpki keys: %v", err)
		return
	}
	cfgs := configs(c.Thorough())
	ns := map[string]int{}
	sec1 := "D=1: every exchange x every fault kind"
	for _, cc := range cfgs {
		// fault-free run
		base := runCase(cc, nil, 400)
		n := base.Exchanges
		ns[cc.Name] = n
		if base.Key != "" || n < 10 {
			c.Violation(sec1, "fault-free/"+base.Key, fmt.Sprintf("fault-free read of %s: %s (%d exchanges)", cc.Name, base.What, n), caseRec{cc.Name, nil, n}, nil)
			continue
		}
		if c.Shard == 0 {
			c.Outcome(sec1, "fault-free:"+base.Sig)
		}
		for k := 0; k < n; k++ {
			kinds := faultKinds
			if w := base.PlainResp[k]; w > 2 && w <= 130 {
				// a response that travels in the clear and is small (EF.CardAccess, EF.DIR, ATR/ATS-like): a flip at
				// EVERY byte position, not only the first
				kinds = append([]string{}, faultKinds...)
				for i := 1; i < w-2; i++ {
					kinds = append(kinds, fmt.Sprintf("data-bit-flipped@%d", i))
				}
			}
			for _, kind := range kinds {
				if !c.Mine() {
					continue
				}
				if c.Expired() {
					c.SecNotExhaustive(sec1, fmt.Sprintf("deadline in %s at k=%d", cc.Name, k))
					goto d2
				}
				fs := []fault{{k, kind}}
				r := judgeCase(cc, fs, n, base)
				if r.Key != "" {
					rec := caseRec{cc.Name, fs, n}
					c.Violation(sec1, r.Key, fmt.Sprintf("%s, fault %s at exchange %d of %d: %s", cc.Name, kind, k, n, r.What), rec, func() bool { return judgeCase(cc, fs, n, base).Key != "" })
					c.Outcome(sec1, "VIOLATION")
				} else {
					c.Outcome(sec1, r.Sig)
				}
				c.Distinct(fmt.Sprintf("%s/%d/%s/%s", cc.Name, k, kind, r.Sig))
			}
		}
	}
d2:
	c.SecBound(sec1, fmt.Sprintf("%d configurations, exchanges per fault-free read %v, %d fault kinds", len(cfgs), ns, len(faultKinds)))
	c.Extra("fault_free_exchanges", ns)
	// D = 2 on the smallest configuration
	sec2 := "D=2: all ordered pairs of faults"
	d2cfgs := cfgs[:1]
	kinds2 := faultKinds
	if c.Quick() {
		// quick: one configuration, pairs restricted to 4 fault kinds that continue the session (bare status / SW changes)
		kinds2 = []string{"bare-9000", "sw:=6A82", "previous-response", "last-byte-dropped"}
	} else {
		d2cfgs = cfgs[:3]
	}
	c.SecBound(sec2, fmt.Sprintf("%d configuration(s): all pairs k1<k2 (k2 up to N+2) x %d x %d fault kinds", len(d2cfgs), len(kinds2), len(kinds2)))
	for _, small := range d2cfgs {
		n := ns[small.Name]
		if n < 10 {
			continue
		}
		baseSmall := runCase(small, nil, 400)
		for k1 := 0; k1 < n; k1++ {
			for k2 := k1 + 1; k2 < n+3; k2++ {
				if !c.Mine() {
					continue
				}
				if c.Expired() {
					c.SecNotExhaustive(sec2, fmt.Sprintf("deadline in %s at k1=%d", small.Name, k1))
					goto samples
				}
				for _, a := range kinds2 {
					for _, b := range kinds2 {
						fs := []fault{{k1, a}, {k2, b}}
						r := judgeCase(small, fs, n, baseSmall)
						if r.Key != "" {
							rec := caseRec{small.Name, fs, n}
							sm := small
							c.Violation(sec2, r.Key, fmt.Sprintf("%s, faults %v: %s", small.Name, fs, r.What), rec, func() bool { return judgeCase(sm, fs, n, baseSmall).Key != "" })
							c.Outcome(sec2, "VIOLATION")
						} else {
							c.Outcome(sec2, r.Sig)
						}
					}
				}
			}
		}
	}
samples:
	if c.Shard == 0 {
		c.Sample(caseRec{cfgs[1].Name, []fault{{17, "sw:=6982"}}, ns[cfgs[1].Name]})
		c.Sample(caseRec{cfgs[0].Name, []fault{{3, "bare-9000"}, {4, "previous-response"}}, ns[cfgs[0].Name]})
	}
}

func replay(c *vc.Ctx, raw json.RawMessage) string {
	var doc struct {
		Section string  `json:"section"`
		Case    caseRec `json:"case"`
	}
	if err := json.Unmarshal(raw, &doc); err != nil {
		return err.Error()
	}
	refpki.EnsureKeys()
	for _, cc := range configs(true) {
		if cc.Name == doc.Case.Config {
			r := judgeCase(cc, doc.Case.Faults, doc.Case.N, runCase(cc, nil, 400))
			if r.Key != "" {
				c.Violation(doc.Section, r.Key, r.What, doc.Case, nil)
			}
			return fmt.Sprintf("config %s faults %v -> %d exchanges, signature %s; verdict: %s %s", cc.Name, doc.Case.Faults, r.Exchanges, r.Sig, r.Key, r.What)
		}
	}
	return "unknown configuration " + doc.Case.Config
}
